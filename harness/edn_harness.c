/*
 * edn_harness.c - in-process driver of the real DotFox/edn.c library for the
 * correspondence runs of /verif (DESIGN.md section 2.4(b), Appendix A).
 *
 * Two build styles (see vlib/build.py):
 *   -DVERIF_UNITY   : this file #includes every src/*.c of the repository, so
 *                     that static helpers (parse_int64_from_buffer,
 *                     scan_identifier, ratio_gcd, ...) can be called directly.
 *   (separate)      : the repository sources are compiled as their own objects
 *                     and linked with -Wl,--wrap=malloc,... so that every
 *                     allocation request can be counted and failed (F lines),
 *                     and --wrap=edn_arena_create,edn_arena_destroy so that the
 *                     logical requests, frees and arena lives of one read can be
 *                     traced in the vocabulary of the allocation-aware reader
 *                     model lean/Edn/Model/ReaderA.lean (H lines).
 *
 * One ASCII line in, one ASCII line out, flushed after every case, so that
 * after a crash the number of output lines names the crashing input line.
 */
#define _GNU_SOURCE
#include <errno.h>
#include <math.h>
#include <pthread.h>
#include <setjmp.h>
#include <signal.h>
#include <stdbool.h>
#include <stdint.h>
#include <stdio.h>
#include <stdlib.h>
#include <string.h>
#include <sys/mman.h>
#include <sys/time.h>
#include <unistd.h>

#ifdef VERIF_UNITY
/* VF_FILE names the library file being included.  When two library files define a file-private (static)
 * name alike - legal for the library, a clash only for this single translation unit - the build passes
 * -D<name>=VF_CAT(<name>__,VF_FILE) for exactly those names (vlib/common.py unity_renames), which gives each
 * file its own copy of the name; nothing is renamed as long as there is no clash. */
#undef VF_FILE
#define VF_FILE vf_edn_c
#include "edn.c"
#undef VF_FILE
#define VF_FILE vf_arena_c
#include "arena.c"
#undef VF_FILE
#define VF_FILE vf_simd_c
#include "simd.c"
#undef VF_FILE
#define VF_FILE vf_string_c
#include "string.c"
#undef VF_FILE
#define VF_FILE vf_number_c
#include "number.c"
#undef VF_FILE
#define VF_FILE vf_character_c
#include "character.c"
#undef VF_FILE
#define VF_FILE vf_identifier_c
#include "identifier.c"
#undef VF_FILE
#define VF_FILE vf_symbolic_c
#include "symbolic.c"
#undef VF_FILE
#define VF_FILE vf_equality_c
#include "equality.c"
/* C16 (unity build): the scratch allocations of uniqueness.c and the arena requests of the
 * collection builder can be failed on demand; inactive unless a B line or a d<c><m> op sets them */
static int vf_u_fail_malloc = 0, vf_u_fail_calloc = 0;
static void* vf_u_malloc(size_t n) { return vf_u_fail_malloc ? NULL : malloc(n); }
static void* vf_u_calloc(size_t a, size_t b) { return vf_u_fail_calloc ? NULL : calloc(a, b); }
#define malloc vf_u_malloc
#define calloc vf_u_calloc
#undef VF_FILE
#define VF_FILE vf_uniqueness_c
#include "uniqueness.c"
#undef malloc
#undef calloc
static const char* vf_u_sched = NULL; /* '0' = fail, '1' = succeed; exhausted = succeed */
static void* vf_u_arena_alloc(edn_arena_t* a, size_t n) {
    if (vf_u_sched && *vf_u_sched) {
        char c = *vf_u_sched++;
        if (c == '0')
            return NULL;
    }
    return edn_arena_alloc(a, n);
}
#define edn_arena_alloc vf_u_arena_alloc
#undef VF_FILE
#define VF_FILE vf_collection_c
#include "collection.c"
#undef edn_arena_alloc
#undef VF_FILE
#define VF_FILE vf_tagged_c
#include "tagged.c"
#undef VF_FILE
#define VF_FILE vf_discard_c
#include "discard.c"
#undef VF_FILE
#define VF_FILE vf_reader_c
#include "reader.c"
#undef VF_FILE
#define VF_FILE vf_metadata_c
#include "metadata.c"
#undef VF_FILE
#define VF_FILE vf_newline_finder_c
#include "newline_finder.c"
#else
#include "edn.h"
#include "edn_internal.h"
#endif

/* ------------------------------------------------------------------ */
/* allocation accounting / fault injection (separate build only)       */
/* ------------------------------------------------------------------ */
#ifdef VERIF_WRAP
void* __real_malloc(size_t);
void* __real_calloc(size_t, size_t);
void* __real_realloc(void*, size_t);
void __real_free(void*);
void* __real_edn_arena_alloc(edn_arena_t*, size_t);

static int vf_active = 0;       /* counting/failing only while a read is in flight */
static long vf_req = 0;         /* request counter (arena + raw) */
static long vf_fail_at = 0;     /* 0 = never */
static int vf_fail_from = 0;    /* 1 = fail every request from vf_fail_at on */
static long vf_live = 0;        /* live raw blocks allocated while active */
static long vf_fired = 0;
static char vf_trace[1 << 16];
static size_t vf_trace_len = 0;
static int vf_want_trace = 0;

static int vf_should_fail(char kind, size_t size) {
    if (!vf_active)
        return 0;
    vf_req++;
    if (vf_want_trace && vf_trace_len + 40 < sizeof(vf_trace)) {
        vf_trace_len += (size_t) snprintf(vf_trace + vf_trace_len, sizeof(vf_trace) - vf_trace_len,
                                          " %c%zu", kind, size);
    }
    if (vf_fail_at && (vf_req == vf_fail_at || (vf_fail_from && vf_req >= vf_fail_at))) {
        vf_fired++;
        return 1;
    }
    return 0;
}

/* live-block ledger: a small open hash set of pointers allocated while active */
#define LEDGER_N 65536
static void* ledger[LEDGER_N];
static void ledger_add(void* p) {
    if (!p)
        return;
    size_t h = ((uintptr_t) p >> 4) % LEDGER_N;
    for (size_t i = 0; i < LEDGER_N; i++) {
        size_t k = (h + i) % LEDGER_N;
        if (ledger[k] == NULL || ledger[k] == (void*) 1) {
            ledger[k] = p;
            vf_live++;
            return;
        }
    }
}
static int ledger_del(void* p) {
    size_t h = ((uintptr_t) p >> 4) % LEDGER_N;
    for (size_t i = 0; i < LEDGER_N; i++) {
        size_t k = (h + i) % LEDGER_N;
        if (ledger[k] == NULL)
            return 0;
        if (ledger[k] == p) {
            ledger[k] = (void*) 1;
            vf_live--;
            return 1;
        }
    }
    return 0;
}

static int vf_track = 0; /* ledger is maintained while vf_track is set */

/* ---- H command: logical-request accounting (the vocabulary of lean/Edn/Model/ReaderA.lean) ----
 * A logical request is one edn_arena_alloc call of the library, one malloc/calloc/realloc call of the
 * library outside edn_arena_alloc (the two mallocs of edn_arena_create included).  What happens inside
 * __real_edn_arena_alloc (slow path: malloc of a new block) and inside __real_edn_arena_destroy (frees) is
 * neither counted nor failed nor traced.  Raw blocks carry the index of the request that returned them, so
 * that the trace can say which block a free / realloc releases.  Inactive unless an H line is being served;
 * F, the ledger above and every other command are untouched. */
edn_arena_t* __real_edn_arena_create(void);
void __real_edn_arena_destroy(edn_arena_t*);
static int vh_active = 0;
static int vh_in_arena = 0;  /* nesting inside the real arena allocator / destructor */
static int vh_in_create = 0; /* inside edn_arena_create: its mallocs are traced as n / N */
static long vh_req = 0, vh_fail_at = 0;
static int vh_fail_from = 0;
static long vh_live = 0;
static int vh_creates = 0;        /* edn_arena_create calls so far: 0 = the parser's arena, 1 = the temporary one */
static edn_arena_t* vh_arena[4];  /* arenas by creation ordinal */
static int vh_arena_state[4];     /* 0 none, 1 alive, 2 destroyed */
static char* vh_trace = NULL;
static size_t vh_trace_len = 0, vh_trace_cap = 0;
#define VH_N 65536 /* more than the raw blocks one read of a <= 25 kB document can hold at a time */
static void* vh_ptr[VH_N];
static long vh_idx[VH_N];

static void vh_emit(const char* fmt, long v) {
    if (vh_trace_len + 32 > vh_trace_cap) {
        vh_trace_cap = vh_trace_cap ? vh_trace_cap * 2 : 4096;
        vh_trace = (char*) __real_realloc(vh_trace, vh_trace_cap);
    }
    vh_trace_len += (size_t) snprintf(vh_trace + vh_trace_len, vh_trace_cap - vh_trace_len, fmt, v);
}
static void vh_add(void* p, long idx) {
    size_t h = ((uintptr_t) p >> 4) % VH_N;
    for (size_t i = 0; i < VH_N; i++) {
        size_t k = (h + i) % VH_N;
        if (vh_ptr[k] == NULL || vh_ptr[k] == (void*) 1) {
            vh_ptr[k] = p;
            vh_idx[k] = idx;
            vh_live++;
            return;
        }
    }
}
/* returns the request index of the block, or -1 when it is not a live raw block */
static long vh_del(void* p) {
    size_t h = ((uintptr_t) p >> 4) % VH_N;
    for (size_t i = 0; i < VH_N; i++) {
        size_t k = (h + i) % VH_N;
        if (vh_ptr[k] == NULL)
            return -1;
        if (vh_ptr[k] == p) {
            vh_ptr[k] = (void*) 1;
            vh_live--;
            return vh_idx[k];
        }
    }
    return -1;
}
static int vh_next_fails(void) {
    vh_req++;
    return vh_fail_at && (vh_req == vh_fail_at || (vh_fail_from && vh_req >= vh_fail_at));
}
/* kind: 'm' malloc(a), 'c' calloc(a, b), 'r' realloc(old, a) */
static void* vh_raw(char kind, void* old, size_t a, size_t b) {
    if (vh_in_arena)
        return kind == 'm' ? __real_malloc(a) : kind == 'c' ? __real_calloc(a, b) : __real_realloc(old, a);
    int fail = vh_next_fails();
    long idx = vh_req;
    void* p = NULL;
    if (!fail)
        p = kind == 'm' ? __real_malloc(a) : kind == 'c' ? __real_calloc(a, b) : __real_realloc(old, a);
    if (kind == 'r') {
        /* on success the old block is gone; on failure it stays live */
        long oldidx = -1;
        if (old) {
            oldidx = vh_del(old);
            if (!p && oldidx >= 0)
                vh_add(old, oldidx);
        }
        vh_emit(p ? "r%ld" : "R%ld", oldidx);
    } else {
        char letter = (kind == 'm' && vh_in_create) ? 'n' : kind;
        char f[2] = {p ? letter : (char) (letter - 32), 0};
        vh_emit(f, 0);
    }
    if (p)
        vh_add(p, idx);
    return p;
}

void* __wrap_malloc(size_t n) {
    if (vh_active)
        return vh_raw('m', NULL, n, 0);
    if (vf_should_fail('m', n))
        return NULL;
    void* p = __real_malloc(n);
    if (vf_track)
        ledger_add(p);
    return p;
}
void* __wrap_calloc(size_t a, size_t b) {
    if (vh_active)
        return vh_raw('c', NULL, a, b);
    if (vf_should_fail('c', a * b))
        return NULL;
    void* p = __real_calloc(a, b);
    if (vf_track)
        ledger_add(p);
    return p;
}
void* __wrap_realloc(void* q, size_t n) {
    if (vh_active)
        return vh_raw('r', q, n, 0);
    if (vf_should_fail('r', n))
        return NULL;
    if (vf_track && q)
        ledger_del(q);
    void* p = __real_realloc(q, n);
    if (vf_track)
        ledger_add(p);
    return p;
}
void __wrap_free(void* p) {
    if (vh_active && !vh_in_arena && p) {
        long idx = vh_del(p);
        if (idx >= 0)
            vh_emit("f%ld", idx);
        else
            vh_emit("f?", 0);
    }
    if (vf_track && p)
        ledger_del(p);
    __real_free(p);
}
void* __wrap_edn_arena_alloc(edn_arena_t* a, size_t n) {
    if (vh_active) {
        /* one logical request, on the parser's arena (a / A) or on the temporary one (t / T); a NULL arena
         * refuses every request by itself */
        int tmp = (a != NULL && a == vh_arena[1] && vh_arena_state[1] == 1);
        void* p = NULL;
        /* an injected failure is delivered by the arena itself (a request no arena can meet), so that the arena
         * counts it among its refused requests exactly as it counts a failed block malloc */
        int fail = vh_next_fails();
        vh_in_arena++;
        p = fail ? (a ? __real_edn_arena_alloc(a, (size_t) -1) : NULL) : __real_edn_arena_alloc(a, n);
        vh_in_arena--;
        vh_emit(tmp ? (p ? "t" : "T") : (p ? "a" : "A"), 0);
        return p;
    }
    if (vf_should_fail('a', n))
        return a ? __real_edn_arena_alloc(a, (size_t) -1) : NULL; /* refused and counted by the arena */
    /* a malloc made by the slow path (new block) is a request of its own: it can fail while
     * the arena code around it keeps running */
    return __real_edn_arena_alloc(a, n);
}
edn_arena_t* __wrap_edn_arena_create(void) {
    if (!vh_active)
        return __real_edn_arena_create();
    int ord = vh_creates++;
    /* its two mallocs are logical requests of their own (counted, failed and traced by __wrap_malloc) */
    vh_in_create++;
    edn_arena_t* a = __real_edn_arena_create();
    vh_in_create--;
    if (a && ord < 4) {
        /* the record and the first block now belong to the arena: edn_arena_destroy releases them */
        vh_del(a);
        vh_del(a->first);
        vh_arena[ord] = a;
        vh_arena_state[ord] = 1;
    }
    return a;
}
void __wrap_edn_arena_destroy(edn_arena_t* a) {
    if (!vh_active || a == NULL) {
        __real_edn_arena_destroy(a);
        return;
    }
    int ord = -1;
    for (int i = 0; i < 4; i++)
        if (vh_arena[i] == a && vh_arena_state[i] == 1)
            ord = i;
    if (ord >= 0) {
        vh_arena_state[ord] = 2;
        vh_emit("d%ld", (long) ord);
    } else {
        vh_emit("d?", 0);
    }
    vh_in_arena++;
    __real_edn_arena_destroy(a);
    vh_in_arena--;
}
#endif

/* ------------------------------------------------------------------ */
/* helpers                                                             */
/* ------------------------------------------------------------------ */
static int hexval(int c) {
    if (c >= '0' && c <= '9')
        return c - '0';
    if (c >= 'a' && c <= 'f')
        return c - 'a' + 10;
    if (c >= 'A' && c <= 'F')
        return c - 'A' + 10;
    return -1;
}

/* decode hex token ("-" = empty) into a fresh malloc'd buffer */
static unsigned char* unhex(const char* s, size_t* n) {
    if (s == NULL || strcmp(s, "-") == 0) {
        *n = 0;
        return (unsigned char*) calloc(1, 1);
    }
    size_t l = strlen(s) / 2;
    unsigned char* b = (unsigned char*) malloc(l + 1);
    for (size_t i = 0; i < l; i++)
        b[i] = (unsigned char) (hexval(s[2 * i]) * 16 + hexval(s[2 * i + 1]));
    *n = l;
    return b;
}

static void put_hex(FILE* f, const void* p, size_t n) {
    const unsigned char* b = (const unsigned char*) p;
    if (n == 0) {
        fputc('-', f);
        return;
    }
    for (size_t i = 0; i < n; i++)
        fprintf(f, "%02x", b[i]);
}

/* ------------------------------------------------------------------ */
/* input placement                                                     */
/* ------------------------------------------------------------------ */
/* mode 0: exact-size malloc block (ASan red zone right after the last byte)
 * mode 1: read-only mapping whose last byte is flush against a PROT_NONE page
 * tail : bytes placed after `length` when there is room (mode 2: malloc block
 *        with continuation bytes) */
static int place_mode = 0;
static unsigned char tail_bytes[64];
static size_t tail_len = 0;

typedef struct {
    char* ptr;     /* start of the input */
    void* base;    /* allocation to release */
    size_t maplen; /* 0 = malloc */
} placed_t;

static placed_t place_input(const unsigned char* b, size_t n) {
    placed_t p = {0};
    if (n == 0) {
        /* length 0 means "NUL terminated" in the API */
        p.base = calloc(1, 1);
        p.ptr = (char*) p.base;
        return p;
    }
    if (place_mode == 1) {
        long pg = sysconf(_SC_PAGESIZE);
        size_t pages = (n + (size_t) pg - 1) / (size_t) pg;
        size_t maplen = (pages + 1) * (size_t) pg;
        char* m = (char*) mmap(NULL, maplen, PROT_READ | PROT_WRITE, MAP_PRIVATE | MAP_ANONYMOUS, -1, 0);
        if (m == MAP_FAILED) {
            perror("mmap");
            exit(3);
        }
        char* start = m + pages * (size_t) pg - n;
        memset(m, 0x5a, pages * (size_t) pg);
        memcpy(start, b, n);
        mprotect(m, pages * (size_t) pg, PROT_READ);
        mprotect(m + pages * (size_t) pg, (size_t) pg, PROT_NONE);
        p.ptr = start;
        p.base = m;
        p.maplen = maplen;
        return p;
    }
    if (place_mode == 2) {
        p.base = malloc(n + tail_len + 1);
        memcpy(p.base, b, n);
        memcpy((char*) p.base + n, tail_bytes, tail_len);
        ((char*) p.base)[n + tail_len] = 0;
        p.ptr = (char*) p.base;
        return p;
    }
    p.base = malloc(n);
    memcpy(p.base, b, n);
    p.ptr = (char*) p.base;
    return p;
}

static void release_input(placed_t p) {
    if (p.maplen)
        munmap(p.base, p.maplen);
    else
        free(p.base);
}

/* ------------------------------------------------------------------ */
/* canonical dump (public accessors; has_escapes via edn_internal.h)    */
/* ------------------------------------------------------------------ */
static const char* ERRN[] = {"OK",           "INVALID_SYNTAX",  "UNEXPECTED_EOF",   "UNTERMINATED_COLLECTION",
                             "OUT_OF_MEMORY", "INVALID_NUMBER",  "INVALID_STRING",   "INVALID_CHARACTER",
                             "INVALID_DISCARD", "UNMATCHED_DELIMITER", "UNKNOWN_TAG", "DUPLICATE_KEY",
                             "DUPLICATE_ELEMENT"};

static int dump_ranges = 1;

static void dump_value(FILE* f, const edn_value_t* v, int depth);

static void dump_pos(FILE* f, const edn_value_t* v) {
    if (dump_ranges) {
        size_t s = 0, e = 0;
        edn_source_position(v, &s, &e);
        fprintf(f, " %zu %zu", s, e);
    }
}


/* Accessor coherence (oracle on the real code, not modelled): the predicates agree with edn_type as
 * include/edn.h documents, every getter refuses a value of another type without writing through its out
 * parameters, counts of other types are 0, index == count yields NULL, edn_number_as_double agrees with
 * the typed getters.  A disagreement is printed into the dump, where the comparison with the model finds it. */
static int audit_on = 1;
static void audit_node(FILE* f, const edn_value_t* v) {
    if (!audit_on)
        return;
    edn_type_t t = edn_type(v);
    int is_num = t == EDN_TYPE_INT || t == EDN_TYPE_BIGINT || t == EDN_TYPE_FLOAT || t == EDN_TYPE_BIGDEC;
#ifdef EDN_ENABLE_CLOJURE_EXTENSION
    is_num = is_num || t == EDN_TYPE_RATIO;
#endif
    if (edn_is_nil(v) != (t == EDN_TYPE_NIL))
        fputs("!ACCESSOR:is_nil", f);
    if (edn_is_string(v) != (t == EDN_TYPE_STRING))
        fputs("!ACCESSOR:is_string", f);
    if (edn_is_number(v) != (is_num != 0))
        fputs("!ACCESSOR:is_number", f);
    if (edn_is_integer(v) != (t == EDN_TYPE_INT || t == EDN_TYPE_BIGINT))
        fputs("!ACCESSOR:is_integer", f);
    if (edn_is_collection(v) != (t == EDN_TYPE_LIST || t == EDN_TYPE_VECTOR || t == EDN_TYPE_MAP || t == EDN_TYPE_SET))
        fputs("!ACCESSOR:is_collection", f);
    {
        bool b = true;
        bool r = edn_bool_get(v, &b);
        if (r != (t == EDN_TYPE_BOOL) || (!r && b != true))
            fputs("!ACCESSOR:bool_get", f);
    }
    {
        int64_t i = 0x5a5a5a5a5a5aLL;
        bool r = edn_int64_get(v, &i);
        if (r != (t == EDN_TYPE_INT) || (!r && i != 0x5a5a5a5a5a5aLL))
            fputs("!ACCESSOR:int64_get", f);
    }
    {
        double d = 1234.5;
        bool r = edn_double_get(v, &d);
        if (r != (t == EDN_TYPE_FLOAT) || (!r && d != 1234.5))
            fputs("!ACCESSOR:double_get", f);
    }
    {
        uint32_t c = 0xabcdef;
        bool r = edn_character_get(v, &c);
        if (r != (t == EDN_TYPE_CHARACTER) || (!r && c != 0xabcdef))
            fputs("!ACCESSOR:character_get", f);
    }
    {
        size_t len = 77;
        bool neg = true;
        uint8_t radix = 99;
        const char* d = edn_bigint_get(v, &len, &neg, &radix);
        if ((d != NULL) != (t == EDN_TYPE_BIGINT) || (d == NULL && len != 77 && len != 0))
            fputs("!ACCESSOR:bigint_get", f);
        len = 77;
        d = edn_bigdec_get(v, &len, &neg);
        if ((d != NULL) != (t == EDN_TYPE_BIGDEC) || (d == NULL && len != 77 && len != 0))
            fputs("!ACCESSOR:bigdec_get", f);
    }
    if (t != EDN_TYPE_STRING) {
        size_t len = 77;
        if (edn_string_get(v, &len) != NULL || (len != 77 && len != 0))
            fputs("!ACCESSOR:string_get", f);
        if (edn_string_equals(v, ""))
            fputs("!ACCESSOR:string_equals", f);
    }
    {
        const char *ns = (const char*) 1, *nm = (const char*) 1;
        size_t nsl = 77, nml = 77;
        bool r = edn_symbol_get(v, &ns, &nsl, &nm, &nml);
        if (r != (t == EDN_TYPE_SYMBOL) || (!r && (nm != (const char*) 1 || nml != 77)))
            fputs("!ACCESSOR:symbol_get", f);
        ns = nm = (const char*) 1;
        nsl = nml = 77;
        r = edn_keyword_get(v, &ns, &nsl, &nm, &nml);
        if (r != (t == EDN_TYPE_KEYWORD) || (!r && (nm != (const char*) 1 || nml != 77)))
            fputs("!ACCESSOR:keyword_get", f);
    }
    {
        const char* tg = (const char*) 1;
        size_t tl = 77;
        edn_value_t* inner = (edn_value_t*) 1;
        bool r = edn_tagged_get(v, &tg, &tl, &inner);
        if (r != (t == EDN_TYPE_TAGGED) || (!r && (tg != (const char*) 1 || tl != 77 || inner != (edn_value_t*) 1)))
            fputs("!ACCESSOR:tagged_get", f);
    }
    {
        void* data = (void*) 1;
        uint32_t tid = 4242;
        bool r = edn_external_get(v, &data, &tid);
        if (r != (t == EDN_TYPE_EXTERNAL) || (!r && (data != (void*) 1 || tid != 4242)))
            fputs("!ACCESSOR:external_get", f);
        if (r && (!edn_external_is_type(v, tid) || edn_external_is_type(v, tid + 1)))
            fputs("!ACCESSOR:external_is_type", f);
        if (!r && edn_external_is_type(v, 0))
            fputs("!ACCESSOR:external_is_type", f);
    }
    {
        size_t nl = edn_list_count(v), nv = edn_vector_count(v), ns = edn_set_count(v), nm = edn_map_count(v);
        if ((t != EDN_TYPE_LIST && nl) || (t != EDN_TYPE_VECTOR && nv) || (t != EDN_TYPE_SET && ns) || (t != EDN_TYPE_MAP && nm))
            fputs("!ACCESSOR:count", f);
        if (edn_list_get(v, nl) || edn_vector_get(v, nv) || edn_set_get(v, ns) || edn_map_get_key(v, nm) || edn_map_get_value(v, nm))
            fputs("!ACCESSOR:index==count", f);
        if (edn_list_get(v, (size_t) -1) || edn_vector_get(v, (size_t) -1) || edn_set_get(v, (size_t) -1) ||
            edn_map_get_key(v, (size_t) -1) || edn_map_get_value(v, (size_t) -1))
            fputs("!ACCESSOR:index==SIZE_MAX", f);
    }
    {
        double d = 1234.5;
        bool r = edn_number_as_double(v, &d);
        if (r != (is_num != 0) || (!r && d != 1234.5))
            fputs("!ACCESSOR:number_as_double", f);
        else if (r) {
            double want = d;
            int have_want = 0;
            if (t == EDN_TYPE_INT) {
                int64_t i = 0;
                edn_int64_get(v, &i);
                want = (double) i;
                have_want = 1;
            } else if (t == EDN_TYPE_FLOAT) {
                edn_double_get(v, &want);
                have_want = 1;
            } else if (t == EDN_TYPE_BIGINT) {
                size_t len = 0;
                bool neg = false;
                uint8_t radix = 0;
                const char* ds = edn_bigint_get(v, &len, &neg, &radix);
                if (ds && radix == 10 && len < 400 && memchr(ds, '_', len) == NULL) {
                    char buf[402];
                    memcpy(buf, ds, len);
                    buf[len] = 0;
                    want = strtod(buf, NULL);
                    if (neg)
                        want = -want;
                    have_want = 2;
                }
            } else if (t == EDN_TYPE_BIGDEC) {
                size_t len = 0;
                bool neg = false;
                const char* ds = edn_bigdec_get(v, &len, &neg);
                if (ds && len < 400 && memchr(ds, '_', len) == NULL) {
                    char buf[402];
                    memcpy(buf, ds, len);
                    buf[len] = 0;
                    want = strtod(buf, NULL);
                    if (neg)
                        want = -want;
                    have_want = 2;
                }
            }
            if (have_want == 1 && !(isnan(want) && isnan(d)) && memcmp(&want, &d, 8) != 0)
                fputs("!ACCESSOR:number_as_double-value", f);
            if (have_want == 2 && !(isinf(want) && isinf(d) && (want > 0) == (d > 0)) &&
                !(fabs(d - want) <= 1e-9 * fabs(want)))
                fputs("!ACCESSOR:number_as_double-value", f);
        }
    }
}

static void dump_meta(FILE* f, const edn_value_t* v, int depth) {
#ifdef EDN_ENABLE_CLOJURE_EXTENSION
    if (edn_value_has_meta(v)) {
        fputs(" ^", f);
        dump_value(f, edn_value_meta(v), depth + 1);
    }
#else
    (void) f;
    (void) v;
    (void) depth;
#endif
}

static void dump_value(FILE* f, const edn_value_t* v, int depth) {
    if (v == NULL) {
        fputs("(null)", f);
        return;
    }
    if (depth > 100000) {
        fputs("(deep)", f);
        return;
    }
    /* the accessor audit runs AFTER the node's own dump (end of this function): the dump must show what the FIRST
     * accessor call on a node answers (lazily materialised payloads), not the second */
    switch (edn_type(v)) {
        case EDN_TYPE_NIL:
            fputs("(nil", f);
            dump_pos(f, v);
            break;
        case EDN_TYPE_BOOL: {
            bool b = false;
            edn_bool_get(v, &b);
            fprintf(f, "(bool");
            dump_pos(f, v);
            fprintf(f, " %d", b ? 1 : 0);
            break;
        }
        case EDN_TYPE_INT: {
            int64_t i = 0;
            edn_int64_get(v, &i);
            fputs("(int", f);
            dump_pos(f, v);
            fprintf(f, " %lld", (long long) i);
            break;
        }
        case EDN_TYPE_BIGINT: {
            size_t len = 0;
            bool neg = false;
            uint8_t radix = 0;
            const char* d = edn_bigint_get(v, &len, &neg, &radix);
            fputs("(bigint", f);
            dump_pos(f, v);
            fprintf(f, " %d %u ", neg ? 1 : 0, (unsigned) radix);
            if (d)
                put_hex(f, d, len);
            else
                fputs("NULL", f);
            break;
        }
        case EDN_TYPE_FLOAT: {
            double d = 0;
            edn_double_get(v, &d);
            uint64_t u;
            memcpy(&u, &d, 8);
            if (isnan(d))
                u = 0x7ff8000000000000ULL; /* NaN payload/sign is not observable EDN */
            fputs("(float", f);
            dump_pos(f, v);
            fprintf(f, " %016llx", (unsigned long long) u);
            break;
        }
        case EDN_TYPE_BIGDEC: {
            size_t len = 0;
            bool neg = false;
            const char* d = edn_bigdec_get(v, &len, &neg);
            fputs("(bigdec", f);
            dump_pos(f, v);
            fprintf(f, " %d ", neg ? 1 : 0);
            if (d)
                put_hex(f, d, len);
            else
                fputs("NULL", f);
            break;
        }
#ifdef EDN_ENABLE_CLOJURE_EXTENSION
        case EDN_TYPE_RATIO: {
            int64_t n = 0, d = 0;
            edn_ratio_get(v, &n, &d);
            fputs("(ratio", f);
            dump_pos(f, v);
            fprintf(f, " %lld %lld", (long long) n, (long long) d);
            break;
        }
        case EDN_TYPE_BIGRATIO: {
            const char *n = NULL, *d = NULL;
            size_t nl = 0, dl = 0;
            bool neg = false;
            edn_bigratio_get(v, &n, &nl, &neg, &d, &dl);
            fputs("(bigratio", f);
            dump_pos(f, v);
            fprintf(f, " %d ", neg ? 1 : 0);
            put_hex(f, n, nl);
            fputc(' ', f);
            put_hex(f, d, dl);
            break;
        }
#endif
        case EDN_TYPE_CHARACTER: {
            uint32_t c = 0;
            edn_character_get(v, &c);
            fputs("(char", f);
            dump_pos(f, v);
            fprintf(f, " %u", (unsigned) c);
            break;
        }
        case EDN_TYPE_STRING: {
            size_t len = 0;
            const char* s = edn_string_get(v, &len);
            size_t len2 = 0;
            const char* s2 = edn_string_get(v, &len2);
            fputs("(str", f);
            dump_pos(f, v);
            fputc(' ', f);
            if (!s) {
                fputs("ERR", f);
            } else {
                fprintf(f, "%zu ", len);
                put_hex(f, s, len);
                if (s[len] != '\0')
                    fputs(" NOTERM", f);
            }
            if (s != s2 || len != len2)
                fputs(" UNSTABLE", f);
            break;
        }
        case EDN_TYPE_SYMBOL:
        case EDN_TYPE_KEYWORD: {
            const char *ns = NULL, *nm = NULL;
            size_t nsl = 0, nml = 0;
            if (edn_type(v) == EDN_TYPE_SYMBOL) {
                edn_symbol_get(v, &ns, &nsl, &nm, &nml);
                fputs("(sym", f);
            } else {
                edn_keyword_get(v, &ns, &nsl, &nm, &nml);
                fputs("(kw", f);
            }
            dump_pos(f, v);
            fputc(' ', f);
            if (ns)
                put_hex(f, ns, nsl);
            else
                fputc('_', f);
            fputc(' ', f);
            put_hex(f, nm, nml);
            break;
        }
        case EDN_TYPE_LIST: {
            fputs("(list", f);
            dump_pos(f, v);
            size_t n = edn_list_count(v);
            for (size_t i = 0; i < n; i++) {
                fputc(' ', f);
                dump_value(f, edn_list_get(v, i), depth + 1);
            }
            break;
        }
        case EDN_TYPE_VECTOR: {
            fputs("(vec", f);
            dump_pos(f, v);
            size_t n = edn_vector_count(v);
            for (size_t i = 0; i < n; i++) {
                fputc(' ', f);
                dump_value(f, edn_vector_get(v, i), depth + 1);
            }
            break;
        }
        case EDN_TYPE_SET: {
            fputs("(set", f);
            dump_pos(f, v);
            size_t n = edn_set_count(v);
            for (size_t i = 0; i < n; i++) {
                fputc(' ', f);
                dump_value(f, edn_set_get(v, i), depth + 1);
            }
            break;
        }
        case EDN_TYPE_MAP: {
            fputs("(map", f);
            dump_pos(f, v);
            size_t n = edn_map_count(v);
            for (size_t i = 0; i < n; i++) {
                fputc(' ', f);
                dump_value(f, edn_map_get_key(v, i), depth + 1);
                fputc(' ', f);
                dump_value(f, edn_map_get_value(v, i), depth + 1);
            }
            break;
        }
        case EDN_TYPE_TAGGED: {
            const char* t = NULL;
            size_t tl = 0;
            edn_value_t* inner = NULL;
            edn_tagged_get(v, &t, &tl, &inner);
            fputs("(tagged", f);
            dump_pos(f, v);
            fputc(' ', f);
            put_hex(f, t, tl);
            fputc(' ', f);
            dump_value(f, inner, depth + 1);
            break;
        }
        case EDN_TYPE_EXTERNAL: {
            uint32_t tid = 0;
            void* data = NULL;
            edn_external_get(v, &data, &tid);
            fputs("(ext", f);
            dump_pos(f, v);
            fprintf(f, " %u %lu", (unsigned) tid, (unsigned long) (uintptr_t) data);
            break;
        }
        default:
            fprintf(f, "(unknown-type %d", (int) edn_type(v));
            break;
    }
    dump_meta(f, v, depth);
    fputc(')', f);
    audit_node(f, v);
}

/* ------------------------------------------------------------------ */
/* handlers for registry presets (mirrored in the Lean model)          */
/* ------------------------------------------------------------------ */
static __thread char call_log[1 << 16];
static __thread size_t call_log_len = 0;

static void log_call(const char* name, edn_value_t* v) {
    size_t s = 0, e = 0;
    edn_source_position(v, &s, &e);
    if (call_log_len + 64 < sizeof(call_log))
        call_log_len += (size_t) snprintf(call_log + call_log_len, sizeof(call_log) - call_log_len,
                                          " %s@%zu:%zu", name, s, e);
}

static edn_value_t* h_id(edn_value_t* v, edn_arena_t* a, const char** msg) {
    (void) a;
    (void) msg;
    log_call("id", v);
    return v;
}
static edn_value_t* h_fail(edn_value_t* v, edn_arena_t* a, const char** msg) {
    (void) a;
    log_call("fail", v);
    *msg = "boom";
    return NULL;
}
static edn_value_t* h_failq(edn_value_t* v, edn_arena_t* a, const char** msg) {
    (void) a;
    (void) msg;
    log_call("failq", v);
    return NULL;
}
static edn_value_t* h_ext(edn_value_t* v, edn_arena_t* a, const char** msg) {
    (void) msg;
    log_call("ext", v);
    size_t s = 0, e = 0;
    edn_source_position(v, &s, &e);
    return edn_external_create(a, (void*) (uintptr_t) (e - s), 7);
}
static edn_value_t* h_alt(edn_value_t* v, edn_arena_t* a, const char** msg) {
    (void) a;
    (void) msg;
    log_call("alt", v);
    return v;
}

static edn_reader_registry_t* preset_registry = NULL;

static void ensure_preset(void) {
    if (preset_registry)
        return;
    preset_registry = edn_reader_registry_create();
    edn_reader_register(preset_registry, "id", h_id);
    edn_reader_register(preset_registry, "my/id", h_id);
    edn_reader_register(preset_registry, "fail", h_fail);
    edn_reader_register(preset_registry, "failq", h_failq);
    edn_reader_register(preset_registry, "ext", h_ext);
    edn_reader_register(preset_registry, "inst", h_alt);
}

/* the caller's end-of-input value: a real value with an arena of its own, read once at start-up */
static edn_value_t* eof_sentinel_ptr = NULL;
#define EOF_SENTINEL eof_sentinel_ptr

/* R <opt> <hex> : opt bit0 = eof_value, bits1-2 = default mode, bit3 = preset registry,
 * bit4 = pass options==NULL */
static void print_result(FILE* f, edn_result_t r, int with_calls) {
    if (r.value != NULL && r.error != EDN_OK)
        fputs("BOTH ", f);
    if (r.value == NULL && r.error == EDN_OK)
        fputs("NEITHER ", f);
    if (r.value != NULL) {
        if (r.value == EOF_SENTINEL) {
            fputs("eofval", f);
        } else {
            fputs("ok ", f);
            dump_value(f, r.value, 0);
        }
        if (r.error_message != NULL)
            fputs(" MSG-ON-OK", f);
    }
    if (r.error != EDN_OK) {
        int code = (int) r.error;
        fprintf(f, "err %s msg=%d %zu:%zu:%zu %zu:%zu:%zu",
                (code >= 0 && code <= 12) ? ERRN[code] : "BADCODE", r.error_message ? 1 : 0,
                r.error_start.offset, r.error_start.line, r.error_start.column, r.error_end.offset,
                r.error_end.line, r.error_end.column);
    } else if (r.value == NULL) {
        fputs("none", f);
    }
    if (with_calls) {
        fputs(" calls=[", f);
        fputs(call_log_len ? call_log + 1 : "", f);
        fputs("]", f);
    }
}

static edn_result_t do_read(const char* in, size_t n, int opt) {
    edn_parse_options_t o;
    memset(&o, 0, sizeof(o));
    o.eof_value = (opt & 1) ? EOF_SENTINEL : NULL;
    o.default_reader_mode = (edn_default_reader_mode_t) ((opt >> 1) & 3);
    if (opt & 8) {
        ensure_preset();
        o.reader_registry = preset_registry;
    }
    call_log_len = 0;
    call_log[0] = 0;
    if (opt & 16)
        return edn_read_with_options(in, n, NULL);
    return edn_read_with_options(in, n, &o);
}

static sigjmp_buf alarm_jmp;
/* CPU-time alarm (ITIMER_PROF: user + system time of this process), so that a busy machine
 * cannot turn a slow read into a "timeout" */
static void cpu_alarm(int seconds) {
    struct itimerval it;
    memset(&it, 0, sizeof(it));
    it.it_value.tv_sec = seconds;
    setitimer(ITIMER_PROF, &it, NULL);
}
static void on_alarm(int s) {
    (void) s;
    siglongjmp(alarm_jmp, 1);
}

static void cmd_read(char* args, int print_msg) {
    char* optS = strtok(args, " \n");
    char* hex = strtok(NULL, " \n");
    int opt = optS ? atoi(optS) : 0;
    size_t n;
    unsigned char* b = unhex(hex, &n);
    placed_t p = place_input(b, n);
    unsigned char* copy = NULL;
    if (n && place_mode != 1) {
        copy = (unsigned char*) malloc(n);
        memcpy(copy, p.ptr, n);
    }
    if (sigsetjmp(alarm_jmp, 1)) {
        printf("timeout\n");
        fflush(stdout);
        free(b);
        return;
    }
    cpu_alarm(10);
    edn_result_t r = do_read(p.ptr, n, opt);
    cpu_alarm(0);
    print_result(stdout, r, (opt & 8) != 0);
    if (print_msg && r.error_message)
        printf(" text=\"%s\"", r.error_message);
    if (copy && memcmp(copy, p.ptr, n) != 0)
        fputs(" INPUT-MODIFIED", stdout);
    fputc('\n', stdout);
    fflush(stdout);
    if (r.value && r.value != EOF_SENTINEL)
        edn_free(r.value);
    free(copy);
    release_input(p);
    free(b);
}

/* T <nthreads> <rounds> <opt> <hex> <hex> ... : every thread reads every document (the same
 * input buffers, the same read-only registry) `rounds` times, starting at a different document,
 * and compares each dump with the one obtained single-threaded beforehand (C17) */
typedef struct {
    int id, nd, opt, rounds;
    placed_t* in;
    size_t* len;
    char** ref;
    int bad_doc;
} tctx_t;

static char* dump_to_string(edn_result_t r, int calls) {
    char* buf = NULL;
    size_t bl = 0;
    FILE* f = open_memstream(&buf, &bl);
    print_result(f, r, calls);
    if (r.error_message)
        fprintf(f, " text=\"%s\"", r.error_message);
    fclose(f);
    return buf;
}

static void* thread_main(void* a) {
    tctx_t* c = (tctx_t*) a;
    for (int r = 0; r < c->rounds; r++) {
        for (int j = 0; j < c->nd; j++) {
            int i = (j + c->id * 7 + r) % c->nd;
            edn_result_t res = do_read(c->in[i].ptr, c->len[i], c->opt);
            char* d = dump_to_string(res, (c->opt & 8) != 0);
            if (strcmp(d, c->ref[i]) != 0 && c->bad_doc < 0)
                c->bad_doc = i;
            free(d);
            if (res.value && res.value != EOF_SENTINEL)
                edn_free(res.value);
        }
    }
    return NULL;
}

static void cmd_threads(char* args) {
    int nt = atoi(strtok(args, " \n"));
    int rounds = atoi(strtok(NULL, " \n"));
    int opt = atoi(strtok(NULL, " \n"));
    enum { MAXD = 4096 };
    placed_t* in = (placed_t*) calloc(MAXD, sizeof(placed_t));
    size_t* len = (size_t*) calloc(MAXD, sizeof(size_t));
    char** ref = (char**) calloc(MAXD, sizeof(char*));
    int nd = 0;
    char* hex;
    while (nd < MAXD && (hex = strtok(NULL, " \n")) != NULL) {
        size_t n;
        unsigned char* b = unhex(hex, &n);
        in[nd] = place_input(b, n);
        len[nd] = n;
        free(b);
        edn_result_t r = do_read(in[nd].ptr, n, opt);
        ref[nd] = dump_to_string(r, (opt & 8) != 0);
        if (r.value && r.value != EOF_SENTINEL)
            edn_free(r.value);
        nd++;
    }
    if (nt > 64)
        nt = 64;
    pthread_t th[64];
    tctx_t ctx[64];
    for (int t = 0; t < nt; t++) {
        ctx[t] = (tctx_t){t, nd, opt, rounds, in, len, ref, -1};
        pthread_create(&th[t], NULL, thread_main, &ctx[t]);
    }
    int bad_t = -1, bad_d = -1;
    for (int t = 0; t < nt; t++) {
        pthread_join(th[t], NULL);
        if (ctx[t].bad_doc >= 0 && bad_t < 0) {
            bad_t = t;
            bad_d = ctx[t].bad_doc;
        }
    }
    if (bad_t >= 0)
        printf("MISMATCH thread=%d doc=%d ref=%s\n", bad_t, bad_d, ref[bad_d]);
    else
        printf("threads=%d docs=%d reads=%d ok\n", nt, nd, nt * nd * rounds);
    fflush(stdout);
    for (int i = 0; i < nd; i++) {
        release_input(in[i]);
        free(ref[i]);
    }
    free(in);
    free(len);
    free(ref);
}

/* Z <opt> <hex> : like R with the preset registry, but the registry is private to the
 * call and destroyed BEFORE the value is dumped and freed (C15: destroying a registry never
 * invalidates values) */
static void cmd_read_destroy(char* args) {
    char* optS = strtok(args, " \n");
    char* hex = strtok(NULL, " \n");
    int opt = optS ? atoi(optS) : 0;
    size_t n;
    unsigned char* b = unhex(hex, &n);
    placed_t p = place_input(b, n);
    edn_reader_registry_t* saved = preset_registry;
    preset_registry = NULL;
    edn_result_t r = do_read(p.ptr, n, opt | 8);
    edn_reader_registry_destroy(preset_registry);
    preset_registry = saved;
    print_result(stdout, r, 1);
    fputc('\n', stdout);
    fflush(stdout);
    if (r.value && r.value != EOF_SENTINEL)
        edn_free(r.value);
    edn_free(NULL);
    release_input(p);
    free(b);
}

/* ------------------------------------------------------------------ */
/* S : scanners                                                        */
/* ------------------------------------------------------------------ */
static void cmd_scan(char* args) {
    char* name = strtok(args, " \n");
    char* startS = strtok(NULL, " \n");
    char* hex = strtok(NULL, " \n");
    size_t n;
    unsigned char* b = unhex(hex, &n);
    size_t start = startS ? (size_t) atol(startS) : 0;
    placed_t p;
    if (n == 0) {
        p.base = malloc(1);
        p.ptr = (char*) p.base;
        p.maplen = 0;
    } else {
        p = place_input(b, n);
    }
    const char* s = p.ptr + start;
    const char* e = p.ptr + n;
    if (strcmp(name, "ws") == 0) {
        const char* r = edn_simd_skip_whitespace(s, e);
        printf("%ld\n", (long) (r - p.ptr));
    } else if (strcmp(name, "quote") == 0) {
        bool esc = false;
        const char* r = edn_simd_find_quote(s, e, &esc);
        if (r)
            printf("%ld esc=%d\n", (long) (r - p.ptr), esc ? 1 : 0);
        else
            printf("none\n");
    } else if (strcmp(name, "digits") == 0) {
        const char* r = edn_simd_scan_digits(s, e);
        printf("%ld\n", (long) (r - p.ptr));
    } else if (strcmp(name, "identsimd") == 0) {
        edn_identifier_scan_result_t r = edn_simd_scan_identifier(s, e);
        printf("%ld slash=%ld colons=%d\n", (long) (r.end - p.ptr),
               r.first_slash ? (long) (r.first_slash - p.ptr) : -1L, r.has_adjacent_colons ? 1 : 0);
    }
#ifdef VERIF_UNITY
    else if (strcmp(name, "ident") == 0) {
#ifdef HAVE_S_IDENT
        edn_identifier_scan_t r = scan_identifier(s, e);
        if (!r.valid)
            printf("invalid\n");
        else
            printf("valid len=%zu ns=%ld nslen=%zu name=%ld namelen=%zu\n", r.length,
                   r.namespace ? (long) (r.namespace - p.ptr) : -1L, r.ns_length,
                   (long) (r.name - p.ptr), r.name_length);
#else
        printf("unsupported\n");
#endif
    }
#endif
    else {
        printf("bad-scanner\n");
    }
    fflush(stdout);
    release_input(p);
    free(b);
}

/* ------------------------------------------------------------------ */
/* L : newline index and positions for every offset 0..n               */
/* ------------------------------------------------------------------ */
static void cmd_lines(char* args) {
    char* hex = strtok(args, " \n");
    size_t n;
    unsigned char* b = unhex(hex, &n);
    placed_t p;
    if (n == 0) {
        p.base = malloc(1);
        p.ptr = (char*) p.base;
        p.maplen = 0;
    } else {
        p = place_input(b, n);
    }
    edn_arena_t* a = edn_arena_create();
    newline_positions_t* pos = newline_find_all(p.ptr, n, a);
    if (!pos) {
        printf("null\n");
    } else {
        printf("n=%zu [", pos->count);
        for (size_t i = 0; i < pos->count; i++)
            printf("%s%zu", i ? "," : "", pos->offsets[i]);
        printf("]");
        for (size_t off = 0; off <= n; off++) {
            document_position_t d;
            if (newline_get_position(pos, off, &d))
                printf(" %zu:%zu", d.line, d.column);
            else
                printf(" fail");
        }
        printf("\n");
    }
    fflush(stdout);
    edn_arena_destroy(a);
    release_input(p);
    free(b);
}

/* ------------------------------------------------------------------ */
/* N : static number helpers (unity build)                             */
/* ------------------------------------------------------------------ */
#ifdef VERIF_UNITY
static void cmd_num(char* args) {
    char* name = strtok(args, " \n");
    if (strcmp(name, "i64") == 0) {
        int radix = atoi(strtok(NULL, " \n"));
        int neg = atoi(strtok(NULL, " \n"));
        char* hex = strtok(NULL, " \n");
        size_t n;
        unsigned char* b = unhex(hex, &n);
        placed_t p = place_input(b, n ? n : 1);
#ifdef HAVE_N_I64
        int64_t out = 0;
        bool ok = parse_int64_from_buffer(p.ptr, p.ptr + n, &out, (uint8_t) radix, neg != 0);
        if (ok)
            printf("some %lld\n", (long long) out);
        else
            printf("none\n");
#else
        (void) radix; (void) neg;
        printf("unsupported\n");
#endif
        release_input(p);
        free(b);
    } else if (strcmp(name, "d8") == 0) {
        char* hex = strtok(NULL, " \n");
        size_t n;
        unsigned char* b = unhex(hex, &n);
#ifdef HAVE_N_D8
        bool all = is_made_of_eight_digits_fast((const char*) b);
        uint32_t v = parse_eight_digits_unrolled((const char*) b);
        printf("%d %u\n", all ? 1 : 0, (unsigned) v);
#else
        printf("unsupported\n");
#endif
        free(b);
    } else if (strcmp(name, "dbl") == 0) {
        char* hex = strtok(NULL, " \n");
        size_t n;
        unsigned char* b = unhex(hex, &n);
        placed_t p = place_input(b, n ? n : 1);
#ifdef HAVE_N_DBL
        bool dbl_oom = false;
        double d = parse_double_from_buffer(p.ptr, p.ptr + n, &dbl_oom);
        uint64_t u;
        memcpy(&u, &d, 8);
        if (isnan(d))
            u = 0x7ff8000000000000ULL;
        printf("%016llx\n", (unsigned long long) u);
#else
        printf("unsupported\n");
#endif
        release_input(p);
        free(b);
    }
#ifdef EDN_ENABLE_CLOJURE_EXTENSION
    else if (strcmp(name, "gcd") == 0) {
        long long a = strtoll(strtok(NULL, " \n"), NULL, 10);
        long long bb = strtoll(strtok(NULL, " \n"), NULL, 10);
        if (sigsetjmp(alarm_jmp, 1)) {
            printf("timeout\n");
        } else {
#ifdef HAVE_N_GCD
            cpu_alarm(2);
            int64_t g = ratio_gcd((int64_t) a, (int64_t) bb);
            cpu_alarm(0);
            printf("%lld\n", (long long) g);
#else
            (void) a; (void) bb;
            printf("unsupported\n");
#endif
        }
    }
#endif
    else {
        printf("bad-num\n");
    }
    fflush(stdout);
}
#endif

/* ------------------------------------------------------------------ */
/* A : arena request sequences                                          */
/* ------------------------------------------------------------------ */
static void cmd_arena(char* args) {
    edn_arena_t* a = edn_arena_create();
    /* map block address -> ordinal */
    char* tok = strtok(args, " \n");
    while (tok) {
        size_t sz;
        if (tok[0] == 'M') { /* M<k> = SIZE_MAX - k */
            sz = SIZE_MAX - (size_t) strtoull(tok + 1, NULL, 10);
        } else {
            sz = (size_t) strtoull(tok, NULL, 10);
        }
        void* ptr = edn_arena_alloc(a, sz);
        if (!ptr) {
            printf("null ");
        } else {
            /* find block */
            size_t idx = 0;
            arena_block_t* blk = a->first;
            long off = -1;
            size_t cap = 0;
            while (blk) {
                if ((uint8_t*) ptr >= blk->data && (uint8_t*) ptr <= blk->data + blk->capacity) {
                    off = (long) ((uint8_t*) ptr - blk->data);
                    cap = blk->capacity;
                    break;
                }
                idx++;
                blk = blk->next;
            }
            printf("b%zu+%ld/%zu%s ", idx, off, cap, (((uintptr_t) ptr) & 7) ? "!MISALIGNED" : "");
        }
        tok = strtok(NULL, " \n");
    }
    size_t blocks = 0;
    for (arena_block_t* blk = a->first; blk; blk = blk->next)
        blocks++;
    printf("blocks=%zu\n", blocks);
    fflush(stdout);
    edn_arena_destroy(a);
}

/* ------------------------------------------------------------------ */
/* G : reader-registry op sequences; X : external-type table            */
/* ------------------------------------------------------------------ */
static edn_value_t* g_h1(edn_value_t* v, edn_arena_t* a, const char** m) {
    (void) a;
    (void) m;
    return v;
}
static edn_value_t* g_h2(edn_value_t* v, edn_arena_t* a, const char** m) {
    (void) a;
    (void) m;
    return v;
}
static bool x_eq1(const void* a, const void* b) {
    return a == b;
}
static bool x_eq2(const void* a, const void* b) {
    (void) a;
    (void) b;
    return true;
}

/* ops: +tag:1  +tag:2  -tag  ?tag ; after each op prints lookup of the op's tag */
static void cmd_registry(char* args) {
    edn_reader_registry_t* r = edn_reader_registry_create();
    char* tok = strtok(args, " \n");
    char names[64][64];
    int nnames = 0;
    while (tok) {
        char op = tok[0];
        char tag[64];
        int h = 0;
        const char* colon = strchr(tok + 1, '=');
        if (colon) {
            size_t l = (size_t) (colon - (tok + 1));
            memcpy(tag, tok + 1, l);
            tag[l] = 0;
            h = atoi(colon + 1);
        } else {
            strncpy(tag, tok + 1, sizeof(tag) - 1);
            tag[63] = 0;
        }
        int known = 0;
        for (int i = 0; i < nnames; i++)
            if (strcmp(names[i], tag) == 0)
                known = 1;
        if (!known && nnames < 64)
            strcpy(names[nnames++], tag);
        if (op == '+') {
            bool ok = edn_reader_register(r, tag, h == 1 ? g_h1 : g_h2);
            printf("%d", ok ? 1 : 0);
        } else if (op == '-') {
            edn_reader_unregister(r, tag);
            printf("u");
        } else {
            printf("q");
        }
        /* observe the whole table over all names seen so far */
        printf("{");
        for (int i = 0; i < nnames; i++) {
            edn_reader_fn fn = edn_reader_lookup(r, names[i]);
            edn_reader_fn fn2 = edn_reader_lookup_internal(r, names[i], strlen(names[i]));
            printf("%s%s=%d%s", i ? "," : "", names[i], fn == g_h1 ? 1 : (fn == g_h2 ? 2 : 0),
                   fn == fn2 ? "" : "!INTERNAL-DIFFERS");
        }
        printf("} ");
        tok = strtok(NULL, " \n");
    }
    printf("\n");
    fflush(stdout);
    edn_reader_registry_destroy(r);
}

static uint64_t x_hash1(const void* a) {
    (void) a;
    return 11;
}
static uint64_t x_hash2(const void* a) {
    (void) a;
    return 22;
}

/* ops: +id=E or +id=EH (E = equality callback 1|2, H = hash callback 0 (NULL) | 1 | 2), -id, ?id */
static void cmd_external(char* args) {
    uint32_t seen[64];
    int nseen = 0;
    char* tok = strtok(args, " \n");
    while (tok) {
        char op = tok[0];
        uint32_t id = (uint32_t) strtoul(tok + 1, NULL, 10);
        int h = 0;
        const char* eq = strchr(tok, '=');
        if (eq)
            h = atoi(eq + 1);
        int known = 0;
        for (int i = 0; i < nseen; i++)
            if (seen[i] == id)
                known = 1;
        if (!known && nseen < 64)
            seen[nseen++] = id;
        if (op == '+') {
            int e = h >= 10 ? h / 10 : h, hh = h >= 10 ? h % 10 : 0;
            bool ok = edn_external_register_type(id, e == 1 ? x_eq1 : x_eq2, hh == 1 ? x_hash1 : (hh == 2 ? x_hash2 : NULL));
            printf("%d", ok ? 1 : 0);
        } else if (op == '-') {
            edn_external_unregister_type(id);
            printf("u");
        } else {
            printf("q");
        }
        printf("{");
        for (int i = 0; i < nseen; i++) {
            edn_external_equal_fn fn = edn_external_lookup_equal(seen[i]);
            edn_external_hash_fn hf = edn_external_lookup_hash(seen[i]);
            int ec = fn == x_eq1 ? 1 : (fn == x_eq2 ? 2 : 0), hc = hf == x_hash1 ? 1 : (hf == x_hash2 ? 2 : 0);
            printf("%s%u=%d", i ? "," : "", (unsigned) seen[i], hc ? ec * 10 + hc : ec);
        }
        printf("} ");
        tok = strtok(NULL, " \n");
    }
    printf("\n");
    fflush(stdout);
    for (int i = 0; i < nseen; i++)
        edn_external_unregister_type(seen[i]);
}

/* ------------------------------------------------------------------ */
/* Q : value-algebra scripts                                            */
/* ------------------------------------------------------------------ */
#define NREG 16
static edn_value_t* regs[NREG];
static placed_t reg_in[NREG];

static edn_value_t* child_at(edn_value_t* v, size_t i) {
    if (!v)
        return NULL;
    switch (edn_type(v)) {
        case EDN_TYPE_LIST:
            return edn_list_get(v, i);
        case EDN_TYPE_VECTOR:
            return edn_vector_get(v, i);
        case EDN_TYPE_SET:
            return edn_set_get(v, i);
        case EDN_TYPE_MAP:
            return (i % 2 == 0) ? edn_map_get_key(v, i / 2) : edn_map_get_value(v, i / 2);
        case EDN_TYPE_TAGGED: {
            const char* t;
            size_t tl;
            edn_value_t* inner = NULL;
            edn_tagged_get(v, &t, &tl, &inner);
            return i == 0 ? inner : NULL;
        }
        default:
            return NULL;
    }
}

/* path: K.i.j ; "m" component = metadata */
static edn_value_t* resolve(const char* path) {
    char buf[256];
    strncpy(buf, path, sizeof(buf) - 1);
    buf[255] = 0;
    char* save = NULL;
    char* t = strtok_r(buf, ".", &save);
    if (!t)
        return NULL;
    int k = atoi(t);
    if (k < 0 || k >= NREG)
        return NULL;
    edn_value_t* v = regs[k];
    while ((t = strtok_r(NULL, ".", &save)) != NULL) {
        if (t[0] == 'm') {
#ifdef EDN_ENABLE_CLOJURE_EXTENSION
            v = edn_value_meta(v);
#else
            v = NULL;
#endif
        } else {
            v = child_at(v, (size_t) atol(t));
        }
    }
    return v;
}

static void free_regs(void) {
    for (int i = 0; i < NREG; i++) {
        if (regs[i]) {
            edn_free(regs[i]);
            regs[i] = NULL;
            release_input(reg_in[i]);
        }
    }
}

/* script tokens separated by spaces:
 *   r<K>=<hex>     read document into register K (prints ok/err CODE)
 *   h:<p>          hash (prints 16 hex digits)
 *   e:<p>:<q>      equal (0/1)
 *   c:<p>:<q>      compare sign (-1/0/1)
 *   lk:<p>:<q>     map lookup of key q in map p (prints dump without ranges, or none)
 *   ck:<p>:<q>     map contains key
 *   sc:<p>:<q>     set contains
 *   sg:<p>         string get (len hex / ERR)
 *   se:<p>:<hex>   edn_string_equals against NUL-terminated text
 *   gk:<p>:<hex>   edn_map_get_keyword
 *   gn:<p>:<hexns>:<hexname>
 *   gs:<p>:<hex>   edn_map_get_string_key
 *   d:<p>          edn_has_duplicates over the children of p (unity or lib)
 *   t:<p>          dump without ranges
 *   bg:<p>         one direct edn_bigint_get / edn_bigdec_get call, printed like t: (real library only)
 *   f:<K>          free the document of register K now (edn_free + its input); the other registers stay live.
 *                  Prints freed / none.  The pointers remembered by sg for values of register K are forgotten.
 */
/* ------------------------------------------------------------------ */
/* C01: handlers that work while the read is in flight (command K) and  */
/* registries that change under live values (script tokens o<K>= xr xu  */
/* xq).  Oracles on the real library only; the model is not asked.      */
/* ------------------------------------------------------------------ */
/* "Busy" handlers are the preset handlers (same tags, same log entries, same results) preceded by what a real
 * handler does with its operand and its arena (include/edn.h: edn_string_get / getters on the operand,
 * edn_arena_alloc for the payload, edn_external_create): every accessor on the operand - strings are materialised
 * while the arena is still being allocated from -, allocations of assorted sizes written through a typed pointer
 * and filled with a pattern, optionally hash and equality.  The expected answer of `K opt hex` is therefore the
 * model's answer to `R (opt & 7) | 8 hex`; anomalies are appended as !WORDS. */
typedef struct {
    double d;
    size_t n;
} busy_rec_t;
#define BUSY_MAX 2048
static struct {
    unsigned char* p;
    size_t n;
    unsigned char pat;
} busy_blk[BUSY_MAX];
static int busy_nblk = 0;
static unsigned busy_ctr = 0;
static int busy_hash = 0;
static long busy_calls = 0;
static char busy_marks[256];

static void busy_mark(const char* w) {
    if (strstr(busy_marks, w) == NULL && strlen(busy_marks) + strlen(w) + 3 < sizeof(busy_marks)) {
        strcat(busy_marks, " !");
        strcat(busy_marks, w);
    }
}

static void busy_work(edn_value_t* v, edn_arena_t* a) {
    static const size_t sizes[] = {1, 24, 3, 100, 7, 13, 8, 61, 4101, 2, 17, 33, 5, 20011, 9, 6};
    busy_calls++;
    if (v != NULL && ((uintptr_t) v % _Alignof(edn_value_t)) != 0)
        busy_mark("MISALIGNED-OPERAND");
    /* 1. every accessor on the operand and everything below it */
    {
        char* buf = NULL;
        size_t bl = 0;
        FILE* f = open_memstream(&buf, &bl);
        if (f) {
            dump_value(f, v, 0);
            fclose(f);
            if (buf && (strchr(buf, '!') || strstr(buf, "NOTERM") || strstr(buf, "UNSTABLE")))
                busy_mark("ACCESSOR-INSIDE-HANDLER");
            free(buf);
        }
    }
    if (busy_hash) {
        (void) edn_value_hash(v);
        (void) edn_value_equal(v, v);
    }
    /* 2. a payload record (double + size_t, the example of include/edn.h) and 1-3 blocks of odd sizes */
    if (a != NULL) {
        busy_rec_t* rec = (busy_rec_t*) edn_arena_alloc(a, sizeof(busy_rec_t));
        if (rec != NULL) {
            if (((uintptr_t) rec % _Alignof(busy_rec_t)) != 0) {
                busy_mark("MISALIGNED-ALLOCATION");
            } else {
                rec->d = 2.5;
                rec->n = busy_ctr;
            }
            if (busy_nblk < BUSY_MAX) {
                memset(rec, 0xC3, sizeof(busy_rec_t));
                busy_blk[busy_nblk].p = (unsigned char*) rec;
                busy_blk[busy_nblk].n = sizeof(busy_rec_t);
                busy_blk[busy_nblk++].pat = 0xC3;
            }
        }
        int k = 1 + (int) (busy_ctr % 3);
        for (int i = 0; i < k; i++) {
            size_t n = sizes[busy_ctr++ % (sizeof(sizes) / sizeof(sizes[0]))];
            unsigned char* p = (unsigned char*) edn_arena_alloc(a, n);
            if (p == NULL)
                continue;
            unsigned char pat = (unsigned char) (0x40 + (busy_ctr & 0x3f));
            memset(p, pat, n);
            if (busy_nblk < BUSY_MAX) {
                busy_blk[busy_nblk].p = p;
                busy_blk[busy_nblk].n = n;
                busy_blk[busy_nblk++].pat = pat;
            }
        }
    }
}

static edn_value_t* busy_check_value(edn_value_t* r) {
    if (r != NULL && ((uintptr_t) r % _Alignof(edn_value_t)) != 0)
        busy_mark("MISALIGNED-VALUE-CREATED");
    return r;
}
static edn_value_t* hb_id(edn_value_t* v, edn_arena_t* a, const char** msg) {
    busy_work(v, a);
    return h_id(v, a, msg);
}
static edn_value_t* hb_fail(edn_value_t* v, edn_arena_t* a, const char** msg) {
    busy_work(v, a);
    return h_fail(v, a, msg);
}
static edn_value_t* hb_failq(edn_value_t* v, edn_arena_t* a, const char** msg) {
    busy_work(v, a);
    return h_failq(v, a, msg);
}
static edn_value_t* hb_ext(edn_value_t* v, edn_arena_t* a, const char** msg) {
    busy_work(v, a);
    return busy_check_value(h_ext(v, a, msg));
}
static edn_value_t* hb_alt(edn_value_t* v, edn_arena_t* a, const char** msg) {
    busy_work(v, a);
    return h_alt(v, a, msg);
}
/* #xt <int n> : external value of type n & 255 (other operands: type 7); data = length of the operand's text */
static edn_value_t* hb_xt(edn_value_t* v, edn_arena_t* a, const char** msg) {
    (void) msg;
    busy_work(v, a);
    log_call("xt", v);
    int64_t i = 0;
    uint32_t tid = 7;
    if (edn_int64_get(v, &i))
        tid = (uint32_t) (i & 255);
    size_t s = 0, e = 0;
    edn_source_position(v, &s, &e);
    return busy_check_value(edn_external_create(a, (void*) (uintptr_t) (e - s), tid));
}

static edn_reader_registry_t* busy_registry = NULL;
static void ensure_busy(void) {
    if (busy_registry)
        return;
    busy_registry = edn_reader_registry_create();
    edn_reader_register(busy_registry, "id", hb_id);
    edn_reader_register(busy_registry, "my/id", hb_id);
    edn_reader_register(busy_registry, "fail", hb_fail);
    edn_reader_register(busy_registry, "failq", hb_failq);
    edn_reader_register(busy_registry, "ext", hb_ext);
    edn_reader_register(busy_registry, "inst", hb_alt);
    edn_reader_register(busy_registry, "xt", hb_xt);
}

/* opt: bit0 eof value, bits1-2 default mode, bit3 preset registry, bit4 NULL options, bit5 busy registry (wins over
 * bit3), bit6 busy handlers also hash / compare their operand, bits 8.. start of the allocation-size schedule */
static edn_result_t c01_read(const char* in, size_t n, int opt) {
    if (!(opt & 32))
        return do_read(in, n, opt & 31);
    edn_parse_options_t o;
    memset(&o, 0, sizeof(o));
    o.eof_value = (opt & 1) ? EOF_SENTINEL : NULL;
    o.default_reader_mode = (edn_default_reader_mode_t) ((opt >> 1) & 3);
    ensure_busy();
    o.reader_registry = busy_registry;
    busy_hash = (opt & 64) != 0;
    busy_ctr = (unsigned) (opt >> 8);
    busy_nblk = 0;
    busy_calls = 0;
    busy_marks[0] = 0;
    call_log_len = 0;
    call_log[0] = 0;
    return edn_read_with_options(in, n, &o);
}

/* number of nodes of a returned tree that do not lie at an address suitable for edn_value_t */
static long c01_misaligned_nodes(const edn_value_t* v, int depth) {
    if (v == NULL || depth > 5000)
        return 0;
    long bad = ((uintptr_t) v % _Alignof(edn_value_t)) != 0 ? 1 : 0;
    switch (edn_type(v)) {
        case EDN_TYPE_LIST:
        case EDN_TYPE_VECTOR:
        case EDN_TYPE_SET:
        case EDN_TYPE_TAGGED: {
            size_t n = edn_type(v) == EDN_TYPE_LIST     ? edn_list_count(v)
                       : edn_type(v) == EDN_TYPE_VECTOR ? edn_vector_count(v)
                       : edn_type(v) == EDN_TYPE_SET    ? edn_set_count(v)
                                                        : 1;
            for (size_t i = 0; i < n; i++)
                bad += c01_misaligned_nodes(child_at((edn_value_t*) v, i), depth + 1);
            break;
        }
        case EDN_TYPE_MAP: {
            size_t n = edn_map_count(v);
            for (size_t i = 0; i < 2 * n; i++)
                bad += c01_misaligned_nodes(child_at((edn_value_t*) v, i), depth + 1);
            break;
        }
        default:
            break;
    }
#ifdef EDN_ENABLE_CLOJURE_EXTENSION
    if (edn_value_has_meta(v))
        bad += c01_misaligned_nodes(edn_value_meta(v), depth + 1);
#endif
    return bad;
}

/* K <opt> <hex> : read with the busy registry (bit5 is implied); prints what `R (opt&7)|8` prints, then
 * " ;busy calls=<handler calls> blocks=<handler allocations>" and the anomalies seen */
static void cmd_read_busy(char* args) {
    char* optS = strtok(args, " \n");
    char* hex = strtok(NULL, " \n");
    int opt = (optS ? atoi(optS) : 0) | 32;
    size_t n;
    unsigned char* b = unhex(hex, &n);
    placed_t p = place_input(b, n);
    unsigned char* copy = NULL;
    if (n && place_mode != 1) {
        copy = (unsigned char*) malloc(n);
        memcpy(copy, p.ptr, n);
    }
    if (sigsetjmp(alarm_jmp, 1)) {
        printf("timeout\n");
        fflush(stdout);
        free(b);
        return;
    }
    cpu_alarm(10);
    edn_result_t r = c01_read(p.ptr, n, opt & ~16);
    cpu_alarm(0);
    int live = r.value != NULL && r.value != EOF_SENTINEL;
    long bad = live ? c01_misaligned_nodes(r.value, 0) : 0;
    print_result(stdout, r, 1);
    if (copy && memcmp(copy, p.ptr, n) != 0)
        fputs(" INPUT-MODIFIED", stdout);
    printf(" ;busy calls=%ld blocks=%d", busy_calls, busy_nblk);
    if (bad)
        printf(" !MISALIGNED-NODES=%ld", bad);
    if (live) {
        /* what the handlers wrote into their own allocations is still there */
        int changed = 0;
        for (int i = 0; i < busy_nblk; i++)
            for (size_t j = 0; j < busy_blk[i].n; j++)
                if (busy_blk[i].p[j] != busy_blk[i].pat)
                    changed = 1;
        if (changed)
            fputs(" !HANDLER-ALLOCATION-OVERWRITTEN", stdout);
    }
    fputs(busy_marks, stdout);
    fputc('\n', stdout);
    fflush(stdout);
    if (live)
        edn_free(r.value);
    free(copy);
    release_input(p);
    free(b);
}

/* script tokens (Q):
 *   o<K>=<opt>,<hex>  read into register K with options (c01_read: registries, default modes, eof value)
 *   xr:<id>:<EH>      edn_external_register_type (E, H as in the X command), prints 0/1
 *   xu:<id>           edn_external_unregister_type, prints u
 *   xq:<id>           which callbacks are registered for id (as the X command prints them)
 * every type registered by a script is unregistered when the script ends */
static uint32_t c01_ids[64];
static int c01_nids = 0;

static int c01_script_token(const char* tok) {
    if (tok[0] == 'o' && tok[1] >= '0' && tok[1] <= '9') {
        int k = atoi(tok + 1);
        const char* eq = strchr(tok, '=');
        const char* comma = eq ? strchr(eq, ',') : NULL;
        if (!eq || !comma || k < 0 || k >= NREG) {
            printf("bad-op");
            return 1;
        }
        int opt = atoi(eq + 1);
        size_t n;
        unsigned char* b = unhex(comma + 1, &n);
        if (regs[k]) {
            edn_free(regs[k]);
            release_input(reg_in[k]);
            regs[k] = NULL;
        }
        reg_in[k] = place_input(b, n);
        edn_result_t r = c01_read(reg_in[k].ptr, n, opt);
        if (r.value != NULL && r.value != EOF_SENTINEL) {
            regs[k] = r.value;
            printf("ok");
        } else {
            if (r.value != NULL)
                printf("eofval");
            else
                printf("err:%s", ((int) r.error >= 0 && (int) r.error <= 12) ? ERRN[r.error] : "BADCODE");
            release_input(reg_in[k]);
        }
        if (opt & 32)
            fputs(busy_marks, stdout);
        free(b);
        return 1;
    }
    if (strncmp(tok, "xr:", 3) == 0 || strncmp(tok, "xu:", 3) == 0 || strncmp(tok, "xq:", 3) == 0) {
        uint32_t id = (uint32_t) strtoul(tok + 3, NULL, 10);
        const char* c2 = strchr(tok + 3, ':');
        int h = c2 ? atoi(c2 + 1) : 1;
        if (tok[1] == 'r') {
            int e = h >= 10 ? h / 10 : h, hh = h >= 10 ? h % 10 : 0;
            int known = 0;
            for (int i = 0; i < c01_nids; i++)
                if (c01_ids[i] == id)
                    known = 1;
            if (!known && c01_nids < 64)
                c01_ids[c01_nids++] = id;
            bool ok = edn_external_register_type(id, e == 1 ? x_eq1 : x_eq2, hh == 1 ? x_hash1 : (hh == 2 ? x_hash2 : NULL));
            printf("%d", ok ? 1 : 0);
        } else if (tok[1] == 'u') {
            edn_external_unregister_type(id);
            printf("u");
        } else {
            edn_external_equal_fn fn = edn_external_lookup_equal(id);
            edn_external_hash_fn hf = edn_external_lookup_hash(id);
            int ec = fn == x_eq1 ? 1 : (fn == x_eq2 ? 2 : (fn ? 9 : 0)), hc = hf == x_hash1 ? 1 : (hf == x_hash2 ? 2 : (hf ? 9 : 0));
            printf("%d", ec * 10 + hc);
        }
        return 1;
    }
    return 0;
}

static void c01_script_end(void) {
    for (int i = 0; i < c01_nids; i++)
        edn_external_unregister_type(c01_ids[i]);
    c01_nids = 0;
}

static const edn_value_t* sg_vals[64];
static const char* sg_ptrs[64];
static int sg_regs[64]; /* register each remembered value belongs to (f:<K> forgets them) */
static int sg_n = 0;

static void cmd_script(char* args) {
    int save_ranges = dump_ranges;
    sg_n = 0;
    char* save = NULL;
    char* tok = strtok_r(args, " \n", &save);
    int first = 1;
    while (tok) {
        if (!first)
            fputc('\t', stdout); /* dumps contain spaces: operations are tab-separated */
        first = 0;
        if (tok[0] == 'r' && tok[1] >= '0' && tok[1] <= '9') {
            int k = atoi(tok + 1);
            const char* eq = strchr(tok, '=');
            size_t n;
            unsigned char* b = unhex(eq ? eq + 1 : "-", &n);
            if (k >= 0 && k < NREG) {
                if (regs[k]) {
                    edn_free(regs[k]);
                    release_input(reg_in[k]);
                    regs[k] = NULL;
                }
                reg_in[k] = place_input(b, n);
                edn_result_t r = edn_read(reg_in[k].ptr, n);
                regs[k] = r.value;
                if (r.value)
                    printf("ok");
                else {
                    printf("err:%s", ERRN[r.error]);
                    release_input(reg_in[k]);
                }
            }
            free(b);
        } else if (c01_script_token(tok)) {
            /* o<K>=<opt>,<hex> xr xu xq : see c01_script_token */
        } else {
            char cpy[1024];
            strncpy(cpy, tok, sizeof(cpy) - 1);
            cpy[1023] = 0;
            char* s2 = NULL;
            char* op = strtok_r(cpy, ":", &s2);
            char* a1 = strtok_r(NULL, ":", &s2);
            char* a2 = strtok_r(NULL, ":", &s2);
            char* a3 = strtok_r(NULL, ":", &s2);
            edn_value_t* p = a1 ? resolve(a1) : NULL;
            if (strcmp(op, "h") == 0) {
                printf("%016llx", (unsigned long long) edn_value_hash(p));
            } else if (strcmp(op, "e") == 0) {
                printf("%d", edn_value_equal(p, resolve(a2)) ? 1 : 0);
            } else if (strcmp(op, "c") == 0) {
                const edn_value_t* x = p;
                const edn_value_t* y = resolve(a2);
                int c = edn_value_compare(&x, &y);
                printf("%d", c < 0 ? -1 : (c > 0 ? 1 : 0));
            } else if (strcmp(op, "lk") == 0) {
                edn_value_t* r = edn_map_lookup(p, resolve(a2));
                dump_ranges = 0;
                if (r)
                    dump_value(stdout, r, 0);
                else
                    printf("none");
                dump_ranges = save_ranges;
            } else if (strcmp(op, "ck") == 0) {
                printf("%d", edn_map_contains_key(p, resolve(a2)) ? 1 : 0);
            } else if (strcmp(op, "sc") == 0) {
                printf("%d", edn_set_contains(p, resolve(a2)) ? 1 : 0);
            } else if (strcmp(op, "sg") == 0) {
                size_t len = 0;
                const char* s = edn_string_get(p, &len);
                if (!s)
                    printf("ERR");
                else {
                    printf("%zu:", len);
                    put_hex(stdout, s, len);
                    /* C06: NUL after the end, and the same pointer every time for the same value */
                    if (s[len] != 0)
                        printf("!NOTERM");
                    int seen_at = -1;
                    for (int q = 0; q < sg_n; q++)
                        if (sg_vals[q] == p)
                            seen_at = q;
                    if (seen_at >= 0 && sg_ptrs[seen_at] != s)
                        printf("!UNSTABLE");
                    if (seen_at < 0 && sg_n < 64) {
                        sg_vals[sg_n] = p;
                        sg_regs[sg_n] = atoi(a1);
                        sg_ptrs[sg_n++] = s;
                    }
                }
            } else if (strcmp(op, "f") == 0) {
                /* C06 (lifetimes): a document is freed while values of other documents are still in use */
                int k = a1 ? atoi(a1) : -1;
                if (k >= 0 && k < NREG && regs[k]) {
                    edn_free(regs[k]);
                    regs[k] = NULL;
                    release_input(reg_in[k]);
                    int w = 0;
                    for (int q = 0; q < sg_n; q++) {
                        if (sg_regs[q] != k) {
                            sg_vals[w] = sg_vals[q];
                            sg_ptrs[w] = sg_ptrs[q];
                            sg_regs[w++] = sg_regs[q];
                        }
                    }
                    sg_n = w;
                    printf("freed");
                } else {
                    printf("none");
                }
            } else if (strcmp(op, "se") == 0) {
                size_t n;
                unsigned char* b = unhex(a2, &n);
                b[n] = 0;
                printf("%d", edn_string_equals(p, (const char*) b) ? 1 : 0);
                free(b);
            } else if (strcmp(op, "gk") == 0 || strcmp(op, "gs") == 0) {
                size_t n;
                unsigned char* b = unhex(a2, &n);
                b[n] = 0;
                edn_value_t* r = (op[1] == 'k') ? edn_map_get_keyword(p, (const char*) b)
                                                : edn_map_get_string_key(p, (const char*) b);
                dump_ranges = 0;
                if (r)
                    dump_value(stdout, r, 0);
                else
                    printf("none");
                dump_ranges = save_ranges;
                free(b);
            } else if (strcmp(op, "gn") == 0) {
                size_t n1, n2;
                unsigned char* b1 = unhex(a2, &n1);
                unsigned char* b2 = unhex(a3, &n2);
                b1[n1] = 0;
                b2[n2] = 0;
                edn_value_t* r = edn_map_get_namespaced_keyword(p, (const char*) b1, (const char*) b2);
                dump_ranges = 0;
                if (r)
                    dump_value(stdout, r, 0);
                else
                    printf("none");
                dump_ranges = save_ranges;
                free(b1);
                free(b2);
            } else if (strcmp(op, "d") == 0 || (op[0] == 'd' && strlen(op) == 3)) {
#ifdef VERIF_UNITY
                if (op[1]) {
                    vf_u_fail_calloc = (op[1] == '0');
                    vf_u_fail_malloc = (op[2] == '0');
                }
#endif
                size_t n = 0;
                if (p) {
                    switch (edn_type(p)) {
                        case EDN_TYPE_LIST:
                            n = edn_list_count(p);
                            break;
                        case EDN_TYPE_VECTOR:
                            n = edn_vector_count(p);
                            break;
                        default:
                            break;
                    }
                }
                edn_value_t** el = (edn_value_t**) malloc((n + 1) * sizeof(edn_value_t*));
                for (size_t i = 0; i < n; i++)
                    el[i] = child_at(p, i);
                printf("%d", edn_has_duplicates(el, n) ? 1 : 0);
#ifdef VERIF_UNITY
                vf_u_fail_calloc = vf_u_fail_malloc = 0;
#endif
                free(el);
            } else if (strcmp(op, "t") == 0) {
                dump_ranges = 0;
                dump_value(stdout, p, 0);
                dump_ranges = save_ranges;
            } else if (strcmp(op, "bg") == 0) {
                /* C04: ONE direct call of the big-number accessor (no accessor audit before it, unlike t:), printed like
                 * the dump without ranges; real library only, the model is not asked */
                size_t len = 0;
                bool neg = false;
                uint8_t radix = 0;
                const char* dg;
                if (p && edn_type(p) == EDN_TYPE_BIGINT) {
                    dg = edn_bigint_get(p, &len, &neg, &radix);
                    printf("(bigint %d %u ", neg ? 1 : 0, (unsigned) radix);
                    if (dg)
                        put_hex(stdout, dg, len);
                    else
                        fputs("NULL", stdout);
                    fputc(')', stdout);
                } else if (p && edn_type(p) == EDN_TYPE_BIGDEC) {
                    dg = edn_bigdec_get(p, &len, &neg);
                    printf("(bigdec %d ", neg ? 1 : 0);
                    if (dg)
                        put_hex(stdout, dg, len);
                    else
                        fputs("NULL", stdout);
                    fputc(')', stdout);
                } else {
                    printf("(notbig)");
                }
            } else {
                printf("bad-op");
            }
        }
        tok = strtok_r(NULL, " \n", &save);
    }
    fputc('\n', stdout);
    fflush(stdout);
    free_regs();
    c01_script_end();
}

/* ------------------------------------------------------------------ */
/* B : the collection builder under an allocation schedule (unity)      */
/* ------------------------------------------------------------------ */
#if defined(VERIF_UNITY) && !defined(HAVE_B_BUILDER)
static void cmd_builder(char* args) {
    (void) args;
    printf("unsupported\n");
    fflush(stdout);
}
#endif
#if defined(VERIF_UNITY) && defined(HAVE_B_BUILDER)
/* B <initcap> <n> <schedule of 0/1 or -> */
static void cmd_builder(char* args) {
    char* ic = strtok(args, " \n");
    char* ns = strtok(NULL, " \n");
    char* sch = strtok(NULL, " \n");
    size_t initcap = ic ? (size_t) atol(ic) : 8, n = ns ? (size_t) atol(ns) : 0;
    edn_arena_t* arena = edn_arena_create();
    edn_collection_builder_t b;
    vf_u_sched = (sch && strcmp(sch, "-") != 0) ? sch : NULL;
    edn_collection_builder_init(&b, arena, initcap);
    int failed = 0;
    for (size_t i = 0; i < n; i++) {
        if (!edn_collection_builder_add(&b, (edn_value_t*) (uintptr_t) (0x1000 + 8 * i))) {
            printf("addfail %zu\n", i);
            failed = 1;
            break;
        }
    }
    if (!failed) {
        size_t count = 0;
        edn_value_t** arr = edn_collection_builder_finish(&b, &count);
        if (arr == NULL) {
            printf("null count=%zu\n", count);
        } else if ((void*) arr >= (void*) &b && (void*) arr < (void*) (&b + 1)) {
            printf("STACK count=%zu\n", count);
        } else {
            int ok = 1;
            for (size_t i = 0; i < count; i++)
                if (arr[i] != (edn_value_t*) (uintptr_t) (0x1000 + 8 * i))
                    ok = 0;
            printf("heap count=%zu %s\n", count, ok ? "ok" : "CORRUPT");
        }
    }
    vf_u_sched = NULL;
    fflush(stdout);
    edn_arena_destroy(arena);
}
#endif

/* ------------------------------------------------------------------ */
/* F : fault schedules (wrap build)                                     */
/* ------------------------------------------------------------------ */
#ifdef VERIF_WRAP
/* F <k> <mode> <opt> <hex> ; k = 0: print the request trace ; mode 1 = only k, 2 = from k on
 * After the read the tree is dumped (touching every element array), then all
 * strings/bignums are materialised under the same schedule (lazy allocation). */
static void cmd_fault(char* args) {
    long k = atol(strtok(args, " \n"));
    int mode = atoi(strtok(NULL, " \n"));
    int opt = atoi(strtok(NULL, " \n"));
    char* hex = strtok(NULL, " \n");
    size_t n;
    unsigned char* b = unhex(hex, &n);
    placed_t p = place_input(b, n);
    vf_req = 0;
    vf_fail_at = k;
    vf_fail_from = (mode == 2);
    vf_fired = 0;
    vf_live = 0;
    memset(ledger, 0, sizeof(ledger));
    vf_trace_len = 0;
    vf_trace[0] = 0;
    vf_want_trace = (k == 0);
    if (opt & 8)
        ensure_preset(); /* the harness's own registry is not part of the read */
    vf_active = 1;
    vf_track = 1;
    edn_result_t r = do_read(p.ptr, n, opt);
    long reqs_read = vf_req;
    /* dump (strings are materialised here: lazy allocations are part of the schedule) */
    print_result(stdout, r, 0);
    long reqs_all = vf_req;
    vf_active = 0;
    if (r.value && r.value != EOF_SENTINEL)
        edn_free(r.value);
    vf_track = 0;
    printf(" reqs=%ld/%ld fired=%ld live=%ld", reqs_read, reqs_all, vf_fired, vf_live);
    if (k == 0)
        printf(" trace=[%s]", vf_trace_len ? vf_trace + 1 : "");
    printf("\n");
    fflush(stdout);
    release_input(p);
    free(b);
}
#endif

#ifdef VERIF_WRAP
/* H <k> <mode> <opt> <hex> : read with logical request k failing (mode 1: only k, mode 2: k and every later
 * one, k = 0: none).  Prints the outcome exactly as R does, then the number of logical requests made by the
 * read, the raw blocks still live when it returned, what became of the parser's arena, and the event trace
 * (a/A arena request ok/failed, t/T the same on the temporary arena, n/N the two mallocs of edn_arena_create,
 * m/M any other malloc, c/C calloc, r<id>/R<id>
 * realloc of block <id>, f<id> free of block <id>, d0/d1 destruction of the parser's / temporary arena; a block's
 * id is the index of the request that returned it).  Accessors called by the dump are outside the schedule in modes
 * 1 / 2; modes 3 / 4 are 1 / 2 with the schedule running on through the dump, whose requests are then reported as
 * dump-reqs=<total> dump-trace=[...]. */
static void cmd_hfault(char* args) {
    long k = atol(strtok(args, " \n"));
    int mode = atoi(strtok(NULL, " \n"));
    int opt = atoi(strtok(NULL, " \n"));
    char* hex = strtok(NULL, " \n");
    size_t n;
    unsigned char* b = unhex(hex, &n);
    placed_t p = place_input(b, n);
    if (opt & 8)
        ensure_preset(); /* the harness's own registry is not part of the read */
    vh_req = 0;
    vh_fail_at = k;
    vh_fail_from = (mode == 2 || mode == 4);
    vh_live = 0;
    vh_creates = 0;
    vh_in_arena = 0;
    vh_in_create = 0;
    memset(vh_ptr, 0, sizeof(vh_ptr));
    memset(vh_arena, 0, sizeof(vh_arena));
    memset(vh_arena_state, 0, sizeof(vh_arena_state));
    vh_trace_len = 0;
    vh_emit("", 0);
    vh_trace[0] = 0;
    vh_active = 1;
    edn_result_t r = do_read(p.ptr, n, opt);
    vh_active = 0;
    long reqs = vh_req, live = vh_live;
    int ast = vh_arena_state[0];
    size_t read_trace_len = vh_trace_len;
    /* modes 3 / 4: the schedule runs on through the accessor calls of the dump (lazily materialised payloads) */
    if (mode == 3 || mode == 4)
        vh_active = 1;
    print_result(stdout, r, (opt & 8) != 0);
    vh_active = 0;
    printf(" reqs=%ld live=%ld arena=%s trace=[%.*s]", reqs, live, ast == 1 ? "owned" : ast == 2 ? "destroyed" : "none",
           (int) read_trace_len, vh_trace);
    if (mode == 3 || mode == 4)
        printf(" dump-reqs=%ld dump-trace=[%s]", vh_req, vh_trace + read_trace_len);
    printf("\n");
    fflush(stdout);
    if (r.value && r.value != EOF_SENTINEL)
        edn_free(r.value);
    release_input(p);
    free(b);
}
#endif

/* ------------------------------------------------------------------ */
int main(int argc, char** argv) {
    (void) argc;
    (void) argv;
    signal(SIGALRM, on_alarm);
    signal(SIGPROF, on_alarm);
    {
        edn_result_t er = edn_read(":verif/eof-sentinel", 0);
        eof_sentinel_ptr = er.value;
    }
    edn_free(NULL); /* harmless by contract */
    size_t cap = 1 << 22;
    char* line = (char*) malloc(cap);
    while (1) {
        ssize_t got = getline(&line, &cap, stdin);
        if (got <= 0)
            break;
        if (line[0] == '\n' || line[0] == 0) {
            printf("\n");
            fflush(stdout);
            continue;
        }
        char cmd = line[0];
        char* args = line + 1;
        while (*args == ' ')
            args++;
        switch (cmd) {
            case 'R':
                cmd_read(args, 0);
                break;
            case 'M': /* like R but also prints the message text (impl-vs-impl oracles) */
                cmd_read(args, 1);
                break;
            case 'Z':
                cmd_read_destroy(args);
                break;
            case 'T':
                cmd_threads(args);
                break;
            case 'S':
                cmd_scan(args);
                break;
            case 'L':
                cmd_lines(args);
                break;
#ifdef VERIF_UNITY
            case 'N':
                cmd_num(args);
                break;
#endif
            case 'A':
                cmd_arena(args);
                break;
#ifdef VERIF_UNITY
            case 'B':
                cmd_builder(args);
                break;
#endif
            case 'G':
                cmd_registry(args);
                break;
            case 'X':
                cmd_external(args);
                break;
            case 'K': /* read with handlers that use accessors and the arena (C01) */
                cmd_read_busy(args);
                break;
            case 'Q':
                cmd_script(args);
                break;
#ifdef VERIF_WRAP
            case 'F':
                cmd_fault(args);
                break;
            case 'H':
                cmd_hfault(args);
                break;
#endif
            case 'P': { /* P <mode> [tailhex] : input placement */
                char* m = strtok(args, " \n");
                char* t = strtok(NULL, " \n");
                place_mode = m ? atoi(m) : 0;
                tail_len = 0;
                if (t) {
                    size_t n;
                    unsigned char* b = unhex(t, &n);
                    if (n > sizeof(tail_bytes))
                        n = sizeof(tail_bytes);
                    memcpy(tail_bytes, b, n);
                    tail_len = n;
                    free(b);
                }
                printf("placement %d\n", place_mode);
                fflush(stdout);
                break;
            }
            case 'D': { /* D <0/1> : ranges in dumps */
                dump_ranges = atoi(args);
                printf("ranges %d\n", dump_ranges);
                fflush(stdout);
                break;
            }
            default:
                printf("bad-line\n");
                fflush(stdout);
        }
    }
    free(line);
    if (preset_registry)
        edn_reader_registry_destroy(preset_registry);
    return 0;
}
