/*
 * probe.c - does the current source tree still have the static helper PROBE_<X> with the
 * signature the harness uses?  Compiled with -fsyntax-only once per helper; a helper that is
 * missing (renamed, inlined away, new signature) only disables the harness command built on it.
 */
#include <stdbool.h>
#include <stddef.h>
#include <stdint.h>
#undef VF_FILE
#define VF_FILE vf_edn_c
#include "edn.c"
#undef VF_FILE
#define VF_FILE vf_arena_c
#include "arena.c"
#undef VF_FILE
#define VF_FILE vf_simd_c
#include "simd.c"
#undef VF_FILE
#define VF_FILE vf_string_c
#include "string.c"
#undef VF_FILE
#define VF_FILE vf_number_c
#include "number.c"
#undef VF_FILE
#define VF_FILE vf_character_c
#include "character.c"
#undef VF_FILE
#define VF_FILE vf_identifier_c
#include "identifier.c"
#undef VF_FILE
#define VF_FILE vf_symbolic_c
#include "symbolic.c"
#undef VF_FILE
#define VF_FILE vf_equality_c
#include "equality.c"
#undef VF_FILE
#define VF_FILE vf_uniqueness_c
#include "uniqueness.c"
#undef VF_FILE
#define VF_FILE vf_collection_c
#include "collection.c"
#undef VF_FILE
#define VF_FILE vf_tagged_c
#include "tagged.c"
#undef VF_FILE
#define VF_FILE vf_discard_c
#include "discard.c"
#undef VF_FILE
#define VF_FILE vf_reader_c
#include "reader.c"
#undef VF_FILE
#define VF_FILE vf_metadata_c
#include "metadata.c"
#undef VF_FILE
#define VF_FILE vf_newline_finder_c
#include "newline_finder.c"

void probe(void) {
#ifdef PROBE_N_I64
    int64_t o = 0;
    bool ok = parse_int64_from_buffer("1", "1" + 1, &o, (uint8_t) 10, false);
    (void) ok;
#endif
#ifdef PROBE_N_D8
    bool all = is_made_of_eight_digits_fast("12345678");
    uint32_t v = parse_eight_digits_unrolled("12345678");
    (void) all; (void) v;
#endif
#ifdef PROBE_N_DBL
    bool oom = false;
    double d = parse_double_from_buffer("1", "1" + 1, &oom);
    (void) d;
#endif
#ifdef PROBE_N_GCD
    int64_t g = ratio_gcd((int64_t) 4, (int64_t) 6);
    (void) g;
#endif
#ifdef PROBE_S_IDENT
    const char* t = "ab";
    edn_identifier_scan_t r = scan_identifier(t, t + 2);
    (void) r.valid; (void) r.length; (void) r.namespace; (void) r.ns_length; (void) r.name; (void) r.name_length;
#endif
#ifdef PROBE_B_BUILDER
    edn_collection_builder_t b;
    edn_collection_builder_init(&b, NULL, 8);
    bool ok2 = edn_collection_builder_add(&b, NULL);
    size_t count = 0;
    edn_value_t** arr = edn_collection_builder_finish(&b, &count);
    (void) ok2; (void) arr; (void) b.inline_storage;
#endif
}
