/*
 * probe.c - does the current source tree still have the static helper PROBE_<X> with the
 * signature the harness uses?  Compiled with -fsyntax-only once per helper; a helper that is
 * missing (renamed, inlined away, new signature) only disables the harness command built on it.
 */
#include <stdbool.h>
#include <stddef.h>
#include <stdint.h>
#include "edn.c"
#include "arena.c"
#include "simd.c"
#include "string.c"
#include "number.c"
#include "character.c"
#include "identifier.c"
#include "symbolic.c"
#include "equality.c"
#include "uniqueness.c"
#include "collection.c"
#include "tagged.c"
#include "discard.c"
#include "reader.c"
#include "metadata.c"
#include "newline_finder.c"

void probe(void) {
#ifdef PROBE_N_I64
    int64_t o = 0;
    bool ok = parse_int64_from_buffer("1", "1" + 1, &o, (uint8_t) 10, false);
    (void) ok;
#endif
#ifdef PROBE_N_D8
    bool all = is_made_of_eight_digits_fast("12345678");
    uint32_t v = parse_eight_digits_unrolled("12345678");
    (void) all; (void) v;
#endif
#ifdef PROBE_N_DBL
    bool oom = false;
    double d = parse_double_from_buffer("1", "1" + 1, &oom);
    (void) d;
#endif
#ifdef PROBE_N_GCD
    int64_t g = ratio_gcd((int64_t) 4, (int64_t) 6);
    (void) g;
#endif
#ifdef PROBE_S_IDENT
    const char* t = "ab";
    edn_identifier_scan_t r = scan_identifier(t, t + 2);
    (void) r.valid; (void) r.length; (void) r.namespace; (void) r.ns_length; (void) r.name; (void) r.name_length;
#endif
#ifdef PROBE_B_BUILDER
    edn_collection_builder_t b;
    edn_collection_builder_init(&b, NULL, 8);
    bool ok2 = edn_collection_builder_add(&b, NULL);
    size_t count = 0;
    edn_value_t** arr = edn_collection_builder_finish(&b, &count);
    (void) ok2; (void) arr; (void) b.inline_storage;
#endif
}
