/*
 * extract.c - compile-and-dump extraction of tables and constants from the
 * repository's current working tree (DESIGN.md section 2.4(a)).
 *
 * Compiled once per feature configuration with the repository's sources
 * #included, so that static tables, #defines and static helper functions are
 * visible.  Prints "key kind value" lines; vlib/gen_tables.py merges the four
 * configurations into lean/Edn/Generated/Tables.lean.
 *
 * The extraction is semantic: tables are read as the compiler laid them out,
 * and byte classes that the C code writes as expressions are tabulated by
 * calling the real function on all 256 byte values.
 */
#define _GNU_SOURCE
#include <stddef.h>
#include <stdint.h>
#include <stdio.h>
#include <string.h>

#include "edn.c"
#include "arena.c"
#include "simd.c"
#include "string.c"
#include "number.c"
#include "character.c"
#include "identifier.c"
#include "symbolic.c"
#include "equality.c"
#include "uniqueness.c"
#include "collection.c"
#include "tagged.c"
#include "discard.c"
#include "reader.c"
#include "metadata.c"
#include "newline_finder.c"

/* print a 256-entry predicate as a 256-bit hexadecimal mask, bit b = value for byte b */
static void mask256(const char* key, const int* bits) {
    printf("%s mask 0x", key);
    for (int nib = 63; nib >= 0; nib--) {
        int v = 0;
        for (int k = 3; k >= 0; k--)
            v = (v << 1) | (bits[nib * 4 + k] ? 1 : 0);
        printf("%x", v);
    }
    printf("\n");
}

static void nat(const char* key, unsigned long long v) {
    printf("%s nat %llu\n", key, v);
}

int main(void) {
    int bits[256];

    /* DELIMITER_TABLE */
    for (int b = 0; b < 256; b++)
        bits[b] = DELIMITER_TABLE[b] != 0;
    mask256("delimiterMask", bits);
    for (int b = 0; b < 256; b++)
        bits[b] = (DELIMITER_TABLE[b] != 0 && DELIMITER_TABLE[b] != 1);
    mask256("delimiterNonBoolMask", bits);

    /* char_dispatch_table, one mask per dispatch class */
    struct {
        const char* key;
        int val;
    } classes[] = {{"dispIdentifierMask", CHAR_TYPE_IDENTIFIER},
                   {"dispStringMask", CHAR_TYPE_STRING},
                   {"dispCharacterMask", CHAR_TYPE_CHARACTER},
                   {"dispListOpenMask", CHAR_TYPE_LIST_OPEN},
                   {"dispVectorOpenMask", CHAR_TYPE_VECTOR_OPEN},
                   {"dispMapOpenMask", CHAR_TYPE_MAP_OPEN},
                   {"dispHashMask", CHAR_TYPE_HASH},
                   {"dispSignMask", CHAR_TYPE_SIGN},
                   {"dispDigitMask", CHAR_TYPE_DIGIT},
                   {"dispDelimiterMask", CHAR_TYPE_DELIMITER},
#ifdef EDN_ENABLE_CLOJURE_EXTENSION
                   {"dispMetadataMask", CHAR_TYPE_METADATA},
#else
                   {"dispMetadataMask", -12345},
#endif
                   {NULL, 0}};
    for (int i = 0; classes[i].key; i++) {
        for (int b = 0; b < 256; b++)
            bits[b] = ((int) char_dispatch_table[b] == classes[i].val);
        mask256(classes[i].key, bits);
    }

    /* DIGIT_VALUES as a list: 255 = invalid */
    printf("digitValues list");
    for (int b = 0; b < 256; b++)
        printf(" %d", DIGIT_VALUES[b] < 0 ? 255 : DIGIT_VALUES[b]);
    printf("\n");
    /* digit_value() per radix: for each radix 2..36 a mask of accepted bytes */
    for (int r = 2; r <= 36; r++) {
        char key[64];
        snprintf(key, sizeof key, "digitInRadix%d", r);
        for (int b = 0; b < 256; b++)
            bits[b] = digit_value((char) b, (uint8_t) r) >= 0;
        mask256(key, bits);
    }

    /* validate_number_delimiter on every next byte */
    for (int b = 0; b < 256; b++) {
        char buf[2] = {(char) b, 0};
        edn_parser_t p;
        memset(&p, 0, sizeof p);
        p.input = buf;
        p.current = buf;
        p.end = buf + 1;
        bits[b] = validate_number_delimiter(&p, buf);
    }
    mask256("numberTermMask", bits);

    /* is_valid_single_char */
    for (int b = 0; b < 256; b++)
        bits[b] = is_valid_single_char((char) b);
    mask256("validSingleCharMask", bits);

    /* scalar tails of the scanners, observed on one-byte buffers */
    for (int b = 0; b < 256; b++) {
        char buf[1] = {(char) b};
        bits[b] = (b != ';') && (edn_simd_skip_whitespace(buf, buf + 1) == buf + 1);
    }
    mask256("scalarWsMask", bits);
    for (int b = 0; b < 256; b++) {
        char buf[1] = {(char) b};
        bits[b] = (edn_simd_scan_digits(buf, buf + 1) == buf + 1);
    }
    mask256("scalarDigitMask", bits);
    /* vector paths of the scanners, observed on a 16-byte block of the same byte:
       "the whole block is consumed in one step or byte by byte" cannot be told apart,
       so this observes the union, which must equal the scalar class */
    for (int b = 0; b < 256; b++) {
        char buf[17];
        memset(buf, b, 16);
        buf[16] = 'x';
        bits[b] = (b != ';') && (edn_simd_skip_whitespace(buf, buf + 17) == buf + 16);
    }
    mask256("blockWsMask", bits);
    for (int b = 0; b < 256; b++) {
        char buf[17];
        memset(buf, b, 16);
        buf[16] = 'x';
        bits[b] = (edn_simd_scan_digits(buf, buf + 17) == buf + 16);
    }
    mask256("blockDigitMask", bits);

    /* enum numbering */
    nat("tyNil", EDN_TYPE_NIL);
    nat("tyBool", EDN_TYPE_BOOL);
    nat("tyInt", EDN_TYPE_INT);
    nat("tyBigint", EDN_TYPE_BIGINT);
    nat("tyFloat", EDN_TYPE_FLOAT);
    nat("tyBigdec", EDN_TYPE_BIGDEC);
#ifdef EDN_ENABLE_CLOJURE_EXTENSION
    nat("tyRatio", EDN_TYPE_RATIO);
    nat("tyBigratio", EDN_TYPE_BIGRATIO);
#else
    nat("tyRatio", 1000);
    nat("tyBigratio", 1001);
#endif
    nat("tyCharacter", EDN_TYPE_CHARACTER);
    nat("tyString", EDN_TYPE_STRING);
    nat("tySymbol", EDN_TYPE_SYMBOL);
    nat("tyKeyword", EDN_TYPE_KEYWORD);
    nat("tyList", EDN_TYPE_LIST);
    nat("tyVector", EDN_TYPE_VECTOR);
    nat("tyMap", EDN_TYPE_MAP);
    nat("tySet", EDN_TYPE_SET);
    nat("tyTagged", EDN_TYPE_TAGGED);
    nat("tyExternal", EDN_TYPE_EXTERNAL);

    nat("errOk", EDN_OK);
    nat("errInvalidSyntax", EDN_ERROR_INVALID_SYNTAX);
    nat("errUnexpectedEof", EDN_ERROR_UNEXPECTED_EOF);
    nat("errUnterminatedCollection", EDN_ERROR_UNTERMINATED_COLLECTION);
    nat("errOutOfMemory", EDN_ERROR_OUT_OF_MEMORY);
    nat("errInvalidNumber", EDN_ERROR_INVALID_NUMBER);
    nat("errInvalidString", EDN_ERROR_INVALID_STRING);
    nat("errInvalidCharacter", EDN_ERROR_INVALID_CHARACTER);
    nat("errInvalidDiscard", EDN_ERROR_INVALID_DISCARD);
    nat("errUnmatchedDelimiter", EDN_ERROR_UNMATCHED_DELIMITER);
    nat("errUnknownTag", EDN_ERROR_UNKNOWN_TAG);
    nat("errDuplicateKey", EDN_ERROR_DUPLICATE_KEY);
    nat("errDuplicateElement", EDN_ERROR_DUPLICATE_ELEMENT);

    /* thresholds and sizes */
    nat("linearThreshold", LINEAR_THRESHOLD);
    nat("sortedThreshold", SORTED_THRESHOLD);
    nat("maxRecursionDepth", MAX_RECURSION_DEPTH);
#ifdef EDN_MAX_NESTING_DEPTH
    nat("maxNestingDepth", EDN_MAX_NESTING_DEPTH);
#else
    nat("maxNestingDepth", 4611686018427387904ULL); /* no limit in this tree */
#endif
    nat("initialBucketCount", INITIAL_BUCKET_COUNT);
    nat("arenaInitialSize", ARENA_INITIAL_SIZE);
    nat("arenaMediumSize", ARENA_MEDIUM_SIZE);
    nat("arenaLargeSize", ARENA_LARGE_SIZE);
    nat("sizeofValue", sizeof(edn_value_t));
    nat("sizeofArenaBlock", sizeof(arena_block_t));
    nat("sizeofPtr", sizeof(void*));
    nat("newlineInitialCapacity", INITIAL_CAPACITY);
    nat("stringFlagHasEscapes", (unsigned long long) (EDN_STRING_FLAG_HAS_ESCAPES >> 32));
    nat("defaultReaderPassthrough", EDN_DEFAULT_READER_PASSTHROUGH);
    nat("defaultReaderUnwrap", EDN_DEFAULT_READER_UNWRAP);
    nat("defaultReaderError", EDN_DEFAULT_READER_ERROR);

    /* powers of ten used by the floating-point fast path, as bit patterns */
    printf("pow10Positive list");
    for (int i = 0; i < 23; i++) {
        uint64_t u;
        memcpy(&u, &POWER_OF_TEN_POSITIVE[i], 8);
        printf(" %llu", (unsigned long long) u);
    }
    printf("\n");
    return 0;
}
