/*
 * extract.c - compile-and-dump extraction of tables and constants from the
 * repository's current working tree (DESIGN.md section 2.4(a)).
 *
 * Compiled once per feature configuration with the repository's sources
 * #included, so that static tables, #defines and static helper functions are
 * visible.  Prints "key kind value" lines; vlib/gen_tables.py merges the four
 * configurations into lean/Edn/Generated/Tables.lean.
 *
 * The extraction is semantic: tables are read as the compiler laid them out,
 * and byte classes that the C code writes as expressions are tabulated by
 * calling the real function on all 256 byte values.
 */
#define _GNU_SOURCE
#include <stddef.h>
#include <stdint.h>
#include <stdio.h>
#include <string.h>

#undef VF_FILE
#define VF_FILE vf_edn_c
#include "edn.c"
#undef VF_FILE
#define VF_FILE vf_arena_c
#include "arena.c"
#undef VF_FILE
#define VF_FILE vf_simd_c
#include "simd.c"
#undef VF_FILE
#define VF_FILE vf_string_c
#include "string.c"
#undef VF_FILE
#define VF_FILE vf_number_c
#include "number.c"
#undef VF_FILE
#define VF_FILE vf_character_c
#include "character.c"
#undef VF_FILE
#define VF_FILE vf_identifier_c
#include "identifier.c"
#undef VF_FILE
#define VF_FILE vf_symbolic_c
#include "symbolic.c"
#undef VF_FILE
#define VF_FILE vf_equality_c
#include "equality.c"
/* count the scratch allocations of uniqueness.c (which strategy ran is visible only there) */
#include <stdlib.h>
static long ex_calloc_calls = 0;
static void* ex_calloc(size_t a, size_t b) {
    ex_calloc_calls++;
    return calloc(a, b);
}
#define calloc ex_calloc
#undef VF_FILE
#define VF_FILE vf_uniqueness_c
#include "uniqueness.c"
#undef calloc
#undef VF_FILE
#define VF_FILE vf_collection_c
#include "collection.c"
#undef VF_FILE
#define VF_FILE vf_tagged_c
#include "tagged.c"
#undef VF_FILE
#define VF_FILE vf_discard_c
#include "discard.c"
#undef VF_FILE
#define VF_FILE vf_reader_c
#include "reader.c"
#undef VF_FILE
#define VF_FILE vf_metadata_c
#include "metadata.c"
#undef VF_FILE
#define VF_FILE vf_newline_finder_c
#include "newline_finder.c"

/* print a 256-entry predicate as a 256-bit hexadecimal mask, bit b = value for byte b */
static void mask256(const char* key, const int* bits) {
    printf("%s mask 0x", key);
    for (int nib = 63; nib >= 0; nib--) {
        int v = 0;
        for (int k = 3; k >= 0; k--)
            v = (v << 1) | (bits[nib * 4 + k] ? 1 : 0);
        printf("%x", v);
    }
    printf("\n");
}

static void nat(const char* key, unsigned long long v) {
    printf("%s nat %llu\n", key, v);
}

/* --- behavioural extraction: independent of the names of file-local macros and static helpers --- */

/* n distinct integer values with empty hash caches */
static edn_value_t** fresh_ints(size_t n, edn_value_t** storage_out) {
    edn_value_t* st = (edn_value_t*) calloc(n ? n : 1, sizeof(edn_value_t));
    edn_value_t** el = (edn_value_t**) calloc(n ? n : 1, sizeof(edn_value_t*));
    for (size_t i = 0; i < n; i++) {
        st[i].type = EDN_TYPE_INT;
        st[i].as.integer = (int64_t) i;
        el[i] = &st[i];
    }
    *storage_out = st;
    return el;
}

/* does the duplicate check of n elements hash its elements / allocate a table? */
static void probe_dups(size_t n, int* hashed, int* table) {
    edn_value_t* st;
    edn_value_t** el = fresh_ints(n, &st);
    long before = ex_calloc_calls;
    (void) edn_has_duplicates(el, n);
    *table = ex_calloc_calls != before;
    *hashed = 0;
    for (size_t i = 0; i < n; i++)
        if (st[i].cached_hash != 0)
            *hashed = 1;
    free(el);
    free(st);
}

/* largest element count handled by pairwise comparison (no hashing) */
static unsigned long long probe_linear_threshold(void) {
    unsigned long long last = 1;
    for (size_t n = 2; n <= 100000; n++) {
        int h, t;
        probe_dups(n, &h, &t);
        if (h)
            return last;
        last = n;
    }
    return 4611686018427387904ULL;
}

/* largest element count handled without the hash table */
static unsigned long long probe_sorted_threshold(void) {
    size_t lo = 2, hi = 1u << 22; /* invariant: no table at lo */
    int h, t;
    probe_dups(hi, &h, &t);
    if (!t)
        return 4611686018427387904ULL;
    probe_dups(lo, &h, &t);
    if (t)
        return 1;
    while (hi - lo > 1) {
        size_t mid = lo + (hi - lo) / 2;
        probe_dups(mid, &h, &t);
        if (t)
            hi = mid;
        else
            lo = mid;
    }
    return lo;
}

/* deepest nesting at which two equal nested vectors still compare equal */
static edn_value_t* nested_vec(size_t depth) {
    edn_value_t* v = (edn_value_t*) calloc(1, sizeof(edn_value_t));
    v->type = EDN_TYPE_INT;
    v->as.integer = 1;
    for (size_t i = 0; i < depth; i++) {
        edn_value_t* w = (edn_value_t*) calloc(1, sizeof(edn_value_t));
        edn_value_t** arr = (edn_value_t**) calloc(1, sizeof(edn_value_t*));
        arr[0] = v;
        w->type = EDN_TYPE_VECTOR;
        w->as.vector.elements = arr;
        w->as.vector.count = 1;
        v = w;
    }
    return v;
}
static unsigned long long probe_recursion_depth(void) {
    /* equality gives up (false) beyond the cap: the leaf of a depth-k nesting is compared at recursion depth k */
    unsigned long long best = 0;
    for (size_t k = 1; k <= 3000; k++) {
        if (edn_value_equal(nested_vec(k), nested_vec(k)))
            best = k;
        else
            return best;
    }
    return best;
}

static int reads_as(const char* text, size_t n, edn_type_t ty, size_t end_off) {
    edn_result_t r = edn_read(text, n);
    int ok = 0;
    if (r.value && r.error == EDN_OK && edn_type(r.value) == ty) {
        size_t s = 0, e = 0;
        edn_source_position(r.value, &s, &e);
        ok = (e == end_off);
    }
    if (r.value)
        edn_free(r.value);
    return ok;
}

int main(void) {
    int bits[256];

    /* DELIMITER_TABLE */
    for (int b = 0; b < 256; b++)
        bits[b] = DELIMITER_TABLE[b] != 0;
    mask256("delimiterMask", bits);
    for (int b = 0; b < 256; b++)
        bits[b] = (DELIMITER_TABLE[b] != 0 && DELIMITER_TABLE[b] != 1);
    mask256("delimiterNonBoolMask", bits);

    /* char_dispatch_table, one mask per dispatch class */
    struct {
        const char* key;
        int val;
    } classes[] = {{"dispIdentifierMask", CHAR_TYPE_IDENTIFIER},
                   {"dispStringMask", CHAR_TYPE_STRING},
                   {"dispCharacterMask", CHAR_TYPE_CHARACTER},
                   {"dispListOpenMask", CHAR_TYPE_LIST_OPEN},
                   {"dispVectorOpenMask", CHAR_TYPE_VECTOR_OPEN},
                   {"dispMapOpenMask", CHAR_TYPE_MAP_OPEN},
                   {"dispHashMask", CHAR_TYPE_HASH},
                   {"dispSignMask", CHAR_TYPE_SIGN},
                   {"dispDigitMask", CHAR_TYPE_DIGIT},
                   {"dispDelimiterMask", CHAR_TYPE_DELIMITER},
#ifdef EDN_ENABLE_CLOJURE_EXTENSION
                   {"dispMetadataMask", CHAR_TYPE_METADATA},
#else
                   {"dispMetadataMask", -12345},
#endif
                   {NULL, 0}};
    for (int i = 0; classes[i].key; i++) {
        for (int b = 0; b < 256; b++)
            bits[b] = ((int) char_dispatch_table[b] == classes[i].val);
        mask256(classes[i].key, bits);
    }

    /* DIGIT_VALUES as a list: 255 = invalid */
    printf("digitValues list");
    for (int b = 0; b < 256; b++)
        printf(" %d", DIGIT_VALUES[b] < 0 ? 255 : DIGIT_VALUES[b]);
    printf("\n");
    /* digit_value() per radix: for each radix 2..36 a mask of accepted bytes */
    for (int r = 2; r <= 36; r++) {
        char key[64];
        snprintf(key, sizeof key, "digitInRadix%d", r);
        for (int b = 0; b < 256; b++)
            bits[b] = digit_value((char) b, (uint8_t) r) >= 0;
        mask256(key, bits);
    }

    /* which byte may follow a number: `1<b>` reads as the integer 1 spanning one byte (observed through the public
       API, so that renaming validate_number_delimiter changes nothing here) */
    for (int b = 0; b < 256; b++) {
        char buf[3] = {'1', (char) b, 0};
        bits[b] = reads_as(buf, 2, EDN_TYPE_INT, 1);
    }
    mask256("numberTermMask", bits);

    /* which single byte may follow the backslash of a character literal: `\<b>` reads as a character spanning two bytes */
    for (int b = 0; b < 256; b++) {
        char buf[3] = {'\\', (char) b, 0};
        bits[b] = reads_as(buf, 2, EDN_TYPE_CHARACTER, 2);
    }
    mask256("validSingleCharMask", bits);

    /* scalar tails of the scanners, observed on one-byte buffers */
    for (int b = 0; b < 256; b++) {
        char buf[1] = {(char) b};
        bits[b] = (b != ';') && (edn_simd_skip_whitespace(buf, buf + 1) == buf + 1);
    }
    mask256("scalarWsMask", bits);
    for (int b = 0; b < 256; b++) {
        char buf[1] = {(char) b};
        bits[b] = (edn_simd_scan_digits(buf, buf + 1) == buf + 1);
    }
    mask256("scalarDigitMask", bits);
    /* vector paths of the scanners, observed on a 16-byte block of the same byte:
       "the whole block is consumed in one step or byte by byte" cannot be told apart,
       so this observes the union, which must equal the scalar class */
    for (int b = 0; b < 256; b++) {
        char buf[17];
        memset(buf, b, 16);
        buf[16] = 'x';
        bits[b] = (b != ';') && (edn_simd_skip_whitespace(buf, buf + 17) == buf + 16);
    }
    mask256("blockWsMask", bits);
    for (int b = 0; b < 256; b++) {
        char buf[17];
        memset(buf, b, 16);
        buf[16] = 'x';
        bits[b] = (edn_simd_scan_digits(buf, buf + 17) == buf + 16);
    }
    mask256("blockDigitMask", bits);

    /* enum numbering */
    nat("tyNil", EDN_TYPE_NIL);
    nat("tyBool", EDN_TYPE_BOOL);
    nat("tyInt", EDN_TYPE_INT);
    nat("tyBigint", EDN_TYPE_BIGINT);
    nat("tyFloat", EDN_TYPE_FLOAT);
    nat("tyBigdec", EDN_TYPE_BIGDEC);
#ifdef EDN_ENABLE_CLOJURE_EXTENSION
    nat("tyRatio", EDN_TYPE_RATIO);
    nat("tyBigratio", EDN_TYPE_BIGRATIO);
#else
    nat("tyRatio", 1000);
    nat("tyBigratio", 1001);
#endif
    nat("tyCharacter", EDN_TYPE_CHARACTER);
    nat("tyString", EDN_TYPE_STRING);
    nat("tySymbol", EDN_TYPE_SYMBOL);
    nat("tyKeyword", EDN_TYPE_KEYWORD);
    nat("tyList", EDN_TYPE_LIST);
    nat("tyVector", EDN_TYPE_VECTOR);
    nat("tyMap", EDN_TYPE_MAP);
    nat("tySet", EDN_TYPE_SET);
    nat("tyTagged", EDN_TYPE_TAGGED);
    nat("tyExternal", EDN_TYPE_EXTERNAL);

    nat("errOk", EDN_OK);
    nat("errInvalidSyntax", EDN_ERROR_INVALID_SYNTAX);
    nat("errUnexpectedEof", EDN_ERROR_UNEXPECTED_EOF);
    nat("errUnterminatedCollection", EDN_ERROR_UNTERMINATED_COLLECTION);
    nat("errOutOfMemory", EDN_ERROR_OUT_OF_MEMORY);
    nat("errInvalidNumber", EDN_ERROR_INVALID_NUMBER);
    nat("errInvalidString", EDN_ERROR_INVALID_STRING);
    nat("errInvalidCharacter", EDN_ERROR_INVALID_CHARACTER);
    nat("errInvalidDiscard", EDN_ERROR_INVALID_DISCARD);
    nat("errUnmatchedDelimiter", EDN_ERROR_UNMATCHED_DELIMITER);
    nat("errUnknownTag", EDN_ERROR_UNKNOWN_TAG);
    nat("errDuplicateKey", EDN_ERROR_DUPLICATE_KEY);
    nat("errDuplicateElement", EDN_ERROR_DUPLICATE_ELEMENT);

    /* thresholds and sizes */
    nat("linearThreshold", probe_linear_threshold());
    nat("sortedThreshold", probe_sorted_threshold());
    nat("maxRecursionDepth", probe_recursion_depth());
#ifdef EDN_MAX_NESTING_DEPTH
    nat("maxNestingDepth", EDN_MAX_NESTING_DEPTH);
#else
    nat("maxNestingDepth", 4611686018427387904ULL); /* no limit in this tree */
#endif
    {
        edn_reader_registry_t* reg = edn_reader_registry_create();
        nat("initialBucketCount", reg ? reg->bucket_count : 0);
        edn_reader_registry_destroy(reg);
    }
    nat("arenaInitialSize", ARENA_INITIAL_SIZE);
    nat("arenaMediumSize", ARENA_MEDIUM_SIZE);
    nat("arenaLargeSize", ARENA_LARGE_SIZE);
    nat("sizeofValue", sizeof(edn_value_t));
    nat("sizeofArenaBlock", sizeof(arena_block_t));
    nat("sizeofPtr", sizeof(void*));
#ifdef INITIAL_CAPACITY
    nat("newlineInitialCapacity", INITIAL_CAPACITY);
#else
    nat("newlineInitialCapacity", 0); /* not used by the model */
#endif
    nat("stringFlagHasEscapes", (unsigned long long) (EDN_STRING_FLAG_HAS_ESCAPES >> 32));
    nat("defaultReaderPassthrough", EDN_DEFAULT_READER_PASSTHROUGH);
    nat("defaultReaderUnwrap", EDN_DEFAULT_READER_UNWRAP);
    nat("defaultReaderError", EDN_DEFAULT_READER_ERROR);

    /* powers of ten used by the floating-point fast path, as bit patterns */
    /* growth rule of the collection builder, observed: pairs (capacity, next capacity) along the chains that
       start at the initial capacities the harness uses (8, 9, 16, 40) */
    printf("builderGrowth list");
    {
        size_t starts[] = {8, 9, 16, 40};
        for (int si = 0; si < 4; si++) {
#ifdef HAVE_B_BUILDER
            edn_arena_t* ar = edn_arena_create();
            edn_collection_builder_t bb;
            edn_collection_builder_init(&bb, ar, starts[si]);
            size_t last = bb.capacity;
            for (size_t i = 0; i < 400000 && last < 100000; i++) {
                if (!edn_collection_builder_add(&bb, NULL))
                    break;
                if (bb.capacity != last) {
                    printf(" %zu %zu", last, bb.capacity);
                    last = bb.capacity;
                }
            }
            edn_arena_destroy(ar);
#else
            size_t c = starts[si] <= 8 ? 8 : starts[si];
            while (c < 100000) {
                printf(" %zu %zu", c, c + c / 2);
                c = c + c / 2;
            }
#endif
        }
    }
    printf("\n");

    /* 1e<k> has mantissa 1, so the fast path returns exactly its table entry for 10^k */
    printf("pow10Positive list");
    for (int i = 0; i < 23; i++) {
        char buf[16];
        int n = snprintf(buf, sizeof buf, "1e%d", i);
        edn_result_t r = edn_read(buf, (size_t) n);
        double d = 0.0;
        if (r.value)
            edn_double_get(r.value, &d);
        uint64_t u;
        memcpy(&u, &d, 8);
        printf(" %llu", (unsigned long long) u);
        if (r.value)
            edn_free(r.value);
    }
    printf("\n");
    return 0;
}
