/-
  Edn.Model.Dump — the canonical dump shared with harness/edn_harness.c
  (DESIGN.md Appendix A): what the public accessors of include/edn.h show of a tree.
-/
import Edn.Model.Reader

namespace Edn.Model

def hexNibble (n : Nat) : Char :=
  if n < 10 then Char.ofNat (48 + n) else Char.ofNat (87 + n)

def hexByte (b : UInt8) : String :=
  String.ofList [hexNibble (b.toNat / 16), hexNibble (b.toNat % 16)]

def hexOf (bs : Bytes) : String :=
  if bs.isEmpty then "-" else String.join (bs.map hexByte)

def hex64 (x : UInt64) : String :=
  String.join ((List.range 8).reverse.map fun i => hexByte ((x >>> (UInt64.ofNat (8 * i))) &&& 0xFF).toUInt8)

def b01 (b : Bool) : String := if b then "1" else "0"

partial def dumpVal (cfg : Cfg) (ranges : Bool) (n : Nat) (v : Val) : String :=
  let h := v.hdr
  let pos := if !ranges then "" else if h.synth then " 0 0" else s!" {n - h.s} {n - h.e}"
  let md := match v.md with
    | some m => if cfg.clj then " ^" ++ dumpVal cfg ranges n m else ""
    | none => ""
  let kids (xs : List Val) := String.join (xs.map fun x => " " ++ dumpVal cfg ranges n x)
  match v with
  | .nil _ => s!"(nil{pos})"
  | .bool _ b => s!"(bool{pos} {b01 b})"
  | .int _ i => s!"(int{pos} {i})"
  | .bigint _ neg radix d => s!"(bigint{pos} {b01 neg} {radix} {hexOf (cleanDigits cfg d)})"
  | .float _ b => s!"(float{pos} {hex64 (if isNaNBits b then 0x7ff8000000000000 else b)})"
  | .bigdec _ neg t => s!"(bigdec{pos} {b01 neg} {hexOf (cleanDigits cfg t)})"
  | .ratio _ n d => s!"(ratio{pos} {n} {d})"
  | .bigratio _ neg n d => s!"(bigratio{pos} {b01 neg} {hexOf n} {hexOf d})"
  | .char _ cp => s!"(char{pos} {cp})"
  | .str _ data esc =>
    match stringGet cfg data esc with
    | none => s!"(str{pos} ERR)"
    | some b => s!"(str{pos} {b.length} {hexOf b})"
  | .sym _ _ ns name => s!"(sym{pos} {match ns with | some n => hexOf n | none => "_"} {hexOf name}{md})"
  | .kw _ ns name => s!"(kw{pos} {match ns with | some n => hexOf n | none => "_"} {hexOf name})"
  | .list _ _ xs => s!"(list{pos}{kids xs}{md})"
  | .vec _ _ xs => s!"(vec{pos}{kids xs}{md})"
  | .set _ _ xs => s!"(set{pos}{kids xs}{md})"
  | .map _ _ ks vs =>
    let ents := String.join ((ks.zip vs).map fun (k, x) => " " ++ dumpVal cfg ranges n k ++ " " ++ dumpVal cfg ranges n x)
    s!"(map{pos}{ents}{md})"
  | .tagged _ _ tag x => s!"(tagged{pos} {hexOf tag} {dumpVal cfg ranges n x}{md})"
  | .ext _ tid data => s!"(ext{pos} {tid} {data})"

def dumpResult (cfg : Cfg) (withCalls : Bool) (n : Nat) (r : Result) : String :=
  let body := match r.out with
    | .value v => "ok " ++ dumpVal cfg true n v
    | .eofValue => "eofval"
    | .error code es ee =>
      s!"err {code.name} msg=1 {es.offset}:{es.line}:{es.col} {ee.offset}:{ee.line}:{ee.col}"
    | .fuelOut => "FUEL-OUT"
  if withCalls then
    body ++ " calls=[" ++ " ".intercalate (r.calls.map fun c => s!"{c.name}@{n - c.s}:{n - c.e}") ++ "]"
  else body

end Edn.Model
