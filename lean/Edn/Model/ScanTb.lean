/-
  Edn.Model.ScanTb — the vectorised scans inside `edn_parse_text_block_line` (src/string.c,
  experimental extension), in block form, following the x86-64 SSE code:

  * `tbSkipBlocks`      = `simd_scan_line_content` (string.c, SSE variant): 16-byte loads while
    `ptr + 16 <= end`; lanes compared with `'\n'`, `'"'`, `'\\'` (`_mm_cmpeq_epi8`), or-ed,
    movemask; `mask != 0` → `return ptr + ctz(mask)`, i.e. the position of the FIRST SPECIAL
    LANE (not the block start); otherwise `ptr += 16`.  When fewer than 16 bytes remain the
    function returns `ptr` unchanged (no scalar tail of its own).
  * `tbSkipBlankBlocks` = the 16-byte indentation loop at the top of
    `edn_parse_text_block_line` (lanes compared with `' '` and `'\t'`): `mask == 0xFFFF` →
    `p += 16`, `mask == 0` → stop, otherwise `p += ctz(~mask & 0xFFFF)` and stop.
  * `tbContentSimd` / `tbLineSimd` = the line reader built from them.

  Where the pre-scan is called.  The C code reads

      while (p < end) {
          p = simd_scan_line_content(p, end);
          while (p < end) { ... continue | return | p++ ... }
      }

  The inner loop is left only by `return` or with `p >= end` (its `continue` continues the
  inner loop), and then the outer condition is false as well: the pre-scan runs exactly ONCE
  per line, right after the indentation, and never again after a special byte.  The state the
  scalar loop takes over is `p` (the returned pointer), `content_start` (unchanged: the bytes
  skipped by the pre-scan belong to the content) and `needs_escaping == false`.

  `Edn.Proofs.ScanTb` proves `tbLineSimd s = tbLine s` for every `s` (property C12).
-/
import Edn.Model.Str
import Edn.Model.Scan

namespace Edn.Model

/-- lane test of `simd_scan_line_content`:
    `_mm_or_si128(_mm_or_si128(is_newline, is_quote), is_backslash)` -/
def tbLane (c : UInt8) : Bool := (c == 0x0A || c == 0x22) || c == 0x5C

/-- `simd_scan_line_content`, x86-64 branch: the suffix at which the scalar loop continues -/
def tbSkipBlocks : Nat → Bytes → Bytes
  | 0, s => s
  | f + 1, s =>
    match block16 s with
    | some blk =>
      match blk.findIdx? tbLane with
      | some i => s.drop i                    -- `return ptr + CTZ(mask)`
      | none => tbSkipBlocks f (s.drop 16)    -- `ptr += 16`
    | none => s                               -- `return ptr`

/-- the 16-byte indentation loop of `edn_parse_text_block_line`, x86-64 branch
    (lane test `_mm_or_si128(is_space, is_tab)` = `isBlank`) -/
def tbSkipBlankBlocks : Nat → Bytes → Bytes
  | 0, s => s
  | f + 1, s =>
    match block16 s with
    | some blk =>
      if blk.all isBlank then tbSkipBlankBlocks f (s.drop 16)      -- `mask == 0xFFFF`
      else
        -- `mask == 0` → `break` (first lane is not blank, index 0);
        -- otherwise `p += CTZ(~mask & 0xFFFF); break`
        match blk.findIdx? (fun c => !isBlank c) with
        | some i => s.drop i
        | none => s
    | none => s

/-- content part of `edn_parse_text_block_line` on the bytes after the indentation: one block
    pre-scan, then the scalar loop `tbContent` from where it stopped, with the skipped bytes
    already part of the content and `needs_escaping = false`.  (For an empty `body` the C code
    does not enter the outer loop; here both scans are no-ops and the result is `none` too.) -/
def tbContentSimd (body : Bytes) : Option (Bytes × Bool × Bool × Bytes) :=
  let rest := tbSkipBlocks (body.length + 1) body
  let skipped := body.take (body.length - rest.length)      -- `content_start .. p`
  tbContent (rest.length + 1) skipped.reverse false rest

/-- `edn_parse_text_block_line` with its two vector pre-scans -/
def tbLineSimd (s : Bytes) : Option (TbLine × Bytes) :=
  let p1 := tbSkipBlankBlocks (s.length + 1) s
  let body := p1.dropWhile isBlank                          -- scalar tail of the indentation
  let indent := s.take (s.length - body.length)             -- `line_start .. content_start`
  match tbContentSimd body with
  | none => none
  | some (content, esc, terminal, rest) =>
    some ({ indent := indent, content := content, hasNewline := !terminal, needsEsc := esc,
            terminal := terminal }, rest)

end Edn.Model
