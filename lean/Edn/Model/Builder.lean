/-
  Edn.Model.Builder — src/collection.c: `edn_collection_builder_t` (`_init`, `_add`,
  `_finish`), the growable element array with eight slots of storage inside the builder
  structure itself, which lives in the stack frame of the collection reader.

  Allocation is a parameter: a schedule `List Bool` says which of the successive
  `edn_arena_alloc` requests succeed (`true`); an exhausted schedule means success.
-/
namespace Edn.Model

/-- where the builder's element array lives at the moment -/
inductive Store
  /-- `builder->inline_storage`: dies with the reader's stack frame -/
  | stack
  /-- arena memory: lives as long as the tree -/
  | heap
deriving Repr, BEq, DecidableEq

structure Builder (α : Type) where
  elems : List α
  cap : Nat
  store : Store
deriving Repr

/-- next allocation outcome and the remaining schedule -/
def nextAlloc : List Bool → Bool × List Bool
  | [] => (true, [])
  | b :: r => (b, r)

/-- `edn_collection_builder_init(builder, arena, initial_capacity)` -/
def Builder.init {α : Type} (initCap : Nat) (sched : List Bool) : Builder α × List Bool :=
  if initCap ≤ 8 then ({ elems := [], cap := 8, store := .stack }, sched)
  else
    let (ok, sched') := nextAlloc sched
    if ok then ({ elems := [], cap := initCap, store := .heap }, sched')
    else ({ elems := [], cap := 8, store := .stack }, sched')

/-- the growth rule of the pinned source: half as much again (at least eight more) -/
def growHalf (cap : Nat) : Nat := if cap + cap / 2 ≤ cap then cap + 8 else cap + cap / 2

/-- `edn_collection_builder_add`: `none` = returned false (nothing changed).  `grow` is the
    growth rule (new capacity from the old one); the theorems hold for every rule, the driver
    uses the one observed on the current source (`Tables.builderCaps`) -/
def Builder.add {α : Type} (grow : Nat → Nat) (b : Builder α) (x : α) (sched : List Bool) : Option (Builder α) × List Bool :=
  if b.elems.length ≥ b.cap then
    let newCap := grow b.cap
    let (ok, sched') := nextAlloc sched
    if ok then (some { elems := b.elems ++ [x], cap := newCap, store := .heap }, sched')
    else (none, sched')
  else (some { b with elems := b.elems ++ [x] }, sched)

/-- what `edn_collection_builder_finish` hands to the caller: the element count and the array
    (`none` = NULL), with the store it lives in -/
def Builder.finish {α : Type} (b : Builder α) (sched : List Bool) : Nat × Option (Store × List α) × List Bool :=
  match b.store with
  | .stack =>
    if b.elems.length == 0 then (0, none, sched)
    else
      let (ok, sched') := nextAlloc sched
      if ok then (b.elems.length, some (.heap, b.elems), sched')
      else (b.elems.length, none, sched')
  | .heap => (b.elems.length, some (.heap, b.elems), sched)

inductive BuildOutcome (α : Type)
  /-- `_add` returned false at this element index: the reader reports OUT_OF_MEMORY -/
  | addFailed (index : Nat)
  /-- `_finish` returned this -/
  | finished (count : Nat) (arr : Option (Store × List α))
deriving Repr

def Builder.addAll {α : Type} (grow : Nat → Nat) : Builder α → List α → Nat → List Bool → Sum Nat (Builder α) × List Bool
  | b, [], _, sched => (.inr b, sched)
  | b, x :: xs, i, sched =>
    match b.add grow x sched with
    | (none, sched') => (.inl i, sched')
    | (some b', sched') => Builder.addAll grow b' xs (i + 1) sched'

/-- the life of a builder inside `edn_read_list` / `_vector` / `_set` / `_map`: init, one add
    per element read, finish -/
def Builder.run {α : Type} (grow : Nat → Nat) (initCap : Nat) (xs : List α) (sched : List Bool) : BuildOutcome α :=
  let (b, s1) := Builder.init (α := α) initCap sched
  match Builder.addAll grow b xs 0 s1 with
  | (.inl i, _) => .addFailed i
  | (.inr b', s2) =>
    let (n, arr, _) := b'.finish s2
    .finished n arr

end Edn.Model
