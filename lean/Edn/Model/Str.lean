/-
  Edn.Model.Str — src/string.c and the string accessors of src/edn.c:
  escape decoding, `edn_string_get`, `edn_string_equals`, and the text-block reader
  (experimental extension).
-/
import Edn.Model.Scan

namespace Edn.Model

def hexDigit? (c : UInt8) : Option Nat :=
  if 0x30 ≤ c && c ≤ 0x39 then some (c.toNat - 0x30)
  else if 0x61 ≤ c && c ≤ 0x66 then some (c.toNat - 0x61 + 10)
  else if 0x41 ≤ c && c ≤ 0x46 then some (c.toNat - 0x41 + 10)
  else none

/-- four hex digits -/
def hex4? : Bytes → Option (Nat × Bytes)
  | a :: b :: c :: d :: r =>
    match hexDigit? a, hexDigit? b, hexDigit? c, hexDigit? d with
    | some w, some x, some y, some z => some (((w * 16 + x) * 16 + y) * 16 + z, r)
    | _, _, _, _ => none
  | _ => none

/-- UTF-8 encoding used by `decode_escape_sequence` for BMP code points -/
def utf8Bmp (cp : Nat) : Option Bytes :=
  if cp ≤ 0x7F then some [UInt8.ofNat cp]
  else if cp ≤ 0x7FF then some [UInt8.ofNat (0xC0 ||| (cp >>> 6)), UInt8.ofNat (0x80 ||| (cp &&& 0x3F))]
  else if 0xD800 ≤ cp && cp ≤ 0xDFFF then none
  else some [UInt8.ofNat (0xE0 ||| (cp >>> 12)), UInt8.ofNat (0x80 ||| ((cp >>> 6) &&& 0x3F)),
             UInt8.ofNat (0x80 ||| (cp &&& 0x3F))]

@[inline] def isOct (c : UInt8) : Bool := 0x30 ≤ c && c ≤ 0x37

/-- `decode_escape_sequence`; the argument starts after the backslash.
    Returns the bytes written and the rest. -/
def decodeEscape (cfg : Cfg) : Bytes → Option (Bytes × Bytes)
  | [] => none
  | c :: r =>
    if c == 0x22 then some ([0x22], r)
    else if c == 0x5C then some ([0x5C], r)
    else if c == 0x6E then some ([0x0A], r)
    else if c == 0x74 then some ([0x09], r)
    else if c == 0x72 then some ([0x0D], r)
    else if cfg.clj then
      if c == 0x66 then some ([0x0C], r)
      else if c == 0x62 then some ([0x08], r)
      else if c == 0x75 then
        match hex4? r with
        | none => none
        | some (cp, r') => (utf8Bmp cp).map (·, r')
      else if isOct c then
        let v0 := c.toNat - 0x30
        -- up to two more octal digits while the value stays below 256
        match r with
        | d1 :: r1 =>
          if isOct d1 && v0 * 8 + (d1.toNat - 0x30) ≤ 255 then
            let v1 := v0 * 8 + (d1.toNat - 0x30)
            match r1 with
            | d2 :: r2 =>
              if isOct d2 && v1 * 8 + (d2.toNat - 0x30) ≤ 255 then
                some ([UInt8.ofNat (v1 * 8 + (d2.toNat - 0x30))], r2)
              else some ([UInt8.ofNat v1], r1)
            | [] => some ([UInt8.ofNat v1], r1)
          else some ([UInt8.ofNat v0], r)
        | [] => some ([UInt8.ofNat v0], r)
      else none
    else none

/-- `edn_decode_string`: `none` = invalid escape -/
def decodeString (cfg : Cfg) : Nat → Bytes → Option Bytes
  | 0, _ => none
  | _ + 1, [] => some []
  | f + 1, c :: r =>
    if c == 0x5C then
      match decodeEscape cfg r with
      | none => none
      | some (out, r') => (decodeString cfg f r').map (out ++ ·)
    else (decodeString cfg f r).map (c :: ·)

/-- `edn_string_get` on a string value: the bytes returned (`none` = NULL) -/
def stringGet (cfg : Cfg) (data : Bytes) (esc : Bool) : Option Bytes :=
  if !esc then some data else decodeString cfg (data.length + 1) data

/-- `edn_string_equals(value, str)` where `str` is NUL-terminated C text: only the bytes
    before the first NUL of `text` take part (strlen) -/
def stringEquals (cfg : Cfg) (data : Bytes) (esc : Bool) (text : Bytes) : Bool :=
  match stringGet cfg data esc with
  | none => false
  | some b => b == text.takeWhile (· != 0)

/-! ## Text blocks -/

@[inline] def isBlank (c : UInt8) : Bool := c == 0x20 || c == 0x09

structure TbLine where
  indent : Bytes        -- leading blanks of the line
  content : Bytes       -- bytes after the indent, before the terminator
  hasNewline : Bool
  needsEsc : Bool
  terminal : Bool
deriving Repr, BEq, DecidableEq

/-- content scan of `edn_parse_text_block_line`: collects content until a line feed or a
    closing `"""`; `none` = end of input first.  Returns content (reversed accumulator
    given), needsEsc, terminal and the rest after the terminator. -/
def tbContent : Nat → Bytes → Bool → Bytes → Option (Bytes × Bool × Bool × Bytes)
  | 0, _, _, _ => none
  | _ + 1, _, _, [] => none
  | f + 1, acc, esc, c :: r =>
    match c, r with
    | 0x5C, 0x22 :: 0x22 :: 0x22 :: r' => tbContent f (0x22 :: 0x22 :: 0x22 :: 0x5C :: acc) true r'
    | 0x22, 0x22 :: 0x22 :: r' => some (acc.reverse, esc, true, r')
    | 0x0A, _ => some (acc.reverse, esc, false, r)
    | _, _ => tbContent f (c :: acc) esc r

/-- `edn_parse_text_block_line` -/
def tbLine (s : Bytes) : Option (TbLine × Bytes) :=
  let indent := s.takeWhile isBlank
  let body := s.dropWhile isBlank
  match tbContent (body.length + 1) [] false body with
  | none => none
  | some (content, esc, terminal, rest) =>
    some ({ indent := indent, content := content, hasNewline := !terminal, needsEsc := esc,
            terminal := terminal }, rest)

/-- strip trailing blanks -/
def trimRight (b : Bytes) : Bytes := (b.reverse.dropWhile isBlank).reverse

/-- `\"""` → `"""` on a (trimmed) content -/
def tbUnescape : Bytes → Bytes
  | 0x5C :: 0x22 :: 0x22 :: 0x22 :: r => 0x22 :: 0x22 :: 0x22 :: tbUnescape r
  | c :: r => c :: tbUnescape r
  | [] => []

inductive TbErr
  /-- end of input inside a line: error range left unset, `parser->current` = line start -/
  | eofInLine (lineStart : Bytes)
  /-- input ended after a line feed (or right after the opening line) -/
  | missingCloser
deriving Repr, BEq, DecidableEq

/-- lines until the terminal one -/
def tbLines : Nat → Bytes → List TbLine → Except TbErr (List TbLine × Bytes)
  | 0, _, _ => .error .missingCloser
  | f + 1, s, acc =>
    if s.isEmpty then .error .missingCloser
    else match tbLine s with
      | none => .error (.eofInLine s)
      | some (ln, rest) =>
        if ln.terminal then .ok ((ln :: acc).reverse, rest) else tbLines f rest (ln :: acc)

/-- common indentation: minimum indent over lines with content and the terminal line -/
def tbCommonIndent (lines : List TbLine) : Nat :=
  let ws := (lines.filter fun l => !l.content.isEmpty || l.terminal).map (·.indent.length)
  match ws with
  | [] => 0
  | w :: r => r.foldl min w

def tbRenderLine (lwp : Nat) (l : TbLine) : Bytes :=
  let body :=
    if l.content.isEmpty then []
    else
      let trimmed := trimRight l.content
      let keep := l.indent.drop (min l.indent.length lwp)
      keep ++ (if l.needsEsc then tbUnescape trimmed else trimmed)
  body ++ (if l.hasNewline then [0x0A] else [])

def tbRender (lines : List TbLine) : Bytes :=
  let lwp := tbCommonIndent lines
  (lines.map (tbRenderLine lwp)).flatten

/-- reading a text block whose opening `"""\n` has been consumed: (text, rest) -/
def readTextBlockBody (s : Bytes) : Except TbErr (Bytes × Bytes) :=
  match tbLines (s.length + 2) s [] with
  | .error e => .error e
  | .ok (lines, rest) => .ok (tbRender lines, rest)

end Edn.Model
