/-
  Edn.Model.Scan — the five vectorised scanners of src/simd.c, src/identifier.c and
  src/newline_finder.c, each in two forms:

  * the *block* form, which follows the x86-64 SSE code of the repository (16-byte
    loads guarded by `ptr + 16 <= end`, lane predicates written with the SSE
    operations the C uses, movemask/ctz = index of the first lane, scalar tail), and
  * the *scalar* form, a plain byte-at-a-time specification by structural recursion.

  `Edn.Proofs.Scan` proves the two forms equal for every input (property C12).
  The reader (`Edn.Model.Reader`) uses the block forms, as the C code does.
-/
import Edn.Model.Basic

namespace Edn.Model

/-! ## SSE lane operations -/

/-- `_mm_cmpgt_epi8` on one lane (signed compare) -/
@[inline] def sgt (a b : UInt8) : Bool := a.toInt8 > b.toInt8
/-- `_mm_cmplt_epi8` on one lane -/
@[inline] def slt (a b : UInt8) : Bool := a.toInt8 < b.toInt8

/-- whitespace lane test of `edn_simd_skip_whitespace` (simd.c, x86-64 branch) -/
def wsLane (c : UInt8) : Bool :=
  let s1 := c + (0x7F - 0x0D)
  let r1 := sgt s1 (0x7F - 0x0D + 0x09 - 1) && slt s1 0x80
  let s2 := c + (0x7F - 0x20)
  let r2 := sgt s2 (0x7F - 0x20 + 0x1C - 1)
  r1 || r2 || c == 0x2C

/-- digit lane test of `edn_simd_scan_digits` -/
def digitLane (c : UInt8) : Bool :=
  sgt (c + (0x7F - 0x39)) (0x7F - 0x39 + 0x30 - 1)

/-- the first 16 bytes when a vector load is allowed (`ptr + 16 <= end`) -/
def block16 (s : Bytes) : Option Bytes :=
  if 16 ≤ s.length then some (s.take 16) else none

/-! ## Comments and whitespace -/

/-- byte-at-a-time specification of `edn_simd_skip_whitespace`:
    `inComment` = a `;` was seen and no line feed since -/
def skipWsScalarAux : Bool → Bytes → Bytes
  | _, [] => []
  | true, c :: cs => if c == 0x0A then skipWsScalarAux false cs else skipWsScalarAux true cs
  | false, c :: cs =>
    if c == 0x3B then skipWsScalarAux true cs
    else if isWs c then skipWsScalarAux false cs
    else c :: cs

def skipWsScalar (s : Bytes) : Bytes := skipWsScalarAux false s

/-- `edn_simd_find_newline_sse`: suffix starting at the first line feed, or `[]` -/
def findNewlineSimd : Nat → Bytes → Bytes
  | 0, s => s
  | _ + 1, [] => []
  | f + 1, c :: cs =>
    match block16 (c :: cs) with
    | some blk =>
      match blk.findIdx? (· == 0x0A) with
      | some i => (c :: cs).drop i
      | none => findNewlineSimd f ((c :: cs).drop 16)
    | none => if c == 0x0A then c :: cs else findNewlineSimd f cs

/-- `edn_simd_skip_whitespace`, x86-64 branch -/
def skipWsSimd : Nat → Bytes → Bytes
  | 0, s => s
  | _ + 1, [] => []
  | f + 1, c :: cs =>
    if c == 0x3B then
      match findNewlineSimd (cs.length + 1) cs with
      | d :: r => if d == 0x0A then skipWsSimd f r else skipWsSimd f (d :: r)
      | [] => []
    else
      match block16 (c :: cs) with
      | some blk =>
        if blk.all wsLane then skipWsSimd f ((c :: cs).drop 16)
        else if isWs c then skipWsSimd f cs else c :: cs
      | none => if isWs c then skipWsSimd f cs else c :: cs

/-- what the reader calls -/
def skipWs (s : Bytes) : Bytes := skipWsSimd (s.length + 1) s

/-! ## Closing quote -/

/-- byte-at-a-time specification of `edn_simd_find_quote`: the suffix that starts at the
    first unescaped `"`, and whether a backslash was seen before it; `none` when the
    input ends first or ends right after a backslash.  First argument: the previous byte
    was an (unescaped) backslash, so this byte is skipped. -/
def findQuoteScalarAux : Bool → Bool → Bytes → Option (Bytes × Bool)
  | _, _, [] => none
  | true, bs, _ :: cs => findQuoteScalarAux false bs cs       -- the byte after a backslash
  | false, bs, c :: cs =>
    if c == 0x5C then findQuoteScalarAux true true cs
    else if c == 0x22 then some (c :: cs, bs)
    else findQuoteScalarAux false bs cs

def findQuoteScalar (bs : Bool) (s : Bytes) : Option (Bytes × Bool) := findQuoteScalarAux false bs s

/-- `edn_simd_find_quote`, x86-64 branch -/
def findQuoteSimd : Nat → Bool → Bytes → Option (Bytes × Bool)
  | 0, _, _ => none
  | _ + 1, _, [] => none
  | f + 1, bs, c :: cs =>
    match block16 (c :: cs) with
    | some blk =>
      match blk.findIdx? (fun b => b == 0x22 || b == 0x5C) with
      | none => findQuoteSimd f bs ((c :: cs).drop 16)
      | some i =>
        match (c :: cs).drop i with
        | [] => none
        | d :: r =>
          if d == 0x5C then
            match r with
            | [] => none
            | _ :: r' => findQuoteSimd f true r'
          else some (d :: r, bs)
    | none =>
      if c == 0x5C then
        match cs with
        | [] => none
        | _ :: cs' => findQuoteSimd f true cs'
      else if c == 0x22 then some (c :: cs, bs)
      else findQuoteSimd f bs cs

def findQuote (s : Bytes) : Option (Bytes × Bool) := findQuoteSimd (s.length + 1) false s

/-! ## Digit runs -/

def scanDigitsScalar (s : Bytes) : Bytes := s.dropWhile isDigit

/-- `edn_simd_scan_digits`, x86-64 branch -/
def scanDigitsSimd : Nat → Bytes → Bytes
  | 0, s => s
  | _ + 1, [] => []
  | f + 1, c :: cs =>
    match block16 (c :: cs) with
    | some blk =>
      match blk.findIdx? (fun b => !digitLane b) with
      | none => scanDigitsSimd f ((c :: cs).drop 16)
      | some i => (c :: cs).drop i
    | none => if isDigit c then scanDigitsSimd f cs else c :: cs

def scanDigits (s : Bytes) : Bytes := scanDigitsSimd (s.length + 1) s

/-! ## Identifiers -/

/-- result of `edn_simd_scan_identifier` (on x86-64 the repository uses its scalar
    fallback): token length, index of the first `/`, adjacent colons seen -/
structure IdentRaw where
  len : Nat
  slash : Option Nat
  colons : Bool
deriving Repr, BEq, DecidableEq

/-- scalar `edn_simd_scan_identifier`: state = index, first slash, prev-was-colon, colons -/
def scanIdentRawAux : Nat → Option Nat → Bool → Bool → Bytes → IdentRaw
  | i, sl, _, col, [] => ⟨i, sl, col⟩
  | i, sl, prev, col, c :: cs =>
    if isDelim c then ⟨i, sl, col⟩
    else
      let col' := col || (c == 0x3A && prev)
      let sl' := if c == 0x2F && sl.isNone then some i else sl
      scanIdentRawAux (i + 1) sl' (c == 0x3A) col' cs

def scanIdentRaw (s : Bytes) : IdentRaw := scanIdentRawAux 0 none false false s

/-- result of the static `scan_identifier` of identifier.c -/
structure IdentScan where
  valid : Bool
  len : Nat := 0
  /-- namespace length when a namespace is present -/
  ns : Option Nat := none
  /-- offset and length of the name -/
  nameOff : Nat := 0
  nameLen : Nat := 0
deriving Repr, BEq, DecidableEq

/-- short path of `scan_identifier` (`remaining <= 16`): returns `none` on `::` -/
def scanIdentShortAux : Nat → Option Nat → Bool → Bytes → Option (Nat × Option Nat)
  | i, sl, _, [] => some (i, sl)
  | i, sl, prev, c :: cs =>
    if isDelim c then some (i, sl)
    else if c == 0x3A && prev then none
    else
      let sl' := if c == 0x2F && sl.isNone then some i else sl
      scanIdentShortAux (i + 1) sl' (c == 0x3A) cs

/-- the namespace/name split performed at the end of `scan_identifier` -/
def identSplit (len : Nat) (slash : Option Nat) : IdentScan :=
  if len == 0 then { valid := false }
  else match slash with
    | some k =>
      if len == 1 then { valid := true, len := 1, ns := none, nameOff := 0, nameLen := 1 }
      else if k == 0 then { valid := false }
      else if k == len - 1 then { valid := false }
      else { valid := true, len := len, ns := some k, nameOff := k + 1, nameLen := len - (k + 1) }
    | none => { valid := true, len := len, ns := none, nameOff := 0, nameLen := len }

/-- `scan_identifier`: the `remaining <= 16` switch included -/
def scanIdent (s : Bytes) : IdentScan :=
  if s.length ≤ 16 then
    match scanIdentShortAux 0 none false s with
    | none => { valid := false }
    | some (len, sl) => identSplit len sl
  else
    let r := scanIdentRaw s
    if r.colons then { valid := false }
    else
      -- the continuation loop of the C code starts at a delimiter or at the end and
      -- therefore does nothing (proved in Edn.Proofs.Scan)
      identSplit r.len r.slash

/-- byte-at-a-time specification of the whole identifier scan, without the length switch -/
def scanIdentSpec (s : Bytes) : IdentScan :=
  let r := scanIdentRaw s
  if r.colons then { valid := false } else identSplit r.len r.slash

/-! ## Line feeds -/

/-- specification: ascending offsets of the line feeds of `s`, starting the count at `base` -/
def lfPositionsScalar : Nat → Bytes → List Nat
  | _, [] => []
  | i, c :: cs => if c == 0x0A then i :: lfPositionsScalar (i + 1) cs else lfPositionsScalar (i + 1) cs

/-- set bits of the movemask in ascending order (`mask &= mask - 1` loop) -/
def blockLfs (base : Nat) (blk : Bytes) : List Nat := lfPositionsScalar base blk

/-- `newline_find_all_simd`, x86-64 branch -/
def lfPositionsSimd : Nat → Nat → Bytes → List Nat
  | 0, _, _ => []
  | _ + 1, _, [] => []
  | f + 1, i, c :: cs =>
    match block16 (c :: cs) with
    | some blk => blockLfs i blk ++ lfPositionsSimd f (i + 16) ((c :: cs).drop 16)
    | none => if c == 0x0A then i :: lfPositionsSimd f (i + 1) cs else lfPositionsSimd f (i + 1) cs

def lfPositions (s : Bytes) : List Nat := lfPositionsSimd (s.length + 1) 0 s

/-- `binary_search_line`: index of the last line feed strictly before `off`
    (`none` = SIZE_MAX = first line).  `lo`/`hi` as in the C loop, `fuel` bounds it. -/
def binarySearchLoop (offs : Array Nat) (off : Nat) : Nat → Nat → Nat → Option Nat → Option Nat
  | 0, _, _, res => res
  | f + 1, left, right, res =>
    if left ≤ right then
      let mid := left + (right - left) / 2
      if offs.getD mid 0 < off then binarySearchLoop offs off f (mid + 1) right (some mid)
      else if mid == 0 then res
      else binarySearchLoop offs off f left (mid - 1) res
    else res

def binarySearchLine (offs : Array Nat) (off : Nat) : Option Nat :=
  if offs.size == 0 || off ≤ offs.getD 0 0 then none
  else binarySearchLoop offs off (offs.size + 1) 0 (offs.size - 1) none

/-- `newline_get_position`: (line, column), both 1-based -/
def linePos (offs : Array Nat) (off : Nat) : Nat × Nat :=
  match binarySearchLine offs off with
  | none => (1, off + 1)
  | some i => (i + 2, off - (offs.getD i 0 + 1) + 1)

/-- specification of line/column: one plus the number of line feeds before the offset, one
    plus the distance from the byte after the last of them -/
def linePosSpec (s : Bytes) (off : Nat) : Nat × Nat :=
  let before := (lfPositionsScalar 0 s).filter (· < off)
  match before.getLast? with
  | none => (1, off + 1)
  | some p => (before.length + 1, off - p)

end Edn.Model
