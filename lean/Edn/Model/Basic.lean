/-
  Edn.Model.Basic — configuration, byte classes (look-ups into the regenerated
  tables), the value type mirroring `struct edn_value`, error codes and the
  three-way reader result.  No Mathlib (this file is linked into the driver).
-/
import Edn.Generated.Tables

namespace Edn.Model

open Edn.Generated

abbrev Bytes := List UInt8

/-- The two compile-time feature flags. -/
structure Cfg where
  clj : Bool
  exp : Bool
deriving Repr, BEq, DecidableEq, Inhabited

def Cfg.core : Cfg := ⟨false, false⟩

/-- bit `b` of a 256-bit mask extracted from the C tables -/
@[inline] def maskBit (m : Nat) (c : UInt8) : Bool := m.testBit c.toNat

/-- `DELIMITER_TABLE[c]` -/
def isDelim (c : UInt8) : Bool := maskBit Tables.delimiterMask c
/-- `validate_number_delimiter` accepts the next byte `c` -/
def isNumTerm (c : UInt8) : Bool := maskBit Tables.numberTermMask c
/-- scalar whitespace class of `edn_simd_skip_whitespace` (without `;`) -/
def isWs (c : UInt8) : Bool := maskBit Tables.scalarWsMask c
/-- scalar digit class of `edn_simd_scan_digits` -/
def isDigit (c : UInt8) : Bool := maskBit Tables.scalarDigitMask c
def isValidSingleChar (cfg : Cfg) (c : UInt8) : Bool :=
  maskBit (Tables.validSingleCharMask cfg.clj cfg.exp) c

/-- `DIGIT_VALUES[c]`, 255 = invalid -/
def digitValueRaw (c : UInt8) : Nat := Tables.digitValues.getD c.toNat 255
/-- `digit_value(c, radix)` as an option -/
def digitValue (c : UInt8) (radix : Nat) : Option Nat :=
  let v := digitValueRaw c
  if v < radix then some v else none

/-- pre-filter of `edn_read_value` in front of the whitespace skipper (edn.c:431) -/
def isPreWs (c : UInt8) : Bool :=
  c == 0x20 || c == 0x2C || c == 0x3B || (0x09 ≤ c && c ≤ 0x0D) || (0x1C ≤ c && c ≤ 0x1F)

/-- dispatch classes of `char_dispatch_table` -/
inductive Disp
  | identifier | string | character | listOpen | vectorOpen | mapOpen | hash | sign | digit
  | delimiter | metadata
deriving Repr, BEq, DecidableEq

def dispatch (cfg : Cfg) (c : UInt8) : Disp :=
  if maskBit Tables.dispStringMask c then .string
  else if maskBit Tables.dispCharacterMask c then .character
  else if maskBit Tables.dispListOpenMask c then .listOpen
  else if maskBit Tables.dispVectorOpenMask c then .vectorOpen
  else if maskBit Tables.dispMapOpenMask c then .mapOpen
  else if maskBit Tables.dispHashMask c then .hash
  else if maskBit Tables.dispSignMask c then .sign
  else if maskBit Tables.dispDigitMask c then .digit
  else if maskBit Tables.dispDelimiterMask c then .delimiter
  else if maskBit (Tables.dispMetadataMask cfg.clj cfg.exp) c then .metadata
  else .identifier

/-- Error codes of `edn_error_t` (numbering is checked against the extracted enum). -/
inductive Err
  | ok | invalidSyntax | unexpectedEof | unterminatedCollection | outOfMemory | invalidNumber
  | invalidString | invalidCharacter | invalidDiscard | unmatchedDelimiter | unknownTag
  | duplicateKey | duplicateElement
deriving Repr, BEq, DecidableEq, Inhabited

def Err.name : Err → String
  | .ok => "OK" | .invalidSyntax => "INVALID_SYNTAX" | .unexpectedEof => "UNEXPECTED_EOF"
  | .unterminatedCollection => "UNTERMINATED_COLLECTION" | .outOfMemory => "OUT_OF_MEMORY"
  | .invalidNumber => "INVALID_NUMBER" | .invalidString => "INVALID_STRING"
  | .invalidCharacter => "INVALID_CHARACTER" | .invalidDiscard => "INVALID_DISCARD"
  | .unmatchedDelimiter => "UNMATCHED_DELIMITER" | .unknownTag => "UNKNOWN_TAG"
  | .duplicateKey => "DUPLICATE_KEY" | .duplicateElement => "DUPLICATE_ELEMENT"

def Err.code : Err → Nat
  | .ok => 0 | .invalidSyntax => 1 | .unexpectedEof => 2 | .unterminatedCollection => 3
  | .outOfMemory => 4 | .invalidNumber => 5 | .invalidString => 6 | .invalidCharacter => 7
  | .invalidDiscard => 8 | .unmatchedDelimiter => 9 | .unknownTag => 10 | .duplicateKey => 11
  | .duplicateElement => 12

/-- header shared by every value: source range and the cached hash (0 = not computed).
    `s`/`e` are in remaining-length coordinates (bytes of input left at the start / end of
    the value); `synth` marks values the reader synthesises, whose C range is (0, 0). -/
structure Hdr where
  s : Nat
  e : Nat
  hc : UInt64 := 0
  synth : Bool := false
deriving Repr, BEq, DecidableEq, Inhabited

@[inline] def mkHdr (s e : Nat) : Hdr := { s := s, e := e }

/-- Mirror of `struct edn_value`.  `md` is the metadata pointer (only the kinds the reader
    can attach metadata to carry one).  Zero-copy slices are stored as the bytes they cover. -/
inductive Val where
  | nil (h : Hdr)
  | bool (h : Hdr) (b : Bool)
  | int (h : Hdr) (i : Int)
  | bigint (h : Hdr) (neg : Bool) (radix : Nat) (digits : Bytes)
  | float (h : Hdr) (bits : UInt64)
  | bigdec (h : Hdr) (neg : Bool) (text : Bytes)
  | ratio (h : Hdr) (n d : Int)
  | bigratio (h : Hdr) (neg : Bool) (num den : Bytes)
  | char (h : Hdr) (cp : Nat)
  /-- `data` = raw literal text between the quotes (or the final text of a text block),
      `esc` = has_escapes flag -/
  | str (h : Hdr) (data : Bytes) (esc : Bool)
  | sym (h : Hdr) (md : Option Val) (ns : Option Bytes) (name : Bytes)
  | kw (h : Hdr) (ns : Option Bytes) (name : Bytes)
  | list (h : Hdr) (md : Option Val) (xs : List Val)
  | vec (h : Hdr) (md : Option Val) (xs : List Val)
  | map (h : Hdr) (md : Option Val) (ks vs : List Val)
  | set (h : Hdr) (md : Option Val) (xs : List Val)
  | tagged (h : Hdr) (md : Option Val) (tag : Bytes) (v : Val)
  | ext (h : Hdr) (tid : Nat) (data : Nat)
deriving Inhabited

def Val.hdr : Val → Hdr
  | .nil h | .bool h _ | .int h _ | .bigint h _ _ _ | .float h _ | .bigdec h _ _ | .ratio h _ _
  | .bigratio h _ _ _ | .char h _ | .str h _ _ | .sym h _ _ _ | .kw h _ _ | .list h _ _
  | .vec h _ _ | .map h _ _ _ | .set h _ _ | .tagged h _ _ _ | .ext h _ _ => h

def Val.setHdr (h : Hdr) : Val → Val
  | .nil _ => .nil h | .bool _ b => .bool h b | .int _ i => .int h i
  | .bigint _ n r d => .bigint h n r d | .float _ b => .float h b | .bigdec _ n t => .bigdec h n t
  | .ratio _ n d => .ratio h n d | .bigratio _ g n d => .bigratio h g n d | .char _ c => .char h c
  | .str _ d e => .str h d e | .sym _ m n x => .sym h m n x | .kw _ n x => .kw h n x
  | .list _ m xs => .list h m xs | .vec _ m xs => .vec h m xs | .map _ m ks vs => .map h m ks vs
  | .set _ m xs => .set h m xs | .tagged _ m t v => .tagged h m t v | .ext _ t d => .ext h t d

def Val.md : Val → Option Val
  | .sym _ m _ _ | .list _ m _ | .vec _ m _ | .map _ m _ _ | .set _ m _ | .tagged _ m _ _ => m
  | _ => none

/-- can `edn_read_metadata` attach metadata to this kind? -/
def Val.metaTarget : Val → Bool
  | .sym .. | .list .. | .vec .. | .map .. | .set .. | .tagged .. => true
  | _ => false

def Val.setMd (m : Option Val) : Val → Val
  | .sym h _ n x => .sym h m n x | .list h _ xs => .list h m xs | .vec h _ xs => .vec h m xs
  | .map h _ ks vs => .map h m ks vs | .set h _ xs => .set h m xs
  | .tagged h _ t v => .tagged h m t v
  | v => v

/-- information attached to an error: code, whether start/end were set explicitly
    (`none` = NULL, i.e. "use parser->current") -/
structure ErrInfo where
  code : Err
  es : Option Nat := none
  ee : Option Nat := none
  /-- `eof_between_forms`: end of input met by `edn_read_value` at nesting depth 0 -/
  eofTop : Bool := false
  /-- model artefact: the recursion fuel ran out (proved unreachable) -/
  fuelOut : Bool := false
deriving Repr, BEq, DecidableEq, Inhabited

/-- a handler invocation recorded by the reader: handler name, inner value's range -/
structure Call where
  name : String
  s : Nat
  e : Nat
deriving Repr, BEq, DecidableEq

/-- parser state that is threaded: remaining input (suffix) and the call log -/
structure St where
  rest : Bytes
  calls : List Call := []
deriving Inhabited

/-- result of `edn_read_value` and friends: a value (non-NULL), a NULL without error
    (closing delimiter met inside a collection), or an error -/
inductive Res where
  | ok (v : Val) (st : St)
  | closer (st : St)
  | err (e : ErrInfo) (st : St)
deriving Inhabited

end Edn.Model
