/-
  Edn.Model.Number — src/number.c: the SWAR block converter, `parse_int64_from_buffer`
  (three tiers, unsigned 64-bit accumulator with its overflow tests), `ratio_gcd`,
  `parse_double_from_buffer` (fast path / `strtod`), and `edn_read_number` with all of
  its `goto` targets.
-/
import Edn.Model.Scan
import Edn.Spec.Float

namespace Edn.Model

open Edn.Generated

def two64 : Nat := 18446744073709551616
/-- wrap to 64 bits, as `uint64_t` arithmetic does -/
@[inline] def w64 (x : Nat) : Nat := x % two64

/-- ASCII digit value, for bytes already known to be '0'..'9' -/
@[inline] def dval (c : UInt8) : Nat := c.toNat - 48
@[inline] def is09 (c : UInt8) : Bool := 0x30 ≤ c && c ≤ 0x39

/-! ## SWAR -/

/-- little-endian `memcpy(&val, chars, 8)` -/
def load64le (b : Bytes) : UInt64 :=
  (b.take 8).foldr (fun c acc => acc <<< 8 ||| c.toUInt64) 0

/-- `is_made_of_eight_digits_fast` -/
def eightDigitsFast (val : UInt64) : Bool :=
  ((val &&& 0xF0F0F0F0F0F0F0F0) == 0x3030303030303030) &&
  (((val + 0x0606060606060606) &&& 0xF0F0F0F0F0F0F0F0) == 0x3030303030303030)

/-- `parse_eight_digits_unrolled` -/
def parseEightDigits (val : UInt64) : UInt64 :=
  let v1 := ((val &&& 0x0F0F0F0F0F0F0F0F) * 2561) >>> 8
  let v2 := ((v1 &&& 0x00FF00FF00FF00FF) * 6553601) >>> 16
  (((v2 &&& 0x0000FFFF0000FFFF) * 42949672960001) >>> 32) &&& 0xFFFFFFFF

/-! ## parse_int64_from_buffer -/

/-- ultra-fast path (radix 10, at most 3 bytes): returns the value and whether the
    cursor moved -/
def fastSmall (exp : Bool) : Nat → Bool → Bytes → Nat × Bool
  | v, moved, [] => (v, moved)
  | v, moved, c :: cs =>
    if exp && c == 0x5F then fastSmall exp v true cs
    else if !is09 c then (v, moved)
    else fastSmall exp (v * 10 + dval c) true cs

/-- scalar loop with the cutoff/cutlim overflow test; `none` = overflow -/
def scalarDigits (exp : Bool) (radix cutoff cutlim : Nat) : Nat → Bytes → Option Nat
  | v, [] => some v
  | v, c :: cs =>
    if exp && c == 0x5F then scalarDigits exp radix cutoff cutlim v cs
    else match digitValue c radix with
      | none => some v
      | some d =>
        if v > cutoff || (v == cutoff && d > cutlim) then none
        else scalarDigits exp radix cutoff cutlim (w64 (v * radix + d)) cs

/-- the decimal scalar loop tests `c < '0' || c > '9'` rather than the digit table -/
def scalarDigits10 (exp : Bool) (cutoff cutlim : Nat) : Nat → Bytes → Option Nat
  | v, [] => some v
  | v, c :: cs =>
    if exp && c == 0x5F then scalarDigits10 exp cutoff cutlim v cs
    else if !is09 c then some v
    else
      let d := dval c
      if v > cutoff || (v == cutoff && d > cutlim) then none
      else scalarDigits10 exp cutoff cutlim (w64 (v * 10 + d)) cs

/-- SWAR loop: consumes 8-digit blocks while it can; returns the accumulator and the rest,
    `none` = overflow -/
def swarLoop (maxVal : Nat) : Nat → Nat → Bytes → Option (Nat × Bytes)
  | 0, v, s => some (v, s)
  | f + 1, v, s =>
    if 8 ≤ s.length then
      let w := load64le s
      if eightDigitsFast w then
        let eight := (parseEightDigits w).toNat
        if v > maxVal / 100000000 then none
        else
          let nv := w64 (v * 100000000 + eight)
          if nv < v then none
          else if nv > maxVal then none
          else swarLoop maxVal f nv (s.drop 8)
      else some (v, s)
    else some (v, s)

/-- `parse_int64_from_buffer(start, end, &out, radix, negative)` -/
def parseInt64 (cfg : Cfg) (digits : Bytes) (radix : Nat) (neg : Bool) : Option Int :=
  let small : Option Int :=
    if radix == 10 && digits.length ≤ 3 then
      let (v, moved) := fastSmall cfg.exp 0 false digits
      if moved then some (if neg then -(v : Int) else (v : Int)) else none
    else none
  match small with
  | some r => some r
  | none =>
    let maxVal : Nat := if neg then 9223372036854775808 else 9223372036854775807
    let cutoff := maxVal / radix
    let cutlim := maxVal % radix
    let value : Option Nat :=
      if radix == 10 then
        match swarLoop maxVal (digits.length + 1) 0 digits with
        | none => none
        | some (v, rest) => scalarDigits10 cfg.exp cutoff cutlim v rest
      else scalarDigits cfg.exp radix cutoff cutlim 0 digits
    match value with
    | none => none
    | some v => some (if neg then -(v : Int) else (v : Int))

/-! ## ratio_gcd (binary gcd on unsigned magnitudes) -/

def gcdStrip2 : Nat → Nat → Nat
  | 0, a => a
  | f + 1, a => if a % 2 == 0 && a != 0 then gcdStrip2 f (a / 2) else a

def gcdMain : Nat → Nat → Nat → Nat
  | 0, a, _ => a
  | f + 1, a, b =>
    let b := gcdStrip2 64 b
    let (a, b) := if a > b then (b, a) else (a, b)
    let b := b - a
    if b == 0 then a else gcdMain f a b

def gcdCommon2 : Nat → Nat → Nat → Nat → Nat × Nat × Nat
  | 0, a, b, sh => (a, b, sh)
  | f + 1, a, b, sh => if (a ||| b) % 2 == 0 then gcdCommon2 f (a / 2) (b / 2) (sh + 1) else (a, b, sh)

/-- `ratio_gcd(a, b)` on int64 operands -/
def ratioGcd (sa sb : Int) : Nat :=
  let a := sa.natAbs
  let b := sb.natAbs
  if a == 0 then b else if b == 0 then a
  else
    let (a, b, sh) := gcdCommon2 64 a b 0
    let a := gcdStrip2 64 a
    w64 (gcdMain 200 a b * 2 ^ sh)

/-! ## parse_double_from_buffer -/

/-- digit accumulation of the integer/fraction parts: (mantissa, digit count, rest) -/
def accDigits (exp : Bool) : Nat → Nat → Bytes → Nat × Nat × Bytes
  | m, n, [] => (m, n, [])
  | m, n, c :: cs =>
    if exp && c == 0x5F then accDigits exp m n cs
    else if is09 c then accDigits exp (if n < 18 then m * 10 + dval c else m) (n + 1) cs
    else (m, n, c :: cs)

/-- exponent digits with the clamp at 1000 -/
def accExp (exp : Bool) : Nat → Bytes → Nat
  | v, [] => v
  | v, c :: cs =>
    if exp && c == 0x5F then accExp exp v cs
    else if is09 c then
      let v' := v * 10 + dval c
      if v' > 1000 then 1000 else accExp exp v' cs
    else v

/-- exact decimal value of a literal `[sign] digits [. digits] [e [sign] digits]`
    (underscores ignored): (negative, mantissa, decimal exponent) -/
def decimalParts (text : Bytes) : Bool × Nat × Int :=
  let (neg, s) := match text with
    | 0x2D :: r => (true, r)
    | 0x2B :: r => (false, r)
    | r => (false, r)
  let rec digs : Nat → Nat → Bytes → Nat × Nat × Bytes
    | m, n, [] => (m, n, [])
    | m, n, c :: cs =>
      if c == 0x5F then digs m n cs
      else if is09 c then digs (m * 10 + dval c) (n + 1) cs else (m, n, c :: cs)
  let (m1, _, s1) := digs 0 0 s
  let (m2, fr, s2) := match s1 with
    | 0x2E :: r => let (m, n, r') := digs m1 0 r; (m, n, r')
    | r => (m1, 0, r)
  let e : Int := match s2 with
    | c :: r =>
      if c == 0x65 || c == 0x45 then
        let (eneg, r1) := match r with
          | 0x2D :: r' => (true, r')
          | 0x2B :: r' => (false, r')
          | r' => (false, r')
        let (ev, _, _) := digs 0 0 r1
        if eneg then -(ev : Int) else (ev : Int)
      else 0
    | [] => 0
  (neg, m2, e - (fr : Int))

/-- `strtod` on a validated literal, assumed correctly rounded -/
def strtodSpec (text : Bytes) : UInt64 :=
  let (neg, m, e) := decimalParts text
  Spec.withSign neg (Spec.ofDecC m e)

/-- `parse_double_fast`: `none` = fall back to strtod -/
def parseDoubleFast (mant : Nat) (e : Int) (neg : Bool) : Option UInt64 :=
  if e < -22 || e > 22 then none
  else if mant > 9007199254740991 then none
  else
    let d := Spec.ofNat mant
    let p := UInt64.ofNat (Tables.pow10Positive.getD e.natAbs 0)
    let r := if e < 0 then Spec.fdiv d p else Spec.fmul d p
    some (Spec.withSign neg r)

/-- `parse_double_from_buffer(start, end)`; `text` includes the sign -/
def parseDouble (cfg : Cfg) (text : Bytes) : UInt64 :=
  let (neg, s) := match text with
    | c :: r => if c == 0x2D then (true, r) else if c == 0x2B then (false, r) else (false, c :: r)
    | [] => (false, [])
  let (m1, n1, s1) := accDigits cfg.exp 0 0 s
  let (m2, n2, fr, s2) := match s1 with
    | c :: r =>
      if c == 0x2E then
        let (m, n, r') := accDigits cfg.exp m1 n1 r
        (m, n, n - n1, r')
      else (m1, n1, 0, c :: r)
    | [] => (m1, n1, 0, [])
  let e10 : Int := -(fr : Int)
  let e10 : Int := match s2 with
    | c :: r =>
      if c == 0x65 || c == 0x45 then
        let (eneg, r1) := match r with
          | d :: r' => if d == 0x2D then (true, r') else if d == 0x2B then (false, r') else (false, d :: r')
          | [] => (false, [])
        let ev := accExp cfg.exp 0 r1
        e10 + (if eneg then -(ev : Int) else (ev : Int))
      else e10
    | [] => e10
  let fast := if n2 ≤ 15 then parseDoubleFast m2 e10 neg else none
  match fast with
  | some r => r
  | none => strtodSpec text

/-! ## edn_read_number -/

/-- bytes between two suffixes of the same input -/
def slice (frm to : Bytes) : Bytes := frm.take (frm.length - to.length)

@[inline] def peek (s : Bytes) : UInt8 := s.headD 0
@[inline] def adv (s : Bytes) : Bytes := s.tail

/-- number payloads -/
inductive NumVal
  | int (i : Int)
  | bigint (neg : Bool) (radix : Nat) (digits : Bytes)
  | float (bits : UInt64)
  | bigdec (neg : Bool) (text : Bytes)
  | ratio (n d : Int)
  | bigratio (neg : Bool) (num den : Bytes)
deriving Repr, BEq, DecidableEq

/-- outcome: a value and the rest, or an error with `parser->current` at that moment -/
inductive NumOut
  | ok (v : NumVal) (rest : Bytes)
  | err (cur : Bytes)
deriving Repr, BEq, DecidableEq

/-- `validate_number_delimiter` -/
def numDelimOk (s : Bytes) : Bool :=
  match s with
  | [] => true
  | c :: _ => isNumTerm c

def finishNum (v : NumVal) (s : Bytes) : NumOut :=
  if numDelimOk s then .ok v s else .err s

/-- decimal digit loop of the main path (number.c:755): digits and, with the experimental
    flag, underscores that must be followed by a digit or underscore; `.error cur` is the
    "Invalid underscore position" error with `parser->current = cur` -/
def decDigitsLoop (exp : Bool) : Nat → Bytes → Except Bytes Bytes
  | 0, s => .ok s
  | f + 1, s =>
    let c := peek s
    if c != 0 && !isDelim c then
      if is09 c then decDigitsLoop exp f (adv s)
      else if exp && c == 0x5F then
        let s' := adv s
        let c' := peek s'
        if c' != 0x5F && !is09 c' then .error s' else decDigitsLoop exp f s'
      else .ok s
    else .ok s

/-- digits (and underscores with the experimental flag) of fraction and exponent -/
def fracDigits (exp : Bool) (s : Bytes) : Bytes :=
  s.dropWhile (fun c => is09 c || (exp && c == 0x5F))

def lastIsUnderscore (frm to : Bytes) : Bool :=
  (slice frm to).getLast? == some 0x5F

/-- digits of a given radix in the radix/hex/octal loops; `strictUnderscore` is the
    radix form's "next must be digit or underscore" rule -/
def radixDigitsLoop (exp : Bool) (radix : Nat) (strictUnderscore : Bool) : Nat → Bytes → Except Bytes Bytes
  | 0, s => .ok s
  | f + 1, s =>
    let c := peek s
    if c != 0 && !isDelim c then
      if (digitValue c radix).isSome then radixDigitsLoop exp radix strictUnderscore f (adv s)
      else if exp && c == 0x5F then
        let s' := adv s
        let c' := peek s'
        if strictUnderscore && !(digitValue c' radix).isSome && c' != 0x5F then .error s'
        else radixDigitsLoop exp radix strictUnderscore f s'
      else .ok s
    else .ok s

/-- integer or big integer from a digit slice -/
def intOrBig (cfg : Cfg) (digits : Bytes) (radix : Nat) (neg : Bool) : NumVal :=
  match parseInt64 cfg digits radix neg with
  | some i => .int i
  | none => .bigint neg radix digits

/-- ratio denominator after the `/` (shared by the main path and the zero path):
    returns the rest after the denominator digits, or the error position -/
def ratioDenominator (s : Bytes) : Except Bytes Bytes :=
  let c := peek s
  if s.isEmpty || !is09 c then .error s
  else if c == 0x30 then .error (adv s)
  else
    let s' := s.dropWhile is09
    let c' := peek s'
    if c' == 0x4E || c' == 0x4D || c' == 0x2F then .error s'
    else if !s'.isEmpty && !isDelim c' then .error s'
    else .ok s'

/-- everything after the digits of a radix / hex / octal literal -/
def radixTail (cfg : Cfg) (neg : Bool) (radix : Nat) (allowN : Bool) (digitsStart s : Bytes) : NumOut :=
  let digits := slice digitsStart s
  let c := peek s
  let (isN, isM, s1) :=
    if allowN && c == 0x4E then (true, false, adv s)
    else if c == 0x4D then (false, true, adv s)
    else (false, false, s)
  -- the radix form tests the '/' on the byte seen before the suffix, hex/octal after it
  let c1 := if allowN then peek s1 else c
  if c1 == 0x2F then .err s1
  else
    let v := if isM then NumVal.bigdec neg digits
             else if isN then NumVal.bigint neg radix digits
             else intOrBig cfg digits radix neg
    finishNum v s1

/-- suffix handling and value creation of the main path (number.c:838-1005) -/
def decimalTail (cfg : Cfg) (start : Bytes) (neg hasDec hasExp : Bool) (digitsStart s : Bytes) : NumOut :=
  let c := peek s
  let digits := slice digitsStart s
  if cfg.exp && (c == 0x4E || c == 0x4D || c == 0x2F) && lastIsUnderscore digitsStart s then .err s
  else if c == 0x4E && !hasDec && !hasExp then finishNum (.bigint neg 10 digits) (adv s)
  else if c == 0x4D then finishNum (.bigdec neg digits) (adv s)
  else if cfg.clj && c == 0x2F && !hasDec && !hasExp then
    match ratioDenominator (adv s) with
    | .error cur => .err cur
    | .ok s' =>
      let den := slice (adv s) s'
      let n? := parseInt64 cfg digits 10 neg
      let d? := parseInt64 cfg den 10 false
      match n?, d? with
      | some n, some d =>
        let g := ratioGcd n d
        let n' := if g > 1 then n / (g : Int) else n
        let d' := if g > 1 then d / (g : Int) else d
        -- the two early returns (number.c) skip validate_number_delimiter
        if n' == 0 then .ok (.int 0) s'
        else if d' == 1 then .ok (.int n') s'
        else finishNum (.ratio n' d') s'
      | _, some d =>
        if d == 1 then finishNum (.bigint neg 10 digits) s' else finishNum (.bigratio neg digits den) s'
      | _, none => finishNum (.bigratio neg digits den) s'
  else if hasDec || hasExp then finishNum (.float (parseDouble cfg (slice start s))) s
  else finishNum (intOrBig cfg digits 10 neg) s

/-- `parse_exponent:` — `s` is at the `e`/`E` -/
def exponentPart (cfg : Cfg) (start : Bytes) (neg hasDec : Bool) (digitsStart s : Bytes) : NumOut :=
  let s1 := adv s
  let c := peek s1
  let s2 := if c == 0x2B || c == 0x2D then adv s1 else s1
  let c2 := peek s2
  if !is09 c2 then .err s2
  else
    let s3 := fracDigits cfg.exp s2
    decimalTail cfg start neg hasDec true digitsStart s3

/-- the `e`/`E` test after the integer or fraction digits -/
def afterMantissa (cfg : Cfg) (start : Bytes) (neg hasDec : Bool) (digitsStart s : Bytes) : NumOut :=
  let c := peek s
  if c == 0x65 || c == 0x45 then
    if cfg.exp && lastIsUnderscore digitsStart s then .err s
    else exponentPart cfg start neg hasDec digitsStart s
  else decimalTail cfg start neg hasDec false digitsStart s

/-- `parse_decimal_part:` — `s` is at the `.` -/
def decimalPart (cfg : Cfg) (start : Bytes) (neg : Bool) (digitsStart s : Bytes) : NumOut :=
  let s1 := adv s
  if cfg.exp && peek s1 == 0x5F then .err s1
  else afterMantissa cfg start neg true digitsStart (fracDigits cfg.exp s1)

/-- radix prefix `NNr`: saturating value of the digit run -/
def radixPrefixValue : Nat → Bytes → Nat
  | v, [] => v
  | v, c :: cs => radixPrefixValue (if v ≤ 36 then v * 10 + dval c else v) cs

/-- `edn_read_number`; `s0` starts at the sign or first digit -/
def readNumber (cfg : Cfg) (s0 : Bytes) : NumOut :=
  let c0 := peek s0
  let (neg, s) := if c0 == 0x2D || c0 == 0x2B then (c0 == 0x2D, adv s0) else (false, s0)
  let digitsStart := s
  let c := peek s
  -- radix notation (Clojure extension)
  let radixForm : Option NumOut :=
    if cfg.clj && is09 c then
      let rpos := s.dropWhile is09
      match rpos with
      | r :: rrest =>
        if r == 0x72 || r == 0x52 then
          let rv := radixPrefixValue 0 (slice s rpos)
          if 2 ≤ rv && rv ≤ 36 then
            let ds := rrest
            if !(digitValue (peek ds) rv).isSome then some (.err ds)
            else match radixDigitsLoop cfg.exp rv true (ds.length + 1) ds with
              | .error cur => some (.err cur)
              | .ok s' => some (radixTail cfg neg rv false ds s')
          else some (.err s)
        else none
      | [] => none
    else none
  match radixForm with
  | some r => r
  | none =>
  if c == 0x30 then
    let s1 := adv s
    let c1 := peek s1
    -- Clojure extension: skip further zeros, hex, octal
    let cljBranch : Option NumOut × Bytes :=
      if cfg.clj then
        let s2 := s1.dropWhile (· == 0x30)
        let c2 := peek s2
        if c2 == 0x78 || c2 == 0x58 then
          let ds := adv s2
          if !(digitValue (peek ds) 16).isSome then (some (.err ds), s2)
          else match radixDigitsLoop cfg.exp 16 false (ds.length + 1) ds with
            | .error cur => (some (.err cur), s2)
            | .ok s' => (some (radixTail cfg neg 16 true ds s'), s2)
        else if 0x31 ≤ c2 && c2 ≤ 0x37 then
          match radixDigitsLoop cfg.exp 8 false (s2.length + 1) s2 with
          | .error cur => (some (.err cur), s2)
          | .ok s' => (some (radixTail cfg neg 8 true digitsStart s'), s2)
        else if c2 == 0x38 || c2 == 0x39 then (some (.err s2), s2)
        else (none, s2)
      else
        if is09 c1 then (some (.err s1), s1) else (none, s1)
    match cljBranch with
    | (some r, _) => r
    | (none, s2) =>
      let c2 := peek s2
      if c2 == 0x2E then decimalPart cfg s0 neg digitsStart s2
      else if c2 == 0x4E then finishNum (.bigint neg 10 [0x30]) (adv s2)
      else if c2 == 0x4D then finishNum (.bigdec neg [0x30]) (adv s2)
      else if c2 == 0x65 || c2 == 0x45 then exponentPart cfg s0 neg false digitsStart s2
      else if cfg.clj && c2 == 0x2F then
        match ratioDenominator (adv s2) with
        | .error cur => .err cur
        | .ok s' => .ok (.int 0) s'
      else finishNum (.int 0) s2
  else
    match decDigitsLoop cfg.exp (s.length + 1) s with
    | .error cur => .err cur
    | .ok s1 =>
      if peek s1 == 0x2E then decimalPart cfg s0 neg digitsStart s1
      else afterMantissa cfg s0 neg false digitsStart s1

end Edn.Model
