/-
  Edn.Model.Registry — src/reader.c (16-bucket chained hash table keyed by tag name) and
  the external-type list of src/edn.c (`edn_external_register_type` and friends).
-/
import Edn.Model.Equal

namespace Edn.Model
open Edn.Generated

/-- a chain: entries in list order, head = most recently inserted -/
abbrev Chain (κ : Type) := List (κ × Nat)

/-- register in a chain: update the first entry with this key in place, else insert at head -/
def Chain.register [BEq κ] (c : Chain κ) (k : κ) (h : Nat) : Chain κ :=
  if c.any (fun e => e.1 == k) then
    let rec upd : Chain κ → Chain κ
      | [] => []
      | e :: es => if e.1 == k then (k, h) :: es else e :: upd es
    upd c
  else (k, h) :: c

/-- unregister: unlink the first entry with this key -/
def Chain.unregister [BEq κ] : Chain κ → κ → Chain κ
  | [], _ => []
  | e :: es, k => if e.1 == k then es else e :: Chain.unregister es k

def Chain.lookup [BEq κ] (c : Chain κ) (k : κ) : Option Nat :=
  (c.find? (fun e => e.1 == k)).map (·.2)

/-- `hash_tag` of reader.c (FNV-1a over the bytes) -/
def hashTag (tag : Bytes) : UInt64 := fnvBytes fnvOffset tag

structure Registry where
  buckets : List (Chain Bytes)
deriving Repr

def Registry.create : Registry := { buckets := List.replicate Tables.initialBucketCount [] }

def Registry.bucketOf (r : Registry) (tag : Bytes) : Nat := (hashTag tag).toNat % r.buckets.length

def Registry.register (r : Registry) (tag : Bytes) (h : Nat) : Registry :=
  let i := r.bucketOf tag
  { buckets := r.buckets.set i ((r.buckets.getD i []).register tag h) }

def Registry.unregister (r : Registry) (tag : Bytes) : Registry :=
  let i := r.bucketOf tag
  { buckets := r.buckets.set i ((r.buckets.getD i []).unregister tag) }

def Registry.lookup (r : Registry) (tag : Bytes) : Option Nat :=
  (r.buckets.getD (r.bucketOf tag) []).lookup tag

inductive RegOp (κ : Type)
  | reg (k : κ) (h : Nat)
  | unreg (k : κ)
deriving Repr

def Registry.step (r : Registry) : RegOp Bytes → Registry
  | .reg k h => r.register k h
  | .unreg k => r.unregister k

/-- the external-type table is a single chain keyed by the type id -/
def extStep (c : Chain Nat) : RegOp Nat → Chain Nat
  | .reg k h => c.register k h
  | .unreg k => c.unregister k

/-- the abstract map both tables must behave like -/
def specStep [BEq κ] (m : κ → Option Nat) : RegOp κ → κ → Option Nat
  | .reg k h => fun q => if q == k then some h else m q
  | .unreg k => fun q => if q == k then none else m q

end Edn.Model
