/-
  Edn.Model.Reader — the recursive-descent reader: src/edn.c (`edn_read_value`,
  `edn_read_with_options`), identifier.c, character.c, symbolic.c, string.c (reader
  part), collection.c, tagged.c, discard.c, metadata.c.

  Parser state is the remaining suffix of the input (`St.rest`).  Positions are kept in
  *remaining-length coordinates*: a header or an error range stores the number of input
  bytes that remained at that point, and the absolute offset `n - remaining` is computed
  only by `read` / the dump.  The reader proper is therefore a function of the suffix
  alone, which is what makes "prefixing blanks only shifts positions" and "trivia never
  changes the value" short theorems.  Recursion is by fuel; `Edn.Proofs` shows it never
  runs out.
-/
import Edn.Model.Number
import Edn.Model.Equal

namespace Edn.Model

open Edn.Generated

/-- a tag handler as the model sees it: a name for the call log and a pure function;
    `none` = the handler returned NULL; `msg` = it set an error message -/
structure Handler where
  name : String
  run : Val → Option Val

structure Opts where
  eofValue : Bool := false
  /-- 0 passthrough, 1 unwrap, 2 error -/
  mode : Nat := 0
  /-- `none` = no registry supplied -/
  registry : Option (Bytes → Option Handler) := none

structure Ctx where
  cfg : Cfg
  opts : Opts := {}

/-- position of a suffix in remaining-length coordinates -/
@[inline] def Ctx.pos (_ctx : Ctx) (s : Bytes) : Nat := s.length

def mkErr (code : Err) (es ee : Option Nat := none) : ErrInfo := { code := code, es := es, ee := ee }

/-! ## Leaf readers -/

def startsWith (s p : Bytes) : Bool := p.isPrefixOf s

/-- `edn_read_string` (ordinary literals and, with the experimental flag, text blocks) -/
def readString (ctx : Ctx) (st : St) : Res :=
  let s := st.rest
  let start := ctx.pos s
  if ctx.cfg.exp && startsWith s [0x22, 0x22, 0x22, 0x0A] then
    let body := s.drop 4
    match readTextBlockBody body with
    | .ok (text, rest) => .ok (.str (mkHdr (start) (ctx.pos rest)) text false) { st with rest := rest }
    | .error .missingCloser =>
      .err (mkErr .invalidString (some start) (some 0)) { st with rest := [] }
    | .error (.eofInLine ls) => .err (mkErr .invalidString) { st with rest := ls }
  else
    match findQuote s.tail with
    | none => .err (mkErr .invalidString (some start) (some 0)) st
    | some (q, esc) =>
      let content := slice s.tail q
      .ok (.str (mkHdr (start) (q.tail.length)) content esc) { st with rest := q.tail }

/-- up to `k` more hex digits (experimental 5th and 6th digit) -/
def hexMore : Nat → Nat → Bytes → Nat × Bytes
  | 0, v, s => (v, s)
  | k + 1, v, c :: r =>
    match hexDigit? c with
    | some d => hexMore k (v * 16 + d) r
    | none => (v, c :: r)
  | _ + 1, v, [] => (v, [])

/-- `parse_octal_escape` of character.c -/
def octalChar (s : Bytes) : Option (Nat × Bytes) :=
  let digs := (s.take 3).takeWhile isOct
  if digs.isEmpty then none
  else
    let rest := s.drop digs.length
    let v := digs.foldl (fun a c => a * 8 + (c.toNat - 0x30)) 0
    if peek rest == 0x38 || peek rest == 0x39 then none
    else if v > 255 then none
    else some (v, rest)

def strBytes (t : String) : Bytes := t.toUTF8.toList

/-- `edn_read_character`; all errors leave `parser->current` at the backslash -/
def readCharacter (ctx : Ctx) (st : St) : Res :=
  let s := st.rest
  let start := ctx.pos s
  let p := s.tail
  let cerr (ee : Nat) : Res := .err (mkErr .invalidCharacter (some start) (some ee)) st
  if p.isEmpty then cerr (ctx.pos p)
  else
    let named (nm : String) (cp : Nat) : Option (Nat × Bytes) :=
      if startsWith p (strBytes nm) then some (cp, p.drop nm.length) else none
    let r : Except Nat (Nat × Bytes) :=
      match named "newline" 0x0A with
      | some x => .ok x
      | none => match named "return" 0x0D with
      | some x => .ok x
      | none => match named "space" 0x20 with
      | some x => .ok x
      | none => match named "tab" 0x09 with
      | some x => .ok x
      | none =>
      match (if ctx.cfg.clj then (named "formfeed" 0x0C).orElse (fun _ => named "backspace" 0x08) else none) with
      | some x => .ok x
      | none =>
        let c := peek p
        let c1 := peek p.tail
        if ctx.cfg.clj && c == 0x6F && !p.tail.isEmpty && is09 c1 then
          match octalChar p.tail with
          | none => .error (ctx.pos p.tail)
          | some x => .ok x
        else if c == 0x75 && !p.tail.isEmpty && (hexDigit? c1).isSome then
          let q := p.tail
          match hex4? q with
          | none => .error (q.length - 4)
          | some (v, q') =>
            if ctx.cfg.exp then .ok (hexMore 2 v q') else .ok (v, q')
        else if !isValidSingleChar ctx.cfg c then .error (p.length - 1)
        else .ok (c.toNat, p.tail)
    match r with
    | .error ee => cerr ee
    | .ok (cp, rest) =>
      if cp > 0x10FFFF then cerr (ctx.pos rest)
      else if !rest.isEmpty && !isDelim (peek rest) then cerr (ctx.pos rest)
      else .ok (.char (mkHdr (start) (ctx.pos rest)) cp) { st with rest := rest }

/-- `edn_read_identifier` -/
def readIdentifier (ctx : Ctx) (st : St) : Res :=
  let s := st.rest
  let start := ctx.pos s
  let sc := scanIdent s
  if !sc.valid then .err (mkErr .invalidSyntax (some start) (some start)) st
  else
    let tok := s.take sc.len
    let rest := s.drop sc.len
    let stop := ctx.pos rest
    let st' := { st with rest := rest }
    let h : Hdr := (mkHdr (start) (stop))
    let serr : Res := .err (mkErr .invalidSyntax (some start) (some stop)) st'
    match sc.ns with
    | none =>
      let name := tok
      if peek name == 0x3A then
        let kw := name.tail
        if kw.isEmpty then serr
        else if peek kw == 0x3A then serr
        else .ok (.kw h none kw) st'
      else if name == strBytes "nil" then .ok (.nil h) st'
      else if name == strBytes "true" then .ok (.bool h true) st'
      else if name == strBytes "false" then .ok (.bool h false) st'
      else .ok (.sym h none none name) st'
    | some k =>
      let ns := tok.take k
      let name := (tok.drop (k + 1)).take sc.nameLen
      if peek ns == 0x3A then
        let kns := ns.tail
        if kns.isEmpty then serr
        else if peek kns == 0x3A then serr
        else .ok (.kw h (some kns) name) st'
      else .ok (.sym h none (some ns) name) st'

def infBits : UInt64 := 0x7FF0000000000000
def negInfBits : UInt64 := 0xFFF0000000000000
def nanBits : UInt64 := 0x7FF8000000000000

/-- `edn_read_symbolic_value` (`##Inf`, `##-Inf`, `##NaN`) -/
def readSymbolic (ctx : Ctx) (st : St) : Res :=
  let s := st.rest
  let start := ctx.pos s
  let p := s.drop 2
  let mk (bits : UInt64) (k : Nat) : Res :=
    let rest := p.drop k
    .ok (.float (mkHdr (start) (ctx.pos rest)) bits) { st with rest := rest }
  if startsWith p (strBytes "Inf") then mk infBits 3
  else if startsWith p (strBytes "-Inf") then mk negInfBits 4
  else if startsWith p (strBytes "NaN") then mk nanBits 3
  else .err (mkErr .invalidSyntax (some start) (some 0)) st

def numToVal (h : Hdr) : NumVal → Val
  | .int i => .int h i
  | .bigint n r d => .bigint h n r d
  | .float b => .float h b
  | .bigdec n t => .bigdec h n t
  | .ratio n d => .ratio h n d
  | .bigratio g n d => .bigratio h g n d

/-- `edn_read_number` wrapped into the reader protocol -/
def readNumberRes (ctx : Ctx) (st : St) : Res :=
  let s := st.rest
  let start := ctx.pos s
  match readNumber ctx.cfg s with
  | .ok v rest => .ok (numToVal (mkHdr (start) (ctx.pos rest)) v) { st with rest := rest }
  | .err cur => .err (mkErr .invalidNumber (some start) (some (ctx.pos cur))) { st with rest := cur }

/-! ## Namespaced-map key rewriting and metadata merging -/

def synthHdr : Hdr := { s := 0, e := 0, hc := 0, synth := true }

/-- key rewriting of `edn_read_map_internal` when a namespace prefix is active; the
    rewritten key is a freshly allocated value without a source range -/
def qualifyKey (nsName : Bytes) (k : Val) : Val :=
  match k with
  | .kw _ ns name =>
    match ns with
    | none => .kw synthHdr (some nsName) name
    | some n => if n == [0x5F] then .kw synthHdr none name else k
  | .sym h md ns name =>
    match ns with
    | none => .sym synthHdr none (some nsName) name
    | some n => if n == [0x5F] then .sym synthHdr none none name else .sym h md ns name
  | k => k

/-- the one-entry maps built for keyword, vector, string and symbol annotations -/
def metaEntries (m : Val) : Option (List Val × List Val) :=
  match m with
  | .map _ _ ks vs => some (ks, vs)
  | .kw .. => some ([m], [.bool synthHdr true])
  | .vec .. => some ([.kw synthHdr none (strBytes "param-tags")], [m])
  | .str .. | .sym .. => some ([.kw synthHdr none (strBytes "tag")], [m])
  | _ => none

/-- entries of the existing metadata that survive: keys equal to no new key -/
def keepOld (cfg : Cfg) (newKeys : List Val) : List Val → List Val → List Val × List Val
  | k :: ks, v :: vs =>
    let (ks', vs') := keepOld cfg newKeys ks vs
    if newKeys.any (fun nk => equal cfg k nk) then (ks', vs') else (k :: ks', v :: vs')
  | _, _ => ([], [])

/-- Step 3 of `edn_read_metadata` -/
def attachMeta (cfg : Cfg) (_m form : Val) (newKs newVs : List Val) : Val :=
  match form.md with
  | some (.map h md ks vs) =>
    let (oks, ovs) := keepOld cfg newKs ks vs
    form.setMd (some (.map h md (newKs ++ oks) (newVs ++ ovs)))
  | _ =>
    form.setMd (some (.map synthHdr none newKs newVs))

/-! ## The recursive reader -/

def fuelOut (st : St) : Res := .err { code := .outOfMemory, es := none, ee := none, fuelOut := true } st

def closerByte (k : Nat) : UInt8 := if k == 0 then 0x29 else if k == 1 then 0x5D else 0x7D

mutual

/-- `edn_read_value(parser)` at nesting depth `d`, discard mode `dm` -/
def readValue (ctx : Ctx) : Nat → Nat → Bool → St → Res
  | 0, _, _, st => fuelOut st
  | f + 1, d, dm, st =>
    let s0 := st.rest
    let eofErr (st : St) : Res :=
      .err { code := .unexpectedEof, es := none, ee := none, eofTop := d == 0 } st
    match s0 with
    | [] => eofErr st
    | c0 :: _ =>
      let s := if isPreWs c0 then skipWs s0 else s0
      match s with
      | [] => eofErr { st with rest := [] }
      | c :: cs =>
        let st := { st with rest := s }
        let here := ctx.pos s
        let tooDeep : Bool := d ≥ Tables.maxNestingDepth
        let deepErr : Res := .err (mkErr .invalidSyntax (some here) (some (here - 1))) st
        match dispatch ctx.cfg c with
        | .string => readString ctx st
        | .character => readCharacter ctx st
        | .listOpen => if tooDeep then deepErr else readSeq ctx f d dm 0 here { st with rest := cs } []
        | .vectorOpen => if tooDeep then deepErr else readSeq ctx f d dm 1 here { st with rest := cs } []
        | .mapOpen => if tooDeep then deepErr else readMap ctx f d dm here none { st with rest := cs } [] []
        | .hash =>
          match cs with
          | nx :: cs' =>
            if nx == 0x23 then readSymbolic ctx st
            else if tooDeep then deepErr
            else if nx == 0x7B then readSeq ctx f d dm 2 here { st with rest := cs' } []
            else if nx == 0x5F then
              -- discard the next form, then read the one after it
              match readValue ctx f (d + 1) true { st with rest := cs' } with
              | .ok _ st' => readValue ctx f d dm st'
              | .closer st' => .err (mkErr .invalidDiscard (some here) (some (here - 2))) st'
              | .err e st' => .err e st'
            else if ctx.cfg.clj && nx == 0x3A then readNsMap ctx f d dm here { st with rest := cs }
            else readTagged ctx f d dm here { st with rest := cs }
          | [] => readTagged ctx f d dm here { st with rest := cs }
        | .sign =>
          match cs with
          | nx :: _ => if is09 nx then readNumberRes ctx st else readIdentifier ctx st
          | [] => readIdentifier ctx st
        | .digit => readNumberRes ctx st
        | .delimiter =>
          if d == 0 then .err (mkErr .unmatchedDelimiter) st else .closer st
        | .metadata => if tooDeep then deepErr else readMeta ctx f d dm here { st with rest := cs }
        | .identifier => readIdentifier ctx st

/-- element loop and close of `edn_read_list` (kind 0), `edn_read_vector` (1), `edn_read_set` (2);
    `start` = offset of the opening delimiter, `acc` = elements so far, reversed -/
def readSeq (ctx : Ctx) : Nat → Nat → Bool → Nat → Nat → St → List Val → Res
  | 0, _, _, _, _, st, _ => fuelOut st
  | f + 1, d, dm, kind, start, st, acc =>
    match readValue ctx f (d + 1) dm st with
    | .ok v st' => readSeq ctx f d dm kind start st' (v :: acc)
    | .err e st' =>
      if e.code == .unexpectedEof && !e.fuelOut then
        .err (mkErr .unterminatedCollection (some start) (some (ctx.pos st'.rest))) st'
      else .err e st'
    | .closer st' =>
      match st'.rest with
      | [] => .err (mkErr .unmatchedDelimiter (some start) (some (st'.rest.length - 1))) st'
      | c :: r =>
        if c != closerByte kind then
          .err (mkErr .unmatchedDelimiter (some start) (some (st'.rest.length - 1))) st'
        else
          let st'' := { st' with rest := r }
          let stop := ctx.pos r
          let xs := acc.reverse
          let h : Hdr := (mkHdr (start) (stop))
          if kind == 0 then .ok (.list h none xs) st''
          else if kind == 1 then .ok (.vec h none xs) st''
          else
            let (dup, ys) := hasDuplicates ctx.cfg xs
            if dup then .err (mkErr .duplicateElement (some start) (some stop)) st''
            else .ok (.set h none ys) st''

/-- entry loop and close of `edn_read_map_internal`; `ns` = namespace prefix -/
def readMap (ctx : Ctx) : Nat → Nat → Bool → Nat → Option Bytes → St → List Val → List Val → Res
  | 0, _, _, _, _, st, _, _ => fuelOut st
  | f + 1, d, dm, start, ns, st, ks, vs =>
    let unterminated (st' : St) : Res :=
      .err (mkErr .unterminatedCollection (some start) (some (ctx.pos st'.rest))) st'
    match readValue ctx f (d + 1) dm st with
    | .err e st' => if e.code == .unexpectedEof && !e.fuelOut then unterminated st' else .err e st'
    | .closer st' =>
      match st'.rest with
      | [] => .err (mkErr .unexpectedEof (some start) (some (ctx.pos st'.rest))) st'
      | c :: r =>
        if c != 0x7D then .err (mkErr .unmatchedDelimiter (some start) (some (st'.rest.length - 1))) st'
        else
          let st'' := { st' with rest := r }
          let stop := ctx.pos r
          let keys := ks.reverse
          let vals := vs.reverse
          let (dup, keys') := hasDuplicates ctx.cfg keys
          if dup then .err (mkErr .duplicateKey (some start) (some stop)) st''
          else .ok (.map (mkHdr (start) (stop)) none keys' vals) st''
    | .ok k st' =>
      match readValue ctx f (d + 1) dm st' with
      | .closer st'' => .err (mkErr .invalidSyntax (some start) (some (ctx.pos st''.rest))) st''
      | .err e st'' => if e.code == .unexpectedEof && !e.fuelOut then unterminated st'' else .err e st''
      | .ok v st'' =>
        let k' := match ns with
          | some n => qualifyKey n k
          | none => k
        readMap ctx f d dm start ns st'' (k' :: ks) (v :: vs)

/-- `edn_read_namespaced_map`; `st.rest` starts at the `:` after `#` -/
def readNsMap (ctx : Ctx) : Nat → Nat → Bool → Nat → St → Res
  | 0, _, _, _, st => fuelOut st
  | f + 1, d, dm, start, st =>
    match readValue ctx f d dm st with
    | .closer st' => .closer st'
    | .err e st' => .err e st'
    | .ok kwv st' =>
      let serr (st' : St) : Res := .err (mkErr .invalidSyntax (some start) (some (ctx.pos st'.rest))) st'
      match kwv with
      | .kw _ none name =>
        let s := skipWs st'.rest
        let st2 := { st' with rest := s }
        match s with
        | c :: r => if c == 0x7B then readMap ctx f d dm start (some name) { st2 with rest := r } [] [] else serr st2
        | [] => serr st2
      | _ => serr st'

/-- `edn_read_tagged`; `st.rest` starts after the `#` -/
def readTagged (ctx : Ctx) : Nat → Nat → Bool → Nat → St → Res
  | 0, _, _, _, st => fuelOut st
  | f + 1, d, dm, start, st =>
    let s := st.rest
    let cur (st : St) := some (ctx.pos st.rest)
    match s with
    | [] => .err (mkErr .unexpectedEof (some start) (cur st)) st
    | c :: _ =>
      if c == 0x20 || c == 0x09 || c == 0x0A || c == 0x0D || c == 0x2C then
        .err (mkErr .invalidSyntax (some start) (cur st)) st
      else
        match readIdentifier ctx st with
        | .closer st' => .closer st'
        | .err e st' => .err e st'
        | .ok tagv st' =>
          match tagv with
          | .sym .. =>
            let tag := slice s st'.rest
            match readValue ctx f (d + 1) dm st' with
            | .closer st'' => .err (mkErr .invalidSyntax (some start) (cur st'')) st''
            | .err e st'' => .err e st''
            | .ok v st'' =>
              let stop := ctx.pos st''.rest
              let passthrough : Res := .ok (.tagged (mkHdr (start) (stop)) none tag v) st''
              match ctx.opts.registry with
              | none => passthrough
              | some reg =>
                if dm then passthrough
                else match reg tag with
                  | some h =>
                    let st3 := { st'' with calls := st''.calls ++ [⟨h.name, v.hdr.s, v.hdr.e⟩] }
                    match h.run v with
                    | none => .err (mkErr .invalidSyntax (some start) (some stop)) st3
                    | some r => .ok (r.setHdr { r.hdr with s := start, e := stop }) st3
                  | none =>
                    if ctx.opts.mode == 1 then .ok v st''
                    else if ctx.opts.mode == 2 then .err (mkErr .unknownTag (some start) (some stop)) st''
                    else passthrough
          | _ => .err (mkErr .invalidSyntax (some start) (cur st')) st'

/-- `edn_read_metadata`; `st.rest` starts after the `^` -/
def readMeta (ctx : Ctx) : Nat → Nat → Bool → Nat → St → Res
  | 0, _, _, _, st => fuelOut st
  | f + 1, d, dm, start, st =>
    let serr (st' : St) : Res := .err (mkErr .invalidSyntax (some start) (some (ctx.pos st'.rest))) st'
    match readValue ctx f (d + 1) dm st with
    | .closer st' => serr st'
    | .err e st' => .err e st'
    | .ok m st' =>
      match metaEntries m with
      | none => serr st'
      | some (nks, nvs) =>
        match readValue ctx f (d + 1) dm st' with
        | .closer st'' => serr st''
        | .err e st'' => .err e st''
        | .ok form st'' =>
          if !form.metaTarget then serr st''
          else
            let form' := attachMeta ctx.cfg m form nks nvs
            .ok (form'.setHdr { form'.hdr with s := start }) st''

end

/-! ## edn_read_with_options -/

structure Pos where
  offset : Nat
  line : Nat
  col : Nat
deriving Repr, BEq, DecidableEq, Inhabited

inductive Outcome
  | value (v : Val)
  | eofValue
  | error (code : Err) (es ee : Pos)
  /-- the fuel ran out: never happens (theorem `read_fuel_sufficient`) -/
  | fuelOut
deriving Inhabited

structure Result where
  out : Outcome
  calls : List Call

def readFuel (input : Bytes) : Nat := 4 * input.length + 8

/-- The value's positions and the call log are in remaining-length coordinates (convert
    with `input.length - r`); error positions are absolute.
    `edn_read_with_options(input, length, options)` for `length = input.length > 0`, or the
    empty input (which the API spells as a NUL-terminated empty string) -/
def read (cfg : Cfg) (opts : Opts) (input : Bytes) : Result :=
  let ctx : Ctx := { cfg := cfg, opts := opts }
  let n := input.length
  match readValue ctx (readFuel input) 0 false { rest := input } with
  | .ok v st => { out := .value v, calls := st.calls }
  | .closer st => { out := .fuelOut, calls := st.calls }
  | .err e st =>
    if e.fuelOut then { out := .fuelOut, calls := st.calls }
    else if e.code == .unexpectedEof && e.eofTop && opts.eofValue then { out := .eofValue, calls := st.calls }
    else
      let offs := (lfPositions input).toArray
      let cur := st.rest.length
      let so := n - e.es.getD cur
      let eo := n - e.ee.getD cur
      let (sl, sc) := linePos offs so
      let (el, ec) := linePos offs eo
      { out := .error e.code ⟨so, sl, sc⟩ ⟨eo, el, ec⟩, calls := st.calls }

end Edn.Model
