/-
  Edn.Model.Uniq — src/uniqueness.c with its allocation fall-backs: the hash-table strategy
  falls back to the sorted strategy when `calloc` fails, the sorted strategy to the pairwise
  one when `malloc` fails (in which case no hashes are computed or cached).
-/
import Edn.Model.Equal

namespace Edn.Model
open Edn.Generated

/-- `edn_has_duplicates_sorted` (`mallocOk`: the scratch copy could be allocated) -/
def hasDupSortedF (cfg : Cfg) (mallocOk : Bool) (xs : List Val) : Bool × List Val :=
  if mallocOk then
    let ys := xs.map fun x => (hashOp cfg x).2
    (hasDupHashed cfg ys, ys)
  else (hasDupLinear cfg xs, xs)

/-- `edn_has_duplicates` under an allocation outcome for the table (`callocOk`) and for the
    scratch copy (`mallocOk`) -/
def hasDuplicatesF (cfg : Cfg) (callocOk mallocOk : Bool) (xs : List Val) : Bool × List Val :=
  if xs.length ≤ 1 then (false, xs)
  else if xs.length ≤ Tables.linearThreshold then (hasDupLinear cfg xs, xs)
  else if xs.length ≤ Tables.sortedThreshold then hasDupSortedF cfg mallocOk xs
  else if callocOk then
    let ys := xs.map fun x => (hashOp cfg x).2
    (hasDupHashed cfg ys, ys)
  else hasDupSortedF cfg mallocOk xs

end Edn.Model
