/-
  Edn.Model.Arena — src/arena.c: the bump allocator (`edn_arena_create`,
  `edn_arena_alloc`, `edn_arena_alloc_slow`, `edn_arena_destroy`).

  Sizes are natural numbers bounded by SIZE_MAX where the C code tests them; `malloc` is a
  parameter (`mallocOk`: does a raw request of this many bytes succeed).
-/
import Edn.Generated.Tables

namespace Edn.Model
open Edn.Generated

def sizeMax : Nat := 18446744073709551615

structure Block where
  cap : Nat
  used : Nat
deriving Repr, BEq, DecidableEq

structure Arena where
  /-- full blocks in allocation order (`first` is the head) -/
  prev : List Block
  /-- `arena->current` -/
  cur : Block
  nextBlockSize : Nat
deriving Repr, BEq, DecidableEq

def Arena.blocks (a : Arena) : List Block := a.prev ++ [a.cur]

/-- `edn_arena_create` (when both mallocs succeed) -/
def Arena.create : Arena :=
  { prev := [], cur := ⟨Tables.arenaInitialSize, 0⟩, nextBlockSize := Tables.arenaMediumSize }

def roundUp8 (n : Nat) : Nat := (n + 7) / 8 * 8

/-- a handed-out region: block index, offset in the block's data area, rounded length -/
structure Region where
  blk : Nat
  off : Nat
  len : Nat
deriving Repr, BEq, DecidableEq

/-- `edn_arena_alloc(arena, size)`: the region (or `none` = NULL) and the new state -/
def Arena.alloc (mallocOk : Nat → Bool) (a : Arena) (size : Nat) : Option Region × Arena :=
  if size > sizeMax - 7 - Tables.sizeofArenaBlock then (none, a)
  else
    let sz := roundUp8 size
    if sz ≤ a.cur.cap - a.cur.used then
      (some ⟨a.prev.length, a.cur.used, sz⟩, { a with cur := { a.cur with used := a.cur.used + sz } })
    else
      -- edn_arena_alloc_slow
      let blockSize := if sz > a.nextBlockSize then sz else a.nextBlockSize
      if !mallocOk (Tables.sizeofArenaBlock + blockSize) then (none, a)
      else
        let next := if a.nextBlockSize < Tables.arenaLargeSize then
            (if a.nextBlockSize * 2 > Tables.arenaLargeSize then Tables.arenaLargeSize else a.nextBlockSize * 2)
          else a.nextBlockSize
        (some ⟨a.prev.length + 1, 0, sz⟩,
         { prev := a.prev ++ [a.cur], cur := ⟨blockSize, sz⟩, nextBlockSize := next })

/-- run a request sequence, collecting the results -/
def Arena.run (mallocOk : Nat → Bool) : Arena → List Nat → List (Option Region) × Arena
  | a, [] => ([], a)
  | a, n :: ns =>
    let (r, a') := a.alloc mallocOk n
    let (rs, a'') := Arena.run mallocOk a' ns
    (r :: rs, a'')

end Edn.Model
