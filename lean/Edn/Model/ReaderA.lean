/-
  Edn.Model.ReaderA — the reader of Edn.Model.Reader with allocation (and its failure) inside
  the model: an allocation-aware copy of `readValue` … `read`, of the number reader's value
  creation, of the text-block line buffer, of the collection / map builders, of the duplicate
  check's scratch arrays, of the tagged and metadata steps and of `edn_read_with_options` with its
  two arenas and the line index used for error positions.

  Vocabulary
  * A *logical request* is (a) one call of `edn_arena_alloc` by library code (the `malloc` of a new
    arena block inside the slow path is not a request of its own: it succeeds iff the logical
    request is not failed), (b) one direct `malloc` / `calloc` / `realloc` call outside arena.c
    (number.c: heap copy of a long float literal; string.c: line-pointer array and line records of
    a text block; uniqueness.c: scratch copy and hash table), (c) each of the two `malloc` calls of
    `edn_arena_create`.  `free` of a raw block and `edn_arena_destroy` are events, not requests.
  * The fault oracle `orc : Nat → Bool` says which requests (1-based index) fail.
  * `ASt` threads: the number of requests made, the event trace (newest first), the ids of the
    live raw blocks (id = index of the request that returned the block) and the life state of the
    parser's arena and of the temporary arena.

  Every request goes through `ASt.request`; every reaction to a failed request is an ordinary
  `if` / `match` on its result.  The recursion is the one of Reader.lean (same fuel, same match
  structure, same order of cases); results are `Res × ASt`.
-/
import Edn.Model.Reader
import Edn.Model.Builder
import Edn.Model.Uniq

namespace Edn.Model

open Edn.Generated

/-! ## Allocation state -/

inductive ReqKind
  /-- `edn_arena_alloc` on the parser's arena -/
  | arena
  /-- `edn_arena_alloc` on the temporary arena of the error-position code -/
  | arenaTmp
  /-- one of the two `malloc` calls of `edn_arena_create` -/
  | arenaNew
  | malloc
  | calloc
  | realloc
deriving Repr, BEq, DecidableEq, Inhabited

inductive Ev
  /-- request number `id` of kind `k`; `old` = id of the block handed to `realloc` (0 otherwise) -/
  | req (k : ReqKind) (id : Nat) (failed : Bool) (old : Nat)
  /-- `free` of the raw block with this id -/
  | free (id : Nat)
  /-- `edn_arena_destroy` (`tmp` = the temporary arena) -/
  | destroy (tmp : Bool)
deriving Repr, BEq, DecidableEq, Inhabited

inductive ArenaSt
  /-- never created, or `edn_arena_create` returned NULL -/
  | none
  | alive
  | destroyed
deriving Repr, BEq, DecidableEq, Inhabited

structure ASt where
  /-- logical requests made so far -/
  reqs : Nat := 0
  /-- events, newest first -/
  trace : List Ev := []
  /-- ids of the live raw heap blocks, newest first -/
  live : List Nat := []
  /-- the parser's arena (`parser.arena`) -/
  arena : ArenaSt := .none
  /-- the temporary arena of `edn_read_with_options` -/
  tmp : ArenaSt := .none
  /-- values whose lazily materialised buffer exists (decoded text of a string literal with escapes,
      digits of a big number without their underscores), named by `Val.hdr.s`: a string or big-number
      value is never synthesised, so its start offset identifies it within one read -/
  bufs : List Nat := []
  /-- `arena->failed_requests` of the parser's arena: requests it has refused so far (the callers of
      the duplicate check and of the metadata merge compare it before and after) -/
  failedArena : Nat := 0
deriving Repr, BEq, DecidableEq, Inhabited

/-- THE request: counts it, asks the oracle, records the event.  Returns `true` when the request
    succeeded.  `edn_arena_alloc(NULL, …)` returns NULL whatever the oracle says, so a request on
    the parser's arena also fails when that arena does not exist.  An existing parser arena counts
    the requests it refuses (`failedArena`). -/
def ASt.request (orc : Nat → Bool) (k : ReqKind) (a : ASt) (old : Nat := 0) : Bool × ASt :=
  let n := a.reqs + 1
  let failed := orc n || (k == .arena && a.arena != .alive)
  (!failed, { a with reqs := n, trace := .req k n failed old :: a.trace,
                     failedArena := if k == .arena && a.arena == .alive && orc n then a.failedArena + 1
                                    else a.failedArena })

/-- `malloc` / `calloc`: the id of the new raw block, or `none` -/
def ASt.rawAlloc (orc : Nat → Bool) (k : ReqKind) (a : ASt) : Option Nat × ASt :=
  let (ok, a1) := a.request orc k
  if ok then (some a1.reqs, { a1 with live := a1.reqs :: a1.live }) else (none, a1)

/-- `realloc(old, …)`: on success the old block is gone and a new one is live; on failure the
    old block stays -/
def ASt.realloc (orc : Nat → Bool) (old : Nat) (a : ASt) : Option Nat × ASt :=
  let (ok, a1) := a.request orc .realloc old
  if ok then (some a1.reqs, { a1 with live := a1.reqs :: a1.live.erase old }) else (none, a1)

/-- `free(block)` -/
def ASt.free (id : Nat) (a : ASt) : ASt :=
  { a with trace := .free id :: a.trace, live := a.live.erase id }

/-- free a list of blocks in the given order -/
def ASt.freeAll (ids : List Nat) (a : ASt) : ASt := ids.foldl (fun a i => a.free i) a

/-- `edn_arena_create`: two `malloc` requests (the arena record, the first block); when the second
    fails the record is freed.  On success both blocks belong to the arena (they leave the list
    of raw blocks: `edn_arena_destroy` releases them). -/
def ASt.arenaCreate (orc : Nat → Bool) (tmp : Bool) (a : ASt) : Bool × ASt :=
  match a.rawAlloc orc .arenaNew with
  | (none, a1) => (false, a1)
  | (some i, a1) =>
    match a1.rawAlloc orc .arenaNew with
    | (none, a2) => (false, a2.free i)
    | (some j, a2) =>
      let a3 := { a2 with live := (a2.live.erase j).erase i }
      (true, if tmp then { a3 with tmp := .alive } else { a3 with arena := .alive })

/-- a value changes its name (a handler's result is given the range of the tagged form): its
    materialised buffer, if any, goes with it -/
def ASt.rekey (old new : Nat) (a : ASt) : ASt :=
  if a.bufs.contains old then { a with bufs := new :: a.bufs } else a

/-- `edn_arena_destroy` of an existing arena -/
def ASt.arenaDestroy (tmp : Bool) (a : ASt) : ASt :=
  let a1 := { a with trace := .destroy tmp :: a.trace }
  if tmp then { a1 with tmp := .destroyed } else { a1 with arena := .destroyed }

/-- glibc's `qsort` (merge sort, `msort_with_tmp`): sort the first half, sort the second half, merge.
    The comparator therefore sees an element for the first time in the smallest sub-array of two or
    three elements that contains it; `msortTouch fuel lo n` lists the indices `lo … lo+n-1` in that
    order of first contact. -/
def msortTouch : Nat → Nat → Nat → List Nat
  | 0, _, _ => []
  | f + 1, lo, n =>
    if n ≤ 1 then []
    else
      let n1 := n / 2
      let n2 := n - n1
      msortTouch f lo n1 ++ msortTouch f (lo + n1) n2 ++
        (if n1 == 1 then [lo] else []) ++ (if n2 == 1 then [lo + n1] else [])

/-- context of the allocation-aware reader -/
structure ACtx where
  ctx : Ctx
  /-- fault oracle: `true` = the request with this 1-based index fails -/
  orc : Nat → Bool
  /-- growth rule of the collection and map builders -/
  grow : Nat → Nat := growHalf
  /-- does the handler with this name make one arena request (`edn_external_create`) and return
      NULL when it fails? -/
  handlerReq : String → Bool := fun _ => false
  /-- the order in which `qsort` first hands each of `n` elements to the comparator (an assumption
      about the C library: `msortTouch` is the merge sort of glibc) -/
  sortTouch : Nat → List Nat := fun n => msortTouch n 0 n

def oomErr : ErrInfo := mkErr .outOfMemory

/-! ## Leaf readers -/

/-- state of a builder's element array: how many elements, capacity, in arena memory? -/
structure BSt where
  count : Nat := 0
  cap : Nat := 8
  heap : Bool := false
deriving Repr, BEq, DecidableEq, Inhabited

/-- a line record that was `malloc`ed, newest first, and the line-pointer array -/
structure TbBuf where
  arr : Nat
  cap : Nat := 16
  ids : List Nat := []
deriving Repr, Inhabited

/-- the clean-up of `edn_parse_text_block`: every line record in order, then the array -/
def TbBuf.release (b : TbBuf) (a : ASt) : ASt := (a.freeAll b.ids.reverse).free b.arr

/-- before line number `n` (counted from 0) is read the pointer array is doubled by `realloc` when
    it is full; `none` = the `realloc` failed (the old array is still there) -/
def TbBuf.grow (x : ACtx) (n : Nat) (buf : TbBuf) (a : ASt) : Option TbBuf × ASt :=
  if n ≥ buf.cap then
    match a.realloc x.orc buf.arr with
    | (some arr', a1) => (some { buf with arr := arr', cap := buf.cap * 2 }, a1)
    | (none, a1) => (none, a1)
  else (some buf, a)

inductive TbOutA
  /-- all lines up to the terminal one, the rest after the closing delimiter -/
  | lines (ls : List TbLine) (rest : Bytes) (buf : TbBuf)
  /-- error (everything already released) with `parser->current` -/
  | fail (e : ErrInfo) (rest : Bytes)
deriving Inhabited

/-- line loop of `edn_parse_text_block` (cf. `tbLines`): before each line the pointer array is
    doubled by `realloc` when full; every line found costs one `malloc` -/
def tbLinesA (x : ACtx) (start : Nat) : Nat → Bytes → List TbLine → TbBuf → ASt → TbOutA × ASt
  | 0, _, _, buf, a => (.fail (mkErr .invalidString (some start) (some 0)) [], buf.release a)
  | f + 1, s, acc, buf, a =>
    if s.isEmpty then (.fail (mkErr .invalidString (some start) (some 0)) [], buf.release a)
    else
      match buf.grow x acc.length a with
      | (none, a1) => (.fail oomErr s, buf.release a1)
      | (some buf1, a1) =>
        match tbLine s with
        | none => (.fail (mkErr .invalidString) s, buf1.release a1)
        | some (ln, rest) =>
          match a1.rawAlloc x.orc .malloc with
          | (none, a2) => (.fail oomErr s, buf1.release a2)
          | (some i, a2) =>
            let buf2 := { buf1 with ids := i :: buf1.ids }
            if ln.terminal then (.lines (ln :: acc).reverse rest buf2, a2)
            else tbLinesA x start f rest (ln :: acc) buf2 a2

/-- `edn_parse_text_block`; `st.rest` starts at the opening `"""` -/
def readTextBlockA (x : ACtx) (st : St) (a : ASt) : Res × ASt :=
  let s := st.rest
  let start := x.ctx.pos s
  let body := s.drop 4
  match a.rawAlloc x.orc .malloc with
  | (none, a1) => (.err oomErr { st with rest := body }, a1)
  | (some arr, a1) =>
    match tbLinesA x start (body.length + 2) body [] { arr := arr } a1 with
    | (.fail e rest, a2) => (.err e { st with rest := rest }, a2)
    | (.lines ls rest buf, a2) =>
      let st' := { st with rest := rest }
      -- the text
      let (okT, a3) := a2.request x.orc .arena
      if !okT then (.err oomErr st', buf.release a3)
      else
        let a4 := buf.release a3
        let (okV, a5) := a4.request x.orc .arena
        if !okV then (.err oomErr st', a5)
        else
          -- the text is final: the value is born with its materialised buffer (`decoded = result`)
          (.ok (.str (mkHdr start (x.ctx.pos rest)) (tbRender ls) false) st', { a5 with bufs := start :: a5.bufs })

/-- `edn_read_string`: the value is requested after the closing quote was found; on failure
    `parser->current` still is at the opening quote -/
def readStringA (x : ACtx) (st : St) (a : ASt) : Res × ASt :=
  if x.ctx.cfg.exp && startsWith st.rest [0x22, 0x22, 0x22, 0x0A] then readTextBlockA x st a
  else
    match readString x.ctx st with
    | .ok v st' =>
      let (ok, a1) := a.request x.orc .arena
      if ok then (.ok v st', a1) else (.err oomErr st, a1)
    | r => (r, a)

/-- `edn_read_character`: `parser->current` moves only after the value was obtained -/
def readCharacterA (x : ACtx) (st : St) (a : ASt) : Res × ASt :=
  match readCharacter x.ctx st with
  | .ok v st' =>
    let (ok, a1) := a.request x.orc .arena
    if ok then (.ok v st', a1) else (.err oomErr st, a1)
  | r => (r, a)

/-- `edn_read_identifier`: the token is consumed before the value is requested -/
def readIdentifierA (x : ACtx) (st : St) (a : ASt) : Res × ASt :=
  match readIdentifier x.ctx st with
  | .ok v st' =>
    let (ok, a1) := a.request x.orc .arena
    if ok then (.ok v st', a1) else (.err oomErr st', a1)
  | r => (r, a)

/-- `edn_read_symbolic_value` -/
def readSymbolicA (x : ACtx) (st : St) (a : ASt) : Res × ASt :=
  match readSymbolic x.ctx st with
  | .ok v st' =>
    let (ok, a1) := a.request x.orc .arena
    if ok then (.ok v st', a1) else (.err oomErr st, a1)
  | r => (r, a)

/-! ## Numbers

`edn_read_number` requests its value after the token has been scanned and classified, before the
payload is computed and before `validate_number_delimiter`.  `readNumberK` is `readNumber` with the
value creation abstracted: `fin v s validate` stands for "request the value, fill in `v`, (when
`validate`) check the delimiter at `s`", `bad cur` for an error raised before that point.
`readNumberK_eq` (Edn.Proofs.AllocBasic) shows that instantiating it with `finishNum` gives back
`readNumber`. -/

section NumK
variable {β : Type}

def radixTailK (cfg : Cfg) (fin : NumVal → Bytes → Bool → β) (bad : Bytes → β)
    (neg : Bool) (radix : Nat) (allowN : Bool) (digitsStart s : Bytes) : β :=
  let digits := slice digitsStart s
  let c := peek s
  let (isN, isM, s1) :=
    if allowN && c == 0x4E then (true, false, adv s)
    else if c == 0x4D then (false, true, adv s)
    else (false, false, s)
  let c1 := if allowN then peek s1 else c
  if c1 == 0x2F then bad s1
  else
    let v := if isM then NumVal.bigdec neg digits
             else if isN then NumVal.bigint neg radix digits
             else intOrBig cfg digits radix neg
    fin v s1 true

def decimalTailK (cfg : Cfg) (fin : NumVal → Bytes → Bool → β) (bad : Bytes → β)
    (start : Bytes) (neg hasDec hasExp : Bool) (digitsStart s : Bytes) : β :=
  let c := peek s
  let digits := slice digitsStart s
  if cfg.exp && (c == 0x4E || c == 0x4D || c == 0x2F) && lastIsUnderscore digitsStart s then bad s
  else if c == 0x4E && !hasDec && !hasExp then fin (.bigint neg 10 digits) (adv s) true
  else if c == 0x4D then fin (.bigdec neg digits) (adv s) true
  else if cfg.clj && c == 0x2F && !hasDec && !hasExp then
    match ratioDenominator (adv s) with
    | .error cur => bad cur
    | .ok s' =>
      let den := slice (adv s) s'
      let n? := parseInt64 cfg digits 10 neg
      let d? := parseInt64 cfg den 10 false
      match n?, d? with
      | some n, some d =>
        let g := ratioGcd n d
        let n' := if g > 1 then n / (g : Int) else n
        let d' := if g > 1 then d / (g : Int) else d
        if n' == 0 then fin (.int 0) s' false
        else if d' == 1 then fin (.int n') s' false
        else fin (.ratio n' d') s' true
      | _, some d =>
        if d == 1 then fin (.bigint neg 10 digits) s' true else fin (.bigratio neg digits den) s' true
      | _, none => fin (.bigratio neg digits den) s' true
  else if hasDec || hasExp then fin (.float (parseDouble cfg (slice start s))) s true
  else fin (intOrBig cfg digits 10 neg) s true

def exponentPartK (cfg : Cfg) (fin : NumVal → Bytes → Bool → β) (bad : Bytes → β)
    (start : Bytes) (neg hasDec : Bool) (digitsStart s : Bytes) : β :=
  let s1 := adv s
  let c := peek s1
  let s2 := if c == 0x2B || c == 0x2D then adv s1 else s1
  let c2 := peek s2
  if !is09 c2 then bad s2
  else
    let s3 := fracDigits cfg.exp s2
    decimalTailK cfg fin bad start neg hasDec true digitsStart s3

def afterMantissaK (cfg : Cfg) (fin : NumVal → Bytes → Bool → β) (bad : Bytes → β)
    (start : Bytes) (neg hasDec : Bool) (digitsStart s : Bytes) : β :=
  let c := peek s
  if c == 0x65 || c == 0x45 then
    if cfg.exp && lastIsUnderscore digitsStart s then bad s
    else exponentPartK cfg fin bad start neg hasDec digitsStart s
  else decimalTailK cfg fin bad start neg hasDec false digitsStart s

def decimalPartK (cfg : Cfg) (fin : NumVal → Bytes → Bool → β) (bad : Bytes → β)
    (start : Bytes) (neg : Bool) (digitsStart s : Bytes) : β :=
  let s1 := adv s
  if cfg.exp && peek s1 == 0x5F then bad s1
  else afterMantissaK cfg fin bad start neg true digitsStart (fracDigits cfg.exp s1)

def readNumberK (cfg : Cfg) (fin : NumVal → Bytes → Bool → β) (bad : Bytes → β) (s0 : Bytes) : β :=
  let c0 := peek s0
  let (neg, s) := if c0 == 0x2D || c0 == 0x2B then (c0 == 0x2D, adv s0) else (false, s0)
  let digitsStart := s
  let c := peek s
  let radixForm : Option β :=
    if cfg.clj && is09 c then
      let rpos := s.dropWhile is09
      match rpos with
      | r :: rrest =>
        if r == 0x72 || r == 0x52 then
          let rv := radixPrefixValue 0 (slice s rpos)
          if 2 ≤ rv && rv ≤ 36 then
            let ds := rrest
            if !(digitValue (peek ds) rv).isSome then some (bad ds)
            else match radixDigitsLoop cfg.exp rv true (ds.length + 1) ds with
              | .error cur => some (bad cur)
              | .ok s' => some (radixTailK cfg fin bad neg rv false ds s')
          else some (bad s)
        else none
      | [] => none
    else none
  match radixForm with
  | some r => r
  | none =>
  if c == 0x30 then
    let s1 := adv s
    let c1 := peek s1
    let cljBranch : Option β × Bytes :=
      if cfg.clj then
        let s2 := s1.dropWhile (· == 0x30)
        let c2 := peek s2
        if c2 == 0x78 || c2 == 0x58 then
          let ds := adv s2
          if !(digitValue (peek ds) 16).isSome then (some (bad ds), s2)
          else match radixDigitsLoop cfg.exp 16 false (ds.length + 1) ds with
            | .error cur => (some (bad cur), s2)
            | .ok s' => (some (radixTailK cfg fin bad neg 16 true ds s'), s2)
        else if 0x31 ≤ c2 && c2 ≤ 0x37 then
          match radixDigitsLoop cfg.exp 8 false (s2.length + 1) s2 with
          | .error cur => (some (bad cur), s2)
          | .ok s' => (some (radixTailK cfg fin bad neg 8 true digitsStart s'), s2)
        else if c2 == 0x38 || c2 == 0x39 then (some (bad s2), s2)
        else (none, s2)
      else
        if is09 c1 then (some (bad s1), s1) else (none, s1)
    match cljBranch with
    | (some r, _) => r
    | (none, s2) =>
      let c2 := peek s2
      if c2 == 0x2E then decimalPartK cfg fin bad s0 neg digitsStart s2
      else if c2 == 0x4E then fin (.bigint neg 10 [0x30]) (adv s2) true
      else if c2 == 0x4D then fin (.bigdec neg [0x30]) (adv s2) true
      else if c2 == 0x65 || c2 == 0x45 then exponentPartK cfg fin bad s0 neg false digitsStart s2
      else if cfg.clj && c2 == 0x2F then
        match ratioDenominator (adv s2) with
        | .error cur => bad cur
        | .ok s' => fin (.int 0) s' false
      else fin (.int 0) s2 true
  else
    match decDigitsLoop cfg.exp (s.length + 1) s with
    | .error cur => bad cur
    | .ok s1 =>
      if peek s1 == 0x2E then decimalPartK cfg fin bad s0 neg digitsStart s1
      else afterMantissaK cfg fin bad s0 neg false digitsStart s1

end NumK

/-- the value creation of `readNumber` as a `fin` argument of `readNumberK` -/
def finishNumK (v : NumVal) (s : Bytes) (validate : Bool) : NumOut :=
  if validate then finishNum v s else .ok v s

/-- the result of Clinger's fast path of `parse_double_from_buffer`, `none` when the literal
    goes to `strtod` (same computation as in `parseDouble`) -/
def parseDoubleFastOpt (cfg : Cfg) (text : Bytes) : Option UInt64 :=
  let (neg, s) := match text with
    | c :: r => if c == 0x2D then (true, r) else if c == 0x2B then (false, r) else (false, c :: r)
    | [] => (false, [])
  let (m1, n1, s1) := accDigits cfg.exp 0 0 s
  let (m2, n2, fr, s2) := match s1 with
    | c :: r =>
      if c == 0x2E then
        let (m, n, r') := accDigits cfg.exp m1 n1 r
        (m, n, n - n1, r')
      else (m1, n1, 0, c :: r)
    | [] => (m1, n1, 0, [])
  let e10 : Int := -(fr : Int)
  let e10 : Int := match s2 with
    | c :: r =>
      if c == 0x65 || c == 0x45 then
        let (eneg, r1) := match r with
          | d :: r' => if d == 0x2D then (true, r') else if d == 0x2B then (false, r') else (false, d :: r')
          | [] => (false, [])
        let ev := accExp cfg.exp 0 r1
        e10 + (if eneg then -(ev : Int) else (ev : Int))
      else e10
    | [] => e10
  if n2 ≤ 15 then parseDoubleFast m2 e10 neg else none

/-- size of the on-stack buffer of `parse_double_from_buffer` -/
def floatStackBuffer : Nat := 512

/-- does `parse_double_from_buffer` copy the literal to the heap (`malloc(len + 1)`)?  Only when
    the fast path does not apply and the literal does not fit the stack buffer. -/
def floatNeedsHeap (cfg : Cfg) (text : Bytes) : Bool :=
  (parseDoubleFastOpt cfg text).isNone && text.length ≥ floatStackBuffer

/-- INVALID_NUMBER from the start of the token to `parser->current = cur` -/
def numErrA (ctx : Ctx) (st : St) (cur : Bytes) : Res :=
  .err (mkErr .invalidNumber (some (ctx.pos st.rest)) (some (ctx.pos cur))) { st with rest := cur }

/-- the heap copy of a long float literal inside `parse_double_from_buffer`: `malloc`, `strtod`,
    `free`; `false` = the copy could not be obtained -/
def floatHeapA (x : ACtx) (heap : Bool) (a : ASt) : Bool × ASt :=
  if heap then
    match a.rawAlloc x.orc .malloc with
    | (some i, a') => (true, a'.free i)
    | (none, a') => (false, a')
  else (true, a)

/-- does the payload of this number need the heap copy? -/
def numNeedsHeap (cfg : Cfg) (v : NumVal) (text : Bytes) : Bool :=
  match v with
  | .float _ => floatNeedsHeap cfg text
  | _ => false

/-- value creation of `edn_read_number` at `parser->current = p`: the value is requested (failure is
    reported as INVALID_NUMBER from the start of the token to `p`), then for a long float literal
    the heap copy for `strtod` (failure: OUT_OF_MEMORY without a range), which is freed again
    before the delimiter is validated -/
def numCreateA (x : ACtx) (st : St) (a : ASt) (v : NumVal) (p : Bytes) (validate : Bool) : Res × ASt :=
  let ctx := x.ctx
  let (ok, a1) := a.request x.orc .arena
  if !ok then (numErrA ctx st p, a1)
  else
    let (okH, a2) := floatHeapA x (numNeedsHeap ctx.cfg v (slice st.rest p)) a1
    if !okH then (.err oomErr { st with rest := p }, a2)
    else if validate && !numDelimOk p then (numErrA ctx st p, a2)
    else (.ok (numToVal (mkHdr (ctx.pos st.rest) (ctx.pos p)) v) { st with rest := p }, a2)

/-- `edn_read_number` wrapped into the reader protocol, with its requests -/
def readNumberResA (x : ACtx) (st : St) (a : ASt) : Res × ASt :=
  readNumberK x.ctx.cfg (numCreateA x st a) (fun cur => (numErrA x.ctx st cur, a)) st.rest

/-! ## Equality and hashing with lazily materialised payloads

`edn_value_equal` and `edn_value_hash` look at a string literal with escapes through its decoded
text and (experimental flag) at a big number with underscores through its cleaned digits.  Both
buffers are requested from the parser's arena on first use and cached in the value when the
request succeeds (and, for a string, the escapes decode).  When the request fails the string
"denotes nothing" (`valid = false`, raw text), the big number has no digits - and the next look
asks again.  The duplicate check and the metadata merge therefore make requests; their callers
compare the arena's count of refused requests before and after and report OUT_OF_MEMORY when it
moved, so a verdict obtained with an unavailable payload is never used. -/

/-- `edn_string_content`: (valid, bytes) -/
def strContentA (x : ACtx) (h : Hdr) (data : Bytes) (esc : Bool) (a : ASt) : (Bool × Bytes) × ASt :=
  if !esc then ((true, data), a)
  else if a.bufs.contains h.s then (stringContent x.ctx.cfg data esc, a)
  else
    let (ok, a1) := a.request x.orc .arena
    if !ok then ((false, data), a1)
    else
      match decodeString x.ctx.cfg (data.length + 1) data with
      | some d => ((true, d), { a1 with bufs := h.s :: a1.bufs })
      | none => ((false, data), a1)

/-- `edn_bigint_get` / `edn_bigdec_get`: the digits (`none` = NULL with length 0) -/
def cleanA (x : ACtx) (h : Hdr) (d : Bytes) (a : ASt) : Option Bytes × ASt :=
  if !(x.ctx.cfg.exp && d.contains 0x5F) then (some d, a)
  else if a.bufs.contains h.s then (some (cleanDigits x.ctx.cfg d), a)
  else
    let (ok, a1) := a.request x.orc .arena
    if !ok then (none, a1) else (some (cleanDigits x.ctx.cfg d), { a1 with bufs := h.s :: a1.bufs })

mutual
/-- `edn_value_hash_internal` (cf. `hashV`) -/
def hashVA (x : ACtx) : Val → ASt → UInt64 × ASt
  | v@(.bigint h neg radix d), a =>
    let (dd, a1) := cleanA x h d a
    (fnvBytes (fnvStep (fnvStep (fnvStep fnvOffset (UInt64.ofNat (tySeed x.ctx.cfg v))) (UInt64.ofNat radix))
      (if neg then 1 else 0)) (dd.getD []), a1)
  | v@(.bigdec h neg t), a =>
    let (dd, a1) := cleanA x h t a
    (fnvBytes (fnvStep (fnvStep fnvOffset (UInt64.ofNat (tySeed x.ctx.cfg v))) (if neg then 1 else 0)) (dd.getD []), a1)
  | v@(.str h data esc), a =>
    let (c, a1) := strContentA x h data esc a
    (fnvBytes (fnvStep fnvOffset (UInt64.ofNat (tySeed x.ctx.cfg v))) c.2, a1)
  | .list _ _ xs, a =>
    let (hs, a1) := hashListA x xs a
    (hs.foldl fnvStep (fnvStep fnvOffset (UInt64.ofNat (Tables.tyList x.ctx.cfg.clj x.ctx.cfg.exp))), a1)
  | .vec _ _ xs, a =>
    let (hs, a1) := hashListA x xs a
    (hs.foldl fnvStep (fnvStep fnvOffset (UInt64.ofNat (Tables.tyList x.ctx.cfg.clj x.ctx.cfg.exp))), a1)
  | .set _ _ xs, a =>
    let (hs, a1) := hashListA x xs a
    (fnvStep (fnvStep fnvOffset (UInt64.ofNat (Tables.tySet x.ctx.cfg.clj x.ctx.cfg.exp))) (xorAll hs), a1)
  | .map _ _ ks vs, a =>
    let (hs, a1) := hashPairsA x ks vs a
    (fnvStep (fnvStep fnvOffset (UInt64.ofNat (Tables.tyMap x.ctx.cfg.clj x.ctx.cfg.exp))) (xorAll hs), a1)
  | .tagged _ _ tag v, a =>
    let (hv, a1) := hashVA x v a
    (fnvStep (fnvBytes (fnvStep fnvOffset (UInt64.ofNat (Tables.tyTagged x.ctx.cfg.clj x.ctx.cfg.exp))) tag) hv, a1)
  | v@(.nil _), a => (hashV x.ctx.cfg v, a)
  | v@(.bool _ _), a => (hashV x.ctx.cfg v, a)
  | v@(.int _ _), a => (hashV x.ctx.cfg v, a)
  | v@(.float _ _), a => (hashV x.ctx.cfg v, a)
  | v@(.ratio _ _ _), a => (hashV x.ctx.cfg v, a)
  | v@(.bigratio _ _ _ _), a => (hashV x.ctx.cfg v, a)
  | v@(.char _ _), a => (hashV x.ctx.cfg v, a)
  | v@(.sym _ _ _ _), a => (hashV x.ctx.cfg v, a)
  | v@(.kw _ _ _), a => (hashV x.ctx.cfg v, a)
  | v@(.ext _ _ _), a => (hashV x.ctx.cfg v, a)
termination_by v _ => sizeOf v
/-- the internal hashes of the elements, in order -/
def hashListA (x : ACtx) : List Val → ASt → List UInt64 × ASt
  | [], a => ([], a)
  | v :: vs, a =>
    let (h, a1) := hashVA x v a
    let (hs, a2) := hashListA x vs a1
    (h :: hs, a2)
termination_by vs _ => sizeOf vs
/-- map entries: key, value, key, value …; `key_hash ^ (val_hash * prime)` -/
def hashPairsA (x : ACtx) : List Val → List Val → ASt → List UInt64 × ASt
  | k :: ks, v :: vs, a =>
    let (hk, a1) := hashVA x k a
    let (hv, a2) := hashVA x v a1
    let (hs, a3) := hashPairsA x ks vs a2
    ((hk ^^^ (hv * fnvPrime)) :: hs, a3)
  | _, _, a => ([], a)
termination_by ks vs _ => sizeOf ks + sizeOf vs
end

/-- `edn_value_hash`: the hash and the value with its cache filled -/
def hashOpA (x : ACtx) (v : Val) (a : ASt) : (UInt64 × Val) × ASt :=
  let h := v.hdr
  if h.hc != 0 then ((h.hc, v), a)
  else
    let (hv, a1) := hashVA x v a
    let c := cacheOf hv
    ((c, v.setHdr { h with hc := c }), a1)

/-- is `p v y` true for some `y` of the list (left to right, stops at the first) -/
def anyA (p : Val → Val → ASt → Bool × ASt) (v : Val) : List Val → ASt → Bool × ASt
  | [], a => (false, a)
  | y :: ys, a =>
    let (r, a1) := p v y a
    if r then (true, a1) else anyA p v ys a1

/-- element-wise comparison of two sequences (stops at the first difference) -/
def allZipA (p : Val → Val → ASt → Bool × ASt) : List Val → List Val → ASt → Bool × ASt
  | [], [], a => (true, a)
  | v :: vs, y :: ys, a =>
    let (r, a1) := p v y a
    if r then allZipA p vs ys a1 else (false, a1)
  | _, _, a => (false, a)

/-- every element of the first list has an equal one in the second -/
def allAnyA (p : Val → Val → ASt → Bool × ASt) : List Val → List Val → ASt → Bool × ASt
  | [], _, a => (true, a)
  | v :: vs, ys, a =>
    let (r, a1) := anyA p v ys a
    if r then allAnyA p vs ys a1 else (false, a1)

/-- the inner loop of map equality: the first key of `b` equal to `k` decides -/
def mapEntryA (p : Val → Val → ASt → Bool × ASt) (k v : Val) : List Val → List Val → ASt → Bool × ASt
  | k' :: ks, v' :: vs, a =>
    let (r, a1) := p k k' a
    if r then p v v' a1 else mapEntryA p k v ks vs a1
  | _, _, a => (false, a)

def mapAllA (p : Val → Val → ASt → Bool × ASt) (ks' vs' : List Val) : List Val → List Val → ASt → Bool × ASt
  | [], [], a => (true, a)
  | k :: ks, v :: vs, a =>
    let (r, a1) := mapEntryA p k v ks' vs' a
    if r then mapAllA p ks' vs' ks vs a1 else (false, a1)
  | _, _, a => (false, a)

/-- digits of two big numbers compared through their getters (both are called before the
    comparison); unequal when either getter returned NULL -/
def digitsEqA (x : ACtx) (ha : Hdr) (d : Bytes) (hb : Hdr) (d' : Bytes) (a : ASt) : Bool × ASt :=
  let (da, a1) := cleanA x ha d a
  let (db, a2) := cleanA x hb d' a1
  (match da, db with
   | some p, some q => p == q
   | _, _ => false, a2)

/-- two strings compared through `edn_string_content` (both are fetched before the comparison) -/
def strEqA (x : ACtx) (ha : Hdr) (d : Bytes) (e : Bool) (hb : Hdr) (d' : Bytes) (e' : Bool) (a : ASt) : Bool × ASt :=
  let (ca, a1) := strContentA x ha d e a
  let (cb, a2) := strContentA x hb d' e' a1
  (ca == cb, a2)

/-- `edn_value_equal_internal` (cf. `equalF`) -/
def equalFA (x : ACtx) : Nat → Val → Val → ASt → Bool × ASt
  | 0, _, _, a => (false, a)
  | f + 1, va, vb, a =>
    if !kindCompatible va vb then (false, a)
    else if va.hdr.hc != 0 && vb.hdr.hc != 0 && va.hdr.hc != vb.hdr.hc then (false, a)
    else match va, vb with
      | .bigint ha n r d, .bigint hb n' r' d' =>
        if r != r' then (false, a)
        else if n != n' then (false, a)
        else digitsEqA x ha d hb d' a
      | .bigdec ha n t, .bigdec hb n' t' =>
        if n != n' then (false, a) else digitsEqA x ha t hb t' a
      | .str ha d e, .str hb d' e' => strEqA x ha d e hb d' e' a
      | .list _ _ xs, .list _ _ ys | .list _ _ xs, .vec _ _ ys
      | .vec _ _ xs, .list _ _ ys | .vec _ _ xs, .vec _ _ ys =>
        if xs.length != ys.length then (false, a) else allZipA (equalFA x f) xs ys a
      | .set _ _ xs, .set _ _ ys =>
        if xs.length != ys.length then (false, a) else allAnyA (equalFA x f) xs ys a
      | .map _ _ ks vs, .map _ _ ks' vs' =>
        if ks.length != ks'.length then (false, a) else mapAllA (equalFA x f) ks' vs' ks vs a
      | .tagged _ _ t v, .tagged _ _ t' v' =>
        if t != t' then (false, a) else equalFA x f v v' a
      | _, _ => (equalF x.ctx.cfg (f + 1) va vb, a)

/-- `edn_value_equal` -/
def equalA (x : ACtx) (va vb : Val) (a : ASt) : Bool × ASt := equalFA x maxDepthFuel va vb a

/-- `edn_has_duplicates_linear` -/
def hasDupLinearA (x : ACtx) : List Val → ASt → Bool × ASt
  | [], a => (false, a)
  | v :: vs, a =>
    let (r, a1) := anyA (equalA x) v vs a
    if r then (true, a1) else hasDupLinearA x vs a1

/-- hash (and cache) the elements with the given indices, in that order -/
def hashAtA (x : ACtx) : List Nat → Array Val → ASt → Array Val × ASt
  | [], arr, a => (arr, a)
  | i :: is, arr, a =>
    match arr[i]? with
    | none => hashAtA x is arr a
    | some v =>
      let ((_, v'), a1) := hashOpA x v a
      hashAtA x is (arr.setIfInBounds i v') a1

/-- runs of equal cached hash in a list sorted by it: pairwise check inside each run until a
    duplicate is found -/
def runsA (x : ACtx) : Nat → List Val → ASt → Bool × ASt
  | 0, _, a => (false, a)
  | _, [], a => (false, a)
  | f + 1, v :: vs, a =>
    let run := v :: vs.takeWhile (·.hdr.hc == v.hdr.hc)
    let rest := vs.dropWhile (·.hdr.hc == v.hdr.hc)
    let (r, a1) := hasDupLinearA x run a
    if r then (true, a1) else runsA x f rest a1

/-- insertion into a list sorted by cached hash, after the elements with the same hash (stable) -/
def insertByHash (v : Val) : List Val → List Val
  | [] => [v]
  | y :: ys => if v.hdr.hc < y.hdr.hc then v :: y :: ys else y :: insertByHash v ys

/-- stable sort by cached hash (what `qsort` with `edn_compare_by_hash` produces with a stable
    merge sort) -/
def sortByHash (xs : List Val) : List Val := xs.foldl (fun acc v => insertByHash v acc) []

/-- `edn_has_duplicates_sorted`: verdict and the elements with the caches filled -/
def hasDupSortedA (x : ACtx) (xs : List Val) (a : ASt) : (Bool × List Val) × ASt :=
  match a.rawAlloc x.orc .malloc with
  | (none, a1) =>
    let (r, a2) := hasDupLinearA x xs a1
    ((r, xs), a2)
  | (some i, a1) =>
    -- qsort: every element is hashed when the comparator first meets it
    let (arr, a2) := hashAtA x (x.sortTouch xs.length) xs.toArray a1
    -- (a permutation has met every element; anything else is hashed when the runs are formed)
    let (arr, a3) := hashAtA x (List.range xs.length) arr a2
    let ys := arr.toList
    let (r, a4) := runsA x (ys.length + 1) (sortByHash ys) a3
    ((r, ys), a4.free i)

/-- element loop of `edn_has_duplicates_hash`: hash the element, compare it with the elements
    inserted before it that have the same hash (in insertion order: they lie on its probe path),
    insert it.  `seen` = inserted elements, newest first -/
def tableLoopA (x : ACtx) : List Val → List Val → ASt → (Bool × List Val) × ASt
  | [], seen, a => ((false, seen.reverse), a)
  | v :: rest, seen, a =>
    let ((h, v'), a1) := hashOpA x v a
    let cands := seen.reverse.filter (·.hdr.hc == h)
    let (r, a2) := anyA (fun e y => equalA x y e) v' cands a1
    if r then ((true, seen.reverse ++ v' :: rest), a2) else tableLoopA x rest (v' :: seen) a2

/-- `edn_has_duplicates_hash` -/
def hasDupTableA (x : ACtx) (xs : List Val) (a : ASt) : (Bool × List Val) × ASt :=
  match a.rawAlloc x.orc .calloc with
  | (none, a1) => hasDupSortedA x xs a1
  | (some i, a1) =>
    let (r, a2) := tableLoopA x xs [] a1
    (r, a2.free i)

/-- `edn_has_duplicates` with its fall-backs hash table → sorted copy → pairwise -/
def hasDuplicatesA (x : ACtx) (xs : List Val) (a : ASt) : (Bool × List Val) × ASt :=
  if xs.length ≤ 1 then ((false, xs), a)
  else if xs.length ≤ Tables.linearThreshold then
    let (r, a1) := hasDupLinearA x xs a
    ((r, xs), a1)
  else if xs.length ≤ Tables.sortedThreshold then hasDupSortedA x xs a
  else hasDupTableA x xs a

/-! ## Collections: builders, duplicate check, key rewriting, metadata -/

/-- `edn_collection_builder_add` for the next element: one request when the array is full.
    `none` = the add failed -/
def BSt.add (x : ACtx) (b : BSt) (a : ASt) : Option BSt × ASt :=
  if b.count ≥ b.cap then
    let (ok, a1) := a.request x.orc .arena
    if ok then (some { count := b.count + 1, cap := x.grow b.cap, heap := true }, a1) else (none, a1)
  else (some { b with count := b.count + 1 }, a)

/-- `edn_collection_builder_finish`: elements still in the in-frame storage are copied into one
    requested array (nothing is requested for an empty collection).  `false` = NULL with a
    positive count, which the reader reports as OUT_OF_MEMORY -/
def BSt.finish (x : ACtx) (b : BSt) (a : ASt) : Bool × ASt :=
  if !b.heap && b.count != 0 then a.request x.orc .arena else (true, a)

/-- `edn_map_builder_add`: both new arrays are requested before either is tested -/
def BSt.addPair (x : ACtx) (b : BSt) (a : ASt) : Option BSt × ASt :=
  if b.count ≥ b.cap then
    let (ok1, a1) := a.request x.orc .arena
    let (ok2, a2) := a1.request x.orc .arena
    if ok1 && ok2 then (some { count := b.count + 1, cap := x.grow b.cap, heap := true }, a2) else (none, a2)
  else (some { b with count := b.count + 1 }, a)

/-- `edn_map_builder_finish` -/
def BSt.finishPair (x : ACtx) (b : BSt) (a : ASt) : Bool × ASt :=
  if !b.heap && b.count != 0 then
    let (ok1, a1) := a.request x.orc .arena
    let (ok2, a2) := a1.request x.orc .arena
    (ok1 && ok2, a2)
  else (true, a)

/-- does the key rewriting of `edn_read_map_internal` allocate a fresh key for `k`? -/
def qualifyAllocs (k : Val) : Bool :=
  match k with
  | .kw _ none _ => true
  | .kw _ (some n) _ => n == [0x5F]
  | .sym _ _ none _ => true
  | .sym _ _ (some n) _ => n == [0x5F]
  | _ => false

/-- requests of the one-entry map built for a keyword / vector / string / symbol annotation: the
    synthesised value (tested at once), then the key and value arrays (both requested, then
    tested); a map annotation needs nothing -/
def metaEntryA (x : ACtx) (m : Val) (a : ASt) : Bool × ASt :=
  match m with
  | .map .. => (true, a)
  | _ =>
    let (okV, a1) := a.request x.orc .arena
    if !okV then (false, a1)
    else
      let (ok1, a2) := a1.request x.orc .arena
      let (ok2, a3) := a2.request x.orc .arena
      (ok1 && ok2, a3)

/-- entries of the existing metadata that survive (cf. `keepOld`): `edn_value_equal(existing_key,
    new_keys[j])` for each new key until one is equal -/
def keepOldA (x : ACtx) (newKeys : List Val) : List Val → List Val → ASt → (List Val × List Val) × ASt
  | k :: ks, v :: vs, a =>
    let (found, a1) := anyA (equalA x) k newKeys a
    let ((ks', vs'), a2) := keepOldA x newKeys ks vs a1
    (if found then (ks', vs') else (k :: ks', v :: vs'), a2)
  | _, _, a => (([], []), a)

/-- Step 3 of `edn_read_metadata` (cf. `attachMeta`): `none` = a request failed -/
def attachMetaA (x : ACtx) (m form : Val) (newKs newVs : List Val) (a : ASt) : Option Val × ASt :=
  match form.md with
  | some (.map h md ks vs) =>
    -- the form already has metadata: new entries, then the two merged arrays, then the merge
    let (okE, a1) := metaEntryA x m a
    if !okE then (none, a1)
    else
      let (ok1, a2) := a1.request x.orc .arena
      let (ok2, a3) := a2.request x.orc .arena
      if !(ok1 && ok2) then (none, a3)
      else
        let ((oks, ovs), a4) := keepOldA x newKs ks vs a3
        -- a request refused while comparing keys: the merge is abandoned
        if a4.failedArena != a3.failedArena then (none, a4)
        else (some (form.setMd (some (.map h md (newKs ++ oks) (newVs ++ ovs)))), a4)
  | _ =>
    -- a new metadata map value, then its entries
    let (okM, a1) := a.request x.orc .arena
    if !okM then (none, a1)
    else
      let (okE, a2) := metaEntryA x m a1
      if !okE then (none, a2) else (some (form.setMd (some (.map synthHdr none newKs newVs))), a2)

/-! ## The recursive reader -/

mutual

/-- `edn_read_value(parser)` at nesting depth `d`, discard mode `dm` -/
def readValueA (x : ACtx) : Nat → Nat → Bool → St → ASt → Res × ASt
  | 0, _, _, st, a => (fuelOut st, a)
  | f + 1, d, dm, st, a =>
    let ctx := x.ctx
    let s0 := st.rest
    let eofErr (st : St) : Res :=
      .err { code := .unexpectedEof, es := none, ee := none, eofTop := d == 0 } st
    match s0 with
    | [] => (eofErr st, a)
    | c0 :: _ =>
      let s := if isPreWs c0 then skipWs s0 else s0
      match s with
      | [] => (eofErr { st with rest := [] }, a)
      | c :: cs =>
        let st := { st with rest := s }
        let here := ctx.pos s
        let tooDeep : Bool := d ≥ Tables.maxNestingDepth
        let deepErr : Res := .err (mkErr .invalidSyntax (some here) (some (here - 1))) st
        match dispatch ctx.cfg c with
        | .string => readStringA x st a
        | .character => readCharacterA x st a
        | .listOpen => if tooDeep then (deepErr, a) else readSeqA x f d dm 0 here { st with rest := cs } a {} []
        | .vectorOpen => if tooDeep then (deepErr, a) else readSeqA x f d dm 1 here { st with rest := cs } a {} []
        | .mapOpen => if tooDeep then (deepErr, a) else readMapA x f d dm here none { st with rest := cs } a {} [] []
        | .hash =>
          match cs with
          | nx :: cs' =>
            if nx == 0x23 then readSymbolicA x st a
            else if tooDeep then (deepErr, a)
            else if nx == 0x7B then readSeqA x f d dm 2 here { st with rest := cs' } a {} []
            else if nx == 0x5F then
              match readValueA x f (d + 1) true { st with rest := cs' } a with
              | (.ok _ st', a') => readValueA x f d dm st' a'
              | (.closer st', a') => (.err (mkErr .invalidDiscard (some here) (some (here - 2))) st', a')
              | (.err e st', a') => (.err e st', a')
            else if ctx.cfg.clj && nx == 0x3A then readNsMapA x f d dm here { st with rest := cs } a
            else readTaggedA x f d dm here { st with rest := cs } a
          | [] => readTaggedA x f d dm here { st with rest := cs } a
        | .sign =>
          match cs with
          | nx :: _ => if is09 nx then readNumberResA x st a else readIdentifierA x st a
          | [] => readIdentifierA x st a
        | .digit => readNumberResA x st a
        | .delimiter =>
          if d == 0 then (.err (mkErr .unmatchedDelimiter) st, a) else (.closer st, a)
        | .metadata => if tooDeep then (deepErr, a) else readMetaA x f d dm here { st with rest := cs } a
        | .identifier => readIdentifierA x st a

/-- element loop and close of `edn_read_list` (kind 0), `edn_read_vector` (1), `edn_read_set` (2);
    `b` = state of the collection builder -/
def readSeqA (x : ACtx) : Nat → Nat → Bool → Nat → Nat → St → ASt → BSt → List Val → Res × ASt
  | 0, _, _, _, _, st, a, _, _ => (fuelOut st, a)
  | f + 1, d, dm, kind, start, st, a, b, acc =>
    let ctx := x.ctx
    match readValueA x f (d + 1) dm st a with
    | (.ok v st', a') =>
      match b.add x a' with
      | (none, a1) => (.err oomErr st', a1)
      | (some b', a1) => readSeqA x f d dm kind start st' a1 b' (v :: acc)
    | (.err e st', a') =>
      if e.code == .unexpectedEof && !e.fuelOut then
        (.err (mkErr .unterminatedCollection (some start) (some (ctx.pos st'.rest))) st', a')
      else (.err e st', a')
    | (.closer st', a') =>
      match st'.rest with
      | [] => (.err (mkErr .unmatchedDelimiter (some start) (some (st'.rest.length - 1))) st', a')
      | c :: r =>
        if c != closerByte kind then
          (.err (mkErr .unmatchedDelimiter (some start) (some (st'.rest.length - 1))) st', a')
        else
          let st'' := { st' with rest := r }
          let stop := ctx.pos r
          let xs := acc.reverse
          let h : Hdr := (mkHdr (start) (stop))
          let (okF, a1) := b.finish x a'
          if !okF then (.err oomErr st'', a1)
          else if kind == 0 then
            let (okV, a2) := a1.request x.orc .arena
            if !okV then (.err oomErr st'', a2) else (.ok (.list h none xs) st'', a2)
          else if kind == 1 then
            let (okV, a2) := a1.request x.orc .arena
            if !okV then (.err oomErr st'', a2) else (.ok (.vec h none xs) st'', a2)
          else
            let ((dup, ys), a2) := hasDuplicatesA x xs a1
            -- a request refused while comparing (lazy decoding) makes the verdict worthless
            if a2.failedArena != a1.failedArena then (.err oomErr st'', a2)
            else if dup then (.err (mkErr .duplicateElement (some start) (some stop)) st'', a2)
            else
              let (okV, a3) := a2.request x.orc .arena
              if !okV then (.err oomErr st'', a3) else (.ok (.set h none ys) st'', a3)

/-- entry loop and close of `edn_read_map_internal`; `ns` = namespace prefix -/
def readMapA (x : ACtx) : Nat → Nat → Bool → Nat → Option Bytes → St → ASt → BSt → List Val → List Val → Res × ASt
  | 0, _, _, _, _, st, a, _, _, _ => (fuelOut st, a)
  | f + 1, d, dm, start, ns, st, a, b, ks, vs =>
    let ctx := x.ctx
    let unterminated (st' : St) : Res :=
      .err (mkErr .unterminatedCollection (some start) (some (ctx.pos st'.rest))) st'
    match readValueA x f (d + 1) dm st a with
    | (.err e st', a') => if e.code == .unexpectedEof && !e.fuelOut then (unterminated st', a') else (.err e st', a')
    | (.closer st', a') =>
      match st'.rest with
      | [] => (.err (mkErr .unexpectedEof (some start) (some (ctx.pos st'.rest))) st', a')
      | c :: r =>
        if c != 0x7D then (.err (mkErr .unmatchedDelimiter (some start) (some (st'.rest.length - 1))) st', a')
        else
          let st'' := { st' with rest := r }
          let stop := ctx.pos r
          let keys := ks.reverse
          let vals := vs.reverse
          let (okF, a1) := b.finishPair x a'
          if !okF then (.err oomErr st'', a1)
          else
            let ((dup, keys'), a2) := hasDuplicatesA x keys a1
            if a2.failedArena != a1.failedArena then (.err oomErr st'', a2)
            else if dup then (.err (mkErr .duplicateKey (some start) (some stop)) st'', a2)
            else
              let (okV, a3) := a2.request x.orc .arena
              if !okV then (.err oomErr st'', a3)
              else (.ok (.map (mkHdr (start) (stop)) none keys' vals) st'', a3)
    | (.ok k st', a') =>
      match readValueA x f (d + 1) dm st' a' with
      | (.closer st'', a'') => (.err (mkErr .invalidSyntax (some start) (some (ctx.pos st''.rest))) st'', a'')
      | (.err e st'', a'') => if e.code == .unexpectedEof && !e.fuelOut then (unterminated st'', a'') else (.err e st'', a'')
      | (.ok v st'', a'') =>
        let k' := match ns with
          | some n => qualifyKey n k
          | none => k
        -- a rewritten key is a freshly requested value
        let (okK, a1) :=
          if ns.isSome && qualifyAllocs k then a''.request x.orc .arena else (true, a'')
        if !okK then (.err oomErr st'', a1)
        else
          match b.addPair x a1 with
          | (none, a2) => (.err oomErr st'', a2)
          | (some b', a2) => readMapA x f d dm start ns st'' a2 b' (k' :: ks) (v :: vs)

/-- `edn_read_namespaced_map`; `st.rest` starts at the `:` after `#` -/
def readNsMapA (x : ACtx) : Nat → Nat → Bool → Nat → St → ASt → Res × ASt
  | 0, _, _, _, st, a => (fuelOut st, a)
  | f + 1, d, dm, start, st, a =>
    let ctx := x.ctx
    match readValueA x f d dm st a with
    | (.closer st', a') => (.closer st', a')
    | (.err e st', a') => (.err e st', a')
    | (.ok kwv st', a') =>
      let serr (st' : St) : Res := .err (mkErr .invalidSyntax (some start) (some (ctx.pos st'.rest))) st'
      match kwv with
      | .kw _ none name =>
        let s := skipWs st'.rest
        let st2 := { st' with rest := s }
        match s with
        | c :: r => if c == 0x7B then readMapA x f d dm start (some name) { st2 with rest := r } a' {} [] [] else (serr st2, a')
        | [] => (serr st2, a')
      | _ => (serr st', a')

/-- `edn_read_tagged`; `st.rest` starts after the `#` -/
def readTaggedA (x : ACtx) : Nat → Nat → Bool → Nat → St → ASt → Res × ASt
  | 0, _, _, _, st, a => (fuelOut st, a)
  | f + 1, d, dm, start, st, a =>
    let ctx := x.ctx
    let s := st.rest
    let cur (st : St) := some (ctx.pos st.rest)
    match s with
    | [] => (.err (mkErr .unexpectedEof (some start) (cur st)) st, a)
    | c :: _ =>
      if c == 0x20 || c == 0x09 || c == 0x0A || c == 0x0D || c == 0x2C then
        (.err (mkErr .invalidSyntax (some start) (cur st)) st, a)
      else
        match readIdentifierA x st a with
        | (.closer st', a') => (.closer st', a')
        | (.err e st', a') => (.err e st', a')
        | (.ok tagv st', a') =>
          match tagv with
          | .sym .. =>
            let tag := slice s st'.rest
            match readValueA x f (d + 1) dm st' a' with
            | (.closer st'', a'') => (.err (mkErr .invalidSyntax (some start) (cur st'')) st'', a'')
            | (.err e st'', a'') => (.err e st'', a'')
            | (.ok v st'', a'') =>
              let stop := ctx.pos st''.rest
              -- the tagged value itself is requested only when the element is kept as such
              let passthrough : Res × ASt :=
                let (okV, a1) := a''.request x.orc .arena
                if !okV then (.err oomErr st'', a1)
                else (.ok (.tagged (mkHdr (start) (stop)) none tag v) st'', a1)
              match ctx.opts.registry with
              | none => passthrough
              | some reg =>
                if dm then passthrough
                else match reg tag with
                  | some h =>
                    let st3 := { st'' with calls := st''.calls ++ [⟨h.name, v.hdr.s, v.hdr.e⟩] }
                    -- a handler may request arena memory itself and gives up (NULL) without it
                    let (okH, a1) := if x.handlerReq h.name then a''.request x.orc .arena else (true, a'')
                    if !okH then (.err (mkErr .invalidSyntax (some start) (some stop)) st3, a1)
                    else
                      match h.run v with
                      | none => (.err (mkErr .invalidSyntax (some start) (some stop)) st3, a1)
                      | some r => (.ok (r.setHdr { r.hdr with s := start, e := stop }) st3, a1.rekey r.hdr.s start)
                  | none =>
                    if ctx.opts.mode == 1 then (.ok v st'', a'')
                    else if ctx.opts.mode == 2 then (.err (mkErr .unknownTag (some start) (some stop)) st'', a'')
                    else passthrough
          | _ => (.err (mkErr .invalidSyntax (some start) (cur st')) st', a')

/-- `edn_read_metadata`; `st.rest` starts after the `^` -/
def readMetaA (x : ACtx) : Nat → Nat → Bool → Nat → St → ASt → Res × ASt
  | 0, _, _, _, st, a => (fuelOut st, a)
  | f + 1, d, dm, start, st, a =>
    let ctx := x.ctx
    let serr (st' : St) : Res := .err (mkErr .invalidSyntax (some start) (some (ctx.pos st'.rest))) st'
    match readValueA x f (d + 1) dm st a with
    | (.closer st', a') => (serr st', a')
    | (.err e st', a') => (.err e st', a')
    | (.ok m st', a') =>
      match metaEntries m with
      | none => (serr st', a')
      | some (nks, nvs) =>
        match readValueA x f (d + 1) dm st' a' with
        | (.closer st'', a'') => (serr st'', a'')
        | (.err e st'', a'') => (.err e st'', a'')
        | (.ok form st'', a'') =>
          if !form.metaTarget then (serr st'', a'')
          else
            match attachMetaA x m form nks nvs a'' with
            | (none, a1) => (.err oomErr st'', a1)
            | (some form', a1) => (.ok (form'.setHdr { form'.hdr with s := start }) st'', a1)

end

/-! ## edn_read_with_options -/

/-- `newline_positions_add` for each of the `n` line feeds still to come: the offsets array is
    doubled by a request on the temporary arena whenever it is full -/
def lineGrowA (orc : Nat → Bool) : Nat → Nat → Nat → ASt → Bool × ASt
  | 0, _, _, a => (true, a)
  | n + 1, count, cap, a =>
    if count ≥ cap then
      let (ok, a1) := a.request orc .arenaTmp
      if !ok then (false, a1) else lineGrowA orc n (count + 1) (cap * 2) a1
    else lineGrowA orc n (count + 1) cap a

/-- the error-position code of `edn_read_with_options`: temporary arena, `newline_find_all_ex`
    (index record, offsets array, growth), destruction of the temporary arena.  `true` = the line
    index was built, i.e. the reported positions are filled in -/
def lineIndexA (orc : Nat → Bool) (input : Bytes) (a : ASt) : Bool × ASt :=
  let (okA, a1) := a.arenaCreate orc true
  if !okA then (false, a1)
  else
    let (okP, a2) := a1.request orc .arenaTmp
    let (okI, a4) :=
      if !okP then (false, a2)
      else
        let (okO, a3) := a2.request orc .arenaTmp
        if !okO then (false, a3)
        else lineGrowA orc (lfPositions input).length 0 Tables.newlineInitialCapacity a3
    (okI, a4.arenaDestroy true)

structure ResultA where
  out : Outcome
  calls : List Call
  /-- final allocation state: `arena = .alive` means the parser's arena is owned by the returned
      value, `.destroyed` that it was released before returning, `.none` that it never existed -/
  ast : ASt

def ResultA.result (r : ResultA) : Result := { out := r.out, calls := r.calls }

/-- `edn_read_with_options(input, length, options)` under the fault oracle `orc` -/
def readA (cfg : Cfg) (opts : Opts) (orc : Nat → Bool) (input : Bytes)
    (grow : Nat → Nat := growHalf) (handlerReq : String → Bool := fun _ => false)
    (sortTouch : Nat → List Nat := fun n => msortTouch n 0 n) : ResultA :=
  let x : ACtx := { ctx := { cfg := cfg, opts := opts }, orc := orc, grow := grow, handlerReq := handlerReq,
                    sortTouch := sortTouch }
  let n := input.length
  -- parser.arena = edn_arena_create(): the result is not checked; with a NULL arena every
  -- request on it fails
  let (_, a0) := ({} : ASt).arenaCreate orc false
  match readValueA x (readFuel input) 0 false { rest := input } a0 with
  | (.ok v st, a) => { out := .value v, calls := st.calls, ast := a }
  | (.closer st, a) => { out := .fuelOut, calls := st.calls, ast := a }
  | (.err e st, a) =>
    if e.fuelOut then { out := .fuelOut, calls := st.calls, ast := a }
    else
      -- error positions are computed first (and need memory), whatever happens to them afterwards
      let (haveIdx, a1) := lineIndexA orc input a
      -- both branches of the end of edn_read_with_options release the parser's arena when it exists
      let a2 := if a1.arena == .alive then a1.arenaDestroy false else a1
      if e.code == .unexpectedEof && e.eofTop && opts.eofValue then { out := .eofValue, calls := st.calls, ast := a2 }
      else if !haveIdx then
        -- no line index: the positions of the result stay zero
        { out := .error e.code ⟨0, 0, 0⟩ ⟨0, 0, 0⟩, calls := st.calls, ast := a2 }
      else
        let offs := (lfPositions input).toArray
        let cur := st.rest.length
        let so := n - e.es.getD cur
        let eo := n - e.ee.getD cur
        let (sl, sc) := linePos offs so
        let (el, ec) := linePos offs eo
        { out := .error e.code ⟨so, sl, sc⟩ ⟨eo, el, ec⟩, calls := st.calls, ast := a2 }

/-! ## Lazily materialised payloads (accessors called after the read)

`edn_string_get` copies (no escapes) or decodes (escapes) the literal into a requested buffer on
first use, except for a text block, whose text was materialised by the reader (its name is in
`ASt.bufs` from the start); `edn_bigint_get` / `edn_bigdec_get` request a buffer for the digits without
underscores when the experimental flag is on and the digits contain one.  The buffer is cached,
so a second call makes no request when the first one succeeded. -/

/-- one accessor call (`edn_string_get`, `edn_bigint_get`, `edn_bigdec_get`) on a value of the tree:
    the request it makes, if any, and the bytes it returns (`none` = NULL) -/
def materialiseA (x : ACtx) (v : Val) (a : ASt) : Option Bytes × ASt :=
  match v with
  | .str h data esc =>
    if esc then
      let ((valid, b), a1) := strContentA x h data esc a
      (if valid then some b else none, a1)
    else if a.bufs.contains h.s then (some data, a)
    else
      -- no escapes: a NUL-terminated copy is requested (NULL is returned without it)
      let (ok, a1) := a.request x.orc .arena
      if !ok then (none, a1) else (some data, { a1 with bufs := h.s :: a1.bufs })
  | .bigint h _ _ d | .bigdec h _ d => cleanA x h d a
  | _ => (none, a)

/-! ## Trace rendering (shared with harness/edn_harness.c, command `H`) -/

def Ev.render : Ev → String
  | .req .arena _ failed _ => if failed then "A" else "a"
  | .req .arenaTmp _ failed _ => if failed then "T" else "t"
  | .req .arenaNew _ failed _ => if failed then "N" else "n"
  | .req .malloc _ failed _ => if failed then "M" else "m"
  | .req .calloc _ failed _ => if failed then "C" else "c"
  | .req .realloc _ failed old => (if failed then "R" else "r") ++ toString old
  | .free id => "f" ++ toString id
  | .destroy tmp => if tmp then "d1" else "d0"

def ASt.renderTrace (a : ASt) : String := String.join (a.trace.reverse.map Ev.render)

def ArenaSt.render : ArenaSt → String
  | .none => "none"
  | .alive => "owned"
  | .destroyed => "destroyed"

end Edn.Model
