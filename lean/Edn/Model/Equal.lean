/-
  Edn.Model.Equal — src/equality.c (equality with its depth cap and cached-hash short
  circuit, FNV-1a hashing with the cache cell), src/uniqueness.c (three strategies) and
  the lookup functions of src/edn.c.
-/
import Edn.Model.Str

namespace Edn.Model

open Edn.Generated

def fnvOffset : UInt64 := 14695981039346656037
def fnvPrime : UInt64 := 1099511628211

@[inline] def fnvStep (h x : UInt64) : UInt64 := (h ^^^ x) * fnvPrime
@[inline] def fnvByte (h : UInt64) (b : UInt8) : UInt64 := fnvStep h b.toUInt64
def fnvBytes (h : UInt64) (bs : Bytes) : UInt64 := bs.foldl fnvByte h

/-- the eight bytes of a 64-bit word, least significant first -/
def fnvWord (h : UInt64) (x : UInt64) : UInt64 :=
  (List.range 8).foldl (fun h i => fnvStep h ((x >>> (UInt64.ofNat (8 * i))) &&& 0xFF)) h

def int64Bits (i : Int) : UInt64 := UInt64.ofInt i

/-- numbering of `edn_type_t` (depends on the Clojure flag), with vectors seeded as lists -/
def tySeed (cfg : Cfg) : Val → Nat
  | .nil .. => Tables.tyNil | .bool .. => Tables.tyBool | .int .. => Tables.tyInt
  | .bigint .. => Tables.tyBigint | .float .. => Tables.tyFloat | .bigdec .. => Tables.tyBigdec
  | .ratio .. => Tables.tyRatio cfg.clj cfg.exp | .bigratio .. => Tables.tyBigratio cfg.clj cfg.exp
  | .char .. => Tables.tyCharacter cfg.clj cfg.exp | .str .. => Tables.tyString cfg.clj cfg.exp
  | .sym .. => Tables.tySymbol cfg.clj cfg.exp | .kw .. => Tables.tyKeyword cfg.clj cfg.exp
  | .list .. => Tables.tyList cfg.clj cfg.exp | .vec .. => Tables.tyList cfg.clj cfg.exp
  | .map .. => Tables.tyMap cfg.clj cfg.exp | .set .. => Tables.tySet cfg.clj cfg.exp
  | .tagged .. => Tables.tyTagged cfg.clj cfg.exp | .ext .. => Tables.tyExternal cfg.clj cfg.exp

/-- digits as `edn_bigint_get` / `edn_bigdec_get` return them (underscores cleaned lazily
    with the experimental flag) -/
def cleanDigits (cfg : Cfg) (d : Bytes) : Bytes := if cfg.exp then d.filter (· != 0x5F) else d

/-- `edn_string_content`: (valid, bytes denoted) -/
def stringContent (cfg : Cfg) (data : Bytes) (esc : Bool) : Bool × Bytes :=
  if !esc then (true, data)
  else match decodeString cfg (data.length + 1) data with
    | some d => (true, d)
    | none => (false, data)

def isNaNBits (b : UInt64) : Bool :=
  ((b >>> 52) &&& 0x7FF) == 0x7FF && (b &&& 0xFFFFFFFFFFFFF) != 0

/-- canonical bits hashed for a double: NaN → quiet NaN, ±0 → +0 -/
def floatHashBits (b : UInt64) : UInt64 :=
  if isNaNBits b then 0x7FF8000000000000
  else if (b &&& 0x7FFFFFFFFFFFFFFF) == 0 then 0 else b

/-- set / map accumulation: XOR of the entry hashes (order independent) -/
def xorAll (hs : List UInt64) : UInt64 := hs.foldl (· ^^^ ·) 0

/-- map entries: `key_hash ^ (val_hash * prime)` -/
def pairHashes : List UInt64 → List UInt64 → List UInt64
  | k :: ks, v :: vs => (k ^^^ (v * fnvPrime)) :: pairHashes ks vs
  | _, _ => []

mutual
/-- `edn_value_hash_internal` (children are hashed without touching their caches) -/
def hashV (cfg : Cfg) : Val → UInt64
  | v@(.nil _) => fnvStep fnvOffset (UInt64.ofNat (tySeed cfg v))
  | v@(.bool _ b) => fnvStep (fnvStep fnvOffset (UInt64.ofNat (tySeed cfg v))) (if b then 1 else 0)
  | v@(.int _ i) => fnvWord (fnvStep fnvOffset (UInt64.ofNat (tySeed cfg v))) (int64Bits i)
  | v@(.bigint _ neg radix d) =>
    fnvBytes (fnvStep (fnvStep (fnvStep fnvOffset (UInt64.ofNat (tySeed cfg v))) (UInt64.ofNat radix))
      (if neg then 1 else 0)) (cleanDigits cfg d)
  | v@(.float _ b) => fnvWord (fnvStep fnvOffset (UInt64.ofNat (tySeed cfg v))) (floatHashBits b)
  | v@(.bigdec _ neg t) =>
    fnvBytes (fnvStep (fnvStep fnvOffset (UInt64.ofNat (tySeed cfg v))) (if neg then 1 else 0))
      (cleanDigits cfg t)
  | v@(.ratio _ n d) =>
    fnvWord (fnvWord (fnvStep fnvOffset (UInt64.ofNat (tySeed cfg v))) (int64Bits n)) (int64Bits d)
  | v@(.bigratio _ neg n d) =>
    fnvBytes (fnvByte (fnvBytes (fnvStep (fnvStep fnvOffset (UInt64.ofNat (tySeed cfg v)))
      (if neg then 1 else 0)) n) 0x2F) d
  | v@(.char _ cp) => fnvStep (fnvStep fnvOffset (UInt64.ofNat (tySeed cfg v))) (UInt64.ofNat cp)
  | v@(.str _ data esc) =>
    fnvBytes (fnvStep fnvOffset (UInt64.ofNat (tySeed cfg v))) (stringContent cfg data esc).2
  | v@(.sym _ _ ns name) =>
    fnvBytes (fnvBytes (fnvStep fnvOffset (UInt64.ofNat (tySeed cfg v))) (ns.getD [])) name
  | v@(.kw _ ns name) =>
    fnvBytes (fnvBytes (fnvStep fnvOffset (UInt64.ofNat (tySeed cfg v))) (ns.getD [])) name
  | .list _ _ xs => (hashList cfg xs).foldl fnvStep (fnvStep fnvOffset (UInt64.ofNat (Tables.tyList cfg.clj cfg.exp)))
  | .vec _ _ xs => (hashList cfg xs).foldl fnvStep (fnvStep fnvOffset (UInt64.ofNat (Tables.tyList cfg.clj cfg.exp)))
  | .set _ _ xs =>
    fnvStep (fnvStep fnvOffset (UInt64.ofNat (Tables.tySet cfg.clj cfg.exp))) (xorAll (hashList cfg xs))
  | .map _ _ ks vs =>
    fnvStep (fnvStep fnvOffset (UInt64.ofNat (Tables.tyMap cfg.clj cfg.exp))) (xorAll (pairHashes (hashList cfg ks) (hashList cfg vs)))
  | .tagged _ _ tag v =>
    fnvStep (fnvBytes (fnvStep fnvOffset (UInt64.ofNat (Tables.tyTagged cfg.clj cfg.exp))) tag) (hashV cfg v)
  | v@(.ext _ tid data) =>
    fnvWord (fnvStep (fnvStep fnvOffset (UInt64.ofNat (tySeed cfg v))) (UInt64.ofNat tid)) (UInt64.ofNat data)
/-- the internal hashes of the elements, in order -/
def hashList (cfg : Cfg) : List Val → List UInt64
  | [] => []
  | x :: xs => hashV cfg x :: hashList cfg xs
end

/-- value stored in the cache cell: 0 is reserved for "not computed" -/
def cacheOf (h : UInt64) : UInt64 := if h == 0 then 1 else h

/-- `edn_value_hash`: returns the hash and the value with its cache filled -/
def hashOp (cfg : Cfg) (v : Val) : UInt64 × Val :=
  let h := v.hdr
  if h.hc != 0 then (h.hc, v)
  else
    let c := cacheOf (hashV cfg v)
    (c, v.setHdr { h with hc := c })

/-- same dynamic type, or both sequences -/
def kindCompatible : Val → Val → Bool
  | .nil .., .nil .. | .bool .., .bool .. | .int .., .int .. | .bigint .., .bigint ..
  | .float .., .float .. | .bigdec .., .bigdec .. | .ratio .., .ratio .. | .bigratio .., .bigratio ..
  | .char .., .char .. | .str .., .str .. | .sym .., .sym .. | .kw .., .kw ..
  | .list .., .list .. | .list .., .vec .. | .vec .., .list .. | .vec .., .vec ..
  | .map .., .map .. | .set .., .set .. | .tagged .., .tagged .. | .ext .., .ext .. => true
  | _, _ => false

def floatEq (a b : UInt64) : Bool :=
  if isNaNBits a && isNaNBits b then true
  else if isNaNBits a || isNaNBits b then false
  else if (a &&& 0x7FFFFFFFFFFFFFFF) == 0 && (b &&& 0x7FFFFFFFFFFFFFFF) == 0 then true
  else a == b

/-- element-wise comparison of two sequences of the same length -/
def allZip (p : Val → Val → Bool) : List Val → List Val → Bool
  | [], [] => true
  | x :: xs, y :: ys => p x y && allZip p xs ys
  | _, _ => false

/-- first entry of `b` whose key is equal to `k` -/
def findKey (p : Val → Val → Bool) (k : Val) : List Val → List Val → Option Val
  | k' :: ks, v' :: vs => if p k k' then some v' else findKey p k ks vs
  | _, _ => none

/-- `edn_value_equal_internal`; `fuel = MAX_RECURSION_DEPTH + 1 - depth` -/
def equalF (cfg : Cfg) : Nat → Val → Val → Bool
  | 0, _, _ => false
  | f + 1, a, b =>
    if !kindCompatible a b then false
    else if a.hdr.hc != 0 && b.hdr.hc != 0 && a.hdr.hc != b.hdr.hc then false
    else match a, b with
      | .nil _, .nil _ => true
      | .bool _ x, .bool _ y => x == y
      | .int _ x, .int _ y => x == y
      | .bigint _ n r d, .bigint _ n' r' d' =>
        r == r' && n == n' && cleanDigits cfg d == cleanDigits cfg d'
      | .float _ x, .float _ y => floatEq x y
      | .bigdec _ n t, .bigdec _ n' t' => n == n' && cleanDigits cfg t == cleanDigits cfg t'
      | .ratio _ n d, .ratio _ n' d' => n == n' && d == d'
      | .bigratio _ g n d, .bigratio _ g' n' d' => g == g' && n == n' && d == d'
      | .char _ x, .char _ y => x == y
      | .str _ d e, .str _ d' e' => stringContent cfg d e == stringContent cfg d' e'
      | .sym _ _ ns nm, .sym _ _ ns' nm' => (ns.getD []) == (ns'.getD []) && nm == nm'
      | .kw _ ns nm, .kw _ ns' nm' => (ns.getD []) == (ns'.getD []) && nm == nm'
      | .list _ _ xs, .list _ _ ys | .list _ _ xs, .vec _ _ ys
      | .vec _ _ xs, .list _ _ ys | .vec _ _ xs, .vec _ _ ys =>
        xs.length == ys.length && allZip (equalF cfg f) xs ys
      | .set _ _ xs, .set _ _ ys =>
        xs.length == ys.length && xs.all fun x => ys.any fun y => equalF cfg f x y
      | .map _ _ ks vs, .map _ _ ks' vs' =>
        ks.length == ks'.length &&
          allZip (fun k v => match findKey (equalF cfg f) k ks' vs' with
                             | some v' => equalF cfg f v v'
                             | none => false) ks vs
      | .tagged _ _ t v, .tagged _ _ t' v' => t == t' && equalF cfg f v v'
      | .ext _ t d, .ext _ t' d' => t == t' && d == d'
      | _, _ => false

def maxDepthFuel : Nat := Tables.maxRecursionDepth + 1

/-- `edn_value_equal` -/
def equal (cfg : Cfg) (a b : Val) : Bool := equalF cfg maxDepthFuel a b

/-! ## Duplicate detection -/

/-- `edn_has_duplicates_linear` -/
def hasDupLinear (cfg : Cfg) : List Val → Bool
  | [] => false
  | x :: xs => xs.any (fun y => equal cfg x y) || hasDupLinear cfg xs

/-- pairs restricted to equal cached hashes: the sorted and the hash-table strategies -/
def hasDupHashed (cfg : Cfg) : List Val → Bool
  | [] => false
  | x :: xs => xs.any (fun y => x.hdr.hc == y.hdr.hc && equal cfg x y) || hasDupHashed cfg xs

/-- `edn_has_duplicates`: verdict and the elements with the caches the check filled in -/
def hasDuplicates (cfg : Cfg) (xs : List Val) : Bool × List Val :=
  if xs.length ≤ 1 then (false, xs)
  else if xs.length ≤ Tables.linearThreshold then (hasDupLinear cfg xs, xs)
  else
    let ys := xs.map fun x => (hashOp cfg x).2
    (hasDupHashed cfg ys, ys)

/-! ## Lookup -/

/-- `edn_map_lookup` compares `keys[i]` (first argument) with the probe -/
def mapLookup (cfg : Cfg) (m key : Val) : Option Val :=
  match m with
  | .map _ _ ks vs =>
    let rec go : List Val → List Val → Option Val
      | k :: ks, v :: vs => if equal cfg k key then some v else go ks vs
      | _, _ => none
    go ks vs
  | _ => none

def setContains (cfg : Cfg) (s x : Val) : Bool :=
  match s with
  | .set _ _ xs => xs.any fun e => equal cfg e x
  | _ => false

/-- temporary keys built by the convenience helpers (cache 0, no arena) -/
def tempKeyword (ns : Option Bytes) (name : Bytes) : Val := .kw (mkHdr (0) (0)) ns name
def tempString (text : Bytes) : Val := .str (mkHdr (0) (0)) text false

end Edn.Model
