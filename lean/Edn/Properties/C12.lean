/-
  Property C12 — accelerated scanning equals byte-at-a-time scanning at every offset and
  length.  Headline statements only; proofs are in Edn.Proofs.Scan / ReaderBasic.

  The *block* forms (`skipWs`, `findQuote`, `scanDigits`, `scanIdent`, `lfPositions`) follow
  the x86-64 SSE code of src/simd.c, src/identifier.c, src/newline_finder.c; the *scalar*
  forms are plain structural recursions over the bytes.  The model receives exactly the
  `length` bytes of the input, so "the result never depends on the bytes that follow in
  memory" holds of the model by construction; the correspondence run varies those bytes on
  the real code.
-/
import Edn.Proofs.ReaderBasic

namespace Edn.Properties.C12
open Edn.Model Edn.Proofs

/-- whitespace and comment skipping -/
theorem skip_whitespace (s : Bytes) : skipWs s = skipWsScalar s := skipWs_eq s

/-- closing-quote position and escape flag -/
theorem find_quote (s : Bytes) : findQuote s = findQuoteScalar false s := findQuote_eq s

/-- digit runs -/
theorem scan_digits (s : Bytes) : scanDigits s = s.dropWhile isDigit := scanDigits_eq s

/-- identifier end, first slash and `::` detection: the two paths of `scan_identifier`
    (at most 16 bytes remaining / more) agree with the byte-at-a-time scan -/
theorem scan_identifier (s : Bytes) : scanIdent s = scanIdentSpec s := scanIdent_eq_spec s

/-- line-feed index -/
theorem line_feeds (s : Bytes) : lfPositions s = lfPositionsScalar 0 s := lfPositions_eq s

/-- facts about the tables and lane predicates extracted from the current source: a lane
    accepted by the SSE whitespace test is whitespace for the scalar code (and is not `;`),
    the SSE digit test is the scalar digit test, the dispatcher's pre-filter is the scanner's
    class plus `;`, and whitespace terminates numbers and identifiers -/
theorem lane_tables :
    (∀ c, wsLane c = true → isWs c = true ∧ (c == 0x3B) = false) ∧
    (∀ c, digitLane c = isDigit c) ∧
    (∀ c, isPreWs c = (isWs c || c == 0x3B)) ∧
    (∀ c, (isWs c || c == 0x3B) = true → isNumTerm c = true ∧ isDelim c = true) := by
  refine ⟨fun c h => wsLane_isWs h, digitLane_isDigit, isPreWs_iff, ?_⟩
  intro c h
  have := ws_terminates c
  simp only [wsTerminates, h, Bool.not_true, Bool.false_or, Bool.and_eq_true] at this
  exact this

/-- prefixing a form with k blanks does not change what the reader returns (positions are
    kept relative to the end of the input, so absolute offsets shift by exactly k) -/
theorem blank_prefix (ctx : Ctx) (f d : Nat) (dm : Bool) (k : Nat) (s : Bytes) (cl : List Call) :
    readValue ctx (f + 1) d dm { rest := List.replicate k 0x20 ++ s, calls := cl }
      = readValue ctx (f + 1) d dm { rest := s, calls := cl } :=
  readValue_blank_prefix ctx f d dm k s cl

/-- non-vacuity: a concrete input on which the block paths are actually taken
    (17 blanks, a comment, then a 20-digit run) -/
example : skipWs (List.replicate 17 0x20 ++ [0x3B, 0x61, 0x0A, 0x31]) = [0x31] := by decide +kernel
example : scanDigits (List.replicate 20 0x31 ++ [0x20]) = [0x20] := by decide +kernel

end Edn.Properties.C12
