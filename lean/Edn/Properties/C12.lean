/-
  Property C12 — accelerated scanning equals byte-at-a-time scanning at every offset and
  length.  Headline statements only; proofs are in Edn.Proofs.Scan / ReaderBasic.

  The *block* forms (`skipWs`, `findQuote`, `scanDigits`, `scanIdent`, `lfPositions`) follow
  the x86-64 SSE code of src/simd.c, src/identifier.c, src/newline_finder.c; the *scalar*
  forms are plain structural recursions over the bytes.  The model receives exactly the
  `length` bytes of the input, so "the result never depends on the bytes that follow in
  memory" holds of the model by construction; the correspondence run varies those bytes on
  the real code.
-/
import Edn.Proofs.ReaderBasic
import Edn.Proofs.ScanTb

namespace Edn.Properties.C12
open Edn.Model Edn.Proofs

/-- whitespace and comment skipping -/
theorem skip_whitespace (s : Bytes) : skipWs s = skipWsScalar s := skipWs_eq s

/-- closing-quote position and escape flag -/
theorem find_quote (s : Bytes) : findQuote s = findQuoteScalar false s := findQuote_eq s

/-- digit runs -/
theorem scan_digits (s : Bytes) : scanDigits s = s.dropWhile isDigit := scanDigits_eq s

/-- identifier end, first slash and `::` detection: the two paths of `scan_identifier`
    (at most 16 bytes remaining / more) agree with the byte-at-a-time scan -/
theorem scan_identifier (s : Bytes) : scanIdent s = scanIdentSpec s := scanIdent_eq_spec s

/-- line-feed index -/
theorem line_feeds (s : Bytes) : lfPositions s = lfPositionsScalar 0 s := lfPositions_eq s

/-- facts about the tables and lane predicates extracted from the current source: a lane
    accepted by the SSE whitespace test is whitespace for the scalar code (and is not `;`),
    the SSE digit test is the scalar digit test, the dispatcher's pre-filter is the scanner's
    class plus `;`, and whitespace terminates numbers and identifiers -/
theorem lane_tables :
    (∀ c, wsLane c = true → isWs c = true ∧ (c == 0x3B) = false) ∧
    (∀ c, digitLane c = isDigit c) ∧
    (∀ c, isPreWs c = (isWs c || c == 0x3B)) ∧
    (∀ c, (isWs c || c == 0x3B) = true → isNumTerm c = true ∧ isDelim c = true) := by
  refine ⟨fun c h => wsLane_isWs h, digitLane_isDigit, isPreWs_iff, ?_⟩
  intro c h
  have := ws_terminates c
  simp only [wsTerminates, h, Bool.not_true, Bool.false_or, Bool.and_eq_true] at this
  exact this

/-- prefixing a form with k blanks does not change what the reader returns (positions are
    kept relative to the end of the input, so absolute offsets shift by exactly k) -/
theorem blank_prefix (ctx : Ctx) (f d : Nat) (dm : Bool) (k : Nat) (s : Bytes) (cl : List Call) :
    readValue ctx (f + 1) d dm { rest := List.replicate k 0x20 ++ s, calls := cl }
      = readValue ctx (f + 1) d dm { rest := s, calls := cl } :=
  readValue_blank_prefix ctx f d dm k s cl

/-- non-vacuity: a concrete input on which the block paths are actually taken
    (17 blanks, a comment, then a 20-digit run) -/
example : skipWs (List.replicate 17 0x20 ++ [0x3B, 0x61, 0x0A, 0x31]) = [0x31] := by decide +kernel
example : scanDigits (List.replicate 20 0x31 ++ [0x20]) = [0x20] := by decide +kernel

/-- text-block lines (experimental extension): the line reader with its two vector pre-scans —
    `tbSkipBlankBlocks` for the indentation and `tbSkipBlocks` = `simd_scan_line_content`
    (string.c, SSE variant: whole 16-byte blocks while at least 16 bytes remain, stop at the
    first block holding a line feed, a double quote or a backslash and return the position of
    that lane), run once per line before the scalar loop — returns exactly what the
    byte-at-a-time `tbLine` of the reader returns, for every input: every indentation, line
    length and position of the special bytes.  (Edn.Model.ScanTb, Edn.Proofs.ScanTb) -/
theorem text_block_line_scanner (s : Bytes) : tbLineSimd s = tbLine s := tbLineSimd_eq s

/-- the pre-scan alone: it skips only bytes that are no line feed, quote or backslash, and with
    the reader's fuel it stops only where the C loop does -/
theorem text_block_block_scan (s : Bytes) :
    (∃ pre, s = pre ++ tbSkipBlocks (s.length + 1) s ∧
      ∀ c ∈ pre, c ≠ 0x0A ∧ c ≠ 0x22 ∧ c ≠ 0x5C) ∧
    ((tbSkipBlocks (s.length + 1) s).length < 16 ∨
      ∃ d t, tbSkipBlocks (s.length + 1) s = d :: t ∧ (d = 0x0A ∨ d = 0x22 ∨ d = 0x5C)) := by
  refine ⟨?_, ?_⟩
  · obtain ⟨pre, hp, ha⟩ := tbSkipBlocks_spec (s.length + 1) s
    refine ⟨pre, hp, fun c hc => tbLane_false ?_⟩
    simpa using List.all_eq_true.mp ha c hc
  · rcases tbSkipBlocks_stop (s.length + 1) s (Nat.lt_succ_self _) with h | ⟨d, t, h, hd⟩
    · exact .inl h
    · refine .inr ⟨d, t, h, ?_⟩
      rw [tbLane_spec] at hd
      simpa [or_assoc] using hd

/-- non-vacuity: a 41-byte line (two blanks, then 38 content bytes) whose `\"""` escape starts
    in lane 15 of the second block and straddles the block boundary: the pre-scan skips one
    clean block, stops on the backslash (31 bytes into the content), and both readers return
    the same line with `needsEsc` set -/
def tbSample : Bytes :=
  [0x20, 0x20] ++ List.replicate 16 0x61 ++ List.replicate 15 0x62 ++
    [0x5C, 0x22, 0x22, 0x22, 0x63, 0x64, 0x0A, 0x7A]

example : tbSkipBlocks 39 (tbSample.drop 2) = tbSample.drop 33 ∧
    (tbSample.drop 33).head? = some 0x5C := by decide +kernel
example : tbLineSimd tbSample =
    some ({ indent := [0x20, 0x20],
            content := List.replicate 16 0x61 ++ List.replicate 15 0x62 ++
              [0x5C, 0x22, 0x22, 0x22, 0x63, 0x64],
            hasNewline := true, needsEsc := true, terminal := false }, [0x7A]) := by decide +kernel
example : tbLineSimd tbSample = tbLine tbSample := by decide +kernel
/-- both block loops taken: 17 blanks of indentation, 20 plain bytes, the closing delimiter -/
example : tbLineSimd (List.replicate 17 0x20 ++ List.replicate 20 0x61 ++ [0x22, 0x22, 0x22, 0x7A]) =
    some ({ indent := List.replicate 17 0x20, content := List.replicate 20 0x61,
            hasNewline := false, needsEsc := false, terminal := true }, [0x7A]) := by decide +kernel

end Edn.Properties.C12
