/-
  Property C11 — source ranges of values and error ranges are exact and inside the input.
  Proved for every input: the value-range half (every range of the returned tree lies inside the
  input and is non-empty, a parent encloses its children, siblings - map keys and values in
  reading order - do not overlap and appear in source order, metadata lies inside its target;
  values the reader synthesises, i.e. rewritten namespaced-map keys and merged metadata maps,
  carry no range), the re-read half (the bytes of any sub-value's range, read on their own, give
  that sub-value again), the error-range half (0 <= start <= end <= length) and the line/column half
  (line-feed index, binary search, position arithmetic).
-/
import Edn.Proofs.Lines
import Edn.Proofs.Ranges
import Edn.Proofs.ReRead

namespace Edn.Properties.C11
open Edn.Model Edn.Proofs Edn.Spec

/-- every tree `edn_read` returns (no handler registry: handlers return arbitrary values)
    satisfies the range conditions hereditarily, and its own range lies inside the input
    (remaining-length coordinates: `hdr.s` bytes were left at its start, `hdr.e` at its end) -/
theorem value_ranges (cfg : Cfg) (opts : Opts) (hreg : opts.registry = none) (input : Bytes) (v : Val)
    (h : (read cfg opts input).out = .value v) :
    RangeOK v ∧ v.hdr.s ≤ input.length ∧ v.hdr.e < v.hdr.s :=
  read_value_ranges cfg opts hreg input v h

/-- the same at every nesting level: a value spans exactly the bytes consumed for it -/
theorem value_spans_bytes_read (ctx : Ctx) (hreg : ctx.opts.registry = none) (f d : Nat) (dm : Bool) (st st' : St) (v : Val)
    (h : readValue ctx f d dm st = .ok v st') : RangeOK v ∧ SpanOf st v st' :=
  readValue_ranges ctx hreg f d dm st st' v h

/-- re-reading: for every value occurring anywhere in the returned tree (elements, keys, values,
    tagged operands, metadata entries) that has a source range, reading exactly the bytes of
    that range returns the same value again - same kinds, payloads, children and relative
    positions - up to the hash-cache cells -/
theorem reread_gives_same_subtree (cfg : Cfg) (opts : Opts) (hreg : opts.registry = none) (input : Bytes) (v w : Val)
    (h : (read cfg opts input).out = .value v) (hw : SubVal w v) (hs : w.hdr.synth = false) :
    ∃ w', (read cfg opts (sliceOf input w.hdr)).out = .value w' ∧
      eraseCache (shiftV w.hdr.e w') = eraseCache w :=
  reread_subvalue cfg opts hreg input v w h hw hs

/-- what follows a form never influences how the form itself is read -/
theorem continuation_independent (ctx : Ctx) (hreg : ctx.opts.registry = none) (f d : Nat) (dm : Bool) (tok r : Bytes) (cl cl' : List Call) (v : Val)
    (h : readValue ctx f d dm { rest := tok ++ r, calls := cl } = .ok v { rest := r, calls := cl' }) :
    ∃ v', readValue ctx f d dm { rest := tok, calls := cl } = .ok v' { rest := [], calls := cl' } ∧
      shiftV r.length v' = v :=
  readValue_cut ctx hreg f d dm tok r cl cl' v h

/-- every error range satisfies 0 <= start <= end <= length (absolute offsets), with or
    without a registry -/
theorem error_ranges (cfg : Cfg) (opts : Opts) (input : Bytes) (code : Err) (es ee : Pos)
    (h : (read cfg opts input).out = .error code es ee) :
    es.offset ≤ ee.offset ∧ ee.offset ≤ input.length :=
  read_error_ranges cfg opts input code es ee h

/-- the index built by `newline_find_all` lists exactly the offsets of the line feeds … -/
theorem index_complete (s : Bytes) (p : Nat) : p ∈ lfPositions s ↔ s[p]? = some 0x0A := by
  rw [lfPositions_eq, mem_lfPositionsScalar]; simp

/-- … in strictly ascending order -/
theorem index_sorted (s : Bytes) : (lfPositions s).Pairwise (· < ·) := by
  rw [lfPositions_eq]; exact lfPositionsScalar_sorted 0 s

/-- for every input and every offset: line = 1 + number of line feeds before the offset,
    column = 1 + distance from the byte after the last of them (offset + 1 on the first line) -/
theorem line_and_column (s : Bytes) (off : Nat) :
    linePos (lfPositions s).toArray off = linePosSpec s off :=
  linePos_eq_spec s off

example : linePos (lfPositions [0x61, 0x0A, 0x62, 0x63, 0x0A, 0x64]).toArray 5 = (3, 1) := by decide +kernel

end Edn.Properties.C11
