/-
  Property C11 — source ranges of values and error ranges are exact and inside the input.
  Theorem part proved so far: the line/column half (line-feed index, binary search,
  position arithmetic) for every input and every offset.
-/
import Edn.Proofs.Lines

namespace Edn.Properties.C11
open Edn.Model Edn.Proofs

/-- the index built by `newline_find_all` lists exactly the offsets of the line feeds … -/
theorem index_complete (s : Bytes) (p : Nat) : p ∈ lfPositions s ↔ s[p]? = some 0x0A := by
  rw [lfPositions_eq, mem_lfPositionsScalar]; simp

/-- … in strictly ascending order -/
theorem index_sorted (s : Bytes) : (lfPositions s).Pairwise (· < ·) := by
  rw [lfPositions_eq]; exact lfPositionsScalar_sorted 0 s

/-- for every input and every offset: line = 1 + number of line feeds before the offset,
    column = 1 + distance from the byte after the last of them (offset + 1 on the first line) -/
theorem line_and_column (s : Bytes) (off : Nat) :
    linePos (lfPositions s).toArray off = linePosSpec s off :=
  linePos_eq_spec s off

example : linePos (lfPositions [0x61, 0x0A, 0x62, 0x63, 0x0A, 0x64]).toArray 5 = (3, 1) := by decide +kernel

end Edn.Properties.C11
