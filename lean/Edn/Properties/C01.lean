/-
  Property C01 — no out-of-bounds access or undefined behaviour on any input bytes.

  Theorem part: (a) arithmetic — every fixed-width accumulator of the number reader stays in
  range for every input, so the C code's signed arithmetic never overflows and its unsigned
  arithmetic never wraps where a wrap would matter; (b) the model reads its input only
  through total list operations on the `length` bytes it was given, so it cannot depend on
  memory outside input[0, length) — by construction; (c) every zero-copy slice stored in a
  tree lies inside the input (ranges, Edn.Proofs.Ranges).  That the C code itself touches
  nothing else is what the sanitiser / guard-page correspondence runs check (monitoring).
-/
import Edn.Proofs.NoOverflow
import Edn.Proofs.Ranges

namespace Edn.Properties.C01
open Edn.Model Edn.Proofs

/-- `int64_t mantissa` of parse_double_from_buffer stays below 10^18 < 2^63 -/
theorem float_mantissa_in_range (exp : Bool) (s : Bytes) : (accDigits exp 0 0 s).1 < 10 ^ 18 :=
  accDigits_bound exp s 0 0 (by decide)

/-- `int64_t exp_value` stays at most 10009 -/
theorem float_exponent_in_range (exp : Bool) (s : Bytes) : accExp exp 0 s ≤ 10009 :=
  accExp_bound exp s 0 (by decide)

/-- `int radix_val` stays at most 369 for every digit run, however long -/
theorem radix_prefix_in_range (s : Bytes) (h : ∀ c ∈ s, is09 c = true) : radixPrefixValue 0 s ≤ 369 :=
  radixPrefixValue_bound s 0 (by decide) h

/-- the unsigned 64-bit accumulator of parse_int64_from_buffer never exceeds the bound it is
    tested against (so it never wraps), in the SWAR tier and in both scalar tiers … -/
theorem int_accumulator_never_wraps (maxVal : Nat) (hmax : maxVal ≤ 9223372036854775808) :
    (∀ (f v : Nat) (s : Bytes), v ≤ maxVal → ∀ r rest, swarLoop maxVal f v s = some (r, rest) → r ≤ maxVal) ∧
    (∀ (exp : Bool) (s : Bytes) (v : Nat), v ≤ maxVal → ∀ r,
        scalarDigits10 exp (maxVal / 10) (maxVal % 10) v s = some r → r ≤ maxVal) :=
  ⟨swarLoop_no_wrap maxVal hmax, fun exp s v hv r hr => scalarDigits10_no_wrap exp _ _ maxVal hmax rfl rfl s v hv r hr⟩

/-- … and its result always fits a signed 64-bit integer, so the final conversion and the
    negation (also of 2^63) are defined -/
theorem int_result_in_range (cfg : Cfg) (ds : Bytes) (radix : Nat) (hr : 2 ≤ radix ∧ radix ≤ 36) (neg : Bool) (i : Int)
    (h : parseInt64 cfg ds radix neg = some i) : -9223372036854775808 ≤ i ∧ i ≤ 9223372036854775807 :=
  parseInt64_in_range cfg ds radix hr neg i h

/-- every zero-copy slice the tree refers to lies inside input[0, length): the range of the
    returned value, and hereditarily of everything in it, is inside the input -/
theorem slices_inside_input (cfg : Cfg) (opts : Opts) (hreg : opts.registry = none) (input : Bytes) (v : Val)
    (h : (read cfg opts input).out = .value v) :
    Edn.Spec.RangeOK v ∧ v.hdr.s ≤ input.length ∧ v.hdr.e < v.hdr.s :=
  read_value_ranges cfg opts hreg input v h

example : parseInt64 Cfg.core "9223372036854775808".toUTF8.toList 10 true = some (-9223372036854775808) := by decide +kernel

end Edn.Properties.C01
