/-
  Property C15 — one free releases everything; handed-out pointers stay valid until then.
  Theorem part 1: the arena allocator's bookkeeping, for every request sequence and every
  behaviour of `malloc` (`alloc_contract` … `header_aligned`).
  Theorem part 2 (second half of this file): the ledger of the allocation-aware reader model
  Edn.Model.ReaderA (`readA` = `edn_read_with_options` with its two arenas, every `malloc` /
  `calloc` / `realloc` / `free` of the library outside arena.c as an event), for EVERY fault
  oracle: at return no raw heap block is live (`no_raw_block_survives_a_read`), the event trace
  is well formed — nothing is freed twice, nothing is freed that was not obtained, `realloc` only
  touches live blocks, each arena is destroyed at most once (`no_double_free` and the lemmas that
  spell it out) — and the parser's arena is owned by the returned value or destroyed
  (`arena_owned_or_destroyed`); the accessors that materialise payloads lazily use the arena only
  (`accessors_use_the_arena_only`).  The model is tied to the C code by the `H` correspondence
  stream of `./check C16` / `./check C15` (event traces compared for every request index of every
  corpus document, failed alone and from there on).
-/
import Edn.Proofs.Arena
import Edn.Proofs.AllocLedger
import Edn.Proofs.AllocLedgerSound2

namespace Edn.Properties.C15
open Edn.Model Edn.Proofs Edn.Generated

/-- One request: the arena keeps its invariant; a NULL result changes nothing; a non-NULL
    region is 8-aligned (offset within the 8-aligned data area), at least as large as
    requested, inside its block, and disjoint from every region handed out before; no
    earlier block is moved or shrunk. -/
theorem alloc_contract (m : Nat → Bool) (a : Arena) (n : Nat) (hinv : Inv a) :
    Inv (a.alloc m n).2 ∧ Extends a (a.alloc m n).2 ∧
    ((a.alloc m n).1 = none → (a.alloc m n).2 = a) ∧
    (∀ g, (a.alloc m n).1 = some g →
        g.off % 8 = 0 ∧ n ≤ g.len ∧ RegionIn (a.alloc m n).2 g ∧
        (∃ b, (a.alloc m n).2.blocks[g.blk]? = some b ∧ g.off + g.len ≤ b.cap) ∧
        ∀ s, RegionIn a s → Disjoint s g) :=
  alloc_spec m a n hinv

/-- Every reachable state (induction over the request sequence): all regions handed out so
    far are aligned, large enough, inside their blocks, pairwise disjoint, and still where
    they were. -/
theorem regions_valid (m : Nat → Bool) (ns : List Nat) :
    let (rs, a') := Arena.run m Arena.create ns
    Inv a' ∧
    (∀ r ∈ regionsOf rs, RegionIn a' r) ∧
    (regionsOf rs).Pairwise Disjoint ∧
    (∀ r ∈ regionsOf rs, r.off % 8 = 0) ∧
    (∀ i (_ : i < ns.length) g, rs[i]? = some (some g) → ns[i] ≤ g.len) := by
  have := run_spec m ns Arena.create [] create_inv (by simp) (by simp)
  generalize Arena.run m Arena.create ns = res at this
  obtain ⟨rs, a'⟩ := res
  simp only [List.nil_append] at this
  exact ⟨this.1, this.2.2.1, this.2.2.2.1, this.2.2.2.2.1, this.2.2.2.2.2.2⟩

/-- Requests whose rounded size (plus the block header) would wrap around a `size_t`
    return NULL and leave the arena untouched; all other sizes round without wrapping. -/
theorem oversize_is_null (m : Nat → Bool) (a : Arena) (n : Nat)
    (h : n > sizeMax - 7 - Tables.sizeofArenaBlock) : a.alloc m n = (none, a) :=
  alloc_fail m a n (Or.inl h)

theorem rounding_never_wraps (n : Nat) (h : ¬ n > sizeMax - 7 - Tables.sizeofArenaBlock) :
    n ≤ roundUp8 n ∧ roundUp8 n + Tables.sizeofArenaBlock ≤ sizeMax :=
  ⟨roundUp8_ge n, no_wrap n h⟩

/-- the block header keeps the data area 8-aligned when `malloc` returns 8-aligned memory -/
theorem header_aligned : Tables.sizeofArenaBlock % 8 = 0 := by decide

/-- non-vacuity: a run that exercises the fast path, the slow path and a refused request -/
example : (Arena.run (fun n => n ≤ 2 ^ 40) Arena.create [8, 20000, sizeMax - 2, 1]).1 =
    [some ⟨0, 0, 8⟩, some ⟨1, 0, 20000⟩, none, some ⟨1, 20000, 8⟩] := by decide +kernel

/-! ## The reader's ledger (Edn.Model.ReaderA, every fault oracle) -/

section Ledger
open Edn.Proofs.AllocLedger

/-- Nothing leaks.  Whatever requests fail (any oracle `orc`, any growth rule of the builders, any
    preset handlers that allocate, any order in which `qsort` meets the elements), when
    `edn_read_with_options` returns no raw heap block of the library is live: the heap copy of a
    long float literal, the line records and the (reallocated) pointer array of a text block, the
    scratch copy and the hash table of the duplicate check and a half-built arena record have all
    been freed — on the success path, on every error path and when the caller's end-of-input value
    is returned.  The temporary arena of the error-position code never existed or is destroyed. -/
theorem no_raw_block_survives_a_read (cfg : Cfg) (opts : Opts) (orc : Nat → Bool) (input : Bytes)
    (grow : Nat → Nat) (handlerReq : String → Bool) (sortTouch : Nat → List Nat) :
    (readA cfg opts orc input grow handlerReq sortTouch).ast.live = [] ∧
    ((readA cfg opts orc input grow handlerReq sortTouch).ast.tmp = .none ∨
     (readA cfg opts orc input grow handlerReq sortTouch).ast.tmp = .destroyed) :=
  ⟨(readA_ledger cfg opts orc input grow handlerReq sortTouch).1, (readA_ledger cfg opts orc input grow handlerReq sortTouch).2.1⟩

/-- … and inside the read: every reader function (here `edn_read_value`; the five others in
    `Edn.Proofs.AllocLedger.reader_live_preserved`) returns with exactly the live raw blocks it was
    called with and does not touch the arenas' life states, with any fuel, under any oracle. -/
theorem reader_returns_its_raw_blocks (x : ACtx) (f d : Nat) (dm : Bool) (st : St) (a : ASt) :
    (readValueA x f d dm st a).2.live = a.live ∧ (readValueA x f d dm st a).2.arena = a.arena ∧
    (readValueA x f d dm st a).2.tmp = a.tmp :=
  (reader_live_preserved x f).1 d dm st a

/-- Nothing is freed twice.  The event trace of a whole read is well formed (`TraceOK`: a checker
    that keeps the ledger of live blocks and existing arenas reads it from the first event to the
    last without getting stuck) under any oracle.  What that means on the positions of a trace is
    spelled out by the next five theorems. -/
theorem no_double_free (cfg : Cfg) (opts : Opts) (orc : Nat → Bool) (input : Bytes)
    (grow : Nat → Nat) (handlerReq : String → Bool) (sortTouch : Nat → List Nat) :
    TraceOK (readA cfg opts orc input grow handlerReq sortTouch).ast.trace.reverse :=
  (readA_ledger cfg opts orc input grow handlerReq sortTouch).2.2.1.traceOK

/-- Nothing is leaked, read off the trace alone (the trace is what the correspondence run compares
    with the C code): every block that a granted `malloc`, `calloc` or `realloc` returned during
    the read has been freed by a later `free`, or handed to a granted `realloc` (whose result is
    accounted for in turn) — under any oracle, on every path. -/
theorem every_block_is_released (cfg : Cfg) (opts : Opts) (orc : Nat → Bool) (input : Bytes)
    (grow : Nat → Nat) (handlerReq : String → Bool) (sortTouch : Nat → List Nat) (k : ReqKind) (i o : Nat)
    (hk : k = .malloc ∨ k = .calloc ∨ k = .realloc)
    (hm : Ev.req k i false o ∈ (readA cfg opts orc input grow handlerReq sortTouch).ast.trace) :
    Ev.free i ∈ (readA cfg opts orc input grow handlerReq sortTouch).ast.trace ∨
    ∃ n, Ev.req .realloc n false i ∈ (readA cfg opts orc input grow handlerReq sortTouch).ast.trace := by
  obtain ⟨hl, _, hs, _⟩ := readA_ledger cfg opts orc input grow handlerReq sortTouch
  have := all_released (L := led (readA cfg opts orc input grow handlerReq sortTouch).ast) hs hl k i o hk
    (List.mem_reverse.mpr hm)
  simpa using this

/-- in a well-formed trace a `free` is of a block that a granted `malloc` / `calloc` / `realloc` /
    arena-creation request has returned earlier … -/
theorem wellformed_free_was_obtained {t1 t2 : List Ev} {id : Nat} (h : TraceOK (t1 ++ .free id :: t2)) :
    ∃ k old, rawKind k ∧ Ev.req k id false old ∈ t1 :=
  free_has_request h

/-- … there is no second `free` of it, before or after … -/
theorem wellformed_free_once {t1 t2 : List Ev} {id : Nat} (h : TraceOK (t1 ++ .free id :: t2)) :
    Ev.free id ∉ t1 ∧ Ev.free id ∉ t2 :=
  free_once h

/-- … and it is not a block that `realloc` has taken away, nor is it handed to `realloc` later -/
theorem wellformed_free_not_reallocated {t1 t2 : List Ev} {id : Nat} (h : TraceOK (t1 ++ .free id :: t2)) :
    (∀ n, Ev.req .realloc n false id ∉ t1) ∧ (∀ n f, Ev.req .realloc n f id ∉ t2) :=
  free_not_after_realloc h

/-- `realloc`, granted or refused, is applied to a live block only; a granted one takes the old
    block away for good -/
theorem wellformed_realloc {t1 t2 : List Ev} {n old : Nat} {failed : Bool}
    (h : TraceOK (t1 ++ .req .realloc n failed old :: t2)) :
    ((∃ k o, rawKind k ∧ Ev.req k old false o ∈ t1) ∧ Ev.free old ∉ t1 ∧ ∀ m, Ev.req .realloc m false old ∉ t1) ∧
    (failed = false → Ev.free old ∉ t2 ∧ ∀ m f, Ev.req .realloc m f old ∉ t2) :=
  ⟨realloc_of_live h, fun hf => by subst hf; exact realloc_takes_away h⟩

/-- each of the two arenas is destroyed at most once -/
theorem wellformed_destroy_once {t1 t2 : List Ev} {b : Bool} (h : TraceOK (t1 ++ .destroy b :: t2)) :
    Ev.destroy b ∉ t1 ∧ Ev.destroy b ∉ t2 := by
  refine ⟨destroy_once h, fun hm => ?_⟩
  obtain ⟨u, w, rfl⟩ := List.append_of_mem hm
  have h' : TraceOK ((t1 ++ .destroy b :: u) ++ .destroy b :: w) := by simpa using h
  exact destroy_once h' (List.mem_append_right _ List.mem_cons_self)

/-- The parser's arena is owned or destroyed.  A value is returned only if the arena was created
    (requests 1 and 2 granted), and then the arena is alive at return: it belongs to the value, and
    the single `edn_free` of the root releases it with everything the read allocated in it (every
    value of the model, `nil` / `true` / `false` included, lives in the arena, as in the C code of
    this tree, which has no singleton values).  With an error or the caller's end-of-input value
    the arena has been destroyed before returning (or never existed).  `Outcome.fuelOut` is the
    model's artefact that cannot occur (Edn.Properties.C16). -/
theorem arena_owned_or_destroyed (cfg : Cfg) (opts : Opts) (orc : Nat → Bool) (input : Bytes)
    (grow : Nat → Nat) (handlerReq : String → Bool) (sortTouch : Nat → List Nat) :
    match (readA cfg opts orc input grow handlerReq sortTouch).out with
    | .value _ => arenaCreated orc = true ∧ (readA cfg opts orc input grow handlerReq sortTouch).ast.arena = .alive
    | .eofValue => (readA cfg opts orc input grow handlerReq sortTouch).ast.arena = (if arenaCreated orc then .destroyed else .none)
    | .error _ _ _ => (readA cfg opts orc input grow handlerReq sortTouch).ast.arena = (if arenaCreated orc then .destroyed else .none)
    | .fuelOut => (readA cfg opts orc input grow handlerReq sortTouch).ast.arena = (if arenaCreated orc then .alive else .none) :=
  (readA_ledger cfg opts orc input grow handlerReq sortTouch).2.2.2

/-- the arena is alive at return exactly when a value is returned (the hypothesis is discharged
    by `Edn.Properties.C16`: the fuel never runs out) -/
theorem arena_alive_iff_value (cfg : Cfg) (opts : Opts) (orc : Nat → Bool) (input : Bytes)
    (grow : Nat → Nat) (handlerReq : String → Bool) (sortTouch : Nat → List Nat)
    (hfo : (readA cfg opts orc input grow handlerReq sortTouch).out ≠ .fuelOut) :
    (readA cfg opts orc input grow handlerReq sortTouch).ast.arena = .alive ↔
      ∃ v, (readA cfg opts orc input grow handlerReq sortTouch).out = .value v := by
  have h := arena_owned_or_destroyed cfg opts orc input grow handlerReq sortTouch
  generalize readA cfg opts orc input grow handlerReq sortTouch = r at h hfo
  rcases r with ⟨out, calls, ast⟩
  cases out with
  | value v => exact ⟨fun _ => ⟨v, rfl⟩, fun _ => h.2⟩
  | eofValue =>
    refine ⟨fun ha => ?_, fun ⟨v, hv⟩ => by cases hv⟩
    have h : ast.arena = _ := h
    rw [h] at ha
    cases hc : arenaCreated orc <;> rw [hc] at ha <;> cases ha
  | error c es ee =>
    refine ⟨fun ha => ?_, fun ⟨v, hv⟩ => by cases hv⟩
    have h : ast.arena = _ := h
    rw [h] at ha
    cases hc : arenaCreated orc <;> rw [hc] at ha <;> cases ha
  | fuelOut => exact (hfo rfl).elim

/-- The accessors called after the read (`edn_string_get`, `edn_bigint_get`, `edn_bigdec_get`)
    make no raw request and free nothing (live blocks, arenas and the well-formedness of the trace
    are kept), make at most one request on the arena, and return what they return when memory is
    not an issue — or NULL after their one request was refused, leaving everything else as it
    was. -/
theorem accessors_use_the_arena_only (x : ACtx) (v : Val) (a : ASt) :
    ((materialiseA x v a).2.live = a.live ∧ (materialiseA x v a).2.arena = a.arena ∧
      (Sync a → Sync (materialiseA x v a).2)) ∧
    ((materialiseA x v a).2.reqs = a.reqs ∨ (materialiseA x v a).2.reqs = a.reqs + 1) ∧
    ((materialiseA x v a).1 = accessPure x.ctx.cfg v ∨
     ((materialiseA x v a).1 = none ∧ (a.request x.orc .arena).1 = false ∧
      (materialiseA x v a).2 = (a.request x.orc .arena).2)) :=
  let h := materialiseA_ledger x v a
  ⟨⟨h.1.live, h.1.arena, h.1.sync⟩, h.2⟩

/-! ### Examples (experimental build: a text block of 17 lines; the pointer array holds 16) -/

/-- `"""`, 17 lines `a`, closing `"""` -/
def tbDoc : Bytes := ("\"\"\"\n" ++ String.join (List.replicate 17 "a\n") ++ "  \"\"\"").toUTF8.toList

def cfgExp : Cfg := { clj := false, exp := true }

/-- no failure: arena (`nn`), pointer array and 16 line records (`m`), `realloc` of block 3 (`r3`),
    the 17th record, the text (`a`), the clean-up (`f…`, the new array 20 last), the value (`a`) -/
example : (readA cfgExp {} (fun _ => false) tbDoc).ast.renderTrace =
    "nnmmmmmmmmmmmmmmmmmr3mmaf4f5f6f7f8f9f10f11f12f13f14f15f16f17f18f19f21f22f20a" := by decide +kernel

example : (match (readA cfgExp {} (fun _ => false) tbDoc).out with | .value (.str _ _ _) => true | _ => false) = true ∧
    (readA cfgExp {} (fun _ => false) tbDoc).ast.live = [] ∧
    (readA cfgExp {} (fun _ => false) tbDoc).ast.arena = .alive := by decide +kernel

/-- the `realloc` (request 20) fails: the 16 records and the OLD array 3 are freed, the error
    positions are computed with a temporary arena (`nntt`, `d1`), the parser's arena is destroyed
    (`d0`); nothing is live, the outcome is OUT_OF_MEMORY -/
example : (readA cfgExp {} (fun n => n == 20) tbDoc).ast.renderTrace =
    "nnmmmmmmmmmmmmmmmmmR3f4f5f6f7f8f9f10f11f12f13f14f15f16f17f18f19f3nnttd1d0" := by decide +kernel

example : (match (readA cfgExp {} (fun n => n == 20) tbDoc).out with | .error .outOfMemory _ _ => true | _ => false) = true ∧
    (readA cfgExp {} (fun n => n == 20) tbDoc).ast.live = [] ∧
    (readA cfgExp {} (fun n => n == 20) tbDoc).ast.arena = .destroyed ∧
    (readA cfgExp {} (fun n => n == 20) tbDoc).ast.tmp = .destroyed ∧
    TraceOK (readA cfgExp {} (fun n => n == 20) tbDoc).ast.trace.reverse := by decide +kernel

/-- the hypotheses of the `wellformed_…` theorems on that trace: block 3 is obtained, handed to the
    refused `realloc` and freed afterwards -/
example : ((readA cfgExp {} (fun n => n == 20) tbDoc).ast.trace.contains (.req .malloc 3 false 0) &&
    (readA cfgExp {} (fun n => n == 20) tbDoc).ast.trace.contains (.req .realloc 20 true 3) &&
    (readA cfgExp {} (fun n => n == 20) tbDoc).ast.trace.contains (.free 3)) = true := by decide +kernel

/-- every request from the 21st on fails (the 17th line record is refused): the new array 20 is freed -/
example : (readA cfgExp {} (fun n => n ≥ 21) tbDoc).ast.renderTrace =
    "nnmmmmmmmmmmmmmmmmmr3Mf4f5f6f7f8f9f10f11f12f13f14f15f16f17f18f19f20Nd0" := by decide +kernel

/-- the checker does reject ill-formed traces: a double free, a free of a block never obtained, a
    `realloc` of a freed block, a second destruction, an arena request granted without an arena -/
example : ¬ TraceOK [.req .malloc 1 false 0, .free 1, .free 1] ∧ ¬ TraceOK [.free 1] ∧
    ¬ TraceOK [.req .malloc 1 false 0, .free 1, .req .realloc 2 false 1] ∧
    ¬ TraceOK [.req .arenaNew 1 false 0, .req .arenaNew 2 false 0, .destroy false, .destroy false] ∧
    ¬ TraceOK [.req .arena 1 false 0] ∧
    TraceOK [.req .arenaNew 1 false 0, .req .arenaNew 2 true 0, .free 1] := by decide +kernel

/-- a string with an escape, accessed with the request refused and then granted -/
example :
    let x : ACtx := { ctx := { cfg := Cfg.core, opts := {} }, orc := fun n => n == 1 }
    let v : Val := .str (mkHdr 4 0) [0x61, 0x5C, 0x6E] true
    let a : ASt := { arena := .alive }
    (materialiseA x v a).1 = none ∧ (materialiseA x v (materialiseA x v a).2).1 = some [0x61, 0x0A] := by
  decide +kernel

end Ledger

end Edn.Properties.C15
