/-
  Property C15 — one free releases everything; handed-out pointers stay valid until then.
  Theorem part: the arena allocator's bookkeeping, for every request sequence and every
  behaviour of `malloc`.  (That each reader path returns its raw blocks is checked by the
  allocation ledger of the correspondence run; see DESIGN.md.)
-/
import Edn.Proofs.Arena

namespace Edn.Properties.C15
open Edn.Model Edn.Proofs Edn.Generated

/-- One request: the arena keeps its invariant; a NULL result changes nothing; a non-NULL
    region is 8-aligned (offset within the 8-aligned data area), at least as large as
    requested, inside its block, and disjoint from every region handed out before; no
    earlier block is moved or shrunk. -/
theorem alloc_contract (m : Nat → Bool) (a : Arena) (n : Nat) (hinv : Inv a) :
    Inv (a.alloc m n).2 ∧ Extends a (a.alloc m n).2 ∧
    ((a.alloc m n).1 = none → (a.alloc m n).2 = a) ∧
    (∀ g, (a.alloc m n).1 = some g →
        g.off % 8 = 0 ∧ n ≤ g.len ∧ RegionIn (a.alloc m n).2 g ∧
        (∃ b, (a.alloc m n).2.blocks[g.blk]? = some b ∧ g.off + g.len ≤ b.cap) ∧
        ∀ s, RegionIn a s → Disjoint s g) :=
  alloc_spec m a n hinv

/-- Every reachable state (induction over the request sequence): all regions handed out so
    far are aligned, large enough, inside their blocks, pairwise disjoint, and still where
    they were. -/
theorem regions_valid (m : Nat → Bool) (ns : List Nat) :
    let (rs, a') := Arena.run m Arena.create ns
    Inv a' ∧
    (∀ r ∈ regionsOf rs, RegionIn a' r) ∧
    (regionsOf rs).Pairwise Disjoint ∧
    (∀ r ∈ regionsOf rs, r.off % 8 = 0) ∧
    (∀ i (_ : i < ns.length) g, rs[i]? = some (some g) → ns[i] ≤ g.len) := by
  have := run_spec m ns Arena.create [] create_inv (by simp) (by simp)
  generalize Arena.run m Arena.create ns = res at this
  obtain ⟨rs, a'⟩ := res
  simp only [List.nil_append] at this
  exact ⟨this.1, this.2.2.1, this.2.2.2.1, this.2.2.2.2.1, this.2.2.2.2.2.2⟩

/-- Requests whose rounded size (plus the block header) would wrap around a `size_t`
    return NULL and leave the arena untouched; all other sizes round without wrapping. -/
theorem oversize_is_null (m : Nat → Bool) (a : Arena) (n : Nat)
    (h : n > sizeMax - 7 - Tables.sizeofArenaBlock) : a.alloc m n = (none, a) :=
  alloc_fail m a n (Or.inl h)

theorem rounding_never_wraps (n : Nat) (h : ¬ n > sizeMax - 7 - Tables.sizeofArenaBlock) :
    n ≤ roundUp8 n ∧ roundUp8 n + Tables.sizeofArenaBlock ≤ sizeMax :=
  ⟨roundUp8_ge n, no_wrap n h⟩

/-- the block header keeps the data area 8-aligned when `malloc` returns 8-aligned memory -/
theorem header_aligned : Tables.sizeofArenaBlock % 8 = 0 := by decide

/-- non-vacuity: a run that exercises the fast path, the slow path and a refused request -/
example : (Arena.run (fun n => n ≤ 2 ^ 40) Arena.create [8, 20000, sizeMax - 2, 1]).1 =
    [some ⟨0, 0, 8⟩, some ⟨1, 0, 20000⟩, none, some ⟨1, 20000, 8⟩] := by decide +kernel

end Edn.Properties.C15
