/-
  Property C07 — equality is an equivalence consistent with hashing and free of history
  effects.  `Eqv` (Edn.Spec.Eqv) is the structural equality the property describes;
  `equal` / `hashOp` / `equalF` are the model of src/equality.c including the cached-hash
  cell and the short circuit that reads it.  Well-formedness `WF` (no two equal elements in
  a set, no two equal keys in a map) is what the reader establishes (C08).
-/
import Edn.Proofs.Equal

namespace Edn.Properties.C07
open Edn.Model Edn.Spec Edn.Proofs

/-- reflexive: a value is equal to itself / to an independently read copy (equality never
    looks at positions, caches or metadata, see `ignores_header_and_cache`) -/
theorem reflexive (cfg : Cfg) (a : Val) (ha : WF cfg a) : Eqv cfg a a := Eqv_refl cfg a ha

theorem symmetric (cfg : Cfg) (a b : Val) (ha : WF cfg a) (hb : WF cfg b) :
    Eqv cfg a b → Eqv cfg b a := Eqv_symm cfg a b ha hb

theorem transitive (cfg : Cfg) (a b c : Val) (ha : WF cfg a) (hb : WF cfg b) (hc : WF cfg c) :
    Eqv cfg a b → Eqv cfg b c → Eqv cfg a c := Eqv_trans cfg a b c ha hb hc

/-- equal values always hash equal -/
theorem equal_values_hash_equal (cfg : Cfg) (a b : Val) (ha : WF cfg a) (hb : WF cfg b) :
    Eqv cfg a b → hashV cfg a = hashV cfg b := Eqv_hash cfg a b ha hb

/-- History independence: whatever cache cells earlier hash / duplicate-check / lookup calls
    have filled (any state in which every non-empty cell holds that value's hash), the
    library's equality answers exactly `Eqv`, for all values within the nesting depth the
    reader can produce. -/
theorem equality_ignores_history (cfg : Cfg) (a b : Val)
    (hda : depth a < maxDepthFuel) (hdb : depth b < maxDepthFuel)
    (ha : WF cfg a) (hb : WF cfg b) (hca : cacheOK cfg a = true) (hcb : cacheOK cfg b = true) :
    equal cfg a b = true ↔ Eqv cfg a b := equal_iff_Eqv cfg a b hda hdb ha hb hca hcb

/-- `edn_value_hash` (the only operation that writes a cache cell) keeps every cell valid
    and changes nothing that equality, depth or hashing can see -/
theorem hashing_preserves_cache_validity (cfg : Cfg) (v : Val) (h : cacheOK cfg v = true) :
    cacheOK cfg (hashOp cfg v).2 = true ∧ depth (hashOp cfg v).2 = depth v ∧
    (WF cfg v → WF cfg (hashOp cfg v).2) ∧
    (∀ f b, eqvF cfg f (hashOp cfg v).2 b = eqvF cfg f v b) ∧
    (∀ f b, eqvF cfg f b (hashOp cfg v).2 = eqvF cfg f b v) ∧
    hashV cfg (hashOp cfg v).2 = hashV cfg v := hashOp_cacheOK cfg v h

/-- sequences compare element-wise across list and vector; NaN equals NaN; both zeros are
    equal; numbers compare only within their own type (concrete instances, by evaluation) -/
example : Eqv Cfg.core (.list (mkHdr 9 1) none [.int (mkHdr 8 7) 1, .int (mkHdr 6 5) 2])
    (.vec (mkHdr 5 0) none [.int (mkHdr 4 3) 1, .int (mkHdr 2 1) 2]) := by decide +kernel
example : Eqv Cfg.core (.float (mkHdr 1 0) 0x7FF8000000000000) (.float (mkHdr 1 0) 0xFFF8000000000001) := by decide +kernel
example : Eqv Cfg.core (.float (mkHdr 1 0) 0) (.float (mkHdr 1 0) 0x8000000000000000) := by decide +kernel
example : ¬ Eqv Cfg.core (.int (mkHdr 1 0) 1) (.float (mkHdr 1 0) 0x3FF0000000000000) := by decide +kernel
/-- the hash of the list/vector twins and of the two zeros coincide (the repaired defects) -/
example : hashV Cfg.core (.list (mkHdr 9 1) none [.int (mkHdr 8 7) 1]) = hashV Cfg.core (.vec (mkHdr 5 0) none [.int (mkHdr 4 3) 1]) := by decide +kernel

end Edn.Properties.C07
