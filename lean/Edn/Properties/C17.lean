/-
  Property C17 — reading is deterministic, reentrant and leaves the input untouched.

  In the model `read` is a mathematical function of (configuration, options, input bytes): it
  has no access to earlier reads, to addresses, to the heap or to other threads, and its input
  is an immutable value.  Determinism of the *model* is therefore by construction, and what this
  property needs from the proof side is (1) that the model's answer does not depend on the
  artefacts the model itself introduces or abstracts (recursion budget; order in which the
  duplicate check examines elements, which in C depends on qsort and addresses; which scratch
  allocations succeed; state of the hash caches; what follows or precedes a form in the buffer),
  and (2) the correspondence run, which shows every build (gcc at -O0, -O2 and -O3, clang at -O2,
  ASan+UBSan, TSan), every history, heap fill pattern, placement and thread schedule explored
  to compute this one function.  Compiler, heap and scheduler behaviour themselves cannot be
  exhibited by the model: that half is monitoring.
-/
import Edn.Proofs.Fuel
import Edn.Proofs.Equal
import Edn.Proofs.Faults
import Edn.Proofs.ReRead
import Edn.Proofs.Trivia

namespace Edn.Properties.C17
open Edn.Model Edn.Spec Edn.Proofs

/-- same bytes, same result (the model is a function; stated for the record) -/
theorem same_bytes_same_result (cfg : Cfg) (opts : Opts) (a b : Bytes) (h : a = b) :
    (read cfg opts a).out = (read cfg opts b).out ∧ (read cfg opts a).calls = (read cfg opts b).calls := by
  subst h; exact ⟨rfl, rfl⟩

/-- the answer is not an artefact of the recursion budget -/
theorem independent_of_recursion_budget (ctx : Ctx) (f f' d : Nat) (dm : Bool) (st : St)
    (h : 2 * st.rest.length + 2 ≤ f) (h' : 2 * st.rest.length + 2 ≤ f') :
    readValue ctx f d dm st = readValue ctx f' d dm st :=
  readValue_fuel_irrelevant ctx f f' d dm st h h'

/-- the duplicate verdict does not depend on the order in which elements are examined (in C:
    on how qsort arranges elements with equal hashes, i.e. on addresses) -/
theorem independent_of_examination_order (cfg : Cfg) (xs ys : List Val) (h : Elems cfg xs) (hp : xs.Perm ys) :
    (hasDuplicates cfg xs).1 = (hasDuplicates cfg ys).1 := hasDuplicates_perm cfg xs ys h hp

/-- … nor on which scratch allocations succeed -/
theorem independent_of_scratch_memory (cfg : Cfg) (callocOk mallocOk : Bool) (xs : List Val) (h : Elems cfg xs) :
    (hasDuplicatesF cfg callocOk mallocOk xs).1 = (hasDuplicates cfg xs).1 :=
  (hasDuplicatesF_verdict cfg callocOk mallocOk xs h).1

/-- equality does not depend on which hashes have been computed and cached before -/
theorem independent_of_cache_state (cfg : Cfg) (a b : Val)
    (hda : depth a < maxDepthFuel) (hdb : depth b < maxDepthFuel)
    (ha : WF cfg a) (hb : WF cfg b) (hca : cacheOK cfg a = true) (hcb : cacheOK cfg b = true) :
    equal cfg a b = true ↔ Eqv cfg a b := equal_iff_Eqv cfg a b hda hdb ha hb hca hcb

/-- a form is read the same whatever follows it in the buffer … -/
theorem independent_of_what_follows (ctx : Ctx) (hreg : ctx.opts.registry = none) (f d : Nat) (dm : Bool) (tok r : Bytes) (cl cl' : List Call) (v : Val)
    (h : readValue ctx f d dm { rest := tok ++ r, calls := cl } = .ok v { rest := r, calls := cl' }) :
    ∃ v', readValue ctx f d dm { rest := tok, calls := cl } = .ok v' { rest := [], calls := cl' } ∧
      shiftV r.length v' = v :=
  readValue_cut ctx hreg f d dm tok r cl cl' v h

/-- … and whatever blanks precede it -/
theorem independent_of_leading_blanks (ctx : Ctx) (f d : Nat) (dm : Bool) (tr s : Bytes) (cl : List Call) (h : PlainTrivia tr) :
    readValue ctx (f + 1) d dm { rest := tr ++ s, calls := cl } = readValue ctx (f + 1) d dm { rest := s, calls := cl } :=
  readValue_trivia_prefix ctx f d dm tr s cl h

end Edn.Properties.C17
