/-
  Property C20 — text blocks follow the documented indentation algorithm (experimental extension).

  The documented algorithm is `Edn.Spec.blockText`, a function of the block's *source lines*
  (indentation, body) and the position of the closing delimiter: remove the common indentation
  (minimum over lines with a body and the closing-delimiter line), strip trailing blanks, keep
  relative indentation and blank lines, unescape `\"""`, join with line feeds, final line feed
  exactly when the closing delimiter is on its own line.
-/
import Edn.Proofs.TextBlock
import Edn.Proofs.TextBlockSound

namespace Edn.Properties.C20
open Edn.Model Edn.Spec Edn.Proofs

/-- with the experimental flag, every well-formed block - any number of lines, any
    indentation by spaces and tabs, blank lines, trailing blanks, any number of escaped triple
    quotes, closing delimiter inline or on its own line at any indentation - reads as a string
    value holding exactly the bytes the documented algorithm denotes (hence with exactly that
    length), with no escape processing pending, spanning the whole literal, leaving what
    follows untouched -/
theorem block_reads_as_documented (ctx : Ctx) (hexp : ctx.cfg.exp = true) (lines : List SrcLine) (c : Closer) (rest : Bytes) (cl : List Call)
    (hl : ∀ l ∈ lines, l.WF) (hc : c.WF lines) :
    readString ctx { rest := [0x22, 0x22, 0x22, 0x0A] ++ encodeBlock lines c ++ rest, calls := cl } =
      .ok (.str (mkHdr (4 + (encodeBlock lines c).length + rest.length) rest.length) (blockText lines c) false)
        { rest := rest, calls := cl } :=
  readString_textblock ctx hexp lines c rest cl hl hc

/-- the scanner recovers the source lines: body reader = documented text + untouched rest -/
theorem scanner_recovers_lines (lines : List SrcLine) (c : Closer) (rest : Bytes)
    (hl : ∀ l ∈ lines, l.WF) (hc : c.WF lines) :
    readTextBlockBody (encodeBlock lines c ++ rest) = .ok (blockText lines c, rest) :=
  readTextBlockBody_encode lines c rest hl hc

/-- the text ends with a line feed exactly when the closing delimiter stands on its own line -/
theorem final_newline_rule (lines : List SrcLine) (c : Closer) (hne : lines ≠ [])
    (hl : ∀ l ∈ lines, l.WF) (hc : c.WF lines) :
    ((blockText lines c).getLast? = some 0x0A) ↔ (∃ ind, c = .ownLine ind) :=
  blockText_final_newline lines c hne hl hc

/-- a block is equal to, and hashes like (so collides in sets and maps with), the ordinary
    string literal spelling the same content -/
theorem block_equals_ordinary_literal (cfg : Cfg) (h h' : Hdr) (text sp : Bytes) (hs : StrContent cfg sp text) :
    Eqv cfg (.str h text false) (.str h' sp (sp.contains 0x5C)) ∧
    hashV cfg (.str h text false) = hashV cfg (.str h' sp (sp.contains 0x5C)) :=
  textblock_eq_literal cfg h h' text sp hs

/-- non-vacuity, and the case the test suite misses: first line at indentation 0 followed by an
    indented line keeps the second line's indentation -/
example : blockText [⟨[], [0x61]⟩, ⟨[0x20, 0x20], [0x62]⟩] (.ownLine []) = [0x61, 0x0A, 0x20, 0x20, 0x62, 0x0A] := by decide +kernel
example : (⟨[0x20, 0x20], [0x62]⟩ : SrcLine).WF :=
  ⟨by decide, by decide, .plain 0x62 [] (by decide) (by decide) (by decide) .nil⟩

/-! ## The converse: the block reader accepts exactly the well-formed blocks

  Well-formedness of the closing delimiter is `Closer.WFx` below: `Closer.WF` with one more case
  allowed (the last body may end in an escaped triple quote directly before the delimiter).
  With `Closer.WF` itself the converse is false, see `spec_closer_wf_is_narrower`. -/

/-- `Closer.WFx` is `Closer.WF` or "inline delimiter directly after a body ending in `\"""`" -/
theorem exact_closer_wf (lines : List SrcLine) (c : Closer) :
    c.WFx lines ↔ c.WF lines ∨
      (c = .inline ∧ ∃ l, lines.getLast? = some l ∧ [0x5C, 0x22, 0x22, 0x22] <:+ l.body) :=
  Closer.WFx_iff lines c

/-- `block_reads_as_documented` holds for the exact well-formedness too -/
theorem exact_block_reads_as_documented (lines : List SrcLine) (c : Closer) (rest : Bytes)
    (hl : ∀ l ∈ lines, l.WF) (hc : c.WFx lines) :
    readTextBlockBody (encodeBlock lines c ++ rest) = .ok (blockText lines c, rest) :=
  readTextBlockBody_complete lines c rest hl hc

/-- with the experimental flag, `"""⏎ body rest` is read as a string value with text `text`
    (spanning the literal, no escape processing pending), leaving exactly `rest`, if and only if
    `body` is a well-formed block and `text` is what the documented algorithm gives for it:
    the reader accepts the grammar of text blocks and nothing else -/
theorem block_reader_is_the_grammar (ctx : Ctx) (hexp : ctx.cfg.exp = true) (body rest text : Bytes) (cl : List Call) :
    readString ctx { rest := 0x22 :: 0x22 :: 0x22 :: 0x0A :: (body ++ rest), calls := cl } =
        .ok (.str (mkHdr (4 + body.length + rest.length) rest.length) text false) { rest := rest, calls := cl } ↔
      ∃ (lines : List SrcLine) (c : Closer), (∀ l ∈ lines, l.WF) ∧ c.WFx lines ∧
        body = encodeBlock lines c ∧ text = blockText lines c :=
  readString_textblock_iff ctx hexp body rest text cl

/-- the same, comparing the value by content (`strip`) -/
theorem block_reader_is_the_grammar_content (ctx : Ctx) (hexp : ctx.cfg.exp = true) (body rest text : Bytes) (cl : List Call) :
    (∃ v, readString ctx { rest := 0x22 :: 0x22 :: 0x22 :: 0x0A :: (body ++ rest), calls := cl } =
        .ok v { rest := rest, calls := cl } ∧ strip v = .str hdr0 text false) ↔
      ∃ (lines : List SrcLine) (c : Closer), (∀ l ∈ lines, l.WF) ∧ c.WFx lines ∧
        body = encodeBlock lines c ∧ text = blockText lines c :=
  readString_textblock_iff_strip ctx hexp body rest text cl

/-- whatever value the reader returns for an input starting with `"""⏎` is the string denoted by
    a well-formed block at the start of the input; the value spans that block and the reader
    stands right behind it -/
theorem accepted_block_is_well_formed (ctx : Ctx) (hexp : ctx.cfg.exp = true) (s : Bytes) (cl : List Call)
    (v : Val) (st' : St)
    (h : readString ctx { rest := 0x22 :: 0x22 :: 0x22 :: 0x0A :: s, calls := cl } = .ok v st') :
    ∃ (lines : List SrcLine) (c : Closer) (rest : Bytes), (∀ l ∈ lines, l.WF) ∧ c.WFx lines ∧
      s = encodeBlock lines c ++ rest ∧
      v = .str (mkHdr (s.length + 4) rest.length) (blockText lines c) false ∧
      st' = { rest := rest, calls := cl } :=
  readString_textblock_sound ctx hexp s cl v st' h

/-- the body reader: a result is returned exactly for a well-formed block followed by the
    returned rest -/
theorem body_reader_is_the_grammar (body text rest : Bytes) :
    readTextBlockBody body = .ok (text, rest) ↔
      ∃ (lines : List SrcLine) (c : Closer), (∀ l ∈ lines, l.WF) ∧ c.WFx lines ∧
        body = encodeBlock lines c ++ rest ∧ text = blockText lines c :=
  readTextBlockBody_iff body text rest

/-- the block at the start of an input is unique (it ends at the first triple quote that is not
    escaped): lines, closing delimiter and rest are determined by the bytes -/
theorem block_is_unique (lines lines' : List SrcLine) (c c' : Closer) (rest rest' : Bytes)
    (hl : ∀ l ∈ lines, l.WF) (hc : c.WFx lines) (hl' : ∀ l ∈ lines', l.WF) (hc' : c'.WFx lines')
    (h : encodeBlock lines c ++ rest = encodeBlock lines' c' ++ rest') :
    lines = lines' ∧ c = c' ∧ rest = rest' :=
  block_decomposition_unique lines lines' c c' rest rest' hl hc hl' hc' h

/-- if no prefix of `body` is a well-formed block, the reader rejects `"""⏎ body` with
    `invalidString`, and never reads it as something else.  Either `body` consists of complete
    well-formed lines only (the closing delimiter is missing): the error range is the literal from
    its opening quote to the end of the input, and the reader stands at the end of the input.  Or
    `body` ends inside a line `ls` (no line feed, no unescaped triple quote after the last line
    feed): the error carries no range of its own and the reader stands at the start of that line. -/
theorem ill_formed_block_is_rejected (ctx : Ctx) (hexp : ctx.cfg.exp = true) (body : Bytes) (cl : List Call)
    (h : ¬ ∃ (lines : List SrcLine) (c : Closer) (rest : Bytes), (∀ l ∈ lines, l.WF) ∧ c.WFx lines ∧
      body = encodeBlock lines c ++ rest) :
    (∃ e, readTextBlockBody body = .error e) ∧
    ((Unclosed body ∧
      readString ctx { rest := 0x22 :: 0x22 :: 0x22 :: 0x0A :: body, calls := cl } =
        .err (mkErr .invalidString (some (body.length + 4)) (some 0)) { rest := [], calls := cl }) ∨
     (∃ ls, CutLine body ls ∧
      readString ctx { rest := 0x22 :: 0x22 :: 0x22 :: 0x0A :: body, calls := cl } =
        .err (mkErr .invalidString) { rest := ls, calls := cl })) :=
  textBlock_rejected ctx hexp body cl h

/-- which error says what: "missing closing delimiter" exactly for complete lines only ... -/
theorem missing_closer_iff (body : Bytes) :
    readTextBlockBody body = .error .missingCloser ↔ Unclosed body :=
  readTextBlockBody_missingCloser_iff body

/-- ... and "end of input inside a line" exactly for complete lines followed by a cut line -/
theorem eof_in_line_iff (body ls : Bytes) :
    readTextBlockBody body = .error (.eofInLine ls) ↔ CutLine body ls :=
  readTextBlockBody_eofInLine_iff body ls

/-- the specification's `Closer.WF` is narrower than the reader: `\""""""` is read (as `"""`) but
    is not the encoding of a block well-formed in that sense -/
theorem spec_closer_wf_is_narrower :
    readTextBlockBody [0x5C, 0x22, 0x22, 0x22, 0x22, 0x22, 0x22] = .ok ([0x22, 0x22, 0x22], []) ∧
    ¬ ∃ (lines : List SrcLine) (c : Closer) (rest : Bytes), (∀ l ∈ lines, l.WF) ∧ c.WF lines ∧
      [0x5C, 0x22, 0x22, 0x22, 0x22, 0x22, 0x22] = encodeBlock lines c ++ rest :=
  closer_WF_too_narrow

/-! ### examples -/

/-- `"""⏎abc` at the end of the input is rejected (this was a defect once): end of input inside a
    line, the reader stands at the `a` -/
example (ctx : Ctx) (hexp : ctx.cfg.exp = true) (cl : List Call) :
    readString ctx { rest := [0x22, 0x22, 0x22, 0x0A, 0x61, 0x62, 0x63], calls := cl } =
      .err (mkErr .invalidString) { rest := [0x61, 0x62, 0x63], calls := cl } := by
  rw [readString_textblock_eq ctx hexp, show readTextBlockBody [0x61, 0x62, 0x63] = .error (.eofInLine [0x61, 0x62, 0x63]) by rfl]

/-- the hypothesis of `ill_formed_block_is_rejected` holds for `abc` (non-vacuity) ... -/
example : ¬ ∃ (lines : List SrcLine) (c : Closer) (rest : Bytes), (∀ l ∈ lines, l.WF) ∧ c.WFx lines ∧
    [0x61, 0x62, 0x63] = encodeBlock lines c ++ rest :=
  not_block_of_error _ (.eofInLine [0x61, 0x62, 0x63]) rfl

/-- ... and `abc` is a cut line in the sense of the grammar -/
example : CutLine [0x61, 0x62, 0x63] [0x61, 0x62, 0x63] :=
  ⟨[], by simp, rfl, by simp, by decide +kernel⟩

/-- `"""⏎abc⏎` at the end of the input: the delimiter is missing, range = the whole input -/
example (ctx : Ctx) (hexp : ctx.cfg.exp = true) (cl : List Call) :
    readString ctx { rest := [0x22, 0x22, 0x22, 0x0A, 0x61, 0x62, 0x63, 0x0A], calls := cl } =
      .err (mkErr .invalidString (some 8) (some 0)) { rest := [], calls := cl } := by
  rw [readString_textblock_eq ctx hexp, show readTextBlockBody [0x61, 0x62, 0x63, 0x0A] = .error .missingCloser by rfl]
  rfl

example : Unclosed [0x61, 0x62, 0x63, 0x0A] :=
  ⟨[⟨[], [0x61, 0x62, 0x63]⟩], by simp; decide +kernel, rfl⟩

/-- a closing delimiter preceded by `\` is an escaped triple quote, not a delimiter:
    `"""⏎ab\"""` at the end of the input is rejected ... -/
example (ctx : Ctx) (hexp : ctx.cfg.exp = true) (cl : List Call) :
    readString ctx { rest := [0x22, 0x22, 0x22, 0x0A, 0x61, 0x62, 0x5C, 0x22, 0x22, 0x22], calls := cl } =
      .err (mkErr .invalidString) { rest := [0x61, 0x62, 0x5C, 0x22, 0x22, 0x22], calls := cl } := by
  rw [readString_textblock_eq ctx hexp,
    show readTextBlockBody [0x61, 0x62, 0x5C, 0x22, 0x22, 0x22] = .error (.eofInLine [0x61, 0x62, 0x5C, 0x22, 0x22, 0x22]) by rfl]

/-- ... while `"""⏎ab\"""⏎  """ x` is the block with the line `ab\"""` and the delimiter on its own
    line: the text is `ab"""⏎` and ` x` is left -/
example (ctx : Ctx) (hexp : ctx.cfg.exp = true) (cl : List Call) :
    readString ctx { rest := 0x22 :: 0x22 :: 0x22 :: 0x0A ::
        ([0x61, 0x62, 0x5C, 0x22, 0x22, 0x22, 0x0A, 0x20, 0x20, 0x22, 0x22, 0x22] ++ [0x20, 0x78]), calls := cl } =
      .ok (.str (mkHdr (4 + 12 + 2) 2) [0x61, 0x62, 0x22, 0x22, 0x22, 0x0A] false) { rest := [0x20, 0x78], calls := cl } :=
  (block_reader_is_the_grammar ctx hexp _ _ _ cl).mpr
    ⟨[⟨[], [0x61, 0x62, 0x5C, 0x22, 0x22, 0x22]⟩], .ownLine [0x20, 0x20],
      by simp; decide +kernel, (by show ∀ c ∈ ([0x20, 0x20] : Bytes), isBlank c = true; decide), rfl,
      by decide +kernel⟩

/-- the case only `Closer.WFx` covers: `"""⏎ab\""""""` (escaped triple quote, then the delimiter) is the
    text `ab"""` -/
example (ctx : Ctx) (hexp : ctx.cfg.exp = true) (cl : List Call) :
    readString ctx { rest := 0x22 :: 0x22 :: 0x22 :: 0x0A ::
        ([0x61, 0x62, 0x5C, 0x22, 0x22, 0x22, 0x22, 0x22, 0x22] ++ []), calls := cl } =
      .ok (.str (mkHdr (4 + 9 + 0) 0) [0x61, 0x62, 0x22, 0x22, 0x22] false) { rest := [], calls := cl } :=
  (block_reader_is_the_grammar ctx hexp _ _ _ cl).mpr
    ⟨[⟨[], [0x61, 0x62, 0x5C, 0x22, 0x22, 0x22]⟩], .inline,
      by simp; decide +kernel, ⟨_, rfl, by simp, by decide⟩, rfl, by decide +kernel⟩

end Edn.Properties.C20
