/-
  Property C20 — text blocks follow the documented indentation algorithm (experimental extension).

  The documented algorithm is `Edn.Spec.blockText`, a function of the block's *source lines*
  (indentation, body) and the position of the closing delimiter: remove the common indentation
  (minimum over lines with a body and the closing-delimiter line), strip trailing blanks, keep
  relative indentation and blank lines, unescape `\"""`, join with line feeds, final line feed
  exactly when the closing delimiter is on its own line.
-/
import Edn.Proofs.TextBlock

namespace Edn.Properties.C20
open Edn.Model Edn.Spec Edn.Proofs

/-- with the experimental flag, every well-formed block - any number of lines, any
    indentation by spaces and tabs, blank lines, trailing blanks, any number of escaped triple
    quotes, closing delimiter inline or on its own line at any indentation - reads as a string
    value holding exactly the bytes the documented algorithm denotes (hence with exactly that
    length), with no escape processing pending, spanning the whole literal, leaving what
    follows untouched -/
theorem block_reads_as_documented (ctx : Ctx) (hexp : ctx.cfg.exp = true) (lines : List SrcLine) (c : Closer) (rest : Bytes) (cl : List Call)
    (hl : ∀ l ∈ lines, l.WF) (hc : c.WF lines) :
    readString ctx { rest := [0x22, 0x22, 0x22, 0x0A] ++ encodeBlock lines c ++ rest, calls := cl } =
      .ok (.str (mkHdr (4 + (encodeBlock lines c).length + rest.length) rest.length) (blockText lines c) false)
        { rest := rest, calls := cl } :=
  readString_textblock ctx hexp lines c rest cl hl hc

/-- the scanner recovers the source lines: body reader = documented text + untouched rest -/
theorem scanner_recovers_lines (lines : List SrcLine) (c : Closer) (rest : Bytes)
    (hl : ∀ l ∈ lines, l.WF) (hc : c.WF lines) :
    readTextBlockBody (encodeBlock lines c ++ rest) = .ok (blockText lines c, rest) :=
  readTextBlockBody_encode lines c rest hl hc

/-- the text ends with a line feed exactly when the closing delimiter stands on its own line -/
theorem final_newline_rule (lines : List SrcLine) (c : Closer) (hne : lines ≠ [])
    (hl : ∀ l ∈ lines, l.WF) (hc : c.WF lines) :
    ((blockText lines c).getLast? = some 0x0A) ↔ (∃ ind, c = .ownLine ind) :=
  blockText_final_newline lines c hne hl hc

/-- a block is equal to, and hashes like (so collides in sets and maps with), the ordinary
    string literal spelling the same content -/
theorem block_equals_ordinary_literal (cfg : Cfg) (h h' : Hdr) (text sp : Bytes) (hs : StrContent cfg sp text) :
    Eqv cfg (.str h text false) (.str h' sp (sp.contains 0x5C)) ∧
    hashV cfg (.str h text false) = hashV cfg (.str h' sp (sp.contains 0x5C)) :=
  textblock_eq_literal cfg h h' text sp hs

/-- non-vacuity, and the case the test suite misses: first line at indentation 0 followed by an
    indented line keeps the second line's indentation -/
example : blockText [⟨[], [0x61]⟩, ⟨[0x20, 0x20], [0x62]⟩] (.ownLine []) = [0x61, 0x0A, 0x20, 0x20, 0x62, 0x0A] := by decide +kernel
example : (⟨[0x20, 0x20], [0x62]⟩ : SrcLine).WF :=
  ⟨by decide, by decide, .plain 0x62 [] (by decide) (by decide) (by decide) .nil⟩

end Edn.Properties.C20
