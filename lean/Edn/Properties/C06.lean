/-
  Property C06 — string contents, length and termination are exact and stable.

  `StrContent cfg sp dn` (Edn.Spec.StringLit) says that the literal text `sp` between the
  quotes spells units (plain bytes other than `"` and `\`, or escapes of the build's escape
  set) denoting the bytes `dn`.  In the model a string value *is* the list of bytes that
  `edn_string_get` returns, so "reported length = number of bytes, NUL included" and
  "repeated calls return the same bytes" hold by construction; that the real accessor
  returns a stable, NUL-terminated buffer of that length is checked by the correspondence run.
-/
import Edn.Proofs.Str
import Edn.Proofs.StrSound

namespace Edn.Properties.C06
open Edn.Model Edn.Spec Edn.Proofs

/-- the closing quote is found exactly at the end of the content, and the escape flag is set
    exactly when the content contains a backslash -/
theorem closing_quote_exact (cfg : Cfg) (sp dn : Bytes) (h : StrContent cfg sp dn) (rest : Bytes) :
    findQuote (sp ++ 0x22 :: rest) = some (0x22 :: rest, sp.contains 0x5C) := by
  rw [findQuote_eq, findQuote_content cfg sp dn h false rest]; simp

/-- a literal without its closing quote is unterminated -/
theorem unterminated (cfg : Cfg) (sp dn : Bytes) (h : StrContent cfg sp dn) : findQuote sp = none := by
  rw [findQuote_eq]; exact findQuote_unterminated cfg sp dn h false

/-- Reading a literal and fetching its bytes: the value's range covers both quotes, the bytes
    returned are exactly the denoted bytes (so the length is exact even when they include
    NUL), and the rest of the input is untouched. -/
theorem literal_denotation (ctx : Ctx) (sp dn rest : Bytes) (cl : List Call)
    (h : StrContent ctx.cfg sp dn)
    (hnb : ¬ (ctx.cfg.exp = true ∧ ∃ t, (0x22 :: (sp ++ 0x22 :: rest)) = 0x22 :: 0x22 :: 0x22 :: 0x0A :: t)) :
    ∃ esc, readString ctx { rest := 0x22 :: (sp ++ 0x22 :: rest), calls := cl } =
        .ok (.str (mkHdr (sp.length + 2 + rest.length) rest.length) sp esc) { rest := rest, calls := cl } ∧
      stringGet ctx.cfg sp esc = some dn :=
  readString_literal ctx sp dn rest cl h hnb

/-- a literal without escapes is returned as it is -/
theorem zero_copy (cfg : Cfg) (sp dn : Bytes) (h : StrContent cfg sp dn) (hb : sp.contains 0x5C = false) : dn = sp :=
  no_backslash_plain cfg sp dn h hb

/-- an escape the build does not define is an access-time error, never garbage -/
theorem undefined_escape (cfg : Cfg) (c : UInt8) (r : Bytes)
    (hc : decodeEscape cfg (c :: r) = none) (pre dn : Bytes) (h : StrContent cfg pre dn) :
    stringGet cfg (pre ++ 0x5C :: c :: r) true = none :=
  undefined_escape_is_error cfg c r hc pre dn h

/-- the comparison helper agrees with the returned bytes -/
theorem string_equals_agrees (cfg : Cfg) (data : Bytes) (esc : Bool) (text : Bytes) (hz : text.all (· != 0) = true) :
    stringEquals cfg data esc text = (stringGet cfg data esc == some text) := by
  unfold stringEquals
  have : text.takeWhile (· != 0) = text := by
    induction text with
    | nil => rfl
    | cons c cs ih =>
      simp only [List.all_cons, Bool.and_eq_true] at hz
      simp [List.takeWhile_cons, hz.1, ih hz.2]
  rw [this]
  cases stringGet cfg data esc <;> simp

/-- non-vacuity: `a<NUL>b\n` (with the Clojure escapes: also é) -/
example : StrContent ⟨true, false⟩ [0x61, 0x00, 0x62, 0x5C, 0x6E] [0x61, 0x00, 0x62, 0x0A] :=
  .cons (.plain 0x61 (by decide) (by decide)) (.cons (.plain 0x00 (by decide) (by decide))
    (.cons (.plain 0x62 (by decide) (by decide)) (.cons .newline .nil)))

/-- **Exactness, every configuration**: for the text between the quotes of an ordinary literal,
    the reader returns a string value whose bytes can be fetched as `dn` **iff** the text spells
    units denoting `dn` (`StrContentX`: `StrContent` plus, with the Clojure flag, octal escapes of
    one to three digits up to `\377`, longest match, denoting one raw byte).  So an undefined escape,
    a truncated `\u`, a surrogate, a lone trailing backslash are all access-time errors, and no
    spelling decodes to anything but its denotation. -/
theorem literal_fetch_is_the_grammar (ctx : Ctx) (sp dn rest : Bytes) (cl : List Call)
    (hnb : ¬ (ctx.cfg.exp = true ∧ ∃ t, (0x22 :: (sp ++ 0x22 :: rest)) = 0x22 :: 0x22 :: 0x22 :: 0x0A :: t)) :
    (∃ h esc, readString ctx { rest := 0x22 :: (sp ++ 0x22 :: rest), calls := cl } =
        .ok (.str h sp esc) { rest := rest, calls := cl } ∧ stringGet ctx.cfg sp esc = some dn)
      ↔ StrContentX ctx.cfg sp dn :=
  readString_iff ctx sp dn rest cl hnb

/-- the decoder alone: on data without an unescaped quote (what the reader stores) it returns `dn`
    iff the data spells `dn`; without the Clojure flag `StrContent` itself is exact -/
theorem decode_is_the_grammar (cfg : Cfg) (sp dn : Bytes) (hq : findQuote sp = none) :
    stringGet cfg sp true = some dn ↔ StrContentX cfg sp dn :=
  stringGet_iff cfg sp dn hq

theorem decode_is_the_grammar_noclj (cfg : Cfg) (hc : cfg.clj = false) (sp dn : Bytes) (hq : findQuote sp = none) :
    stringGet cfg sp true = some dn ↔ StrContent cfg sp dn :=
  stringGet_iff_noclj cfg hc sp dn hq

end Edn.Properties.C06
