/-
  Property C14 — tagged elements dispatch to handlers as configured; registries behave
  as maps.
-/
import Edn.Proofs.Registry
import Edn.Model.Reader
import Edn.Proofs.Dispatch

namespace Edn.Properties.C14
open Edn.Model Edn.Proofs

/-- After any sequence of register / re-register / unregister calls the 16-bucket reader
    registry maps each tag to the most recently registered handler or to none. -/
theorem reader_registry_is_a_map (ops : List (RegOp Bytes)) (q : Bytes) :
    (ops.foldl Registry.step Registry.create).lookup q = (ops.foldl specStep (fun _ => none)) q :=
  registry_refines ops q

/-- The same for the external-type table. -/
theorem external_table_is_a_map (ops : List (RegOp Nat)) (q : Nat) :
    (ops.foldl extStep []).lookup q = (ops.foldl specStep (fun _ => none)) q :=
  (ext_refines ops).2 q

/-- Dispatch, stated on the reader's own step for a tagged element whose tag `tag` is a
    symbol and whose inner value has been read as `v`:
    * no registry, or inside a discarded form: the generic tagged value, no handler call;
    * registered: the handler is called exactly once on the already-read inner value (one
      entry is appended to the call log after the inner value's own entries) and its result
      (or its failure) is the result;
    * unregistered: the selected default. -/
def dispatchResult (ctx : Ctx) (dm : Bool) (start : Nat) (tag : Bytes) (v : Val) (st : St) : Res :=
  let stop := st.rest.length
  let passthrough : Res := .ok (.tagged (mkHdr start stop) none tag v) st
  match ctx.opts.registry with
  | none => passthrough
  | some reg =>
    if dm then passthrough
    else match reg tag with
      | some h =>
        let st3 := { st with calls := st.calls ++ [⟨h.name, v.hdr.s, v.hdr.e⟩] }
        match h.run v with
        | none => .err (mkErr .invalidSyntax (some start) (some stop)) st3
        | some r => .ok (r.setHdr { r.hdr with s := start, e := stop }) st3
      | none =>
        if ctx.opts.mode == 1 then .ok v st
        else if ctx.opts.mode == 2 then .err (mkErr .unknownTag (some start) (some stop)) st
        else passthrough

theorem tagged_dispatch (ctx : Ctx) (f d : Nat) (dm : Bool) (start : Nat) (st st' st'' : St)
    (c : UInt8) (cs : Bytes) (hs : st.rest = c :: cs)
    (hc : (c == 0x20 || c == 0x09 || c == 0x0A || c == 0x0D || c == 0x2C) = false)
    (h h2 : Hdr) (md : Option Val) (ns : Option Bytes) (name : Bytes) (v : Val)
    (hid : readIdentifier ctx st = .ok (.sym h md ns name) st')
    (hv : readValue ctx f (d + 1) dm st' = .ok v st'') (_ : h2 = h) :
    readTagged ctx (f + 1) d dm start st = dispatchResult ctx dm start (slice st.rest st'.rest) v st'' := by
  rw [readTagged]
  simp only [hs] at hid ⊢
  simp only [hc, Bool.false_eq_true, ↓reduceIte, hid, hv, dispatchResult]
  rfl

/-- without a registry every tag yields the generic tagged value -/
theorem no_registry_passthrough (ctx : Ctx) (dm : Bool) (start : Nat) (tag : Bytes) (v : Val) (st : St)
    (h : ctx.opts.registry = none) :
    dispatchResult ctx dm start tag v st = .ok (.tagged (mkHdr start st.rest.length) none tag v) st := by
  simp [dispatchResult, h]

/-- handlers are never invoked inside a discarded form -/
theorem discard_suppresses_handlers (ctx : Ctx) (start : Nat) (tag : Bytes) (v : Val) (st : St) :
    ∃ r, dispatchResult ctx true start tag v st = .ok r st := by
  unfold dispatchResult
  cases ctx.opts.registry <;> simp

/-- Whole documents (configurations without the Clojure flag): if the input reads to the
    tree `v0` without a registry - every tagged element a generic tagged value - then reading it
    with a registry of well-behaved handlers and default mode `opts.mode` returns exactly what
    the declarative dispatch `Edn.Spec.dispatchV` computes from (the cache-free copy of) `v0`:
    handlers applied bottom-up in source order, each call logged once with the range of its
    operand, never inside discarded forms (those are absent from `v0`), unknown tags kept /
    unwrapped / rejected according to the mode; and when a handler fails, a tag is unknown in
    error mode, or results collide in a set or as map keys, the same error code with the same
    range and the calls made until then -/
theorem reading_with_registry_is_dispatch (cfg : Cfg) (hc : cfg.clj = false) (opts : Opts) (reg : Bytes → Option Handler)
    (hn : NiceRegistry cfg reg) (input : Bytes) (v0 : Val)
    (h0 : (read cfg { opts with registry := none } input).out = .value v0) :
    match Edn.Spec.dispatchV cfg reg opts.mode (Edn.Spec.eraseCache v0) with
    | (calls, .ok v) =>
      ∃ v', (read cfg { opts with registry := some reg } input).out = .value v' ∧ SameUpToCache v' v ∧
        (read cfg { opts with registry := some reg } input).calls = calls
    | (calls, .error (code, s, e)) =>
      (∃ es ee, (read cfg { opts with registry := some reg } input).out = .error code es ee ∧
        es.offset = input.length - s ∧ ee.offset = input.length - e) ∧
      (read cfg { opts with registry := some reg } input).calls = calls :=
  read_with_registry cfg hc opts reg hn input v0 h0

end Edn.Properties.C14
