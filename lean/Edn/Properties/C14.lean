/-
  Property C14 — tagged elements dispatch to handlers as configured; registries behave
  as maps.
-/
import Edn.Proofs.Registry
import Edn.Model.Reader
import Edn.Proofs.Dispatch
import Edn.Proofs.DispatchClj
import Edn.Proofs.DispatchCljAux6

namespace Edn.Properties.C14
open Edn.Model Edn.Proofs

/-- After any sequence of register / re-register / unregister calls the 16-bucket reader
    registry maps each tag to the most recently registered handler or to none. -/
theorem reader_registry_is_a_map (ops : List (RegOp Bytes)) (q : Bytes) :
    (ops.foldl Registry.step Registry.create).lookup q = (ops.foldl specStep (fun _ => none)) q :=
  registry_refines ops q

/-- The same for the external-type table. -/
theorem external_table_is_a_map (ops : List (RegOp Nat)) (q : Nat) :
    (ops.foldl extStep []).lookup q = (ops.foldl specStep (fun _ => none)) q :=
  (ext_refines ops).2 q

/-- Dispatch, stated on the reader's own step for a tagged element whose tag `tag` is a
    symbol and whose inner value has been read as `v`:
    * no registry, or inside a discarded form: the generic tagged value, no handler call;
    * registered: the handler is called exactly once on the already-read inner value (one
      entry is appended to the call log after the inner value's own entries) and its result
      (or its failure) is the result;
    * unregistered: the selected default. -/
def dispatchResult (ctx : Ctx) (dm : Bool) (start : Nat) (tag : Bytes) (v : Val) (st : St) : Res :=
  let stop := st.rest.length
  let passthrough : Res := .ok (.tagged (mkHdr start stop) none tag v) st
  match ctx.opts.registry with
  | none => passthrough
  | some reg =>
    if dm then passthrough
    else match reg tag with
      | some h =>
        let st3 := { st with calls := st.calls ++ [⟨h.name, v.hdr.s, v.hdr.e⟩] }
        match h.run v with
        | none => .err (mkErr .invalidSyntax (some start) (some stop)) st3
        | some r => .ok (r.setHdr { r.hdr with s := start, e := stop }) st3
      | none =>
        if ctx.opts.mode == 1 then .ok v st
        else if ctx.opts.mode == 2 then .err (mkErr .unknownTag (some start) (some stop)) st
        else passthrough

theorem tagged_dispatch (ctx : Ctx) (f d : Nat) (dm : Bool) (start : Nat) (st st' st'' : St)
    (c : UInt8) (cs : Bytes) (hs : st.rest = c :: cs)
    (hc : (c == 0x20 || c == 0x09 || c == 0x0A || c == 0x0D || c == 0x2C) = false)
    (h h2 : Hdr) (md : Option Val) (ns : Option Bytes) (name : Bytes) (v : Val)
    (hid : readIdentifier ctx st = .ok (.sym h md ns name) st')
    (hv : readValue ctx f (d + 1) dm st' = .ok v st'') (_ : h2 = h) :
    readTagged ctx (f + 1) d dm start st = dispatchResult ctx dm start (slice st.rest st'.rest) v st'' := by
  rw [readTagged]
  simp only [hs] at hid ⊢
  simp only [hc, Bool.false_eq_true, ↓reduceIte, hid, hv, dispatchResult]
  rfl

/-- without a registry every tag yields the generic tagged value -/
theorem no_registry_passthrough (ctx : Ctx) (dm : Bool) (start : Nat) (tag : Bytes) (v : Val) (st : St)
    (h : ctx.opts.registry = none) :
    dispatchResult ctx dm start tag v st = .ok (.tagged (mkHdr start st.rest.length) none tag v) st := by
  simp [dispatchResult, h]

/-- handlers are never invoked inside a discarded form -/
theorem discard_suppresses_handlers (ctx : Ctx) (start : Nat) (tag : Bytes) (v : Val) (st : St) :
    ∃ r, dispatchResult ctx true start tag v st = .ok r st := by
  unfold dispatchResult
  cases ctx.opts.registry <;> simp

/-- Whole documents (configurations without the Clojure flag): if the input reads to the
    tree `v0` without a registry - every tagged element a generic tagged value - then reading it
    with a registry of well-behaved handlers and default mode `opts.mode` returns exactly what
    the declarative dispatch `Edn.Spec.dispatchV` computes from (the cache-free copy of) `v0`:
    handlers applied bottom-up in source order, each call logged once with the range of its
    operand, never inside discarded forms (those are absent from `v0`), unknown tags kept /
    unwrapped / rejected according to the mode; and when a handler fails, a tag is unknown in
    error mode, or results collide in a set or as map keys, the same error code with the same
    range and the calls made until then -/
theorem reading_with_registry_is_dispatch (cfg : Cfg) (hc : cfg.clj = false) (opts : Opts) (reg : Bytes → Option Handler)
    (hn : NiceRegistry cfg reg) (input : Bytes) (v0 : Val)
    (h0 : (read cfg { opts with registry := none } input).out = .value v0) :
    match Edn.Spec.dispatchV cfg reg opts.mode (Edn.Spec.eraseCache v0) with
    | (calls, .ok v) =>
      ∃ v', (read cfg { opts with registry := some reg } input).out = .value v' ∧ SameUpToCache v' v ∧
        (read cfg { opts with registry := some reg } input).calls = calls
    | (calls, .error (code, s, e)) =>
      (∃ es ee, (read cfg { opts with registry := some reg } input).out = .error code es ee ∧
        es.offset = input.length - s ∧ ee.offset = input.length - e) ∧
      (read cfg { opts with registry := some reg } input).calls = calls :=
  read_with_registry cfg hc opts reg hn input v0 h0

/-- Whole documents, every configuration - the ones with the Clojure flag included, where
    metadata annotations, metadata targets and namespaced-map keys may contain tagged elements.

    If the input reads to `v0` without a registry, it has a syntax tree `t` (`Edn.Spec.Syn`:
    scalars, sequences, maps with their namespace prefix, tagged elements, `^annotation target`
    nodes, all with their source ranges; discarded forms are absent), the same for all options,
    such that
    * its registry-free reading `plainS cfg t` is `v0`, with no call;
    * under any options `o1` - any registry or none, any default mode - `read` returns exactly
      `dispatchS cfg o1.registry o1.mode t` (`ReadIs`): the same value, cache cells included,
      and the same call log; or the same error code with the same range and the calls made
      until then.
    `dispatchS` is the declarative dispatch: handlers applied bottom-up in source order
    (annotation before target, key before value), one call per handled tag logged with the
    range of the operand's result, the handler's result re-ranged to the tagged element and
    otherwise kept as it is (`#id ^:a [1]` keeps the metadata); an annotation's entries are
    merged, after the handlers of annotation and target have run, into the metadata the
    target's result carries (`^:b #id ^:a [1]` has both keys; entries of the result with a key
    equal to an annotation key are dropped); a target whose result cannot carry metadata is
    INVALID_SYNTAX over the whole form; the key of a namespaced map is qualified after its
    handler returned (`#:p{#id :a 1}` is `{:p/a 1}`; a handler result that is not a keyword or
    symbol stays as it is) and duplicate keys are detected on the qualified keys.

    No hypothesis on the handlers is needed (compare `NiceRegistry` above): the tree's leaves
    are the scalars as the reader returns them, so both sides hand the handlers the very same
    operands.  The statement cannot be made on `v0` itself as in
    `reading_with_registry_is_dispatch`: see `registry_free_tree_insufficient_clj`. -/
theorem reading_with_registry_is_dispatch_clj (cfg : Cfg) (opts : Opts) (input : Bytes) (v0 : Val)
    (h0 : (read cfg { opts with registry := none } input).out = .value v0) :
    ∃ t : Edn.Spec.Syn, Edn.Spec.plainS cfg t = ([], .ok v0) ∧
      ∀ o1 : Opts, Edn.Spec.ReadIs (read cfg o1 input) input.length
        (Edn.Spec.dispatchS cfg o1.registry o1.mode t) :=
  read_is_dispatchS cfg opts input v0 h0

/-- The general form: an input that reads to a value under some options `o0` - with a registry
    or without - has a syntax tree whose dispatch is what `read` returns under any options.
    (`^#id {:a 1} [2]` reads only with a registry: without one the annotation is a tagged
    element, which cannot be an annotation.) -/
theorem reading_is_determined_by_syntax_tree (cfg : Cfg) (o0 : Opts) (input : Bytes) (v0 : Val)
    (h0 : (read cfg o0 input).out = .value v0) :
    ∃ t : Edn.Spec.Syn, ∀ o1 : Opts, Edn.Spec.ReadIs (read cfg o1 input) input.length
      (Edn.Spec.dispatchS cfg o1.registry o1.mode t) :=
  read_determined_by_tree cfg o0 input v0 h0

example : (match (read ⟨true, false⟩ {} "^#id {:a 1} [2]".toUTF8.toList).out with
    | .error c _ _ => c == .invalidSyntax | _ => false) = true ∧
    (match (read ⟨true, false⟩ { registry := some CljCounterexample.reg } "^#id {:a 1} [2]".toUTF8.toList).out with
    | .value _ => true | _ => false) = true := by
  constructor <;> decide +kernel

/-- The same, spelled out for one registry `reg` (the shape of
    `reading_with_registry_is_dispatch`). -/
theorem reading_with_registry_is_dispatch_clj' (cfg : Cfg) (opts : Opts) (reg : Bytes → Option Handler)
    (input : Bytes) (v0 : Val)
    (h0 : (read cfg { opts with registry := none } input).out = .value v0) :
    ∃ t : Edn.Spec.Syn, Edn.Spec.plainS cfg t = ([], .ok v0) ∧
      match Edn.Spec.dispatchS cfg (some reg) opts.mode t with
      | (calls, .ok v) =>
        (read cfg { opts with registry := some reg } input).out = .value v ∧
          (read cfg { opts with registry := some reg } input).calls = calls
      | (calls, .error (code, s, e)) =>
        (∃ es ee, (read cfg { opts with registry := some reg } input).out = .error code es ee ∧
          es.offset = input.length - s ∧ ee.offset = input.length - e) ∧
        (read cfg { opts with registry := some reg } input).calls = calls := by
  obtain ⟨t, hp, ht⟩ := read_is_dispatchS cfg opts input v0 h0
  refine ⟨t, hp, ?_⟩
  have h := ht { opts with registry := some reg }
  change Edn.Spec.ReadIs _ _ (Edn.Spec.dispatchS cfg (some reg) opts.mode t) at h
  rcases hd : Edn.Spec.dispatchS cfg (some reg) opts.mode t with ⟨calls, ⟨code, s, e⟩ | v⟩
  · rw [hd] at h; exact h
  · rw [hd] at h; exact h

/-- With the Clojure flag the registry-free tree does not determine what a read with a
    registry returns: `#:p{#id :a 1}` and `#:q{#id :a 1}` read to the same tree without a
    registry and to `{:p/a 1}` / `{:q/a 1}` with the identity handler for `id`, so no function
    of that tree - in particular not `dispatchV` of `reading_with_registry_is_dispatch` - is
    the registry run.  (`Edn.Proofs.CljCounterexample` has a second pair, for stacked metadata
    annotations: same registry-free tree, DUPLICATE_KEY against a value.) -/
theorem registry_free_tree_insufficient_clj :
    ¬ ∃ F : Val → Edn.Spec.DOne, ∀ (input : Bytes) (v0 : Val),
      (read ⟨true, false⟩ {} input).out = .value v0 →
      Edn.Spec.ReadIs (read ⟨true, false⟩ { registry := some CljCounterexample.reg } input) input.length (F v0) :=
  CljCounterexample.registry_free_tree_insufficient

/-- non-vacuity on `^:b #id ^:a [1]` (Clojure configuration, `id` the identity handler): the
    input reads without a registry; its syntax tree; the dispatch of the tree makes the one
    call on the range of `^:a [1]` and returns the vector, ranging over the whole input, with
    the metadata keys `:b` (outer annotation) and `:a` (kept by the handler's result); and that
    is the call log of the read -/
def exampleTree : Edn.Spec.Syn :=
  .ann 15 12 0 (.leaf (.kw (mkHdr 14 12) none [0x62]))
    (.tagged 11 0 [0x69, 0x64]
      (.ann 7 4 0 (.leaf (.kw (mkHdr 6 4) none [0x61])) (.seq 1 3 0 [.leaf (.int (mkHdr 2 1) 1)])))

example : (match (read ⟨true, false⟩ {} "^:b #id ^:a [1]".toUTF8.toList).out with
    | .value _ => true | _ => false) = true := by decide +kernel
example : (Edn.Spec.dispatchS ⟨true, false⟩ (some CljCounterexample.reg) 0 exampleTree).1 = [⟨"id", 7, 0⟩] := by
  decide +kernel
example : (match (Edn.Spec.dispatchS ⟨true, false⟩ (some CljCounterexample.reg) 0 exampleTree).2 with
    | .ok (.vec h (some (.map _ _ [.kw _ none kb, .kw _ none ka] _)) [_]) =>
      h.s == 15 && h.e == 0 && kb == [0x62] && ka == [0x61]
    | _ => false) = true := by decide +kernel
example : (read ⟨true, false⟩ { registry := some CljCounterexample.reg } "^:b #id ^:a [1]".toUTF8.toList).calls
    = [⟨"id", 7, 0⟩] := by decide +kernel
example : (match (Edn.Spec.plainS ⟨true, false⟩ exampleTree).2 with
    | .ok (.tagged h (some _) tag (.vec _ (some _) _)) => h.s == 15 && tag == [0x69, 0x64]
    | _ => false) = true := by decide +kernel

/-- the tree of `#:p{#id :a 1}`: the key is qualified after the identity handler returned it,
    and the call is logged with the range of `:a` -/
def exampleNsTree : Edn.Spec.Syn :=
  .map 13 0 (some [0x70]) [.tagged 9 3 [0x69, 0x64] (.leaf (.kw (mkHdr 5 3) none [0x61]))]
    [.leaf (.int (mkHdr 2 1) 1)]

example : (match Edn.Spec.dispatchS ⟨true, false⟩ (some CljCounterexample.reg) 0 exampleNsTree with
    | (calls, .ok (.map h none [.kw _ (some ns) nm] [.int _ 1])) =>
      calls == [⟨"id", 5, 3⟩] && h.s == 13 && h.e == 0 && ns == [0x70] && nm == [0x61]
    | _ => false) = true := by decide +kernel
example : (match (read ⟨true, false⟩ { registry := some CljCounterexample.reg } CljCounterexample.inpP).out with
    | .value (.map h none [.kw _ (some ns) nm] [.int _ 1]) => h.s == 13 && h.e == 0 && ns == [0x70] && nm == [0x61]
    | _ => false) = true ∧
    (read ⟨true, false⟩ { registry := some CljCounterexample.reg } CljCounterexample.inpP).calls = [⟨"id", 5, 3⟩] := by
  constructor <;> decide +kernel

end Edn.Properties.C14
