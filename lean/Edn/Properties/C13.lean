/-
  Property C13 — whitespace, commas, comments and discarded forms never change the value read.
-/
import Edn.Proofs.Trivia
import Edn.Proofs.RejectDocTrivX

namespace Edn.Properties.C13
open Edn.Model Edn.Proofs

/-- any run of the 11 whitespace bytes, commas and line comments closed by a line feed in
    front of a form leaves what `edn_read_value` returns unchanged — value, ranges (which
    are kept relative to the end of the input), remaining input and handler calls -/
theorem trivia_prefix (ctx : Ctx) (f d : Nat) (dm : Bool) (tr s : Bytes) (cl : List Call) (h : PlainTrivia tr) :
    readValue ctx (f + 1) d dm { rest := tr ++ s, calls := cl } = readValue ctx (f + 1) d dm { rest := s, calls := cl } :=
  readValue_trivia_prefix ctx f d dm tr s cl h

/-- tag handlers are never invoked for anything inside a discarded form: in discard mode the
    call log is unchanged by every reader function, whatever is read -/
theorem no_handler_calls_in_discard (ctx : Ctx) (f d : Nat) (st : St) :
    (readValue ctx f d true st).st.calls = st.calls := (discard_mode_no_calls ctx f).1 d st

/-- a discarded form in front of a form is trivia: `#_ form` is skipped, reading continues
    after it with the same call log (`form` may itself contain tags and discards) -/
theorem discarded_form_is_trivia (ctx : Ctx) (f d : Nat) (dm : Bool) (form s : Bytes) (cl cl' : List Call) (v : Val)
    (hd : d < Edn.Generated.Tables.maxNestingDepth)
    (hform : readValue ctx f (d + 1) true { rest := form ++ s, calls := cl } = .ok v { rest := s, calls := cl' }) :
    cl' = cl ∧
    readValue ctx (f + 1) d dm { rest := 0x23 :: 0x5F :: (form ++ s), calls := cl }
      = readValue ctx f d dm { rest := s, calls := cl } :=
  discard_is_trivia ctx f d dm form s cl cl' v hd hform

/-- input consisting only of trivia reads as end of input: the end-of-input error (at the end
    of the input), or exactly the caller's end-of-input value with no error -/
theorem trivia_only_is_eof (cfg : Cfg) (opts : Opts) (s : Bytes) (h : skipWsScalar s = []) :
    (read cfg opts s).calls = [] ∧
    match (read cfg opts s).out with
    | .eofValue => opts.eofValue = true
    | .error code es ee => opts.eofValue = false ∧ code = .unexpectedEof ∧ es.offset = s.length ∧ ee.offset = s.length
    | _ => False :=
  read_trivia_only cfg opts s h

/-- non-vacuity -/
example : PlainTrivia [0x20, 0x2C, 0x3B, 0x61, 0x0A, 0x1C] :=
  .ws _ _ (by decide +kernel) (.ws _ _ (by decide +kernel) (.comment [0x61] [0x1C] (by simp) (.ws _ _ (by decide +kernel) .nil)))

/-! ## end of input ⇔ only trivia at top level, every configuration -/

open Edn.Proofs.RejectDoc (posOf) in
open Edn.Proofs.RejectDocTrivX (TopTriviaX) in
/-- **End of input iff top-level trivia, in every configuration** (no reader registry).
    `TopTriviaX cfg input` (`Edn.Proofs.RejectDocTrivXAux1`) says declaratively that the input holds
    no form: blanks (the 11 whitespace bytes, commas), line comments — the last one possibly not
    closed by a line feed — and complete discarded forms `#_ form`, where `form` is a form of the
    configuration's grammar `Edn.Spec.FormX cfg (numJOf cfg) (strJOf cfg)` (with the Clojure flag
    this includes metadata forms `^ann target` and namespaced maps `#:ns{…}`; with the experimental
    flag text blocks and the extended numbers) whose nesting leaves room for the discard marker.
    Then
    1. the top-level `readValue` ends with the error flagged "end of input between top-level forms"
       (the model's `eofTop`) **iff** `TopTriviaX cfg input`;
    2. with an end-of-input value supplied, `edn_read` returns it **iff** `TopTriviaX cfg input`;
    3. `edn_read` never returns the end-of-input value otherwise (none supplied, or a form present);
    4. without an end-of-input value a `TopTriviaX` input gives UNEXPECTED_EOF at the very end of the
       input, and no handler call. -/
theorem end_of_input_iff_top_level_trivia_in_every_configuration (cfg : Cfg) (opts : Opts)
    (hreg : opts.registry = none) (input : Bytes) :
    ((∃ e st, readValue { cfg := cfg, opts := opts } (readFuel input) 0 false { rest := input } = .err e st ∧
        e.eofTop = true) ↔ TopTriviaX cfg input) ∧
    (opts.eofValue = true → ((read cfg opts input).out = .eofValue ↔ TopTriviaX cfg input)) ∧
    ((read cfg opts input).out = .eofValue → opts.eofValue = true ∧ TopTriviaX cfg input) ∧
    (opts.eofValue = false → TopTriviaX cfg input →
      (read cfg opts input).out = .error .unexpectedEof (posOf input input.length) (posOf input input.length) ∧
      (read cfg opts input).calls = []) :=
  ⟨RejectDocTrivX.eofTopX_iff cfg opts hreg input,
   fun hev => RejectDocTrivX.eofX_iff_trivia_only cfg opts hreg hev input,
   RejectDocTrivX.eofValueX_inv cfg opts hreg input,
   fun hev h => RejectDocTrivX.triviaX_only_eof_error cfg opts hreg hev input h⟩

/-- non-vacuity, Clojure flag: `#_ ^:a [1] ; c` — a discarded *metadata form* and an unclosed
    comment — holds no form … -/
example : RejectDocTrivX.TopTriviaX ⟨true, false⟩ "#_ ^:a [1] ; c".toUTF8.toList :=
  RejectDocTrivX.topTriviaX_of_read _ _ (by decide +kernel)

/-- … whereas in the core configuration (`^:a` is a symbol there) the same bytes hold the form `[1]` -/
example : ¬ RejectDocTrivX.TopTriviaX Cfg.core "#_ ^:a [1] ; c".toUTF8.toList :=
  RejectDocTrivX.not_topTriviaX_of_read _ _ (by decide +kernel)

/-- a discarded *namespaced map* is trivia with the Clojure flag (with or without the experimental one) -/
example : ∀ cfg ∈ [(⟨true, false⟩ : Cfg), ⟨true, true⟩], RejectDocTrivX.TopTriviaX cfg "#_ #:a{:x 1}".toUTF8.toList := by
  intro cfg hc
  apply RejectDocTrivX.topTriviaX_of_read
  revert cfg
  decide +kernel

/-- blanks and commas only, every configuration -/
example : ∀ cfg ∈ [Cfg.core, ⟨true, false⟩, ⟨false, true⟩, ⟨true, true⟩],
    RejectDocTrivX.TopTriviaX cfg "  ,, ".toUTF8.toList := by
  intro cfg hc
  apply RejectDocTrivX.topTriviaX_of_read
  revert cfg
  decide +kernel

/-- `#_` alone — a discard marker with nothing to discard — is *not* trivia, in any configuration -/
example : ∀ cfg ∈ [Cfg.core, ⟨true, false⟩, ⟨false, true⟩, ⟨true, true⟩],
    ¬ RejectDocTrivX.TopTriviaX cfg "#_".toUTF8.toList := by
  intro cfg hc
  apply RejectDocTrivX.not_topTriviaX_of_read
  revert cfg
  decide +kernel

/-- the theorem at work: `#_ ^:a [1] ; c` with the Clojure flag and an end-of-input value supplied -/
example : (read ⟨true, false⟩ { eofValue := true } "#_ ^:a [1] ; c".toUTF8.toList).out = .eofValue :=
  ((end_of_input_iff_top_level_trivia_in_every_configuration ⟨true, false⟩ { eofValue := true } rfl _).2.1 rfl).2
    (RejectDocTrivX.topTriviaX_of_read _ _ (by decide +kernel))

end Edn.Properties.C13
