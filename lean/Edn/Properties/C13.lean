/-
  Property C13 — whitespace, commas, comments and discarded forms never change the value read.
-/
import Edn.Proofs.Trivia

namespace Edn.Properties.C13
open Edn.Model Edn.Proofs

/-- any run of the 11 whitespace bytes, commas and line comments closed by a line feed in
    front of a form leaves what `edn_read_value` returns unchanged — value, ranges (which
    are kept relative to the end of the input), remaining input and handler calls -/
theorem trivia_prefix (ctx : Ctx) (f d : Nat) (dm : Bool) (tr s : Bytes) (cl : List Call) (h : PlainTrivia tr) :
    readValue ctx (f + 1) d dm { rest := tr ++ s, calls := cl } = readValue ctx (f + 1) d dm { rest := s, calls := cl } :=
  readValue_trivia_prefix ctx f d dm tr s cl h

/-- tag handlers are never invoked for anything inside a discarded form: in discard mode the
    call log is unchanged by every reader function, whatever is read -/
theorem no_handler_calls_in_discard (ctx : Ctx) (f d : Nat) (st : St) :
    (readValue ctx f d true st).st.calls = st.calls := (discard_mode_no_calls ctx f).1 d st

/-- a discarded form in front of a form is trivia: `#_ form` is skipped, reading continues
    after it with the same call log (`form` may itself contain tags and discards) -/
theorem discarded_form_is_trivia (ctx : Ctx) (f d : Nat) (dm : Bool) (form s : Bytes) (cl cl' : List Call) (v : Val)
    (hd : d < Edn.Generated.Tables.maxNestingDepth)
    (hform : readValue ctx f (d + 1) true { rest := form ++ s, calls := cl } = .ok v { rest := s, calls := cl' }) :
    cl' = cl ∧
    readValue ctx (f + 1) d dm { rest := 0x23 :: 0x5F :: (form ++ s), calls := cl }
      = readValue ctx f d dm { rest := s, calls := cl } :=
  discard_is_trivia ctx f d dm form s cl cl' v hd hform

/-- input consisting only of trivia reads as end of input: the end-of-input error (at the end
    of the input), or exactly the caller's end-of-input value with no error -/
theorem trivia_only_is_eof (cfg : Cfg) (opts : Opts) (s : Bytes) (h : skipWsScalar s = []) :
    (read cfg opts s).calls = [] ∧
    match (read cfg opts s).out with
    | .eofValue => opts.eofValue = true
    | .error code es ee => opts.eofValue = false ∧ code = .unexpectedEof ∧ es.offset = s.length ∧ ee.offset = s.length
    | _ => False :=
  read_trivia_only cfg opts s h

/-- non-vacuity -/
example : PlainTrivia [0x20, 0x2C, 0x3B, 0x61, 0x0A, 0x1C] :=
  .ws _ _ (by decide +kernel) (.ws _ _ (by decide +kernel) (.comment [0x61] [0x1C] (by simp) (.ws _ _ (by decide +kernel) .nil)))

end Edn.Properties.C13
