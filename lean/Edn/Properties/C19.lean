/-
  Property C19 — namespaced maps and metadata desugar exactly (Clojure extensions).
  Theorem part: the metadata merge (unique keys, outer annotation wins), transparency of
  metadata for the target's value, equality and hash, a marker lacking its annotation or its
  target is an error, and the key rewriting of namespaced maps.
-/
import Edn.Proofs.MetaMerge

namespace Edn.Properties.C19
open Edn.Model Edn.Spec Edn.Proofs

/-- attaching metadata (and moving the start of the source range to the `^`) leaves the
    target's hash, depth and equality with any other value unchanged -/
theorem metadata_is_transparent (cfg : Cfg) (v : Val) (m : Option Val) :
    hashV cfg (v.setMd m) = hashV cfg v ∧ depth (v.setMd m) = depth v ∧
    (∀ f b, eqvF cfg f (v.setMd m) b = eqvF cfg f v b) ∧ (∀ f b, eqvF cfg f b (v.setMd m) = eqvF cfg f b v) :=
  setMd_transparent cfg v m

/-- merging a further (outer) annotation into existing metadata keeps the keys unique … -/
theorem merged_keys_unique (cfg : Cfg) (newKs newVs ks vs : List Val) (hl : ks.length = vs.length)
    (hn : KeysOK cfg newKs) (ho : KeysOK cfg ks) :
    pairwiseDistinct cfg (newKs ++ (keepOld cfg newKs ks vs).1) :=
  merged_keys_distinct cfg newKs newVs ks vs hl hn ho

/-- … and a lookup in the merged map yields the outer annotation's value when it has the key,
    otherwise the inner one's: the merge of the expanded annotations with outer ones winning -/
theorem outer_annotation_wins (cfg : Cfg) (newKs newVs ks vs : List Val) (probe : Val)
    (hln : newKs.length = newVs.length) (hl : ks.length = vs.length)
    (hn : KeysOK cfg newKs) (ho : KeysOK cfg ks)
    (hp : WF cfg probe) (hpd : depth probe < maxDepthFuel) (hpc : cacheOK cfg probe = true) :
    findKey (fun k' k => equal cfg k' k) probe (newKs ++ (keepOld cfg newKs ks vs).1) (newVs ++ (keepOld cfg newKs ks vs).2)
      = match findKey (fun k' k => equal cfg k' k) probe newKs newVs with
        | some v => some v
        | none => findKey (fun k' k => equal cfg k' k) probe ks vs :=
  merged_lookup cfg newKs newVs ks vs probe hln hl hn ho hp hpd hpc

/-- the expansion of the five annotation forms -/
theorem annotation_expansion (m : Val) :
    metaEntries m = match m with
      | .map _ _ ks vs => some (ks, vs)
      | .kw .. => some ([m], [.bool synthHdr true])
      | .vec .. => some ([.kw synthHdr none "param-tags".toUTF8.toList], [m])
      | .str .. | .sym .. => some ([.kw synthHdr none "tag".toUTF8.toList], [m])
      | _ => none := by
  cases m <;> rfl

/-- a marker whose annotation or target is missing (a closing delimiter follows) is an error,
    and so is an annotation or target of the wrong kind -/
theorem marker_without_operand_is_error (ctx : Ctx) (f d : Nat) (dm : Bool) (start : Nat) (st st' : St)
    (h : readValue ctx f (d + 1) dm st = .closer st') :
    readMeta ctx (f + 1) d dm start st = .err (mkErr .invalidSyntax (some start) (some st'.rest.length)) st' := by
  rw [readMeta]; simp only [h, Ctx.pos]

theorem marker_without_target_is_error (ctx : Ctx) (f d : Nat) (dm : Bool) (start : Nat) (st st' st'' : St) (m : Val)
    (nks nvs : List Val) (h : readValue ctx f (d + 1) dm st = .ok m st') (hm : metaEntries m = some (nks, nvs))
    (h2 : readValue ctx f (d + 1) dm st' = .closer st'') :
    readMeta ctx (f + 1) d dm start st = .err (mkErr .invalidSyntax (some start) (some st''.rest.length)) st'' := by
  rw [readMeta]; simp only [h, hm, h2, Ctx.pos]

/-- namespaced maps: an unqualified keyword or symbol key is qualified with the prefix, a key
    qualified with `_` is unqualified, every other key is kept -/
theorem key_qualification (p : Bytes) (h : Hdr) (md : Option Val) (name : Bytes) (other : Bytes) (ho : (other == [0x5F]) = false) :
    qualifyKey p (.kw h none name) = .kw synthHdr (some p) name ∧
    qualifyKey p (.kw h (some [0x5F]) name) = .kw synthHdr none name ∧
    qualifyKey p (.kw h (some other) name) = .kw h (some other) name ∧
    qualifyKey p (.sym h md none name) = .sym synthHdr none (some p) name ∧
    qualifyKey p (.sym h md (some [0x5F]) name) = .sym synthHdr none none name ∧
    qualifyKey p (.sym h md (some other) name) = .sym h md (some other) name ∧
    qualifyKey p (.int h 5) = .int h 5 := by
  simp [qualifyKey, ho]

end Edn.Properties.C19
