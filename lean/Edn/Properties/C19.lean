/-
  Property C19 — namespaced maps and metadata desugar exactly (Clojure extensions).
  Theorem part: the metadata merge (unique keys, outer annotation wins), transparency of
  metadata for the target's value, equality and hash, a marker lacking its annotation or its
  target is an error, the target and annotation gates, the key rewriting of namespaced maps, and
  the desugaring of a namespaced map: the same reading as the plain map over the same body with
  every key passed through the qualification before the duplicate check.
  Document level (`*_document`, Proofs/RejectDocClj*.lean): which error `edn_read` reports for
  each of these defects inside any well-formed open context, a discarded form included.
-/
import Edn.Proofs.MetaMerge
import Edn.Proofs.NsMap
import Edn.Proofs.RejectDocClj

namespace Edn.Properties.C19
open Edn.Model Edn.Spec Edn.Proofs

/-- attaching metadata (and moving the start of the source range to the `^`) leaves the
    target's hash, depth and equality with any other value unchanged -/
theorem metadata_is_transparent (cfg : Cfg) (v : Val) (m : Option Val) :
    hashV cfg (v.setMd m) = hashV cfg v ∧ depth (v.setMd m) = depth v ∧
    (∀ f b, eqvF cfg f (v.setMd m) b = eqvF cfg f v b) ∧ (∀ f b, eqvF cfg f b (v.setMd m) = eqvF cfg f b v) :=
  setMd_transparent cfg v m

/-- merging a further (outer) annotation into existing metadata keeps the keys unique … -/
theorem merged_keys_unique (cfg : Cfg) (newKs newVs ks vs : List Val) (hl : ks.length = vs.length)
    (hn : KeysOK cfg newKs) (ho : KeysOK cfg ks) :
    pairwiseDistinct cfg (newKs ++ (keepOld cfg newKs ks vs).1) :=
  merged_keys_distinct cfg newKs newVs ks vs hl hn ho

/-- … and a lookup in the merged map yields the outer annotation's value when it has the key,
    otherwise the inner one's: the merge of the expanded annotations with outer ones winning -/
theorem outer_annotation_wins (cfg : Cfg) (newKs newVs ks vs : List Val) (probe : Val)
    (hln : newKs.length = newVs.length) (hl : ks.length = vs.length)
    (hn : KeysOK cfg newKs) (ho : KeysOK cfg ks)
    (hp : WF cfg probe) (hpd : depth probe < maxDepthFuel) (hpc : cacheOK cfg probe = true) :
    findKey (fun k' k => equal cfg k' k) probe (newKs ++ (keepOld cfg newKs ks vs).1) (newVs ++ (keepOld cfg newKs ks vs).2)
      = match findKey (fun k' k => equal cfg k' k) probe newKs newVs with
        | some v => some v
        | none => findKey (fun k' k => equal cfg k' k) probe ks vs :=
  merged_lookup cfg newKs newVs ks vs probe hln hl hn ho hp hpd hpc

/-- the expansion of the five annotation forms -/
theorem annotation_expansion (m : Val) :
    metaEntries m = match m with
      | .map _ _ ks vs => some (ks, vs)
      | .kw .. => some ([m], [.bool synthHdr true])
      | .vec .. => some ([.kw synthHdr none "param-tags".toUTF8.toList], [m])
      | .str .. | .sym .. => some ([.kw synthHdr none "tag".toUTF8.toList], [m])
      | _ => none := by
  cases m <;> rfl

/-- a marker whose annotation or target is missing (a closing delimiter follows) is an error,
    and so is an annotation or target of the wrong kind -/
theorem marker_without_operand_is_error (ctx : Ctx) (f d : Nat) (dm : Bool) (start : Nat) (st st' : St)
    (h : readValue ctx f (d + 1) dm st = .closer st') :
    readMeta ctx (f + 1) d dm start st = .err (mkErr .invalidSyntax (some start) (some st'.rest.length)) st' := by
  rw [readMeta]; simp only [h, Ctx.pos]

theorem marker_without_target_is_error (ctx : Ctx) (f d : Nat) (dm : Bool) (start : Nat) (st st' st'' : St) (m : Val)
    (nks nvs : List Val) (h : readValue ctx f (d + 1) dm st = .ok m st') (hm : metaEntries m = some (nks, nvs))
    (h2 : readValue ctx f (d + 1) dm st' = .closer st'') :
    readMeta ctx (f + 1) d dm start st = .err (mkErr .invalidSyntax (some start) (some st''.rest.length)) st'' := by
  rw [readMeta]; simp only [h, hm, h2, Ctx.pos]

/-- namespaced maps: an unqualified keyword or symbol key is qualified with the prefix, a key
    qualified with `_` is unqualified, every other key is kept -/
theorem key_qualification (p : Bytes) (h : Hdr) (md : Option Val) (name : Bytes) (other : Bytes) (ho : (other == [0x5F]) = false) :
    qualifyKey p (.kw h none name) = .kw synthHdr (some p) name ∧
    qualifyKey p (.kw h (some [0x5F]) name) = .kw synthHdr none name ∧
    qualifyKey p (.kw h (some other) name) = .kw h (some other) name ∧
    qualifyKey p (.sym h md none name) = .sym synthHdr none (some p) name ∧
    qualifyKey p (.sym h md (some [0x5F]) name) = .sym synthHdr none none name ∧
    qualifyKey p (.sym h md (some other) name) = .sym h md (some other) name ∧
    qualifyKey p (.int h 5) = .int h 5 := by
  simp [qualifyKey, ho]

/-- `#:p{ body }` against `{ body }`: both fail with the same error before the closing brace;
    otherwise both hold the same values, the namespaced one holds the plain one's keys passed
    through `qualifyKey p`, and the duplicate-key verdict is taken after qualification (so
    keys that collide only after qualification are rejected) -/
theorem namespaced_map_desugars (ctx : Ctx) (f d : Nat) (dm : Bool) (start : Nat) (p : Bytes) (st : St) :
    (∀ r, mapLoop ctx f d dm start st = .error r →
        readMap ctx f d dm start (some p) st [] [] = r ∧ readMap ctx f d dm start none st [] [] = r) ∧
    (∀ nk nv stf, mapLoop ctx f d dm start st = .ok (nk, nv, stf) →
        readMap ctx f d dm start (some p) st [] [] = closeMap ctx start (nk.map (qualifyKey p)) nv stf ∧
        readMap ctx f d dm start none st [] [] = closeMap ctx start nk nv stf) :=
  nsmap_desugars ctx f d dm start p st

/-- after `#` the reader expects an unqualified keyword, optional blanks and `{`, and then runs
    the map reader with that keyword's name as the prefix -/
theorem namespaced_map_prefix (ctx : Ctx) (f d : Nat) (dm : Bool) (start : Nat) (st st' : St) (h : Hdr) (name r : Bytes)
    (hk : readValue ctx f d dm st = .ok (.kw h none name) st') (hb : skipWs st'.rest = 0x7B :: r) :
    readNsMap ctx (f + 1) d dm start st = readMap ctx f d dm start (some name) { st' with rest := r } [] [] :=
  readNsMap_is_readMap ctx f d dm start st st' h name r hk hb

/-- any other prefix form is a syntax error -/
theorem namespaced_map_bad_prefix (ctx : Ctx) (f d : Nat) (dm : Bool) (start : Nat) (st st' : St) (v : Val)
    (hk : readValue ctx f d dm st = .ok v st') (hv : ∀ h name, v ≠ .kw h none name) :
    readNsMap ctx (f + 1) d dm start st = .err (mkErr .invalidSyntax (some start) (some st'.rest.length)) st' :=
  readNsMap_bad_prefix ctx f d dm start st st' v hk hv

/-- metadata is accepted only on collections, symbols and tagged values; on those the result is
    the target with the merged map attached and its range extended to the marker -/
theorem metadata_target_gate (ctx : Ctx) (f d : Nat) (dm : Bool) (start : Nat) (st st' st'' : St) (m form : Val) (nks nvs : List Val)
    (h : readValue ctx f (d + 1) dm st = .ok m st') (hm : metaEntries m = some (nks, nvs))
    (h2 : readValue ctx f (d + 1) dm st' = .ok form st'') :
    readMeta ctx (f + 1) d dm start st =
      if form.metaTarget then
        .ok ((attachMeta ctx.cfg m form nks nvs).setHdr { (attachMeta ctx.cfg m form nks nvs).hdr with s := start }) st''
      else .err (mkErr .invalidSyntax (some start) (some st''.rest.length)) st'' :=
  meta_target_gate ctx f d dm start st st' st'' m form nks nvs h hm h2

/-- an annotation that is not a map, keyword, string, symbol or vector is an error -/
theorem metadata_annotation_gate (ctx : Ctx) (f d : Nat) (dm : Bool) (start : Nat) (st st' : St) (m : Val)
    (h : readValue ctx f (d + 1) dm st = .ok m st') (hm : metaEntries m = none) :
    readMeta ctx (f + 1) d dm start st = .err (mkErr .invalidSyntax (some start) (some st'.rest.length)) st' :=
  meta_annotation_gate ctx f d dm start st st' m h hm

/-! ## document level: the class of each Clojure-extension defect, in any open context

  For every configuration with the Clojure flag and no reader registry.  `pre` is a well-formed
  *open context* (`DescClj cfg s c 0 false pre d dm`: blanks, comments, complete discarded forms,
  open discard markers, tags, `^` / `^annotation` markers, and - when `c = true` - opened
  collections and namespaced maps holding complete forms of the configuration's grammar), the
  defect `s` follows at offset `pre.length`, and the theorems give the code and the range of the
  error `edn_read` reports for `pre ++ s`.  Metadata markers and namespaced maps count as
  nesting levels. -/

open Edn.Proofs.RejectDoc Edn.Proofs.RejectDocX Edn.Proofs.RejectDocClj Edn.Proofs.Cmpl in
/-- **the first defect decides the class** (Clojure flag): an error raised right after a
    well-formed open context is the error of the document - any error through a flat context, any
    error but UNEXPECTED_EOF when collections are open -/
theorem first_defect_decides_document (cfg : Cfg) (hclj : cfg.clj = true) (opts : Opts) (hreg : opts.registry = none)
    {s : Bytes} {c : Bool} {pre : Bytes} {d : Nat} {dm : Bool}
    (h : DescClj cfg s c 0 false pre d dm) (e : ErrInfo) (r : Bytes)
    (hs : SiteErrX cfg opts d dm s e r) (hc : c = false ∨ e.code ≠ .unexpectedEof) (hf : e.fuelOut = false)
    (hn : (e.code == .unexpectedEof && e.eofTop && opts.eofValue) = false) :
    (read cfg opts (pre ++ s)).out =
      .error e.code (posOf (pre ++ s) ((pre ++ s).length - e.es.getD r.length))
        (posOf (pre ++ s) ((pre ++ s).length - e.ee.getD r.length)) :=
  docClj_err cfg hclj opts hreg h e r hs hc hf hn

open Edn.Proofs.RejectDoc Edn.Proofs.RejectDocX Edn.Proofs.RejectDocClj Edn.Proofs.Cmpl in
/-- (a) `^` followed (after blanks, comments and discarded forms) by a closing delimiter:
    INVALID_SYNTAX from the `^` to that delimiter -/
theorem marker_without_annotation_is_error_document (cfg : Cfg) (hclj : cfg.clj = true) (opts : Opts) (hreg : opts.registry = none)
    {cc : Bool} {pre : Bytes} {d : Nat} {dm : Bool} (k : Nat) (tr : Bytes) (c : UInt8) (rest : Bytes)
    (hctx : DescClj cfg (0x5E :: (tr ++ c :: rest)) cc 0 false pre d dm) (hd : d + 1 + k ≤ Edn.Generated.Tables.maxNestingDepth)
    (ht : TrailX cfg (numJOf cfg) (strJOf cfg) k tr (c :: rest)) (hc : IsCloser c) :
    (read cfg opts (pre ++ 0x5E :: (tr ++ c :: rest))).out =
      .error .invalidSyntax (posOf (pre ++ 0x5E :: (tr ++ c :: rest)) pre.length)
        (posOf (pre ++ 0x5E :: (tr ++ c :: rest)) (pre.length + 1 + tr.length)) :=
  meta_without_annotation_closer_doc cfg hclj opts hreg k tr c rest hctx hd ht hc

open Edn.Proofs.RejectDoc Edn.Proofs.RejectDocX Edn.Proofs.RejectDocClj Edn.Proofs.Cmpl in
/-- (a) `^` followed by the end of the input (blanks, comments), no collection open:
    UNEXPECTED_EOF at the end of the input - and never the caller's end-of-input value -/
theorem marker_without_annotation_at_end_document (cfg : Cfg) (hclj : cfg.clj = true) (opts : Opts) (hreg : opts.registry = none)
    {pre : Bytes} {d : Nat} {dm : Bool} (s : Bytes)
    (hctx : DescClj cfg (0x5E :: s) false 0 false pre d dm) (hd : d < Edn.Generated.Tables.maxNestingDepth)
    (hs : skipWsScalar s = []) :
    (read cfg opts (pre ++ 0x5E :: s)).out =
      .error .unexpectedEof (posOf (pre ++ 0x5E :: s) (pre ++ 0x5E :: s).length) (posOf (pre ++ 0x5E :: s) (pre ++ 0x5E :: s).length) :=
  meta_without_annotation_eof_doc cfg hclj opts hreg s hctx hd hs

open Edn.Proofs.RejectDoc Edn.Proofs.RejectDocX Edn.Proofs.RejectDocClj Edn.Proofs.Cmpl in
/-- (b) `^annotation` (a complete form of an annotation kind) followed by a closing delimiter:
    INVALID_SYNTAX from the `^` to that delimiter -/
theorem marker_without_target_is_error_document (cfg : Cfg) (hclj : cfg.clj = true) (opts : Opts) (hreg : opts.registry = none)
    {cc : Bool} {pre : Bytes} {d : Nat} {dm : Bool} (k : Nat) (am : Val) (nks nvs : List Val) (tokm tr : Bytes) (c : UInt8) (rest : Bytes)
    (hctx : DescClj cfg (0x5E :: (tokm ++ (tr ++ c :: rest))) cc 0 false pre d dm)
    (hd : d + 1 + k ≤ Edn.Generated.Tables.maxNestingDepth)
    (hm : FX cfg k am tokm (tr ++ c :: rest)) (he : metaEntriesC am = some (nks, nvs))
    (ht : TrailX cfg (numJOf cfg) (strJOf cfg) k tr (c :: rest)) (hc : IsCloser c) :
    (read cfg opts (pre ++ 0x5E :: (tokm ++ (tr ++ c :: rest)))).out =
      .error .invalidSyntax (posOf (pre ++ 0x5E :: (tokm ++ (tr ++ c :: rest))) pre.length)
        (posOf (pre ++ 0x5E :: (tokm ++ (tr ++ c :: rest))) (pre.length + 1 + tokm.length + tr.length)) :=
  meta_without_target_closer_doc cfg hclj opts hreg k am nks nvs tokm tr c rest hctx hd hm he ht hc

open Edn.Proofs.RejectDoc Edn.Proofs.RejectDocX Edn.Proofs.RejectDocClj Edn.Proofs.Cmpl in
/-- (b) `^annotation` followed by the end of the input, no collection open: UNEXPECTED_EOF at the
    end of the input -/
theorem marker_without_target_at_end_document (cfg : Cfg) (hclj : cfg.clj = true) (opts : Opts) (hreg : opts.registry = none)
    {pre : Bytes} {d : Nat} {dm : Bool} (k : Nat) (am : Val) (nks nvs : List Val) (tokm s : Bytes)
    (hctx : DescClj cfg (0x5E :: (tokm ++ s)) false 0 false pre d dm) (hd : d + 1 + k ≤ Edn.Generated.Tables.maxNestingDepth)
    (hm : FX cfg k am tokm s) (he : metaEntriesC am = some (nks, nvs)) (hs : skipWsScalar s = []) :
    (read cfg opts (pre ++ 0x5E :: (tokm ++ s))).out =
      .error .unexpectedEof (posOf (pre ++ 0x5E :: (tokm ++ s)) (pre ++ 0x5E :: (tokm ++ s)).length)
        (posOf (pre ++ 0x5E :: (tokm ++ s)) (pre ++ 0x5E :: (tokm ++ s)).length) :=
  meta_without_target_eof_doc cfg hclj opts hreg k am nks nvs tokm s hctx hd hm he hs

open Edn.Proofs.RejectDoc Edn.Proofs.RejectDocX Edn.Proofs.RejectDocClj Edn.Proofs.Cmpl in
/-- (c) `^annotation form` where the form cannot carry metadata (a number, string, keyword,
    character, nil, boolean): INVALID_SYNTAX from the `^` to the end of that form -/
theorem metadata_on_non_target_is_error_document (cfg : Cfg) (hclj : cfg.clj = true) (opts : Opts) (hreg : opts.registry = none)
    {cc : Bool} {pre : Bytes} {d : Nat} {dm : Bool} (k : Nat) (am af : Val) (nks nvs : List Val) (tokm tokf rest : Bytes)
    (hctx : DescClj cfg (0x5E :: (tokm ++ (tokf ++ rest))) cc 0 false pre d dm)
    (hd : d + 1 + k ≤ Edn.Generated.Tables.maxNestingDepth)
    (hm : FX cfg k am tokm (tokf ++ rest)) (he : metaEntriesC am = some (nks, nvs))
    (hf : FX cfg k af tokf rest) (ht : af.metaTarget = false) :
    (read cfg opts (pre ++ 0x5E :: (tokm ++ (tokf ++ rest)))).out =
      .error .invalidSyntax (posOf (pre ++ 0x5E :: (tokm ++ (tokf ++ rest))) pre.length)
        (posOf (pre ++ 0x5E :: (tokm ++ (tokf ++ rest))) (pre.length + 1 + tokm.length + tokf.length)) :=
  meta_bad_target_doc cfg hclj opts hreg k am af nks nvs tokm tokf rest hctx hd hm he hf ht

open Edn.Proofs.RejectDoc Edn.Proofs.RejectDocX Edn.Proofs.RejectDocClj Edn.Proofs.Cmpl in
/-- (d) `^x` where `x` is a complete form that is not a map, keyword, string, symbol or vector:
    INVALID_SYNTAX from the `^` to the end of `x` -/
theorem metadata_of_wrong_kind_is_error_document (cfg : Cfg) (hclj : cfg.clj = true) (opts : Opts) (hreg : opts.registry = none)
    {cc : Bool} {pre : Bytes} {d : Nat} {dm : Bool} (k : Nat) (ax : Val) (tokx rest : Bytes)
    (hctx : DescClj cfg (0x5E :: (tokx ++ rest)) cc 0 false pre d dm) (hd : d + 1 + k ≤ Edn.Generated.Tables.maxNestingDepth)
    (hx : FX cfg k ax tokx rest) (he : metaEntriesC ax = none) :
    (read cfg opts (pre ++ 0x5E :: (tokx ++ rest))).out =
      .error .invalidSyntax (posOf (pre ++ 0x5E :: (tokx ++ rest)) pre.length)
        (posOf (pre ++ 0x5E :: (tokx ++ rest)) (pre.length + 1 + tokx.length)) :=
  meta_bad_annotation_doc cfg hclj opts hreg k ax tokx rest hctx hd hx he

open Edn.Proofs.RejectDoc Edn.Proofs.RejectDocX Edn.Proofs.RejectDocClj Edn.Proofs.Cmpl in
/-- (e) `#:ns/name`: a qualified keyword as the prefix - INVALID_SYNTAX from the `#` to the end of
    the keyword -/
theorem namespaced_map_qualified_prefix_is_error_document (cfg : Cfg) (hclj : cfg.clj = true) (opts : Opts)
    (hreg : opts.registry = none) {cc : Bool} {pre : Bytes} {d : Nat} {dm : Bool} (q ns nm rest : Bytes)
    (hctx : DescClj cfg (0x23 :: 0x3A :: (q ++ rest)) cc 0 false pre d dm) (hd : d < Edn.Generated.Tables.maxNestingDepth)
    (hl : IdentLex (0x3A :: q)) (hden : IdentDenotes (0x3A :: q) (.kw hdr0 (some ns) nm)) (hsep : DelimStart rest) :
    (read cfg opts (pre ++ 0x23 :: 0x3A :: (q ++ rest))).out =
      .error .invalidSyntax (posOf (pre ++ 0x23 :: 0x3A :: (q ++ rest)) pre.length)
        (posOf (pre ++ 0x23 :: 0x3A :: (q ++ rest)) (pre.length + 2 + q.length)) :=
  nsmap_qualified_prefix_doc cfg hclj opts hreg q ns nm rest hctx hd hl hden hsep

open Edn.Proofs.RejectDoc Edn.Proofs.RejectDocX Edn.Proofs.RejectDocClj Edn.Proofs.Cmpl in
/-- (e) `#:name`, blanks, and a byte other than `{`: INVALID_SYNTAX from the `#` to that byte -/
theorem namespaced_map_without_brace_is_error_document (cfg : Cfg) (hclj : cfg.clj = true) (opts : Opts)
    (hreg : opts.registry = none) {cc : Bool} {pre : Bytes} {d : Nat} {dm : Bool} (name tr : Bytes) (c : UInt8) (rest : Bytes)
    (hctx : DescClj cfg (0x23 :: 0x3A :: (name ++ (tr ++ c :: rest))) cc 0 false pre d dm)
    (hd : d < Edn.Generated.Tables.maxNestingDepth)
    (hl : IdentLex (0x3A :: name)) (hden : IdentDenotes (0x3A :: name) (.kw hdr0 none name))
    (ht : Blank tr) (hsep : DelimStart (tr ++ c :: rest)) (hw : isPreWs c = false) (hc : c ≠ 0x7B) :
    (read cfg opts (pre ++ 0x23 :: 0x3A :: (name ++ (tr ++ c :: rest)))).out =
      .error .invalidSyntax (posOf (pre ++ 0x23 :: 0x3A :: (name ++ (tr ++ c :: rest))) pre.length)
        (posOf (pre ++ 0x23 :: 0x3A :: (name ++ (tr ++ c :: rest))) (pre.length + 2 + name.length + tr.length)) :=
  nsmap_without_brace_doc cfg hclj opts hreg name tr c rest hctx hd hl hden ht hsep hw hc

open Edn.Proofs.RejectDoc Edn.Proofs.RejectDocX Edn.Proofs.RejectDocClj Edn.Proofs.Cmpl in
/-- (e) `#:name` and blanks end the input: INVALID_SYNTAX from the `#` to the end of the input,
    whatever is open (neither UNEXPECTED_EOF nor UNTERMINATED_COLLECTION) -/
theorem namespaced_map_prefix_at_end_is_error_document (cfg : Cfg) (hclj : cfg.clj = true) (opts : Opts)
    (hreg : opts.registry = none) {cc : Bool} {pre : Bytes} {d : Nat} {dm : Bool} (name tr : Bytes)
    (hctx : DescClj cfg (0x23 :: 0x3A :: (name ++ tr)) cc 0 false pre d dm) (hd : d < Edn.Generated.Tables.maxNestingDepth)
    (hl : IdentLex (0x3A :: name)) (hden : IdentDenotes (0x3A :: name) (.kw hdr0 none name)) (ht : Blank tr) :
    (read cfg opts (pre ++ 0x23 :: 0x3A :: (name ++ tr))).out =
      .error .invalidSyntax (posOf (pre ++ 0x23 :: 0x3A :: (name ++ tr)) pre.length)
        (posOf (pre ++ 0x23 :: 0x3A :: (name ++ tr)) (pre.length + 2 + name.length + tr.length)) :=
  nsmap_prefix_at_end_doc cfg hclj opts hreg name tr hctx hd hl hden ht

open Edn.Proofs.RejectDoc Edn.Proofs.RejectDocX Edn.Proofs.RejectDocClj Edn.Proofs.Cmpl in
/-- (f) a discarded form must be well-formed: the error `e` that the form behind `#_` raises (one
    level deeper, in discard mode - any of the defect sites (a)-(e) of `Edn.Proofs.RejectDocClj3`)
    is the error of the document -/
theorem defect_in_discarded_form_is_error_document (cfg : Cfg) (hclj : cfg.clj = true) (opts : Opts) (hreg : opts.registry = none)
    {cc : Bool} {pre : Bytes} {d : Nat} {dm : Bool} (s : Bytes)
    (hctx : DescClj cfg (0x23 :: 0x5F :: s) cc 0 false pre d dm) (hd : d < Edn.Generated.Tables.maxNestingDepth)
    (e : ErrInfo) (r : Bytes) (hs : SiteErrX cfg opts (d + 1) true s e r)
    (hc : cc = false ∨ e.code ≠ .unexpectedEof) (hf : e.fuelOut = false)
    (hn : (e.code == .unexpectedEof && e.eofTop && opts.eofValue) = false) :
    (read cfg opts (pre ++ 0x23 :: 0x5F :: s)).out =
      .error e.code (posOf (pre ++ 0x23 :: 0x5F :: s) ((pre ++ 0x23 :: 0x5F :: s).length - e.es.getD r.length))
        (posOf (pre ++ 0x23 :: 0x5F :: s) ((pre ++ 0x23 :: 0x5F :: s).length - e.ee.getD r.length)) :=
  defect_in_discarded_form_doc cfg hclj opts hreg s hctx hd e r hs hc hf hn

open Edn.Proofs.RejectDoc Edn.Proofs.RejectDocX Edn.Proofs.RejectDocClj Edn.Proofs.Cmpl in
/-- (f) spelled out for (c): `#_ ^annotation non-target` is INVALID_SYNTAX from the `^` to the end
    of the would-be target, although the whole form was to be discarded -/
theorem discarded_metadata_on_non_target_is_error_document (cfg : Cfg) (hclj : cfg.clj = true) (opts : Opts)
    (hreg : opts.registry = none) {cc : Bool} {pre : Bytes} {d : Nat} {dm : Bool}
    (k : Nat) (am af : Val) (nks nvs : List Val) (tokm tokf rest : Bytes)
    (hctx : DescClj cfg (0x23 :: 0x5F :: 0x5E :: (tokm ++ (tokf ++ rest))) cc 0 false pre d dm)
    (hd : d + 2 + k ≤ Edn.Generated.Tables.maxNestingDepth)
    (hm : FX cfg k am tokm (tokf ++ rest)) (he : metaEntriesC am = some (nks, nvs))
    (hf : FX cfg k af tokf rest) (ht : af.metaTarget = false) :
    (read cfg opts (pre ++ 0x23 :: 0x5F :: 0x5E :: (tokm ++ (tokf ++ rest)))).out =
      .error .invalidSyntax (posOf (pre ++ 0x23 :: 0x5F :: 0x5E :: (tokm ++ (tokf ++ rest))) (pre.length + 2))
        (posOf (pre ++ 0x23 :: 0x5F :: 0x5E :: (tokm ++ (tokf ++ rest))) (pre.length + 3 + tokm.length + tokf.length)) :=
  discarded_meta_bad_target_doc cfg hclj opts hreg k am af nks nvs tokm tokf rest hctx hd hm he hf ht

/-- concrete documents: code, start offset and end offset of the reported error -/
def cljErrIs (r : Result) (code : Err) (so eo : Nat) : Bool :=
  match r.out with
  | .error c es ee => c == code && es.offset == so && ee.offset == eo
  | _ => false

/-- (a) `[^]`, (b) `[^:a]`, (c) `^:a 5`, (d) `^5 [1]`, (e) `#:a [1]`, (f) `#_ ^:k 5 7`, with and
    without the experimental flag -/
example : cljErrIs (read ⟨true, false⟩ {} "[^]".toUTF8.toList) .invalidSyntax 1 2 = true := by decide +kernel
example : cljErrIs (read ⟨true, false⟩ {} "[^:a]".toUTF8.toList) .invalidSyntax 1 4 = true := by decide +kernel
example : cljErrIs (read ⟨true, false⟩ {} "^:a 5".toUTF8.toList) .invalidSyntax 0 5 = true := by decide +kernel
example : cljErrIs (read ⟨true, false⟩ {} "^5 [1]".toUTF8.toList) .invalidSyntax 0 2 = true := by decide +kernel
example : cljErrIs (read ⟨true, false⟩ {} "#:a [1]".toUTF8.toList) .invalidSyntax 0 4 = true := by decide +kernel
example : cljErrIs (read ⟨true, false⟩ {} "#_ ^:k 5 7".toUTF8.toList) .invalidSyntax 3 8 = true := by decide +kernel
example : cljErrIs (read ⟨true, true⟩ {} "[^]".toUTF8.toList) .invalidSyntax 1 2 = true := by decide +kernel
example : cljErrIs (read ⟨true, true⟩ {} "#_ ^:k 5 7".toUTF8.toList) .invalidSyntax 3 8 = true := by decide +kernel
example : cljErrIs (read ⟨true, false⟩ {} "^".toUTF8.toList) .unexpectedEof 1 1 = true := by decide +kernel
example : cljErrIs (read ⟨true, false⟩ { eofValue := true } "^:a ;c".toUTF8.toList) .unexpectedEof 6 6 = true := by decide +kernel
example : cljErrIs (read ⟨true, false⟩ {} "#:a/b{}".toUTF8.toList) .invalidSyntax 0 5 = true := by decide +kernel
example : cljErrIs (read ⟨true, false⟩ {} "[#:a ".toUTF8.toList) .invalidSyntax 1 5 = true := by decide +kernel
example : cljErrIs (read ⟨true, false⟩ {} "#:a{:b ^}".toUTF8.toList) .invalidSyntax 7 8 = true := by decide +kernel

/-- the hypotheses are satisfiable, and the theorem at work: `[^:a]` - the context is the open
    vector, the annotation `:a` is a form of the grammar of an annotation kind, `]` follows -/
example : (read ⟨true, false⟩ {} [0x5B, 0x5E, 0x3A, 0x61, 0x5D]).out =
    .error .invalidSyntax (Edn.Proofs.RejectDoc.posOf [0x5B, 0x5E, 0x3A, 0x61, 0x5D] 1)
      (Edn.Proofs.RejectDoc.posOf [0x5B, 0x5E, 0x3A, 0x61, 0x5D] 4) := by
  obtain ⟨k, am, hk, hm, hp⟩ := Edn.Proofs.RejectDocClj.fx_of_read ⟨true, false⟩ 20 2 false [0x3A, 0x61] [0x5D] (by decide)
    (fun a => (metaEntriesC a).isSome) (by decide +kernel)
  obtain ⟨⟨nks, nvs⟩, he⟩ := Option.isSome_iff_exists.mp hp
  have hctx : Edn.Proofs.RejectDocClj.DescClj ⟨true, false⟩ (0x5E :: ([0x3A, 0x61] ++ ([] ++ 0x5D :: []))) true 0 false
      (Edn.Proofs.RejectDoc.opener 1 ++ ([] ++ [])) 1 false :=
    .coll 0 false 1 0 0 [] [] 1 false (by decide) (.nil 0 _) (.here true 1 false)
  exact marker_without_target_is_error_document ⟨true, false⟩ rfl {} rfl k am nks nvs [0x3A, 0x61] [] 0x5D [] hctx (by omega) hm he
    (.blank k [] _ .nil) (.inr (.inl rfl))

end Edn.Properties.C19
