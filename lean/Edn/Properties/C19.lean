/-
  Property C19 — namespaced maps and metadata desugar exactly (Clojure extensions).
  Theorem part: the metadata merge (unique keys, outer annotation wins), transparency of
  metadata for the target's value, equality and hash, a marker lacking its annotation or its
  target is an error, the target and annotation gates, the key rewriting of namespaced maps, and
  the desugaring of a namespaced map: the same reading as the plain map over the same body with
  every key passed through the qualification before the duplicate check.
-/
import Edn.Proofs.MetaMerge
import Edn.Proofs.NsMap

namespace Edn.Properties.C19
open Edn.Model Edn.Spec Edn.Proofs

/-- attaching metadata (and moving the start of the source range to the `^`) leaves the
    target's hash, depth and equality with any other value unchanged -/
theorem metadata_is_transparent (cfg : Cfg) (v : Val) (m : Option Val) :
    hashV cfg (v.setMd m) = hashV cfg v ∧ depth (v.setMd m) = depth v ∧
    (∀ f b, eqvF cfg f (v.setMd m) b = eqvF cfg f v b) ∧ (∀ f b, eqvF cfg f b (v.setMd m) = eqvF cfg f b v) :=
  setMd_transparent cfg v m

/-- merging a further (outer) annotation into existing metadata keeps the keys unique … -/
theorem merged_keys_unique (cfg : Cfg) (newKs newVs ks vs : List Val) (hl : ks.length = vs.length)
    (hn : KeysOK cfg newKs) (ho : KeysOK cfg ks) :
    pairwiseDistinct cfg (newKs ++ (keepOld cfg newKs ks vs).1) :=
  merged_keys_distinct cfg newKs newVs ks vs hl hn ho

/-- … and a lookup in the merged map yields the outer annotation's value when it has the key,
    otherwise the inner one's: the merge of the expanded annotations with outer ones winning -/
theorem outer_annotation_wins (cfg : Cfg) (newKs newVs ks vs : List Val) (probe : Val)
    (hln : newKs.length = newVs.length) (hl : ks.length = vs.length)
    (hn : KeysOK cfg newKs) (ho : KeysOK cfg ks)
    (hp : WF cfg probe) (hpd : depth probe < maxDepthFuel) (hpc : cacheOK cfg probe = true) :
    findKey (fun k' k => equal cfg k' k) probe (newKs ++ (keepOld cfg newKs ks vs).1) (newVs ++ (keepOld cfg newKs ks vs).2)
      = match findKey (fun k' k => equal cfg k' k) probe newKs newVs with
        | some v => some v
        | none => findKey (fun k' k => equal cfg k' k) probe ks vs :=
  merged_lookup cfg newKs newVs ks vs probe hln hl hn ho hp hpd hpc

/-- the expansion of the five annotation forms -/
theorem annotation_expansion (m : Val) :
    metaEntries m = match m with
      | .map _ _ ks vs => some (ks, vs)
      | .kw .. => some ([m], [.bool synthHdr true])
      | .vec .. => some ([.kw synthHdr none "param-tags".toUTF8.toList], [m])
      | .str .. | .sym .. => some ([.kw synthHdr none "tag".toUTF8.toList], [m])
      | _ => none := by
  cases m <;> rfl

/-- a marker whose annotation or target is missing (a closing delimiter follows) is an error,
    and so is an annotation or target of the wrong kind -/
theorem marker_without_operand_is_error (ctx : Ctx) (f d : Nat) (dm : Bool) (start : Nat) (st st' : St)
    (h : readValue ctx f (d + 1) dm st = .closer st') :
    readMeta ctx (f + 1) d dm start st = .err (mkErr .invalidSyntax (some start) (some st'.rest.length)) st' := by
  rw [readMeta]; simp only [h, Ctx.pos]

theorem marker_without_target_is_error (ctx : Ctx) (f d : Nat) (dm : Bool) (start : Nat) (st st' st'' : St) (m : Val)
    (nks nvs : List Val) (h : readValue ctx f (d + 1) dm st = .ok m st') (hm : metaEntries m = some (nks, nvs))
    (h2 : readValue ctx f (d + 1) dm st' = .closer st'') :
    readMeta ctx (f + 1) d dm start st = .err (mkErr .invalidSyntax (some start) (some st''.rest.length)) st'' := by
  rw [readMeta]; simp only [h, hm, h2, Ctx.pos]

/-- namespaced maps: an unqualified keyword or symbol key is qualified with the prefix, a key
    qualified with `_` is unqualified, every other key is kept -/
theorem key_qualification (p : Bytes) (h : Hdr) (md : Option Val) (name : Bytes) (other : Bytes) (ho : (other == [0x5F]) = false) :
    qualifyKey p (.kw h none name) = .kw synthHdr (some p) name ∧
    qualifyKey p (.kw h (some [0x5F]) name) = .kw synthHdr none name ∧
    qualifyKey p (.kw h (some other) name) = .kw h (some other) name ∧
    qualifyKey p (.sym h md none name) = .sym synthHdr none (some p) name ∧
    qualifyKey p (.sym h md (some [0x5F]) name) = .sym synthHdr none none name ∧
    qualifyKey p (.sym h md (some other) name) = .sym h md (some other) name ∧
    qualifyKey p (.int h 5) = .int h 5 := by
  simp [qualifyKey, ho]

/-- `#:p{ body }` against `{ body }`: both fail with the same error before the closing brace;
    otherwise both hold the same values, the namespaced one holds the plain one's keys passed
    through `qualifyKey p`, and the duplicate-key verdict is taken after qualification (so
    keys that collide only after qualification are rejected) -/
theorem namespaced_map_desugars (ctx : Ctx) (f d : Nat) (dm : Bool) (start : Nat) (p : Bytes) (st : St) :
    (∀ r, mapLoop ctx f d dm start st = .error r →
        readMap ctx f d dm start (some p) st [] [] = r ∧ readMap ctx f d dm start none st [] [] = r) ∧
    (∀ nk nv stf, mapLoop ctx f d dm start st = .ok (nk, nv, stf) →
        readMap ctx f d dm start (some p) st [] [] = closeMap ctx start (nk.map (qualifyKey p)) nv stf ∧
        readMap ctx f d dm start none st [] [] = closeMap ctx start nk nv stf) :=
  nsmap_desugars ctx f d dm start p st

/-- after `#` the reader expects an unqualified keyword, optional blanks and `{`, and then runs
    the map reader with that keyword's name as the prefix -/
theorem namespaced_map_prefix (ctx : Ctx) (f d : Nat) (dm : Bool) (start : Nat) (st st' : St) (h : Hdr) (name r : Bytes)
    (hk : readValue ctx f d dm st = .ok (.kw h none name) st') (hb : skipWs st'.rest = 0x7B :: r) :
    readNsMap ctx (f + 1) d dm start st = readMap ctx f d dm start (some name) { st' with rest := r } [] [] :=
  readNsMap_is_readMap ctx f d dm start st st' h name r hk hb

/-- any other prefix form is a syntax error -/
theorem namespaced_map_bad_prefix (ctx : Ctx) (f d : Nat) (dm : Bool) (start : Nat) (st st' : St) (v : Val)
    (hk : readValue ctx f d dm st = .ok v st') (hv : ∀ h name, v ≠ .kw h none name) :
    readNsMap ctx (f + 1) d dm start st = .err (mkErr .invalidSyntax (some start) (some st'.rest.length)) st' :=
  readNsMap_bad_prefix ctx f d dm start st st' v hk hv

/-- metadata is accepted only on collections, symbols and tagged values; on those the result is
    the target with the merged map attached and its range extended to the marker -/
theorem metadata_target_gate (ctx : Ctx) (f d : Nat) (dm : Bool) (start : Nat) (st st' st'' : St) (m form : Val) (nks nvs : List Val)
    (h : readValue ctx f (d + 1) dm st = .ok m st') (hm : metaEntries m = some (nks, nvs))
    (h2 : readValue ctx f (d + 1) dm st' = .ok form st'') :
    readMeta ctx (f + 1) d dm start st =
      if form.metaTarget then
        .ok ((attachMeta ctx.cfg m form nks nvs).setHdr { (attachMeta ctx.cfg m form nks nvs).hdr with s := start }) st''
      else .err (mkErr .invalidSyntax (some start) (some st''.rest.length)) st'' :=
  meta_target_gate ctx f d dm start st st' st'' m form nks nvs h hm h2

/-- an annotation that is not a map, keyword, string, symbol or vector is an error -/
theorem metadata_annotation_gate (ctx : Ctx) (f d : Nat) (dm : Bool) (start : Nat) (st st' : St) (m : Val)
    (h : readValue ctx f (d + 1) dm st = .ok m st') (hm : metaEntries m = none) :
    readMeta ctx (f + 1) d dm start st = .err (mkErr .invalidSyntax (some start) (some st'.rest.length)) st' :=
  meta_annotation_gate ctx f d dm start st st' m h hm

end Edn.Properties.C19
