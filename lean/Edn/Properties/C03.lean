/-
  Property C03 — every well-formed document is accepted and reads to the value it denotes.

  The declarative side is `Edn.Spec.Renders`: an inductive relation between values of the data
  model and the byte strings that spell them (nil, booleans, decimal integers incl. big ones, floats, big
  decimals, strings with escapes, characters, keywords, symbols, lists, vectors, sets, maps, tagged
  elements; every kind of whitespace, commas, comments and discarded forms between forms).
  The theorem quantifies over every derivation, so over documents of every size and shape up
  to the reader's nesting limit.  A float renders the double nearest to the token's exact decimal
  value (the rounding itself is C05), string contents are C06; the grammar classes the reader is known
  to treat differently are listed in known_findings.json and excluded by the shape of `Renders`.
-/
import Edn.Proofs.Complete
import Edn.Proofs.Str
import Edn.Proofs.IdentSound
import Edn.Proofs.Sound
import Edn.Proofs.CharSound
import Edn.Proofs.CompleteX
import Edn.Proofs.SoundXCore
import Edn.Proofs.SoundXInst

namespace Edn.Properties.C03
open Edn.Model Edn.Spec Edn.Proofs

/-- `edn_read` accepts every rendering whose nesting is within the limit, whatever follows it
    (nothing, or anything starting with a terminator), and the tree it returns has exactly the
    rendered content: kinds, payloads, element order and count, tag and identifier bytes -/
theorem every_rendering_is_read (cfg : Cfg) (opts : Opts) (hreg : opts.registry = none) (k : Nat) (a : Val) (s rest : Bytes)
    (h : Renders cfg k a s) (hk : k ≤ Edn.Generated.Tables.maxNestingDepth) (ht : TermStart rest) :
    ∃ v, (read cfg opts (s ++ rest)).out = .value v ∧ strip v = a :=
  read_rendering cfg opts hreg k a s rest h hk ht

/-- the same inside any context: at every nesting depth that leaves room for the rendering,
    in either discard mode, with any call log and continuation, exactly the rendering's bytes
    are consumed -/
theorem rendering_read_in_context (cfg : Cfg) (opts : Opts) (hreg : opts.registry = none) (k : Nat) (a : Val) (s : Bytes)
    (h : Renders cfg k a s) (d : Nat) (hd : d + k ≤ Edn.Generated.Tables.maxNestingDepth) :
    Reads cfg opts d a s :=
  complete cfg opts hreg k a s h d hd

/-- the content comparison is the library's own structural equality: positions, caches and
    metadata do not enter it -/
theorem content_is_what_equality_sees (cfg : Cfg) (a b : Val) : Eqv cfg (strip a) (strip b) ↔ Eqv cfg a b :=
  Eqv_strip cfg a b

/-- a string literal's value denotes exactly the spelled content (every escape decoded) -/
theorem string_content (cfg : Cfg) (sp dn : Bytes) (h : StrContent cfg sp dn) (f : Nat) (hf : sp.length < f) :
    decodeString cfg f sp = some dn :=
  decode_content cfg sp dn h f hf

/-- non-vacuity: `[nil #_ true ; c␊ (1)]` is a rendering -/
example : ∃ s, s = "[nil #_true ;c\n(1)]".toUTF8.toList ∧
    Renders Cfg.core 2 (.vec hdr0 none [.nil hdr0, .list hdr0 none [.int hdr0 1]]) s := by
  have h1 : Renders Cfg.core 0 (.int hdr0 1) [0x31] :=
    .int 0 [] [0x31] false (.inl ⟨rfl, rfl⟩) ⟨by decide, by decide, by decide⟩ (by decide)
  have hl : Renders Cfg.core 1 (.list hdr0 none [.int hdr0 1]) [0x28, 0x31, 0x29] :=
    .list 0 _ [0x31] (.last 0 _ [0x31] [] h1 .nil)
  have hc : Blank [0x3B, 0x63, 0x0A] := .comment [0x63] [] (by decide) .nil
  have hd : Renders Cfg.core 1 (.list hdr0 none [.int hdr0 1]) (0x23 :: 0x5F :: ("true".toUTF8.toList ++ [0x20] ++ ([0x3B, 0x63, 0x0A] ++ [0x28, 0x31, 0x29]))) :=
    .discard 0 _ (.bool hdr0 true) _ [0x20] _ (.true_ 0) (.ws 0x20 [] (by decide +kernel) .nil) (by decide) (.blank 1 _ _ _ hc hl)
  refine ⟨_, ?_, .vec 1 _ _ (.cons 1 _ _ "nil".toUTF8.toList [0x20] _ (.nil 1) (.ws 0x20 [] (by decide +kernel) .nil) (by decide) (by decide)
    (.last 1 _ _ [] hd .nil))⟩
  decide +kernel

/-- Identifier tokens, exactness (every configuration, every token length - the 16-byte block
    scanner and the scalar tail agree): the identifier reader returns a value **iff** the maximal
    run of non-delimiter bytes at the cursor is lexically well-formed (`IdentLex`: non-empty, no
    `::`) and denotes it (`IdentDenotes`: `nil` / `true` / `false`, keyword, symbol, with the
    namespace split at the first `/`); it consumes exactly that run and records no reader call. -/
theorem identifier_reader_is_the_grammar (ctx : Ctx) (tok rest : Bytes) (cl : List Call)
    (hne : ∀ c ∈ tok, isDelim c = false) (hr : rest = [] ∨ ∃ c t, rest = c :: t ∧ isDelim c = true) (a : Val) :
    (∃ v, readIdentifier ctx { rest := tok ++ rest, calls := cl } = .ok v { rest := rest, calls := cl } ∧ strip v = a) ↔
      (IdentLex tok ∧ IdentDenotes tok a) := by
  constructor
  · rintro ⟨v, hv, rfl⟩
    by_cases hgood : IdentLex tok ∧ ∃ a, IdentDenotes tok a
    · obtain ⟨hl, a', hd⟩ := hgood
      obtain ⟨v', hv', hsv⟩ := readIdentifier_complete ctx tok rest cl a' hl hr hd
      rw [hv] at hv'
      cases hv'
      exact ⟨hl, hsv ▸ hd⟩
    · obtain ⟨e, st', he, -⟩ := readIdentifier_rejects ctx tok rest cl hne hr hgood
      rw [hv] at he
      cases he
  · rintro ⟨hl, hd⟩
    exact readIdentifier_complete ctx tok rest cl a hl hr hd

/-- … and whatever the identifier reader accepts, from any cursor, is such a token -/
theorem identifier_reader_sound (ctx : Ctx) (st st' : St) (v : Val) (h : readIdentifier ctx st = .ok v st') :
    ∃ tok, st.rest = tok ++ st'.rest ∧ st'.calls = st.calls ∧ IdentLex tok ∧
      (st'.rest = [] ∨ ∃ c t, st'.rest = c :: t ∧ isDelim c = true) ∧ IdentDenotes tok (strip v) :=
  readIdentifier_sound ctx st st' v h

/-- **The accepted language, exactly** (core configuration, no reader registry): `edn_read` returns
    a tree with content `a` **iff** the input starts with a form of `Edn.Spec.Grammar.Form` that
    denotes `a` and whose nesting is within the limit.  `Form` is a declarative grammar (no cursor,
    fuel or dispatch table): numbers `CoreNum`, identifiers `IdentLex`/`IdentDenotes`, raw string
    literals, characters, `##Inf`/`##-Inf`/`##NaN`, lists, vectors, sets and maps with pairwise
    distinct members, tagged elements, blanks, comments and discards anywhere between forms; it
    contains `Renders` (well-separated renderings) and also what the implementation accepts beyond
    the published grammar (forms touching where a delimiter byte ends the token, tags spelled with
    any identifier token, `##Inf` followed by anything, escapes checked only on decode). -/
theorem core_reader_accepts_exactly_the_grammar (opts : Opts) (hreg : opts.registry = none) (input : Bytes) (a : Val) :
    (∃ v, (read Cfg.core opts input).out = .value v ∧ strip v = a) ↔
    ∃ k tok rest, k ≤ Edn.Generated.Tables.maxNestingDepth ∧ input = tok ++ rest ∧ Form k a tok rest :=
  read_core_iff opts hreg input a

/-- the same in every context (any depth, discard mode, call log, fuel): a returned value means a
    form of the grammar was consumed, exactly its bytes, nothing was logged, and the nesting fits -/
theorem core_value_reader_sound (opts : Opts) (hreg : opts.registry = none) (f d : Nat) (dm : Bool) (st st' : St) (v : Val)
    (hd : d ≤ Edn.Generated.Tables.maxNestingDepth)
    (h : readValue { cfg := Cfg.core, opts := opts } f d dm st = .ok v st') :
    ∃ k tok, d + k ≤ Edn.Generated.Tables.maxNestingDepth ∧ st.rest = tok ++ st'.rest ∧ st'.calls = st.calls ∧
      Form k (strip v) tok st'.rest :=
  readValue_core_sound_fits opts hreg f d dm st st' v hd h

/-- … and conversely every form that fits is read, in every context, as the value it denotes -/
theorem core_form_is_read (opts : Opts) (hreg : opts.registry = none) (k : Nat) (a : Val) (tok rest : Bytes)
    (h : Form k a tok rest) (d : Nat) (hd : d + k ≤ Edn.Generated.Tables.maxNestingDepth) (dm : Bool) (cl : List Call) (f : Nat)
    (hf : 2 * (tok.length + rest.length) + 2 ≤ f) :
    ∃ v, readValue { cfg := Cfg.core, opts := opts } f d dm { rest := tok ++ rest, calls := cl }
          = .ok v { rest := rest, calls := cl } ∧ strip v = a :=
  form_is_read opts hreg k a tok rest h d hd dm cl f hf

/-- Character literals, exactness in every configuration: `\` + `body` followed by a delimiter (or
    the end) reads as the character `cp` **iff** `body` spells `cp` (`CharTokX`: the four names;
    `formfeed`, `backspace`, `oNNN` with the Clojure flag; `uXXXX`, and 5 or 6 hex digits with the
    experimental flag; any single byte but blank ones) and `cp` is a code point -/
theorem character_reader_is_the_grammar (ctx : Ctx) (body rest : Bytes) (cl : List Call) (cp : Nat) (hr : DelimStart rest) :
    (∃ v, readCharacter ctx { rest := 0x5C :: (body ++ rest), calls := cl } = .ok v { rest := rest, calls := cl } ∧
        strip v = .char hdr0 cp)
      ↔ (CharTokX ctx.cfg body cp ∧ cp ≤ 0x10FFFF) :=
  readCharacter_iff ctx body rest cl cp hr

/-- non-vacuity: `[1"a"]` (no separator) is a form - a vector of the integer 1 and the string `a` -/
example : (match (read Cfg.core {} "[1\"a\"]".toUTF8.toList).out with | .value _ => true | _ => false) = true := by decide +kernel

/-! ## The accepted language in all four configurations

`Edn.Spec.GrammarX.FormX cfg N S` generalises `Form` to every combination of the two feature flags:
metadata `^annotation target` and namespaced maps `#:ns{…}` (Clojure flag), the character names and
escapes of each configuration (`CharTokX cfg`), `^` as an identifier byte without the Clojure flag.
Contents are compared through `stripM` — like `strip`, but metadata is kept (it is part of what is
read).  Number tokens and string tokens enter through the judgements `N`, `S` with the exactness
hypotheses `NumExact cfg N`, `StrExact cfg S`; they are discharged below for all four configurations
(core: `CoreNum`, `RawStr`; Clojure flag: `CljNum`/`CljNumEnd`; experimental flag: `ExpNum`, text blocks),
so that each configuration also has a statement with no abstract hypothesis left. -/

/-- **The accepted language, exactly, in every configuration** (no reader registry): `edn_read`
    returns a tree with content `a` (metadata included) **iff** the input starts with a form of
    `FormX cfg N S` that denotes `a` and whose nesting is within the limit — for any number / string
    judgements that are exact for the two leaf readers of that configuration. -/
theorem reader_accepts_exactly_the_grammar (cfg : Cfg) (opts : Opts) (hreg : opts.registry = none) (N : NumJ) (S : StrJ)
    (hN : NumExact cfg N) (hS : StrExact cfg S) (input : Bytes) (a : Val) :
    (∃ v, (read cfg opts input).out = .value v ∧ stripM v = a) ↔
    ∃ k tok rest, k ≤ Edn.Generated.Tables.maxNestingDepth ∧ input = tok ++ rest ∧ FormX cfg N S k a tok rest :=
  read_iff_X cfg opts hreg N S hN hS input a

/-- the exactness hypotheses are satisfiable: core numbers, Clojure numbers (either experimental
    setting), ordinary strings without the experimental flag -/
theorem number_judgement_core : NumExact Cfg.core coreNumJ := numExact_core
theorem number_judgement_clj (cfg : Cfg) (hc : cfg.clj = true) : NumExact cfg (cljNumJ cfg) := numExact_clj cfg hc
theorem string_judgement_raw (cfg : Cfg) (he : cfg.exp = false) : StrExact cfg rawStrJ := strExact_raw cfg he

/-- **The accepted language with the Clojure flag, exactly** (no experimental flag, no registry; no
    abstract hypothesis): numbers are `CljNum` tokens ended as `CljNumEnd` allows, strings raw
    literals, characters `CharTokX`, plus metadata and namespaced maps. -/
theorem clj_reader_accepts_exactly_the_grammar (opts : Opts) (hreg : opts.registry = none) (input : Bytes) (a : Val) :
    (∃ v, (read ⟨true, false⟩ opts input).out = .value v ∧ stripM v = a) ↔
    ∃ k tok rest, k ≤ Edn.Generated.Tables.maxNestingDepth ∧ input = tok ++ rest ∧
      FormX ⟨true, false⟩ (cljNumJ ⟨true, false⟩) rawStrJ k a tok rest :=
  read_iff_X ⟨true, false⟩ opts hreg _ _ (numExact_clj _ rfl) (strExact_raw _ rfl) input a

/-- both flags: numbers are discharged (`CljNum` with `_` separators), for any exact string /
    text-block judgement (instantiated in `clj_exp_reader_accepts_exactly_the_grammar_inst`) -/
theorem clj_exp_reader_accepts_exactly_the_grammar (opts : Opts) (hreg : opts.registry = none) (S : StrJ)
    (hS : StrExact ⟨true, true⟩ S) (input : Bytes) (a : Val) :
    (∃ v, (read ⟨true, true⟩ opts input).out = .value v ∧ stripM v = a) ↔
    ∃ k tok rest, k ≤ Edn.Generated.Tables.maxNestingDepth ∧ input = tok ++ rest ∧
      FormX ⟨true, true⟩ (cljNumJ ⟨true, true⟩) S k a tok rest :=
  read_iff_X ⟨true, true⟩ opts hreg _ S (numExact_clj _ rfl) hS input a

/-- experimental flag only, for any exact leaf judgements (instantiated in
    `exp_reader_accepts_exactly_the_grammar_inst`) -/
theorem exp_reader_accepts_exactly_the_grammar (opts : Opts) (hreg : opts.registry = none) (N : NumJ) (S : StrJ)
    (hN : NumExact ⟨false, true⟩ N) (hS : StrExact ⟨false, true⟩ S) (input : Bytes) (a : Val) :
    (∃ v, (read ⟨false, true⟩ opts input).out = .value v ∧ stripM v = a) ↔
    ∃ k tok rest, k ≤ Edn.Generated.Tables.maxNestingDepth ∧ input = tok ++ rest ∧ FormX ⟨false, true⟩ N S k a tok rest :=
  read_iff_X ⟨false, true⟩ opts hreg N S hN hS input a

/-- **the new grammar specialises to the old one**: with both flags off `FormX` is `Form` -/
theorem grammarX_core_is_grammar (k : Nat) (a : Val) (tok rest : Bytes) :
    FormX Cfg.core coreNumJ rawStrJ k a tok rest ↔ Form k a tok rest :=
  formX_core_iff_form k a tok rest

/-- … so the core theorem is an instance, with the stronger content comparison: a tree read in the
    core configuration carries no metadata anywhere -/
theorem core_reader_accepts_exactly_the_grammar_with_metadata (opts : Opts) (hreg : opts.registry = none) (input : Bytes) (a : Val) :
    (∃ v, (read Cfg.core opts input).out = .value v ∧ stripM v = a) ↔
    ∃ k tok rest, k ≤ Edn.Generated.Tables.maxNestingDepth ∧ input = tok ++ rest ∧ Form k a tok rest := by
  rw [read_iff_X Cfg.core opts hreg _ _ numExact_core (strExact_raw _ rfl) input a]
  constructor
  · rintro ⟨k, tok, rest, h1, h2, h3⟩
    exact ⟨k, tok, rest, h1, h2, (formX_core_iff_form k a tok rest).mp h3⟩
  · rintro ⟨k, tok, rest, h1, h2, h3⟩
    exact ⟨k, tok, rest, h1, h2, (formX_core_iff_form k a tok rest).mpr h3⟩

/-- soundness in every context (any fuel, depth, discard mode, call log): a returned value means a
    form of the grammar was consumed, exactly its bytes, nothing was logged, and the nesting fits -/
theorem value_reader_sound (cfg : Cfg) (opts : Opts) (hreg : opts.registry = none) (N : NumJ) (S : StrJ)
    (hN : NumExact cfg N) (hS : StrExact cfg S) (f d : Nat) (dm : Bool) (st st' : St) (v : Val)
    (h : readValue { cfg := cfg, opts := opts } f d dm st = .ok v st') (hd : d ≤ Edn.Generated.Tables.maxNestingDepth) :
    ∃ k tok, d + k ≤ Edn.Generated.Tables.maxNestingDepth ∧ st.rest = tok ++ st'.rest ∧ st'.calls = st.calls ∧
      FormX cfg N S k (stripM v) tok st'.rest :=
  readValue_sound_X cfg opts hreg N S hN hS f d dm st st' v h hd

/-- … and conversely every form that fits is read, in every context, as the value it denotes -/
theorem form_is_read_in_context (cfg : Cfg) (opts : Opts) (hreg : opts.registry = none) (N : NumJ) (S : StrJ)
    (hN : NumExact cfg N) (hS : StrExact cfg S) (k : Nat) (a : Val) (tok rest : Bytes)
    (h : FormX cfg N S k a tok rest) (d : Nat) (hd : d + k ≤ Edn.Generated.Tables.maxNestingDepth) (dm : Bool) (cl : List Call) (f : Nat)
    (hf : 2 * (tok.length + rest.length) + 2 ≤ f) :
    ∃ v, readValue { cfg := cfg, opts := opts } f d dm { rest := tok ++ rest, calls := cl }
          = .ok v { rest := rest, calls := cl } ∧ stripM v = a :=
  formX_is_read cfg opts hreg N S hN hS k a tok rest h d hd dm cl f hf

/-- the metadata merge of the grammar (`attachMetaC`, with the specification's equality `Eqv`) is
    what `edn_read_metadata` computes on values with valid caches -/
theorem metadata_merge_on_contents (cfg : Cfg) (m form : Val) (nks nvs : List Val) (hn : Elems cfg nks)
    (ho : ∀ h md ks vs, form.md = some (.map h md ks vs) → Elems cfg ks) :
    stripM (attachMeta cfg m form nks nvs) = attachMetaC cfg (stripM form) (stripML nks) (stripML nvs) :=
  SndX.stripM_attachMeta cfg m form nks nvs hn ho

/-- accepted with the Clojure flag: `^:a [1]` is the vector `[1]` carrying the metadata `{:a true}` … -/
example : (match (read ⟨true, false⟩ {} "^:a [1]".toUTF8.toList).out with
    | .value (.vec _ (some (.map _ none [.kw _ none nm] [.bool _ true])) [.int _ 1]) => nm == "a".toUTF8.toList
    | _ => false) = true := by decide +kernel

/-- … `#:p{:a 1 :_/b 2 :q/c 3}` the map `{:p/a 1, :b 2, :q/c 3}` … -/
example : (match (read ⟨true, false⟩ {} "#:p{:a 1 :_/b 2 :q/c 3}".toUTF8.toList).out with
    | .value (.map _ none [.kw _ (some p) a, .kw _ none b, .kw _ (some q) c] [.int _ 1, .int _ 2, .int _ 3]) =>
      p == "p".toUTF8.toList && a == "a".toUTF8.toList && b == "b".toUTF8.toList && q == "q".toUTF8.toList &&
        c == "c".toUTF8.toList
    | _ => false) = true := by decide +kernel

example : (match (read ⟨true, false⟩ {} "#:p{:a 1}".toUTF8.toList).out with
    | .value (.map _ none [.kw _ (some p) a] [.int _ 1]) => p == "p".toUTF8.toList && a == "a".toUTF8.toList
    | _ => false) = true := by decide +kernel

/-- … and `[1/2 0x1F]` the vector of the ratio 1/2 and the integer 31 -/
example : (match (read ⟨true, false⟩ {} "[1/2 0x1F]".toUTF8.toList).out with
    | .value (.vec _ none [.ratio _ 1 2, .int _ 31]) => true
    | _ => false) = true := by decide +kernel

/-- non-vacuity of the right-hand side: by the theorem, the grammar has a derivation for `^:a [1]` -/
example : ∃ a k tok rest, k ≤ Edn.Generated.Tables.maxNestingDepth ∧ "^:a [1]".toUTF8.toList = tok ++ rest ∧
    FormX ⟨true, false⟩ (cljNumJ ⟨true, false⟩) rawStrJ k a tok rest := by
  have hb : (match (read ⟨true, false⟩ {} "^:a [1]".toUTF8.toList).out with | .value _ => true | _ => false) = true := by
    decide +kernel
  cases ho : (read ⟨true, false⟩ {} "^:a [1]".toUTF8.toList).out with
  | value v =>
    obtain ⟨k, tok, rest, h⟩ := (clj_reader_accepts_exactly_the_grammar {} rfl _ (stripM v)).mp ⟨v, ho, rfl⟩
    exact ⟨stripM v, k, tok, rest, h⟩
  | eofValue => rw [ho] at hb; cases hb
  | error c s e => rw [ho] at hb; cases hb
  | fuelOut => rw [ho] at hb; cases hb

/-- what the model (checked against the library by the correspondence runs) says about the corners:
    qualification happens before the duplicate check and drops a key's own metadata; blanks and
    comments may stand between `#:ns` and `{`; metadata is invisible to the duplicate check; without
    the Clojure flag `^` is an identifier byte; inside a tag it always is -/
example : (match (read ⟨true, false⟩ {} "#:a{:x 1 :a/x 2}".toUTF8.toList).out with
    | .error .duplicateKey _ _ => true | _ => false) = true := by decide +kernel
example : (match (read ⟨true, false⟩ {} "#:p{^:m x 1}".toUTF8.toList).out with
    | .value (.map _ none [.sym _ none (some _) _] [.int _ 1]) => true | _ => false) = true := by decide +kernel
example : (match (read ⟨true, false⟩ {} "#:a ;c\n,{:x 1}".toUTF8.toList).out with
    | .value (.map ..) => true | _ => false) = true := by decide +kernel
example : (match (read ⟨true, false⟩ {} "#{x ^:a x}".toUTF8.toList).out with
    | .error .duplicateElement _ _ => true | _ => false) = true := by decide +kernel
example : (match (read ⟨false, true⟩ {} "^:a [1]".toUTF8.toList).out with
    | .value (.sym _ none none nm) => nm == "^:a".toUTF8.toList | _ => false) = true := by decide +kernel
example : (match (read ⟨true, false⟩ {} "#foo^x [1]".toUTF8.toList).out with
    | .value (.tagged _ none tag (.vec ..)) => tag == "foo^x".toUTF8.toList | _ => false) = true := by decide +kernel

/-- metadata markers count towards the nesting limit (`FormX.withMeta` is one level, like a
    collection, a tag or a discard): 100 markers in front of a symbol are accepted, 101 are not -/
example : (match (read ⟨true, false⟩ {} ((List.replicate 100 "^:a ".toUTF8.toList).flatten ++ "x".toUTF8.toList)).out with
    | .value (.sym ..) => true | _ => false) = true := by decide +kernel
example : (match (read ⟨true, false⟩ {} ((List.replicate 101 "^:a ".toUTF8.toList).flatten ++ "x".toUTF8.toList)).out with
    | .error .invalidSyntax _ _ => true | _ => false) = true := by decide +kernel

/-! ### the two configurations with the experimental flag, fully instantiated

The leaf theorems of the experimental flag (`readNumber_exp_iff`: `ExpNum` tokens; the text-block
reader: `readString_textblock_sound` / `readTextBlockBody_complete`) discharge the remaining
hypotheses: numbers are `ExpNum` (experimental flag alone) or `CljNum` with separators (both flags);
a string token is an ordinary literal that does not start with `"""⏎`, or a text block (`expStrJ`). -/

theorem number_judgement_exp : NumExact ⟨false, true⟩ expNumJ := numExact_exp
theorem string_judgement_exp (cfg : Cfg) (he : cfg.exp = true) : StrExact cfg expStrJ := strExact_exp cfg he

/-- **The accepted language with the experimental flag alone, exactly** (no abstract hypothesis) -/
theorem exp_reader_accepts_exactly_the_grammar_inst (opts : Opts) (hreg : opts.registry = none) (input : Bytes) (a : Val) :
    (∃ v, (read ⟨false, true⟩ opts input).out = .value v ∧ stripM v = a) ↔
    ∃ k tok rest, k ≤ Edn.Generated.Tables.maxNestingDepth ∧ input = tok ++ rest ∧
      FormX ⟨false, true⟩ expNumJ expStrJ k a tok rest :=
  exp_reader_accepts_exactly_the_grammar opts hreg _ _ numExact_exp (strExact_exp _ rfl) input a

/-- **The accepted language with both flags, exactly** (no abstract hypothesis) -/
theorem clj_exp_reader_accepts_exactly_the_grammar_inst (opts : Opts) (hreg : opts.registry = none) (input : Bytes) (a : Val) :
    (∃ v, (read ⟨true, true⟩ opts input).out = .value v ∧ stripM v = a) ↔
    ∃ k tok rest, k ≤ Edn.Generated.Tables.maxNestingDepth ∧ input = tok ++ rest ∧
      FormX ⟨true, true⟩ (cljNumJ ⟨true, true⟩) expStrJ k a tok rest :=
  clj_exp_reader_accepts_exactly_the_grammar opts hreg _ (strExact_exp _ rfl) input a

/-- accepted with the experimental flag: `[1_000 """⏎  a⏎  """]` is the vector of 1000 and the string `a⏎` … -/
example : (match (read ⟨false, true⟩ {} "[1_000 \"\"\"\n  a\n  \"\"\"]".toUTF8.toList).out with
    | .value (.vec _ none [.int _ 1000, .str _ t false]) => t == "a\n".toUTF8.toList
    | _ => false) = true := by decide +kernel

/-- … with both flags `^{:k 0x1_F} #:n{:a \u1F600}` is the map `{:n/a 😀}` carrying the metadata `{:k 31}` … -/
example : (match (read ⟨true, true⟩ {} "^{:k 0x1_F} #:n{:a \\u1F600}".toUTF8.toList).out with
    | .value (.map _ (some (.map _ none [.kw ..] [.int _ 31])) [.kw _ (some _) _] [.char _ 0x1F600]) => true
    | _ => false) = true := by decide +kernel

/-- … and the side condition of `expStrJ` is needed: `""` directly followed by `"⏎` is two strings
    without the experimental flag and an unterminated text block with it -/
example : (match (read ⟨false, false⟩ {} "[\"\"\"\n\"]".toUTF8.toList).out with
    | .value (.vec _ none [.str _ a _, .str _ b _]) => a == [] && b == [0x0A]
    | _ => false) = true := by decide +kernel
example : (match (read ⟨false, true⟩ {} "[\"\"\"\n\"]".toUTF8.toList).out with
    | .error .invalidString _ _ => true
    | _ => false) = true := by decide +kernel

end Edn.Properties.C03
