/-
  Property C03 — every well-formed document is accepted and reads to the value it denotes.

  The declarative side is `Edn.Spec.Renders`: an inductive relation between values of the data
  model and the byte strings that spell them (nil, booleans, decimal integers incl. big ones, floats, big
  decimals, strings with escapes, characters, keywords, symbols, lists, vectors, sets, maps, tagged
  elements; every kind of whitespace, commas, comments and discarded forms between forms).
  The theorem quantifies over every derivation, so over documents of every size and shape up
  to the reader's nesting limit.  A float renders the double nearest to the token's exact decimal
  value (the rounding itself is C05), string contents are C06; the grammar classes the reader is known
  to treat differently are listed in known_findings.json and excluded by the shape of `Renders`.
-/
import Edn.Proofs.Complete
import Edn.Proofs.Str
import Edn.Proofs.IdentSound
import Edn.Proofs.Sound
import Edn.Proofs.CharSound

namespace Edn.Properties.C03
open Edn.Model Edn.Spec Edn.Proofs

/-- `edn_read` accepts every rendering whose nesting is within the limit, whatever follows it
    (nothing, or anything starting with a terminator), and the tree it returns has exactly the
    rendered content: kinds, payloads, element order and count, tag and identifier bytes -/
theorem every_rendering_is_read (cfg : Cfg) (opts : Opts) (hreg : opts.registry = none) (k : Nat) (a : Val) (s rest : Bytes)
    (h : Renders cfg k a s) (hk : k ≤ Edn.Generated.Tables.maxNestingDepth) (ht : TermStart rest) :
    ∃ v, (read cfg opts (s ++ rest)).out = .value v ∧ strip v = a :=
  read_rendering cfg opts hreg k a s rest h hk ht

/-- the same inside any context: at every nesting depth that leaves room for the rendering,
    in either discard mode, with any call log and continuation, exactly the rendering's bytes
    are consumed -/
theorem rendering_read_in_context (cfg : Cfg) (opts : Opts) (hreg : opts.registry = none) (k : Nat) (a : Val) (s : Bytes)
    (h : Renders cfg k a s) (d : Nat) (hd : d + k ≤ Edn.Generated.Tables.maxNestingDepth) :
    Reads cfg opts d a s :=
  complete cfg opts hreg k a s h d hd

/-- the content comparison is the library's own structural equality: positions, caches and
    metadata do not enter it -/
theorem content_is_what_equality_sees (cfg : Cfg) (a b : Val) : Eqv cfg (strip a) (strip b) ↔ Eqv cfg a b :=
  Eqv_strip cfg a b

/-- a string literal's value denotes exactly the spelled content (every escape decoded) -/
theorem string_content (cfg : Cfg) (sp dn : Bytes) (h : StrContent cfg sp dn) (f : Nat) (hf : sp.length < f) :
    decodeString cfg f sp = some dn :=
  decode_content cfg sp dn h f hf

/-- non-vacuity: `[nil #_ true ; c␊ (1)]` is a rendering -/
example : ∃ s, s = "[nil #_true ;c\n(1)]".toUTF8.toList ∧
    Renders Cfg.core 2 (.vec hdr0 none [.nil hdr0, .list hdr0 none [.int hdr0 1]]) s := by
  have h1 : Renders Cfg.core 0 (.int hdr0 1) [0x31] :=
    .int 0 [] [0x31] false (.inl ⟨rfl, rfl⟩) ⟨by decide, by decide, by decide⟩ (by decide)
  have hl : Renders Cfg.core 1 (.list hdr0 none [.int hdr0 1]) [0x28, 0x31, 0x29] :=
    .list 0 _ [0x31] (.last 0 _ [0x31] [] h1 .nil)
  have hc : Blank [0x3B, 0x63, 0x0A] := .comment [0x63] [] (by decide) .nil
  have hd : Renders Cfg.core 1 (.list hdr0 none [.int hdr0 1]) (0x23 :: 0x5F :: ("true".toUTF8.toList ++ [0x20] ++ ([0x3B, 0x63, 0x0A] ++ [0x28, 0x31, 0x29]))) :=
    .discard 0 _ (.bool hdr0 true) _ [0x20] _ (.true_ 0) (.ws 0x20 [] (by decide +kernel) .nil) (by decide) (.blank 1 _ _ _ hc hl)
  refine ⟨_, ?_, .vec 1 _ _ (.cons 1 _ _ "nil".toUTF8.toList [0x20] _ (.nil 1) (.ws 0x20 [] (by decide +kernel) .nil) (by decide) (by decide)
    (.last 1 _ _ [] hd .nil))⟩
  decide +kernel

/-- Identifier tokens, exactness (every configuration, every token length - the 16-byte block
    scanner and the scalar tail agree): the identifier reader returns a value **iff** the maximal
    run of non-delimiter bytes at the cursor is lexically well-formed (`IdentLex`: non-empty, no
    `::`) and denotes it (`IdentDenotes`: `nil` / `true` / `false`, keyword, symbol, with the
    namespace split at the first `/`); it consumes exactly that run and records no reader call. -/
theorem identifier_reader_is_the_grammar (ctx : Ctx) (tok rest : Bytes) (cl : List Call)
    (hne : ∀ c ∈ tok, isDelim c = false) (hr : rest = [] ∨ ∃ c t, rest = c :: t ∧ isDelim c = true) (a : Val) :
    (∃ v, readIdentifier ctx { rest := tok ++ rest, calls := cl } = .ok v { rest := rest, calls := cl } ∧ strip v = a) ↔
      (IdentLex tok ∧ IdentDenotes tok a) := by
  constructor
  · rintro ⟨v, hv, rfl⟩
    by_cases hgood : IdentLex tok ∧ ∃ a, IdentDenotes tok a
    · obtain ⟨hl, a', hd⟩ := hgood
      obtain ⟨v', hv', hsv⟩ := readIdentifier_complete ctx tok rest cl a' hl hr hd
      rw [hv] at hv'
      cases hv'
      exact ⟨hl, hsv ▸ hd⟩
    · obtain ⟨e, st', he, -⟩ := readIdentifier_rejects ctx tok rest cl hne hr hgood
      rw [hv] at he
      cases he
  · rintro ⟨hl, hd⟩
    exact readIdentifier_complete ctx tok rest cl a hl hr hd

/-- … and whatever the identifier reader accepts, from any cursor, is such a token -/
theorem identifier_reader_sound (ctx : Ctx) (st st' : St) (v : Val) (h : readIdentifier ctx st = .ok v st') :
    ∃ tok, st.rest = tok ++ st'.rest ∧ st'.calls = st.calls ∧ IdentLex tok ∧
      (st'.rest = [] ∨ ∃ c t, st'.rest = c :: t ∧ isDelim c = true) ∧ IdentDenotes tok (strip v) :=
  readIdentifier_sound ctx st st' v h

/-- **The accepted language, exactly** (core configuration, no reader registry): `edn_read` returns
    a tree with content `a` **iff** the input starts with a form of `Edn.Spec.Grammar.Form` that
    denotes `a` and whose nesting is within the limit.  `Form` is a declarative grammar (no cursor,
    fuel or dispatch table): numbers `CoreNum`, identifiers `IdentLex`/`IdentDenotes`, raw string
    literals, characters, `##Inf`/`##-Inf`/`##NaN`, lists, vectors, sets and maps with pairwise
    distinct members, tagged elements, blanks, comments and discards anywhere between forms; it
    contains `Renders` (well-separated renderings) and also what the implementation accepts beyond
    the published grammar (forms touching where a delimiter byte ends the token, tags spelled with
    any identifier token, `##Inf` followed by anything, escapes checked only on decode). -/
theorem core_reader_accepts_exactly_the_grammar (opts : Opts) (hreg : opts.registry = none) (input : Bytes) (a : Val) :
    (∃ v, (read Cfg.core opts input).out = .value v ∧ strip v = a) ↔
    ∃ k tok rest, k ≤ Edn.Generated.Tables.maxNestingDepth ∧ input = tok ++ rest ∧ Form k a tok rest :=
  read_core_iff opts hreg input a

/-- the same in every context (any depth, discard mode, call log, fuel): a returned value means a
    form of the grammar was consumed, exactly its bytes, nothing was logged, and the nesting fits -/
theorem core_value_reader_sound (opts : Opts) (hreg : opts.registry = none) (f d : Nat) (dm : Bool) (st st' : St) (v : Val)
    (hd : d ≤ Edn.Generated.Tables.maxNestingDepth)
    (h : readValue { cfg := Cfg.core, opts := opts } f d dm st = .ok v st') :
    ∃ k tok, d + k ≤ Edn.Generated.Tables.maxNestingDepth ∧ st.rest = tok ++ st'.rest ∧ st'.calls = st.calls ∧
      Form k (strip v) tok st'.rest :=
  readValue_core_sound_fits opts hreg f d dm st st' v hd h

/-- … and conversely every form that fits is read, in every context, as the value it denotes -/
theorem core_form_is_read (opts : Opts) (hreg : opts.registry = none) (k : Nat) (a : Val) (tok rest : Bytes)
    (h : Form k a tok rest) (d : Nat) (hd : d + k ≤ Edn.Generated.Tables.maxNestingDepth) (dm : Bool) (cl : List Call) (f : Nat)
    (hf : 2 * (tok.length + rest.length) + 2 ≤ f) :
    ∃ v, readValue { cfg := Cfg.core, opts := opts } f d dm { rest := tok ++ rest, calls := cl }
          = .ok v { rest := rest, calls := cl } ∧ strip v = a :=
  form_is_read opts hreg k a tok rest h d hd dm cl f hf

/-- Character literals, exactness in every configuration: `\` + `body` followed by a delimiter (or
    the end) reads as the character `cp` **iff** `body` spells `cp` (`CharTokX`: the four names;
    `formfeed`, `backspace`, `oNNN` with the Clojure flag; `uXXXX`, and 5 or 6 hex digits with the
    experimental flag; any single byte but blank ones) and `cp` is a code point -/
theorem character_reader_is_the_grammar (ctx : Ctx) (body rest : Bytes) (cl : List Call) (cp : Nat) (hr : DelimStart rest) :
    (∃ v, readCharacter ctx { rest := 0x5C :: (body ++ rest), calls := cl } = .ok v { rest := rest, calls := cl } ∧
        strip v = .char hdr0 cp)
      ↔ (CharTokX ctx.cfg body cp ∧ cp ≤ 0x10FFFF) :=
  readCharacter_iff ctx body rest cl cp hr

/-- non-vacuity: `[1"a"]` (no separator) is a form - a vector of the integer 1 and the string `a` -/
example : (match (read Cfg.core {} "[1\"a\"]".toUTF8.toList).out with | .value _ => true | _ => false) = true := by decide +kernel

end Edn.Properties.C03
