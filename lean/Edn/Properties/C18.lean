/-
  Property C18 — feature flags only add syntax: core EDN reads identically in every configuration.

  "Uses only core syntax" is made precise as: the core configuration accepts the document, the
  document contains none of the byte patterns to which an extension gives a *different* meaning
  (`NoTriggers`: `^`, the text-block opener, backslash + form feed / backspace, and an extension
  string escape inside a discarded form), and every string of the result decodes with the core
  escape set.  All other extension spellings (`#:`, `0x`, leading zeros, `NrD`, `/` and `_` in
  numbers, `\formfeed`, `\oNNN`, long `\u`) are rejected by the core configuration, so they are
  excluded by "the core configuration accepts".
-/
import Edn.Proofs.FlagIndep

namespace Edn.Properties.C18
open Edn.Model Edn.Proofs

/-- every flag combination reads a core document to the same tree as the core configuration:
    same kinds, payloads, children and ranges (cache cells aside, whose contents depend on the
    numbering of the type enumeration) -/
theorem core_documents_read_identically (cfg : Cfg) (opts : Opts) (hreg : opts.registry = none) (input : Bytes) (v : Val)
    (hn : NoTriggers input) (h : (read Cfg.core opts input).out = .value v)
    (hs : Edn.Spec.coreStrings v = true) :
    ∃ v', (read cfg opts input).out = .value v' ∧ Edn.Spec.eraseCache v' = Edn.Spec.eraseCache v :=
  read_flag_independent cfg opts hreg input v hn h hs

/-- the same for every form at every depth, including the remaining input -/
theorem core_forms_read_identically (cfg : Cfg) (opts : Opts) (hreg : opts.registry = none)
    (f d : Nat) (dm : Bool) (st st' : St) (v : Val)
    (hd : d ≤ Edn.Generated.Tables.maxNestingDepth) (hn : NoTriggers st.rest)
    (h : readValue { cfg := Cfg.core, opts := opts } f d dm st = .ok v st')
    (hs : Edn.Spec.coreStrings v = true) :
    ∃ v', readValue { cfg := cfg, opts := opts } f d dm st = .ok v' st' ∧
      Edn.Spec.eraseCache v' = Edn.Spec.eraseCache v :=
  readValue_flag_independent cfg opts hreg f d dm st st' v hd hn h hs

/-- numbers: whatever spelling the core configuration accepts is read identically everywhere
    (the extensions only give meaning to spellings the core rejects) -/
theorem core_numbers (cfg : Cfg) (s : Bytes) (v : NumVal) (rest : Bytes)
    (h : readNumber Cfg.core s = .ok v rest) : readNumber cfg s = .ok v rest :=
  readNumber_core_ok cfg s v rest h

/-- strings: content that decodes with the core escape set decodes to the same bytes everywhere -/
theorem core_strings (cfg : Cfg) (data : Bytes) (esc : Bool) (out : Bytes)
    (h : stringGet Cfg.core data esc = some out) : stringGet cfg data esc = some out :=
  stringGet_flag_independent cfg data esc out h

/-- the hypothesis cannot be dropped: a discarded set of two spellings of a form feed is
    accepted by the core configuration and rejected with the Clojure flag (the spellings are
    extension escapes, so the property's own exemption applies) -/
example : (match (read Cfg.core {} "#_ #{\"\\f\" \"\\u000c\"} 1".toUTF8.toList).out with | .value _ => true | _ => false) = true ∧
          (match (read ⟨true, false⟩ {} "#_ #{\"\\f\" \"\\u000c\"} 1".toUTF8.toList).out with | .error c _ _ => c == .duplicateElement | _ => false) = true := by
  constructor <;> decide +kernel

/-- non-vacuity: `[1 :a "b\n"]` -/
example : NoTriggers [0x5B, 0x31, 0x20, 0x3A, 0x61, 0x20, 0x22, 0x62, 0x5C, 0x6E, 0x22, 0x5D] :=
  ⟨by decide +kernel, by decide +kernel, by decide +kernel, by decide +kernel, .inl (by decide +kernel)⟩

end Edn.Properties.C18
