/-
  Property C05 — floating-point literals read as the correctly rounded IEEE-754 double.

  `Spec.rne n d` is round-to-nearest-even of the rational n/d to a binary64 bit pattern in
  exact natural-number arithmetic; `Spec.ofDec m e` is the double nearest to m · 10^e.  The
  model defines the machine operations of the fast path as `rne` of the exact result (what
  IEEE-754 requires of the hardware) and `strtod` as `ofDec` of the literal's decimal value
  (glibc is assumed correctly rounded) — both assumptions are part of the trusted base.
-/
import Edn.Proofs.Float
import Edn.Proofs.DoubleSpec
import Edn.Proofs.NumberReader

namespace Edn.Properties.C05
open Edn.Model Edn.Spec Edn.Proofs Edn.Generated

/-- every entry of POWER_OF_TEN_POSITIVE, as extracted from the compiled source, is exactly 10^k -/
theorem table_exact : ∀ k, k ≤ 22 →
    decode (UInt64.ofNat (Tables.pow10Positive.getD k 0)) = (false, 10 ^ k, 1) ∨
    (∃ n d, decode (UInt64.ofNat (Tables.pow10Positive.getD k 0)) = (false, n, d) ∧ n = 10 ^ k * d ∧ 0 < d) :=
  pow10_table_exact

/-- rounding depends only on the value n/d -/
theorem rounding_well_defined (n d c : Nat) (hd : 0 < d) (hc : 0 < c) : rne (n * c) (d * c) = rne n d :=
  rne_scale n d c hd hc

/-- The fast path (mantissa at most 2^53 - 1, decimal exponent in [-22, 22]) returns the double
    nearest to mant · 10^e, ties to even — one rounding, for multiplication and division alike. -/
theorem fast_path_correctly_rounded (mant : Nat) (e : Int) (neg : Bool)
    (hm : mant ≤ 9007199254740991) (he : -22 ≤ e ∧ e ≤ 22) :
    parseDoubleFast mant e neg = some (withSign neg (ofDec mant e)) :=
  fast_path_correct mant e neg hm he

/-- the shortcut used to evaluate astronomically large exponents does not change any result -/
theorem clamp_harmless (mant : Nat) (e : Int) : ofDecC mant e = ofDec mant e := ofDecC_eq mant e

/-- the slow path is by definition the correctly rounded value of the literal (the `strtod`
    assumption), so every literal whose digits are exactly representable in the mantissa
    accumulator reads as the correctly rounded double whichever path is taken -/
theorem slow_path_is_spec (text : Bytes) :
    strtodSpec text = (let p := decimalParts text; withSign p.1 (ofDec p.2.1 p.2.2)) := by
  unfold strtodSpec
  simp only [clamp_harmless]

/-- The headline statement: for every float literal `[sign] digits [. digits] [e [sign] digits]`
    (underscores between digits only with the experimental flag) of every length,
    `parse_double_from_buffer` returns the double nearest to the literal's exact decimal value,
    ties to even, overflowing to infinity and underflowing to subnormals or signed zero,
    whichever path is taken (given the `strtod` assumption for the slow path). -/
theorem literal_correctly_rounded (cfg : Cfg) (text : Bytes) (h : FloatText cfg text) :
    parseDouble cfg text = (let p := decimalParts text; withSign p.1 (ofDec p.2.1 p.2.2)) :=
  parseDouble_correctly_rounded cfg text h

/-- two literals denoting the same real number (same sign, mantissas differing by a power of
    ten compensated in the exponent) read as the same double -/
theorem same_value_same_double (cfg : Cfg) (t1 t2 : Bytes) (h1 : FloatText cfg t1) (h2 : FloatText cfg t2)
    (hs : (decimalParts t1).1 = (decimalParts t2).1)
    (hv : ∃ k : Nat, ((decimalParts t1).2.1 = (decimalParts t2).2.1 * 10 ^ k ∧ (decimalParts t1).2.2 + k = (decimalParts t2).2.2) ∨
                     ((decimalParts t2).2.1 = (decimalParts t1).2.1 * 10 ^ k ∧ (decimalParts t2).2.2 + k = (decimalParts t1).2.2)) :
    parseDouble cfg t1 = parseDouble cfg t2 :=
  Edn.Proofs.same_value_same_double cfg t1 t2 h1 h2 hs hv

/-- the repaired defect: 0.3 is 3 / 10^1 rounded once -/
example : parseDouble Cfg.core "0.3".toUTF8.toList = 0x3FD3333333333333 := by decide +kernel
example : parseDouble Cfg.core "1e23".toUTF8.toList = 0x44B52D02C7E14AF6 := by decide +kernel
example : parseDouble Cfg.core "-0.0".toUTF8.toList = 0x8000000000000000 := by decide +kernel
example : parseDouble Cfg.core "4.9e-324".toUTF8.toList = 1 := by decide +kernel
example : parseDouble Cfg.core "1.8e308".toUTF8.toList = 0x7FF0000000000000 := by decide +kernel

/-- reader level, every configuration: a float token (sign, decimal integer part, fraction
    and/or exponent) followed by the end of input or a terminator is consumed exactly and read
    as the double nearest to its exact decimal value -/
theorem float_token_reads_correctly_rounded (cfg : Cfg) (tok rest : Bytes) (h : Edn.Spec.FloatTok tok) (ht : Edn.Spec.TermStart rest) :
    readNumber cfg (tok ++ rest) =
      .ok (.float (let p := decimalParts tok; Edn.Spec.withSign p.1 (Edn.Spec.ofDec p.2.1 p.2.2))) rest :=
  readNumber_float_value cfg tok rest h ht

end Edn.Properties.C05
