/-
  Property C08 — sets and maps reject duplicates regardless of size, position or element
  kind.  The theorem is about `hasDuplicates` (src/uniqueness.c: pairwise for up to
  LINEAR_THRESHOLD elements, hash-ordered runs and the hash table above it) for arbitrary
  element counts; the thresholds are read from the regenerated tables and play no role in
  the statement.
-/
import Edn.Proofs.Equal

namespace Edn.Properties.C08
open Edn.Model Edn.Spec Edn.Proofs

/-- A literal is rejected exactly when two of its elements (keys) are equal: the verdict is
    "no duplicates" iff the elements are pairwise non-equal — for every element count, hence
    for every internal strategy — and the elements handed back differ from the input only by
    filled-in (valid) cache cells. -/
theorem verdict_exact (cfg : Cfg) (xs : List Val) (h : Elems cfg xs) :
    ((hasDuplicates cfg xs).1 = false ↔ pairwiseDistinct cfg xs) ∧
    Elems cfg (hasDuplicates cfg xs).2 ∧
    (hasDuplicates cfg xs).2.length = xs.length ∧
    (pairwiseDistinct cfg xs → pairwiseDistinct cfg (hasDuplicates cfg xs).2) ∧
    depthL (hasDuplicates cfg xs).2 = depthL xs := hasDuplicates_iff cfg xs h

/-- the verdict is the same for every permutation of the elements -/
theorem verdict_permutation_invariant (cfg : Cfg) (xs ys : List Val) (h : Elems cfg xs) (hp : xs.Perm ys) :
    (hasDuplicates cfg xs).1 = (hasDuplicates cfg ys).1 := hasDuplicates_perm cfg xs ys h hp

/-- non-vacuity: 18 elements (beyond the pairwise strategy) with an equal composite pair far
    apart, and the list/vector twin, are both reported -/
example : (hasDuplicates Cfg.core
    ([.vec (mkHdr 3 2) none [.int (mkHdr 1 0) 1]] ++ (List.range 16).map (fun (i : Nat) => Val.int (mkHdr 1 0) (Int.ofNat i)) ++
     [.list (mkHdr 3 2) none [.int (mkHdr 1 0) 1]])).1 = true := by decide +kernel

end Edn.Properties.C08
