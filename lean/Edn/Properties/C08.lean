/-
  Property C08 — sets and maps reject duplicates regardless of size, position or element
  kind.  The theorem is about `hasDuplicates` (src/uniqueness.c: pairwise for up to
  LINEAR_THRESHOLD elements, hash-ordered runs and the hash table above it) for arbitrary
  element counts; the thresholds are read from the regenerated tables and play no role in
  the statement.
-/
import Edn.Proofs.Equal
import Edn.Proofs.ReaderInv

namespace Edn.Properties.C08
open Edn.Model Edn.Spec Edn.Proofs

/-- A literal is rejected exactly when two of its elements (keys) are equal: the verdict is
    "no duplicates" iff the elements are pairwise non-equal — for every element count, hence
    for every internal strategy — and the elements handed back differ from the input only by
    filled-in (valid) cache cells. -/
theorem verdict_exact (cfg : Cfg) (xs : List Val) (h : Elems cfg xs) :
    ((hasDuplicates cfg xs).1 = false ↔ pairwiseDistinct cfg xs) ∧
    Elems cfg (hasDuplicates cfg xs).2 ∧
    (hasDuplicates cfg xs).2.length = xs.length ∧
    (pairwiseDistinct cfg xs → pairwiseDistinct cfg (hasDuplicates cfg xs).2) ∧
    depthL (hasDuplicates cfg xs).2 = depthL xs := hasDuplicates_iff cfg xs h

/-- the verdict is the same for every permutation of the elements -/
theorem verdict_permutation_invariant (cfg : Cfg) (xs ys : List Val) (h : Elems cfg xs) (hp : xs.Perm ys) :
    (hasDuplicates cfg xs).1 = (hasDuplicates cfg ys).1 := hasDuplicates_perm cfg xs ys h hp

/-- Reader half, sets: when the closing `}` of a set literal is met with the elements read so
    far, the literal is accepted (with pairwise non-equal elements) if and only if no two of
    them are equal, and rejected as DUPLICATE_ELEMENT otherwise. -/
theorem set_literal_verdict (ctx : Ctx) (f d : Nat) (dm : Bool) (start : Nat) (st stc : St) (acc : List Val) (r : Bytes)
    (hel : Elems ctx.cfg acc.reverse)
    (hcl : readValue ctx f (d + 1) dm st = .closer stc) (hr : stc.rest = 0x7D :: r) :
    (pairwiseDistinct ctx.cfg acc.reverse →
        ∃ h ys, readSeq ctx (f + 1) d dm 2 start st acc = .ok (.set h none ys) { stc with rest := r } ∧
          ys.length = acc.length ∧ pairwiseDistinct ctx.cfg ys) ∧
    (¬ pairwiseDistinct ctx.cfg acc.reverse →
        ∃ e, readSeq ctx (f + 1) d dm 2 start st acc = .err e { stc with rest := r } ∧ e.code = .duplicateElement) :=
  set_close_verdict ctx f d dm start st stc acc r hel hcl hr

/-- Reader half, maps (keys after namespace qualification when that syntax is enabled) -/
theorem map_literal_verdict (ctx : Ctx) (f d : Nat) (dm : Bool) (start : Nat) (ns : Option Bytes) (st stc : St)
    (ks vs : List Val) (r : Bytes)
    (hel : Elems ctx.cfg ks.reverse)
    (hcl : readValue ctx f (d + 1) dm st = .closer stc) (hr : stc.rest = 0x7D :: r) :
    (pairwiseDistinct ctx.cfg ks.reverse →
        ∃ h keys, readMap ctx (f + 1) d dm start ns st ks vs = .ok (.map h none keys vs.reverse) { stc with rest := r } ∧
          keys.length = ks.length ∧ pairwiseDistinct ctx.cfg keys) ∧
    (¬ pairwiseDistinct ctx.cfg ks.reverse →
        ∃ e, readMap ctx (f + 1) d dm start ns st ks vs = .err e { stc with rest := r } ∧ e.code = .duplicateKey) :=
  map_close_verdict ctx f d dm start ns st stc ks vs r hel hcl hr

/-- every tree the reader returns (no handler registry) is duplicate-free in all its sets and
    maps, within the depth equality handles, with valid caches: the hypotheses of the
    equality, hashing and lookup theorems (C07, C09) hold for it -/
theorem reader_establishes_wellformedness (cfg : Cfg) (opts : Opts) (hreg : opts.registry = none) (input : Bytes) (v : Val)
    (h : (read cfg opts input).out = .value v) :
    depth v < maxDepthFuel ∧ WF cfg v ∧ cacheOK cfg v = true := read_inv cfg opts hreg input v h

/-- non-vacuity: 18 elements (beyond the pairwise strategy) with an equal composite pair far
    apart, and the list/vector twin, are both reported -/
example : (hasDuplicates Cfg.core
    ([.vec (mkHdr 3 2) none [.int (mkHdr 1 0) 1]] ++ (List.range 16).map (fun (i : Nat) => Val.int (mkHdr 1 0) (Int.ofNat i)) ++
     [.list (mkHdr 3 2) none [.int (mkHdr 1 0) 1]])).1 = true := by decide +kernel

end Edn.Properties.C08
