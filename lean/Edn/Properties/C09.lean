/-
  Property C09 — lookup and membership agree with iteration and with the convenience
  helpers.
-/
import Edn.Proofs.Equal

namespace Edn.Properties.C09
open Edn.Model Edn.Spec Edn.Proofs

/-- looking up any value equal to key `i` of a map the reader can return yields the value
    stored at index `i`, whatever the state of the caches -/
theorem lookup_finds_index (cfg : Cfg) (h : Hdr) (md : Option Val) (ks vs : List Val) (probe : Val) (i : Nat)
    (hm : WF cfg (.map h md ks vs)) (hd : depth (.map h md ks vs) < maxDepthFuel)
    (hc : cacheOK cfg (.map h md ks vs) = true)
    (hp : WF cfg probe) (hpd : depth probe < maxDepthFuel) (hpc : cacheOK cfg probe = true)
    (hi : i < ks.length) (heq : Eqv cfg ks[i] probe) :
    mapLookup cfg (.map h md ks vs) probe = vs[i]? :=
  mapLookup_index cfg h md ks vs probe i hm hd hc hp hpd hpc hi heq

/-- a value equal to no key is not found -/
theorem lookup_absent (cfg : Cfg) (h : Hdr) (md : Option Val) (ks vs : List Val) (probe : Val)
    (hm : WF cfg (.map h md ks vs)) (hd : depth (.map h md ks vs) < maxDepthFuel)
    (hc : cacheOK cfg (.map h md ks vs) = true)
    (hp : WF cfg probe) (hpd : depth probe < maxDepthFuel) (hpc : cacheOK cfg probe = true)
    (hne : ∀ k ∈ ks, ¬ Eqv cfg k probe) :
    mapLookup cfg (.map h md ks vs) probe = none :=
  mapLookup_absent cfg h md ks vs probe hm hd hc hp hpd hpc hne

/-- set membership -/
theorem contains_iff (cfg : Cfg) (h : Hdr) (md : Option Val) (xs : List Val) (probe : Val)
    (hm : WF cfg (.set h md xs)) (hd : depth (.set h md xs) < maxDepthFuel)
    (hc : cacheOK cfg (.set h md xs) = true)
    (hp : WF cfg probe) (hpd : depth probe < maxDepthFuel) (hpc : cacheOK cfg probe = true) :
    setContains cfg (.set h md xs) probe = true ↔ ∃ x ∈ xs, Eqv cfg x probe :=
  setContains_iff cfg h md xs probe hm hd hc hp hpd hpc

/-- The convenience helpers build a temporary key on the stack (no cache, no arena) and call
    the general lookup; the temporary keys are legal probes: -/
theorem temp_keys_are_legal_probes (cfg : Cfg) (ns : Option Bytes) (name text : Bytes) :
    WF cfg (tempKeyword ns name) ∧ depth (tempKeyword ns name) < maxDepthFuel ∧
    cacheOK cfg (tempKeyword ns name) = true ∧
    WF cfg (tempString text) ∧ depth (tempString text) < maxDepthFuel ∧
    cacheOK cfg (tempString text) = true := by
  refine ⟨?_, ?_, ?_, ?_, ?_, ?_⟩
  · simp [tempKeyword, WF]
  · simp [tempKeyword, depth, maxDepthFuel]
  · simp [tempKeyword, cacheOK, Val.hdr]; left; rfl
  · simp [tempString, WF]
  · simp [tempString, depth, maxDepthFuel]
  · simp [tempString, cacheOK, Val.hdr]; left; rfl

/-- a string key written with escapes is equal to the helper's temporary key holding the
    decoded bytes (the repaired defect: equality compares the bytes denoted) -/
example : Eqv Cfg.core (.str (mkHdr 9 3) [0x61, 0x5C, 0x6E, 0x62] true) (tempString [0x61, 0x0A, 0x62]) := by
  decide +kernel

end Edn.Properties.C09
