/-
  Property C04 — integer, big-number and ratio literals denote exactly their mathematical
  value.  Theorem part: the converters (`parse_eight_digits_unrolled`,
  `parse_int64_from_buffer` for every digit string, radix and sign, `ratio_gcd`).
-/
import Edn.Proofs.Number
import Edn.Proofs.NumberReader
import Edn.Proofs.NumberSound
import Edn.Proofs.CljNumberSound
import Edn.Proofs.ExpNumberSound

namespace Edn.Properties.C04
open Edn.Model Edn.Proofs

/-- the SWAR test accepts exactly the blocks of eight ASCII digits … -/
theorem swar_test (b : Bytes) (h : b.length = 8) : eightDigitsFast (load64le b) = b.all is09 :=
  eightDigitsFast_iff b h

/-- … and the multiply-shift cascade yields their decimal value (all 10^8 blocks at once) -/
theorem swar_value (b : Bytes) (h : b.length = 8) (hd : b.all is09 = true) :
    (parseEightDigits (load64le b)).toNat = digitsVal b := parseEightDigits_eq b h hd

/-- For every digit string of every length, every radix 2..36 and either sign (with
    underscores between digits when the experimental flag is on): the 64-bit reading
    succeeds exactly when the mathematical value lies in the signed 64-bit range, and then it
    is that value; otherwise the caller keeps the literal as a big integer. -/
theorem int64_exact (cfg : Cfg) (radix : Nat) (hr : 2 ≤ radix ∧ radix ≤ 36) (ds : Bytes) (neg : Bool)
    (hvalid : ∀ c ∈ ds, (digitValue c radix).isSome = true ∨ (cfg.exp = true ∧ c = 0x5F))
    (hne : ∃ c ∈ ds, (digitValue c radix).isSome = true) :
    parseInt64 cfg ds radix neg = inRange neg (digitsValR radix (ds.filter (· != 0x5F))) :=
  parseInt64_spec cfg radix hr ds neg hvalid hne

/-- the ratio reduction divides by the true greatest common divisor, for all int64 operands
    including the most negative one -/
theorem ratio_gcd_exact (a b : Int) (ha : a.natAbs ≤ 9223372036854775808) (hb : b.natAbs ≤ 9223372036854775808) :
    ratioGcd a b = Nat.gcd a.natAbs b.natAbs := ratioGcd_eq a b ha hb

/-! ### reader level: `edn_read_number` on each class of token (decimal integers: C03) -/

/-- big decimals keep their text: an integer or float token followed by `M` -/
theorem reads_bigdec (cfg : Cfg) (sg body rest : Bytes) (neg : Bool) (hs : Edn.Spec.SignTok sg neg)
    (hb : Edn.Spec.DecDigits body ∨ Edn.Spec.FloatTok body) (hnosign : ∀ c, body.head? = some c → c ≠ 0x2B ∧ c ≠ 0x2D)
    (ht : Edn.Spec.TermStart rest) :
    readNumber cfg (sg ++ body ++ [0x4D] ++ rest) = .ok (.bigdec neg body) rest :=
  readNumber_bigdec cfg sg body rest neg hs hb hnosign ht

/-- Clojure flag: hexadecimal - the value of the hex digits if it fits int64 (`int64_exact`),
    else a big integer of radix 16 keeping the digits -/
theorem reads_hex (cfg : Cfg) (hc : cfg.clj = true) (sg hs rest : Bytes) (x : UInt8) (neg : Bool) (hs' : Edn.Spec.SignTok sg neg)
    (hx : x = 0x78 ∨ x = 0x58) (hne : hs ≠ []) (hh : Edn.Spec.AllHex hs) (ht : Edn.Spec.TermStart rest) :
    readNumber cfg (sg ++ [0x30, x] ++ hs ++ rest) = .ok (intOrBig cfg hs 16 neg) rest :=
  readNumber_hex cfg hc sg hs rest x neg hs' hx hne hh ht

/-- Clojure flag: leading zero + octal digits -/
theorem reads_octal (cfg : Cfg) (hc : cfg.clj = true) (sg zs os rest : Bytes) (neg : Bool) (hs : Edn.Spec.SignTok sg neg)
    (hz : ∀ c ∈ zs, c = 0x30) (hne : os ≠ []) (ho : Edn.Spec.AllRadix 8 os) (hfirst : os.head? ≠ some 0x30) (ht : Edn.Spec.TermStart rest) :
    readNumber cfg (sg ++ 0x30 :: zs ++ os ++ rest) = .ok (intOrBig cfg (0x30 :: zs ++ os) 8 neg) rest :=
  readNumber_octal cfg hc sg zs os rest neg hs hz hne ho hfirst ht

/-- Clojure flag: `NrDDD`, radix 2..36 -/
theorem reads_radix (cfg : Cfg) (hc : cfg.clj = true) (sg rp ds rest : Bytes) (r : UInt8) (neg : Bool) (hs : Edn.Spec.SignTok sg neg)
    (hrp : rp ≠ [] ∧ Edn.Spec.AllDigits rp) (hrv : 2 ≤ Edn.Spec.natOfDigits rp ∧ Edn.Spec.natOfDigits rp ≤ 36) (hr : r = 0x72 ∨ r = 0x52)
    (hne : ds ≠ []) (hd : Edn.Spec.AllRadix (Edn.Spec.natOfDigits rp) ds) (ht : Edn.Spec.TermStart rest) :
    readNumber cfg (sg ++ rp ++ [r] ++ ds ++ rest) = .ok (intOrBig cfg ds (Edn.Spec.natOfDigits rp) neg) rest :=
  readNumber_radix cfg hc sg rp ds rest r neg hs hrp hrv hr hne hd ht

/-- Clojure flag: ratios are reduced to lowest terms, become an integer when the denominator
    divides the numerator, and a big ratio only when an operand does not fit 64 bits
    (`Edn.Spec.ratioValue`).  `hzero`: a zero numerator reads as the integer 0 whatever the size
    of the denominator, which `ratioValue` states only for denominators that fit. -/
theorem reads_ratio (cfg : Cfg) (hc : cfg.clj = true) (sg nd dd rest : Bytes) (neg : Bool) (hs : Edn.Spec.SignTok sg neg)
    (hn : Edn.Spec.DecDigits nd) (hd : dd ≠ [] ∧ Edn.Spec.AllDigits dd ∧ dd.head? ≠ some 0x30) (ht : Edn.Spec.TermStart rest)
    (hzero : nd = [0x30] → Edn.Spec.natOfDigits dd ≤ 9223372036854775807) :
    readNumber cfg (sg ++ nd ++ [0x2F] ++ dd ++ rest) = .ok (Edn.Spec.ratioValue cfg neg nd dd) rest :=
  readNumber_ratio cfg hc sg nd dd rest neg hs hn hd ht hzero

/-- Exactness for the core configuration: started where the dispatcher sends a number (a digit, or
    a sign followed by a digit), the number reader returns a payload and a continuation point
    **iff** the bytes consumed are a number token of core EDN (`Edn.Spec.CoreNum`: decimal integer
    in/out of the 64-bit range, `N`, float, `M`) denoting that payload and the continuation is the
    end of the input or a terminator.  Nothing else is accepted, nothing is read differently. -/
theorem core_number_reader_is_the_grammar (s rest : Bytes) (v : NumVal)
    (hstart : ∃ c t, s = c :: t ∧ (is09 c = true ∨ ((c = 0x2B ∨ c = 0x2D) ∧ ∃ nx t', t = nx :: t' ∧ is09 nx = true))) :
    readNumber Cfg.core s = .ok v rest ↔
      ∃ tok, s = tok ++ rest ∧ Edn.Spec.CoreNum Cfg.core tok v ∧ Edn.Spec.TermStart rest :=
  readNumber_core_iff s rest v hstart

/-- Exactness with the Clojure flag (either setting of the experimental flag): the number reader
    returns a payload and a continuation **iff** the bytes consumed are a token of `Edn.Spec.CljNum`
    (decimal, `N`, float, `M`, ratio, `0/n`, hexadecimal, octal, `NrDDD`; with the experimental flag
    `_` separators inside digit runs) denoting that payload, followed by a terminator - or, for a
    ratio that denotes an integer, by any delimiter byte (`Edn.Spec.CljNumEnd`: the early returns of
    the ratio branch do not re-validate the terminator, so `4/2\a` reads as 2 and `\a`). -/
theorem clj_number_reader_is_the_grammar (cfg : Cfg) (hc : cfg.clj = true) (s rest : Bytes) (v : NumVal)
    (hstart : ∃ c t, s = c :: t ∧ (is09 c = true ∨ ((c = 0x2B ∨ c = 0x2D) ∧ ∃ nx t', t = nx :: t' ∧ is09 nx = true))) :
    readNumber cfg s = .ok v rest ↔
      ∃ tok, s = tok ++ rest ∧ Edn.Spec.CljNum cfg tok v ∧ Edn.Spec.CljNumEnd tok v rest :=
  readNumber_clj_iff cfg hc s rest v hstart

/-- the Clojure-flag grammar contains the core grammar with the same payloads … -/
theorem clj_grammar_extends_core (cfg : Cfg) (tok : Bytes) (v : NumVal) (h : Edn.Spec.CoreNum cfg tok v) :
    Edn.Spec.CljNum cfg tok v :=
  cljNum_of_coreNum cfg tok v h

/-- … and without the experimental flag no accepted number token contains a `_` -/
theorem no_separator_without_experimental_flag (cfg : Cfg) (he : cfg.exp = false) (tok : Bytes) (v : NumVal)
    (h : Edn.Spec.CljNum cfg tok v) : (0x5F : UInt8) ∉ tok :=
  cljNum_no_separator cfg he tok v h

/-- non-vacuity: `-12 ` is the integer -12, read up to the space -/
example : readNumber Cfg.core "-12 ".toUTF8.toList = .ok (.int (-12)) " ".toUTF8.toList := by decide +kernel

example : parseInt64 Cfg.core "9223372036854775807".toUTF8.toList 10 false = some 9223372036854775807 := by decide +kernel
example : parseInt64 Cfg.core "9223372036854775808".toUTF8.toList 10 false = none := by decide +kernel
example : parseInt64 Cfg.core "9223372036854775808".toUTF8.toList 10 true = some (-9223372036854775808) := by decide +kernel

/-! ### experimental flag only (`Edn.Spec.expCfg = ⟨clj := false, exp := true⟩`): `_` separators -/

/-- Exactness with the experimental flag only: started where the dispatcher sends a number, the
    number reader returns a payload and a continuation point **iff** the bytes consumed are a token
    of `Edn.Spec.ExpNum` (decimal integer in/out of the 64-bit range, `N`, float, `M` - the core forms
    with `_` separators inside the digit runs: after the first digit of the integer part but never
    after a lone `0` nor at its end, anywhere in the fraction but at its start, anywhere in the
    exponent digits but at their start, never directly in front of `.`, `e`, `N`, `M`) denoting that
    payload, and the continuation is the end of the input or a terminator.  No hexadecimal, octal,
    radix or ratio form, no run of leading zeros.  Integers denote their value with the separators
    ignored (`1_000` is 1000); big integers / big decimals keep their text *with* the separators;
    floats denote `parse_double_from_buffer` of the whole token. -/
theorem exp_number_reader_is_the_grammar (s rest : Bytes) (v : NumVal)
    (hstart : ∃ c t, s = c :: t ∧ (is09 c = true ∨ ((c = 0x2B ∨ c = 0x2D) ∧ ∃ nx t', t = nx :: t' ∧ is09 nx = true))) :
    readNumber Edn.Spec.expCfg s = .ok v rest ↔
      ∃ tok, s = tok ++ rest ∧ Edn.Spec.ExpNum tok v ∧ Edn.Spec.TermStart rest :=
  readNumber_exp_iff s rest v hstart

/-- the experimental-only grammar contains the core grammar with the same payloads (whichever
    configuration `cfg` the float payloads of the core token are computed under) … -/
theorem exp_grammar_extends_core (cfg : Cfg) (tok : Bytes) (v : NumVal) (h : Edn.Spec.CoreNum cfg tok v) :
    Edn.Spec.ExpNum tok v :=
  expNum_of_coreNum cfg tok v h

/-- … it adds nothing on byte strings without `_` … -/
theorem exp_grammar_is_core_without_separators (tok : Bytes) (v : NumVal) (hn : (0x5F : UInt8) ∉ tok) :
    Edn.Spec.ExpNum tok v ↔ Edn.Spec.CoreNum Cfg.core tok v :=
  expNum_iff_coreNum_of_noSep tok v hn

/-- … and it is contained in the grammar of the configuration with both flags, with the same
    payloads -/
theorem exp_grammar_within_clj_exp (tok : Bytes) (v : NumVal) (h : Edn.Spec.ExpNum tok v) :
    Edn.Spec.CljNum ⟨true, true⟩ tok v :=
  cljNum_of_expNum tok v h

/-- The separators do not change what a token denotes: the token with its separators removed
    (`Edn.Spec.unsep`) is a token of core EDN, and the payload of the underscored token is the payload
    of that core token up to the separators in the texts it keeps (`Edn.Spec.unsepVal`).  Exact for
    integers in the 64-bit range (the same `int`: `separators_exact_int`) and for floats (the same
    double: `separators_exact_float`); a big integer / big decimal payload has the same sign and
    radix, and its text - which keeps the separators - is the core payload's text once they are
    removed. -/
theorem separators_do_not_change_the_value (tok : Bytes) (v : NumVal) (h : Edn.Spec.ExpNum tok v) :
    Edn.Spec.CoreNum Cfg.core (Edn.Spec.unsep tok) (Edn.Spec.unsepVal v) :=
  expNum_unsep tok v h

theorem separators_exact_int (tok : Bytes) (i : Int) (h : Edn.Spec.ExpNum tok (.int i)) :
    Edn.Spec.CoreNum Cfg.core (Edn.Spec.unsep tok) (.int i) :=
  expNum_int_unsep tok i h

theorem separators_exact_float (tok : Bytes) (b : UInt64) (h : Edn.Spec.ExpNum tok (.float b)) :
    Edn.Spec.CoreNum Cfg.core (Edn.Spec.unsep tok) (.float b) :=
  expNum_float_unsep tok b h

/-- the same at reader level: what is accepted with the experimental flag only is accepted by the
    core reader once the separators are removed from the consumed bytes, with the same payload up to
    the separators -/
theorem separators_reader_level (s rest : Bytes) (v : NumVal)
    (hstart : ∃ c t, s = c :: t ∧ (is09 c = true ∨ ((c = 0x2B ∨ c = 0x2D) ∧ ∃ nx t', t = nx :: t' ∧ is09 nx = true)))
    (h : readNumber Edn.Spec.expCfg s = .ok v rest) :
    ∃ tok, s = tok ++ rest ∧
      readNumber Cfg.core (Edn.Spec.unsep tok ++ rest) = .ok (Edn.Spec.unsepVal v) rest :=
  readNumber_exp_unsep s rest v hstart h

/-- non-vacuity: the hypothesis `hstart` holds on `1_000 `, which reads as 1000 up to the space -/
example : ∃ c t, "1_000 ".toUTF8.toList = c :: t ∧
    (is09 c = true ∨ ((c = 0x2B ∨ c = 0x2D) ∧ ∃ nx t', t = nx :: t' ∧ is09 nx = true)) :=
  ⟨0x31, "_000 ".toUTF8.toList, by decide +kernel, Or.inl (by decide)⟩
example : readNumber Edn.Spec.expCfg "1_000 ".toUTF8.toList = .ok (.int 1000) " ".toUTF8.toList := by decide +kernel
example : readNumber Cfg.core "1_000 ".toUTF8.toList = .err "_000 ".toUTF8.toList := by decide +kernel
/-- accepted: consecutive separators; rejected: a trailing separator, a separator after a lone `0`,
    in front of `.` or `N`, at the start of the fraction or of the exponent digits -/
example : readNumber Edn.Spec.expCfg "1__0".toUTF8.toList = .ok (.int 10) [] := by decide +kernel
example : readNumber Edn.Spec.expCfg "1_".toUTF8.toList = .err [] := by decide +kernel
example : readNumber Edn.Spec.expCfg "0_1".toUTF8.toList = .err "_1".toUTF8.toList := by decide +kernel
example : readNumber Edn.Spec.expCfg "1_.5".toUTF8.toList = .err ".5".toUTF8.toList := by decide +kernel
example : readNumber Edn.Spec.expCfg "1._5".toUTF8.toList = .err "_5".toUTF8.toList := by decide +kernel
example : readNumber Edn.Spec.expCfg "1e_5".toUTF8.toList = .err "_5".toUTF8.toList := by decide +kernel
example : readNumber Edn.Spec.expCfg "1_N".toUTF8.toList = .err "N".toUTF8.toList := by decide +kernel
/-- big payloads keep the separators; removing them gives the core payload -/
example : readNumber Edn.Spec.expCfg "1_0N".toUTF8.toList = .ok (.bigint false 10 "1_0".toUTF8.toList) [] := by
  decide +kernel
example : Edn.Spec.unsepVal (.bigint false 10 "1_0".toUTF8.toList) = .bigint false 10 "10".toUTF8.toList := by
  decide +kernel
/-- a float with separators is the double of the text without them -/
example : readNumber Edn.Spec.expCfg "1_0.2_5e1_0".toUTF8.toList = readNumber Cfg.core "10.25e10".toUTF8.toList := by
  decide +kernel

end Edn.Properties.C04
