/-
  Property C04 — integer, big-number and ratio literals denote exactly their mathematical
  value.  Theorem part: the converters (`parse_eight_digits_unrolled`,
  `parse_int64_from_buffer` for every digit string, radix and sign, `ratio_gcd`).
-/
import Edn.Proofs.Number

namespace Edn.Properties.C04
open Edn.Model Edn.Proofs

/-- the SWAR test accepts exactly the blocks of eight ASCII digits … -/
theorem swar_test (b : Bytes) (h : b.length = 8) : eightDigitsFast (load64le b) = b.all is09 :=
  eightDigitsFast_iff b h

/-- … and the multiply-shift cascade yields their decimal value (all 10^8 blocks at once) -/
theorem swar_value (b : Bytes) (h : b.length = 8) (hd : b.all is09 = true) :
    (parseEightDigits (load64le b)).toNat = digitsVal b := parseEightDigits_eq b h hd

/-- For every digit string of every length, every radix 2..36 and either sign (with
    underscores between digits when the experimental flag is on): the 64-bit reading
    succeeds exactly when the mathematical value lies in the signed 64-bit range, and then it
    is that value; otherwise the caller keeps the literal as a big integer. -/
theorem int64_exact (cfg : Cfg) (radix : Nat) (hr : 2 ≤ radix ∧ radix ≤ 36) (ds : Bytes) (neg : Bool)
    (hvalid : ∀ c ∈ ds, (digitValue c radix).isSome = true ∨ (cfg.exp = true ∧ c = 0x5F))
    (hne : ∃ c ∈ ds, (digitValue c radix).isSome = true) :
    parseInt64 cfg ds radix neg = inRange neg (digitsValR radix (ds.filter (· != 0x5F))) :=
  parseInt64_spec cfg radix hr ds neg hvalid hne

/-- the ratio reduction divides by the true greatest common divisor, for all int64 operands
    including the most negative one -/
theorem ratio_gcd_exact (a b : Int) (ha : a.natAbs ≤ 9223372036854775808) (hb : b.natAbs ≤ 9223372036854775808) :
    ratioGcd a b = Nat.gcd a.natAbs b.natAbs := ratioGcd_eq a b ha hb

example : parseInt64 Cfg.core "9223372036854775807".toUTF8.toList 10 false = some 9223372036854775807 := by decide +kernel
example : parseInt64 Cfg.core "9223372036854775808".toUTF8.toList 10 false = none := by decide +kernel
example : parseInt64 Cfg.core "9223372036854775808".toUTF8.toList 10 true = some (-9223372036854775808) := by decide +kernel

end Edn.Properties.C04
