/-
  Property C02 — reading always returns: bounded stack and time, no hang, for any input.

  Theorem part: termination of the reader for every input (the recursion fuel never runs
  out), recursion bounded by the nesting limit independently of the input, termination and
  correctness of the ratio gcd for every pair of int64 operands.  Real stack frames and real
  time are measured by the check (1 MiB stack, CPU limit) — that part is monitoring.
-/
import Edn.Proofs.Fuel
import Edn.Proofs.Number
import Edn.Proofs.AllocBound
import Edn.Proofs.AllocBoundQ7

namespace Edn.Properties.C02
open Edn.Model Edn.Proofs

/-- for every input, configuration and option set the reader returns a value, the
    end-of-input value or an error: the fuel `4 * length + 8` is never exhausted -/
theorem read_always_returns (cfg : Cfg) (opts : Opts) (input : Bytes) :
    (match (read cfg opts input).out with | .fuelOut => false | _ => true) = true :=
  read_terminates cfg opts input

/-- the amount of fuel is irrelevant once it is sufficient (so `read` computes the least
    fixed point of the reader equations, not an artefact of the fuel) -/
theorem fuel_irrelevant (ctx : Ctx) (f f' d : Nat) (dm : Bool) (st : St)
    (h : 2 * st.rest.length + 2 ≤ f) (h' : 2 * st.rest.length + 2 ≤ f') :
    readValue ctx f d dm st = readValue ctx f' d dm st :=
  readValue_fuel_irrelevant ctx f f' d dm st h h'

/-- every successfully read form consumes at least one byte and no call moves backwards:
    the number of reader steps is bounded by the input length at every nesting level -/
theorem progress (ctx : Ctx) (f d : Nat) (dm : Bool) (st : St) : Progress st (readValue ctx f d dm st) :=
  (reader_progress ctx f).1 d dm st

/-- Bounded recursion: at the nesting limit (EDN_MAX_NESTING_DEPTH, read from the source) the
    reader does not descend: with any amount of fuel the answer equals the answer with two
    units, i.e. without entering a collection, tagged literal, discard or metadata form.
    Every such form increases the depth by exactly one, so the recursion depth - and with
    it the C stack - is bounded by the limit, whatever the input. -/
theorem no_descent_at_limit (ctx : Ctx) (f d : Nat) (dm : Bool) (st : St)
    (hd : Edn.Generated.Tables.maxNestingDepth ≤ d) :
    readValue ctx (f + 2) d dm st = readValue ctx 2 d dm st :=
  no_recursion_at_limit₂ ctx f d dm st hd

/-- the ratio gcd terminates with the mathematical gcd for all int64 operands, the most
    negative one included (the loop that used to spin forever) -/
theorem ratio_gcd_terminates (a b : Int) (ha : a.natAbs ≤ 9223372036854775808) (hb : b.natAbs ≤ 9223372036854775808) :
    ratioGcd a b = Nat.gcd a.natAbs b.natAbs := ratioGcd_eq a b ha hb

/-- equality's own depth budget reaches every value the reader can return (values nested up
    to the reader's limit still compare equal to their copies) -/
theorem limits_consistent :
    Edn.Generated.Tables.maxNestingDepth ≤ Edn.Generated.Tables.maxRecursionDepth := by decide

example : ratioGcd (-9223372036854775808) 2 = 2 := by decide +kernel

/-! ## Allocation requests of a fault-free read (task E17)

Time cannot be exhibited by the model, but the number of logical allocation requests can: the
allocation-aware reader `readA` (Edn.Model.ReaderA) counts them in `ASt.reqs`, and the correspondence
stream `H` of C16 / C15 compares exactly that number (`reqs=`) between model and C code on every
corpus document. -/

/-- **Linearly many allocation requests.**  When no request fails, no tag registry is installed and
    every string literal of the input has escapes that decode (`stringsDecode`: a decidable test on
    the bytes — at every `"` from which the string scanner finds a closing quote and reports
    escapes, `decodeString` succeeds), reading makes at most `5 * length + length / 64 + 9` logical
    allocation requests: in every configuration, for every growth rule of the collection builders
    and every order in which `qsort` hands the elements to the comparator.

    Constants: 2 for `edn_arena_create`; 4 per byte consumed (value node, builder growth, key
    rewriting, map arrays, metadata map and entry, scratch array of the duplicate check, text-block
    line records — see Edn.Proofs.AllocBound); `length + 1` for the lazily materialised payloads the
    duplicate check / metadata merge ask for, each at most once (`ASt.bufs`); on the error path
    4 + `length / 64` for the temporary arena and the line index with its doubling offsets array.

    What this says about time: every request is one `edn_arena_alloc` / `malloc` / `calloc` /
    `realloc` call, so the allocator is entered linearly often and (block sizes being bounded by
    the input length) the memory obtained is polynomially bounded.  What it does NOT say: the work
    done between two requests is not counted — the pairwise duplicate check of small collections,
    `edn_value_equal` on nested collections and the metadata merge compare values without
    requesting anything, and that part of the running time (quadratic in the worst case) is
    covered by the measured half of C02 only.

    The hypothesis on the literals cannot be dropped: a literal whose escapes do not decode is
    accepted by the reader (decoding is lazy) and its decoded text is requested again at every look
    of `edn_value_equal` / `edn_value_hash`; `Edn.Proofs.AllocBound.superDoc` (nested small sets of
    such literals) makes 1537 requests with 269 bytes and 36789 with 1331 bytes — in the model and,
    checked with the harness command `H`, in the C code. -/
theorem fault_free_read_of_decodable_strings_makes_linearly_many_requests
    (cfg : Cfg) (opts : Opts) (orc : Nat → Bool) (input : Bytes)
    (grow : Nat → Nat) (handlerReq : String → Bool) (sortTouch : Nat → List Nat)
    (horc : ∀ n, orc n = false) (hreg : opts.registry = none)
    (hstr : Edn.Proofs.AllocBound.stringsDecode cfg input = true) :
    (readA cfg opts orc input grow handlerReq sortTouch).ast.reqs ≤ 5 * input.length + input.length / 64 + 9 :=
  Edn.Proofs.AllocBound.readA_reqs_linear cfg opts orc input grow handlerReq sortTouch horc hreg hstr

/-- the oracle of the task statement, default builders and `qsort` -/
theorem fault_free_read_makes_linearly_many_requests (cfg : Cfg) (opts : Opts) (input : Bytes)
    (hreg : opts.registry = none) (hstr : Edn.Proofs.AllocBound.stringsDecode cfg input = true) :
    (readA cfg opts (fun _ => false) input).ast.reqs ≤ 5 * input.length + input.length / 64 + 9 :=
  Edn.Proofs.AllocBound.readA_reqs_linear' cfg opts input hreg hstr

/-- a document without any backslash (no escape sequence, no character literal) needs no hypothesis
    on its literals -/
theorem fault_free_read_without_backslash_makes_linearly_many_requests (cfg : Cfg) (opts : Opts) (input : Bytes)
    (hreg : opts.registry = none) (hbs : ∀ c ∈ input, c ≠ 0x5C) :
    (readA cfg opts (fun _ => false) input).ast.reqs ≤ 5 * input.length + input.length / 64 + 9 :=
  Edn.Proofs.AllocBound.readA_reqs_linear_noBackslash cfg opts input hreg hbs

/-- inputs without a backslash satisfy the hypothesis trivially … -/
example : Edn.Proofs.AllocBound.stringsDecode Cfg.core "{:a [1 2.5 \"x\"] :b #{:c nil}}".toUTF8.toList = true := by
  decide +kernel
/-- … strings with escapes inside sets and maps, big numbers, metadata do, too:
    `^{"k\t" 1} #{"a\n" "b\u0041" 1_0N [#inst "x"]}` in the configuration with both flags -/
example : Edn.Proofs.AllocBound.stringsDecode ⟨true, true⟩
    "^{\"k\\t\" 1} #{\"a\\n\" \"b\\u0041\" 1_0N [#inst \"x\"]}".toUTF8.toList = true := by decide +kernel
example : ((readA ⟨true, true⟩ {} (fun _ => false)
    "^{\"k\\t\" 1} #{\"a\\n\" \"b\\u0041\" 1_0N [#inst \"x\"]}".toUTF8.toList).ast.reqs == 20) = true := by
  decide +kernel
/-- the counterexample to the bound without the hypothesis: 269 bytes, 1537 requests -/
example : ((readA Cfg.core {} (fun _ => false) (Edn.Proofs.AllocBound.superDoc 7)).ast.reqs == 1537) = true
    ∧ ((Edn.Proofs.AllocBound.superDoc 7).length == 269) = true ∧ 5 * 269 + 269 / 64 + 9 < 1537 := by
  decide +kernel

/-! ## Allocation requests of a fault-free read, no hypothesis on the input -/

/-- **Polynomially many allocation requests, unconditionally.**  When no request fails and no tag
    registry is installed, reading ANY input of `n` bytes makes at most
    `16 * n³ + 4 * n + n / 64 + 8` logical allocation requests, in every configuration (default
    builders, glibc's merge sort as `qsort`; `Edn.Proofs.AllocBoundQ.readA_reqs_cubic` is the
    statement for every growth rule and every `qsort` that first hands each element to the
    comparator at most once).

    This complements `fault_free_read_of_decodable_strings_makes_linearly_many_requests`: that bound
    is linear but needs every string literal to decode, because the decoded text of a literal whose
    escapes do not decode is never cached and is requested again at every look of
    `edn_value_equal` / `edn_value_hash` (`superDoc`).  Here every look is paid for instead: equality
    of two trees makes at most two requests per pair of nodes, hashing one per node, so the duplicate
    check of a collection with `S` nodes makes at most `1 + 4 * S²` requests and the metadata merge at
    most `5 + 2 * (nodes of the form) * (nodes of the new keys)`; a value read from `c` bytes has at
    most `2 * c` nodes; the byte that opens a form when `L + 1` bytes are left reserves
    `16 * (L + 1)²` requests for those looks, and `16 * (1² + … + n²) ≤ 16 * n³`.

    What it says about time is what the linear bound says (the allocator is entered polynomially
    often), now for every input.  The exponent is not tight: every byte lies in at most
    `maxNestingDepth` collections, so the true growth is quadratic (`superDoc k`: about `k⁴ / 2`
    requests for about `5 * k²` bytes); the proof does not track the depth and settles for the cube. -/
theorem fault_free_read_makes_polynomially_many_requests (cfg : Cfg) (opts : Opts) (input : Bytes)
    (hreg : opts.registry = none) :
    (readA cfg opts (fun _ => false) input).ast.reqs
      ≤ 16 * input.length ^ 3 + 4 * input.length + input.length / 64 + 8 :=
  Edn.Proofs.AllocBoundQ.readA_reqs_cubic' cfg opts input hreg

/-- the same in the shape `c₃ * (n + 1)³ + c₀` -/
theorem fault_free_read_makes_polynomially_many_requests' (cfg : Cfg) (opts : Opts) (input : Bytes)
    (hreg : opts.registry = none) :
    (readA cfg opts (fun _ => false) input).ast.reqs ≤ 16 * (input.length + 1) ^ 3 + 8 :=
  Edn.Proofs.AllocBoundQ.readA_reqs_cubic'' cfg opts input hreg

/-- `superDoc 3` (57 bytes, 73 requests): the hypothesis of the linear bound fails on it, the
    unconditional bound applies (its only hypothesis, "no registry", holds of the default options) -/
example : Edn.Proofs.AllocBound.stringsDecode Cfg.core (Edn.Proofs.AllocBound.superDoc 3) = false
    ∧ ((Edn.Proofs.AllocBound.superDoc 3).length == 57) = true
    ∧ ((readA Cfg.core {} (fun _ => false) (Edn.Proofs.AllocBound.superDoc 3)).ast.reqs == 73) = true
    ∧ 73 ≤ 16 * 57 ^ 3 + 4 * 57 + 57 / 64 + 8 := by
  decide +kernel
example : (readA Cfg.core {} (fun _ => false) (Edn.Proofs.AllocBound.superDoc 3)).ast.reqs
    ≤ 16 * (Edn.Proofs.AllocBound.superDoc 3).length ^ 3 + 4 * (Edn.Proofs.AllocBound.superDoc 3).length
      + (Edn.Proofs.AllocBound.superDoc 3).length / 64 + 8 :=
  fault_free_read_makes_polynomially_many_requests _ _ _ rfl

end Edn.Properties.C02
