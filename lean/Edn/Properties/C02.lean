/-
  Property C02 — reading always returns: bounded stack and time, no hang, for any input.

  Theorem part: termination of the reader for every input (the recursion fuel never runs
  out), recursion bounded by the nesting limit independently of the input, termination and
  correctness of the ratio gcd for every pair of int64 operands.  Real stack frames and real
  time are measured by the check (1 MiB stack, CPU limit) — that part is monitoring.
-/
import Edn.Proofs.Fuel
import Edn.Proofs.Number

namespace Edn.Properties.C02
open Edn.Model Edn.Proofs

/-- for every input, configuration and option set the reader returns a value, the
    end-of-input value or an error: the fuel `4 * length + 8` is never exhausted -/
theorem read_always_returns (cfg : Cfg) (opts : Opts) (input : Bytes) :
    (match (read cfg opts input).out with | .fuelOut => false | _ => true) = true :=
  read_terminates cfg opts input

/-- the amount of fuel is irrelevant once it is sufficient (so `read` computes the least
    fixed point of the reader equations, not an artefact of the fuel) -/
theorem fuel_irrelevant (ctx : Ctx) (f f' d : Nat) (dm : Bool) (st : St)
    (h : 2 * st.rest.length + 2 ≤ f) (h' : 2 * st.rest.length + 2 ≤ f') :
    readValue ctx f d dm st = readValue ctx f' d dm st :=
  readValue_fuel_irrelevant ctx f f' d dm st h h'

/-- every successfully read form consumes at least one byte and no call moves backwards:
    the number of reader steps is bounded by the input length at every nesting level -/
theorem progress (ctx : Ctx) (f d : Nat) (dm : Bool) (st : St) : Progress st (readValue ctx f d dm st) :=
  (reader_progress ctx f).1 d dm st

/-- Bounded recursion: at the nesting limit (EDN_MAX_NESTING_DEPTH, read from the source) the
    reader does not descend: with any amount of fuel the answer equals the answer with two
    units, i.e. without entering a collection, tagged literal, discard or metadata form.
    Every such form increases the depth by exactly one, so the recursion depth - and with
    it the C stack - is bounded by the limit, whatever the input. -/
theorem no_descent_at_limit (ctx : Ctx) (f d : Nat) (dm : Bool) (st : St)
    (hd : Edn.Generated.Tables.maxNestingDepth ≤ d) :
    readValue ctx (f + 2) d dm st = readValue ctx 2 d dm st :=
  no_recursion_at_limit₂ ctx f d dm st hd

/-- the ratio gcd terminates with the mathematical gcd for all int64 operands, the most
    negative one included (the loop that used to spin forever) -/
theorem ratio_gcd_terminates (a b : Int) (ha : a.natAbs ≤ 9223372036854775808) (hb : b.natAbs ≤ 9223372036854775808) :
    ratioGcd a b = Nat.gcd a.natAbs b.natAbs := ratioGcd_eq a b ha hb

/-- equality's own depth budget reaches every value the reader can return (values nested up
    to the reader's limit still compare equal to their copies) -/
theorem limits_consistent :
    Edn.Generated.Tables.maxNestingDepth ≤ Edn.Generated.Tables.maxRecursionDepth := by decide

example : ratioGcd (-9223372036854775808) 2 = 2 := by decide +kernel

end Edn.Properties.C02
