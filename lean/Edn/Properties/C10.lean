/-
  Property C10 — every malformed document is rejected with an error of the documented class,
  and no result ever carries both a value and an error, or neither.
-/
import Edn.Proofs.Reject
import Edn.Proofs.NumberSound
import Edn.Proofs.IdentSound
import Edn.Proofs.Sound
import Edn.Proofs.CharSound

namespace Edn.Properties.C10
open Edn.Model Edn.Proofs

/-- exactly one of: a value; the caller's end-of-input value (only when supplied); an error
    whose code is not OK.  (The model's fourth outcome, running out of fuel, never occurs.) -/
theorem value_xor_error (cfg : Cfg) (opts : Opts) (input : Bytes) :
    match (read cfg opts input).out with
    | .value _ => True
    | .eofValue => opts.eofValue = true
    | .error code _ _ => code ≠ .ok
    | .fuelOut => False :=
  read_value_xor_error cfg opts input

/-- no reader function, at any depth, ever reports an error with the OK code -/
theorem errors_never_ok (ctx : Ctx) (f d : Nat) (dm : Bool) (st st' : St) (e : ErrInfo)
    (h : readValue ctx f d dm st = .err e st') : e.code ≠ .ok :=
  (reader_err_code ctx f).1 d dm st e st' h

/-- token-level defects carry their own class: string, character, identifier/symbolic, number -/
theorem token_classes (ctx : Ctx) (st st' : St) (e : ErrInfo) :
    (readString ctx st = .err e st' → e.code = .invalidString) ∧
    (readCharacter ctx st = .err e st' → e.code = .invalidCharacter) ∧
    (readIdentifier ctx st = .err e st' → e.code = .invalidSyntax) ∧
    (readSymbolic ctx st = .err e st' → e.code = .invalidSyntax) ∧
    (readNumberRes ctx st = .err e st' → e.code = .invalidNumber) :=
  leaf_error_classes ctx st st' e

/-- a closing delimiter where a top-level form is expected: UNMATCHED_DELIMITER -/
theorem stray_closing_delimiter (ctx : Ctx) (f : Nat) (dm : Bool) (c : UInt8) (s : Bytes) (cl : List Call)
    (hc : c = 0x29 ∨ c = 0x5D ∨ c = 0x7D) :
    readValue ctx (f + 1) 0 dm { rest := c :: s, calls := cl } =
      .err (mkErr .unmatchedDelimiter) { rest := c :: s, calls := cl } :=
  stray_closer ctx f dm c s cl hc

/-- the input ends inside a list, vector or set: UNTERMINATED_COLLECTION, from the opening
    delimiter to the end of the input -/
theorem input_ends_in_sequence (ctx : Ctx) (f d : Nat) (dm : Bool) (kind start : Nat) (st st' : St) (acc : List Val) (e : ErrInfo)
    (h : readValue ctx f (d + 1) dm st = .err e st') (he : e.code = .unexpectedEof) (hf : e.fuelOut = false) :
    readSeq ctx (f + 1) d dm kind start st acc =
      .err (mkErr .unterminatedCollection (some start) (some st'.rest.length)) st' :=
  eof_in_sequence ctx f d dm kind start st st' acc e h he hf

/-- … inside a map -/
theorem input_ends_in_map (ctx : Ctx) (f d : Nat) (dm : Bool) (start : Nat) (ns : Option Bytes) (st st' : St) (ks vs : List Val) (e : ErrInfo)
    (h : readValue ctx f (d + 1) dm st = .err e st') (he : e.code = .unexpectedEof) (hf : e.fuelOut = false) :
    readMap ctx (f + 1) d dm start ns st ks vs =
      .err (mkErr .unterminatedCollection (some start) (some st'.rest.length)) st' :=
  eof_in_map_key ctx f d dm start ns st st' ks vs e h he hf

/-- a collection closed by the wrong delimiter: UNMATCHED_DELIMITER -/
theorem wrong_closing_delimiter (ctx : Ctx) (f d : Nat) (dm : Bool) (kind start : Nat) (st st' : St) (acc : List Val) (c : UInt8) (r : Bytes)
    (h : readValue ctx f (d + 1) dm st = .closer st') (hr : st'.rest = c :: r) (hc : c ≠ closerByte kind) :
    readSeq ctx (f + 1) d dm kind start st acc =
      .err (mkErr .unmatchedDelimiter (some start) (some (st'.rest.length - 1))) st' :=
  wrong_closer ctx f d dm kind start st st' acc c r h hr hc

/-- a map with an odd number of forms: INVALID_SYNTAX -/
theorem odd_number_of_map_forms (ctx : Ctx) (f d : Nat) (dm : Bool) (start : Nat) (ns : Option Bytes) (st st' st'' : St) (ks vs : List Val) (k : Val)
    (h : readValue ctx f (d + 1) dm st = .ok k st') (h2 : readValue ctx f (d + 1) dm st' = .closer st'') :
    readMap ctx (f + 1) d dm start ns st ks vs =
      .err (mkErr .invalidSyntax (some start) (some st''.rest.length)) st'' :=
  odd_map ctx f d dm start ns st st' st'' ks vs k h h2

/-- a discard marker with nothing to discard: INVALID_DISCARD -/
theorem discard_without_form (ctx : Ctx) (f d : Nat) (dm : Bool) (s : Bytes) (cl : List Call) (st' : St)
    (hd : d < Edn.Generated.Tables.maxNestingDepth)
    (h : readValue ctx f (d + 1) true { rest := s, calls := cl } = .closer st') :
    readValue ctx (f + 1) d dm { rest := 0x23 :: 0x5F :: s, calls := cl } =
      .err (mkErr .invalidDiscard (some (s.length + 2)) (some s.length)) st' :=
  orphan_discard ctx f d dm s cl st' hd h

/-- a tag with nothing to apply to: INVALID_SYNTAX before a closing delimiter … -/
theorem tag_without_form (ctx : Ctx) (f d : Nat) (dm : Bool) (start : Nat) (st st' st'' : St) (h : Hdr) (md : Option Val)
    (ns : Option Bytes) (name : Bytes) (c : UInt8) (cs : Bytes) (hs : st.rest = c :: cs)
    (hc : (c == 0x20 || c == 0x09 || c == 0x0A || c == 0x0D || c == 0x2C) = false)
    (hid : readIdentifier ctx st = .ok (.sym h md ns name) st')
    (hv : readValue ctx f (d + 1) dm st' = .closer st'') :
    readTagged ctx (f + 1) d dm start st = .err (mkErr .invalidSyntax (some start) (some st''.rest.length)) st'' :=
  orphan_tag ctx f d dm start st st' st'' h md ns name c cs hs hc hid hv

/-- … and UNEXPECTED_EOF at the end of the input -/
theorem tag_at_end_of_input (ctx : Ctx) (f d : Nat) (dm : Bool) (start : Nat) (cl : List Call) :
    readTagged ctx (f + 1) d dm start { rest := [], calls := cl } =
      .err (mkErr .unexpectedEof (some start) (some 0)) { rest := [], calls := cl } :=
  tag_at_eof ctx f d dm start cl

/-- core configuration: a digit-initial (or sign-digit-initial) text no prefix of which is a core
    number token followed by a terminator is *rejected* by the number reader - never read as
    something else (hex, octal, radix, ratio and `_` separators are all outside `CoreNum`) -/
theorem core_number_outside_grammar_rejected (s : Bytes)
    (hstart : ∃ c t, s = c :: t ∧ (is09 c = true ∨ ((c = 0x2B ∨ c = 0x2D) ∧ ∃ nx t', t = nx :: t' ∧ is09 nx = true)))
    (hnot : ¬ ∃ tok rest v, s = tok ++ rest ∧ Edn.Spec.CoreNum Cfg.core tok v ∧ Edn.Spec.TermStart rest) :
    ∃ cur, readNumber Cfg.core s = .err cur := by
  cases h : readNumber Cfg.core s with
  | err cur => exact ⟨cur, rfl⟩
  | ok v rest =>
    obtain ⟨tok, h1, h2, h3⟩ := Edn.Proofs.readNumber_core_sound s rest v hstart h
    exact absurd ⟨tok, rest, v, h1, h2, h3⟩ hnot

example : (match readNumber Cfg.core "0x1F".toUTF8.toList with | .err _ => true | .ok _ _ => false) = true := by decide +kernel
example : (match readNumber Cfg.core "1/2".toUTF8.toList with | .err _ => true | .ok _ _ => false) = true := by decide +kernel
example : (match readNumber Cfg.core "007".toUTF8.toList with | .err _ => true | .ok _ _ => false) = true := by decide +kernel

/-- every configuration: a maximal run of non-delimiter bytes that is not a well-formed identifier
    token (empty, containing `::`, `ns/` or `/name` with an empty side, a bare `:` or `:/`) is
    rejected by the identifier reader with INVALID_SYNTAX - never read as something else -/
theorem identifier_outside_grammar_rejected (ctx : Ctx) (tok rest : Bytes) (cl : List Call)
    (hne : ∀ c ∈ tok, isDelim c = false) (hr : rest = [] ∨ ∃ c t, rest = c :: t ∧ isDelim c = true)
    (hbad : ¬ (Edn.Spec.IdentLex tok ∧ ∃ a, Edn.Spec.IdentDenotes tok a)) :
    ∃ e st', readIdentifier ctx { rest := tok ++ rest, calls := cl } = .err e st' ∧ e.code = .invalidSyntax :=
  Edn.Proofs.readIdentifier_rejects ctx tok rest cl hne hr hbad

/-- **Nothing outside the grammar is accepted** (core configuration, no registry): an input no
    prefix of which is a form of `Edn.Spec.Form` within the nesting limit is never read as a value -
    the result is an error or (only for blank input) the end-of-input outcome -/
theorem core_outside_grammar_never_a_value (opts : Opts) (hreg : opts.registry = none) (input : Bytes)
    (hnot : ¬ ∃ k a tok rest, k ≤ Edn.Generated.Tables.maxNestingDepth ∧ input = tok ++ rest ∧ Edn.Spec.Form k a tok rest) :
    ∀ v, (read Cfg.core opts input).out ≠ .value v := by
  intro v h
  obtain ⟨k, tok, rest, hk, h1, h2⟩ := (Edn.Proofs.read_core_iff opts hreg input (Edn.Spec.strip v)).1 ⟨v, h, rfl⟩
  exact hnot ⟨k, _, tok, rest, hk, h1, h2⟩

/-- every failure of the character reader is INVALID_CHARACTER, reported from the backslash, with
    the cursor left there (every configuration) -/
theorem character_errors (ctx : Ctx) (st st' : St) (e : ErrInfo) (h : readCharacter ctx st = .err e st') :
    e.code = .invalidCharacter ∧ e.es = some st.rest.length ∧ st' = st :=
  Edn.Proofs.readCharacter_err ctx st st' e h

/-- non-vacuity: `[1 2` is an unterminated collection, `{:a}` an odd map, `)` a stray closer -/
example : (match (read Cfg.core {} "[1 2".toUTF8.toList).out with | .error c _ _ => c == .unterminatedCollection | _ => false) = true := by decide +kernel
example : (match (read Cfg.core {} "{:a}".toUTF8.toList).out with | .error c _ _ => c == .invalidSyntax | _ => false) = true := by decide +kernel
example : (match (read Cfg.core {} ")".toUTF8.toList).out with | .error c _ _ => c == .unmatchedDelimiter | _ => false) = true := by decide +kernel

end Edn.Properties.C10
