/-
  Property C10 — every malformed document is rejected with an error of the documented class,
  and no result ever carries both a value and an error, or neither.
-/
import Edn.Proofs.Reject
import Edn.Proofs.NumberSound
import Edn.Proofs.IdentSound
import Edn.Proofs.Sound
import Edn.Proofs.CharSound
import Edn.Proofs.RejectDoc
import Edn.Proofs.RejectDocX

namespace Edn.Properties.C10
open Edn.Model Edn.Proofs

/-- exactly one of: a value; the caller's end-of-input value (only when supplied); an error
    whose code is not OK.  (The model's fourth outcome, running out of fuel, never occurs.) -/
theorem value_xor_error (cfg : Cfg) (opts : Opts) (input : Bytes) :
    match (read cfg opts input).out with
    | .value _ => True
    | .eofValue => opts.eofValue = true
    | .error code _ _ => code ≠ .ok
    | .fuelOut => False :=
  read_value_xor_error cfg opts input

/-- no reader function, at any depth, ever reports an error with the OK code -/
theorem errors_never_ok (ctx : Ctx) (f d : Nat) (dm : Bool) (st st' : St) (e : ErrInfo)
    (h : readValue ctx f d dm st = .err e st') : e.code ≠ .ok :=
  (reader_err_code ctx f).1 d dm st e st' h

/-- token-level defects carry their own class: string, character, identifier/symbolic, number -/
theorem token_classes (ctx : Ctx) (st st' : St) (e : ErrInfo) :
    (readString ctx st = .err e st' → e.code = .invalidString) ∧
    (readCharacter ctx st = .err e st' → e.code = .invalidCharacter) ∧
    (readIdentifier ctx st = .err e st' → e.code = .invalidSyntax) ∧
    (readSymbolic ctx st = .err e st' → e.code = .invalidSyntax) ∧
    (readNumberRes ctx st = .err e st' → e.code = .invalidNumber) :=
  leaf_error_classes ctx st st' e

/-- a closing delimiter where a top-level form is expected: UNMATCHED_DELIMITER -/
theorem stray_closing_delimiter (ctx : Ctx) (f : Nat) (dm : Bool) (c : UInt8) (s : Bytes) (cl : List Call)
    (hc : c = 0x29 ∨ c = 0x5D ∨ c = 0x7D) :
    readValue ctx (f + 1) 0 dm { rest := c :: s, calls := cl } =
      .err (mkErr .unmatchedDelimiter) { rest := c :: s, calls := cl } :=
  stray_closer ctx f dm c s cl hc

/-- the input ends inside a list, vector or set: UNTERMINATED_COLLECTION, from the opening
    delimiter to the end of the input -/
theorem input_ends_in_sequence (ctx : Ctx) (f d : Nat) (dm : Bool) (kind start : Nat) (st st' : St) (acc : List Val) (e : ErrInfo)
    (h : readValue ctx f (d + 1) dm st = .err e st') (he : e.code = .unexpectedEof) (hf : e.fuelOut = false) :
    readSeq ctx (f + 1) d dm kind start st acc =
      .err (mkErr .unterminatedCollection (some start) (some st'.rest.length)) st' :=
  eof_in_sequence ctx f d dm kind start st st' acc e h he hf

/-- … inside a map -/
theorem input_ends_in_map (ctx : Ctx) (f d : Nat) (dm : Bool) (start : Nat) (ns : Option Bytes) (st st' : St) (ks vs : List Val) (e : ErrInfo)
    (h : readValue ctx f (d + 1) dm st = .err e st') (he : e.code = .unexpectedEof) (hf : e.fuelOut = false) :
    readMap ctx (f + 1) d dm start ns st ks vs =
      .err (mkErr .unterminatedCollection (some start) (some st'.rest.length)) st' :=
  eof_in_map_key ctx f d dm start ns st st' ks vs e h he hf

/-- a collection closed by the wrong delimiter: UNMATCHED_DELIMITER -/
theorem wrong_closing_delimiter (ctx : Ctx) (f d : Nat) (dm : Bool) (kind start : Nat) (st st' : St) (acc : List Val) (c : UInt8) (r : Bytes)
    (h : readValue ctx f (d + 1) dm st = .closer st') (hr : st'.rest = c :: r) (hc : c ≠ closerByte kind) :
    readSeq ctx (f + 1) d dm kind start st acc =
      .err (mkErr .unmatchedDelimiter (some start) (some (st'.rest.length - 1))) st' :=
  wrong_closer ctx f d dm kind start st st' acc c r h hr hc

/-- a map with an odd number of forms: INVALID_SYNTAX -/
theorem odd_number_of_map_forms (ctx : Ctx) (f d : Nat) (dm : Bool) (start : Nat) (ns : Option Bytes) (st st' st'' : St) (ks vs : List Val) (k : Val)
    (h : readValue ctx f (d + 1) dm st = .ok k st') (h2 : readValue ctx f (d + 1) dm st' = .closer st'') :
    readMap ctx (f + 1) d dm start ns st ks vs =
      .err (mkErr .invalidSyntax (some start) (some st''.rest.length)) st'' :=
  odd_map ctx f d dm start ns st st' st'' ks vs k h h2

/-- a discard marker with nothing to discard: INVALID_DISCARD -/
theorem discard_without_form (ctx : Ctx) (f d : Nat) (dm : Bool) (s : Bytes) (cl : List Call) (st' : St)
    (hd : d < Edn.Generated.Tables.maxNestingDepth)
    (h : readValue ctx f (d + 1) true { rest := s, calls := cl } = .closer st') :
    readValue ctx (f + 1) d dm { rest := 0x23 :: 0x5F :: s, calls := cl } =
      .err (mkErr .invalidDiscard (some (s.length + 2)) (some s.length)) st' :=
  orphan_discard ctx f d dm s cl st' hd h

/-- a tag with nothing to apply to: INVALID_SYNTAX before a closing delimiter … -/
theorem tag_without_form (ctx : Ctx) (f d : Nat) (dm : Bool) (start : Nat) (st st' st'' : St) (h : Hdr) (md : Option Val)
    (ns : Option Bytes) (name : Bytes) (c : UInt8) (cs : Bytes) (hs : st.rest = c :: cs)
    (hc : (c == 0x20 || c == 0x09 || c == 0x0A || c == 0x0D || c == 0x2C) = false)
    (hid : readIdentifier ctx st = .ok (.sym h md ns name) st')
    (hv : readValue ctx f (d + 1) dm st' = .closer st'') :
    readTagged ctx (f + 1) d dm start st = .err (mkErr .invalidSyntax (some start) (some st''.rest.length)) st'' :=
  orphan_tag ctx f d dm start st st' st'' h md ns name c cs hs hc hid hv

/-- … and UNEXPECTED_EOF at the end of the input -/
theorem tag_at_end_of_input (ctx : Ctx) (f d : Nat) (dm : Bool) (start : Nat) (cl : List Call) :
    readTagged ctx (f + 1) d dm start { rest := [], calls := cl } =
      .err (mkErr .unexpectedEof (some start) (some 0)) { rest := [], calls := cl } :=
  tag_at_eof ctx f d dm start cl

/-- core configuration: a digit-initial (or sign-digit-initial) text no prefix of which is a core
    number token followed by a terminator is *rejected* by the number reader - never read as
    something else (hex, octal, radix, ratio and `_` separators are all outside `CoreNum`) -/
theorem core_number_outside_grammar_rejected (s : Bytes)
    (hstart : ∃ c t, s = c :: t ∧ (is09 c = true ∨ ((c = 0x2B ∨ c = 0x2D) ∧ ∃ nx t', t = nx :: t' ∧ is09 nx = true)))
    (hnot : ¬ ∃ tok rest v, s = tok ++ rest ∧ Edn.Spec.CoreNum Cfg.core tok v ∧ Edn.Spec.TermStart rest) :
    ∃ cur, readNumber Cfg.core s = .err cur := by
  cases h : readNumber Cfg.core s with
  | err cur => exact ⟨cur, rfl⟩
  | ok v rest =>
    obtain ⟨tok, h1, h2, h3⟩ := Edn.Proofs.readNumber_core_sound s rest v hstart h
    exact absurd ⟨tok, rest, v, h1, h2, h3⟩ hnot

example : (match readNumber Cfg.core "0x1F".toUTF8.toList with | .err _ => true | .ok _ _ => false) = true := by decide +kernel
example : (match readNumber Cfg.core "1/2".toUTF8.toList with | .err _ => true | .ok _ _ => false) = true := by decide +kernel
example : (match readNumber Cfg.core "007".toUTF8.toList with | .err _ => true | .ok _ _ => false) = true := by decide +kernel

/-- every configuration: a maximal run of non-delimiter bytes that is not a well-formed identifier
    token (empty, containing `::`, `ns/` or `/name` with an empty side, a bare `:` or `:/`) is
    rejected by the identifier reader with INVALID_SYNTAX - never read as something else -/
theorem identifier_outside_grammar_rejected (ctx : Ctx) (tok rest : Bytes) (cl : List Call)
    (hne : ∀ c ∈ tok, isDelim c = false) (hr : rest = [] ∨ ∃ c t, rest = c :: t ∧ isDelim c = true)
    (hbad : ¬ (Edn.Spec.IdentLex tok ∧ ∃ a, Edn.Spec.IdentDenotes tok a)) :
    ∃ e st', readIdentifier ctx { rest := tok ++ rest, calls := cl } = .err e st' ∧ e.code = .invalidSyntax :=
  Edn.Proofs.readIdentifier_rejects ctx tok rest cl hne hr hbad

/-- **Nothing outside the grammar is accepted** (core configuration, no registry): an input no
    prefix of which is a form of `Edn.Spec.Form` within the nesting limit is never read as a value -
    the result is an error or (only for blank input) the end-of-input outcome -/
theorem core_outside_grammar_never_a_value (opts : Opts) (hreg : opts.registry = none) (input : Bytes)
    (hnot : ¬ ∃ k a tok rest, k ≤ Edn.Generated.Tables.maxNestingDepth ∧ input = tok ++ rest ∧ Edn.Spec.Form k a tok rest) :
    ∀ v, (read Cfg.core opts input).out ≠ .value v := by
  intro v h
  obtain ⟨k, tok, rest, hk, h1, h2⟩ := (Edn.Proofs.read_core_iff opts hreg input (Edn.Spec.strip v)).1 ⟨v, h, rfl⟩
  exact hnot ⟨k, _, tok, rest, hk, h1, h2⟩

/-- every failure of the character reader is INVALID_CHARACTER, reported from the backslash, with
    the cursor left there (every configuration) -/
theorem character_errors (ctx : Ctx) (st st' : St) (e : ErrInfo) (h : readCharacter ctx st = .err e st') :
    e.code = .invalidCharacter ∧ e.es = some st.rest.length ∧ st' = st :=
  Edn.Proofs.readCharacter_err ctx st st' e h

/-- non-vacuity: `[1 2` is an unterminated collection, `{:a}` an odd map, `)` a stray closer -/
example : (match (read Cfg.core {} "[1 2".toUTF8.toList).out with | .error c _ _ => c == .unterminatedCollection | _ => false) = true := by decide +kernel
example : (match (read Cfg.core {} "{:a}".toUTF8.toList).out with | .error c _ _ => c == .invalidSyntax | _ => false) = true := by decide +kernel
example : (match (read Cfg.core {} ")".toUTF8.toList).out with | .error c _ _ => c == .unmatchedDelimiter | _ => false) = true := by decide +kernel

/-! ## Whole documents: the error class of every defect family

  Core configuration, no reader registry.  The statements are about the bytes of the input:
  `Forms k n body after` (n complete forms of the grammar `Edn.Spec.Form`), `Edn.Spec.Trail`
  (blanks, comments, discarded forms), `Desc s c 0 false pre d dm` (`pre` is a well-formed *open
  context* - blanks, discarded forms, open tags / discard markers, and open collections holding
  complete forms - after which a form is expected at depth `d`), `EofSite` (only blanks and
  comments are left), `TopTrivia` (the inputs holding no form at all); see
  `Edn.Proofs.RejectDocAux1/4/5`.  `posOf input off` is the position (offset, line, column)
  `edn_read` reports for the byte offset `off`.  Each theorem is instantiated on a concrete
  document beside its proof in `Edn.Proofs.RejectDoc`. -/

section Documents
open Edn.Spec Edn.Proofs.Cmpl Edn.Proofs.RejectDoc

/-- **Nothing outside the grammar is accepted, and it is an error**: an input no prefix of which is
    a form within the nesting limit yields an error with a code other than OK, or - only when the
    caller supplied an end-of-input value and the input holds no form at all - that value -/
theorem document_outside_grammar_rejected (opts : Opts) (hreg : opts.registry = none) (input : Bytes)
    (hnot : ¬ ∃ k a tok rest, k ≤ Edn.Generated.Tables.maxNestingDepth ∧ input = tok ++ rest ∧ Form k a tok rest) :
    (∃ code es ee, (read Cfg.core opts input).out = .error code es ee ∧ code ≠ .ok) ∨
    ((read Cfg.core opts input).out = .eofValue ∧ opts.eofValue = true ∧ TopTrivia input) :=
  core_not_in_grammar_rejected opts hreg input hnot

/-- **The first defect decides the class**: whatever error the reader raises right after a
    well-formed open context is the error of the whole document, code and range (every error through
    tags and discard markers; every error but UNEXPECTED_EOF - which the innermost collection turns
    into UNTERMINATED_COLLECTION - through open collections) -/
theorem first_defect_decides_the_class (opts : Opts) (hreg : opts.registry = none) {s : Bytes} {c : Bool} {pre : Bytes}
    {d : Nat} {dm : Bool} (h : Desc s c 0 false pre d dm) (e : ErrInfo) (r : Bytes)
    (hs : SiteErr opts d dm s e r) (hc : c = false ∨ e.code ≠ .unexpectedEof) (hf : e.fuelOut = false)
    (hn : (e.code == .unexpectedEof && e.eofTop && opts.eofValue) = false) :
    (read Cfg.core opts (pre ++ s)).out =
      .error e.code (posOf (pre ++ s) ((pre ++ s).length - e.es.getD r.length))
        (posOf (pre ++ s) ((pre ++ s).length - e.ee.getD r.length)) :=
  first_defect_decides opts hreg h e r hs hc hf hn

/-- end of input where a top-level form is expected: with an end-of-input value supplied the
    reader returns it **iff** the input consists of blanks, comments (the last one possibly
    unclosed) and complete discarded forms only (`TopTrivia`) … -/
theorem end_of_input_value_iff_no_form (opts : Opts) (hreg : opts.registry = none) (hev : opts.eofValue = true) (input : Bytes) :
    (read Cfg.core opts input).out = .eofValue ↔ TopTrivia input :=
  eof_iff_trivia_only opts hreg hev input

/-- … and without one such an input is UNEXPECTED_EOF at the end of the input -/
theorem no_form_is_unexpected_eof (opts : Opts) (hreg : opts.registry = none) (hev : opts.eofValue = false) (input : Bytes)
    (h : TopTrivia input) :
    (read Cfg.core opts input).out = .error .unexpectedEof (posOf input input.length) (posOf input input.length) :=
  trivia_only_eof_error opts hreg hev input h

/-- the whitespace skipper runs to the end of the input exactly on blanks and comments, the last
    comment possibly unclosed (the base case of `TopTrivia`) -/
theorem blank_to_the_end_iff (s : Bytes) : skipWsScalar s = [] ↔ EofBlank s :=
  skipWsScalar_nil_iff s

/-- a closing delimiter where a top-level form is expected (after blanks, comments and discarded
    forms): UNMATCHED_DELIMITER at that delimiter -/
theorem stray_closing_delimiter_document (opts : Opts) (hreg : opts.registry = none) (k : Nat) (tr : Bytes) (c : UInt8)
    (rest : Bytes) (hk : k ≤ Edn.Generated.Tables.maxNestingDepth) (ht : Trail k tr (c :: rest)) (hc : IsCloser c) :
    (read Cfg.core opts (tr ++ c :: rest)).out =
      .error .unmatchedDelimiter (posOf (tr ++ c :: rest) tr.length) (posOf (tr ++ c :: rest) tr.length) :=
  stray_closer_doc opts hreg k tr c rest hk ht hc

/-- the input ends inside a collection (after complete forms, possibly behind open tags or discard
    markers): UNTERMINATED_COLLECTION from the opening delimiter of the **innermost** open collection
    to the end of the input -/
theorem input_ends_in_collection_document (opts : Opts) (hreg : opts.registry = none) {c0 : Bool} {pre : Bytes} {d : Nat} {dm : Bool}
    (kind k n : Nat) (body pre2 s2 : Bytes) (d2 : Nat) (dm2 : Bool)
    (hctx : Desc (opener kind ++ (body ++ (pre2 ++ s2))) c0 0 false pre d dm)
    (hd : d + 1 + k ≤ Edn.Generated.Tables.maxNestingDepth) (hb : Forms k n body (pre2 ++ s2))
    (hflat : Desc s2 false (d + 1) dm pre2 d2 dm2) (hs : EofSite s2) :
    (read Cfg.core opts (pre ++ (opener kind ++ (body ++ (pre2 ++ s2))))).out =
      .error .unterminatedCollection (posOf (pre ++ (opener kind ++ (body ++ (pre2 ++ s2)))) pre.length)
        (posOf (pre ++ (opener kind ++ (body ++ (pre2 ++ s2)))) (pre ++ (opener kind ++ (body ++ (pre2 ++ s2)))).length) :=
  unterminated_collection opts hreg kind k n body pre2 s2 d2 dm2 hctx hd hb hflat hs

/-- a list, vector or set closed by the wrong delimiter: UNMATCHED_DELIMITER from its opening
    delimiter to just after the closing one -/
theorem wrong_closing_delimiter_document (opts : Opts) (hreg : opts.registry = none) {c0 : Bool} {pre : Bytes} {d : Nat} {dm : Bool}
    (kind k n : Nat) (body tr : Bytes) (c : UInt8) (rest : Bytes)
    (hctx : Desc (opener kind ++ (body ++ (tr ++ c :: rest))) c0 0 false pre d dm) (hkind : kind < 3)
    (hd : d + 1 + k ≤ Edn.Generated.Tables.maxNestingDepth) (hb : Forms k n body (tr ++ c :: rest))
    (ht : Trail k tr (c :: rest)) (hc : IsCloser c) (hne : c ≠ closerByte kind) :
    (read Cfg.core opts (pre ++ (opener kind ++ (body ++ (tr ++ c :: rest))))).out =
      .error .unmatchedDelimiter (posOf (pre ++ (opener kind ++ (body ++ (tr ++ c :: rest)))) pre.length)
        (posOf (pre ++ (opener kind ++ (body ++ (tr ++ c :: rest))))
          ((pre ++ (opener kind ++ (body ++ (tr ++ c :: rest)))).length - rest.length)) :=
  mismatched_closer opts hreg kind k n body tr c rest hctx hkind hd hb ht hc hne

/-- … a map with an even number of forms closed by `)` or `]` -/
theorem wrong_closing_delimiter_of_map_document (opts : Opts) (hreg : opts.registry = none) {c0 : Bool} {pre : Bytes} {d : Nat} {dm : Bool}
    (k m : Nat) (body tr : Bytes) (c : UInt8) (rest : Bytes)
    (hctx : Desc (opener 3 ++ (body ++ (tr ++ c :: rest))) c0 0 false pre d dm)
    (hd : d + 1 + k ≤ Edn.Generated.Tables.maxNestingDepth) (hb : Forms k (2 * m) body (tr ++ c :: rest))
    (ht : Trail k tr (c :: rest)) (hc : IsCloser c) (hne : c ≠ 0x7D) :
    (read Cfg.core opts (pre ++ (opener 3 ++ (body ++ (tr ++ c :: rest))))).out =
      .error .unmatchedDelimiter (posOf (pre ++ (opener 3 ++ (body ++ (tr ++ c :: rest)))) pre.length)
        (posOf (pre ++ (opener 3 ++ (body ++ (tr ++ c :: rest))))
          ((pre ++ (opener 3 ++ (body ++ (tr ++ c :: rest)))).length - rest.length)) :=
  mismatched_closer_map opts hreg k m body tr c rest hctx hd hb ht hc hne

/-- a map with an odd number of forms (closed by any closing delimiter): INVALID_SYNTAX from the
    opening brace to the closing delimiter -/
theorem odd_number_of_map_forms_document (opts : Opts) (hreg : opts.registry = none) {c0 : Bool} {pre : Bytes} {d : Nat} {dm : Bool}
    (k m : Nat) (body tr : Bytes) (c : UInt8) (rest : Bytes)
    (hctx : Desc (opener 3 ++ (body ++ (tr ++ c :: rest))) c0 0 false pre d dm)
    (hd : d + 1 + k ≤ Edn.Generated.Tables.maxNestingDepth) (hb : Forms k (2 * m + 1) body (tr ++ c :: rest))
    (ht : Trail k tr (c :: rest)) (hc : IsCloser c) :
    (read Cfg.core opts (pre ++ (opener 3 ++ (body ++ (tr ++ c :: rest))))).out =
      .error .invalidSyntax (posOf (pre ++ (opener 3 ++ (body ++ (tr ++ c :: rest)))) pre.length)
        (posOf (pre ++ (opener 3 ++ (body ++ (tr ++ c :: rest))))
          ((pre ++ (opener 3 ++ (body ++ (tr ++ c :: rest)))).length - (rest.length + 1))) :=
  odd_map_doc opts hreg k m body tr c rest hctx hd hb ht hc

/-- a tag with nothing to apply to before a closing delimiter: INVALID_SYNTAX from the `#` to the
    closing delimiter -/
theorem tag_without_form_document (opts : Opts) (hreg : opts.registry = none) {c0 : Bool} {pre : Bytes} {d : Nat} {dm : Bool}
    (tg : Bytes) (ns : Option Bytes) (nm : Bytes) (k : Nat) (tr : Bytes) (c : UInt8) (rest : Bytes)
    (hctx : Desc (0x23 :: (tg ++ (tr ++ c :: rest))) c0 0 false pre d dm)
    (hd : d + 1 + k ≤ Edn.Generated.Tables.maxNestingDepth) (hl : IdentLex tg) (hden : IdentDenotes tg (.sym hdr0 none ns nm))
    (hu : tg.head? ≠ some 0x5F) (ht : Trail k tr (c :: rest)) (hc : IsCloser c) :
    (read Cfg.core opts (pre ++ 0x23 :: (tg ++ (tr ++ c :: rest)))).out =
      .error .invalidSyntax (posOf (pre ++ 0x23 :: (tg ++ (tr ++ c :: rest))) pre.length)
        (posOf (pre ++ 0x23 :: (tg ++ (tr ++ c :: rest)))
          ((pre ++ 0x23 :: (tg ++ (tr ++ c :: rest))).length - (rest.length + 1))) :=
  orphan_tag_closer opts hreg tg ns nm k tr c rest hctx hd hl hden hu ht hc

/-- a discard marker with nothing to discard before a closing delimiter: INVALID_DISCARD on the two
    bytes of the marker -/
theorem discard_without_form_document (opts : Opts) (hreg : opts.registry = none) {c0 : Bool} {pre : Bytes} {d : Nat} {dm : Bool}
    (k : Nat) (tr : Bytes) (c : UInt8) (rest : Bytes)
    (hctx : Desc (0x23 :: 0x5F :: (tr ++ c :: rest)) c0 0 false pre d dm)
    (hd : d + 1 + k ≤ Edn.Generated.Tables.maxNestingDepth) (ht : Trail k tr (c :: rest)) (hc : IsCloser c) :
    (read Cfg.core opts (pre ++ 0x23 :: 0x5F :: (tr ++ c :: rest))).out =
      .error .invalidDiscard (posOf (pre ++ 0x23 :: 0x5F :: (tr ++ c :: rest)) pre.length)
        (posOf (pre ++ 0x23 :: 0x5F :: (tr ++ c :: rest)) (pre.length + 2)) :=
  orphan_discard_closer opts hreg k tr c rest hctx hd ht hc

/-- a tag or discard marker outside every collection whose form never comes (or a lone `#` at the
    end): UNEXPECTED_EOF at the end of the input - an error even when an end-of-input value was
    supplied.  (Inside a collection the same input is `input_ends_in_collection_document`.) -/
theorem tag_or_discard_at_end_document (opts : Opts) (hreg : opts.registry = none) {pre s : Bytes} {d : Nat} {dm : Bool}
    (hctx : Desc s false 0 false pre d dm) (hs : EofSite s) (hopen : 0 < d ∨ skipWsScalar s ≠ []) :
    ∃ es ee, (read Cfg.core opts (pre ++ s)).out = .error .unexpectedEof es ee ∧
      (pre ++ s).length - 1 ≤ es.offset ∧ ee.offset = (pre ++ s).length :=
  orphan_at_eof opts hreg hctx hs hopen

/-- an identifier-like token that is not a well-formed identifier, anywhere a form is expected
    after a well-formed context: INVALID_SYNTAX from the token's first byte -/
theorem invalid_identifier_document (opts : Opts) (hreg : opts.registry = none) {c0 : Bool} {pre : Bytes} {d : Nat} {dm : Bool}
    (tok rest : Bytes) (hctx : Desc (tok ++ rest) c0 0 false pre d dm)
    (hne : tok ≠ []) (hnd : ∀ c ∈ tok, isDelim c = false) (hs : IdentStart tok) (hr : DelimStart rest)
    (hbad : ¬ (IdentLex tok ∧ ∃ a, IdentDenotes tok a)) :
    ∃ ee, (read Cfg.core opts (pre ++ (tok ++ rest))).out =
      .error .invalidSyntax (posOf (pre ++ (tok ++ rest)) pre.length) ee :=
  bad_identifier_token opts hreg tok rest hctx hne hnd hs hr hbad

/-- a number-like text (a digit, or a sign and a digit, first) no prefix of which is a number token
    of the core grammar followed by a terminator: INVALID_NUMBER from its first byte -/
theorem invalid_number_document (opts : Opts) (hreg : opts.registry = none) {c0 : Bool} {pre : Bytes} {d : Nat} {dm : Bool}
    (s : Bytes) (hctx : Desc s c0 0 false pre d dm)
    (hstart : ∃ c t, s = c :: t ∧ (is09 c = true ∨ ((c = 0x2B ∨ c = 0x2D) ∧ ∃ nx t', t = nx :: t' ∧ is09 nx = true)))
    (hnot : ¬ ∃ tok rest v, s = tok ++ rest ∧ CoreNum Cfg.core tok v ∧ TermStart rest) :
    ∃ ee, (read Cfg.core opts (pre ++ s)).out = .error .invalidNumber (posOf (pre ++ s) pre.length) ee :=
  bad_number_token opts hreg s hctx hstart hnot

/-- a string literal that is never closed: INVALID_STRING from the opening quote to the end of the input -/
theorem unterminated_string_document (opts : Opts) (hreg : opts.registry = none) {c0 : Bool} {pre : Bytes} {d : Nat} {dm : Bool}
    (cs : Bytes) (hctx : Desc (0x22 :: cs) c0 0 false pre d dm)
    (hnot : ¬ ∃ sp rest, cs = sp ++ 0x22 :: rest ∧ RawStr sp) :
    (read Cfg.core opts (pre ++ 0x22 :: cs)).out =
      .error .invalidString (posOf (pre ++ 0x22 :: cs) pre.length) (posOf (pre ++ 0x22 :: cs) (pre ++ 0x22 :: cs).length) :=
  unterminated_string opts hreg cs hctx hnot

/-- a backslash that no character token (followed by a delimiter or the end) follows:
    INVALID_CHARACTER from the backslash -/
theorem invalid_character_document (opts : Opts) (hreg : opts.registry = none) {c0 : Bool} {pre : Bytes} {d : Nat} {dm : Bool}
    (cs : Bytes) (hctx : Desc (0x5C :: cs) c0 0 false pre d dm)
    (hnot : ¬ ∃ body rest cp, cs = body ++ rest ∧ CharTok body cp ∧ cp ≤ 0x10FFFF ∧ DelimStart rest) :
    ∃ ee, (read Cfg.core opts (pre ++ 0x5C :: cs)).out = .error .invalidCharacter (posOf (pre ++ 0x5C :: cs) pre.length) ee :=
  bad_character_token opts hreg cs hctx hnot

end Documents

/-- concrete documents: code, start offset and end offset of the reported error -/
def errIs (r : Result) (code : Err) (so eo : Nat) : Bool :=
  match r.out with
  | .error c es ee => c == code && es.offset == so && ee.offset == eo
  | _ => false

example : errIs (read Cfg.core {} "[1 2".toUTF8.toList) .unterminatedCollection 0 4 = true := by decide +kernel
example : errIs (read Cfg.core {} "[1 (2 3".toUTF8.toList) .unterminatedCollection 3 7 = true := by decide +kernel
example : errIs (read Cfg.core {} "[1 #foo #_".toUTF8.toList) .unterminatedCollection 0 10 = true := by decide +kernel
example : errIs (read Cfg.core {} "{:a}".toUTF8.toList) .invalidSyntax 0 3 = true := by decide +kernel
example : errIs (read Cfg.core {} "{:a 1 :b]".toUTF8.toList) .invalidSyntax 0 8 = true := by decide +kernel
example : errIs (read Cfg.core {} "[1 2)".toUTF8.toList) .unmatchedDelimiter 0 5 = true := by decide +kernel
example : errIs (read Cfg.core {} " ;c\n )".toUTF8.toList) .unmatchedDelimiter 5 5 = true := by decide +kernel
example : errIs (read Cfg.core {} "#_".toUTF8.toList) .unexpectedEof 2 2 = true := by decide +kernel
example : errIs (read Cfg.core { eofValue := true } "#_".toUTF8.toList) .unexpectedEof 2 2 = true := by decide +kernel
example : errIs (read Cfg.core {} "[#_]".toUTF8.toList) .invalidDiscard 1 3 = true := by decide +kernel
example : errIs (read Cfg.core {} "[#foo]".toUTF8.toList) .invalidSyntax 1 5 = true := by decide +kernel
example : errIs (read Cfg.core {} "1x".toUTF8.toList) .invalidNumber 0 1 = true := by decide +kernel
example : errIs (read Cfg.core {} "[a::b]".toUTF8.toList) .invalidSyntax 1 1 = true := by decide +kernel
example : errIs (read Cfg.core {} "  ; c".toUTF8.toList) .unexpectedEof 5 5 = true := by decide +kernel
example : (match (read Cfg.core { eofValue := true } "  ; c".toUTF8.toList).out with | .eofValue => true | _ => false) = true := by decide +kernel
example : (match (read Cfg.core { eofValue := true } "#_ 1 ; c".toUTF8.toList).out with | .eofValue => true | _ => false) = true := by decide +kernel

/-! ## Every configuration: nothing outside the grammar is accepted

  `Edn.Spec.FormX cfg N S` is the grammar of all four combinations of the two feature flags (see
  `Edn.Properties.C03`); `numJOf cfg` / `strJOf cfg` (`Edn.Proofs.RejectDocX`) plug in the exact
  number / string judgements of the configuration - `CoreNum`, `CljNum` (with `_` separators under
  both flags), `ExpNum`; ordinary literals, and text blocks with the experimental flag - so no
  abstract hypothesis is left.  With both flags off this is `document_outside_grammar_rejected`. -/

section EveryConfiguration
open Edn.Spec Edn.Proofs.RejectDocX

/-- **An ill-formed document is rejected in every configuration** (no reader registry): an input no
    prefix of which is a form of the configuration's grammar within the nesting limit yields an
    error with a code other than OK, or - only when the caller supplied an end-of-input value - that
    value.  Never a tree. -/
theorem ill_formed_document_is_rejected_in_every_configuration (cfg : Cfg) (opts : Opts) (hreg : opts.registry = none)
    (input : Bytes)
    (hnot : ¬ ∃ k a tok rest, k ≤ Edn.Generated.Tables.maxNestingDepth ∧ input = tok ++ rest ∧
      FormX cfg (numJOf cfg) (strJOf cfg) k a tok rest) :
    (∃ code es ee, (read cfg opts input).out = .error code es ee ∧ code ≠ .ok) ∨
    ((read cfg opts input).out = .eofValue ∧ opts.eofValue = true) :=
  not_in_grammarX_rejected cfg opts hreg input hnot

/-- … so it is never read as a value … -/
theorem ill_formed_document_is_never_a_value (cfg : Cfg) (opts : Opts) (hreg : opts.registry = none) (input : Bytes)
    (hnot : ¬ ∃ k a tok rest, k ≤ Edn.Generated.Tables.maxNestingDepth ∧ input = tok ++ rest ∧
      FormX cfg (numJOf cfg) (strJOf cfg) k a tok rest) :
    ∀ v, (read cfg opts input).out ≠ .value v :=
  not_in_grammarX_never_a_value cfg opts hreg input hnot

/-- … and, the other way round, **whatever is accepted is a prefix in the grammar**: a returned tree
    means the input starts with a form of the configuration's grammar, within the nesting limit,
    that denotes the tree's content (metadata included) -/
theorem accepted_document_is_in_the_grammar (cfg : Cfg) (opts : Opts) (hreg : opts.registry = none) (input : Bytes) (v : Val)
    (h : (read cfg opts input).out = .value v) :
    ∃ k tok rest, k ≤ Edn.Generated.Tables.maxNestingDepth ∧ input = tok ++ rest ∧
      FormX cfg (numJOf cfg) (strJOf cfg) k (stripM v) tok rest :=
  accepted_is_grammarX_prefix cfg opts hreg input v h

/-- the judgements are the ones of `Edn.Properties.C03`, per configuration (definitionally) -/
example : numJOf Cfg.core = coreNumJ ∧ strJOf Cfg.core = rawStrJ := ⟨rfl, rfl⟩
example : numJOf ⟨true, false⟩ = cljNumJ ⟨true, false⟩ ∧ strJOf ⟨true, false⟩ = rawStrJ := ⟨rfl, rfl⟩
example : numJOf ⟨false, true⟩ = expNumJ ∧ strJOf ⟨false, true⟩ = expStrJ := ⟨rfl, rfl⟩
example : numJOf ⟨true, true⟩ = cljNumJ ⟨true, true⟩ ∧ strJOf ⟨true, true⟩ = expStrJ := ⟨rfl, rfl⟩

/-- non-vacuity of the hypothesis: `^` alone has no prefix in the grammar of the Clojure flag (by
    completeness: the reader rejects it) -/
example : ¬ ∃ k a tok rest, k ≤ Edn.Generated.Tables.maxNestingDepth ∧ "^".toUTF8.toList = tok ++ rest ∧
    FormX ⟨true, false⟩ (numJOf ⟨true, false⟩) (strJOf ⟨true, false⟩) k a tok rest :=
  no_prefix_of_not_value _ _ (by decide +kernel)

end EveryConfiguration

/-- the outcome of a read in the four configurations core, Clojure flag, experimental flag, both:
    `none` for a value (or the end-of-input outcome), `some code` for an error -/
def rejections (input : Bytes) : List (Option Err) :=
  [Cfg.core, ⟨true, false⟩, ⟨false, true⟩, ⟨true, true⟩].map fun cfg =>
    match (read cfg {} input).out with
    | .error c _ _ => some c
    | _ => none

/-- `^` alone: a metadata marker with nothing behind it where the Clojure flag is set (elsewhere `^`
    is an identifier byte and this is the symbol `^`) -/
example : rejections "^".toUTF8.toList = [none, some .unexpectedEof, none, some .unexpectedEof] := by decide +kernel
/-- `#:a{:x 1 :a/x 2}`: two spellings of one key with the Clojure flag; a keyword is no tag without it -/
example : rejections "#:a{:x 1 :a/x 2}".toUTF8.toList =
    [some .invalidSyntax, some .duplicateKey, some .invalidSyntax, some .duplicateKey] := by decide +kernel
/-- `1/0`: no number in any configuration (no ratios without the Clojure flag, no zero denominator with it) -/
example : rejections "1/0".toUTF8.toList =
    [some .invalidNumber, some .invalidNumber, some .invalidNumber, some .invalidNumber] := by decide +kernel
/-- `"""⏎abc`: an unclosed text block with the experimental flag (without it the empty string `""`
    is the first form, and `edn_read` reads one form) … -/
example : rejections "\"\"\"\nabc".toUTF8.toList = [none, none, some .invalidString, some .invalidString] := by decide +kernel
/-- … inside a vector it is an unterminated string everywhere -/
example : rejections "[\"\"\"\nabc]".toUTF8.toList =
    [some .invalidString, some .invalidString, some .invalidString, some .invalidString] := by decide +kernel

end Edn.Properties.C10
