/-
  Property C16 — allocation failure at any point yields a clean error or a complete value.

  Theorem part (the logic that decides what is handed out when requests fail): the collection
  builder and the duplicate check, under *every* schedule of failing requests.  That the whole
  reader returns normally, leaks nothing and touches no dead memory under every single and
  every from-k-on failure is decided at run time by the fault enumeration of the check
  (monitoring, not proof) — the reader model has no allocation parameter.
-/
import Edn.Proofs.Faults
import Edn.Proofs.Arena

namespace Edn.Properties.C16
open Edn.Model Edn.Spec Edn.Proofs

/-- for every element list, initial capacity and allocation schedule the builder either reports
    a failed add (only when a request failed), or returns NULL (only for an empty collection or
    when a request failed), or returns a heap array holding exactly the elements added, in
    order - never a partial array -/
theorem builder_complete_or_null {α : Type} (grow : Nat → Nat) (initCap : Nat) (xs : List α) (sched : List Bool) :
    match Builder.run grow initCap xs sched with
    | .addFailed i => i < xs.length ∧ false ∈ sched
    | .finished n none => n = xs.length ∧ (xs = [] ∨ false ∈ sched)
    | .finished n (some (st, ys)) => st = .heap ∧ ys = xs ∧ n = xs.length :=
  builder_outcome grow initCap xs sched

/-- the array handed to the caller never is the builder's own in-frame storage (which dies with
    the reader's stack frame) -/
theorem builder_never_returns_frame_storage {α : Type} (grow : Nat → Nat) (initCap : Nat) (xs ys : List α) (sched : List Bool) (n : Nat) (st : Store)
    (h : Builder.run grow initCap xs sched = .finished n (some (st, ys))) : st = .heap :=
  builder_never_returns_stack grow initCap xs ys sched n st h

/-- without failing requests every element is delivered -/
theorem builder_without_faults {α : Type} (grow : Nat → Nat) (initCap : Nat) (xs : List α) (sched : List Bool) (hs : false ∉ sched) :
    Builder.run grow initCap xs sched =
      .finished xs.length (if xs = [] ∧ initCap ≤ 8 then none else some (.heap, xs)) :=
  builder_no_faults grow initCap xs sched hs

/-- duplicate detection degrades hash table -> sorted -> pairwise when scratch memory is
    unavailable; the verdict is the same in every case, and exact -/
theorem duplicate_verdict_independent_of_faults (cfg : Cfg) (callocOk mallocOk : Bool) (xs : List Val) (h : Elems cfg xs) :
    ((hasDuplicatesF cfg callocOk mallocOk xs).1 = (hasDuplicates cfg xs).1) ∧
    ((hasDuplicatesF cfg callocOk mallocOk xs).1 = false ↔ pairwiseDistinct cfg xs) ∧
    Elems cfg (hasDuplicatesF cfg callocOk mallocOk xs).2 ∧
    (hasDuplicatesF cfg callocOk mallocOk xs).2.length = xs.length :=
  hasDuplicatesF_verdict cfg callocOk mallocOk xs h

/-- a refused arena request changes nothing (so the arena stays consistent and a later,
    smaller request can still succeed) -/
theorem refused_request_changes_nothing (mallocOk : Nat → Bool) (a : Arena) (size : Nat) (hinv : Inv a)
    (h : (a.alloc mallocOk size).1 = none) : (a.alloc mallocOk size).2 = a :=
  (alloc_spec mallocOk a size hinv).2.2.1 h

example : (match (Builder.run growHalf 8 [1, 2, 3] [false] : BuildOutcome Nat) with | .finished 3 none => true | _ => false) = true := by decide
example : (match (Builder.run growHalf 8 (List.range 9) [true] : BuildOutcome Nat) with | .finished 9 (some (.heap, ys)) => ys == List.range 9 | _ => false) = true := by decide

end Edn.Properties.C16
