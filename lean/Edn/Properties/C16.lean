/-
  Property C16 — allocation failure at any point yields a clean error or a complete value.

  Theorem part 1 (the logic that decides what is handed out when requests fail): the collection
  builder and the duplicate check, under *every* schedule of failing requests.

  Theorem part 2 (the whole reader): Edn.Model.ReaderA is the reader model with allocation inside
  it — every logical allocation request of `edn_read_with_options` goes through one function and
  a fault oracle `orc : Nat → Bool` decides which requests fail (tied to the C code by the `H`
  correspondence stream of this check: every request of every corpus document failed alone and
  from there on, event traces compared).  About it:
  * `reader_without_faults_is_the_reader` — under an oracle that fails nothing the
    allocation-aware reader returns exactly what `Edn.Model.read` returns (refinement: every
    theorem about `read` is a theorem about the fault-free runs of `readA`);
  * `error_without_fault_is_the_readers_error` — an error returned although no request failed is
    the fault-free error;
  * `fault_yields_error_or_the_complete_value` — under EVERY oracle (every single failure, every
    from-k-on failure, every other schedule) the outcome is the complete fault-free value (equal up
    to cache cells, same call log), or the end-of-input value where the fault-free read yields it,
    or an error: a fault can turn the outcome into an error, never into a different or partial
    value (for registries of handlers that do not look at cache cells, in particular without a
    registry; see the theorem for why, and for the two counterexamples that led to the repair of
    the code);
  * `accessor_yields_payload_or_null` — an accessor call that materialises a string or the digits
    of a big number after the read returns the complete payload or NULL under every oracle.
  That the code returns normally, leaks nothing and touches no dead memory under every single and
  every from-k-on failure is, beyond the correspondence with the model, decided at run time by the
  fault enumeration of the check (monitoring).
-/
import Edn.Proofs.Faults
import Edn.Proofs.Arena
import Edn.Proofs.AllocSim
import Edn.Proofs.AllocSimFault
import Edn.Proofs.AllocSimMat

namespace Edn.Properties.C16
open Edn.Model Edn.Spec Edn.Proofs

/-- for every element list, initial capacity and allocation schedule the builder either reports
    a failed add (only when a request failed), or returns NULL (only for an empty collection or
    when a request failed), or returns a heap array holding exactly the elements added, in
    order - never a partial array -/
theorem builder_complete_or_null {α : Type} (grow : Nat → Nat) (initCap : Nat) (xs : List α) (sched : List Bool) :
    match Builder.run grow initCap xs sched with
    | .addFailed i => i < xs.length ∧ false ∈ sched
    | .finished n none => n = xs.length ∧ (xs = [] ∨ false ∈ sched)
    | .finished n (some (st, ys)) => st = .heap ∧ ys = xs ∧ n = xs.length :=
  builder_outcome grow initCap xs sched

/-- the array handed to the caller never is the builder's own in-frame storage (which dies with
    the reader's stack frame) -/
theorem builder_never_returns_frame_storage {α : Type} (grow : Nat → Nat) (initCap : Nat) (xs ys : List α) (sched : List Bool) (n : Nat) (st : Store)
    (h : Builder.run grow initCap xs sched = .finished n (some (st, ys))) : st = .heap :=
  builder_never_returns_stack grow initCap xs ys sched n st h

/-- without failing requests every element is delivered -/
theorem builder_without_faults {α : Type} (grow : Nat → Nat) (initCap : Nat) (xs : List α) (sched : List Bool) (hs : false ∉ sched) :
    Builder.run grow initCap xs sched =
      .finished xs.length (if xs = [] ∧ initCap ≤ 8 then none else some (.heap, xs)) :=
  builder_no_faults grow initCap xs sched hs

/-- duplicate detection degrades hash table -> sorted -> pairwise when scratch memory is
    unavailable; the verdict is the same in every case, and exact -/
theorem duplicate_verdict_independent_of_faults (cfg : Cfg) (callocOk mallocOk : Bool) (xs : List Val) (h : Elems cfg xs) :
    ((hasDuplicatesF cfg callocOk mallocOk xs).1 = (hasDuplicates cfg xs).1) ∧
    ((hasDuplicatesF cfg callocOk mallocOk xs).1 = false ↔ pairwiseDistinct cfg xs) ∧
    Elems cfg (hasDuplicatesF cfg callocOk mallocOk xs).2 ∧
    (hasDuplicatesF cfg callocOk mallocOk xs).2.length = xs.length :=
  hasDuplicatesF_verdict cfg callocOk mallocOk xs h

/-- a refused arena request changes nothing (so the arena stays consistent and a later,
    smaller request can still succeed) -/
theorem refused_request_changes_nothing (mallocOk : Nat → Bool) (a : Arena) (size : Nat) (hinv : Inv a)
    (h : (a.alloc mallocOk size).1 = none) : (a.alloc mallocOk size).2 = a :=
  (alloc_spec mallocOk a size hinv).2.2.1 h

example : (match (Builder.run growHalf 8 [1, 2, 3] [false] : BuildOutcome Nat) with | .finished 3 none => true | _ => false) = true := by decide
example : (match (Builder.run growHalf 8 (List.range 9) [true] : BuildOutcome Nat) with | .finished 9 (some (.heap, ys)) => ys == List.range 9 | _ => false) = true := by decide

/-! ## The reader with allocation inside (Edn.Model.ReaderA) -/

/-- **The reader without faults is the reader.**  For every oracle that fails no request (in
    particular `fun _ => false`), every growth rule of the builders, every table of handlers that
    request memory and every order in which `qsort` first touches the elements, the
    allocation-aware model of `edn_read_with_options` returns the outcome (value incl. cache cells,
    end-of-input value, or error with code and positions) and the call log of `Edn.Model.read`. -/
theorem reader_without_faults_is_the_reader (cfg : Cfg) (opts : Opts) (orc : Nat → Bool) (hx : ∀ n, orc n = false)
    (input : Bytes) (grow : Nat → Nat) (handlerReq : String → Bool) (sortTouch : Nat → List Nat) :
    (readA cfg opts orc input grow handlerReq sortTouch).result = Edn.Model.read cfg opts input :=
  Edn.Proofs.AllocSim.readA_nofault cfg opts orc hx input grow handlerReq sortTouch

/-- the same inside the recursion: `edn_read_value` with a live parser arena and no failing
    request returns the value, rest, call log or error of `readValue` -/
theorem readValue_without_faults (x : ACtx) (hx : ∀ n, x.orc n = false) (f d : Nat) (dm : Bool) (st : St) (a : ASt)
    (ha : a.arena = .alive) :
    (readValueA x f d dm st a).1 = readValue x.ctx f d dm st ∧ (readValueA x f d dm st a).2.arena = .alive :=
  Edn.Proofs.AllocSim.readValueA_nofault x hx f d dm st a ha

/-- an error that is returned although no request failed is the error of the fault-free reader -/
theorem error_without_fault_is_the_readers_error (cfg : Cfg) (opts : Opts) (orc : Nat → Bool)
    (hx : ∀ n, orc n = false) (input : Bytes) (grow : Nat → Nat) (handlerReq : String → Bool)
    (sortTouch : Nat → List Nat) (code : Err) (es ee : Pos)
    (h : (readA cfg opts orc input grow handlerReq sortTouch).out = .error code es ee) :
    (Edn.Model.read cfg opts input).out = .error code es ee :=
  Edn.Proofs.AllocSim.readA_error_without_fault cfg opts orc hx input grow handlerReq sortTouch code es ee h

/-- the outcome is a value -/
def Outcome.isValue : Outcome → Bool
  | .value _ => true
  | _ => false

/-- the numeric error code of an outcome (`Err.code`: 4 = OUT_OF_MEMORY) -/
def Outcome.errCode : Outcome → Option Nat
  | .error c _ _ => some c.code
  | _ => none

-- `[1 2 {:a "x"} #{1 2 3}]`: without a failing request a value; with request 5 (the keyword `:a`;
-- requests 1 and 2 create the arena, 3 and 4 are the two integers) failing, OUT_OF_MEMORY
example : Outcome.isValue (readA Cfg.core {} (fun _ => false) "[1 2 {:a \"x\"} #{1 2 3}]".toUTF8.toList).out = true := by
  decide +kernel
example : Outcome.isValue (Edn.Model.read Cfg.core {} "[1 2 {:a \"x\"} #{1 2 3}]".toUTF8.toList).out = true := by
  decide +kernel
example : Outcome.errCode (readA Cfg.core {} (fun i => i == 5) "[1 2 {:a \"x\"} #{1 2 3}]".toUTF8.toList).out
    = some 4 := by decide +kernel
-- … and with request 5 and every later one failing
example : Outcome.errCode (readA Cfg.core {} (fun i => decide (5 ≤ i)) "[1 2 {:a \"x\"} #{1 2 3}]".toUTF8.toList).out
    = some 4 := by decide +kernel

/-- **A fault yields an error or the complete value.**  For every fault oracle `orc` — every
    single failing request, every failure from some request on, every other schedule —, every
    growth rule, handler-request table and `qsort` contact order, and every registry of handlers
    that do not look at cache cells (`RegistryOK`, see below; true when there is no registry):

    * if the read under faults returns a value `v`, the fault-free read returns a value `v0` with
      `eraseCache v = eraseCache v0` (the same tree: kinds, payloads, source ranges, element order,
      metadata; only cache cells of the hash may be empty in `v` where `v0` has them filled,
      because the duplicate check falls back to a strategy without hashing when its scratch memory
      is refused), and the call logs are equal;
    * if it returns the caller's end-of-input value, so does the fault-free read;
    * otherwise it returns an error; it never runs out of the model's recursion fuel.

    `RegistryOK cfg opts`: every handler, given arguments that differ in cache cells only, gives up
    on both or returns results that differ in cache cells only and are well-formed values with
    valid caches (`Edn.Proofs.AllocSim.HandlerOK`).  Needed because a handler of the model is an
    arbitrary function of the value incl. its cache cells
    (`Edn.Proofs.AllocSim.fault_theorem_needs_registry_hypothesis`: a handler that peeks at a cache
    cell turns a refused scratch `malloc` into a different value); the identity handler, the
    always-failing handler and a handler building an external value satisfy it.

    The statement was false for the code as it was when the model was first matched against it
    (model and code agreed): a refused lazy decoding inside `edn_value_equal` was treated like an
    undecodable literal.  Counterexamples, both confirmed on the code with the `H` command:
    core configuration, `#{"a\n" "a<LF>"}` with request 6 alone failing returned a set with two
    equal elements (fault-free: DUPLICATE_ELEMENT); Clojure configuration,
    `^{"a\n" 1} ^{"a<LF>" 2} x` with request 17 and every later one failing returned `x` with a
    metadata map with two equal keys (fault-free: one entry).  The code was repaired (the arena
    counts refused requests; the set / map close and the metadata merge report OUT_OF_MEMORY when
    the count moved during the comparison; big-number equality is false on NULL digits), the model
    follows the repaired code, and the theorem holds for it. -/
theorem fault_yields_error_or_the_complete_value (cfg : Cfg) (opts : Opts)
    (hR : Edn.Proofs.AllocSim.RegistryOK cfg opts)
    (orc : Nat → Bool) (input : Bytes) (grow : Nat → Nat) (handlerReq : String → Bool) (sortTouch : Nat → List Nat) :
    (match (readA cfg opts orc input grow handlerReq sortTouch).out with
     | .value v => ∃ v0, (Edn.Model.read cfg opts input).out = .value v0 ∧ eraseCache v = eraseCache v0
     | .eofValue => (Edn.Model.read cfg opts input).out = .eofValue
     | .error _ _ _ => True
     | .fuelOut => False) ∧
    (∀ v, (readA cfg opts orc input grow handlerReq sortTouch).out = .value v →
      (readA cfg opts orc input grow handlerReq sortTouch).calls = (Edn.Model.read cfg opts input).calls) :=
  Edn.Proofs.AllocSim.readA_fault cfg opts hR orc input grow handlerReq sortTouch

/-- the fault theorem without a handler registry (no hypothesis left) -/
theorem fault_yields_error_or_the_complete_value_noRegistry (cfg : Cfg) (opts : Opts) (hreg : opts.registry = none)
    (orc : Nat → Bool) (input : Bytes) (grow : Nat → Nat) (handlerReq : String → Bool) (sortTouch : Nat → List Nat) :
    (match (readA cfg opts orc input grow handlerReq sortTouch).out with
     | .value v => ∃ v0, (Edn.Model.read cfg opts input).out = .value v0 ∧ eraseCache v = eraseCache v0
     | .eofValue => (Edn.Model.read cfg opts input).out = .eofValue
     | .error _ _ _ => True
     | .fuelOut => False) :=
  (Edn.Proofs.AllocSim.readA_fault cfg opts (Edn.Proofs.AllocSim.RegistryOK_of_none hreg) orc input grow handlerReq sortTouch).1

/-- the same inside the recursion (`edn_read_value` at a nesting depth within the limit) -/
theorem readValue_under_faults (x : ACtx) (hR : Edn.Proofs.AllocSim.RegistryOK x.ctx.cfg x.ctx.opts) (f d : Nat) (dm : Bool) (st : St) (a : ASt)
    (hd : d ≤ Edn.Generated.Tables.maxNestingDepth) (v : Val) (st' : St)
    (h : (readValueA x f d dm st a).1 = .ok v st') :
    ∃ v0, readValue x.ctx f d dm st = .ok v0 st' ∧ eraseCache v = eraseCache v0 :=
  (Edn.Proofs.AllocSim.readValueA_fault x hR f d dm st a hd).1 v st' h

/-- the repaired behaviour on the first counterexample: with request 6 (the decoded text of the
    escaped string, inside the duplicate check) failing alone the read reports OUT_OF_MEMORY … -/
example : Outcome.errCode (readA Cfg.core {} (fun i => i == 6) "#{\"a\\n\" \"a\n\"}".toUTF8.toList).out = some 4 := by
  decide +kernel
/-- … and DUPLICATE_ELEMENT (12) without a fault -/
example : Outcome.errCode (readA Cfg.core {} (fun _ => false) "#{\"a\\n\" \"a\n\"}".toUTF8.toList).out = some 12 := by
  decide +kernel
/-- the hypothesis of the fault theorem holds for the default options … -/
example : Edn.Proofs.AllocSim.RegistryOK Cfg.core {} := Edn.Proofs.AllocSim.RegistryOK_of_none rfl
/-- … and for a registry that maps every tag to the identity handler -/
example (cfg : Cfg) : Edn.Proofs.AllocSim.RegistryOK cfg { registry := some (fun _ => some ⟨"id", fun v => some v⟩) } := by
  intro reg e tag h hh
  simp only [Option.some.injEq] at e
  subst e
  simp only [Option.some.injEq] at hh
  subst hh
  exact Edn.Proofs.AllocSim.HandlerOK_id cfg "id"
/-- a failing scratch allocation (request 22: the `malloc` of the sorted copy) degrades the duplicate
    check of a 17-element set to the pairwise strategy without changing the outcome: still a
    value (whose elements have empty cache cells) -/
example : Outcome.isValue (readA Cfg.core {} (fun i => i == 22)
    "#{1 2 3 4 5 6 7 8 9 10 11 12 13 14 15 16 17}".toUTF8.toList).out = true := by decide +kernel

/-- **Lazily materialised payloads.**  `edn_string_get`, `edn_bigint_get`, `edn_bigdec_get` called
    on a value of the tree after the read, under every oracle and in every allocation state:
    the complete payload (`materialise`: decoded text, digits without separators) or NULL — never a
    part of it; with no failing request and the arena alive, the payload. -/
theorem accessor_yields_payload_or_null (x : ACtx) (v : Val) (a : ASt) :
    (materialiseA x v a).1 = Edn.Proofs.AllocSim.materialise x.ctx.cfg v ∨ (materialiseA x v a).1 = none :=
  Edn.Proofs.AllocSim.materialiseA_fault x v a

theorem accessor_without_faults (x : ACtx) (hx : ∀ n, x.orc n = false) (v : Val) (a : ASt) (ha : a.arena = .alive) :
    (materialiseA x v a).1 = Edn.Proofs.AllocSim.materialise x.ctx.cfg v :=
  Edn.Proofs.AllocSim.materialiseA_nofault x hx v a ha

end Edn.Properties.C16
