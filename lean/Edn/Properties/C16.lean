/-
  Property C16 — allocation failure at any point yields a clean error or a complete value.

  Theorem part 1 (the logic that decides what is handed out when requests fail): the collection
  builder and the duplicate check, under *every* schedule of failing requests.

  Theorem part 2 (the whole reader): Edn.Model.ReaderA is the reader model with allocation inside
  it — every logical allocation request of `edn_read_with_options` goes through one function and
  a fault oracle `orc : Nat → Bool` decides which requests fail (tied to the C code by the `H`
  correspondence stream of this check: every request of every corpus document failed alone and
  from there on, event traces compared).  About it:
  * `reader_without_faults_is_the_reader` — under an oracle that fails nothing the
    allocation-aware reader returns exactly what `Edn.Model.read` returns (refinement: every
    theorem about `read` is a theorem about the fault-free runs of `readA`);
  * `error_without_fault_is_the_readers_error` — an error returned although no request failed is
    the fault-free error.
  That the code returns normally, leaks nothing and touches no dead memory under every single and
  every from-k-on failure is, beyond the correspondence with the model, decided at run time by the
  fault enumeration of the check (monitoring).
-/
import Edn.Proofs.Faults
import Edn.Proofs.Arena
import Edn.Proofs.AllocSim

namespace Edn.Properties.C16
open Edn.Model Edn.Spec Edn.Proofs

/-- for every element list, initial capacity and allocation schedule the builder either reports
    a failed add (only when a request failed), or returns NULL (only for an empty collection or
    when a request failed), or returns a heap array holding exactly the elements added, in
    order - never a partial array -/
theorem builder_complete_or_null {α : Type} (grow : Nat → Nat) (initCap : Nat) (xs : List α) (sched : List Bool) :
    match Builder.run grow initCap xs sched with
    | .addFailed i => i < xs.length ∧ false ∈ sched
    | .finished n none => n = xs.length ∧ (xs = [] ∨ false ∈ sched)
    | .finished n (some (st, ys)) => st = .heap ∧ ys = xs ∧ n = xs.length :=
  builder_outcome grow initCap xs sched

/-- the array handed to the caller never is the builder's own in-frame storage (which dies with
    the reader's stack frame) -/
theorem builder_never_returns_frame_storage {α : Type} (grow : Nat → Nat) (initCap : Nat) (xs ys : List α) (sched : List Bool) (n : Nat) (st : Store)
    (h : Builder.run grow initCap xs sched = .finished n (some (st, ys))) : st = .heap :=
  builder_never_returns_stack grow initCap xs ys sched n st h

/-- without failing requests every element is delivered -/
theorem builder_without_faults {α : Type} (grow : Nat → Nat) (initCap : Nat) (xs : List α) (sched : List Bool) (hs : false ∉ sched) :
    Builder.run grow initCap xs sched =
      .finished xs.length (if xs = [] ∧ initCap ≤ 8 then none else some (.heap, xs)) :=
  builder_no_faults grow initCap xs sched hs

/-- duplicate detection degrades hash table -> sorted -> pairwise when scratch memory is
    unavailable; the verdict is the same in every case, and exact -/
theorem duplicate_verdict_independent_of_faults (cfg : Cfg) (callocOk mallocOk : Bool) (xs : List Val) (h : Elems cfg xs) :
    ((hasDuplicatesF cfg callocOk mallocOk xs).1 = (hasDuplicates cfg xs).1) ∧
    ((hasDuplicatesF cfg callocOk mallocOk xs).1 = false ↔ pairwiseDistinct cfg xs) ∧
    Elems cfg (hasDuplicatesF cfg callocOk mallocOk xs).2 ∧
    (hasDuplicatesF cfg callocOk mallocOk xs).2.length = xs.length :=
  hasDuplicatesF_verdict cfg callocOk mallocOk xs h

/-- a refused arena request changes nothing (so the arena stays consistent and a later,
    smaller request can still succeed) -/
theorem refused_request_changes_nothing (mallocOk : Nat → Bool) (a : Arena) (size : Nat) (hinv : Inv a)
    (h : (a.alloc mallocOk size).1 = none) : (a.alloc mallocOk size).2 = a :=
  (alloc_spec mallocOk a size hinv).2.2.1 h

example : (match (Builder.run growHalf 8 [1, 2, 3] [false] : BuildOutcome Nat) with | .finished 3 none => true | _ => false) = true := by decide
example : (match (Builder.run growHalf 8 (List.range 9) [true] : BuildOutcome Nat) with | .finished 9 (some (.heap, ys)) => ys == List.range 9 | _ => false) = true := by decide

/-! ## The reader with allocation inside (Edn.Model.ReaderA) -/

/-- **The reader without faults is the reader.**  For every oracle that fails no request (in
    particular `fun _ => false`), every growth rule of the builders, every table of handlers that
    request memory and every order in which `qsort` first touches the elements, the
    allocation-aware model of `edn_read_with_options` returns the outcome (value incl. cache cells,
    end-of-input value, or error with code and positions) and the call log of `Edn.Model.read`. -/
theorem reader_without_faults_is_the_reader (cfg : Cfg) (opts : Opts) (orc : Nat → Bool) (hx : ∀ n, orc n = false)
    (input : Bytes) (grow : Nat → Nat) (handlerReq : String → Bool) (sortTouch : Nat → List Nat) :
    (readA cfg opts orc input grow handlerReq sortTouch).result = Edn.Model.read cfg opts input :=
  Edn.Proofs.AllocSim.readA_nofault cfg opts orc hx input grow handlerReq sortTouch

/-- the same inside the recursion: `edn_read_value` with a live parser arena and no failing
    request returns the value, rest, call log or error of `readValue` -/
theorem readValue_without_faults (x : ACtx) (hx : ∀ n, x.orc n = false) (f d : Nat) (dm : Bool) (st : St) (a : ASt)
    (ha : a.arena = .alive) :
    (readValueA x f d dm st a).1 = readValue x.ctx f d dm st ∧ (readValueA x f d dm st a).2.arena = .alive :=
  Edn.Proofs.AllocSim.readValueA_nofault x hx f d dm st a ha

/-- an error that is returned although no request failed is the error of the fault-free reader -/
theorem error_without_fault_is_the_readers_error (cfg : Cfg) (opts : Opts) (orc : Nat → Bool)
    (hx : ∀ n, orc n = false) (input : Bytes) (grow : Nat → Nat) (handlerReq : String → Bool)
    (sortTouch : Nat → List Nat) (code : Err) (es ee : Pos)
    (h : (readA cfg opts orc input grow handlerReq sortTouch).out = .error code es ee) :
    (Edn.Model.read cfg opts input).out = .error code es ee :=
  Edn.Proofs.AllocSim.readA_error_without_fault cfg opts orc hx input grow handlerReq sortTouch code es ee h

/-- the outcome is a value -/
def Outcome.isValue : Outcome → Bool
  | .value _ => true
  | _ => false

/-- the numeric error code of an outcome (`Err.code`: 4 = OUT_OF_MEMORY) -/
def Outcome.errCode : Outcome → Option Nat
  | .error c _ _ => some c.code
  | _ => none

-- `[1 2 {:a "x"} #{1 2 3}]`: without a failing request a value; with request 5 (the keyword `:a`;
-- requests 1 and 2 create the arena, 3 and 4 are the two integers) failing, OUT_OF_MEMORY
example : Outcome.isValue (readA Cfg.core {} (fun _ => false) "[1 2 {:a \"x\"} #{1 2 3}]".toUTF8.toList).out = true := by
  decide +kernel
example : Outcome.isValue (Edn.Model.read Cfg.core {} "[1 2 {:a \"x\"} #{1 2 3}]".toUTF8.toList).out = true := by
  decide +kernel
example : Outcome.errCode (readA Cfg.core {} (fun i => i == 5) "[1 2 {:a \"x\"} #{1 2 3}]".toUTF8.toList).out
    = some 4 := by decide +kernel
-- … and with request 5 and every later one failing
example : Outcome.errCode (readA Cfg.core {} (fun i => decide (5 ≤ i)) "[1 2 {:a \"x\"} #{1 2 3}]".toUTF8.toList).out
    = some 4 := by decide +kernel

end Edn.Properties.C16
