/-
  Edn.Spec.TextBlock — the documented text-block algorithm of property C20, stated on the
  *source lines* of a block (declarative side), independent of the scanner:

    """⏎
    <indent><body>⏎          one per line; a blank line has an empty body
    ...
    <indent>"""              closing delimiter on its own line   (or directly after the last body)

  result = every line with the common indentation removed (common = the smallest indentation
  among the lines that have a body and the closing-delimiter line), trailing blanks stripped,
  `\"""` turned into `"""`, lines joined by line feeds, and a final line feed exactly when
  the closing delimiter stands on its own line.
-/
import Edn.Model.Str

namespace Edn.Spec
open Edn.Model

structure SrcLine where
  /-- leading spaces and tabs -/
  indent : Bytes
  /-- the rest of the line as written (without the line feed); empty for a blank line -/
  body : Bytes
deriving Repr, DecidableEq

/-- what may be written as the body of a line: no line feed, and a triple quote only in its
    escaped form `\"""` -/
inductive TbBody : Bytes → Prop
  | nil : TbBody []
  | esc (r : Bytes) : TbBody r → TbBody (0x5C :: 0x22 :: 0x22 :: 0x22 :: r)
  | plain (c : UInt8) (r : Bytes) (hlf : c ≠ 0x0A) (hq : ¬ [0x22, 0x22, 0x22] <+: c :: r)
      (he : ¬ [0x5C, 0x22, 0x22, 0x22] <+: c :: r) : TbBody r → TbBody (c :: r)

def SrcLine.WF (l : SrcLine) : Prop :=
  (∀ c ∈ l.indent, isBlank c = true) ∧ (∀ c, l.body.head? = some c → isBlank c = false) ∧ TbBody l.body

/-- where the closing `"""` stands -/
inductive Closer
  /-- directly after the body of the last line (which must have a body not ending in a
      backslash or a quote, else the delimiter would be read differently) -/
  | inline
  /-- on a line of its own, after this indentation -/
  | ownLine (indent : Bytes)
deriving Repr, DecidableEq

def Closer.WF (lines : List SrcLine) : Closer → Prop
  | .inline => ∃ l, lines.getLast? = some l ∧ l.body ≠ [] ∧
      l.body.getLast? ≠ some 0x5C ∧ l.body.getLast? ≠ some 0x22
  | .ownLine ind => ∀ c ∈ ind, isBlank c = true

/-- the bytes of the block after the opening `"""⏎` -/
def encodeBlock (lines : List SrcLine) : Closer → Bytes
  | .ownLine ind => (lines.map fun l => l.indent ++ l.body ++ [0x0A]).flatten ++ ind ++ [0x22, 0x22, 0x22]
  | .inline =>
    (lines.dropLast.map fun l => l.indent ++ l.body ++ [0x0A]).flatten ++
      (match lines.getLast? with | some l => l.indent ++ l.body | none => []) ++ [0x22, 0x22, 0x22]

/-- smallest indentation among the lines with a body and the closing-delimiter line -/
def commonIndent (lines : List SrcLine) (c : Closer) : Nat :=
  let ws := ((lines.filter fun l => !l.body.isEmpty).map (·.indent.length)) ++
    (match c with | .ownLine ind => [ind.length] | .inline => [])
  match ws with
  | [] => 0
  | w :: r => r.foldl min w

def lineText (common : Nat) (l : SrcLine) : Bytes :=
  if l.body.isEmpty then [] else l.indent.drop common ++ tbUnescape (trimRight l.body)

/-- the string a block denotes -/
def blockText (lines : List SrcLine) (c : Closer) : Bytes :=
  let common := commonIndent lines c
  match c with
  | .ownLine _ => (lines.map fun l => lineText common l ++ [0x0A]).flatten
  | .inline =>
    (lines.dropLast.map fun l => lineText common l ++ [0x0A]).flatten ++
      (match lines.getLast? with | some l => lineText common l | none => [])

end Edn.Spec
