/-
  Edn.Spec.Dispatch — the declarative side of property C14 at whole-document level: what a
  read with a handler registry returns, as a function of the tree the *same input* reads to
  without any registry (the "passthrough tree", in which every tagged element is a generic
  tagged value).  Handlers are applied bottom-up, in source order; every call is logged with
  the range of the operand it received; a handler that fails, an unknown tag in error mode, or
  handler results that collide inside a set or as map keys end the read with an error.
  (Configurations without the Clojure flag: metadata merges compare annotation keys during
  the read, which cannot be replayed on the finished tree.)
-/
import Edn.Model.Reader

namespace Edn.Spec
open Edn.Model

/-- error outcome: code and range (remaining-length coordinates, like headers) -/
abbrev DErr := Err × Nat × Nat

/-- the outcome of one element: the calls it made and its value or error -/
abbrev DOne := List Call × Except DErr Val

/-- elements in source order: calls accumulate, the first error ends the sequence (later
    elements are not looked at) -/
def seqR : List DOne → List Call × Except DErr (List Val)
  | [] => ([], .ok [])
  | (c, .error e) :: _ => (c, .error e)
  | (c, .ok x) :: rest =>
    match seqR rest with
    | (c2, .error e) => (c ++ c2, .error e)
    | (c2, .ok xs) => (c ++ c2, .ok (x :: xs))

def interleave2 {α : Type} : List α → List α → List α
  | k :: ks, v :: vs => k :: v :: interleave2 ks vs
  | _, _ => []

def uninterleave {α : Type} : List α → List α × List α
  | k :: v :: rest => let (ks, vs) := uninterleave rest; (k :: ks, v :: vs)
  | _ => ([], [])

mutual
/-- `(calls, result)`: the calls made (also those made before an error) and the value or error -/
def dispatchV (cfg : Cfg) (reg : Bytes → Option Handler) (mode : Nat) : Val → DOne
  | .tagged h _ tag v =>
    match dispatchV cfg reg mode v with
    | (c1, .error e) => (c1, .error e)
    | (c1, .ok v') =>
      match reg tag with
      | some hd =>
        let c := c1 ++ [⟨hd.name, v'.hdr.s, v'.hdr.e⟩]
        match hd.run v' with
        | none => (c, .error (.invalidSyntax, h.s, h.e))
        | some r => (c, .ok (r.setHdr { r.hdr with s := h.s, e := h.e }))
      | none =>
        if mode == 1 then (c1, .ok v')
        else if mode == 2 then (c1, .error (.unknownTag, h.s, h.e))
        else (c1, .ok (.tagged h none tag v'))
  | .list h md xs =>
    match seqR (dispatchEach cfg reg mode xs) with
    | (c, .error e) => (c, .error e)
    | (c, .ok xs') => (c, .ok (.list h md xs'))
  | .vec h md xs =>
    match seqR (dispatchEach cfg reg mode xs) with
    | (c, .error e) => (c, .error e)
    | (c, .ok xs') => (c, .ok (.vec h md xs'))
  | .set h md xs =>
    match seqR (dispatchEach cfg reg mode xs) with
    | (c, .error e) => (c, .error e)
    | (c, .ok xs') =>
      let r := hasDuplicates cfg xs'
      if r.1 then (c, .error (.duplicateElement, h.s, h.e)) else (c, .ok (.set h md r.2))
  | .map h md ks vs =>
    -- keys and values in source order: k1 v1 k2 v2 …
    match seqR (interleave2 (dispatchEach cfg reg mode ks) (dispatchEach cfg reg mode vs)) with
    | (c, .error e) => (c, .error e)
    | (c, .ok zs) =>
      let kv := uninterleave zs
      let r := hasDuplicates cfg kv.1
      if r.1 then (c, .error (.duplicateKey, h.s, h.e)) else (c, .ok (.map h md r.2 kv.2))
  | v => ([], .ok v)
/-- every element on its own (no short-circuit here: `seqR` decides what counts) -/
def dispatchEach (cfg : Cfg) (reg : Bytes → Option Handler) (mode : Nat) : List Val → List DOne
  | [] => []
  | x :: xs => dispatchV cfg reg mode x :: dispatchEach cfg reg mode xs
end

end Edn.Spec
