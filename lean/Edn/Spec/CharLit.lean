/-
  Edn.Spec.CharLit — the complete grammar of character literals: what may stand between the
  backslash and the terminator, and the code point it denotes, in every configuration
  (src/character.c, `edn_read_character`).

  * the four names `newline`, `return`, `space`, `tab`; with the Clojure flag also
    `formfeed` and `backspace`;
  * with the Clojure flag `oN`, `oNN`, `oNNN`: one to three octal digits, value ≤ 255
    (`\o400` is an error, unlike `"\400"` in a string — no back-off here);
  * `uXXXX`, four hex digits; with the experimental flag one or two more.  Every value up
    to 0x10FFFF is accepted — the surrogates D800..DFFF included (the string decoder
    rejects `"\ud800"`, the character reader accepts `\ud800` as code point 55296);
  * any single byte the build's table `isValidSingleChar` allows: every byte except tab,
    line feed, carriage return and space — and, with the Clojure flag, except backspace
    (0x08) and form feed (0x0C) (`validSingleChar_iff` in Edn.Proofs.CharSound).  This
    includes the bytes ≥ 0x80 on their own, but a multi-byte UTF-8 character such as `\é`
    is rejected because its second byte is not a delimiter.

  The literal must be followed by the end of the input or by a delimiter byte of the
  identifier table (`isDelim`); that is part of the theorems, not of this relation.
-/
import Edn.Model.Reader
import Edn.Spec.StringFull
import Edn.Spec.Renders

namespace Edn.Spec
open Edn.Model

/-- value of a run of hex digits, most significant first -/
def hexValue (ds : Bytes) : Nat := ds.foldl (fun a c => a * 16 + (hexDigit? c).getD 0) 0

/-- `CharTokX cfg body cp`: `\` followed by `body` spells the character `cp` -/
inductive CharTokX (cfg : Cfg) : Bytes → Nat → Prop
  | newline : CharTokX cfg "newline".toUTF8.toList 0x0A
  | ret : CharTokX cfg "return".toUTF8.toList 0x0D
  | space : CharTokX cfg "space".toUTF8.toList 0x20
  | tab : CharTokX cfg "tab".toUTF8.toList 0x09
  | formfeed (h : cfg.clj = true) : CharTokX cfg "formfeed".toUTF8.toList 0x0C
  | backspace (h : cfg.clj = true) : CharTokX cfg "backspace".toUTF8.toList 0x08
  /-- `\oN`, `\oNN`, `\oNNN` -/
  | octal (h : cfg.clj = true) (ds : Bytes) (ho : OctDigits ds) : CharTokX cfg (0x6F :: ds) (octValue ds)
  /-- `\uXXXX`; with the experimental flag also `\uXXXXX` and `\uXXXXXX` -/
  | unicode (ds : Bytes) (hd : ∀ d ∈ ds, (hexDigit? d).isSome = true)
      (hl : ds.length = 4 ∨ (cfg.exp = true ∧ (ds.length = 5 ∨ ds.length = 6))) :
      CharTokX cfg (0x75 :: ds) (hexValue ds)
  /-- a single byte of the build's table -/
  | single (c : UInt8) (h : isValidSingleChar cfg c = true) : CharTokX cfg [c] c.toNat


end Edn.Spec
