/-
  Edn.Spec.NumberLit — the spellings of numbers (declarative side of C04 / C05 at reader
  level): which byte strings are float, big-decimal, hexadecimal, octal, radix and ratio
  literals.  Decimal integers are in Edn.Spec.Renders (`DecDigits`, `SignTok`).
-/
import Edn.Spec.Renders

namespace Edn.Spec
open Edn.Model

/-- hexadecimal digits -/
def AllHex (hs : Bytes) : Prop := ∀ c ∈ hs, (digitValue c 16).isSome = true

/-- digits valid in the given radix -/
def AllRadix (radix : Nat) (ds : Bytes) : Prop := ∀ c ∈ ds, (digitValue c radix).isSome = true

/-- value of a ratio literal with numerator digits `nd` and denominator digits `dd`: lowest
    terms; an integer when the denominator divides the numerator; big forms only when an
    operand does not fit 64 bits -/
def ratioValue (cfg : Cfg) (neg : Bool) (nd dd : Bytes) : NumVal :=
  match parseInt64 cfg nd 10 neg, parseInt64 cfg dd 10 false with
  | some n, some d =>
    let g := Nat.gcd n.natAbs d.natAbs
    let n' := n / (g : Int)
    let d' := d / (g : Int)
    if n' == 0 then .int 0 else if d' == 1 then .int n' else .ratio n' d'
  | none, some d => if d == 1 then .bigint neg 10 nd else .bigratio neg nd dd
  | _, none => .bigratio neg nd dd

end Edn.Spec

namespace Edn.Spec
open Edn.Model

/-- the number tokens of core EDN and the payload each denotes -/
inductive CoreNum (cfg : Cfg) : Bytes → NumVal → Prop
  /-- decimal integer in the signed 64-bit range -/
  | int (sg ds : Bytes) (neg : Bool) (hs : SignTok sg neg) (hd : DecDigits ds)
      (hr : if neg then natOfDigits ds ≤ 9223372036854775808 else natOfDigits ds ≤ 9223372036854775807) :
      CoreNum cfg (sg ++ ds) (.int (if neg then -(natOfDigits ds : Int) else (natOfDigits ds : Int)))
  /-- decimal integer beyond it -/
  | big (sg ds : Bytes) (neg : Bool) (hs : SignTok sg neg) (hd : DecDigits ds)
      (hr : ¬ (if neg then natOfDigits ds ≤ 9223372036854775808 else natOfDigits ds ≤ 9223372036854775807)) :
      CoreNum cfg (sg ++ ds) (.bigint neg 10 ds)
  /-- `N` suffix -/
  | bigN (sg ds : Bytes) (neg : Bool) (hs : SignTok sg neg) (hd : DecDigits ds) :
      CoreNum cfg (sg ++ ds ++ [0x4E]) (.bigint neg 10 ds)
  /-- fraction and/or exponent -/
  | float (tok : Bytes) (h : FloatTok tok) : CoreNum cfg tok (.float (parseDouble cfg tok))
  /-- `M` suffix -/
  | bigdec (sg body : Bytes) (neg : Bool) (hs : SignTok sg neg) (hb : DecDigits body ∨ FloatTok body)
      (hnosign : ∀ c, body.head? = some c → c ≠ 0x2B ∧ c ≠ 0x2D) :
      CoreNum cfg (sg ++ body ++ [0x4D]) (.bigdec neg body)

end Edn.Spec
