/-
  Edn.Spec.NumberLit — the spellings of numbers (declarative side of C04 / C05 at reader
  level): which byte strings are float, big-decimal, hexadecimal, octal, radix and ratio
  literals.  Decimal integers are in Edn.Spec.Renders (`DecDigits`, `SignTok`).
-/
import Edn.Spec.Renders

namespace Edn.Spec
open Edn.Model

/-- hexadecimal digits -/
def AllHex (hs : Bytes) : Prop := ∀ c ∈ hs, (digitValue c 16).isSome = true

/-- digits valid in the given radix -/
def AllRadix (radix : Nat) (ds : Bytes) : Prop := ∀ c ∈ ds, (digitValue c radix).isSome = true

/-- value of a ratio literal with numerator digits `nd` and denominator digits `dd`: lowest
    terms; an integer when the denominator divides the numerator; big forms only when an
    operand does not fit 64 bits -/
def ratioValue (cfg : Cfg) (neg : Bool) (nd dd : Bytes) : NumVal :=
  match parseInt64 cfg nd 10 neg, parseInt64 cfg dd 10 false with
  | some n, some d =>
    let g := Nat.gcd n.natAbs d.natAbs
    let n' := n / (g : Int)
    let d' := d / (g : Int)
    if n' == 0 then .int 0 else if d' == 1 then .int n' else .ratio n' d'
  | none, some d => if d == 1 then .bigint neg 10 nd else .bigratio neg nd dd
  | _, none => .bigratio neg nd dd

end Edn.Spec
