/-
  Edn.Spec.StringFull — the complete content relation of string literals: the units of
  `Edn.Spec.StringLit` plus the octal escapes `\N`, `\NN`, `\NNN` which the decoder accepts
  when the Clojure flag is on (src/string.c, `decode_escape_sequence`).

  Two facts about the octal escape, both found by evaluation of the model and visible in
  the C source:

  * it denotes ONE byte whose value is the octal number, also for 128..255 (`\200` is the
    single byte 0x80 — not the UTF-8 encoding of U+0080, unlike `\u0080`);
  * the decoder takes digits greedily: up to three, as long as the value stays ≤ 255.
    So `\400` is the unit `\40` (0x20) followed by the plain byte `0`, `\18` is `\1`
    followed by `8`, `\08` is `\0` followed by `8`, `\377x` is 0xFF followed by `x`.
    A sequence of units is therefore the decoder's reading only when no unit could have
    been extended by the byte that follows it (`Maximal`).
-/
import Edn.Spec.StringLit

namespace Edn.Spec
open Edn.Model

/-- value of a run of octal digits, most significant first -/
def octValue (ds : Bytes) : Nat := ds.foldl (fun a c => a * 8 + (c.toNat - 0x30)) 0

/-- one to three octal digits whose value fits a byte (`0` .. `377`) -/
structure OctDigits (ds : Bytes) : Prop where
  nonempty : 1 ≤ ds.length
  atMost3 : ds.length ≤ 3
  octal : ∀ d ∈ ds, isOct d = true
  byte : octValue ds ≤ 255

/-- one unit of literal content, octal escapes included: its spelling and the bytes it denotes -/
inductive StrUnitX (cfg : Cfg) : Bytes → Bytes → Prop
  | base {sp dn : Bytes} (h : StrUnit cfg sp dn) : StrUnitX cfg sp dn
  /-- `\N`, `\NN`, `\NNN` (Clojure flag): one byte, the value of the digits -/
  | octal (h : cfg.clj = true) (ds : Bytes) (ho : OctDigits ds) :
      StrUnitX cfg (0x5C :: ds) [UInt8.ofNat (octValue ds)]

/-- `s` spells an octal escape -/
def IsOctEscape (s : Bytes) : Prop := ∃ ds, s = 0x5C :: ds ∧ OctDigits ds

/-- maximal munch: the unit spelled `sp` is not extended by the content `next` that follows
    it, i.e. `sp` with the next byte appended is not an octal escape.  (Only octal units can
    violate this: `\1` before `2`, `\12` before `3`, but not `\40` before `0`, nor `\123`
    before `4`.) -/
def Maximal (sp next : Bytes) : Prop := ∀ d t, next = d :: t → ¬ IsOctEscape (sp ++ [d])

/-- content spelled by a sequence of maximal units, and the bytes it denotes -/
inductive StrContentX (cfg : Cfg) : Bytes → Bytes → Prop
  | nil : StrContentX cfg [] []
  | cons {sp dn sps dns : Bytes} : StrUnitX cfg sp dn → Maximal sp sps → StrContentX cfg sps dns →
      StrContentX cfg (sp ++ sps) (dn ++ dns)

end Edn.Spec
