/-
  Edn.Spec.StringLit — what a string literal denotes (property C06): a literal's content
  is a sequence of units, each either a plain byte (anything but `"` and `\`) or an escape
  sequence of the build's escape set, denoting one or more bytes.
-/
import Edn.Model.Str

namespace Edn.Spec
open Edn.Model

/-- one unit of literal content: its spelling and the bytes it denotes -/
inductive StrUnit (cfg : Cfg) : Bytes → Bytes → Prop
  | plain (b : UInt8) (h1 : b ≠ 0x22) (h2 : b ≠ 0x5C) : StrUnit cfg [b] [b]
  | quote : StrUnit cfg [0x5C, 0x22] [0x22]
  | backslash : StrUnit cfg [0x5C, 0x5C] [0x5C]
  | newline : StrUnit cfg [0x5C, 0x6E] [0x0A]
  | tab : StrUnit cfg [0x5C, 0x74] [0x09]
  | ret : StrUnit cfg [0x5C, 0x72] [0x0D]
  | formfeed (h : cfg.clj = true) : StrUnit cfg [0x5C, 0x66] [0x0C]
  | backspace (h : cfg.clj = true) : StrUnit cfg [0x5C, 0x62] [0x08]
  /-- `\uXXXX`, BMP code point outside the surrogate range, UTF-8 encoded -/
  | unicode (h : cfg.clj = true) (a b c d : UInt8) (cp : Nat) (out : Bytes)
      (hx : hex4? [a, b, c, d] = some (cp, [])) (hu : utf8Bmp cp = some out) :
      StrUnit cfg [0x5C, 0x75, a, b, c, d] out

/-- content spelled by a sequence of units, and the bytes it denotes -/
inductive StrContent (cfg : Cfg) : Bytes → Bytes → Prop
  | nil : StrContent cfg [] []
  | cons {sp dn sps dns : Bytes} : StrUnit cfg sp dn → StrContent cfg sps dns → StrContent cfg (sp ++ sps) (dn ++ dns)

end Edn.Spec
