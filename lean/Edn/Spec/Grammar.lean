/-
  Edn.Spec.Grammar — the language the reader of the core configuration accepts, stated
  declaratively (no cursor, no fuel, no dispatch table): `Form k a tok rest` says that `tok`,
  when followed by `rest`, is one complete form with content `a`.  Unlike `Edn.Spec.Renders`
  (which describes well-separated renderings and is the subject of the completeness theorem of
  C03) this grammar is *liberal*: it also contains what the implementation accepts beyond the
  published grammar (forms that touch without a separator where a delimiter byte ends the token,
  string literals whose escapes are only checked when the string is decoded, `##Inf` followed by
  anything, tags spelled with any identifier token).  `Edn.Proofs.Sound` proves that the reader
  accepts *only* this language and returns the content the derivation names; together with the
  completeness direction this pins the accepted language down exactly.

  Core configuration (`Cfg.core`: no Clojure extension, no experimental extension), no reader
  registry.  The follower `rest` is part of the judgement because a token's end depends on what
  follows it (a number must be followed by a terminator, an identifier by a delimiter).
-/
import Edn.Spec.Renders
import Edn.Spec.NumberLit
import Edn.Spec.IdentLit
import Edn.Spec.CharLit

namespace Edn.Spec
open Edn.Model

/-- the bytes between the quotes of a string literal as the *reader* sees them: the literal ends
    at the first quote not preceded by a backslash unit; which escapes are defined is checked
    only when the string is decoded (`StrContent`, property C06) -/
inductive RawStr : Bytes → Prop
  | nil : RawStr []
  | plain (b : UInt8) (t : Bytes) (h1 : b ≠ 0x22) (h2 : b ≠ 0x5C) : RawStr t → RawStr (b :: t)
  | esc (b : UInt8) (t : Bytes) : RawStr t → RawStr (0x5C :: b :: t)

/-- character literal bodies of the core configuration: the four names, `uXXXX`, or one byte of
    the table of valid single characters -/
inductive CharTok : Bytes → Nat → Prop
  | newline : CharTok "newline".toUTF8.toList 0x0A
  | ret : CharTok "return".toUTF8.toList 0x0D
  | space : CharTok "space".toUTF8.toList 0x20
  | tab : CharTok "tab".toUTF8.toList 0x09
  | unicode (a b c d : UInt8) (cp : Nat) (h : hex4? [a, b, c, d] = some (cp, [])) : CharTok [0x75, a, b, c, d] cp
  | single (c : UInt8) (h : isValidSingleChar Cfg.core c = true) : CharTok [c] c.toNat

/-- `##Inf`, `##-Inf`, `##NaN` -/
inductive SymbolicTok : Bytes → UInt64 → Prop
  | inf : SymbolicTok "##Inf".toUTF8.toList infBits
  | negInf : SymbolicTok "##-Inf".toUTF8.toList negInfBits
  | nan : SymbolicTok "##NaN".toUTF8.toList nanBits

/-- the first byte (and, for a sign, the second) sends the dispatcher to the identifier reader -/
def IdentStart (tok : Bytes) : Prop :=
  ∀ c t, tok = c :: t → ¬ (0x30 ≤ c ∧ c ≤ 0x39) ∧
    ((c = 0x2B ∨ c = 0x2D) → ∀ d t', t = d :: t' → ¬ (0x30 ≤ d ∧ d ≤ 0x39))

mutual
/-- `Form k a tok rest`: `tok` followed by `rest` is one form with content `a`; `k` bounds the
    nesting (collections, tags and discards count one level each, as in `Renders`) -/
inductive Form : Nat → Val → Bytes → Bytes → Prop
  /-- whitespace, commas and closed line comments in front of a form -/
  | blank (k : Nat) (a : Val) (tr tok rest : Bytes) (ht : Blank tr) (h : Form k a tok rest) : Form k a (tr ++ tok) rest
  /-- a discarded form in front of a form -/
  | discard (k : Nat) (a b : Val) (tok1 tok2 rest : Bytes) (hd : Form k b tok1 (tok2 ++ rest)) (h : Form (k + 1) a tok2 rest) :
      Form (k + 1) a (0x23 :: 0x5F :: (tok1 ++ tok2)) rest
  | number (k : Nat) (tok rest : Bytes) (v : NumVal) (hn : CoreNum Cfg.core tok v) (ht : TermStart rest) :
      Form k (numToVal hdr0 v) tok rest
  /-- `nil`, `true`, `false`, keywords and symbols -/
  | ident (k : Nat) (tok rest : Bytes) (a : Val) (hl : IdentLex tok) (hs : IdentStart tok) (hd : IdentDenotes tok a)
      (ht : DelimStart rest) : Form k a tok rest
  | str (k : Nat) (sp rest : Bytes) (h : RawStr sp) :
      Form k (.str hdr0 sp (sp.contains 0x5C)) (0x22 :: (sp ++ [0x22])) rest
  | char (k : Nat) (body rest : Bytes) (cp : Nat) (h : CharTok body cp) (hcp : cp ≤ 0x10FFFF) (ht : DelimStart rest) :
      Form k (.char hdr0 cp) (0x5C :: body) rest
  | symbolic (k : Nat) (tok rest : Bytes) (bits : UInt64) (h : SymbolicTok tok bits) : Form k (.float hdr0 bits) tok rest
  | list (k : Nat) (xs : List Val) (body rest : Bytes) (h : FormSeq k xs body (0x29 :: rest)) :
      Form (k + 1) (.list hdr0 none xs) (0x28 :: (body ++ [0x29])) rest
  | vec (k : Nat) (xs : List Val) (body rest : Bytes) (h : FormSeq k xs body (0x5D :: rest)) :
      Form (k + 1) (.vec hdr0 none xs) (0x5B :: (body ++ [0x5D])) rest
  | set (k : Nat) (xs : List Val) (body rest : Bytes) (h : FormSeq k xs body (0x7D :: rest))
      (hd : pairwiseDistinct Cfg.core xs) :
      Form (k + 1) (.set hdr0 none xs) (0x23 :: 0x7B :: (body ++ [0x7D])) rest
  | map (k : Nat) (ks vs : List Val) (body rest : Bytes) (h : FormSeq k (interleaveKV ks vs) body (0x7D :: rest))
      (hl : ks.length = vs.length) (hd : pairwiseDistinct Cfg.core ks) :
      Form (k + 1) (.map hdr0 none ks vs) (0x7B :: (body ++ [0x7D])) rest
  /-- `#tag form`: the tag is any identifier token that denotes a symbol and does not start with
      `_`, `{` or `#`; the form follows directly when it starts with a delimiter byte -/
  | tagged (k : Nat) (tag : Bytes) (ns : Option Bytes) (nm : Bytes) (a : Val) (tok rest : Bytes)
      (hl : IdentLex tag) (hd : IdentDenotes tag (.sym hdr0 none ns nm)) (hu : tag.head? ≠ some 0x5F)
      (hsep : ∃ c t, tok = c :: t ∧ isDelim c = true) (h : Form k a tok rest) :
      Form (k + 1) (.tagged hdr0 none tag a) (0x23 :: (tag ++ tok)) rest

/-- the forms of a collection body; `after` (the closing delimiter and what follows it) is what
    the last token is delimited by -/
inductive FormSeq : Nat → List Val → Bytes → Bytes → Prop
  | nil (k : Nat) (tr after : Bytes) (ht : Trail k tr after) : FormSeq k [] tr after
  | cons (k : Nat) (a : Val) (xs : List Val) (tok body after : Bytes) (h : Form k a tok (body ++ after))
      (hr : FormSeq k xs body after) : FormSeq k (a :: xs) (tok ++ body) after

/-- what may stand between the last form and the closing delimiter: blanks and discarded forms -/
inductive Trail : Nat → Bytes → Bytes → Prop
  | blank (k : Nat) (tr after : Bytes) (ht : Blank tr) : Trail k tr after
  | discard (k : Nat) (b : Val) (tr tok tr' after : Bytes) (ht : Blank tr) (hd : Form k b tok (tr' ++ after))
      (hr : Trail (k + 1) tr' after) : Trail (k + 1) (tr ++ 0x23 :: 0x5F :: (tok ++ tr')) after
end

end Edn.Spec
