/-
  Edn.Spec.Renders — the declarative side of property C03: which byte strings render which
  values of the EDN data model, with arbitrary trivia (all whitespace kinds, commas, comments,
  discarded forms) between forms.  `Edn.Proofs.Complete` proves that the reader accepts every
  rendering and returns a tree whose content is exactly the rendered value.

  Values are compared through `strip` (headers, caches and metadata removed), i.e. by what
  the public accessors show: kinds, payloads, element order and count, tag and identifier
  bytes.  Source ranges are the subject of C11 (Edn.Spec.Ranges).
-/
import Edn.Model.Reader
import Edn.Spec.StringLit
import Edn.Spec.Eqv

namespace Edn.Spec
open Edn.Model

def hdr0 : Hdr := { s := 0, e := 0 }

mutual
/-- the content of a tree: every header reset, metadata dropped -/
def strip : Val → Val
  | .nil _ => .nil hdr0
  | .bool _ b => .bool hdr0 b
  | .int _ i => .int hdr0 i
  | .bigint _ n r d => .bigint hdr0 n r d
  | .float _ b => .float hdr0 b
  | .bigdec _ n t => .bigdec hdr0 n t
  | .ratio _ n d => .ratio hdr0 n d
  | .bigratio _ g n d => .bigratio hdr0 g n d
  | .char _ c => .char hdr0 c
  | .str _ d e => .str hdr0 d e
  | .sym _ _ ns nm => .sym hdr0 none ns nm
  | .kw _ ns nm => .kw hdr0 ns nm
  | .list _ _ xs => .list hdr0 none (stripL xs)
  | .vec _ _ xs => .vec hdr0 none (stripL xs)
  | .map _ _ ks vs => .map hdr0 none (stripL ks) (stripL vs)
  | .set _ _ xs => .set hdr0 none (stripL xs)
  | .tagged _ _ t v => .tagged hdr0 none t (strip v)
  | .ext _ t d => .ext hdr0 t d
def stripL : List Val → List Val
  | [] => []
  | x :: xs => strip x :: stripL xs
end

/-- what may follow a form: the end of the input, or a byte that terminates every kind of
    token (the number terminator set: whitespace, comma, `;`, brackets, `"`, `#`) -/
def TermStart (rest : Bytes) : Prop := rest = [] ∨ ∃ c t, rest = c :: t ∧ isNumTerm c = true

/-- end of the input or a delimiter byte: what must follow an identifier or character token -/
def DelimStart (rest : Bytes) : Prop := rest = [] ∨ ∃ c t, rest = c :: t ∧ isDelim c = true

/-- whitespace bytes, commas and closed line comments -/
inductive Blank : Bytes → Prop
  | nil : Blank []
  | ws (c : UInt8) (t : Bytes) (hw : isWs c = true) : Blank t → Blank (c :: t)
  | comment (body t : Bytes) (hb : ∀ b ∈ body, b ≠ 0x0A) : Blank t → Blank (0x3B :: (body ++ 0x0A :: t))

/-- "the reader reads `s` as a value with content `a`": in every context - any nesting depth
    `d` within the limit budget stated separately, either discard mode, any call log, any
    continuation `rest` that starts with a terminator, and any sufficient fuel - exactly the
    bytes `s` are consumed and the value returned has content `a`.  (No handler registry:
    handlers replace values.) -/
def Reads (cfg : Cfg) (opts : Opts) (d : Nat) (a : Val) (s : Bytes) : Prop :=
  ∀ (dm : Bool) (rest : Bytes) (cl : List Call) (f : Nat),
    TermStart rest → 2 * (s.length + rest.length) + 2 ≤ f →
    ∃ v, readValue { cfg := cfg, opts := opts } f d dm { rest := s ++ rest, calls := cl }
          = .ok v { rest := rest, calls := cl } ∧ strip v = a

/-! ### tokens -/

/-- identifier tokens: non-empty, no delimiter byte, no `::`, not starting with a digit or
    with a sign followed by a digit; a `/` splits namespace and name (both non-empty) unless
    the token is the single byte `/` -/
structure IdentTok (tok : Bytes) : Prop where
  nonempty : tok ≠ []
  nodelim : ∀ c ∈ tok, isDelim c = false
  nocolons : ¬ [0x3A, 0x3A] <:+: tok
  /-- the dispatcher must route the token to the identifier reader -/
  first : ∀ c t, tok = c :: t → (c ≠ 0x5E) ∧ ¬ (0x30 ≤ c ∧ c ≤ 0x39) ∧
    ((c = 0x2B ∨ c = 0x2D) → ∀ d t', t = d :: t' → ¬ (0x30 ≤ d ∧ d ≤ 0x39))

/-- namespace/name split of an identifier token (without a leading `:`) -/
def splitIdent (tok : Bytes) : Option (Option Bytes × Bytes) :=
  if tok == [0x2F] then some (none, tok)
  else match tok.idxOf? 0x2F with
    | none => some (none, tok)
    | some k =>
      if k == 0 || k == tok.length - 1 then none
      else some (some (tok.take k), tok.drop (k + 1))

/-- decimal integer tokens of core EDN: `0` or a non-zero digit followed by digits -/
def DecDigits (ds : Bytes) : Prop :=
  ds ≠ [] ∧ (∀ c ∈ ds, 0x30 ≤ c ∧ c ≤ 0x39) ∧ (ds.length > 1 → ds.head? ≠ some 0x30)

def natOfDigits (ds : Bytes) : Nat := ds.foldl (fun a c => a * 10 + (c.toNat - 48)) 0

/-- sign spelling: empty, `+` or `-` -/
def SignTok (sg : Bytes) (neg : Bool) : Prop :=
  (sg = [] ∧ neg = false) ∨ (sg = [0x2B] ∧ neg = false) ∨ (sg = [0x2D] ∧ neg = true)

def AllDigits (ds : Bytes) : Prop := ∀ c ∈ ds, is09 c = true

/-- optional fraction: nothing, or a point followed by any number of digits -/
def FracPart (fr : Bytes) : Prop := fr = [] ∨ ∃ fd, fr = 0x2E :: fd ∧ AllDigits fd

/-- optional exponent: nothing, or `e`/`E`, an optional sign and at least one digit -/
def ExpPart (ex : Bytes) : Prop :=
  ex = [] ∨ ∃ e es ed, ex = e :: (es ++ ed) ∧ (e = 0x65 ∨ e = 0x45) ∧ (es = [] ∨ es = [0x2B] ∨ es = [0x2D]) ∧
    ed ≠ [] ∧ AllDigits ed

/-- core EDN floating-point token: sign, decimal integer part, fraction and/or exponent -/
def FloatTok (tok : Bytes) : Prop :=
  ∃ sg ip fr ex neg, tok = sg ++ ip ++ fr ++ ex ∧ SignTok sg neg ∧ DecDigits ip ∧ FracPart fr ∧ ExpPart ex ∧
    (fr ≠ [] ∨ ex ≠ [])

/-- code point named by a character literal body (after the backslash) -/
inductive CharBody : Bytes → Nat → Prop
  | newline : CharBody "newline".toUTF8.toList 0x0A
  | ret : CharBody "return".toUTF8.toList 0x0D
  | space : CharBody "space".toUTF8.toList 0x20
  | tab : CharBody "tab".toUTF8.toList 0x09
  /-- `\uXXXX` -/
  | unicode (a b c d : UInt8) (cp : Nat) (h : hex4? [a, b, c, d] = some (cp, [])) : CharBody [0x75, a, b, c, d] cp
  /-- a single printable ASCII byte -/
  | single (c : UInt8) (h : 0x21 ≤ c ∧ c ≤ 0x7E) : CharBody [c] c.toNat

/-- keys and values of a map literal in source order -/
def interleaveKV : List Val → List Val → List Val
  | k :: ks, v :: vs => k :: v :: interleaveKV ks vs
  | _, _ => []

/-! ### the rendering relation -/

mutual
/-- `Renders cfg k a s`: `s` renders the content `a`; `k` bounds the nesting of the rendering
    (collections, tags and discards each count one level), so that it can be related to the
    reader's nesting limit -/
inductive Renders (cfg : Cfg) : Nat → Val → Bytes → Prop
  | nil (k : Nat) : Renders cfg k (.nil hdr0) "nil".toUTF8.toList
  | true_ (k : Nat) : Renders cfg k (.bool hdr0 true) "true".toUTF8.toList
  | false_ (k : Nat) : Renders cfg k (.bool hdr0 false) "false".toUTF8.toList
  /-- integers in the signed 64-bit range read as `int` … -/
  | int (k : Nat) (sg ds : Bytes) (neg : Bool) (hs : SignTok sg neg) (hd : DecDigits ds)
      (hr : if neg then natOfDigits ds ≤ 9223372036854775808 else natOfDigits ds ≤ 9223372036854775807) :
      Renders cfg k (.int hdr0 (if neg then -(natOfDigits ds : Int) else (natOfDigits ds : Int))) (sg ++ ds)
  /-- … larger ones as big integers keeping sign and digits … -/
  | bigOverflow (k : Nat) (sg ds : Bytes) (neg : Bool) (hs : SignTok sg neg) (hd : DecDigits ds)
      (hr : ¬ (if neg then natOfDigits ds ≤ 9223372036854775808 else natOfDigits ds ≤ 9223372036854775807)) :
      Renders cfg k (.bigint hdr0 neg 10 ds) (sg ++ ds)
  /-- … and the `N` suffix forces a big integer -/
  | bigN (k : Nat) (sg ds : Bytes) (neg : Bool) (hs : SignTok sg neg) (hd : DecDigits ds) :
      Renders cfg k (.bigint hdr0 neg 10 ds) (sg ++ ds ++ [0x4E])
  /-- floating-point numbers read as the double nearest to the token's exact decimal value
      (`decimalParts`: sign, all digits as one integer, net power of ten) -/
  | float (k : Nat) (tok : Bytes) (h : FloatTok tok) :
      Renders cfg k (.float hdr0 (let p := decimalParts tok; withSign p.1 (ofDec p.2.1 p.2.2))) tok
  /-- an integer or float token followed by `M` is a big decimal keeping its text -/
  | bigdec (k : Nat) (sg body : Bytes) (neg : Bool) (hs : SignTok sg neg) (hb : DecDigits body ∨ FloatTok body)
      (hnosign : ∀ c, body.head? = some c → c ≠ 0x2B ∧ c ≠ 0x2D) :
      Renders cfg k (.bigdec hdr0 neg body) (sg ++ body ++ [0x4D])
  /-- strings (with the experimental flag the empty literal is left out: `""` directly
      followed by `"` and a line feed would spell a text-block opener) -/
  | str (k : Nat) (sp dn : Bytes) (h : StrContent cfg sp dn) (hne : cfg.exp = true → sp ≠ []) :
      Renders cfg k (.str hdr0 sp (sp.contains 0x5C)) (0x22 :: (sp ++ [0x22]))
  | char (k : Nat) (body : Bytes) (cp : Nat) (h : CharBody body cp) (hcp : cp ≤ 0x10FFFF) :
      Renders cfg k (.char hdr0 cp) (0x5C :: body)
  /-- keywords: `:` followed by an identifier token not starting with `:` -/
  | kw (k : Nat) (tok : Bytes) (ns : Option Bytes) (nm : Bytes) (h : IdentTok (0x3A :: tok))
      (hc : tok.head? ≠ some 0x3A) (hsp : splitIdent tok = some (ns, nm)) (hne : tok ≠ []) (hsl : tok ≠ [0x2F]) :
      Renders cfg k (.kw hdr0 ns nm) (0x3A :: tok)
  /-- symbols: identifier tokens other than `nil`, `true`, `false`, not starting with `:` -/
  | sym (k : Nat) (tok : Bytes) (ns : Option Bytes) (nm : Bytes) (h : IdentTok tok)
      (hc : tok.head? ≠ some 0x3A) (hsp : splitIdent tok = some (ns, nm))
      (hres : tok ≠ "nil".toUTF8.toList ∧ tok ≠ "true".toUTF8.toList ∧ tok ≠ "false".toUTF8.toList) :
      Renders cfg k (.sym hdr0 none ns nm) tok
  | list (k : Nat) (xs : List Val) (body : Bytes) (h : RendersSeq cfg k xs body) :
      Renders cfg (k + 1) (.list hdr0 none xs) (0x28 :: (body ++ [0x29]))
  | vec (k : Nat) (xs : List Val) (body : Bytes) (h : RendersSeq cfg k xs body) :
      Renders cfg (k + 1) (.vec hdr0 none xs) (0x5B :: (body ++ [0x5D]))
  /-- sets: the elements must be pairwise non-equal -/
  | set (k : Nat) (xs : List Val) (body : Bytes) (h : RendersSeq cfg k xs body)
      (hd : pairwiseDistinct cfg xs) :
      Renders cfg (k + 1) (.set hdr0 none xs) (0x23 :: 0x7B :: (body ++ [0x7D]))
  /-- maps: an even number of forms, keys pairwise non-equal -/
  | map (k : Nat) (ks vs : List Val) (body : Bytes) (h : RendersSeq cfg k (interleaveKV ks vs) body)
      (hl : ks.length = vs.length) (hd : pairwiseDistinct cfg ks) :
      Renders cfg (k + 1) (.map hdr0 none ks vs) (0x7B :: (body ++ [0x7D]))
  /-- tagged elements: `#tag`, at least one blank, the value -/
  | tagged (k : Nat) (tag : Bytes) (ns : Option Bytes) (nm : Bytes) (a : Val) (sep s : Bytes)
      (ht : IdentTok tag) (hc : tag.head? ≠ some 0x3A) (hsp : splitIdent tag = some (ns, nm))
      (hres : tag ≠ "nil".toUTF8.toList ∧ tag ≠ "true".toUTF8.toList ∧ tag ≠ "false".toUTF8.toList)
      (hu : tag.head? ≠ some 0x5F ∧ tag.head? ≠ some 0x7B ∧ tag.head? ≠ some 0x23)
      (hsep : Blank sep) (hsne : sep ≠ []) (h : Renders cfg k a s) :
      Renders cfg (k + 1) (.tagged hdr0 none tag a) (0x23 :: (tag ++ sep ++ s))
  /-- trivia in front of a form -/
  | blank (k : Nat) (a : Val) (tr s : Bytes) (ht : Blank tr) (h : Renders cfg k a s) : Renders cfg k a (tr ++ s)
  /-- a discarded form (any rendering, followed by a separator) in front of a form -/
  | discard (k : Nat) (a b : Val) (sd sep s : Bytes) (hdisc : Renders cfg k b sd) (hsep : Blank sep) (hsne : sep ≠ [])
      (h : Renders cfg (k + 1) a s) : Renders cfg (k + 1) a (0x23 :: 0x5F :: (sd ++ sep ++ s))

/-- a sequence of forms inside a collection: forms separated by at least one blank, optional
    blanks before the closing delimiter -/
inductive RendersSeq (cfg : Cfg) : Nat → List Val → Bytes → Prop
  | nil (k : Nat) (tr : Bytes) (ht : Blank tr) : RendersSeq cfg k [] tr
  | last (k : Nat) (a : Val) (s tr : Bytes) (h : Renders cfg k a s) (ht : Blank tr) : RendersSeq cfg k [a] (s ++ tr)
  | cons (k : Nat) (a : Val) (xs : List Val) (s sep body : Bytes) (h : Renders cfg k a s)
      (hsep : Blank sep) (hsne : sep ≠ []) (hx : xs ≠ []) (hr : RendersSeq cfg k xs body) :
      RendersSeq cfg k (a :: xs) (s ++ sep ++ body)
end

end Edn.Spec
