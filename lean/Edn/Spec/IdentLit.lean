/-
  Edn.Spec.IdentLit — what an identifier token denotes: `nil`, `true`, `false`, a keyword or a
  symbol with optional namespace (declarative side of the identifier reader, both directions).
-/
import Edn.Spec.Renders

namespace Edn.Spec
open Edn.Model

/-- `IdentDenotes tok a`: the token `tok` (a maximal run of non-delimiter bytes) is a well-formed
    identifier and denotes the content `a` -/
def IdentDenotes (tok : Bytes) (a : Val) : Prop :=
  (tok = "nil".toUTF8.toList ∧ a = .nil hdr0) ∨
  (tok = "true".toUTF8.toList ∧ a = .bool hdr0 true) ∨
  (tok = "false".toUTF8.toList ∧ a = .bool hdr0 false) ∨
  (∃ body ns nm, tok = 0x3A :: body ∧ body ≠ [] ∧ body.head? ≠ some 0x3A ∧ body ≠ [0x2F] ∧
      splitIdent body = some (ns, nm) ∧ a = .kw hdr0 ns nm) ∨
  (tok.head? ≠ some 0x3A ∧ tok ≠ "nil".toUTF8.toList ∧ tok ≠ "true".toUTF8.toList ∧ tok ≠ "false".toUTF8.toList ∧
      ∃ ns nm, splitIdent tok = some (ns, nm) ∧ a = .sym hdr0 none ns nm)

/-- the lexical side: non-empty, no delimiter byte, no `::` -/
def IdentLex (tok : Bytes) : Prop :=
  tok ≠ [] ∧ (∀ c ∈ tok, isDelim c = false) ∧ ¬ [0x3A, 0x3A] <:+: tok

end Edn.Spec
