/-
  Edn.Spec.ExpNumLit — the number tokens accepted with the experimental flag *only*
  (`cfg = ⟨clj := false, exp := true⟩`), and the payload each denotes (declarative side of
  C04 / C05 at reader level for that configuration).

  Compared with core EDN (`CoreNum`) the flag adds exactly one thing: `_` separators inside the
  digit runs.  There is no hexadecimal / octal / radix / ratio form and no run of leading zeros
  (those belong to the Clojure flag, `CljNum`).

  Where a separator may stand (found from `Edn.Model.Number`):
    * integer part: the single digit `0` (never followed by a separator: `0_1` is an error), or
      a run that starts with `1`..`9`, continues with digits and `_` (any number of consecutive
      `_`: `1__0`), and does not end with `_` (`1_` is an error, so are `1_.5`, `1_e5`, `1_N`);
    * fraction: `.` and a possibly empty run of digits and `_` that does not start with `_`
      (`1._5` is an error); it may end with `_` (`1.5_` is accepted) unless an exponent or the
      suffix `M` follows (`1.5_e3`, `1.5_M` are errors);
    * exponent: `e`/`E`, optional sign, a run that starts with a digit (`1e_5` is an error); it may
      end with `_` (`1e5_`) unless `M` follows.

  What the payloads are:
    * an integer token whose value (separators ignored: `1_000` is 1000) fits the signed 64-bit
      range denotes that `int`; beyond the range it denotes a `bigint` that keeps the digit text
      *with* its separators (`intPayload`);
    * `N`: the `bigint` keeps the digit text *with* its separators (`1_0N` has digits `1_0`);
    * `M`: the `bigdec` keeps the text between sign and `M` *with* its separators;
    * a float denotes `parseDouble` of the whole token, sign and separators included:
      `parse_double_from_buffer` skips the separators while it accumulates mantissa and exponent,
      and its `strtod` fallback works on a copy without them (`decimalParts` ignores `_`), so the
      double is the correctly rounded value of the text with the separators removed
      (`Edn.Proofs.expNum_float_value`, `Edn.Proofs.expNum_parseDouble_unsep`).
  What must follow a token: the end of the input or a number terminator (`TermStart`).
-/
import Edn.Spec.CljNumLit

namespace Edn.Spec
open Edn.Model

/-- the configuration with the experimental flag only -/
abbrev expCfg : Cfg := ⟨false, true⟩

/-- integer part without the Clojure flag: the single digit `0`, or a run that starts with
    `1`..`9`, may contain separators and does not end with one -/
def ExpInt (ip : Bytes) : Prop := ip = [0x30] ∨ NzRun true ip

/-- integer part, fraction, exponent; no separator directly in front of the `e` -/
structure ExpMantissa (ip fr ex : Bytes) : Prop where
  hip : ExpInt ip
  hfr : CljFrac true fr
  hex : CljExp true ex
  hsep : ex ≠ [] → NoTrailU fr

/-- the number tokens accepted with the experimental flag only, and the payload each denotes -/
inductive ExpNum : Bytes → NumVal → Prop
  /-- decimal integer (`0`, `42`, `-1_000`, `1__0`): the 64-bit integer equal to its value with
      the separators ignored when that fits, otherwise a big integer keeping the text -/
  | dec (sg ip : Bytes) (neg : Bool) (hs : SignTok sg neg) (hip : ExpInt ip) :
      ExpNum (sg ++ ip) (intPayload neg 10 ip)
  /-- decimal integer with `N`: the digit text is kept with its separators -/
  | decN (sg ip : Bytes) (neg : Bool) (hs : SignTok sg neg) (hip : ExpInt ip) :
      ExpNum (sg ++ ip ++ [0x4E]) (.bigint neg 10 ip)
  /-- fraction and/or exponent: the double `parse_double_from_buffer` computes from the token
      (trailing separator allowed: `1.5_`, `1e5_`) -/
  | float (sg ip fr ex : Bytes) (neg : Bool) (hs : SignTok sg neg) (hm : ExpMantissa ip fr ex)
      (hne : fr ≠ [] ∨ ex ≠ []) :
      ExpNum (sg ++ ip ++ fr ++ ex) (.float (parseDouble expCfg (sg ++ ip ++ fr ++ ex)))
  /-- integer or float body with `M`; no separator directly in front of the `M`; the text is kept
      with its separators -/
  | decM (sg ip fr ex : Bytes) (neg : Bool) (hs : SignTok sg neg) (hm : ExpMantissa ip fr ex)
      (hu : NoTrailU (ip ++ fr ++ ex)) :
      ExpNum (sg ++ ip ++ fr ++ ex ++ [0x4D]) (.bigdec neg (ip ++ fr ++ ex))

/-- a byte string with the separators removed -/
def unsep (t : Bytes) : Bytes := t.filter (· != 0x5F)

/-- a payload with the separators removed from the texts it keeps; integers and doubles are
    left as they are -/
def unsepVal : NumVal → NumVal
  | .int i => .int i
  | .bigint neg radix ds => .bigint neg radix (unsep ds)
  | .float b => .float b
  | .bigdec neg t => .bigdec neg (unsep t)
  | .ratio n d => .ratio n d
  | .bigratio neg n d => .bigratio neg (unsep n) (unsep d)

end Edn.Spec
