/-
  Edn.Spec.CljNumLit — the number tokens accepted with the Clojure flag, and the payload each
  denotes (declarative side of C04 / C05 / C10 at reader level for `cfg.clj = true`).

  The experimental flag matters for exactly one thing: only with `cfg.exp = true` may `_` stand
  inside digit runs (`URun`); with `cfg.exp = false` every run below is a plain digit string.
  The payloads of big numbers keep the text of the token *with* its separators.

  Compared with core EDN (`CoreNum`): every core token is still accepted with the same payload;
  in addition
    * a run of several zeros is accepted wherever a single `0` is (`00` = 0, `00.5`, `00e1`,
      `00N`, `00M`, `00/5`), and a run of zeros followed by `1`..`7` starts an octal literal
      (`007` = 7; `08`, `09` are errors);
    * `0x` / `0X` hexadecimal, `NrDDD` radix literals, ratios `n/d`;
    * the fraction may be empty (`1.`, `1.e5`) — as in core EDN.
-/
import Edn.Spec.NumberLit

namespace Edn.Spec
open Edn.Model

/-! ### digit runs -/

/-- bytes of class `p`; with the experimental flag `_` may stand among them -/
def URun (exp : Bool) (p : UInt8 → Bool) (ds : Bytes) : Prop :=
  ∀ c ∈ ds, p c = true ∨ (exp = true ∧ c = 0x5F)

/-- a run that starts with a byte of class `p` (separators only after the first digit) -/
def DigRun (exp : Bool) (p : UInt8 → Bool) (ds : Bytes) : Prop :=
  ∃ d t, ds = d :: t ∧ p d = true ∧ URun exp p t

/-- the last byte is not a separator -/
def NoTrailU (ds : Bytes) : Prop := ds.getLast? ≠ some 0x5F

/-- digit of the given radix (`0-9`, `a-z`, `A-Z` valued 0..35) -/
def isRadixDigit (radix : Nat) (c : UInt8) : Bool := (digitValue c radix).isSome

/-- one or more zeros -/
def ZeroRun (zs : Bytes) : Prop := zs ≠ [] ∧ ∀ c ∈ zs, c = 0x30

/-- decimal integer part that starts with `1`..`9`; it never ends with a separator -/
def NzRun (exp : Bool) (ip : Bytes) : Prop :=
  DigRun exp is09 ip ∧ ip.head? ≠ some 0x30 ∧ NoTrailU ip

/-- decimal integer part with the Clojure flag: zeros only, or starting with a non-zero digit -/
def CljInt (exp : Bool) (ip : Bytes) : Prop := ZeroRun ip ∨ NzRun exp ip

/-- optional fraction: a point and a (possibly empty) run not starting with a separator -/
def CljFrac (exp : Bool) (fr : Bytes) : Prop :=
  fr = [] ∨ ∃ fd, fr = 0x2E :: fd ∧ URun exp is09 fd ∧ fd.head? ≠ some 0x5F

/-- optional exponent: `e`/`E`, optional sign, a run starting with a digit -/
def CljExp (exp : Bool) (ex : Bytes) : Prop :=
  ex = [] ∨ ∃ e es ed, ex = e :: (es ++ ed) ∧ (e = 0x65 ∨ e = 0x45) ∧
    (es = [] ∨ es = [0x2B] ∨ es = [0x2D]) ∧ DigRun exp is09 ed

/-- integer part, fraction, exponent; no separator directly in front of the `e` -/
structure CljMantissa (exp : Bool) (ip fr ex : Bytes) : Prop where
  hip : CljInt exp ip
  hfr : CljFrac exp fr
  hex : CljExp exp ex
  hsep : ex ≠ [] → NoTrailU fr

/-- ratio denominator: plain decimal digits (never separators), not starting with `0` -/
def RatioDen (dd : Bytes) : Prop := dd ≠ [] ∧ AllDigits dd ∧ dd.head? ≠ some 0x30

/-! ### payloads -/

/-- value of a digit run in a radix, separators ignored -/
def radixNat (radix : Nat) (ds : Bytes) : Nat :=
  (ds.filter (· != 0x5F)).foldl (fun a c => a * radix + (digitValue c radix).getD 0) 0

/-- an integer literal: the 64-bit integer equal to its value when that fits, otherwise a big
    integer keeping sign, radix and the text of the run -/
def intPayload (neg : Bool) (radix : Nat) (ds : Bytes) : NumVal :=
  if (if neg then radixNat radix ds ≤ 9223372036854775808 else radixNat radix ds ≤ 9223372036854775807)
  then .int (if neg then -(radixNat radix ds : Int) else (radixNat radix ds : Int))
  else .bigint neg radix ds

/-- big-number payloads of decimal literals keep the text, except that a run of zeros with
    nothing else is kept as the single byte `0` -/
def zeroNorm (t : Bytes) : Bytes := if t.all (· == 0x30) then [0x30] else t

/-- suffix of a hexadecimal / octal / radix literal -/
inductive NumSuffix
  | none | N | M
deriving DecidableEq, Repr

def NumSuffix.bytes : NumSuffix → Bytes
  | .none => []
  | .N => [0x4E]
  | .M => [0x4D]

/-- payload of a hexadecimal / octal / radix literal with digit run `ds`.  NB: the `M` suffix
    yields a big *decimal* whose text is the run of radix digits (`0x1FM` is the big decimal
    with text `1F`, `2r101M` the one with text `101`). -/
def radixPayload (suf : NumSuffix) (neg : Bool) (radix : Nat) (ds : Bytes) : NumVal :=
  match suf with
  | .none => intPayload neg radix ds
  | .N => .bigint neg radix ds
  | .M => .bigdec neg ds

/-! ### the tokens -/

/-- the number tokens accepted with the Clojure flag and the payload each denotes
    (`cfg.exp` decides whether `_` may appear in runs) -/
inductive CljNum (cfg : Cfg) : Bytes → NumVal → Prop
  /-- decimal integer (`0`, `000`, `42`, `-1_000`) -/
  | dec (sg ip : Bytes) (neg : Bool) (hs : SignTok sg neg) (hip : CljInt cfg.exp ip) :
      CljNum cfg (sg ++ ip) (intPayload neg 10 ip)
  /-- decimal integer with `N` -/
  | decN (sg ip : Bytes) (neg : Bool) (hs : SignTok sg neg) (hip : CljInt cfg.exp ip) :
      CljNum cfg (sg ++ ip ++ [0x4E]) (.bigint neg 10 (zeroNorm ip))
  /-- fraction and/or exponent: the double `parse_double_from_buffer` computes from the token
      (trailing separator allowed: `1.5_`, `1e5_`) -/
  | float (sg ip fr ex : Bytes) (neg : Bool) (hs : SignTok sg neg) (hm : CljMantissa cfg.exp ip fr ex)
      (hne : fr ≠ [] ∨ ex ≠ []) :
      CljNum cfg (sg ++ ip ++ fr ++ ex) (.float (parseDouble cfg (sg ++ ip ++ fr ++ ex)))
  /-- integer or float body with `M`; no separator directly in front of the `M` -/
  | decM (sg ip fr ex : Bytes) (neg : Bool) (hs : SignTok sg neg) (hm : CljMantissa cfg.exp ip fr ex)
      (hu : NoTrailU (ip ++ fr ++ ex)) :
      CljNum cfg (sg ++ ip ++ fr ++ ex ++ [0x4D]) (.bigdec neg (zeroNorm (ip ++ fr ++ ex)))
  /-- ratio with a numerator starting with `1`..`9`: lowest terms, integer when the denominator
      divides the numerator, big forms when an operand does not fit 64 bits (`ratioValue`) -/
  | ratio (sg nd dd : Bytes) (neg : Bool) (hs : SignTok sg neg) (hn : NzRun cfg.exp nd) (hd : RatioDen dd) :
      CljNum cfg (sg ++ nd ++ [0x2F] ++ dd) (ratioValue cfg neg nd dd)
  /-- ratio with numerator zero: the integer 0 whatever the size of the denominator
      (`0/9223372036854775808` is 0, not a big ratio) -/
  | zeroRatio (sg zs dd : Bytes) (neg : Bool) (hs : SignTok sg neg) (hz : ZeroRun zs) (hd : RatioDen dd) :
      CljNum cfg (sg ++ zs ++ [0x2F] ++ dd) (.int 0)
  /-- hexadecimal: zeros, `x`/`X`, a run of hex digits (separators may trail: `0x1_`),
      optional `N` / `M` -/
  | hex (sg zs hs : Bytes) (x : UInt8) (neg : Bool) (suf : NumSuffix) (hs' : SignTok sg neg) (hz : ZeroRun zs)
      (hx : x = 0x78 ∨ x = 0x58) (hh : DigRun cfg.exp (isRadixDigit 16) hs) :
      CljNum cfg (sg ++ zs ++ [x] ++ hs ++ suf.bytes) (radixPayload suf neg 16 hs)
  /-- octal: zeros, then a run of octal digits starting with `1`..`7`; the zeros belong to the
      digit text; optional `N` / `M` -/
  | octal (sg zs os : Bytes) (neg : Bool) (suf : NumSuffix) (hs : SignTok sg neg) (hz : ZeroRun zs)
      (ho : DigRun cfg.exp (isRadixDigit 8) os) (hfirst : os.head? ≠ some 0x30) :
      CljNum cfg (sg ++ zs ++ os ++ suf.bytes) (radixPayload suf neg 8 (zs ++ os))
  /-- radix: decimal prefix with value 2..36 (leading zeros allowed), `r`/`R`, a run of digits
      of that radix not ending with a separator; `M` allowed when it is not a digit of the
      radix, `N` never -/
  | radix (sg rp ds : Bytes) (r : UInt8) (neg : Bool) (suf : NumSuffix) (hs : SignTok sg neg)
      (hrp : rp ≠ [] ∧ AllDigits rp) (hrv : 2 ≤ natOfDigits rp ∧ natOfDigits rp ≤ 36)
      (hr : r = 0x72 ∨ r = 0x52) (hd : DigRun cfg.exp (isRadixDigit (natOfDigits rp)) ds) (hu : NoTrailU ds)
      (hsuf : suf = .none ∨ (suf = .M ∧ isRadixDigit (natOfDigits rp) 0x4D = false)) :
      CljNum cfg (sg ++ rp ++ [r] ++ ds ++ suf.bytes) (radixPayload suf neg (natOfDigits rp) ds)


/-- what may follow the token `tok` denoting `v`: the end of the input or a number terminator;
    after a ratio that denotes an integer (`4/2`, `0/5`) any delimiter byte, i.e. also `\` and
    DEL — `edn_read_number` returns early for these and skips `validate_number_delimiter`
    (`4/2\a` is the integer 2 followed by the character `\a`, whereas `2\a` and `1/2\a` are errors) -/
def CljNumEnd (tok : Bytes) (v : NumVal) (rest : Bytes) : Prop :=
  TermStart rest ∨ (0x2F ∈ tok ∧ (∃ i, v = .int i) ∧ DelimStart rest)

end Edn.Spec
