/-
  Edn.Spec.GrammarX — the language the reader accepts in EVERY configuration (the two feature
  flags `cfg.clj`, `cfg.exp`), stated declaratively like `Edn.Spec.Grammar.Form`, which it
  specialises to for `Cfg.core`: `FormX cfg N S k a tok rest` says that `tok`, when followed by
  `rest`, is one complete form with content `a` and nesting at most `k`.

  What is new with respect to `Form`:
  * contents are compared through `stripM`, which — unlike `strip` — KEEPS metadata (itself
    stripped): metadata is part of what is read;
  * metadata `^ann target` (Clojure flag): `FormX.withMeta`; the annotation is any form, expanded by
    `metaEntriesC` (map / keyword / vector / string / symbol), the target any form of a kind that
    can carry metadata, the result `attachMetaC` (new entries first, then the old entries whose
    key is `Eqv` to no new key);
  * namespaced maps `#:ns{…}` (Clojure flag): `FormX.nsmap`; the keys go through `qualifyKey`
    BEFORE the duplicate check (`#:a{:x 1 :a/x 2}` is a duplicate-key error);
  * number tokens and string tokens enter through two abstract judgements `N` and `S`, tied to
    the leaf readers by the exactness hypotheses `NumExact` / `StrExact`, which are instantiated
    where the leaf theorems exist (`Edn.Proofs.SoundX`);
  * character tokens are `CharTokX cfg`; `^` starts an identifier unless the Clojure flag is set.
-/
import Edn.Spec.Grammar
import Edn.Spec.CljNumLit

namespace Edn.Spec
open Edn.Model

/-! ### contents with metadata -/

mutual
/-- the content of a tree including its metadata: every header reset, metadata kept (stripped) -/
def stripM : Val → Val
  | .nil _ => .nil hdr0
  | .bool _ b => .bool hdr0 b
  | .int _ i => .int hdr0 i
  | .bigint _ n r d => .bigint hdr0 n r d
  | .float _ b => .float hdr0 b
  | .bigdec _ n t => .bigdec hdr0 n t
  | .ratio _ n d => .ratio hdr0 n d
  | .bigratio _ g n d => .bigratio hdr0 g n d
  | .char _ c => .char hdr0 c
  | .str _ d e => .str hdr0 d e
  | .sym _ md ns nm => .sym hdr0 (stripMO md) ns nm
  | .kw _ ns nm => .kw hdr0 ns nm
  | .list _ md xs => .list hdr0 (stripMO md) (stripML xs)
  | .vec _ md xs => .vec hdr0 (stripMO md) (stripML xs)
  | .map _ md ks vs => .map hdr0 (stripMO md) (stripML ks) (stripML vs)
  | .set _ md xs => .set hdr0 (stripMO md) (stripML xs)
  | .tagged _ md t v => .tagged hdr0 (stripMO md) t (stripM v)
  | .ext _ t d => .ext hdr0 t d
def stripML : List Val → List Val
  | [] => []
  | x :: xs => stripM x :: stripML xs
def stripMO : Option Val → Option Val
  | none => none
  | some m => some (stripM m)
end

/-- `metaEntries` on contents: the entries an annotation stands for -/
def metaEntriesC (m : Val) : Option (List Val × List Val) :=
  match m with
  | .map _ _ ks vs => some (ks, vs)
  | .kw .. => some ([m], [.bool hdr0 true])
  | .vec .. => some ([.kw hdr0 none (strBytes "param-tags")], [m])
  | .str .. | .sym .. => some ([.kw hdr0 none (strBytes "tag")], [m])
  | _ => none

/-- the old entries that survive a merge: those whose key is equal (`Eqv`) to no new key -/
def keepOldC (cfg : Cfg) (newKeys : List Val) : List Val → List Val → List Val × List Val
  | k :: ks, v :: vs =>
    if newKeys.any (fun nk => decide (Eqv cfg k nk)) then keepOldC cfg newKeys ks vs
    else (k :: (keepOldC cfg newKeys ks vs).1, v :: (keepOldC cfg newKeys ks vs).2)
  | _, _ => ([], [])

/-- `attachMeta` on contents, with the specification's equality instead of `edn_value_equal` -/
def attachMetaC (cfg : Cfg) (form : Val) (newKs newVs : List Val) : Val :=
  match form.md with
  | some (.map _ md ks vs) =>
    form.setMd (some (.map hdr0 md (newKs ++ (keepOldC cfg newKs ks vs).1) (newVs ++ (keepOldC cfg newKs ks vs).2)))
  | _ => form.setMd (some (.map hdr0 none newKs newVs))

/-- the keys of a namespaced map after qualification, as contents -/
def qualifyKeysC (name : Bytes) (ks : List Val) : List Val := stripML (ks.map (qualifyKey name))

/-! ### the abstract token judgements -/

/-- `N tok v rest`: `tok` followed by `rest` is a number token with payload `v` -/
abbrev NumJ := Bytes → NumVal → Bytes → Prop
/-- `S tok data esc rest`: `tok` followed by `rest` is a string literal or text block whose value
    has the bytes `data` and the has-escapes flag `esc` -/
abbrev StrJ := Bytes → Bytes → Bool → Bytes → Prop

/-- where the dispatcher sends a number: a digit, or a sign followed by a digit -/
def NumStart (s : Bytes) : Prop :=
  ∃ c t, s = c :: t ∧ (is09 c = true ∨ ((c = 0x2B ∨ c = 0x2D) ∧ ∃ nx t', t = nx :: t' ∧ is09 nx = true))

/-- `N` is exactly what `edn_read_number` accepts (from where the dispatcher calls it) -/
def NumExact (cfg : Cfg) (N : NumJ) : Prop :=
  ∀ (s rest : Bytes) (v : NumVal), NumStart s →
    (readNumber cfg s = .ok v rest ↔ ∃ tok, s = tok ++ rest ∧ N tok v rest)

/-- `S` is exactly what `edn_read_string` accepts (called at a `"`) -/
def StrExact (cfg : Cfg) (S : StrJ) : Prop :=
  ∀ (ctx : Ctx), ctx.cfg = cfg → ∀ (s rest : Bytes) (cl : List Call) (data : Bytes) (esc : Bool), s.head? = some 0x22 →
    ((∃ h, readString ctx { rest := s, calls := cl } = .ok (.str h data esc) { rest := rest, calls := cl }) ↔
      ∃ tok, s = tok ++ rest ∧ S tok data esc rest)

/-- the core number tokens, as a judgement -/
def coreNumJ : NumJ := fun tok v rest => CoreNum Cfg.core tok v ∧ TermStart rest
/-- the number tokens of the Clojure flag, as a judgement -/
def cljNumJ (cfg : Cfg) : NumJ := fun tok v rest => CljNum cfg tok v ∧ CljNumEnd tok v rest
/-- ordinary string literals (no experimental flag): `"`, raw body, `"` -/
def rawStrJ : StrJ := fun tok data esc _ => RawStr data ∧ tok = 0x22 :: (data ++ [0x22]) ∧ esc = data.contains 0x5C

/-- the identifier reader is reached: not a digit, not a sign followed by a digit, and — with the
    Clojure flag — not `^` (which then starts a metadata form) -/
def IdentStartX (cfg : Cfg) (tok : Bytes) : Prop :=
  IdentStart tok ∧ (cfg.clj = true → tok.head? ≠ some 0x5E)

/-! ### the grammar -/

mutual
/-- `FormX cfg N S k a tok rest`: `tok` followed by `rest` is one form with content `a` (metadata
    included); `k` bounds the nesting (collections, tags, discards, metadata markers count one
    level each) -/
inductive FormX (cfg : Cfg) (N : NumJ) (S : StrJ) : Nat → Val → Bytes → Bytes → Prop
  | blank (k : Nat) (a : Val) (tr tok rest : Bytes) (ht : Blank tr) (h : FormX cfg N S k a tok rest) :
      FormX cfg N S k a (tr ++ tok) rest
  | discard (k : Nat) (a b : Val) (tok1 tok2 rest : Bytes) (hd : FormX cfg N S k b tok1 (tok2 ++ rest))
      (h : FormX cfg N S (k + 1) a tok2 rest) : FormX cfg N S (k + 1) a (0x23 :: 0x5F :: (tok1 ++ tok2)) rest
  | number (k : Nat) (tok rest : Bytes) (v : NumVal) (hs : NumStart (tok ++ rest)) (hn : N tok v rest) :
      FormX cfg N S k (numToVal hdr0 v) tok rest
  | ident (k : Nat) (tok rest : Bytes) (a : Val) (hl : IdentLex tok) (hs : IdentStartX cfg tok) (hd : IdentDenotes tok a)
      (ht : DelimStart rest) : FormX cfg N S k a tok rest
  | str (k : Nat) (tok rest data : Bytes) (esc : Bool) (hq : (tok ++ rest).head? = some 0x22) (hs : S tok data esc rest) :
      FormX cfg N S k (.str hdr0 data esc) tok rest
  | char (k : Nat) (body rest : Bytes) (cp : Nat) (h : CharTokX cfg body cp) (hcp : cp ≤ 0x10FFFF) (ht : DelimStart rest) :
      FormX cfg N S k (.char hdr0 cp) (0x5C :: body) rest
  | symbolic (k : Nat) (tok rest : Bytes) (bits : UInt64) (h : SymbolicTok tok bits) : FormX cfg N S k (.float hdr0 bits) tok rest
  | list (k : Nat) (xs : List Val) (body rest : Bytes) (h : FormSeqX cfg N S k xs body (0x29 :: rest)) :
      FormX cfg N S (k + 1) (.list hdr0 none xs) (0x28 :: (body ++ [0x29])) rest
  | vec (k : Nat) (xs : List Val) (body rest : Bytes) (h : FormSeqX cfg N S k xs body (0x5D :: rest)) :
      FormX cfg N S (k + 1) (.vec hdr0 none xs) (0x5B :: (body ++ [0x5D])) rest
  | set (k : Nat) (xs : List Val) (body rest : Bytes) (h : FormSeqX cfg N S k xs body (0x7D :: rest))
      (hd : pairwiseDistinct cfg xs) :
      FormX cfg N S (k + 1) (.set hdr0 none xs) (0x23 :: 0x7B :: (body ++ [0x7D])) rest
  | map (k : Nat) (ks vs : List Val) (body rest : Bytes) (h : FormSeqX cfg N S k (interleaveKV ks vs) body (0x7D :: rest))
      (hl : ks.length = vs.length) (hd : pairwiseDistinct cfg ks) :
      FormX cfg N S (k + 1) (.map hdr0 none ks vs) (0x7B :: (body ++ [0x7D])) rest
  | tagged (k : Nat) (tag : Bytes) (ns : Option Bytes) (nm : Bytes) (a : Val) (tok rest : Bytes)
      (hl : IdentLex tag) (hd : IdentDenotes tag (.sym hdr0 none ns nm)) (hu : tag.head? ≠ some 0x5F)
      (hsep : ∃ c t, tok = c :: t ∧ isDelim c = true) (h : FormX cfg N S k a tok rest) :
      FormX cfg N S (k + 1) (.tagged hdr0 none tag a) (0x23 :: (tag ++ tok)) rest
  /-- `^annotation target` (Clojure flag): both operands are forms one level down; the annotation
      must be a map, keyword, vector, string or symbol, the target a symbol, list, vector, map, set
      or tagged element; nothing is required between the operands beyond what ends the first -/
  | withMeta (k : Nat) (am af : Val) (nks nvs : List Val) (tokm tokf rest : Bytes) (hc : cfg.clj = true)
      (hm : FormX cfg N S k am tokm (tokf ++ rest)) (he : metaEntriesC am = some (nks, nvs))
      (hf : FormX cfg N S k af tokf rest) (ht : af.metaTarget = true) :
      FormX cfg N S (k + 1) (attachMetaC cfg af nks nvs) (0x5E :: (tokm ++ tokf)) rest
  /-- `#:name{…}` (Clojure flag): `#`, a keyword token without namespace, blanks (whitespace,
      commas, closed comments), a map body; the keys are qualified before the duplicate check -/
  | nsmap (k : Nat) (name tr body rest : Bytes) (ks vs : List Val) (hc : cfg.clj = true)
      (hl : IdentLex (0x3A :: name)) (hden : IdentDenotes (0x3A :: name) (.kw hdr0 none name)) (ht : Blank tr)
      (h : FormSeqX cfg N S k (interleaveKV ks vs) body (0x7D :: rest))
      (hlen : ks.length = vs.length) (hd : pairwiseDistinct cfg (qualifyKeysC name ks)) :
      FormX cfg N S (k + 1) (.map hdr0 none (qualifyKeysC name ks) vs)
        (0x23 :: 0x3A :: (name ++ (tr ++ 0x7B :: (body ++ [0x7D])))) rest

/-- the forms of a collection body in front of `after` (the closing delimiter and what follows) -/
inductive FormSeqX (cfg : Cfg) (N : NumJ) (S : StrJ) : Nat → List Val → Bytes → Bytes → Prop
  | nil (k : Nat) (tr after : Bytes) (ht : TrailX cfg N S k tr after) : FormSeqX cfg N S k [] tr after
  | cons (k : Nat) (a : Val) (xs : List Val) (tok body after : Bytes) (h : FormX cfg N S k a tok (body ++ after))
      (hr : FormSeqX cfg N S k xs body after) : FormSeqX cfg N S k (a :: xs) (tok ++ body) after

/-- blanks and discarded forms between the last form and the closing delimiter -/
inductive TrailX (cfg : Cfg) (N : NumJ) (S : StrJ) : Nat → Bytes → Bytes → Prop
  | blank (k : Nat) (tr after : Bytes) (ht : Blank tr) : TrailX cfg N S k tr after
  | discard (k : Nat) (b : Val) (tr tok tr' after : Bytes) (ht : Blank tr) (hd : FormX cfg N S k b tok (tr' ++ after))
      (hr : TrailX cfg N S (k + 1) tr' after) : TrailX cfg N S (k + 1) (tr ++ 0x23 :: 0x5F :: (tok ++ tr')) after
end

end Edn.Spec
