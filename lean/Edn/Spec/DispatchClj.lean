/-
  Edn.Spec.DispatchClj — the declarative side of property C14 at whole-document level for
  every configuration, the ones with the Clojure flag included.

  `Edn.Spec.dispatchV` (Spec/Dispatch.lean) replays the handlers on the tree `v0` the input
  reads to without a registry.  With the Clojure flag that tree is not enough: it has lost
  what the handlers' effect depends on.

  * `#:p{#id :a 1}` and `#:q{#id :a 1}` read to the same registry-free tree (a key that is a
    tagged element is not qualified, so the prefix leaves no trace); with the identity
    handler they read to `{:p/a 1}` and `{:q/a 1}`: the key is qualified after its handler
    returned.
  * `^{#id :a 1,,,#ka :b 2} [3]` and `^{#id :a 1}^{#ka :b 2} [3]` (`ka` = the handler returning
    the keyword `:a`) read to the same registry-free tree — a vector whose metadata map has the
    entries of all annotations, outermost first.  With the registry the first is a
    DUPLICATE_KEY error of the annotation map (range of that map, which the tree does not
    keep), the second reads to `^{:a 1} [3]`: the inner annotation's entry is dropped silently
    by the merge, which runs after the handlers of both annotations.
  * `^{:a #id 1} ^{:a #id 2} [3]`: the registry-free tree has dropped the inner entry, the
    registry run calls the handler on both `1` and `2`.
  * `^:a #fail [1]`: the error range of the failing handler starts at the `#`; the
    registry-free tree only has the range of the whole form (starting at the `^`).
  * `^ ^{:x #id 1} {:a 1} [2]`: metadata of an annotation is read (handlers run) and dropped.

  So the dispatch is stated on a *syntax tree* `Syn` of the input, which keeps the namespace
  prefix of a map, the annotation / target structure of metadata and the source ranges, and
  `dispatchS` says what a read returns under any registry option as a function of that tree:
  handlers are applied bottom-up in source order (annotation before target, key before
  value), every call is logged with the range of the operand it received, namespaced-map keys
  are qualified after the handler of the key returned, annotations are merged into the
  metadata the (possibly handler-produced) target already carries, outermost annotation
  last.  `Edn.Proofs.DispatchClj` shows that an input that reads to a value (without a
  registry, or under any other options) has such a tree, independent of the options, that
  `dispatchS` with no registry gives the registry-free tree, and that every read of the input
  (any registry, any default mode) returns exactly `dispatchS` of it - value, call log, or error
  code and range.  `Edn.Proofs.DispatchCljAux6` has the first two pairs above as kernel-checked
  counterexamples to a statement on the registry-free tree.
-/
import Edn.Spec.Dispatch

namespace Edn.Spec
open Edn.Model

/-- syntax tree of one form (discarded forms, blanks and comments are not part of it).
    Positions are in remaining-length coordinates, like headers. -/
inductive Syn where
  /-- a scalar, as the leaf readers return it -/
  | leaf (v : Val)
  /-- `( … )` (kind 0), `[ … ]` (1), `#{ … }` (2); `s … e` = range of the literal -/
  | seq (kind s e : Nat) (xs : List Syn)
  /-- `{ k v … }` or `#:ns{ k v … }` (then `s` is the offset of the `#`) -/
  | map (s e : Nat) (ns : Option Bytes) (ks vs : List Syn)
  /-- `#tag x` -/
  | tagged (s e : Nat) (tag : Bytes) (x : Syn)
  /-- `^m form`: `s` = offset of the `^`, `me` = end of the annotation, `e` = end of the target -/
  | ann (s me e : Nat) (m form : Syn)

/-- key rewriting under a namespace prefix -/
def qualifyNs (ns : Option Bytes) (k : Val) : Val :=
  match ns with
  | some n => qualifyKey n k
  | none => k

/-- the key of a map entry: qualified once its own dispatch has succeeded -/
def qualD (ns : Option Bytes) : DOne → DOne
  | (c, .ok k) => (c, .ok (qualifyNs ns k))
  | (c, .error e) => (c, .error e)

/-- close of a list / vector / set over the outcomes of its elements -/
def closeSeq (cfg : Cfg) (kind s e : Nat) : List Call × Except DErr (List Val) → DOne
  | (c, .error er) => (c, .error er)
  | (c, .ok xs) =>
    if kind == 0 then (c, .ok (.list (mkHdr s e) none xs))
    else if kind == 1 then (c, .ok (.vec (mkHdr s e) none xs))
    else
      let r := hasDuplicates cfg xs
      if r.1 then (c, .error (.duplicateElement, s, e)) else (c, .ok (.set (mkHdr s e) none r.2))

/-- close of a map over the outcomes `k1 v1 k2 v2 …` of its entries (keys already qualified) -/
def closeMap (cfg : Cfg) (s e : Nat) : List Call × Except DErr (List Val) → DOne
  | (c, .error er) => (c, .error er)
  | (c, .ok zs) =>
    let kv := uninterleave zs
    let r := hasDuplicates cfg kv.1
    if r.1 then (c, .error (.duplicateKey, s, e)) else (c, .ok (.map (mkHdr s e) none r.2 kv.2))

/-- a tagged element whose operand has been dispatched: no registry = the generic tagged
    value; a registered handler is called once, on the operand's result, and its result takes
    the range of the tagged element; an unregistered tag follows the default mode -/
def tagResult (reg : Option (Bytes → Option Handler)) (mode s e : Nat) (tag : Bytes) : DOne → DOne
  | (c1, .error er) => (c1, .error er)
  | (c1, .ok v) =>
    match reg with
    | none => (c1, .ok (.tagged (mkHdr s e) none tag v))
    | some rg =>
      match rg tag with
      | some hd =>
        let c := c1 ++ [⟨hd.name, v.hdr.s, v.hdr.e⟩]
        match hd.run v with
        | none => (c, .error (.invalidSyntax, s, e))
        | some r => (c, .ok (r.setHdr { r.hdr with s := s, e := e }))
      | none =>
        if mode == 1 then (c1, .ok v)
        else if mode == 2 then (c1, .error (.unknownTag, s, e))
        else (c1, .ok (.tagged (mkHdr s e) none tag v))

/-- `^m form` over the outcomes of annotation and target: the annotation first (its error
    ends the read before the target is looked at), then the target; the annotation's entries
    are merged into the metadata the target's result carries (its own entries with an equal key
    are dropped) and the result's range starts at the `^`.  A target result that cannot carry
    metadata is INVALID_SYNTAX over the whole form. -/
def metaResult (cfg : Cfg) (s me e : Nat) (dm dform : DOne) : DOne :=
  match dm with
  | (c1, .error er) => (c1, .error er)
  | (c1, .ok m) =>
    match metaEntries m with
    | none => (c1, .error (.invalidSyntax, s, me))
    | some (nks, nvs) =>
      match dform with
      | (c2, .error er) => (c1 ++ c2, .error er)
      | (c2, .ok form) =>
        if !form.metaTarget then (c1 ++ c2, .error (.invalidSyntax, s, e))
        else
          let r := attachMeta cfg m form nks nvs
          (c1 ++ c2, .ok (r.setHdr { r.hdr with s := s }))

mutual
/-- `(calls, result)` of reading the form `t` with registry option `reg` (`none` = no registry
    supplied) and default mode `mode` (0 passthrough, 1 unwrap, 2 error) -/
def dispatchS (cfg : Cfg) (reg : Option (Bytes → Option Handler)) (mode : Nat) : Syn → DOne
  | .leaf v => ([], .ok v)
  | .seq kind s e xs => closeSeq cfg kind s e (seqR (dispatchEachS cfg reg mode xs))
  | .map s e ns ks vs =>
    closeMap cfg s e
      (seqR (interleave2 ((dispatchEachS cfg reg mode ks).map (qualD ns)) (dispatchEachS cfg reg mode vs)))
  | .tagged s e tag x => tagResult reg mode s e tag (dispatchS cfg reg mode x)
  | .ann s me e m form => metaResult cfg s me e (dispatchS cfg reg mode m) (dispatchS cfg reg mode form)
/-- every element on its own (`seqR` decides what counts) -/
def dispatchEachS (cfg : Cfg) (reg : Option (Bytes → Option Handler)) (mode : Nat) : List Syn → List DOne
  | [] => []
  | x :: xs => dispatchS cfg reg mode x :: dispatchEachS cfg reg mode xs
end

/-- the registry-free reading of the tree -/
def plainS (cfg : Cfg) (t : Syn) : DOne := dispatchS cfg none 0 t

/-- what `read` returned, against an outcome of the declarative dispatch: the value and exactly
    the calls, or the error code with its range (`n` = input length; the dispatch works in
    remaining-length coordinates, the error of `read` has offsets) and the calls made until then -/
def ReadIs (r : Result) (n : Nat) : DOne → Prop
  | (calls, .ok v) => r.out = .value v ∧ r.calls = calls
  | (calls, .error (code, s, e)) =>
    (∃ es ee, r.out = .error code es ee ∧ es.offset = n - s ∧ ee.offset = n - e) ∧ r.calls = calls

end Edn.Spec
