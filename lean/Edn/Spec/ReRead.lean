/-
  Edn.Spec.ReRead — the re-read half of property C11: the bytes a value's range covers, read
  on their own, give that same value again.  Positions are in remaining-length coordinates
  (Edn.Model.Reader), so a re-read of the slice that ends `k` bytes before the end of the
  original input has every position smaller by `k`.
-/
import Edn.Model.Reader
import Edn.Spec.Eqv

namespace Edn.Spec
open Edn.Model

def shiftHdr (k : Nat) (h : Hdr) : Hdr := if h.synth then h else { h with s := h.s + k, e := h.e + k }

mutual
/-- add `k` to every position stored in the tree (synthesised values have none) -/
def shiftV (k : Nat) : Val → Val
  | .list h md xs => .list (shiftHdr k h) (shiftO k md) (shiftL k xs)
  | .vec h md xs => .vec (shiftHdr k h) (shiftO k md) (shiftL k xs)
  | .set h md xs => .set (shiftHdr k h) (shiftO k md) (shiftL k xs)
  | .map h md ks vs => .map (shiftHdr k h) (shiftO k md) (shiftL k ks) (shiftL k vs)
  | .tagged h md t v => .tagged (shiftHdr k h) (shiftO k md) t (shiftV k v)
  | .sym h md ns nm => .sym (shiftHdr k h) (shiftO k md) ns nm
  | v => v.setHdr (shiftHdr k v.hdr)
def shiftL (k : Nat) : List Val → List Val
  | [] => []
  | x :: xs => shiftV k x :: shiftL k xs
def shiftO (k : Nat) : Option Val → Option Val
  | none => none
  | some m => some (shiftV k m)
end

/-- `SubVal w v`: `w` occurs in the tree `v` (elements, keys, values, tagged operands and
    metadata, at any depth; `v` itself included) -/
inductive SubVal : Val → Val → Prop
  | refl (v : Val) : SubVal v v
  | list (w : Val) (h : Hdr) (md : Option Val) (xs : List Val) (x : Val) (hx : x ∈ xs) : SubVal w x → SubVal w (.list h md xs)
  | vec (w : Val) (h : Hdr) (md : Option Val) (xs : List Val) (x : Val) (hx : x ∈ xs) : SubVal w x → SubVal w (.vec h md xs)
  | set (w : Val) (h : Hdr) (md : Option Val) (xs : List Val) (x : Val) (hx : x ∈ xs) : SubVal w x → SubVal w (.set h md xs)
  | mapKey (w : Val) (h : Hdr) (md : Option Val) (ks vs : List Val) (x : Val) (hx : x ∈ ks) : SubVal w x → SubVal w (.map h md ks vs)
  | mapVal (w : Val) (h : Hdr) (md : Option Val) (ks vs : List Val) (x : Val) (hx : x ∈ vs) : SubVal w x → SubVal w (.map h md ks vs)
  | tagged (w : Val) (h : Hdr) (md : Option Val) (t : Bytes) (v : Val) : SubVal w v → SubVal w (.tagged h md t v)
  | mdata (w v m : Val) (hm : v.md = some m) : SubVal w m → SubVal w v

/-- the slice of the input that a header's range covers (remaining-length coordinates) -/
def sliceOf (input : Bytes) (h : Hdr) : Bytes := (input.drop (input.length - h.s)).take (h.s - h.e)

end Edn.Spec
