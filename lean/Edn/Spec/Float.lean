/-
  Edn.Spec.Float — IEEE-754 binary64 as bit patterns, in exact `Nat` arithmetic.

  `rne n d` is round-to-nearest-even of the positive rational n/d.  The model *defines*
  the machine operations `(double) m`, `*`, `/` of the C code as `rne` of the exact
  result — which is what IEEE-754 requires of the hardware (trusted base) — and
  `strtod` as `rne` of the decimal value (glibc is assumed correctly rounded).
  No Lean `Float` appears anywhere in a theorem.
-/
namespace Edn.Spec

/-- Round-to-nearest-even of n/d (d > 0) to a binary64 bit pattern (sign bit clear). -/
def rne (n d : Nat) : UInt64 :=
  if n = 0 then 0 else
  let e0 : Int := (Nat.log2 n : Int) - (Nat.log2 d : Int)
  let ge (e : Int) : Bool := if e ≥ 0 then n ≥ d * 2 ^ e.toNat else n * 2 ^ (-e).toNat ≥ d
  let e : Int := if ge e0 then e0 else e0 - 1            -- 2^e ≤ n/d < 2^(e+1)
  let ee : Int := if e < -1022 then -1022 else e          -- subnormals share one exponent
  let sh : Int := 52 - ee
  let num := if sh ≥ 0 then n * 2 ^ sh.toNat else n
  let den := if sh ≥ 0 then d else d * 2 ^ (-sh).toNat
  let q := num / den
  let r := num % den
  let q' := if 2 * r > den then q + 1 else if 2 * r = den then (if q % 2 = 1 then q + 1 else q) else q
  if e < -1022 then UInt64.ofNat q'                        -- carries into the first normal naturally
  else
    let m := if q' = 2 ^ 53 then 2 ^ 52 else q'
    let ex := if q' = 2 ^ 53 then ee + 1 else ee
    if ex > 1023 then 0x7FF0000000000000
    else UInt64.ofNat ((ex + 1023).toNat * 2 ^ 52 + (m - 2 ^ 52))

def signBit : UInt64 := 0x8000000000000000
def withSign (neg : Bool) (b : UInt64) : UInt64 := if neg then b ||| signBit else b

/-- exact value of a finite bit pattern as (negative, numerator, denominator) -/
def decode (b : UInt64) : Bool × Nat × Nat :=
  let neg := (b &&& signBit) != 0
  let ex := ((b >>> 52) &&& 0x7FF).toNat
  let fr := (b &&& 0xFFFFFFFFFFFFF).toNat
  if ex = 0 then (neg, fr, 2 ^ 1074)
  else
    let m := fr + 2 ^ 52
    if ex ≥ 1075 then (neg, m * 2 ^ (ex - 1075), 1) else (neg, m, 2 ^ (1075 - ex))

def isFinite (b : UInt64) : Bool := ((b >>> 52) &&& 0x7FF) != 0x7FF

/-- `(double) m` for a non-negative integer -/
def ofNat (m : Nat) : UInt64 := rne m 1

/-- IEEE multiplication of two finite doubles -/
def fmul (a b : UInt64) : UInt64 :=
  let (sa, na, da) := decode a
  let (sb, nb, db) := decode b
  withSign (sa != sb) (rne (na * nb) (da * db))

/-- IEEE division of two finite doubles, divisor non-zero -/
def fdiv (a b : UInt64) : UInt64 :=
  let (sa, na, da) := decode a
  let (sb, nb, db) := decode b
  withSign (sa != sb) (rne (na * db) (da * nb))

/-- the double nearest to mant · 10^e10 -/
def ofDec (mant : Nat) (e10 : Int) : UInt64 :=
  if e10 ≥ 0 then rne (mant * 10 ^ e10.toNat) 1 else rne mant (10 ^ (-e10).toNat)

/-- `ofDec` with the two trivially decided ranges short-circuited, so that literals with
    astronomically large exponents can be evaluated: with `mant ≥ 1`, an exponent above 400
    overflows to infinity, and `mant < 10^D` with `D + e10 < -400` underflows to zero
    (`D` is an upper bound on the number of decimal digits of `mant`). -/
def ofDecC (mant : Nat) (e10 : Int) : UInt64 :=
  if mant = 0 then 0
  else if e10 > 400 then 0x7FF0000000000000
  else if e10 + ((Nat.log2 mant / 3 + 1 : Nat) : Int) < -400 then 0
  else ofDec mant e10

end Edn.Spec
