/-
  Edn.Spec.Ranges — what property C11 demands of the source ranges of a tree, stated in the
  model's remaining-length coordinates (a header stores the number of input bytes left at
  the start `s` and at the end `e` of the value, so `e < s`, an enclosing value has a larger
  `s` and a smaller `e`, and a later sibling has a smaller `s`).  Values the reader
  synthesises (`synth`) are not read from a span of the text and are exempt.
-/
import Edn.Model.Reader

namespace Edn.Spec
open Edn.Model

/-- child range enclosed by the parent range (a synthesised parent, e.g. the merged metadata
    map, has no span of its own and imposes nothing) -/
def encloses (p c : Hdr) : Prop := p.synth = true ∨ c.synth = true ∨ (c.s ≤ p.s ∧ p.e ≤ c.e)

/-- `y` was read after `x` and does not overlap it -/
def before (x y : Val) : Prop := x.hdr.synth = true ∨ y.hdr.synth = true ∨ y.hdr.s ≤ x.hdr.e

/-- keys and values in reading order -/
def interleave : List Val → List Val → List Val
  | k :: ks, v :: vs => k :: v :: interleave ks vs
  | _, _ => []

mutual
/-- the range conditions, hereditarily (metadata included) -/
def RangeOK : Val → Prop
  | .list h md xs | .vec h md xs | .set h md xs =>
    (h.synth = true ∨ h.e < h.s) ∧ (∀ x ∈ xs, encloses h x.hdr) ∧ xs.Pairwise before ∧ RangeOKL xs ∧ RangeOKO h md
  | .map h md ks vs =>
    (h.synth = true ∨ h.e < h.s) ∧ (∀ x ∈ ks, encloses h x.hdr) ∧ (∀ x ∈ vs, encloses h x.hdr) ∧
      (interleave ks vs).Pairwise before ∧ RangeOKL ks ∧ RangeOKL vs ∧ RangeOKO h md
  | .tagged h md _ v => (h.synth = true ∨ h.e < h.s) ∧ encloses h v.hdr ∧ RangeOK v ∧ RangeOKO h md
  | .sym h md _ _ => (h.synth = true ∨ h.e < h.s) ∧ RangeOKO h md
  | v => v.hdr.synth = true ∨ v.hdr.e < v.hdr.s
def RangeOKL : List Val → Prop
  | [] => True
  | x :: xs => RangeOK x ∧ RangeOKL xs
/-- metadata, when present, lies inside its target -/
def RangeOKO (h : Hdr) : Option Val → Prop
  | none => True
  | some m => encloses h m.hdr ∧ RangeOK m
end

end Edn.Spec
