/-
  Edn.Spec.Eqv — structural equality as property C07 states it, independent of caches
  and source positions: sequences compare element-wise across list and vector, sets and
  maps compare ignoring order, numbers only within their own type, NaN equals NaN,
  metadata does not participate.

  `eqvF` is written with the same recursion fuel as the C code's depth cap (so that the
  model's `equalF` can be compared with it literally); `Eqv` supplies enough fuel for the
  left operand's nesting depth, which makes it a property of the two values alone.
-/
import Edn.Model.Equal

namespace Edn.Spec
open Edn.Model

/-- structural equality without the cached-hash short circuit -/
def eqvF (cfg : Cfg) : Nat → Val → Val → Bool
  | 0, _, _ => false
  | f + 1, a, b =>
    match a, b with
    | .nil _, .nil _ => true
    | .bool _ x, .bool _ y => x == y
    | .int _ x, .int _ y => x == y
    | .bigint _ n r d, .bigint _ n' r' d' =>
      r == r' && n == n' && cleanDigits cfg d == cleanDigits cfg d'
    | .float _ x, .float _ y => floatEq x y
    | .bigdec _ n t, .bigdec _ n' t' => n == n' && cleanDigits cfg t == cleanDigits cfg t'
    | .ratio _ n d, .ratio _ n' d' => n == n' && d == d'
    | .bigratio _ g n d, .bigratio _ g' n' d' => g == g' && n == n' && d == d'
    | .char _ x, .char _ y => x == y
    | .str _ d e, .str _ d' e' => stringContent cfg d e == stringContent cfg d' e'
    | .sym _ _ ns nm, .sym _ _ ns' nm' => (ns.getD []) == (ns'.getD []) && nm == nm'
    | .kw _ ns nm, .kw _ ns' nm' => (ns.getD []) == (ns'.getD []) && nm == nm'
    | .list _ _ xs, .list _ _ ys | .list _ _ xs, .vec _ _ ys
    | .vec _ _ xs, .list _ _ ys | .vec _ _ xs, .vec _ _ ys =>
      xs.length == ys.length && allZip (eqvF cfg f) xs ys
    | .set _ _ xs, .set _ _ ys =>
      xs.length == ys.length && xs.all fun x => ys.any fun y => eqvF cfg f x y
    | .map _ _ ks vs, .map _ _ ks' vs' =>
      ks.length == ks'.length &&
        allZip (fun k v => match findKey (eqvF cfg f) k ks' vs' with
                           | some v' => eqvF cfg f v v'
                           | none => false) ks vs
    | .tagged _ _ t v, .tagged _ _ t' v' => t == t' && eqvF cfg f v v'
    | .ext _ t d, .ext _ t' d' => t == t' && d == d'
    | _, _ => false

mutual
/-- nesting depth as the equality recursion sees it (metadata is not visited) -/
def depth : Val → Nat
  | .list _ _ xs | .vec _ _ xs | .set _ _ xs => depthL xs + 1
  | .map _ _ ks vs => max (depthL ks) (depthL vs) + 1
  | .tagged _ _ _ v => depth v + 1
  | _ => 0
def depthL : List Val → Nat
  | [] => 0
  | x :: xs => max (depth x) (depthL xs)
end

/-- structural equality of two values -/
def Eqv (cfg : Cfg) (a b : Val) : Prop := eqvF cfg (depth a + 1) a b = true

instance (cfg : Cfg) (a b : Val) : Decidable (Eqv cfg a b) := by unfold Eqv; infer_instance

mutual
/-- every cache cell is empty -/
def noCache : Val → Bool
  | .list h _ xs | .vec h _ xs | .set h _ xs => h.hc == 0 && noCacheL xs
  | .map h _ ks vs => h.hc == 0 && noCacheL ks && noCacheL vs
  | .tagged h _ _ v => h.hc == 0 && noCache v
  | v => v.hdr.hc == 0
def noCacheL : List Val → Bool
  | [] => true
  | x :: xs => noCache x && noCacheL xs
end

mutual
/-- every cache cell is empty or holds the value's hash (what `edn_value_hash` stores) -/
def cacheOK (cfg : Cfg) : Val → Bool
  | v@(.list h _ xs) | v@(.vec h _ xs) | v@(.set h _ xs) =>
    (h.hc == 0 || h.hc == cacheOf (hashV cfg v)) && cacheOKL cfg xs
  | v@(.map h _ ks vs) => (h.hc == 0 || h.hc == cacheOf (hashV cfg v)) && cacheOKL cfg ks && cacheOKL cfg vs
  | v@(.tagged h _ _ x) => (h.hc == 0 || h.hc == cacheOf (hashV cfg v)) && cacheOK cfg x
  | v => v.hdr.hc == 0 || v.hdr.hc == cacheOf (hashV cfg v)
def cacheOKL (cfg : Cfg) : List Val → Bool
  | [] => true
  | x :: xs => cacheOK cfg x && cacheOKL cfg xs
end

/-- no two elements of the list are structurally equal -/
def pairwiseDistinct (cfg : Cfg) (xs : List Val) : Prop :=
  xs.Pairwise fun x y => ¬ Eqv cfg x y ∧ ¬ Eqv cfg y x

mutual
/-- well-formed: sets and map key lists are duplicate-free, hereditarily -/
def WF (cfg : Cfg) : Val → Prop
  | .list _ _ xs | .vec _ _ xs => WFL cfg xs
  | .set _ _ xs => pairwiseDistinct cfg xs ∧ WFL cfg xs
  | .map _ _ ks vs => pairwiseDistinct cfg ks ∧ ks.length = vs.length ∧ WFL cfg ks ∧ WFL cfg vs
  | .tagged _ _ _ v => WF cfg v
  | _ => True
def WFL (cfg : Cfg) : List Val → Prop
  | [] => True
  | x :: xs => WF cfg x ∧ WFL cfg xs
end

mutual
/-- the value with every cache cell emptied (metadata included) -/
def eraseCache : Val → Val
  | .list h md xs => .list { h with hc := 0 } (eraseCacheO md) (eraseCacheL xs)
  | .vec h md xs => .vec { h with hc := 0 } (eraseCacheO md) (eraseCacheL xs)
  | .set h md xs => .set { h with hc := 0 } (eraseCacheO md) (eraseCacheL xs)
  | .map h md ks vs => .map { h with hc := 0 } (eraseCacheO md) (eraseCacheL ks) (eraseCacheL vs)
  | .tagged h md t v => .tagged { h with hc := 0 } (eraseCacheO md) t (eraseCache v)
  | .sym h md ns nm => .sym { h with hc := 0 } (eraseCacheO md) ns nm
  | v => v.setHdr { v.hdr with hc := 0 }
def eraseCacheL : List Val → List Val
  | [] => []
  | x :: xs => eraseCache x :: eraseCacheL xs
def eraseCacheO : Option Val → Option Val
  | none => none
  | some m => some (eraseCache m)
end

mutual
/-- every string in the value is decodable with the core escape set (or has no escapes) -/
def coreStrings : Val → Bool
  | .str _ d e => (stringContent Cfg.core d e).1
  | .list _ _ xs | .vec _ _ xs | .set _ _ xs => coreStringsL xs
  | .map _ _ ks vs => coreStringsL ks && coreStringsL vs
  | .tagged _ _ _ v => coreStrings v
  | _ => true
def coreStringsL : List Val → Bool
  | [] => true
  | x :: xs => coreStrings x && coreStringsL xs
end

end Edn.Spec
