def hello := "world"
