/-
  Edn.Proofs.AllocLedger — nothing leaks, nothing is freed twice (properties C15 / C16, ledger
  part), for the allocation-aware reader of Edn.Model.ReaderA under EVERY fault oracle (every single
  failure, every failure from some request on, every other schedule):

  * `reader_live_preserved`: each of the six reader functions returns with exactly the list of
    live raw heap blocks it was called with, and leaves the two arenas alone;
  * `trace_wellformed`: each of them extends a well-formed event trace to a well-formed one
    (`Sync`: the trace checker of AllocLedgerAux1 accepts the trace and arrives at the ledger of
    the allocation state);
  * `reader_value_needs_arena`: a value is returned only while the parser's arena exists;
  * `readA_ledger` (`edn_read_with_options`): at return no raw block is live, the temporary arena
    is gone, the trace is well formed, and the parser's arena is alive exactly when a value is
    returned (it is then owned by the value) and destroyed — or was never created — otherwise;
  * `materialiseA_ledger`: the accessors called afterwards make requests on the arena only, at
    most one, and return NULL for a string or big number only when that request was refused.
-/
import Edn.Proofs.AllocLedgerAux7

namespace Edn.Proofs.AllocLedger
open Edn.Model Edn.Proofs.AllocBasic
open Edn.Generated

/-! ## The six reader functions -/

/-- Each reader function returns with the same live raw blocks it was called with — the heap copy
    of a long float literal, the line records and the pointer array of a text block, the scratch
    copy and the hash table of the duplicate check are freed on every path, also when a later
    request fails — and leaves the life states of both arenas unchanged. -/
theorem reader_live_preserved (x : ACtx) (f : Nat) :
    (∀ d dm st a, let a' := (readValueA x f d dm st a).2
      a'.live = a.live ∧ a'.arena = a.arena ∧ a'.tmp = a.tmp) ∧
    (∀ d dm kind start st a b acc, let a' := (readSeqA x f d dm kind start st a b acc).2
      a'.live = a.live ∧ a'.arena = a.arena ∧ a'.tmp = a.tmp) ∧
    (∀ d dm start ns st a b ks vs, let a' := (readMapA x f d dm start ns st a b ks vs).2
      a'.live = a.live ∧ a'.arena = a.arena ∧ a'.tmp = a.tmp) ∧
    (∀ d dm start st a, let a' := (readNsMapA x f d dm start st a).2
      a'.live = a.live ∧ a'.arena = a.arena ∧ a'.tmp = a.tmp) ∧
    (∀ d dm start st a, let a' := (readTaggedA x f d dm start st a).2
      a'.live = a.live ∧ a'.arena = a.arena ∧ a'.tmp = a.tmp) ∧
    (∀ d dm start st a, let a' := (readMetaA x f d dm start st a).2
      a'.live = a.live ∧ a'.arena = a.arena ∧ a'.tmp = a.tmp) := by
  obtain ⟨hV, hS, hM, hN, hT, hMe⟩ := reader_rg x f
  refine ⟨fun d dm st a => ?_, fun d dm kind start st a b acc => ?_, fun d dm start ns st a b ks vs => ?_,
    fun d dm start st a => ?_, fun d dm start st a => ?_, fun d dm start st a => ?_⟩
  · have g := (hV d dm st a).1; exact ⟨g.live, g.arena, g.tmp⟩
  · have g := (hS d dm kind start st a b acc).1; exact ⟨g.live, g.arena, g.tmp⟩
  · have g := (hM d dm start ns st a b ks vs).1; exact ⟨g.live, g.arena, g.tmp⟩
  · have g := (hN d dm start st a).1; exact ⟨g.live, g.arena, g.tmp⟩
  · have g := (hT d dm start st a).1; exact ⟨g.live, g.arena, g.tmp⟩
  · have g := (hMe d dm start st a).1; exact ⟨g.live, g.arena, g.tmp⟩

/-- Each reader function extends a well-formed trace to a well-formed trace: when the checker has
    accepted the trace so far and holds the ledger of the allocation state (`Sync a`), it accepts
    the longer trace and holds the ledger of the new state.  In particular no block is freed that
    is not live (never twice, never one that was not obtained) and `realloc` is only applied to a
    live block.  (The hypothesis cannot be weakened to `TraceOK a.trace.reverse`: a state whose
    fields contradict its trace — e.g. `{ arena := .alive }` with an empty trace — is extended by a
    granted arena request, which the checker rejects; see `sync_needed`.) -/
theorem trace_wellformed (x : ACtx) (f : Nat) :
    (∀ d dm st a, Sync a → Sync (readValueA x f d dm st a).2) ∧
    (∀ d dm kind start st a b acc, Sync a → Sync (readSeqA x f d dm kind start st a b acc).2) ∧
    (∀ d dm start ns st a b ks vs, Sync a → Sync (readMapA x f d dm start ns st a b ks vs).2) ∧
    (∀ d dm start st a, Sync a → Sync (readNsMapA x f d dm start st a).2) ∧
    (∀ d dm start st a, Sync a → Sync (readTaggedA x f d dm start st a).2) ∧
    (∀ d dm start st a, Sync a → Sync (readMetaA x f d dm start st a).2) := by
  obtain ⟨hV, hS, hM, hN, hT, hMe⟩ := reader_rg x f
  exact ⟨fun d dm st a => (hV d dm st a).1.sync, fun d dm kind start st a b acc => (hS d dm kind start st a b acc).1.sync,
    fun d dm start ns st a b ks vs => (hM d dm start ns st a b ks vs).1.sync, fun d dm start st a => (hN d dm start st a).1.sync,
    fun d dm start st a => (hT d dm start st a).1.sync, fun d dm start st a => (hMe d dm start st a).1.sync⟩

/-- the form asked for: the trace after the call is well formed -/
theorem readValueA_traceOK (x : ACtx) (f d : Nat) (dm : Bool) (st : St) (a : ASt) (h : Sync a) :
    TraceOK (readValueA x f d dm st a).2.trace.reverse :=
  ((trace_wellformed x f).1 d dm st a h).traceOK

/-- The hypothesis `Sync a` of `trace_wellformed` cannot be replaced by `TraceOK a.trace.reverse`:
    the state `{ arena := .alive }` has the (well-formed) empty trace, which does not create any
    arena; reading `x` in it yields a granted arena request, and the trace `a` is rejected. -/
theorem sync_needed :
    let a : ASt := { arena := .alive }
    let x : ACtx := { ctx := { cfg := Cfg.core, opts := {} }, orc := fun _ => false }
    TraceOK a.trace.reverse ∧ ¬ TraceOK (readValueA x 4 0 false { rest := [0x78] } a).2.trace.reverse := by
  decide +kernel

/-- a value is returned only while the parser's arena exists (without it every request on it
    fails, and every value needs one) -/
theorem reader_value_needs_arena (x : ACtx) (f d : Nat) (dm : Bool) (st : St) (a : ASt) (v : Val) (st' : St)
    (h : (readValueA x f d dm st a).1 = .ok v st') : a.arena = .alive :=
  ((reader_rg x f).1 d dm st a).2 v st' h

/-! ## `edn_read_with_options` -/

/-- was the parser's arena created?  (`edn_arena_create` makes requests 1 and 2.) -/
def arenaCreated (orc : Nat → Bool) : Bool := !orc 1 && !orc 2

/-- Top level.  After `edn_read_with_options` under any oracle:
    * no raw heap block is live;
    * the temporary arena of the error-position code never existed or has been destroyed;
    * the whole trace is well formed (and the checker's ledger is the final allocation state);
    * a value is returned only when the parser's arena was created, and then that arena is alive
      (owned by the value: `edn_free` of the root releases it) — every value of the model, `nil`,
      `true` and `false` included, is allocated in it, as in the C code of this tree, where no
      singleton values exist;
    * with the caller's end-of-input value or an error the arena has been destroyed, or was never
      created;
    * (`fuelOut`, the model's artefact that E1b-sim's `readA_fault` excludes, leaves the arena as
      it was created.) -/
theorem readA_ledger (cfg : Cfg) (opts : Opts) (orc : Nat → Bool) (input : Bytes)
    (grow : Nat → Nat) (handlerReq : String → Bool) (sortTouch : Nat → List Nat) :
    let r := readA cfg opts orc input grow handlerReq sortTouch
    r.ast.live = [] ∧ (r.ast.tmp = .none ∨ r.ast.tmp = .destroyed) ∧ Sync r.ast ∧
    (match r.out with
     | .value _ => arenaCreated orc = true ∧ r.ast.arena = .alive
     | .eofValue => r.ast.arena = (if arenaCreated orc then .destroyed else .none)
     | .error _ _ _ => r.ast.arena = (if arenaCreated orc then .destroyed else .none)
     | .fuelOut => r.ast.arena = (if arenaCreated orc then .alive else .none)) := by
  intro r
  obtain ⟨s0, l0, t0, ar0, ok0⟩ := arenaCreate_spec orc false {} sync_init rfl
  simp only [Bool.false_eq_true, ↓reduceIte] at t0 ar0
  have hr : r = readA cfg opts orc input grow handlerReq sortTouch := rfl
  unfold readA at hr
  rcases hq0 : ({} : ASt).arenaCreate orc false with ⟨okC, a0⟩
  rw [hq0] at s0 l0 t0 ar0 ok0 hr
  have l0 : a0.live = [] := l0
  have t0 : a0.tmp = .none := t0
  have ok0 : okC = arenaCreated orc := ok0
  have ar0 : a0.arena = if arenaCreated orc then .alive else .none := ok0 ▸ ar0
  dsimp only at hr
  obtain ⟨x, hx⟩ : ∃ x : ACtx, x = ⟨⟨cfg, opts⟩, orc, grow, handlerReq, sortTouch⟩ := ⟨_, rfl⟩
  have hxo : x.orc = orc := by rw [hx]
  rw [← hx] at hr
  have h1 := (reader_rg x (readFuel input)).1 0 false { rest := input } a0
  rcases hq : readValueA x (readFuel input) 0 false { rest := input } a0 with ⟨res, a⟩
  rw [hq] at h1 hr
  have g := h1.1
  have sa : Sync a := g.sync s0
  have la : a.live = [] := g.live.trans l0
  have ta : a.tmp = .none := g.tmp.trans t0
  have ara : a.arena = if arenaCreated orc then .alive else .none := g.arena.trans ar0
  cases res with
  | ok v st =>
    rw [hr]
    refine ⟨la, Or.inl ta, sa, ?_⟩
    have hal := h1.2 v st rfl
    have : arenaCreated orc = true := by
      cases hc : arenaCreated orc
      · rw [ar0, hc] at hal; cases hal
      · rfl
    exact ⟨this, by rw [ara, this]; rfl⟩
  | closer st =>
    rw [hr]
    exact ⟨la, Or.inl ta, sa, ara⟩
  | err e st =>
    dsimp only at hr
    by_cases hfo : e.fuelOut = true
    · rw [if_pos hfo] at hr
      rw [hr]
      exact ⟨la, Or.inl ta, sa, ara⟩
    · rw [if_neg hfo] at hr
      obtain ⟨s1, l1, ar1, t1⟩ := lineIndexA_spec x.orc input a sa ta
      rw [hxo] at s1 l1 ar1 t1
      rcases hq1 : lineIndexA orc input a with ⟨haveIdx, a1⟩
      rw [hq1] at s1 l1 ar1 t1 hr
      dsimp only at hr
      -- the end of edn_read_with_options: the parser's arena is released when it exists
      have key : ∀ a2, a2 = (if a1.arena == .alive then a1.arenaDestroy false else a1) →
          a2.live = [] ∧ (a2.tmp = .none ∨ a2.tmp = .destroyed) ∧ Sync a2 ∧
          a2.arena = (if arenaCreated orc then .destroyed else .none) := by
        intro a2 h2
        have ar1' : a1.arena = if arenaCreated orc then .alive else .none := ar1.trans ara
        cases hc : arenaCreated orc
        · have ar1'' : a1.arena = .none := by rw [ar1', hc]; rfl
          have e2 : a2 = a1 := by rw [h2, ar1'']; rfl
          rw [e2]
          exact ⟨l1.trans la, t1, s1, ar1''⟩
        · have ar1'' : a1.arena = .alive := by rw [ar1', hc]; rfl
          have e2 : a2 = a1.arenaDestroy false := by rw [h2, ar1'']; rfl
          rw [e2]
          obtain ⟨s2, l2, ar2, t2⟩ := arenaDestroy_parser a1 s1 ar1''
          exact ⟨l2.trans (l1.trans la), by rw [t2]; exact t1, s2, ar2⟩
      have key := key _ rfl
      generalize (if a1.arena == .alive then a1.arenaDestroy false else a1) = a2 at key hr
      obtain ⟨l2, t2, s2, ar2⟩ := key
      split at hr
      · rw [hr]; exact ⟨l2, t2, s2, ar2⟩
      · split at hr
        · rw [hr]; exact ⟨l2, t2, s2, ar2⟩
        · rw [hr]; exact ⟨l2, t2, s2, ar2⟩

/-! ## Lazily materialised payloads -/

/-- what `edn_string_get` / `edn_bigint_get` / `edn_bigdec_get` return when memory is not an issue -/
def accessPure (cfg : Cfg) : Val → Option Bytes
  | .str _ data esc => stringGet cfg data esc
  | .bigint _ _ _ d => some (if cfg.exp && d.contains 0x5F then cleanDigits cfg d else d)
  | .bigdec _ _ d => some (if cfg.exp && d.contains 0x5F then cleanDigits cfg d else d)
  | _ => none

theorem cleanA_spec (x : ACtx) (h : Hdr) (d : Bytes) (a : ASt) :
    ((cleanA x h d a).2.reqs = a.reqs ∨ (cleanA x h d a).2.reqs = a.reqs + 1) ∧
    ((cleanA x h d a).1 = some (if x.ctx.cfg.exp && d.contains 0x5F then cleanDigits x.ctx.cfg d else d) ∨
     ((cleanA x h d a).1 = none ∧ (a.request x.orc .arena).1 = false ∧ (cleanA x h d a).2 = (a.request x.orc .arena).2)) := by
  unfold cleanA
  cases hc : (x.ctx.cfg.exp && d.contains 0x5F)
  · exact ⟨Or.inl rfl, Or.inl rfl⟩
  · by_cases hb : a.bufs.contains h.s = true
    · rw [if_neg (by simp), if_pos hb]
      exact ⟨Or.inl rfl, Or.inl rfl⟩
    · rw [if_neg (by simp), if_neg hb]
      rcases hq : a.request x.orc .arena with ⟨ok, a1⟩
      have hreq : a1.reqs = a.reqs + 1 := by
        have : (a.request x.orc .arena).2.reqs = a.reqs + 1 := rfl
        rwa [hq] at this
      cases ok
      · exact ⟨Or.inr hreq, Or.inr ⟨rfl, rfl, rfl⟩⟩
      · exact ⟨Or.inr hreq, Or.inl rfl⟩

/-- An accessor call after the read (any value, any state, any oracle):
    * it makes no raw request and frees nothing: the live raw blocks, both arenas and the
      well-formedness of the trace are kept (`Good`);
    * it makes at most one request, on the parser's arena;
    * it returns what the accessor returns when memory is not an issue (`accessPure`: for a string
      literal with an escape the build does not define that is NULL, too) — or NULL, and then the
      one request it made was refused.  The refused call changes nothing but the request counter
      and the trace, so it can be repeated. -/
theorem materialiseA_ledger (x : ACtx) (v : Val) (a : ASt) :
    Good a (materialiseA x v a).2 ∧
    ((materialiseA x v a).2.reqs = a.reqs ∨ (materialiseA x v a).2.reqs = a.reqs + 1) ∧
    ((materialiseA x v a).1 = accessPure x.ctx.cfg v ∨
     ((materialiseA x v a).1 = none ∧ (a.request x.orc .arena).1 = false ∧
      (materialiseA x v a).2 = (a.request x.orc .arena).2)) := by
  have hg := request_good x.orc a 0
  cases v
  case str h data esc =>
    cases esc
    · have hm : materialiseA x (.str h data false) a =
          if a.bufs.contains h.s then (some data, a)
          else match a.request x.orc .arena with
            | (ok, a1) => if !ok then (none, a1) else (some data, { a1 with bufs := h.s :: a1.bufs }) := by
        unfold materialiseA; rfl
      have hp : accessPure x.ctx.cfg (.str h data false) = some data := rfl
      rw [hm, hp]
      split
      · exact ⟨Good.refl a, Or.inl rfl, Or.inl rfl⟩
      · rcases hq : a.request x.orc .arena with ⟨ok, a1⟩
        rw [hq] at hg
        have hreq : a1.reqs = a.reqs + 1 := by
          have : (a.request x.orc .arena).2.reqs = a.reqs + 1 := rfl
          rwa [hq] at this
        cases ok
        · exact ⟨hg, Or.inr hreq, Or.inr ⟨rfl, rfl, rfl⟩⟩
        · exact ⟨Good.trans hg (bufs_good _ _), Or.inr hreq, Or.inl rfl⟩
    · have hm : materialiseA x (.str h data true) a =
          if a.bufs.contains h.s then (decodeString x.ctx.cfg (data.length + 1) data, a)
          else match a.request x.orc .arena with
            | (ok, a1) => if !ok then (none, a1) else
              match decodeString x.ctx.cfg (data.length + 1) data with
              | some d => (some d, { a1 with bufs := h.s :: a1.bufs })
              | none => (none, a1) := by
        unfold materialiseA strContentA stringContent
        dsimp only
        simp only [Bool.not_true, Bool.false_eq_true, ↓reduceIte]
        split
        · cases decodeString x.ctx.cfg (data.length + 1) data <;> rfl
        · rcases a.request x.orc .arena with ⟨ok, a1⟩
          cases ok
          · rfl
          · dsimp only
            cases decodeString x.ctx.cfg (data.length + 1) data <;> rfl
      have hp : accessPure x.ctx.cfg (.str h data true) = decodeString x.ctx.cfg (data.length + 1) data := rfl
      rw [hm, hp]
      split
      · exact ⟨Good.refl a, Or.inl rfl, Or.inl rfl⟩
      · rcases hq : a.request x.orc .arena with ⟨ok, a1⟩
        rw [hq] at hg
        have hreq : a1.reqs = a.reqs + 1 := by
          have : (a.request x.orc .arena).2.reqs = a.reqs + 1 := rfl
          rwa [hq] at this
        cases ok
        · exact ⟨hg, Or.inr hreq, Or.inr ⟨rfl, rfl, rfl⟩⟩
        · dsimp only
          cases decodeString x.ctx.cfg (data.length + 1) data with
          | none => exact ⟨hg, Or.inr hreq, Or.inl rfl⟩
          | some dd => exact ⟨Good.trans hg (bufs_good _ _), Or.inr hreq, Or.inl rfl⟩
  case bigint h neg radix d =>
    have hm : materialiseA x (.bigint h neg radix d) a = cleanA x h d a := by unfold materialiseA; rfl
    rw [hm]
    exact ⟨cleanA_good x h d a, (cleanA_spec x h d a).1, (cleanA_spec x h d a).2⟩
  case bigdec h neg d =>
    have hm : materialiseA x (.bigdec h neg d) a = cleanA x h d a := by unfold materialiseA; rfl
    rw [hm]
    exact ⟨cleanA_good x h d a, (cleanA_spec x h d a).1, (cleanA_spec x h d a).2⟩
  all_goals exact ⟨Good.refl a, Or.inl rfl, Or.inl rfl⟩

end Edn.Proofs.AllocLedger
