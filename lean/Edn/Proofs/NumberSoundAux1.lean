/-
  Edn.Proofs.NumberSoundAux1 — inversion lemmas for `readNumber` in the core configuration:
  an `.ok` answer forces the consumed bytes to have the shape
  `digits [. digits] [e [sign] digits] [N | M]`.
-/
import Edn.Spec.NumberLit
import Edn.Proofs.NumberReader

namespace Edn.Proofs.NSnd
open Edn.Model Edn.Spec Edn.Proofs Edn.Proofs.CNum

/-! ## small facts -/

theorem core_clj : Cfg.core.clj = false := rfl
theorem core_exp : Cfg.core.exp = false := rfl

theorem peek_cons (c : UInt8) (t : Bytes) : peek (c :: t) = c := rfl
theorem adv_cons (c : UInt8) (t : Bytes) : adv (c :: t) = t := rfl
theorem peek_nil : peek ([] : Bytes) = 0 := rfl

theorem of_peek {X : Bytes} {c : UInt8} (h : peek X = c) (hc : c ≠ 0) : ∃ t, X = c :: t := by
  cases X with
  | nil => exact absurd (show c = 0 from h.symm) hc
  | cons d t =>
    have : d = c := h
    exact ⟨t, by rw [this]⟩

theorem termStart_of_numDelimOk {s : Bytes} (h : numDelimOk s = true) : TermStart s := by
  cases s with
  | nil => exact Or.inl rfl
  | cons c t => exact Or.inr ⟨c, t, rfl, h⟩

theorem finishNum_ok {v v' : NumVal} {s rest : Bytes} (h : finishNum v s = .ok v' rest) :
    v' = v ∧ rest = s ∧ TermStart s := by
  unfold finishNum at h
  by_cases hd : numDelimOk s = true
  · rw [if_pos hd] at h
    injection h with h1 h2
    exact ⟨h1.symm, h2.symm, termStart_of_numDelimOk hd⟩
  · rw [if_neg hd] at h
    exact NumOut.noConfusion h

/-- maximal digit prefix -/
theorem span_digits (s : Bytes) :
    ∃ ds T, s = ds ++ T ∧ (∀ c ∈ ds, is09 c = true) ∧ is09 (peek T) = false := by
  induction s with
  | nil => exact ⟨[], [], rfl, by simp, by decide⟩
  | cons c t ih =>
    by_cases hc : is09 c = true
    · obtain ⟨ds, T, rfl, hd, hT⟩ := ih
      refine ⟨c :: ds, T, rfl, ?_, hT⟩
      intro x hx
      rcases List.mem_cons.mp hx with rfl | hx
      · exact hc
      · exact hd x hx
    · refine ⟨[], c :: t, rfl, by simp, ?_⟩
      show is09 c = false
      simpa using hc

theorem span_digits_ne {s : Bytes} (hs : is09 (peek s) = true) :
    ∃ ds T, s = ds ++ T ∧ ds ≠ [] ∧ (∀ c ∈ ds, is09 c = true) ∧ is09 (peek T) = false := by
  obtain ⟨ds, T, rfl, hd, hT⟩ := span_digits s
  refine ⟨ds, T, rfl, ?_, hd, hT⟩
  rintro rfl
  rw [List.nil_append, hT] at hs
  exact Bool.noConfusion hs

theorem decLoop_core (T : Bytes) (hT : is09 (peek T) = false) :
    ∀ (ds : Bytes) (f : Nat), (∀ c ∈ ds, is09 c = true) → ds.length + 1 ≤ f →
      decDigitsLoop false f (ds ++ T) = .ok T := by
  intro ds
  induction ds with
  | nil =>
    intro f _ hf
    obtain ⟨f, rfl⟩ : ∃ f', f = f' + 1 := ⟨f - 1, by simp at hf; omega⟩
    simp only [List.nil_append]
    unfold decDigitsLoop
    simp only [hT, Bool.false_eq_true, ↓reduceIte, Bool.false_and]
    split <;> rfl
  | cons d ds ih =>
    intro f hd hf
    obtain ⟨f, rfl⟩ : ∃ f', f = f' + 1 := ⟨f - 1, by simp at hf; omega⟩
    have hd1 : is09 d = true := hd d (by simp)
    have hp := is09_props hd1
    unfold decDigitsLoop
    have hpk : peek (d :: ds ++ T) = d := rfl
    have hadv : adv (d :: ds ++ T) = ds ++ T := rfl
    simp only [hpk, hadv, hd1, hp.2.1, ↓reduceIte]
    have : (d != 0) = true := by simpa using hp.1
    simp only [this, Bool.not_false, Bool.and_self, ↓reduceIte]
    exact ih f (fun c hc => hd c (by simp [hc])) (by simp at hf ⊢; omega)

theorem fracDigits_core (T : Bytes) (hT : is09 (peek T) = false) (ds : Bytes)
    (hd : ∀ c ∈ ds, is09 c = true) : fracDigits false (ds ++ T) = T := by
  unfold fracDigits
  induction ds with
  | nil =>
    cases T with
    | nil => rfl
    | cons c t =>
      have e1 : is09 c = false := hT
      simp [e1]
  | cons d ds ih =>
    have hd1 : is09 d = true := hd d (by simp)
    simp only [List.cons_append, List.dropWhile_cons, hd1, Bool.true_or, ↓reduceIte]
    exact ih (fun c hc => hd c (by simp [hc]))

/-! ## the integer part -/

theorem numBody_zero_digit (s0 : Bytes) (neg : Bool) (d : UInt8) (t : Bytes) (hd : is09 d = true) :
    numBody Cfg.core s0 neg (0x30 :: d :: t) = .err (d :: t) := by
  unfold numBody
  simp only [core_clj, Bool.false_and, Bool.false_eq_true, ↓reduceIte, peek_cons, adv_cons, BEq.rfl, hd]

theorem intOrBig_zero (neg : Bool) : intOrBig Cfg.core [0x30] 10 neg = .int 0 := by
  cases neg <;> rfl

theorem numBody_zero_core (s0 : Bytes) (neg : Bool) (X : Bytes) (hX : is09 (peek X) = false) :
    numBody Cfg.core s0 neg (0x30 :: X) =
      (if peek X == 0x2E then decimalPart Cfg.core s0 neg (0x30 :: X) X
       else afterMantissa Cfg.core s0 neg false (0x30 :: X) X) := by
  have hsl : slice (0x30 :: X) X = [0x30] := slice_append [0x30] X
  unfold numBody
  simp only [core_clj, Bool.false_and, Bool.false_eq_true, ↓reduceIte, peek_cons, adv_cons, BEq.rfl, hX]
  by_cases h1 : (peek X == 0x2E) = true
  · simp only [h1, ↓reduceIte]
  · simp only [h1, Bool.false_eq_true, ↓reduceIte]
    unfold afterMantissa
    by_cases h2 : (peek X == 0x65 || peek X == 0x45) = true
    · have h3 : (peek X == 0x4E) = false ∧ (peek X == 0x4D) = false := by
        simp only [Bool.or_eq_true, beq_iff_eq] at h2
        rcases h2 with h2 | h2 <;> rw [h2] <;> decide
      simp only [h2, h3.1, h3.2, core_exp, Bool.false_and, Bool.false_eq_true, ↓reduceIte]
    · simp only [h2, Bool.false_eq_true, ↓reduceIte]
      unfold decimalTail
      simp only [core_exp, core_clj, Bool.false_and, Bool.false_eq_true, ↓reduceIte, hsl,
        Bool.not_false, Bool.and_true, Bool.or_self, intOrBig_zero]

theorem numBody_nonzero_core (s0 : Bytes) (neg : Bool) (d : UInt8) (ds X : Bytes)
    (hd : ∀ c ∈ d :: ds, is09 c = true) (hnz : d ≠ 0x30) (hX : is09 (peek X) = false) :
    numBody Cfg.core s0 neg (d :: ds ++ X) =
      (if peek X == 0x2E then decimalPart Cfg.core s0 neg (d :: ds ++ X) X
       else afterMantissa Cfg.core s0 neg false (d :: ds ++ X) X) := by
  have hloop := decLoop_core X hX (d :: ds) ((d :: ds ++ X).length + 1) hd (by simp)
  have hpk : peek (d :: ds ++ X) = d := rfl
  have hd0 : (d == 0x30) = false := by simpa using hnz
  unfold numBody
  simp only [core_clj, core_exp, Bool.false_and, hpk, hd0, hloop, Bool.false_eq_true, ↓reduceIte]

/-- the integer part: an accepted number starts with a core decimal integer -/
theorem numBody_ip_inv (s0 : Bytes) (neg : Bool) (ip X : Bytes) (v : NumVal) (rest : Bytes)
    (hne : ip ≠ []) (hall : ∀ c ∈ ip, is09 c = true) (hX : is09 (peek X) = false)
    (h : numBody Cfg.core s0 neg (ip ++ X) = .ok v rest) :
    DecDigits ip ∧
      (if peek X == 0x2E then decimalPart Cfg.core s0 neg (ip ++ X) X
       else afterMantissa Cfg.core s0 neg false (ip ++ X) X) = .ok v rest := by
  have hrange : ∀ c ∈ ip, 0x30 ≤ c ∧ c ≤ 0x39 := by
    intro c hc
    have := hall c hc
    simpa [is09] using this
  cases ip with
  | nil => exact absurd rfl hne
  | cons d t =>
    by_cases hd0 : d = 0x30
    · subst hd0
      cases t with
      | nil =>
        refine ⟨⟨by simp, hrange, by simp⟩, ?_⟩
        have h' : numBody Cfg.core s0 neg (0x30 :: X) = .ok v rest := h
        rw [numBody_zero_core s0 neg X hX] at h'
        exact h'
      | cons e t' =>
        have he : is09 e = true := hall e (by simp)
        rw [List.cons_append, List.cons_append, numBody_zero_digit s0 neg e _ he] at h
        exact NumOut.noConfusion h
    · refine ⟨⟨by simp, hrange, ?_⟩, ?_⟩
      · intro _ hh
        simp only [List.head?_cons, Option.some.injEq] at hh
        exact hd0 hh
      · rw [← numBody_nonzero_core s0 neg d t X hall hd0 hX]
        exact h

/-! ## fraction and exponent -/

theorem decimalPart_inv (start : Bytes) (neg : Bool) (dS X : Bytes) (hp : peek X = 0x2E) :
    ∃ fd Z, X = 0x2E :: (fd ++ Z) ∧ AllDigits fd ∧ is09 (peek Z) = false ∧
      decimalPart Cfg.core start neg dS X = afterMantissa Cfg.core start neg true dS Z := by
  obtain ⟨Y, rfl⟩ := of_peek hp (by decide)
  obtain ⟨fd, Z, rfl, hfd, hZ⟩ := span_digits Y
  refine ⟨fd, Z, rfl, hfd, hZ, ?_⟩
  unfold decimalPart
  simp only [core_exp, Bool.false_and, Bool.false_eq_true, ↓reduceIte, adv_cons,
    fracDigits_core Z hZ fd hfd]

theorem exponentPart_eq (start : Bytes) (neg hasDec : Bool) (dS : Bytes) (e : UInt8) (Z1 Z2 : Bytes)
    (hZ2 : (if peek Z1 == 0x2B || peek Z1 == 0x2D then adv Z1 else Z1) = Z2) :
    exponentPart Cfg.core start neg hasDec dS (e :: Z1) =
      if !is09 (peek Z2) then .err Z2
      else decimalTail Cfg.core start neg hasDec true dS (fracDigits false Z2) := by
  subst hZ2
  rfl

theorem exponentPart_inv (start : Bytes) (neg hasDec : Bool) (dS : Bytes) (e : UInt8) (Z1 : Bytes)
    (v : NumVal) (rest : Bytes)
    (h : exponentPart Cfg.core start neg hasDec dS (e :: Z1) = .ok v rest) :
    ∃ es ed T, Z1 = es ++ ed ++ T ∧ (es = [] ∨ es = [0x2B] ∨ es = [0x2D]) ∧ ed ≠ [] ∧ AllDigits ed ∧
      is09 (peek T) = false ∧ decimalTail Cfg.core start neg hasDec true dS T = .ok v rest := by
  -- the optional sign
  have hsplit : ∃ es Z2, Z1 = es ++ Z2 ∧ (es = [] ∨ es = [0x2B] ∨ es = [0x2D]) ∧
      (if peek Z1 == 0x2B || peek Z1 == 0x2D then adv Z1 else Z1) = Z2 := by
    by_cases hs : (peek Z1 == 0x2B || peek Z1 == 0x2D) = true
    · simp only [hs, ↓reduceIte]
      simp only [Bool.or_eq_true, beq_iff_eq] at hs
      rcases hs with hs | hs
      · obtain ⟨t, rfl⟩ := of_peek hs (by decide)
        exact ⟨[0x2B], t, rfl, Or.inr (Or.inl rfl), rfl⟩
      · obtain ⟨t, rfl⟩ := of_peek hs (by decide)
        exact ⟨[0x2D], t, rfl, Or.inr (Or.inr rfl), rfl⟩
    · simp only [hs, Bool.false_eq_true, ↓reduceIte]
      exact ⟨[], Z1, rfl, Or.inl rfl, rfl⟩
  obtain ⟨es, Z2, hZ1, hes, hZ2⟩ := hsplit
  rw [exponentPart_eq start neg hasDec dS e Z1 Z2 hZ2] at h
  by_cases hd : is09 (peek Z2) = true
  · obtain ⟨ed, T, rfl, hne, hed, hT⟩ := span_digits_ne hd
    simp only [hd, Bool.not_true, Bool.false_eq_true, ↓reduceIte, fracDigits_core T hT ed hed] at h
    exact ⟨es, ed, T, by rw [hZ1, List.append_assoc], hes, hne, hed, hT, h⟩
  · simp only [hd, Bool.not_false, ↓reduceIte] at h
    exact NumOut.noConfusion h

theorem afterMantissa_inv (start : Bytes) (neg hasDec : Bool) (dS Z : Bytes) (v : NumVal) (rest : Bytes)
    (h : afterMantissa Cfg.core start neg hasDec dS Z = .ok v rest) :
    ∃ ex T, Z = ex ++ T ∧ ExpPart ex ∧
      decimalTail Cfg.core start neg hasDec (!ex.isEmpty) dS T = .ok v rest := by
  unfold afterMantissa at h
  by_cases he : (peek Z == 0x65 || peek Z == 0x45) = true
  · simp only [he, ↓reduceIte, core_exp, Bool.false_and, Bool.false_eq_true] at h
    have hz : ∃ e Z1, Z = e :: Z1 ∧ (e = 0x65 ∨ e = 0x45) := by
      simp only [Bool.or_eq_true, beq_iff_eq] at he
      rcases he with he | he
      · obtain ⟨t, rfl⟩ := of_peek he (by decide)
        exact ⟨_, t, rfl, Or.inl rfl⟩
      · obtain ⟨t, rfl⟩ := of_peek he (by decide)
        exact ⟨_, t, rfl, Or.inr rfl⟩
    obtain ⟨e, Z1, rfl, hee⟩ := hz
    obtain ⟨es, ed, T, rfl, hes, hne, hed, -, ht⟩ := exponentPart_inv start neg hasDec dS e Z1 v rest h
    refine ⟨e :: (es ++ ed), T, by simp, Or.inr ⟨e, es, ed, rfl, hee, hes, hne, hed⟩, ?_⟩
    simpa using ht
  · simp only [he, Bool.false_eq_true, ↓reduceIte] at h
    exact ⟨[], Z, rfl, Or.inl rfl, by simpa using h⟩

/-! ## the suffix -/

theorem decimalTail_inv (start : Bytes) (neg hd he : Bool) (dS T : Bytes) (v : NumVal) (rest : Bytes)
    (h : decimalTail Cfg.core start neg hd he dS T = .ok v rest) :
    (hd = false ∧ he = false ∧ T = 0x4E :: rest ∧ v = .bigint neg 10 (slice dS T) ∧ TermStart rest) ∨
    (T = 0x4D :: rest ∧ v = .bigdec neg (slice dS T) ∧ TermStart rest) ∨
    ((hd || he) = true ∧ rest = T ∧ v = .float (parseDouble Cfg.core (slice start T)) ∧ TermStart rest) ∨
    (hd = false ∧ he = false ∧ rest = T ∧ v = intOrBig Cfg.core (slice dS T) 10 neg ∧ TermStart rest) := by
  unfold decimalTail at h
  simp only [core_exp, core_clj, Bool.false_and, Bool.false_eq_true, ↓reduceIte] at h
  by_cases hN : (peek T == 0x4E && !hd && !he) = true
  · rw [if_pos hN] at h
    simp only [Bool.and_eq_true, beq_iff_eq, Bool.not_eq_true'] at hN
    obtain ⟨t, rfl⟩ := of_peek hN.1.1 (by decide)
    obtain ⟨rfl, rfl, ht⟩ := finishNum_ok h
    exact Or.inl ⟨hN.1.2, hN.2, rfl, rfl, ht⟩
  · rw [if_neg hN] at h
    by_cases hM : (peek T == 0x4D) = true
    · rw [if_pos hM] at h
      simp only [beq_iff_eq] at hM
      obtain ⟨t, rfl⟩ := of_peek hM (by decide)
      obtain ⟨rfl, rfl, ht⟩ := finishNum_ok h
      exact Or.inr (Or.inl ⟨rfl, rfl, ht⟩)
    · rw [if_neg hM] at h
      by_cases hf : (hd || he) = true
      · rw [if_pos hf] at h
        obtain ⟨rfl, rfl, ht⟩ := finishNum_ok h
        exact Or.inr (Or.inr (Or.inl ⟨hf, rfl, rfl, ht⟩))
      · rw [if_neg hf] at h
        obtain ⟨rfl, rfl, ht⟩ := finishNum_ok h
        simp only [Bool.or_eq_true, not_or, Bool.not_eq_true] at hf
        exact Or.inr (Or.inr (Or.inr ⟨hf.1, hf.2, rfl, rfl, ht⟩))

/-! ## the whole body -/

theorem numBody_core_inv (s0 : Bytes) (neg : Bool) (body : Bytes) (v : NumVal) (rest : Bytes)
    (hb : is09 (peek body) = true) (h : numBody Cfg.core s0 neg body = .ok v rest) :
    ∃ ip fr ex T, body = ip ++ (fr ++ (ex ++ T)) ∧ DecDigits ip ∧ FracPart fr ∧ ExpPart ex ∧
      decimalTail Cfg.core s0 neg (!fr.isEmpty) (!ex.isEmpty) body T = .ok v rest := by
  obtain ⟨ip, X, rfl, hne, hall, hX⟩ := span_digits_ne hb
  obtain ⟨hip, h1⟩ := numBody_ip_inv s0 neg ip X v rest hne hall hX h
  by_cases hp : (peek X == 0x2E) = true
  · rw [if_pos hp] at h1
    simp only [beq_iff_eq] at hp
    obtain ⟨fd, Z, rfl, hfd, -, e⟩ := decimalPart_inv s0 neg (ip ++ X) X hp
    rw [e] at h1
    obtain ⟨ex, T, rfl, hex, h2⟩ := afterMantissa_inv s0 neg true _ Z v rest h1
    exact ⟨ip, 0x2E :: fd, ex, T, by simp, hip, Or.inr ⟨fd, rfl, hfd⟩, hex, by simpa using h2⟩
  · rw [if_neg hp] at h1
    obtain ⟨ex, T, rfl, hex, h2⟩ := afterMantissa_inv s0 neg false _ X v rest h1
    exact ⟨ip, [], ex, T, by simp, hip, Or.inl rfl, hex, by simpa using h2⟩

end Edn.Proofs.NSnd
