/-
  Edn.Proofs.ScanTb — C12 for the sixth vector scanner: the text-block line reader with its
  block pre-scans (`tbLineSimd`, following `simd_scan_line_content` and the indentation loop
  of `edn_parse_text_block_line`) equals the byte-at-a-time `tbLine`, for every input.

  Shape of the argument: `tbSkipBlocks` returns a suffix of its input, and the bytes before
  it are all rejected by the lane test (`tbSkipBlocks_spec`); over a byte rejected by the lane
  test the scalar loop `tbContent` only moves that byte into the content, leaving the escape
  flag alone (`tbContent_plain`, from the lane lemma `tbLane_spec` checked on all 256 bytes);
  so the scalar loop started after the pre-scan with the skipped bytes as content is the scalar
  loop started at the beginning (`tbContent_skip`).
-/
import Edn.Model.ScanTb
import Edn.Proofs.Scan

namespace Edn.Proofs
open Edn.Model

/-! ### the lane predicates -/

/-- the lane test accepts exactly line feed, double quote and backslash -/
def tbLaneIff (c : UInt8) : Bool := tbLane c == (c == 0x0A || c == 0x22 || c == 0x5C)
theorem tbLane_eq : ∀ c, tbLaneIff c = true := forall_u8_bool _ (by decide +kernel)

theorem tbLane_spec (c : UInt8) : tbLane c = (c == 0x0A || c == 0x22 || c == 0x5C) := by
  have := tbLane_eq c; simpa [tbLaneIff] using this

theorem tbLane_false {c : UInt8} (h : tbLane c = false) : c ≠ 0x0A ∧ c ≠ 0x22 ∧ c ≠ 0x5C := by
  rw [tbLane_spec] at h
  simp only [Bool.or_eq_false_iff, beq_eq_false_iff_ne, ne_eq] at h
  exact ⟨h.1.1, h.1.2, h.2⟩

/-! ### the scalar loop over bytes the lane test rejects -/

/-- one step of the scalar loop on a byte that is no line feed, quote or backslash -/
theorem tbContent_plain (f : Nat) (acc : Bytes) (esc : Bool) (c : UInt8) (r : Bytes)
    (h : tbLane c = false) : tbContent (f + 1) acc esc (c :: r) = tbContent f (c :: acc) esc r := by
  obtain ⟨h1, h2, h3⟩ := tbLane_false h
  conv => lhs; unfold tbContent
  split
  · exact absurd rfl h3
  · exact absurd rfl h2
  · exact absurd rfl h1
  · rfl

/-- a run of such bytes: all of them go to the content, the flag is untouched, and the loop
    spends exactly one unit of fuel on each -/
theorem tbContent_skip (f : Nat) (esc : Bool) (r : Bytes) : ∀ (pre acc : Bytes),
    pre.all (fun c => !tbLane c) = true →
    tbContent (f + pre.length) acc esc (pre ++ r) = tbContent f (pre.reverse ++ acc) esc r := by
  intro pre
  induction pre with
  | nil => intro acc _; rfl
  | cons c cs ih =>
    intro acc h
    simp only [List.all_cons, Bool.and_eq_true, Bool.not_eq_eq_eq_not, Bool.not_true] at h
    rw [List.length_cons, ← Nat.add_assoc, List.cons_append, tbContent_plain _ _ _ _ _ h.1, ih _ h.2]
    simp

/-! ### the block pre-scan of the content -/

/-- `simd_scan_line_content` returns a suffix of its input and skips only bytes the lane test
    rejects (any fuel) -/
theorem tbSkipBlocks_spec : ∀ (f : Nat) (s : Bytes),
    ∃ pre, s = pre ++ tbSkipBlocks f s ∧ pre.all (fun c => !tbLane c) = true := by
  intro f
  induction f with
  | zero => intro s; exact ⟨[], rfl, rfl⟩
  | succ f ih =>
    intro s
    unfold tbSkipBlocks
    cases hb : block16 s with
    | none => exact ⟨[], rfl, rfl⟩
    | some blk =>
      obtain ⟨rfl, -⟩ := block16_some hb
      simp only []
      cases hi : (s.take 16).findIdx? tbLane with
      | some i =>
        obtain ⟨pre, d, r, hs, hl, ha, -⟩ := take_findIdx_some s 16 i hi
        refine ⟨pre, ?_, ha⟩
        simp only []
        rw [hs, ← hl, drop_length_append]
      | none =>
        have ha := take_findIdx_none 16 s hi
        obtain ⟨pre, hp, hpa⟩ := ih (s.drop 16)
        refine ⟨s.take 16 ++ pre, ?_, ?_⟩
        · simp only []
          rw [List.append_assoc, ← hp, List.take_append_drop]
        · rw [List.all_append, ha, hpa]; rfl

/-- with the fuel the reader gives it the pre-scan stops only where the C loop stops: fewer
    than 16 bytes remain, or the byte it stands on is a special lane -/
theorem tbSkipBlocks_stop : ∀ (f : Nat) (s : Bytes), s.length < f →
    (tbSkipBlocks f s).length < 16 ∨ ∃ d t, tbSkipBlocks f s = d :: t ∧ tbLane d = true := by
  intro f
  induction f with
  | zero => intro s h; omega
  | succ f ih =>
    intro s hf
    unfold tbSkipBlocks
    cases hb : block16 s with
    | none => exact .inl (block16_none hb)
    | some blk =>
      obtain ⟨rfl, hlen⟩ := block16_some hb
      simp only []
      cases hi : (s.take 16).findIdx? tbLane with
      | some i =>
        obtain ⟨pre, d, r, hs, hl, -, hd⟩ := take_findIdx_some s 16 i hi
        refine .inr ⟨d, r, ?_, hd⟩
        simp only []
        rw [hs, ← hl, drop_length_append]
      | none =>
        simp only []
        exact ih (s.drop 16) (by rw [List.length_drop]; omega)

/-- the content reader with the block pre-scan = the scalar content reader -/
theorem tbContentSimd_eq (body : Bytes) :
    tbContentSimd body = tbContent (body.length + 1) [] false body := by
  unfold tbContentSimd
  obtain ⟨pre, hp, ha⟩ := tbSkipBlocks_spec (body.length + 1) body
  generalize tbSkipBlocks (body.length + 1) body = rest at hp
  subst hp
  simp only [List.length_append, Nat.add_sub_cancel, List.take_left']
  have := tbContent_skip (rest.length + 1) false rest pre [] ha
  rw [List.append_nil] at this
  rw [← this]
  congr 1
  omega

/-! ### the block pre-scan of the indentation -/

/-- the indentation block loop returns a suffix of its input and skips only blanks -/
theorem tbSkipBlankBlocks_spec : ∀ (f : Nat) (s : Bytes),
    ∃ pre, s = pre ++ tbSkipBlankBlocks f s ∧ pre.all isBlank = true := by
  intro f
  induction f with
  | zero => intro s; exact ⟨[], rfl, rfl⟩
  | succ f ih =>
    intro s
    unfold tbSkipBlankBlocks
    cases hb : block16 s with
    | none => exact ⟨[], rfl, rfl⟩
    | some blk =>
      obtain ⟨rfl, -⟩ := block16_some hb
      simp only []
      by_cases hall : (s.take 16).all isBlank = true
      · rw [if_pos hall]
        obtain ⟨pre, hp, hpa⟩ := ih (s.drop 16)
        refine ⟨s.take 16 ++ pre, ?_, ?_⟩
        · rw [List.append_assoc, ← hp, List.take_append_drop]
        · rw [List.all_append, hall, hpa]; rfl
      · rw [if_neg hall]
        cases hi : (s.take 16).findIdx? (fun c => !isBlank c) with
        | none => exact ⟨[], rfl, rfl⟩
        | some i =>
          obtain ⟨pre, d, r, hs, hl, ha, -⟩ := take_findIdx_some s 16 i hi
          refine ⟨pre, ?_, ?_⟩
          · simp only []
            rw [hs, ← hl, drop_length_append]
          · simpa using ha

/-- in a block that is not all blank the first non-blank lane exists: the `none` branch of
    `tbSkipBlankBlocks` (kept only to make the definition total) is never taken -/
theorem tbSkipBlankBlocks_lane (blk : Bytes) (h : ¬ blk.all isBlank = true) :
    ∃ i, blk.findIdx? (fun c => !isBlank c) = some i := by
  cases hi : blk.findIdx? (fun c => !isBlank c) with
  | some i => exact ⟨i, rfl⟩
  | none =>
    exfalso; apply h
    rw [List.findIdx?_eq_none_iff] at hi
    simp only [List.all_eq_true]
    intro c hc
    simpa using hi c hc

theorem take_length_sub_dropWhile (q : UInt8 → Bool) (s : Bytes) :
    s.take (s.length - (s.dropWhile q).length) = s.takeWhile q := by
  have h := List.takeWhile_append_dropWhile (p := q) (l := s)
  have hl : s.length = (s.takeWhile q).length + (s.dropWhile q).length := by
    rw [← List.length_append, h]
  rw [hl, Nat.add_sub_cancel]
  conv => lhs; arg 2; rw [← h]
  exact List.take_left' rfl

/-! ### the line reader -/

/-- C12, text-block lines: the reader with both vector pre-scans equals the byte-at-a-time
    reader, for every input (every indentation, line length and position of the special bytes) -/
theorem tbLineSimd_eq (s : Bytes) : tbLineSimd s = tbLine s := by
  unfold tbLineSimd tbLine
  obtain ⟨pre, hp, ha⟩ := tbSkipBlankBlocks_spec (s.length + 1) s
  have hbody : (tbSkipBlankBlocks (s.length + 1) s).dropWhile isBlank = s.dropWhile isBlank := by
    conv => rhs; rw [hp]
    exact (dropWhile_append_all pre _ ha).symm
  simp only [hbody, tbContentSimd_eq, take_length_sub_dropWhile]
  cases tbContent ((s.dropWhile isBlank).length + 1) [] false (s.dropWhile isBlank) <;> rfl

end Edn.Proofs
