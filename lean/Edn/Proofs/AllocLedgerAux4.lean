/-
  Edn.Proofs.AllocLedgerAux4 — the text-block reader keeps the ledger: the line-pointer array
  (`malloc`, doubled by `realloc`) and the line records (`malloc` each) are live on top of the
  caller's blocks while the lines are read (`TbSt`) and are all freed before the reader returns, on
  every path: end of input, a malformed line, a refused `realloc` (the old array is freed), a
  refused line record, a refused text or value.
-/
import Edn.Proofs.AllocLedgerAux3

namespace Edn.Proofs.AllocLedger
open Edn.Model Edn.Proofs.AllocBasic

/-- while the lines of a text block are read: the live raw blocks are the caller's (`L0`) and, on
    top of them, the pointer array and the line records of the buffer (in some order) -/
def TbSt (L0 : List Nat) (buf : TbBuf) (a : ASt) : Prop :=
  ∃ P, a.live = P ++ L0 ∧ P.Perm (buf.arr :: buf.ids)

theorem TbSt.good {L0 : List Nat} {buf : TbBuf} {a a' : ASt} (h : TbSt L0 buf a) (g : Good a a') :
    TbSt L0 buf a' := by
  obtain ⟨P, hl, hp⟩ := h
  exact ⟨P, g.live.trans hl, hp⟩

/-- freeing, in any order, exactly the blocks that lie on top of the caller's -/
theorem freeAll_spec (L0 : List Nat) (Q P : List Nat) (a : ASt) (hl : a.live = P ++ L0) (hp : P.Perm Q) :
    Via a (a.freeAll Q) ∧ (a.freeAll Q).live = L0 := by
  induction Q generalizing P a with
  | nil =>
    have : P = [] := List.Perm.eq_nil hp
    subst this
    exact ⟨Via.refl a, hl⟩
  | cons q Q ih =>
    have hq : q ∈ P := hp.mem_iff.mpr List.mem_cons_self
    have hmem : q ∈ a.live := by rw [hl]; exact List.mem_append_left _ hq
    obtain ⟨v1, l1⟩ := free_via q a hmem
    have hl' : (a.free q).live = P.erase q ++ L0 := by
      rw [l1, hl, List.erase_append_left _ hq]
    have hp' : (P.erase q).Perm Q := by
      have := hp.erase q
      rwa [List.erase_cons_head] at this
    obtain ⟨v2, l2⟩ := ih (P.erase q) (a.free q) hl' hp'
    exact ⟨Via.trans v1 v2, l2⟩

/-- the clean-up of `edn_parse_text_block` gives back exactly the caller's blocks -/
theorem release_spec (L0 : List Nat) (buf : TbBuf) (a : ASt) (h : TbSt L0 buf a) :
    Via a (buf.release a) ∧ (buf.release a).live = L0 := by
  obtain ⟨P, hl, hp⟩ := h
  have e : buf.release a = a.freeAll (buf.ids.reverse ++ [buf.arr]) := by
    unfold TbBuf.release ASt.freeAll
    rw [List.foldl_append]
    rfl
  rw [e]
  refine freeAll_spec L0 _ P a hl (hp.trans ?_)
  have h1 : (buf.arr :: buf.ids).Perm (buf.ids ++ [buf.arr]) := List.perm_append_singleton _ _ |>.symm
  exact h1.trans (List.Perm.append_right _ (List.reverse_perm _).symm)

/-- one more line record -/
theorem TbSt.rawAlloc {L0 : List Nat} {buf : TbBuf} {a a2 : ASt} (orc : Nat → Bool) (i : Nat) (h : TbSt L0 buf a)
    (hq : a.rawAlloc orc .malloc = (some i, a2)) :
    Via a a2 ∧ TbSt L0 { buf with ids := i :: buf.ids } a2 := by
  obtain ⟨P, hl, hp⟩ := h
  obtain ⟨v, l, _⟩ := rawAlloc_via orc .malloc (Or.inl rfl) a
  rw [hq] at v l
  refine ⟨v, i :: P, ?_, ?_⟩
  · rw [l i rfl, hl]; rfl
  · exact (List.Perm.cons i hp).trans (List.Perm.swap _ _ _)

/-- doubling the pointer array: granted, the new array replaces the old one; refused, the old one
    is still there -/
theorem TbSt.grow {L0 : List Nat} {buf : TbBuf} {a : ASt} (x : ACtx) (n : Nat) (h : TbSt L0 buf a) :
    Via a (buf.grow x n a).2 ∧ TbSt L0 ((buf.grow x n a).1.getD buf) (buf.grow x n a).2 := by
  unfold TbBuf.grow
  split
  · obtain ⟨P, hl, hp⟩ := h
    have harr : buf.arr ∈ P := hp.mem_iff.mpr List.mem_cons_self
    have hmem : buf.arr ∈ a.live := by rw [hl]; exact List.mem_append_left _ harr
    obtain ⟨v, ls, ln⟩ := realloc_via x.orc buf.arr a hmem
    rcases hq : a.realloc x.orc buf.arr with ⟨o, a1⟩
    rw [hq] at v ls ln
    cases o with
    | none => exact ⟨v, P, (ln rfl).trans hl, hp⟩
    | some arr' =>
      refine ⟨v, arr' :: P.erase buf.arr, ?_, ?_⟩
      · show a1.live = _
        rw [ls arr' rfl, hl, List.erase_append_left _ harr]; rfl
      · show (arr' :: P.erase buf.arr).Perm (arr' :: buf.ids)
        have := hp.erase buf.arr
        rw [List.erase_cons_head] at this
        exact List.Perm.cons _ this
  · exact ⟨Via.refl a, h⟩

/-- the line loop: either the lines with the buffer still held, or an error with everything
    released -/
theorem tbLinesA_spec (x : ACtx) (start : Nat) (L0 : List Nat) (f : Nat) (s : Bytes) (acc : List TbLine)
    (buf : TbBuf) (a : ASt) (h : TbSt L0 buf a) :
    Via a (tbLinesA x start f s acc buf a).2 ∧
    (match (tbLinesA x start f s acc buf a).1 with
     | .lines _ _ buf' => TbSt L0 buf' (tbLinesA x start f s acc buf a).2
     | .fail _ _ => (tbLinesA x start f s acc buf a).2.live = L0) := by
  induction f generalizing s acc buf a with
  | zero => unfold tbLinesA; exact release_spec L0 buf a h
  | succ f ih =>
    unfold tbLinesA
    split
    · exact release_spec L0 buf a h
    · obtain ⟨vg, hg⟩ := h.grow x acc.length
      rcases hq : buf.grow x acc.length a with ⟨ob, a1⟩
      rw [hq] at vg hg
      cases ob with
      | none =>
        obtain ⟨vr, lr⟩ := release_spec L0 buf a1 hg
        exact ⟨Via.trans vg vr, lr⟩
      | some buf1 =>
        have hg : TbSt L0 buf1 a1 := hg
        dsimp only
        split
        · obtain ⟨vr, lr⟩ := release_spec L0 buf1 a1 hg
          exact ⟨Via.trans vg vr, lr⟩
        · next ln rest _ =>
          rcases hq2 : a1.rawAlloc x.orc .malloc with ⟨o, a2⟩
          cases o with
          | none =>
            have g2 := rawAlloc_none_good x.orc .malloc (Or.inl rfl) a1 a2 hq2
            obtain ⟨vr, lr⟩ := release_spec L0 buf1 a2 (hg.good g2)
            exact ⟨Via.trans vg (Via.trans g2.toVia vr), lr⟩
          | some i =>
            obtain ⟨v2, h2⟩ := hg.rawAlloc x.orc i hq2
            dsimp only
            split
            · exact ⟨Via.trans vg v2, h2⟩
            · obtain ⟨v3, h3⟩ := ih rest (ln :: acc) _ a2 h2
              exact ⟨Via.trans vg (Via.trans v2 v3), h3⟩

theorem readTextBlockA_rg (x : ACtx) (st : St) (a : ASt) : RG a (readTextBlockA x st a) := by
  unfold readTextBlockA
  dsimp only
  rcases hq0 : a.rawAlloc x.orc .malloc with ⟨o, a1⟩
  cases o with
  | none => exact RG.err (rawAlloc_none_good x.orc .malloc (Or.inl rfl) a a1 hq0) _ _
  | some arr =>
    dsimp only
    obtain ⟨v0, l0, _⟩ := rawAlloc_via x.orc .malloc (Or.inl rfl) a
    rw [hq0] at v0 l0
    have h0 : TbSt a.live { arr := arr } a1 := ⟨[arr], l0 arr rfl, List.Perm.refl _⟩
    obtain ⟨v1, h1⟩ := tbLinesA_spec x (x.ctx.pos st.rest) a.live ((st.rest.drop 4).length + 2) (st.rest.drop 4) []
      { arr := arr } a1 h0
    rcases hq1 : tbLinesA x (x.ctx.pos st.rest) ((st.rest.drop 4).length + 2) (st.rest.drop 4) [] { arr := arr } a1 with ⟨out, a2⟩
    rw [hq1] at v1 h1
    cases out with
    | fail e rest => exact RG.err ⟨Via.trans v0 v1, h1⟩ _ _
    | lines ls rest buf =>
      have h1 : TbSt a.live buf a2 := h1
      dsimp only
      have g2 := request_good x.orc a2 0
      rcases hq2 : a2.request x.orc .arena with ⟨okT, a3⟩
      rw [hq2] at g2
      obtain ⟨vr, lr⟩ := release_spec a.live buf a3 (h1.good g2)
      have v03 : Via a (buf.release a3) := Via.trans v0 (Via.trans v1 (Via.trans g2.toVia vr))
      dsimp only
      cases okT
      · exact RG.err ⟨v03, lr⟩ _ _
      · have g3 := request_good x.orc (buf.release a3) 0
        have hal := request_arena_alive x.orc (buf.release a3) 0
        rcases hq3 : (buf.release a3).request x.orc .arena with ⟨okV, a5⟩
        rw [hq3] at g3 hal
        have g05 : Good a a5 := ⟨Via.trans v03 g3.toVia, g3.live.trans lr⟩
        cases okV
        · exact RG.err g05 _ _
        · exact ⟨Good.trans g05 (bufs_good _ _), fun _ _ _ => v03.arena ▸ hal rfl⟩

theorem readStringA_rg (x : ACtx) (st : St) (a : ASt) : RG a (readStringA x st a) := by
  unfold readStringA
  split
  · exact readTextBlockA_rg x st a
  · cases readString x.ctx st with
    | ok v st' =>
      dsimp only
      have h := RG.ok (Good.refl a) x.orc (a1 := a)
      have g := request_good x.orc a 0
      rcases hq : a.request x.orc .arena with ⟨ok, a1⟩
      rw [hq] at h g
      cases ok
      · exact RG.err g _ _
      · exact h rfl v st'
    | closer st' => exact RG.closer (Good.refl a) _
    | err e st' => exact RG.err (Good.refl a) _ _

end Edn.Proofs.AllocLedger
