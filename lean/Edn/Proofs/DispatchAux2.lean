/-
  Edn.Proofs.DispatchAux2 — registry dispatch (C14): equations of the declarative dispatch
  (`dispatchV`, `seqR`, `interleave2`), the accumulator steps, cache erasure against headers and
  the duplicate check, and the shape of the collection `readSeq` / `readMap` return in terms
  of their accumulators.
-/
import Edn.Proofs.DispatchAux1
import Edn.Spec.Dispatch
namespace Edn.Proofs
open Edn.Model Edn.Spec Edn.Generated

section
variable (cfg : Cfg) (reg : Bytes → Option Handler) (mode : Nat)

theorem dispatchV_list_err {h : Hdr} {md : Option Val} {xs : List Val} {c : List Call} {e : DErr}
    (hx : seqR (dispatchEach cfg reg mode xs) = (c, .error e)) : dispatchV cfg reg mode (.list h md xs) = (c, .error e) := by
  rw [dispatchV, hx]
theorem dispatchV_list_ok {h : Hdr} {md : Option Val} {xs xs' : List Val} {c : List Call}
    (hx : seqR (dispatchEach cfg reg mode xs) = (c, .ok xs')) :
    dispatchV cfg reg mode (.list h md xs) = (c, .ok (.list h md xs')) := by
  rw [dispatchV, hx]
theorem dispatchV_vec_err {h : Hdr} {md : Option Val} {xs : List Val} {c : List Call} {e : DErr}
    (hx : seqR (dispatchEach cfg reg mode xs) = (c, .error e)) : dispatchV cfg reg mode (.vec h md xs) = (c, .error e) := by
  rw [dispatchV, hx]
theorem dispatchV_vec_ok {h : Hdr} {md : Option Val} {xs xs' : List Val} {c : List Call}
    (hx : seqR (dispatchEach cfg reg mode xs) = (c, .ok xs')) :
    dispatchV cfg reg mode (.vec h md xs) = (c, .ok (.vec h md xs')) := by
  rw [dispatchV, hx]
theorem dispatchV_set_err {h : Hdr} {md : Option Val} {xs : List Val} {c : List Call} {e : DErr}
    (hx : seqR (dispatchEach cfg reg mode xs) = (c, .error e)) : dispatchV cfg reg mode (.set h md xs) = (c, .error e) := by
  rw [dispatchV, hx]
theorem dispatchV_set_ok {h : Hdr} {md : Option Val} {xs xs' : List Val} {c : List Call}
    (hx : seqR (dispatchEach cfg reg mode xs) = (c, .ok xs')) :
    dispatchV cfg reg mode (.set h md xs) =
      if (hasDuplicates cfg xs').1 then (c, .error (.duplicateElement, h.s, h.e))
      else (c, .ok (.set h md (hasDuplicates cfg xs').2)) := by
  rw [dispatchV, hx]
theorem dispatchV_map_err {h : Hdr} {md : Option Val} {ks vs : List Val} {c : List Call} {e : DErr}
    (hx : seqR (interleave2 (dispatchEach cfg reg mode ks) (dispatchEach cfg reg mode vs)) = (c, .error e)) : dispatchV cfg reg mode (.map h md ks vs) = (c, .error e) := by
  rw [dispatchV, hx]
theorem dispatchV_map_ok {h : Hdr} {md : Option Val} {ks vs zs : List Val} {c : List Call}
    (hx : seqR (interleave2 (dispatchEach cfg reg mode ks) (dispatchEach cfg reg mode vs)) = (c, .ok zs)) :
    dispatchV cfg reg mode (.map h md ks vs) =
      if (hasDuplicates cfg (uninterleave zs).1).1 then (c, .error (.duplicateKey, h.s, h.e))
      else (c, .ok (.map h md (hasDuplicates cfg (uninterleave zs).1).2 (uninterleave zs).2)) := by
  rw [dispatchV, hx]

theorem dispatchV_tagged_err {h : Hdr} {md : Option Val} {tag : Bytes} {v : Val} {c : List Call} {e : DErr}
    (hx : dispatchV cfg reg mode v = (c, .error e)) :
    dispatchV cfg reg mode (.tagged h md tag v) = (c, .error e) := by
  rw [dispatchV, hx]
theorem dispatchV_tagged_ok {h : Hdr} {md : Option Val} {tag : Bytes} {v v' : Val} {c1 : List Call}
    (hx : dispatchV cfg reg mode v = (c1, .ok v')) :
    dispatchV cfg reg mode (.tagged h md tag v) =
      match reg tag with
      | some hd =>
        match hd.run v' with
        | none => (c1 ++ [⟨hd.name, v'.hdr.s, v'.hdr.e⟩], .error (.invalidSyntax, h.s, h.e))
        | some r => (c1 ++ [⟨hd.name, v'.hdr.s, v'.hdr.e⟩], .ok (r.setHdr { r.hdr with s := h.s, e := h.e }))
      | none =>
        if mode == 1 then (c1, .ok v')
        else if mode == 2 then (c1, .error (.unknownTag, h.s, h.e))
        else (c1, .ok (.tagged h none tag v')) := by
  rw [dispatchV, hx]
  rfl

theorem dispatchV_leaf (v : Val) (h : leaf v = true) : dispatchV cfg reg mode v = ([], .ok v) := by
  cases v <;> first | exact absurd h Bool.false_ne_true | (rw [dispatchV] <;> intros <;> contradiction)

theorem dispatchEach_cons (x : Val) (xs : List Val) :
  dispatchEach cfg reg mode (x :: xs) = dispatchV cfg reg mode x :: dispatchEach cfg reg mode xs := by
  rw [dispatchEach]
theorem dispatchEach_nil : dispatchEach cfg reg mode [] = [] := by
  rw [dispatchEach]

theorem dispatchEach_append : ∀ (xs ys : List Val),
    dispatchEach cfg reg mode (xs ++ ys) = dispatchEach cfg reg mode xs ++ dispatchEach cfg reg mode ys
  | [], ys => by rw [dispatchEach_nil]; rfl
  | x :: xs, ys => by
    rw [List.cons_append, dispatchEach_cons, dispatchEach_cons, dispatchEach_append xs ys]; rfl

theorem dispatchEach_length : ∀ (xs : List Val), (dispatchEach cfg reg mode xs).length = xs.length
  | [] => by rw [dispatchEach_nil]; rfl
  | x :: xs => by rw [dispatchEach_cons, List.length_cons, List.length_cons, dispatchEach_length xs]

end

/-! ## `seqR` and `interleave2` -/

theorem seqR_cons_ok_ok {c c2 : List Call} {x : Val} {xs : List Val} {rest : List DOne}
    (h : seqR rest = (c2, .ok xs)) : seqR ((c, .ok x) :: rest) = (c ++ c2, .ok (x :: xs)) := by
  rw [seqR, h]
theorem seqR_cons_ok_err {c c2 : List Call} {x : Val} {e : DErr} {rest : List DOne}
    (h : seqR rest = (c2, .error e)) : seqR ((c, .ok x) :: rest) = (c ++ c2, .error e) := by
  rw [seqR, h]
theorem seqR_cons_err (c : List Call) (e : DErr) (rest : List DOne) :
    seqR ((c, .error e) :: rest) = (c, .error e) := by
  rw [seqR]

theorem seqR_cons_ok_inv {c1 c : List Call} {x : Val} {ys : List Val} {l1 : List DOne}
    (h : seqR ((c1, .ok x) :: l1) = (c, .ok ys)) :
    ∃ c2 xs, seqR l1 = (c2, .ok xs) ∧ c = c1 ++ c2 ∧ ys = x :: xs := by
  rcases h1 : seqR l1 with ⟨c2, e | xs⟩
  · rw [seqR_cons_ok_err h1] at h; cases h
  · rw [seqR_cons_ok_ok h1] at h; cases h; exact ⟨_, _, rfl, rfl, rfl⟩

theorem seqR_append_ok_ok : ∀ (l1 l2 : List DOne) (c c2 : List Call) (ys zs : List Val),
    seqR l1 = (c, .ok ys) → seqR l2 = (c2, .ok zs) → seqR (l1 ++ l2) = (c ++ c2, .ok (ys ++ zs))
  | [], l2, c, c2, ys, zs, h, h2 => by
    rw [seqR] at h; cases h; exact h2
  | (c1, .error e) :: l1, l2, c, c2, ys, zs, h, h2 => by rw [seqR_cons_err] at h; cases h
  | (c1, .ok x) :: l1, l2, c, c2, ys, zs, h, h2 => by
    obtain ⟨c3, xs, h1, rfl, rfl⟩ := seqR_cons_ok_inv h
    rw [List.cons_append, seqR_cons_ok_ok (seqR_append_ok_ok l1 l2 c3 c2 xs zs h1 h2), List.append_assoc]
    rfl

theorem seqR_append_ok_err : ∀ (l1 l2 : List DOne) (c c2 : List Call) (ys : List Val) (e : DErr),
    seqR l1 = (c, .ok ys) → seqR l2 = (c2, .error e) → seqR (l1 ++ l2) = (c ++ c2, .error e)
  | [], l2, c, c2, ys, e, h, h2 => by
    rw [seqR] at h; cases h; exact h2
  | (c1, .error e') :: l1, l2, c, c2, ys, e, h, h2 => by rw [seqR_cons_err] at h; cases h
  | (c1, .ok x) :: l1, l2, c, c2, ys, e, h, h2 => by
    obtain ⟨c3, xs, h1, rfl, rfl⟩ := seqR_cons_ok_inv h
    rw [List.cons_append, seqR_cons_ok_err (seqR_append_ok_err l1 l2 c3 c2 xs e h1 h2), List.append_assoc]

theorem interleave2_append {α : Type} : ∀ (a1 b1 a2 b2 : List α), a1.length = b1.length →
    interleave2 (a1 ++ a2) (b1 ++ b2) = interleave2 a1 b1 ++ interleave2 a2 b2
  | [], [], a2, b2, _ => by simp [interleave2]
  | [], _ :: _, _, _, h => by simp at h
  | _ :: _, [], _, _, h => by simp at h
  | x :: a1, y :: b1, a2, b2, h => by
    have h' : a1.length = b1.length := by simpa using h
    show interleave2 (x :: (a1 ++ a2)) (y :: (b1 ++ b2)) = _
    rw [interleave2, interleave2, interleave2_append a1 b1 a2 b2 h']
    rfl

theorem uninterleave_interleave2 {α : Type} : ∀ (a b : List α), a.length = b.length →
    uninterleave (interleave2 a b) = (a, b)
  | [], [], _ => by simp [interleave2, uninterleave]
  | [], _ :: _, h => by simp at h
  | _ :: _, [], h => by simp at h
  | x :: a, y :: b, h => by
    have h' : a.length = b.length := by simpa using h
    rw [interleave2, uninterleave, uninterleave_interleave2 a b h']


/-! ## the accumulator steps -/

section
variable (cfg : Cfg) (reg : Bytes → Option Handler) (mode : Nat)

theorem dispL_snoc_ok {xs ys : List Val} {x y : Val} {c c1 : List Call}
    (h : seqR (dispatchEach cfg reg mode xs) = (c, .ok ys)) (hx : dispatchV cfg reg mode x = (c1, .ok y)) :
    seqR (dispatchEach cfg reg mode (xs ++ [x])) = (c ++ c1, .ok (ys ++ [y])) := by
  rw [dispatchEach_append, dispatchEach_cons, dispatchEach_nil, hx]
  have h1 : seqR [((c1, Except.ok y) : DOne)] = (c1 ++ [], .ok [y]) := seqR_cons_ok_ok (by rw [seqR])
  rw [List.append_nil] at h1
  exact seqR_append_ok_ok _ _ _ _ _ _ h h1

theorem dispL_snoc_err {xs ys : List Val} {x : Val} {c c1 : List Call} {e : DErr} (more : List Val)
    (h : seqR (dispatchEach cfg reg mode xs) = (c, .ok ys)) (hx : dispatchV cfg reg mode x = (c1, .error e)) :
    seqR (dispatchEach cfg reg mode (xs ++ x :: more)) = (c ++ c1, .error e) := by
  rw [dispatchEach_append, dispatchEach_cons, hx]
  exact seqR_append_ok_err _ _ _ _ _ _ h (seqR_cons_err _ _ _)

theorem dispKV_snoc_ok {ks vs ks' vs' : List Val} {k v k' v' : Val} {c c1 c2 : List Call}
    (hl : ks.length = vs.length) (hl' : ks'.length = vs'.length)
    (h : seqR (interleave2 (dispatchEach cfg reg mode ks) (dispatchEach cfg reg mode vs)) = (c, .ok (interleave2 ks' vs')))
    (hk : dispatchV cfg reg mode k = (c1, .ok k')) (hv : dispatchV cfg reg mode v = (c2, .ok v')) :
    seqR (interleave2 (dispatchEach cfg reg mode (ks ++ [k])) (dispatchEach cfg reg mode (vs ++ [v])))
      = (c ++ (c1 ++ c2), .ok (interleave2 (ks' ++ [k']) (vs' ++ [v']))) := by
  rw [dispatchEach_append, dispatchEach_append,
    interleave2_append _ _ _ _ (by rw [dispatchEach_length, dispatchEach_length, hl]),
    interleave2_append _ _ _ _ hl']
  rw [dispatchEach_cons, dispatchEach_cons, dispatchEach_nil, hk, hv]
  have h0 : seqR ([] : List DOne) = ([], .ok []) := by rw [seqR]
  have h1 : seqR [((c2, Except.ok v') : DOne)] = (c2 ++ [], .ok [v']) := seqR_cons_ok_ok h0
  have h2 : seqR [((c1, Except.ok k') : DOne), (c2, Except.ok v')] = (c1 ++ (c2 ++ []), .ok [k', v']) :=
    seqR_cons_ok_ok h1
  rw [List.append_nil] at h2
  exact seqR_append_ok_ok _ _ _ _ _ _ h h2

theorem dispKV_errK {ks vs zs : List Val} {k v : Val} {c c1 : List Call} {e : DErr} (mk mv : List Val)
    (hl : ks.length = vs.length)
    (h : seqR (interleave2 (dispatchEach cfg reg mode ks) (dispatchEach cfg reg mode vs)) = (c, .ok zs))
    (hk : dispatchV cfg reg mode k = (c1, .error e)) :
    seqR (interleave2 (dispatchEach cfg reg mode (ks ++ k :: mk)) (dispatchEach cfg reg mode (vs ++ v :: mv)))
      = (c ++ c1, .error e) := by
  rw [dispatchEach_append, dispatchEach_append,
    interleave2_append _ _ _ _ (by rw [dispatchEach_length, dispatchEach_length, hl])]
  rw [dispatchEach_cons, dispatchEach_cons, hk, interleave2]
  exact seqR_append_ok_err _ _ _ _ _ _ h (seqR_cons_err _ _ _)

theorem dispKV_errV {ks vs zs : List Val} {k v k' : Val} {c c1 c2 : List Call} {e : DErr} (mk mv : List Val)
    (hl : ks.length = vs.length)
    (h : seqR (interleave2 (dispatchEach cfg reg mode ks) (dispatchEach cfg reg mode vs)) = (c, .ok zs))
    (hk : dispatchV cfg reg mode k = (c1, .ok k')) (hv : dispatchV cfg reg mode v = (c2, .error e)) :
    seqR (interleave2 (dispatchEach cfg reg mode (ks ++ k :: mk)) (dispatchEach cfg reg mode (vs ++ v :: mv)))
      = (c ++ (c1 ++ c2), .error e) := by
  rw [dispatchEach_append, dispatchEach_append,
    interleave2_append _ _ _ _ (by rw [dispatchEach_length, dispatchEach_length, hl])]
  rw [dispatchEach_cons, dispatchEach_cons, hk, hv, interleave2]
  exact seqR_append_ok_err _ _ _ _ _ _ h (seqR_cons_ok_err (seqR_cons_err _ _ _))

end

/-! ## cache erasure -/

theorem eraseCache_hdr (v : Val) : (eraseCache v).hdr = { v.hdr with hc := 0 } := by
  cases v <;> rfl

theorem eraseCache_setHdr (v : Val) (h : Hdr) :
    eraseCache (v.setHdr h) = (eraseCache v).setHdr { h with hc := 0 } := by
  cases v <;> rfl

theorem hdr_se_of_erase {a b : Val} (h : eraseCache a = eraseCache b) : a.hdr.s = b.hdr.s ∧ a.hdr.e = b.hdr.e := by
  have h1 := eraseCache_hdr a
  rw [h, eraseCache_hdr] at h1
  have hs := congrArg Hdr.s h1
  have he := congrArg Hdr.e h1
  exact ⟨hs.symm, he.symm⟩

/-- re-ranging two values that differ in cache cells only -/
theorem eraseCache_rerange {a b : Val} (h : eraseCache a = eraseCache b) (s e : Nat) :
    eraseCache (a.setHdr { a.hdr with s := s, e := e }) = eraseCache (b.setHdr { b.hdr with s := s, e := e }) := by
  rw [eraseCache_setHdr, eraseCache_setHdr, h]
  have h1 := eraseCache_hdr a
  rw [h, eraseCache_hdr] at h1
  have hy := congrArg Hdr.synth h1
  have hy' : b.hdr.synth = a.hdr.synth := hy
  rw [hy']

theorem eraseCache_idem_hdr (h : Hdr) (hh : h.hc = 0) : ({ h with hc := 0 } : Hdr) = h := by
  cases h; cases hh; rfl

theorem eraseCacheL_hasDuplicates (cfg : Cfg) (xs : List Val) :
    eraseCacheL (hasDuplicates cfg xs).2 = eraseCacheL xs := by
  unfold hasDuplicates
  split
  · rfl
  · split
    · rfl
    · exact eraseCacheL_map_hashOp cfg xs

theorem Eqv_erase (cfg : Cfg) {a b a' b' : Val} (ha : eraseCache a' = eraseCache a)
    (hb : eraseCache b' = eraseCache b) : Eqv cfg a' b' ↔ Eqv cfg a b := by
  unfold Eqv
  rw [depth_of_eraseCache ha, ← eqvF_erase cfg _ a' b', ha, hb, eqvF_erase]

theorem pairwiseDistinct_erase (cfg : Cfg) : ∀ (xs xs' : List Val),
    eraseCacheL xs' = eraseCacheL xs → (pairwiseDistinct cfg xs' ↔ pairwiseDistinct cfg xs) := by
  have head : ∀ (x x' : Val), eraseCache x' = eraseCache x →
      ∀ (xs xs' : List Val), eraseCacheL xs' = eraseCacheL xs →
      ((∀ y' ∈ xs', ¬ Eqv cfg x' y' ∧ ¬ Eqv cfg y' x') ↔
        (∀ y ∈ xs, ¬ Eqv cfg x y ∧ ¬ Eqv cfg y x)) := by
    intro x x' hx xs
    induction xs with
    | nil =>
      intro xs' he
      cases xs' with
      | nil => exact ⟨fun _ y hy => absurd hy List.not_mem_nil, fun _ y hy => absurd hy List.not_mem_nil⟩
      | cons y' ys' => exact absurd (length_eq_of_eraseCacheL he) (by simp)
    | cons y ys ih =>
      intro xs' he
      cases xs' with
      | nil => exact absurd (length_eq_of_eraseCacheL he) (by simp)
      | cons y' ys' =>
        rw [eraseCacheL_cons, eraseCacheL_cons] at he
        have he' := List.cons.inj he
        rw [List.forall_mem_cons, List.forall_mem_cons, ih ys' he'.2,
          Eqv_erase cfg hx he'.1, Eqv_erase cfg he'.1 hx]
  intro xs
  induction xs with
  | nil =>
    intro xs' he
    cases xs' with
    | nil => exact ⟨fun _ => List.Pairwise.nil, fun _ => List.Pairwise.nil⟩
    | cons y' ys' => exact absurd (length_eq_of_eraseCacheL he) (by simp)
  | cons x xs ih =>
    intro xs' he
    cases xs' with
    | nil => exact absurd (length_eq_of_eraseCacheL he) (by simp)
    | cons x' xs' =>
      rw [eraseCacheL_cons, eraseCacheL_cons] at he
      have he' := List.cons.inj he
      have ih' := ih xs' he'.2
      unfold pairwiseDistinct at ih' ⊢
      rw [List.pairwise_cons, List.pairwise_cons, ih', head x x' he'.1 xs xs' he'.2]

/-- the duplicate check does not depend on cache cells (valid ones) -/
theorem hasDuplicates_erase (cfg : Cfg) (xs xs' : List Val)
    (he : eraseCacheL xs' = eraseCacheL xs) (hE : Elems cfg xs) (hE' : Elems cfg xs') :
    (hasDuplicates cfg xs').1 = (hasDuplicates cfg xs).1 ∧
    eraseCacheL (hasDuplicates cfg xs').2 = eraseCacheL (hasDuplicates cfg xs).2 := by
  refine ⟨?_, by rw [eraseCacheL_hasDuplicates, eraseCacheL_hasDuplicates, he]⟩
  have e1 := (hasDuplicates_iff cfg xs' hE').1
  have e2 := (hasDuplicates_iff cfg xs hE).1
  have e3 := pairwiseDistinct_erase cfg xs xs' he
  have e : (hasDuplicates cfg xs').1 = false ↔ (hasDuplicates cfg xs).1 = false :=
    e1.trans (e3.trans e2.symm)
  cases hx : (hasDuplicates cfg xs').1 <;> cases hy : (hasDuplicates cfg xs).1 <;> simp_all

/-! ## the accumulators are a prefix of the result's elements -/

/-- the value `readSeq` builds at the closing delimiter -/
def mkSeq (cfg : Cfg) (kind : Nat) (h : Hdr) (xs : List Val) : Val :=
  if kind == 0 then .list h none xs
  else if kind == 1 then .vec h none xs
  else .set h none (hasDuplicates cfg xs).2

theorem readSeq_ok_shape (ctx : Ctx) : ∀ (f d : Nat) (dm : Bool) (kind start : Nat) (st : St) (acc : List Val)
    (v : Val) (st' : St), readSeq ctx f d dm kind start st acc = .ok v st' →
    ∃ s e more, v = mkSeq ctx.cfg kind (mkHdr s e) (acc.reverse ++ more) := by
  intro f
  induction f with
  | zero => intro d dm kind start st acc v st' h; rw [readSeq_zero] at h; cases h
  | succ f ih =>
    intro d dm kind start st acc v st' h
    rw [readSeq_succ] at h
    unfold rsStep at h
    cases hr : readValue ctx f (d + 1) dm st with
    | ok x st1 =>
      rw [hr] at h
      simp only [] at h
      obtain ⟨s, e, more, hv⟩ := ih _ _ _ _ _ _ _ _ h
      refine ⟨s, e, x :: more, ?_⟩
      rw [hv, List.reverse_cons, List.append_assoc]
      rfl
    | err e st1 =>
      rw [hr] at h
      simp only [] at h
      split at h <;> cases h
    | closer st1 =>
      rw [hr] at h
      simp only [] at h
      cases hs : st1.rest with
      | nil => rw [hs] at h; cases h
      | cons c r =>
        rw [hs] at h
        simp only [] at h
        split at h
        · cases h
        unfold mkSeq
        split at h
        · rename_i hk
          cases h
          exact ⟨_, _, [], by rw [if_pos hk, List.append_nil]⟩
        rename_i hk0
        split at h
        · rename_i hk
          cases h
          exact ⟨_, _, [], by rw [if_neg hk0, if_pos hk, List.append_nil]⟩
        · rename_i hk1
          generalize hq : hasDuplicates ctx.cfg acc.reverse = q at h
          obtain ⟨dup, ys⟩ := q
          simp only [] at h
          split at h
          · cases h
          · cases h
            exact ⟨_, _, [], by rw [if_neg hk0, if_neg hk1, List.append_nil, hq]⟩

theorem readMap_ok_shape (ctx : Ctx) : ∀ (f d : Nat) (dm : Bool) (start : Nat) (st : St) (ks vs : List Val)
    (v : Val) (st' : St), readMap ctx f d dm start none st ks vs = .ok v st' →
    ∃ s e mk mv, mk.length = mv.length ∧
      v = .map (mkHdr s e) none (hasDuplicates ctx.cfg (ks.reverse ++ mk)).2 (vs.reverse ++ mv) := by
  intro f
  induction f with
  | zero => intro d dm start st ks vs v st' h; rw [readMap_zero] at h; cases h
  | succ f ih =>
    intro d dm start st ks vs v st' h
    rw [readMap_succ] at h
    unfold rmStep at h
    simp only [] at h
    cases hr : readValue ctx f (d + 1) dm st with
    | ok k st1 =>
      rw [hr] at h
      simp only [] at h
      cases hr2 : readValue ctx f (d + 1) dm st1 with
      | ok x st2 =>
        rw [hr2] at h
        simp only [] at h
        obtain ⟨s, e, mk, mv, hl, hv⟩ := ih _ _ _ _ _ _ _ _ h
        refine ⟨s, e, k :: mk, x :: mv, by simp [hl], ?_⟩
        rw [hv, List.reverse_cons, List.reverse_cons, List.append_assoc, List.append_assoc]
        rfl
      | err e st2 =>
        rw [hr2] at h
        simp only [] at h
        split at h <;> cases h
      | closer st2 => rw [hr2] at h; cases h
    | err e st1 =>
      rw [hr] at h
      simp only [] at h
      split at h <;> cases h
    | closer st1 =>
      rw [hr] at h
      simp only [] at h
      cases hs : st1.rest with
      | nil => rw [hs] at h; cases h
      | cons c r =>
        rw [hs] at h
        simp only [] at h
        split at h
        · cases h
        · generalize hq : hasDuplicates ctx.cfg ks.reverse = q at h
          obtain ⟨dup, ys⟩ := q
          simp only [] at h
          split at h
          · cases h
          · cases h
            exact ⟨_, _, [], [], rfl, by rw [List.append_nil, List.append_nil, hq]⟩

section
variable (cfg : Cfg) (reg : Bytes → Option Handler) (mode : Nat)

theorem mkSeq_cases (kind : Nat) (h : Hdr) (xs : List Val) :
    (kind = 0 ∧ mkSeq cfg kind h xs = .list h none xs) ∨ (kind = 1 ∧ mkSeq cfg kind h xs = .vec h none xs) ∨
    (kind ≠ 0 ∧ kind ≠ 1 ∧ mkSeq cfg kind h xs = .set h none (hasDuplicates cfg xs).2) := by
  unfold mkSeq
  by_cases h0 : (kind == 0) = true
  · left; rw [if_pos h0]; exact ⟨by simpa using h0, rfl⟩
  · by_cases h1 : (kind == 1) = true
    · right; left; rw [if_neg h0, if_pos h1]; exact ⟨by simpa using h1, rfl⟩
    · right; right; rw [if_neg h0, if_neg h1]; exact ⟨by simpa using h0, by simpa using h1, rfl⟩

theorem eraseCache_list_fresh (s e : Nat) (xs : List Val) :
    eraseCache (.list (mkHdr s e) none xs) = .list (mkHdr s e) none (eraseCacheL xs) := rfl
theorem eraseCache_vec_fresh (s e : Nat) (xs : List Val) :
    eraseCache (.vec (mkHdr s e) none xs) = .vec (mkHdr s e) none (eraseCacheL xs) := rfl
theorem eraseCache_set_fresh (s e : Nat) (xs : List Val) :
    eraseCache (.set (mkHdr s e) none xs) = .set (mkHdr s e) none (eraseCacheL xs) := rfl
theorem eraseCache_map_fresh (s e : Nat) (ks vs : List Val) :
    eraseCache (.map (mkHdr s e) none ks vs) = .map (mkHdr s e) none (eraseCacheL ks) (eraseCacheL vs) := rfl
theorem eraseCache_tagged_fresh (s e : Nat) (tag : Bytes) (v : Val) :
    eraseCache (.tagged (mkHdr s e) none tag v) = .tagged (mkHdr s e) none tag (eraseCache v) := rfl

/-- an error among the elements is the error of the collection -/
theorem dispatchV_mkSeq_err (kind s e : Nat) (xs : List Val) (c : List Call) (er : DErr)
    (h : seqR (dispatchEach cfg reg mode (eraseCacheL xs)) = (c, .error er)) :
    dispatchV cfg reg mode (eraseCache (mkSeq cfg kind (mkHdr s e) xs)) = (c, .error er) := by
  rcases mkSeq_cases cfg kind (mkHdr s e) xs with ⟨_, h1⟩ | ⟨_, h1⟩ | ⟨_, _, h1⟩
  · rw [h1, eraseCache_list_fresh]; exact dispatchV_list_err cfg reg mode h
  · rw [h1, eraseCache_vec_fresh]; exact dispatchV_vec_err cfg reg mode h
  · rw [h1, eraseCache_set_fresh, eraseCacheL_hasDuplicates]; exact dispatchV_set_err cfg reg mode h

theorem dispatchV_map_shape_err (s e : Nat) (ks vs : List Val) (c : List Call) (er : DErr)
    (h : seqR (interleave2 (dispatchEach cfg reg mode (eraseCacheL ks)) (dispatchEach cfg reg mode (eraseCacheL vs)))
      = (c, .error er)) :
    dispatchV cfg reg mode (eraseCache (.map (mkHdr s e) none (hasDuplicates cfg ks).2 vs)) = (c, .error er) := by
  rw [eraseCache_map_fresh, eraseCacheL_hasDuplicates]; exact dispatchV_map_err cfg reg mode h

end

end Edn.Proofs
