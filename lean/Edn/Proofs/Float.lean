/-
  Edn.Proofs.Float — C05: the fast path of `parse_double_from_buffer` returns the
  correctly rounded double; the table of powers of ten extracted from the source is exact.
-/
import Edn.Model.Number
import Edn.Proofs.Bytes
import Edn.Proofs.FloatAux3

namespace Edn.Proofs
open Edn.Model Edn.Spec Edn.Generated

/-- every entry k of POWER_OF_TEN_POSITIVE (as extracted from the compiled source) is the
    double that is exactly 10^k -/
theorem pow10_table_exact : ∀ k, k ≤ 22 →
    decode (UInt64.ofNat (Tables.pow10Positive.getD k 0)) = (false, 10 ^ k, 1) ∨
    (∃ n d, decode (UInt64.ofNat (Tables.pow10Positive.getD k 0)) = (false, n, d) ∧ n = 10 ^ k * d ∧ 0 < d) := by
  intro k hk
  exact Or.inr (FloatAux.pow10_decode k hk)

/-- `rne` depends only on the rational n/d -/
theorem rne_scale (n d c : Nat) (hd : 0 < d) (hc : 0 < c) : rne (n * c) (d * c) = rne n d :=
  FloatAux.rne_scale n d c hd hc

/-- `(double) m` is exact below 2^53 -/
theorem ofNat_exact (m : Nat) (h : m < 2 ^ 53) :
    ∃ n d, decode (Spec.ofNat m) = (false, n, d) ∧ n = m * d ∧ 0 < d :=
  FloatAux.ofNat_exact m h

/-- the Clinger fast path is correctly rounded: for a mantissa below 2^53 and a decimal
    exponent in [-22, 22] it returns the double nearest to mant · 10^e (ties to even) -/
theorem fast_path_correct (mant : Nat) (e : Int) (neg : Bool)
    (hm : mant ≤ 9007199254740991) (he : -22 ≤ e ∧ e ≤ 22) :
    parseDoubleFast mant e neg = some (withSign neg (ofDec mant e)) := by
  obtain ⟨na, da, hda, hna, hdap⟩ := ofNat_exact mant (by omega)
  obtain ⟨nb, db, hdb, hnb, hdbp⟩ := FloatAux.pow10_decode e.natAbs (by omega)
  subst hna hnb
  -- both operands are exact, so the single machine operation is one rounding of mant·10^e
  have key : (if e < 0 then fdiv (Spec.ofNat mant) (UInt64.ofNat (Tables.pow10Positive.getD e.natAbs 0))
      else fmul (Spec.ofNat mant) (UInt64.ofNat (Tables.pow10Positive.getD e.natAbs 0))) = ofDec mant e := by
    unfold ofDec
    by_cases hneg : e < 0
    · have h3 : ¬ e ≥ 0 := by omega
      have h4 : (-e).toNat = e.natAbs := by omega
      rw [if_pos hneg, if_neg h3, h4]
      exact FloatAux.fdiv_exact hda hdb hdap hdbp (Nat.pow_pos (by decide))
    · have h3 : e ≥ 0 := by omega
      have h4 : e.toNat = e.natAbs := by omega
      rw [if_neg hneg, if_pos h3, h4]
      exact FloatAux.fmul_exact hda hdb hdap hdbp
  unfold parseDoubleFast
  have h1 : (decide (e < -22) || decide (e > 22)) = false := by
    simp only [Bool.or_eq_false_iff, decide_eq_false_iff_not]; omega
  have h2 : ¬ mant > 9007199254740991 := by omega
  rw [h1, if_neg (by decide), if_neg h2]
  dsimp only
  rw [key]

/-- the two short-circuited ranges of `ofDecC` agree with `ofDec` -/
theorem ofDecC_eq (mant : Nat) (e : Int) : ofDecC mant e = ofDec mant e :=
  FloatAux.ofDecC_eq mant e

end Edn.Proofs
