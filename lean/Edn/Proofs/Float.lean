/-
  Edn.Proofs.Float — C05: the fast path of `parse_double_from_buffer` returns the
  correctly rounded double; the table of powers of ten extracted from the source is exact.
-/
import Edn.Model.Number
import Edn.Proofs.Bytes

namespace Edn.Proofs
open Edn.Model Edn.Spec Edn.Generated

/-- every entry k of POWER_OF_TEN_POSITIVE (as extracted from the compiled source) is the
    double that is exactly 10^k -/
theorem pow10_table_exact : ∀ k, k ≤ 22 →
    decode (UInt64.ofNat (Tables.pow10Positive.getD k 0)) = (false, 10 ^ k, 1) ∨
    (∃ n d, decode (UInt64.ofNat (Tables.pow10Positive.getD k 0)) = (false, n, d) ∧ n = 10 ^ k * d ∧ 0 < d) := by
  sorry

/-- `rne` depends only on the rational n/d -/
theorem rne_scale (n d c : Nat) (hd : 0 < d) (hc : 0 < c) : rne (n * c) (d * c) = rne n d := by
  sorry

/-- `(double) m` is exact below 2^53 -/
theorem ofNat_exact (m : Nat) (h : m < 2 ^ 53) :
    ∃ n d, decode (Spec.ofNat m) = (false, n, d) ∧ n = m * d ∧ 0 < d := by
  sorry

/-- the Clinger fast path is correctly rounded: for a mantissa below 2^53 and a decimal
    exponent in [-22, 22] it returns the double nearest to mant · 10^e (ties to even) -/
theorem fast_path_correct (mant : Nat) (e : Int) (neg : Bool)
    (hm : mant ≤ 9007199254740991) (he : -22 ≤ e ∧ e ≤ 22) :
    parseDoubleFast mant e neg = some (withSign neg (ofDec mant e)) := by
  sorry

/-- the two short-circuited ranges of `ofDecC` agree with `ofDec` -/
theorem ofDecC_eq (mant : Nat) (e : Int) : ofDecC mant e = ofDec mant e := by
  sorry

end Edn.Proofs
