/-
  Edn.Proofs.FuelAux6 — fuel sufficiency of the step functions, and `reader_fuel_sufficient`.
-/
import Edn.Proofs.FuelAux4

namespace Edn.Proofs
open Edn.Model
open Edn.Generated

def SV (g : Nat) (RV : RVT) : Prop := ∀ d dm st, 2 * st.rest.length + 2 ≤ g → (RV d dm st).isFuelOut = false
def SS (g : Nat) (RS : RST) : Prop := ∀ d dm kind start st acc, 2 * st.rest.length + 3 ≤ g →
  (RS d dm kind start st acc).isFuelOut = false
def SM (g : Nat) (RM : RMT) : Prop := ∀ d dm start ns st ks vs, 2 * st.rest.length + 3 ≤ g →
  (RM d dm start ns st ks vs).isFuelOut = false
def S4 (g : Nat) (R : R4T) : Prop := ∀ d dm start st, 2 * st.rest.length + 3 ≤ g →
  (R d dm start st).isFuelOut = false

theorem rvStep_suff (ctx : Ctx) {g : Nat} {RV : RVT} {RS : RST} {RM : RMT} {RN RT RMe : R4T}
    (pV : PV RV)
    (hV : SV g RV) (hS : SS g RS) (hM : SM g RM) (hN : S4 g RN) (hT : S4 g RT) (hMe : S4 g RMe)
    (d : Nat) (dm : Bool) (calls : List Call) (c : UInt8) (cs : Bytes)
    (hg : 2 * (c :: cs).length + 2 ≤ g + 1) :
    (rvStep ctx RV RS RM RN RT RMe d dm calls c cs).isFuelOut = false := by
  unfold rvStep
  simp only []
  simp only [List.length_cons] at hg
  obtain ⟨l1, l2, l3, l4, l5⟩ := leaf_not_fuelOut' ctx { rest := c :: cs, calls := calls }
  cases hdisp : dispatch ctx.cfg c with
  | string => exact l1
  | character => exact l2
  | listOpen =>
    simp only []
    split
    · rfl
    · exact hS _ _ _ _ _ _ (by simp only []; omega)
  | vectorOpen =>
    simp only []
    split
    · rfl
    · exact hS _ _ _ _ _ _ (by simp only []; omega)
  | mapOpen =>
    simp only []
    split
    · rfl
    · exact hM _ _ _ _ _ _ _ (by simp only []; omega)
  | hash =>
    simp only []
    cases cs with
    | nil => simp only []; exact hT _ _ _ _ (by simp only [List.length_nil]; omega)
    | cons nx cs' =>
      simp only [List.length_cons] at hg
      simp only []
      split
      · exact l4
      split
      · rfl
      split
      · exact hS _ _ _ _ _ _ (by simp only []; omega)
      split
      · have h1 := pV (d + 1) true { rest := cs', calls := calls }
        have h2 := hV (d + 1) true { rest := cs', calls := calls } (by simp only []; omega)
        cases hr : RV (d + 1) true { rest := cs', calls := calls } with
        | ok v st' =>
          rw [hr] at h1; simp only [Progress] at h1
          simp only []
          exact hV _ _ _ (by omega)
        | closer st' => rfl
        | err e st' => rw [hr] at h2; exact h2
      split
      · exact hN _ _ _ _ (by simp only [List.length_cons]; omega)
      · exact hT _ _ _ _ (by simp only [List.length_cons]; omega)
  | sign =>
    simp only []
    cases cs with
    | nil => exact l3
    | cons nx t =>
      simp only []
      split
      · exact l5
      · exact l3
  | digit => exact l5
  | delimiter =>
    simp only []
    split <;> rfl
  | metadata =>
    simp only []
    split
    · rfl
    · exact hMe _ _ _ _ (by simp only []; omega)
  | identifier => exact l3

theorem rvOuter_suff (ctx : Ctx) {g : Nat} {RV : RVT} {RS : RST} {RM : RMT} {RN RT RMe : R4T}
    (pV : PV RV)
    (hV : SV g RV) (hS : SS g RS) (hM : SM g RM) (hN : S4 g RN) (hT : S4 g RT) (hMe : S4 g RMe)
    (d : Nat) (dm : Bool) (st : St) (hg : 2 * st.rest.length + 2 ≤ g + 1) :
    (rvOuter ctx RV RS RM RN RT RMe d dm st).isFuelOut = false := by
  unfold rvOuter
  cases hs : st.rest with
  | nil => rfl
  | cons c0 t =>
    simp only []
    have hle : (if isPreWs c0 = true then skipWs (c0 :: t) else c0 :: t).length ≤ (c0 :: t).length := by
      split
      · exact skipWs_length_le' _
      · exact Nat.le_refl _
    cases hw : (if isPreWs c0 = true then skipWs (c0 :: t) else c0 :: t) with
    | nil => rfl
    | cons c cs =>
      simp only []
      rw [hw] at hle
      rw [hs] at hg
      exact rvStep_suff ctx pV hV hS hM hN hT hMe d dm st.calls c cs (by omega)

theorem eofRewrite_not_fuelOut {e : ErrInfo} {st' : St} {x : Res} (hx : x.isFuelOut = false)
    (he : e.fuelOut = false) :
    (if (e.code == .unexpectedEof && !e.fuelOut) = true then x else Res.err e st').isFuelOut = false := by
  split
  · exact hx
  · exact he

theorem rsStep_suff (ctx : Ctx) {g : Nat} {RV : RVT} {RS : RST} (pV : PV RV) (hV : SV g RV) (hS : SS g RS)
    (d : Nat) (dm : Bool) (kind start : Nat) (st : St) (acc : List Val)
    (hg : 2 * st.rest.length + 3 ≤ g + 1) :
    (rsStep ctx RV RS d dm kind start st acc).isFuelOut = false := by
  unfold rsStep
  have h1 := pV (d + 1) dm st
  have h2 := hV (d + 1) dm st (by omega)
  cases hr : RV (d + 1) dm st with
  | ok v st' =>
    rw [hr] at h1; simp only [Progress] at h1
    simp only []
    exact hS _ _ _ _ _ _ (by omega)
  | err e st' =>
    rw [hr] at h2
    simp only []
    exact eofRewrite_not_fuelOut rfl h2
  | closer st' =>
    simp only []
    repeat' split
    all_goals rfl

theorem rmStep_suff (ctx : Ctx) {g : Nat} {RV : RVT} {RM : RMT} (pV : PV RV) (hV : SV g RV) (hM : SM g RM)
    (d : Nat) (dm : Bool) (start : Nat) (ns : Option Bytes) (st : St) (ks vs : List Val)
    (hg : 2 * st.rest.length + 3 ≤ g + 1) :
    (rmStep ctx RV RM d dm start ns st ks vs).isFuelOut = false := by
  unfold rmStep
  simp only []
  have h1 := pV (d + 1) dm st
  have h2 := hV (d + 1) dm st (by omega)
  cases hr : RV (d + 1) dm st with
  | ok k st' =>
    rw [hr] at h1; simp only [Progress] at h1
    simp only []
    have h3 := pV (d + 1) dm st'
    have h4 := hV (d + 1) dm st' (by omega)
    cases hr2 : RV (d + 1) dm st' with
    | ok v st'' =>
      rw [hr2] at h3; simp only [Progress] at h3
      simp only []
      exact hM _ _ _ _ _ _ _ (by omega)
    | err e st'' =>
      rw [hr2] at h4
      simp only []
      exact eofRewrite_not_fuelOut rfl h4
    | closer st'' => rfl
  | err e st' =>
    rw [hr] at h2
    simp only []
    exact eofRewrite_not_fuelOut rfl h2
  | closer st' =>
    simp only []
    repeat' split
    all_goals rfl

theorem rnStep_suff (ctx : Ctx) {g : Nat} {RV : RVT} {RM : RMT} (pV : PV RV) (hV : SV g RV) (hM : SM g RM)
    (d : Nat) (dm : Bool) (start : Nat) (st : St)
    (hg : 2 * st.rest.length + 3 ≤ g + 1) :
    (rnStep ctx RV RM d dm start st).isFuelOut = false := by
  unfold rnStep
  have h1 := pV d dm st
  have h2 := hV d dm st (by omega)
  cases hr : RV d dm st with
  | closer st' => rfl
  | err e st' => rw [hr] at h2; exact h2
  | ok kwv st' =>
    rw [hr] at h1; simp only [Progress] at h1
    simp only []
    have hws := skipWs_length_le' st'.rest
    split
    · split
      · rename_i c r heq
        rw [heq] at hws; simp only [List.length_cons] at hws
        split
        · exact hM _ _ _ _ _ _ _ (by simp only []; omega)
        · rfl
      · rfl
    · rfl

theorem rtStep_suff (ctx : Ctx) {g : Nat} {RV : RVT} (hV : SV g RV)
    (d : Nat) (dm : Bool) (start : Nat) (st : St)
    (hg : 2 * st.rest.length + 3 ≤ g + 1) :
    (rtStep ctx RV d dm start st).isFuelOut = false := by
  unfold rtStep
  simp only []
  split
  · rfl
  · split
    · rfl
    · have h1 := readIdentifier_progress' ctx st
      have h2 := (leaf_not_fuelOut' ctx st).2.2.1
      cases hr : readIdentifier ctx st with
      | closer st' => rfl
      | err e st' => rw [hr] at h2; exact h2
      | ok tagv st' =>
        rw [hr] at h1; simp only [Progress] at h1
        simp only []
        split
        · have h3 := hV (d + 1) dm st' (by omega)
          cases hr2 : RV (d + 1) dm st' with
          | closer st'' => rfl
          | err e st'' => rw [hr2] at h3; exact h3
          | ok v st'' =>
            simp only []
            repeat' split
            all_goals rfl
        · rfl

theorem rmeStep_suff (ctx : Ctx) {g : Nat} {RV : RVT} (pV : PV RV) (hV : SV g RV)
    (d : Nat) (dm : Bool) (start : Nat) (st : St)
    (hg : 2 * st.rest.length + 3 ≤ g + 1) :
    (rmeStep ctx RV d dm start st).isFuelOut = false := by
  unfold rmeStep
  simp only []
  have h1 := pV (d + 1) dm st
  have h2 := hV (d + 1) dm st (by omega)
  cases hr : RV (d + 1) dm st with
  | closer st' => rfl
  | err e st' => rw [hr] at h2; exact h2
  | ok m st' =>
    rw [hr] at h1; simp only [Progress] at h1
    simp only []
    split
    · rfl
    · have h3 := hV (d + 1) dm st' (by omega)
      cases hr2 : RV (d + 1) dm st' with
      | closer st'' => rfl
      | err e st'' => rw [hr2] at h3; exact h3
      | ok form st'' =>
        simp only []
        split <;> rfl

/-- sufficiency: `2 * remaining + 2` units are always enough for `readValue`
    (`2 * remaining + 3` for the loops entered after an opening delimiter) -/
theorem reader_fuel_sufficient' (ctx : Ctx) : ∀ (f : Nat),
    SV f (readValue ctx f) ∧ SS f (readSeq ctx f) ∧ SM f (readMap ctx f) ∧ S4 f (readNsMap ctx f) ∧
    S4 f (readTagged ctx f) ∧ S4 f (readMeta ctx f) := by
  intro f
  induction f with
  | zero =>
    refine ⟨?_, ?_, ?_, ?_, ?_, ?_⟩
    · intro d dm st h; omega
    · intro d dm kind start st acc h; omega
    · intro d dm start ns st ks vs h; omega
    · intro d dm start st h; omega
    · intro d dm start st h; omega
    · intro d dm start st h; omega
  | succ f ih =>
    obtain ⟨hV, hS, hM, hN, hT, hMe⟩ := ih
    have pV := (reader_progress' ctx f).1
    refine ⟨?_, ?_, ?_, ?_, ?_, ?_⟩
    · intro d dm st h; rw [readValue_succ]; exact rvOuter_suff ctx pV hV hS hM hN hT hMe d dm st h
    · intro d dm kind start st acc h; rw [readSeq_succ]; exact rsStep_suff ctx pV hV hS d dm kind start st acc h
    · intro d dm start ns st ks vs h; rw [readMap_succ]; exact rmStep_suff ctx pV hV hM d dm start ns st ks vs h
    · intro d dm start st h; rw [readNsMap_succ]; exact rnStep_suff ctx pV hV hM d dm start st h
    · intro d dm start st h; rw [readTagged_succ]; exact rtStep_suff ctx hV d dm start st h
    · intro d dm start st h; rw [readMeta_succ]; exact rmeStep_suff ctx pV hV d dm start st h

end Edn.Proofs
