/-
  Edn.Proofs.RejectDocClj — C10 / C19 for whole documents with the Clojure flag (either setting of
  the experimental flag, no reader registry): which error `edn_read` reports when a metadata
  marker lacks its annotation or its target, when the annotation or the target is of the wrong
  kind, when a namespaced-map prefix is malformed - at top level, inside any well-formed open
  context (`DescClj`: open collections, namespaced maps, tags, discard and metadata markers),
  and in particular inside a discarded form.

  Positions are `posOf input offset` (offset, line and column as `edn_read` computes them).
  In every theorem `pre` is the open context and the defect starts at offset `pre.length`.
-/
import Edn.Proofs.RejectDocClj3

namespace Edn.Proofs.RejectDocClj
open Edn.Model Edn.Spec Edn.Generated Edn.Proofs Edn.Proofs.Cmpl Edn.Proofs.RejectDoc Edn.Proofs.RejectDocX

theorem error_posOf_congr (code : Err) (i : Bytes) {a b a' b' : Nat} (h1 : a = a') (h2 : b = b') :
    Outcome.error code (posOf i a) (posOf i b) = .error code (posOf i a') (posOf i b') := by
  subst h1 h2; rfl

theorem syntax_ne_eof (a b : Option Nat) : (mkErr .invalidSyntax a b).code ≠ .unexpectedEof := by
  intro h; cases h

/-! ## (a) a metadata marker with no annotation -/

/-- **(a)** `^` followed (after blanks, comments, discarded forms) by a closing delimiter, in any
    open context: INVALID_SYNTAX from the `^` to that delimiter -/
theorem meta_without_annotation_closer_doc (cfg : Cfg) (hclj : cfg.clj = true) (opts : Opts) (hreg : opts.registry = none)
    {cc : Bool} {pre : Bytes} {d : Nat} {dm : Bool} (k : Nat) (tr : Bytes) (c : UInt8) (rest : Bytes)
    (hctx : DescClj cfg (0x5E :: (tr ++ c :: rest)) cc 0 false pre d dm) (hd : d + 1 + k ≤ Tables.maxNestingDepth)
    (ht : TrailX cfg (numJOf cfg) (strJOf cfg) k tr (c :: rest)) (hc : IsCloser c) :
    (read cfg opts (pre ++ 0x5E :: (tr ++ c :: rest))).out =
      .error .invalidSyntax (posOf (pre ++ 0x5E :: (tr ++ c :: rest)) pre.length)
        (posOf (pre ++ 0x5E :: (tr ++ c :: rest)) (pre.length + 1 + tr.length)) := by
  rw [docClj_err cfg hclj opts hreg hctx _ _
    (site_meta_closer cfg hclj opts d dm tr c rest (by omega) (trailRX_of_trailX cfg opts hreg ht hc d hd))
    (Or.inr (syntax_ne_eof _ _)) rfl rfl]
  apply error_posOf_congr <;> simp only [mkErr, Option.getD_some, List.length_append, List.length_cons] <;> omega

/-- **(a)** `^` followed by the end of the input (blanks and comments only), no collection open:
    UNEXPECTED_EOF at the end of the input -/
theorem meta_without_annotation_eof_doc (cfg : Cfg) (hclj : cfg.clj = true) (opts : Opts) (hreg : opts.registry = none)
    {pre : Bytes} {d : Nat} {dm : Bool} (s : Bytes)
    (hctx : DescClj cfg (0x5E :: s) false 0 false pre d dm) (hd : d < Tables.maxNestingDepth) (hs : skipWsScalar s = []) :
    (read cfg opts (pre ++ 0x5E :: s)).out =
      .error .unexpectedEof (posOf (pre ++ 0x5E :: s) (pre ++ 0x5E :: s).length) (posOf (pre ++ 0x5E :: s) (pre ++ 0x5E :: s).length) := by
  have hsite : SiteErrX cfg opts d dm (0x5E :: s) (eofE (d + 1)) [] :=
    descClj_err cfg hclj opts hreg (.metaAnn false d dm [] (d + 1) dm hd (.here false (d + 1) dm)) _ _
      (site_eofX cfg opts (d + 1) dm s hs) (Or.inl rfl)
  rw [docClj_err cfg hclj opts hreg hctx _ _ hsite (Or.inl rfl) rfl (by simp [eofE])]
  rfl

/-! ## (b) an annotation with no target -/

/-- **(b)** `^annotation` followed by a closing delimiter, in any open context: INVALID_SYNTAX
    from the `^` to that delimiter -/
theorem meta_without_target_closer_doc (cfg : Cfg) (hclj : cfg.clj = true) (opts : Opts) (hreg : opts.registry = none)
    {cc : Bool} {pre : Bytes} {d : Nat} {dm : Bool} (k : Nat) (am : Val) (nks nvs : List Val) (tokm tr : Bytes) (c : UInt8) (rest : Bytes)
    (hctx : DescClj cfg (0x5E :: (tokm ++ (tr ++ c :: rest))) cc 0 false pre d dm) (hd : d + 1 + k ≤ Tables.maxNestingDepth)
    (hm : FX cfg k am tokm (tr ++ c :: rest)) (he : metaEntriesC am = some (nks, nvs))
    (ht : TrailX cfg (numJOf cfg) (strJOf cfg) k tr (c :: rest)) (hc : IsCloser c) :
    (read cfg opts (pre ++ 0x5E :: (tokm ++ (tr ++ c :: rest)))).out =
      .error .invalidSyntax (posOf (pre ++ 0x5E :: (tokm ++ (tr ++ c :: rest))) pre.length)
        (posOf (pre ++ 0x5E :: (tokm ++ (tr ++ c :: rest))) (pre.length + 1 + tokm.length + tr.length)) := by
  rw [docClj_err cfg hclj opts hreg hctx _ _
    (site_metaTgt_closer cfg hclj opts hreg d dm k am nks nvs tokm tr c rest hd hm he (trailRX_of_trailX cfg opts hreg ht hc d hd))
    (Or.inr (syntax_ne_eof _ _)) rfl rfl]
  apply error_posOf_congr <;> simp only [mkErr, Option.getD_some, List.length_append, List.length_cons] <;> omega

/-- **(b)** `^annotation` followed by the end of the input, no collection open: UNEXPECTED_EOF at
    the end of the input -/
theorem meta_without_target_eof_doc (cfg : Cfg) (hclj : cfg.clj = true) (opts : Opts) (hreg : opts.registry = none)
    {pre : Bytes} {d : Nat} {dm : Bool} (k : Nat) (am : Val) (nks nvs : List Val) (tokm s : Bytes)
    (hctx : DescClj cfg (0x5E :: (tokm ++ s)) false 0 false pre d dm) (hd : d + 1 + k ≤ Tables.maxNestingDepth)
    (hm : FX cfg k am tokm s) (he : metaEntriesC am = some (nks, nvs)) (hs : skipWsScalar s = []) :
    (read cfg opts (pre ++ 0x5E :: (tokm ++ s))).out =
      .error .unexpectedEof (posOf (pre ++ 0x5E :: (tokm ++ s)) (pre ++ 0x5E :: (tokm ++ s)).length)
        (posOf (pre ++ 0x5E :: (tokm ++ s)) (pre ++ 0x5E :: (tokm ++ s)).length) := by
  have hsite : SiteErrX cfg opts d dm (0x5E :: (tokm ++ []) ++ s) (eofE (d + 1)) [] :=
    descClj_err cfg hclj opts hreg
      (.metaTgt false d dm k am nks nvs tokm [] (d + 1) dm hd (by simpa using hm) he (.here false (d + 1) dm)) _ _
      (site_eofX cfg opts (d + 1) dm s hs) (Or.inl rfl)
  simp only [List.append_nil, List.cons_append] at hsite
  rw [docClj_err cfg hclj opts hreg hctx _ _ hsite (Or.inl rfl) rfl (by simp [eofE])]
  rfl

/-! ## (c) a target that cannot carry metadata -/

/-- **(c)** `^annotation form` where the form is not a collection, symbol or tagged value (a
    number, string, keyword, character, nil, boolean): INVALID_SYNTAX from the `^` to the end of
    that form -/
theorem meta_bad_target_doc (cfg : Cfg) (hclj : cfg.clj = true) (opts : Opts) (hreg : opts.registry = none)
    {cc : Bool} {pre : Bytes} {d : Nat} {dm : Bool} (k : Nat) (am af : Val) (nks nvs : List Val) (tokm tokf rest : Bytes)
    (hctx : DescClj cfg (0x5E :: (tokm ++ (tokf ++ rest))) cc 0 false pre d dm) (hd : d + 1 + k ≤ Tables.maxNestingDepth)
    (hm : FX cfg k am tokm (tokf ++ rest)) (he : metaEntriesC am = some (nks, nvs))
    (hf : FX cfg k af tokf rest) (ht : af.metaTarget = false) :
    (read cfg opts (pre ++ 0x5E :: (tokm ++ (tokf ++ rest)))).out =
      .error .invalidSyntax (posOf (pre ++ 0x5E :: (tokm ++ (tokf ++ rest))) pre.length)
        (posOf (pre ++ 0x5E :: (tokm ++ (tokf ++ rest))) (pre.length + 1 + tokm.length + tokf.length)) := by
  rw [docClj_err cfg hclj opts hreg hctx _ _
    (site_meta_badTarget cfg hclj opts hreg d dm k am af nks nvs tokm tokf rest hd hm he hf ht)
    (Or.inr (syntax_ne_eof _ _)) rfl rfl]
  apply error_posOf_congr <;> simp only [mkErr, Option.getD_some, List.length_append, List.length_cons] <;> omega

/-! ## (d) an annotation of the wrong kind -/

/-- **(d)** `^x` where `x` is a complete form that is not a map, keyword, string, symbol or
    vector (a number, list, set, character, …): INVALID_SYNTAX from the `^` to the end of `x` -/
theorem meta_bad_annotation_doc (cfg : Cfg) (hclj : cfg.clj = true) (opts : Opts) (hreg : opts.registry = none)
    {cc : Bool} {pre : Bytes} {d : Nat} {dm : Bool} (k : Nat) (ax : Val) (tokx rest : Bytes)
    (hctx : DescClj cfg (0x5E :: (tokx ++ rest)) cc 0 false pre d dm) (hd : d + 1 + k ≤ Tables.maxNestingDepth)
    (hx : FX cfg k ax tokx rest) (he : metaEntriesC ax = none) :
    (read cfg opts (pre ++ 0x5E :: (tokx ++ rest))).out =
      .error .invalidSyntax (posOf (pre ++ 0x5E :: (tokx ++ rest)) pre.length)
        (posOf (pre ++ 0x5E :: (tokx ++ rest)) (pre.length + 1 + tokx.length)) := by
  rw [docClj_err cfg hclj opts hreg hctx _ _
    (site_meta_badAnn cfg hclj opts hreg d dm k ax tokx rest hd hx he)
    (Or.inr (syntax_ne_eof _ _)) rfl rfl]
  apply error_posOf_congr <;> simp only [mkErr, Option.getD_some, List.length_append, List.length_cons] <;> omega

/-! ## (e) a malformed namespaced-map prefix -/

/-- **(e)** `#:ns/name`: the prefix is a qualified keyword - INVALID_SYNTAX from the `#` to the
    end of the keyword -/
theorem nsmap_qualified_prefix_doc (cfg : Cfg) (hclj : cfg.clj = true) (opts : Opts) (hreg : opts.registry = none)
    {cc : Bool} {pre : Bytes} {d : Nat} {dm : Bool} (q ns nm rest : Bytes)
    (hctx : DescClj cfg (0x23 :: 0x3A :: (q ++ rest)) cc 0 false pre d dm) (hd : d < Tables.maxNestingDepth)
    (hl : IdentLex (0x3A :: q)) (hden : IdentDenotes (0x3A :: q) (.kw hdr0 (some ns) nm)) (hsep : DelimStart rest) :
    (read cfg opts (pre ++ 0x23 :: 0x3A :: (q ++ rest))).out =
      .error .invalidSyntax (posOf (pre ++ 0x23 :: 0x3A :: (q ++ rest)) pre.length)
        (posOf (pre ++ 0x23 :: 0x3A :: (q ++ rest)) (pre.length + 2 + q.length)) := by
  rw [docClj_err cfg hclj opts hreg hctx _ _
    (site_ns_qualified cfg hclj opts d dm q ns nm rest hd hl hden hsep)
    (Or.inr (syntax_ne_eof _ _)) rfl rfl]
  apply error_posOf_congr <;> simp only [mkErr, Option.getD_some, List.length_append, List.length_cons] <;> omega

/-- **(e)** `#:name`, blanks, and a byte other than `{`: INVALID_SYNTAX from the `#` to that byte -/
theorem nsmap_without_brace_doc (cfg : Cfg) (hclj : cfg.clj = true) (opts : Opts) (hreg : opts.registry = none)
    {cc : Bool} {pre : Bytes} {d : Nat} {dm : Bool} (name tr : Bytes) (c : UInt8) (rest : Bytes)
    (hctx : DescClj cfg (0x23 :: 0x3A :: (name ++ (tr ++ c :: rest))) cc 0 false pre d dm) (hd : d < Tables.maxNestingDepth)
    (hl : IdentLex (0x3A :: name)) (hden : IdentDenotes (0x3A :: name) (.kw hdr0 none name))
    (ht : Blank tr) (hsep : DelimStart (tr ++ c :: rest)) (hw : isPreWs c = false) (hc : c ≠ 0x7B) :
    (read cfg opts (pre ++ 0x23 :: 0x3A :: (name ++ (tr ++ c :: rest)))).out =
      .error .invalidSyntax (posOf (pre ++ 0x23 :: 0x3A :: (name ++ (tr ++ c :: rest))) pre.length)
        (posOf (pre ++ 0x23 :: 0x3A :: (name ++ (tr ++ c :: rest))) (pre.length + 2 + name.length + tr.length)) := by
  rw [docClj_err cfg hclj opts hreg hctx _ _
    (site_ns_other cfg hclj opts d dm name tr c rest hd hl hden ht hsep hw hc)
    (Or.inr (syntax_ne_eof _ _)) rfl rfl]
  apply error_posOf_congr <;> simp only [mkErr, Option.getD_some, List.length_append, List.length_cons] <;> omega

/-- **(e)** `#:name` and blanks end the input: INVALID_SYNTAX from the `#` to the end, whatever is
    open (not UNEXPECTED_EOF, not UNTERMINATED_COLLECTION) -/
theorem nsmap_prefix_at_end_doc (cfg : Cfg) (hclj : cfg.clj = true) (opts : Opts) (hreg : opts.registry = none)
    {cc : Bool} {pre : Bytes} {d : Nat} {dm : Bool} (name tr : Bytes)
    (hctx : DescClj cfg (0x23 :: 0x3A :: (name ++ tr)) cc 0 false pre d dm) (hd : d < Tables.maxNestingDepth)
    (hl : IdentLex (0x3A :: name)) (hden : IdentDenotes (0x3A :: name) (.kw hdr0 none name)) (ht : Blank tr) :
    (read cfg opts (pre ++ 0x23 :: 0x3A :: (name ++ tr))).out =
      .error .invalidSyntax (posOf (pre ++ 0x23 :: 0x3A :: (name ++ tr)) pre.length)
        (posOf (pre ++ 0x23 :: 0x3A :: (name ++ tr)) (pre.length + 2 + name.length + tr.length)) := by
  rw [docClj_err cfg hclj opts hreg hctx _ _
    (site_ns_end cfg hclj opts d dm name tr hd hl hden ht)
    (Or.inr (syntax_ne_eof _ _)) rfl rfl]
  apply error_posOf_congr <;> simp only [mkErr, Option.getD_some, List.length_append, List.length_cons] <;> omega

/-! ## (f) defects inside a discarded form -/

/-- **(f)** a discarded form must be well-formed: whatever error `e` the form behind `#_` raises
    (read one level deeper, in discard mode) is the error of the document - for the sites
    `site_meta_closer`, `site_metaTgt_closer`, `site_meta_badTarget`, `site_meta_badAnn`,
    `site_ns_qualified`, `site_ns_other`, `site_ns_end` in particular -/
theorem defect_in_discarded_form_doc (cfg : Cfg) (hclj : cfg.clj = true) (opts : Opts) (hreg : opts.registry = none)
    {cc : Bool} {pre : Bytes} {d : Nat} {dm : Bool} (s : Bytes)
    (hctx : DescClj cfg (0x23 :: 0x5F :: s) cc 0 false pre d dm) (hd : d < Tables.maxNestingDepth)
    (e : ErrInfo) (r : Bytes) (hs : SiteErrX cfg opts (d + 1) true s e r)
    (hc : cc = false ∨ e.code ≠ .unexpectedEof) (hf : e.fuelOut = false)
    (hn : (e.code == .unexpectedEof && e.eofTop && opts.eofValue) = false) :
    (read cfg opts (pre ++ 0x23 :: 0x5F :: s)).out =
      .error e.code (posOf (pre ++ 0x23 :: 0x5F :: s) ((pre ++ 0x23 :: 0x5F :: s).length - e.es.getD r.length))
        (posOf (pre ++ 0x23 :: 0x5F :: s) ((pre ++ 0x23 :: 0x5F :: s).length - e.ee.getD r.length)) :=
  docClj_err cfg hclj opts hreg hctx e r (site_in_discard cfg hclj opts hreg d dm s hd e r hs) hc hf hn

/-- **(f)**, spelled out for (c): `#_ ^annotation non-target` is INVALID_SYNTAX from the `^` to the
    end of the would-be target, although the whole form was to be discarded -/
theorem discarded_meta_bad_target_doc (cfg : Cfg) (hclj : cfg.clj = true) (opts : Opts) (hreg : opts.registry = none)
    {cc : Bool} {pre : Bytes} {d : Nat} {dm : Bool} (k : Nat) (am af : Val) (nks nvs : List Val) (tokm tokf rest : Bytes)
    (hctx : DescClj cfg (0x23 :: 0x5F :: 0x5E :: (tokm ++ (tokf ++ rest))) cc 0 false pre d dm)
    (hd : d + 2 + k ≤ Tables.maxNestingDepth)
    (hm : FX cfg k am tokm (tokf ++ rest)) (he : metaEntriesC am = some (nks, nvs))
    (hf : FX cfg k af tokf rest) (ht : af.metaTarget = false) :
    (read cfg opts (pre ++ 0x23 :: 0x5F :: 0x5E :: (tokm ++ (tokf ++ rest)))).out =
      .error .invalidSyntax (posOf (pre ++ 0x23 :: 0x5F :: 0x5E :: (tokm ++ (tokf ++ rest))) (pre.length + 2))
        (posOf (pre ++ 0x23 :: 0x5F :: 0x5E :: (tokm ++ (tokf ++ rest))) (pre.length + 3 + tokm.length + tokf.length)) := by
  rw [defect_in_discarded_form_doc cfg hclj opts hreg _ hctx (by omega) _ _
    (site_meta_badTarget cfg hclj opts hreg (d + 1) true k am af nks nvs tokm tokf rest (by omega) hm he hf ht)
    (Or.inr (syntax_ne_eof _ _)) rfl rfl]
  apply error_posOf_congr <;> simp only [mkErr, Option.getD_some, List.length_append, List.length_cons] <;> omega

/-! ## instances of the grammar from the reader (for the non-vacuity examples) -/

/-- by soundness, a token the reader reads at depth `d` is a form of the grammar fitting below `d` -/
theorem fx_of_read (cfg : Cfg) (f d : Nat) (dm : Bool) (tok rest : Bytes) (hd : d ≤ Tables.maxNestingDepth) (P : Val → Bool)
    (h : (match readValue (xctx cfg {}) f d dm { rest := tok ++ rest } with
          | .ok v st' => st'.rest == rest && P (stripM v)
          | _ => false) = true) :
    ∃ k a, d + k ≤ Tables.maxNestingDepth ∧ FX cfg k a tok rest ∧ P a = true := by
  cases hr : readValue (xctx cfg {}) f d dm { rest := tok ++ rest } with
  | ok v st' =>
    rw [hr] at h
    simp only [Bool.and_eq_true, beq_iff_eq] at h
    obtain ⟨k, tok', hk, h1, -, h2⟩ := readValue_sound_X cfg {} rfl _ _ (numExact_of cfg) (strExact_of cfg) f d dm _ st' v hr hd
    rw [h.1] at h1 h2
    have : tok = tok' := List.append_cancel_right h1
    subst this
    exact ⟨k, _, hk, h2, h.2⟩
  | closer st' => rw [hr] at h; cases h
  | err e st' => rw [hr] at h; cases h

/-- non-vacuity of (b), and the theorem at work: `[^:a]` - the context is the open vector, the
    annotation `:a` is a form of the grammar of an annotation kind, `]` follows at once -/
example : (read ⟨true, false⟩ {} [0x5B, 0x5E, 0x3A, 0x61, 0x5D]).out =
    .error .invalidSyntax (posOf [0x5B, 0x5E, 0x3A, 0x61, 0x5D] 1) (posOf [0x5B, 0x5E, 0x3A, 0x61, 0x5D] 4) := by
  obtain ⟨k, am, hk, hm, hp⟩ := fx_of_read ⟨true, false⟩ 20 2 false [0x3A, 0x61] [0x5D] (by decide)
    (fun a => (metaEntriesC a).isSome) (by decide +kernel)
  obtain ⟨⟨nks, nvs⟩, he⟩ := Option.isSome_iff_exists.mp hp
  have hctx : DescClj ⟨true, false⟩ (0x5E :: ([0x3A, 0x61] ++ ([] ++ 0x5D :: []))) true 0 false (opener 1 ++ ([] ++ [])) 1 false :=
    .coll 0 false 1 0 0 [] [] 1 false (by decide) (.nil 0 _) (.here true 1 false)
  exact meta_without_target_closer_doc ⟨true, false⟩ rfl {} rfl k am nks nvs [0x3A, 0x61] [] 0x5D [] hctx (by omega) hm he
    (.blank k [] _ .nil) (.inr (.inl rfl))

/-
  NOT PROVED (not attempted for lack of time; the model's answers were checked with `#eval`):

  * (a)/(b) "the end of the input" *inside opened collections* (`c = true`): the model reports
    UNTERMINATED_COLLECTION from the outermost opener to the end (`[^` gives 0..2); this needs the
    end-of-input variant of the transport theorem for `DescClj` (the analogue of the core
    `unterminated_collection`), `descClj_err` excludes UNEXPECTED_EOF through `coll` / `nsBody`.
    `meta_without_annotation_eof_doc` / `meta_without_target_eof_doc` cover flat contexts.
  * (e) `#:` followed by a token that is no identifier at all (`#:{` and `#: a{}` give the
    identifier reader's INVALID_SYNTAX 1..2): the error of `readIdentifier` passes through
    `readNsMap` unchanged; a site lemma would lift `identifier_outside_grammar_rejected`.
  * (e) `#:name` followed by an unclosed comment at the end of the input (`#:a ;c`, INVALID_SYNTAX
    0..6): `site_ns_noBrace` covers it (hypothesis `skipWs x ≠ 0x7B :: r`), no headline was stated.
-/

end Edn.Proofs.RejectDocClj
