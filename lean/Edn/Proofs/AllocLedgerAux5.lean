/-
  Edn.Proofs.AllocLedgerAux5 — one unit of fuel: each of `readSeqA`, `readMapA`, `readNsMapA`,
  `readTaggedA`, `readMetaA` keeps the ledger (`RG`) when the functions it calls (with one unit
  of fuel less) do.
-/
import Edn.Proofs.AllocLedgerAux4

namespace Edn.Proofs.AllocLedger
open Edn.Model Edn.Proofs.AllocBasic
open Edn.Generated

def PV (x : ACtx) (f : Nat) : Prop := ∀ d dm st a, RG a (readValueA x f d dm st a)
def PS (x : ACtx) (f : Nat) : Prop := ∀ d dm kind start st a b acc, RG a (readSeqA x f d dm kind start st a b acc)
def PM (x : ACtx) (f : Nat) : Prop := ∀ d dm start ns st a b ks vs, RG a (readMapA x f d dm start ns st a b ks vs)
def PN (x : ACtx) (f : Nat) : Prop := ∀ d dm start st a, RG a (readNsMapA x f d dm start st a)
def PT (x : ACtx) (f : Nat) : Prop := ∀ d dm start st a, RG a (readTaggedA x f d dm start st a)
def PMe (x : ACtx) (f : Nat) : Prop := ∀ d dm start st a, RG a (readMetaA x f d dm start st a)

/-- a value made by a granted request, after the pair has been taken apart -/
theorem RG.ok' {a a1 a2 : ASt} (g : Good a a1) (orc : Nat → Bool) (h : a1.request orc .arena = (true, a2))
    (v : Val) (st : St) : RG a (.ok v st, a2) := by
  have := RG.ok g orc (by rw [h]) v st
  rwa [h] at this

theorem request_good' {a1 a2 : ASt} {ok : Bool} (orc : Nat → Bool) (h : a1.request orc .arena = (ok, a2)) : Good a1 a2 := by
  have := request_good orc a1 0
  rwa [h] at this

theorem readSeqA_step (x : ACtx) (f : Nat) (ihV : PV x f) (ihS : PS x f) : PS x (f + 1) := by
  intro d dm kind start st a b acc
  rw [readSeqA]
  dsimp only
  have h1 := ihV (d + 1) dm st a
  rcases hq : readValueA x f (d + 1) dm st a with ⟨r, a'⟩
  rw [hq] at h1
  cases r with
  | ok v st' =>
    dsimp only
    have hb := BSt.add_good x b a'
    rcases hqb : b.add x a' with ⟨ob, a1⟩
    rw [hqb] at hb
    cases ob with
    | none => exact RG.err (Good.trans h1.1 hb) _ _
    | some b' => exact RG.after (Good.trans h1.1 hb) (ihS d dm kind start st' a1 b' (v :: acc))
  | err e st' =>
    dsimp only
    split <;> exact RG.err h1.1 _ _
  | closer st' =>
    dsimp only
    split
    · exact RG.err h1.1 _ _
    · split
      · exact RG.err h1.1 _ _
      · have hf := BSt.finish_good x b a'
        rcases hqf : b.finish x a' with ⟨okF, a1⟩
        rw [hqf] at hf
        have g1 := Good.trans h1.1 hf
        cases okF
        · exact RG.err g1 _ _
        · dsimp only
          simp only [Bool.not_true, Bool.false_eq_true, ↓reduceIte]
          split
          · rcases hq2 : a1.request x.orc .arena with ⟨okV, a2⟩
            cases okV
            · exact RG.err (Good.trans g1 (request_good' x.orc hq2)) _ _
            · exact RG.ok' g1 x.orc hq2 _ _
          · split
            · rcases hq2 : a1.request x.orc .arena with ⟨okV, a2⟩
              cases okV
              · exact RG.err (Good.trans g1 (request_good' x.orc hq2)) _ _
              · exact RG.ok' g1 x.orc hq2 _ _
            · have hd := hasDuplicatesA_good x acc.reverse a1
              rcases hqd : hasDuplicatesA x acc.reverse a1 with ⟨⟨dup, ys⟩, a2⟩
              rw [hqd] at hd
              have g2 := Good.trans g1 hd
              dsimp only
              split
              · exact RG.err g2 _ _
              · cases dup
                · simp only [Bool.false_eq_true, ↓reduceIte]
                  rcases hq3 : a2.request x.orc .arena with ⟨okV, a3⟩
                  cases okV
                  · exact RG.err (Good.trans g2 (request_good' x.orc hq3)) _ _
                  · exact RG.ok' g2 x.orc hq3 _ _
                · exact RG.err g2 _ _

theorem readMapA_step (x : ACtx) (f : Nat) (ihV : PV x f) (ihM : PM x f) : PM x (f + 1) := by
  intro d dm start ns st a b ks vs
  rw [readMapA]
  dsimp only
  have h1 := ihV (d + 1) dm st a
  rcases hq : readValueA x f (d + 1) dm st a with ⟨r, a'⟩
  rw [hq] at h1
  cases r with
  | err e st' =>
    dsimp only
    split <;> exact RG.err h1.1 _ _
  | closer st' =>
    dsimp only
    split
    · exact RG.err h1.1 _ _
    · split
      · exact RG.err h1.1 _ _
      · have hf := finishPair_good x b a'
        rcases hqf : b.finishPair x a' with ⟨okF, a1⟩
        rw [hqf] at hf
        have g1 := Good.trans h1.1 hf
        cases okF
        · exact RG.err g1 _ _
        · dsimp only
          simp only [Bool.not_true, Bool.false_eq_true, ↓reduceIte]
          have hd := hasDuplicatesA_good x ks.reverse a1
          rcases hqd : hasDuplicatesA x ks.reverse a1 with ⟨⟨dup, keys'⟩, a2⟩
          rw [hqd] at hd
          have g2 := Good.trans g1 hd
          dsimp only
          split
          · exact RG.err g2 _ _
          · cases dup
            · simp only [Bool.false_eq_true, ↓reduceIte]
              rcases hq3 : a2.request x.orc .arena with ⟨okV, a3⟩
              cases okV
              · exact RG.err (Good.trans g2 (request_good' x.orc hq3)) _ _
              · exact RG.ok' g2 x.orc hq3 _ _
            · exact RG.err g2 _ _
  | ok k st' =>
    dsimp only
    have h2 := RG.after h1.1 (ihV (d + 1) dm st' a')
    rcases hq2 : readValueA x f (d + 1) dm st' a' with ⟨r2, a''⟩
    rw [hq2] at h2
    cases r2 with
    | closer st'' => exact RG.err h2.1 _ _
    | err e st'' =>
      dsimp only
      split <;> exact RG.err h2.1 _ _
    | ok v st'' =>
      dsimp only
      have hk : Good a'' (if ns.isSome && qualifyAllocs k then a''.request x.orc .arena else (true, a'')).2 := by
        split
        · exact request_good x.orc a'' 0
        · exact Good.refl a''
      rcases hqk : (if ns.isSome && qualifyAllocs k then a''.request x.orc .arena else (true, a'')) with ⟨okK, a1⟩
      rw [hqk] at hk
      have g1 := Good.trans h2.1 hk
      cases okK
      · exact RG.err g1 _ _
      · dsimp only
        simp only [Bool.not_true, Bool.false_eq_true, ↓reduceIte]
        have hb := BSt.addPair_good x b a1
        rcases hqb : b.addPair x a1 with ⟨ob, a2⟩
        rw [hqb] at hb
        cases ob with
        | none => exact RG.err (Good.trans g1 hb) _ _
        | some b' => exact RG.after (Good.trans g1 hb) (ihM d dm start ns st'' a2 b' _ _)

theorem readNsMapA_step (x : ACtx) (f : Nat) (ihV : PV x f) (ihM : PM x f) : PN x (f + 1) := by
  intro d dm start st a
  rw [readNsMapA]
  dsimp only
  have h1 := ihV d dm st a
  rcases hq : readValueA x f d dm st a with ⟨r, a'⟩
  rw [hq] at h1
  cases r with
  | closer st' => exact RG.closer h1.1 _
  | err e st' => exact RG.err h1.1 _ _
  | ok kwv st' =>
    dsimp only
    split
    · split
      · split
        · exact RG.after h1.1 (ihM d dm start _ _ a' {} [] [])
        · exact RG.err h1.1 _ _
      · exact RG.err h1.1 _ _
    · exact RG.err h1.1 _ _

theorem readMetaA_step (x : ACtx) (f : Nat) (ihV : PV x f) : PMe x (f + 1) := by
  intro d dm start st a
  rw [readMetaA]
  dsimp only
  have h1 := ihV (d + 1) dm st a
  rcases hq : readValueA x f (d + 1) dm st a with ⟨r, a'⟩
  rw [hq] at h1
  cases r with
  | closer st' => exact RG.err h1.1 _ _
  | err e st' => exact RG.err h1.1 _ _
  | ok m st' =>
    dsimp only
    split
    · exact RG.err h1.1 _ _
    · have h2 := RG.after h1.1 (ihV (d + 1) dm st' a')
      rcases hq2 : readValueA x f (d + 1) dm st' a' with ⟨r2, a''⟩
      rw [hq2] at h2
      cases r2 with
      | closer st'' => exact RG.err h2.1 _ _
      | err e st'' => exact RG.err h2.1 _ _
      | ok form st'' =>
        dsimp only
        split
        · exact RG.err h2.1 _ _
        · next nks nvs _ _ =>
          have hm := attachMetaA_good x m form nks nvs a''
          rcases hqm : attachMetaA x m form nks nvs a'' with ⟨o, a1⟩
          rw [hqm] at hm
          cases o with
          | none => exact RG.err (Good.trans h2.1 hm) _ _
          | some form' => exact RG.pass h2 hm _

theorem readTaggedA_step (x : ACtx) (f : Nat) (ihV : PV x f) : PT x (f + 1) := by
  intro d dm start st a
  rw [readTaggedA]
  dsimp only
  split
  · exact RG.err (Good.refl a) _ _
  · split
    · exact RG.err (Good.refl a) _ _
    · have h1 := readIdentifierA_rg x st a
      rcases hq : readIdentifierA x st a with ⟨r, a'⟩
      rw [hq] at h1
      cases r with
      | closer st' => exact RG.closer h1.1 _
      | err e st' => exact RG.err h1.1 _ _
      | ok tagv st' =>
        dsimp only
        split
        · have h2 := RG.after h1.1 (ihV (d + 1) dm st' a')
          rcases hq2 : readValueA x f (d + 1) dm st' a' with ⟨r2, a''⟩
          rw [hq2] at h2
          cases r2 with
          | closer st'' => exact RG.err h2.1 _ _
          | err e st'' => exact RG.err h2.1 _ _
          | ok v st'' =>
            dsimp only
            have hpass : ∀ w st3, RG a (match a''.request x.orc .arena with
                | (okV, a1) => if !okV then (Res.err oomErr st'', a1) else (Res.ok w st3, a1)) := by
              intro w st3
              rcases hq3 : a''.request x.orc .arena with ⟨okV, a1⟩
              cases okV
              · exact RG.err (Good.trans h2.1 (request_good' x.orc hq3)) _ _
              · exact RG.ok' h2.1 x.orc hq3 _ _
            split
            · exact hpass _ _
            · split
              · exact hpass _ _
              · split
                · next h _ =>
                  have hh : Good a'' (if x.handlerReq h.name then a''.request x.orc .arena else (true, a'')).2 := by
                    split
                    · exact request_good x.orc a'' 0
                    · exact Good.refl a''
                  rcases hqh : (if x.handlerReq h.name then a''.request x.orc .arena else (true, a'')) with ⟨okH, a1⟩
                  rw [hqh] at hh
                  cases okH
                  · exact RG.err (Good.trans h2.1 hh) _ _
                  · dsimp only
                    simp only [Bool.not_true, Bool.false_eq_true, ↓reduceIte]
                    split
                    · exact RG.err (Good.trans h2.1 hh) _ _
                    · exact RG.pass h2 (Good.trans hh (rekey_good _ _ _)) _
                · split
                  · exact RG.pass h2 (Good.refl _) _
                  · split
                    · exact RG.err h2.1 _ _
                    · exact hpass _ _
        · exact RG.err h1.1 _ _

end Edn.Proofs.AllocLedger
