/-
  Edn.Proofs.RejectDocAux6 — C10, whole documents: the backward half of "end of input at top
  level iff `TopTrivia`", by induction on the fuel over the reader functions reachable in the
  core configuration: an error flagged `eofTop` comes from `readValue` at depth 0 on a
  `TopTrivia` input, and from nowhere else.
-/
import Edn.Proofs.RejectDocAux5

namespace Edn.Proofs.RejectDoc
open Edn.Model Edn.Spec Edn.Generated Edn.Proofs Edn.Proofs.Cmpl Edn.Proofs.Snd

/-- an error result (if it is one) is not flagged "end of input between top-level forms" -/
def noTop : Res → Bool
  | .err e _ => !e.eofTop
  | _ => true

theorem leaf_noTop (ctx : Ctx) (st : St) :
    noTop (readString ctx st) = true ∧ noTop (readCharacter ctx st) = true ∧
    noTop (readIdentifier ctx st) = true ∧ noTop (readSymbolic ctx st) = true ∧
    noTop (readNumberRes ctx st) = true := by
  refine ⟨?_, ?_, ?_, ?_, ?_⟩
  · unfold readString
    simp only []
    repeat' split
    all_goals rfl
  · rw [readCharacter_eq]
    repeat' split
    all_goals rfl
  · unfold readIdentifier
    simp only []
    repeat' split
    all_goals rfl
  · unfold readSymbolic
    simp only []
    repeat' split
    all_goals rfl
  · unfold readNumberRes
    simp only []
    repeat' split
    all_goals rfl

/-- `readValue`: an `eofTop` error only at depth 0 and only on a `TopTrivia` input -/
def TV (RV : RVT) : Prop :=
  ∀ d dm st e st', RV d dm st = .err e st' → e.eofTop = true → d = 0 ∧ TopTrivia st.rest
def NS (RS : RST) : Prop := ∀ d dm kind start st acc, noTop (RS d dm kind start st acc) = true
def NM (RM : RMT) : Prop := ∀ d dm start ns st ks vs, noTop (RM d dm start ns st ks vs) = true
def N4 (R : R4T) : Prop := ∀ d dm start st, noTop (R d dm start st) = true

/-- what soundness says about the values `RV` returns -/
def SoundV (RV : RVT) : Prop :=
  ∀ d dm st v st', d ≤ Tables.maxNestingDepth → RV d dm st = .ok v st' →
    ∃ k tok, d + k ≤ Tables.maxNestingDepth ∧ st.rest = tok ++ st'.rest ∧ Form k (strip v) tok st'.rest

theorem TV.deep {RV : RVT} (h : TV RV) (d : Nat) (dm : Bool) (st : St) : noTop (RV (d + 1) dm st) = true := by
  cases hr : RV (d + 1) dm st with
  | ok v st' => rfl
  | closer st' => rfl
  | err e st' =>
    cases ht : e.eofTop with
    | false => simp only [noTop, ht]; rfl
    | true => have := (h (d + 1) dm st e st' hr ht).1; omega

theorem noTop_err {r : Res} {e : ErrInfo} {st' : St} (h : noTop r = true) (hr : r = .err e st') : e.eofTop = false := by
  subst hr
  simpa [noTop] using h

theorem rvStep_top (ctx : Ctx) (hc : ctx.cfg = Cfg.core) {RV : RVT} {RS : RST} {RM : RMT} {RN RT RMe : R4T}
    (hV : TV RV) (hSd : SoundV RV) (hS : NS RS) (hM : NM RM) (hT : N4 RT)
    (d : Nat) (dm : Bool) (cl : List Call) (c : UInt8) (cs : Bytes) (e : ErrInfo) (st' : St)
    (h : rvStep ctx RV RS RM RN RT RMe d dm cl c cs = .err e st') (ht : e.eofTop = true) :
    d = 0 ∧ TopTrivia (c :: cs) := by
  have hclj : Cfg.core.clj = false := rfl
  obtain ⟨l1, l2, l3, l4, l5⟩ := leaf_noTop ctx { rest := c :: cs, calls := cl }
  -- every branch but the discard is not flagged
  have key : ∀ {r : Res}, noTop r = true → r = .err e st' → d = 0 ∧ TopTrivia (c :: cs) := by
    intro r h1 h2
    rw [noTop_err h1 h2] at ht
    cases ht
  unfold rvStep at h
  simp only [hc] at h
  cases hd : dispatch Cfg.core c with
  | string => rw [hd] at h; exact key l1 h
  | character => rw [hd] at h; exact key l2 h
  | listOpen =>
    rw [hd] at h
    simp only [] at h
    split at h
    · exact key (r := .err _ _) rfl h
    · exact key (hS _ _ _ _ _ _) h
  | vectorOpen =>
    rw [hd] at h
    simp only [] at h
    split at h
    · exact key (r := .err _ _) rfl h
    · exact key (hS _ _ _ _ _ _) h
  | mapOpen =>
    rw [hd] at h
    simp only [] at h
    split at h
    · exact key (r := .err _ _) rfl h
    · exact key (hM _ _ _ _ _ _ _) h
  | hash =>
    rw [hd] at h
    have hcc := disp_hash hd
    subst hcc
    cases cs with
    | nil =>
      simp only [] at h
      exact key (hT _ _ _ _) h
    | cons nx cs' =>
      simp only [] at h
      split at h
      · exact key l4 h
      split at h
      · exact key (r := .err _ _) rfl h
      rename_i hnx1 hdeep
      have hdd : d < Tables.maxNestingDepth := by simpa using hdeep
      split at h
      · exact key (hS _ _ _ _ _ _) h
      split at h
      · rename_i hnx2 hnx
        have : nx = 0x5F := by simpa using hnx
        subst this
        cases h1 : RV (d + 1) true { rest := cs', calls := cl } with
        | err e1 st1 =>
          rw [h1] at h
          exact key (hV.deep d true _) (h1.trans h)
        | closer st1 =>
          rw [h1] at h
          exact key (r := .err _ _) rfl h
        | ok b st1 =>
          rw [h1] at h
          simp only [] at h
          obtain ⟨hd0, htt⟩ := hV d dm st1 e st' h ht
          obtain ⟨k, tok, hk, e1, f1⟩ := hSd (d + 1) true _ b st1 (by omega) h1
          simp only [] at e1
          refine ⟨hd0, ?_⟩
          have := TopTrivia.discard [] tok st1.rest k (strip b) .nil (by omega) f1 htt
          rw [e1]
          simpa using this
      · simp only [hclj, Bool.false_and, Bool.false_eq_true, if_false] at h
        exact key (hT _ _ _ _) h
  | sign =>
    rw [hd] at h
    simp only [] at h
    cases cs with
    | nil => exact key l3 h
    | cons nx t =>
      simp only [] at h
      split at h
      · exact key l5 h
      · exact key l3 h
  | digit => rw [hd] at h; exact key l5 h
  | delimiter =>
    rw [hd] at h
    simp only [] at h
    split at h
    · exact key (r := .err _ _) rfl h
    · cases h
  | metadata => exact absurd hd (disp_not_metadata c)
  | identifier => rw [hd] at h; exact key l3 h

theorem rvOuter_top (ctx : Ctx) (hc : ctx.cfg = Cfg.core) {RV : RVT} {RS : RST} {RM : RMT} {RN RT RMe : R4T}
    (hV : TV RV) (hSd : SoundV RV) (hS : NS RS) (hM : NM RM) (hT : N4 RT) : TV (rvOuter ctx RV RS RM RN RT RMe) := by
  intro d dm st e st' h ht
  unfold rvOuter at h
  cases hs : st.rest with
  | nil =>
    rw [hs] at h
    simp only [eofErrOf, Res.err.injEq] at h
    rw [← h.1] at ht
    simp only [beq_iff_eq] at ht
    exact ⟨ht, .eof [] .nil⟩
  | cons c0 t =>
    rw [hs] at h
    simp only [] at h
    cases hw : (if isPreWs c0 = true then skipWs (c0 :: t) else c0 :: t) with
    | nil =>
      rw [hw] at h
      simp only [eofErrOf, Res.err.injEq] at h
      rw [← h.1] at ht
      simp only [beq_iff_eq] at ht
      refine ⟨ht, .eof _ ?_⟩
      by_cases hp : isPreWs c0 = true
      · rw [if_pos hp, skipWs_eq] at hw
        exact (skipWsScalar_nil_iff _).1 hw
      · rw [if_neg hp] at hw
        cases hw
    | cons c cs =>
      rw [hw] at h
      simp only [] at h
      obtain ⟨tr, hb, htr⟩ := preSkip_inv hw
      obtain ⟨h0, h1⟩ := rvStep_top ctx hc hV hSd hS hM hT d dm st.calls c cs e st' h ht
      rw [htr]
      exact ⟨h0, h1.blank hb⟩

theorem rsStep_top (ctx : Ctx) {RV : RVT} {RS : RST} (hV : TV RV) (hS : NS RS)
    (d : Nat) (dm : Bool) (kind start : Nat) (st : St) (acc : List Val) :
    noTop (rsStep ctx RV RS d dm kind start st acc) = true := by
  unfold rsStep
  have h1 := hV.deep d dm st
  cases hr : RV (d + 1) dm st with
  | ok v st' => simp only []; exact hS _ _ _ _ _ _
  | err e st' =>
    rw [hr] at h1
    simp only []
    split
    · rfl
    · exact h1
  | closer st' =>
    simp only []
    repeat' split
    all_goals rfl

theorem rmStep_top (ctx : Ctx) {RV : RVT} {RM : RMT} (hV : TV RV) (hM : NM RM)
    (d : Nat) (dm : Bool) (start : Nat) (ns : Option Bytes) (st : St) (ks vs : List Val) :
    noTop (rmStep ctx RV RM d dm start ns st ks vs) = true := by
  unfold rmStep
  simp only []
  have h1 := hV.deep d dm st
  cases hr : RV (d + 1) dm st with
  | ok k st' =>
    simp only []
    have h2 := hV.deep d dm st'
    cases hr2 : RV (d + 1) dm st' with
    | ok v st'' => simp only []; exact hM _ _ _ _ _ _ _
    | err e st'' =>
      rw [hr2] at h2
      simp only []
      split
      · rfl
      · exact h2
    | closer st'' => rfl
  | err e st' =>
    rw [hr] at h1
    simp only []
    split
    · rfl
    · exact h1
  | closer st' =>
    simp only []
    repeat' split
    all_goals rfl

theorem rtStep_top (ctx : Ctx) {RV : RVT} (hV : TV RV)
    (d : Nat) (dm : Bool) (start : Nat) (st : St) :
    noTop (rtStep ctx RV d dm start st) = true := by
  unfold rtStep
  simp only []
  split
  · rfl
  · split
    · rfl
    · have h2 := (leaf_noTop ctx st).2.2.1
      cases hr : readIdentifier ctx st with
      | closer st' => rfl
      | err e st' => rw [hr] at h2; exact h2
      | ok tagv st' =>
        simp only []
        split
        · have h3 := hV.deep d dm st'
          cases hr2 : RV (d + 1) dm st' with
          | closer st'' => rfl
          | err e st'' => rw [hr2] at h3; exact h3
          | ok v st'' =>
            simp only []
            repeat' split
            all_goals rfl
        · rfl

/-- the fuel induction -/
theorem reader_top (opts : Opts) (hreg : opts.registry = none) : ∀ (f : Nat),
    TV (readValue (cctx opts) f) ∧ NS (readSeq (cctx opts) f) ∧ NM (readMap (cctx opts) f) ∧
    N4 (readTagged (cctx opts) f) := by
  intro f
  induction f with
  | zero =>
    refine ⟨?_, ?_, ?_, ?_⟩
    · intro d dm st e st' h ht
      rw [readValue_zero] at h
      simp only [fuelOut, Res.err.injEq] at h
      rw [← h.1] at ht
      cases ht
    · intro d dm kind start st acc; rw [readSeq_zero]; rfl
    · intro d dm start ns st ks vs; rw [readMap_zero]; rfl
    · intro d dm start st; rw [readTagged_zero]; rfl
  | succ f ih =>
    obtain ⟨hV, hS, hM, hT⟩ := ih
    have hSd : SoundV (readValue (cctx opts) f) := by
      intro d dm st v st' hd h
      obtain ⟨k, tok, h1, h2, -, h3⟩ := readValue_core_sound_fits opts hreg f d dm st st' v hd h
      exact ⟨k, tok, h1, h2, h3⟩
    refine ⟨?_, ?_, ?_, ?_⟩
    · rw [show readValue (cctx opts) (f + 1) = rvOuter (cctx opts) (readValue (cctx opts) f) (readSeq (cctx opts) f)
          (readMap (cctx opts) f) (readNsMap (cctx opts) f) (readTagged (cctx opts) f) (readMeta (cctx opts) f) from by
        funext d dm st; exact readValue_succ _ f d dm st]
      exact rvOuter_top _ rfl hV hSd hS hM hT
    · intro d dm kind start st acc; rw [readSeq_succ]; exact rsStep_top _ hV hS d dm kind start st acc
    · intro d dm start ns st ks vs; rw [readMap_succ]; exact rmStep_top _ hV hM d dm start ns st ks vs
    · intro d dm start st; rw [readTagged_succ]; exact rtStep_top _ hV d dm start st

/-- backward half: an `eofTop` error means a `TopTrivia` input read at depth 0 -/
theorem eofTop_inv (opts : Opts) (hreg : opts.registry = none) (f d : Nat) (dm : Bool) (st st' : St) (e : ErrInfo)
    (h : readValue (cctx opts) f d dm st = .err e st') (ht : e.eofTop = true) : d = 0 ∧ TopTrivia st.rest :=
  (reader_top opts hreg f).1 d dm st e st' h ht

end Edn.Proofs.RejectDoc
