/-
  Edn.Proofs.StrSound — string decoding, exactly: `edn_string_get` (with the escape flag)
  returns bytes for a string literal's content precisely when the content is a sequence of
  maximal units of `Edn.Spec.StringFull` (plain bytes, the escapes of the build, and with
  the Clojure flag the octal escapes), and the bytes are the ones the units denote.

  The decoder itself does not look for quotes (a bare `"` in the data is copied like any
  other byte), whereas a unit is never a bare quote.  The content of a literal never
  contains an unescaped quote (`readString` cuts at the first one), which is the hypothesis
  `findQuote sp = none` of `stringGet_iff`; `readString_iff` states the whole thing at the
  level of the token, where the hypothesis is discharged by the reader.
-/
import Edn.Proofs.StrSoundAux1

namespace Edn.Proofs
open Edn.Model Edn.Spec

/-! ### the quote scanner -/

theorem findQuoteScalar_nil (bs : Bool) : findQuoteScalar bs [] = none := rfl

/-- whether a quote is found does not depend on the backslash flag carried along -/
theorem findQuoteScalar_none_bs : ∀ (n : Nat) (s : Bytes) (bs bs' : Bool), s.length ≤ n →
    findQuoteScalar bs s = none → findQuoteScalar bs' s = none := by
  intro n
  induction n with
  | zero =>
    intro s bs bs' hl _
    have : s = [] := List.eq_nil_of_length_eq_zero (by omega)
    subst this; rfl
  | succ n ih =>
    intro s bs bs' hl h
    cases s with
    | nil => rfl
    | cons c cs =>
      rw [findQuoteScalar_cons] at h ⊢
      by_cases e1 : (c == 0x5C) = true
      · simp only [e1, if_true] at h ⊢
        exact h
      · simp only [e1, Bool.false_eq_true, if_false] at h ⊢
        by_cases e2 : (c == 0x22) = true
        · simp [e2] at h
        · simp only [e2, Bool.false_eq_true, if_false] at h ⊢
          exact ih cs bs bs' (by simp at hl; omega) h

/-- where the scanner stops: at a quote, after a prefix in which it finds none -/
theorem findQuoteScalar_some_split : ∀ (n : Nat) (s : Bytes) (bs : Bool) (q : Bytes) (e : Bool), s.length ≤ n →
    findQuoteScalar bs s = some (q, e) →
    ∃ pre r, s = pre ++ 0x22 :: r ∧ q = 0x22 :: r ∧ findQuoteScalar bs pre = none ∧
      e = (bs || pre.contains 0x5C) := by
  intro n
  induction n with
  | zero =>
    intro s bs q e hl h
    have : s = [] := List.eq_nil_of_length_eq_zero (by omega)
    subst this; cases h
  | succ n ih =>
    intro s bs q e hl h
    cases s with
    | nil => cases h
    | cons c cs =>
      rw [findQuoteScalar_cons] at h
      by_cases e1 : c = 0x5C
      · subst e1
        simp only [beq_self_eq_true, if_true] at h
        cases cs with
        | nil => cases h
        | cons x cs' =>
          simp only [] at h
          obtain ⟨pre, r, rfl, rfl, hn, he⟩ := ih cs' true q e (by simp at hl; omega) h
          refine ⟨0x5C :: x :: pre, r, rfl, rfl, ?_, ?_⟩
          · rw [findQuoteScalar_cons]; simpa using hn
          · simp [he]
      · have b1 : (c == 0x5C) = false := by simpa using e1
        simp only [b1, Bool.false_eq_true, if_false] at h
        by_cases e2 : c = 0x22
        · subst e2
          simp only [beq_self_eq_true, if_true, Option.some.injEq, Prod.mk.injEq] at h
          obtain ⟨rfl, rfl⟩ := h
          exact ⟨[], cs, rfl, rfl, rfl, by simp⟩
        · have b2 : (c == 0x22) = false := by simpa using e2
          simp only [b2, Bool.false_eq_true, if_false] at h
          obtain ⟨pre, r, rfl, rfl, hn, he⟩ := ih cs bs q e (by simp at hl; omega) h
          refine ⟨c :: pre, r, rfl, rfl, ?_, ?_⟩
          · rw [findQuoteScalar_cons]; simpa [b1, b2] using hn
          · have : ¬ (0x5C : UInt8) = c := fun h => e1 h.symm
            simp [he, this]

/-- one extended unit under the quote scanner -/
theorem findQuote_unitX (cfg : Cfg) (sp dn : Bytes) (h : StrUnitX cfg sp dn) (bs : Bool) (t : Bytes) :
    findQuoteScalar bs (sp ++ t) = findQuoteScalar (bs || sp.contains 0x5C) t := by
  cases h with
  | base h => exact findQuote_unit cfg sp dn h bs t
  | octal hc ds ho =>
    have hall : ∀ l : Bytes, (∀ d ∈ l, isOct d = true) → l.all (fun c => !isQuoteSpecial c) = true := by
      intro l hl
      rw [List.all_eq_true]
      intro d hd
      have := octByte (hl d hd)
      simp [isQuoteSpecial, this.q, this.bsl]
    rcases octDigits_cases ho with ⟨a, rfl, ha⟩ | ⟨a, b, rfl, ha, hb, hv⟩ | ⟨a, b, c, rfl, ha, hb, hc', hv⟩
    · simp [findQuoteScalar_cons]
    · have := findQuoteScalar_prefix true [b] t (hall _ (by simp [hb]))
      simp only [List.cons_append, List.nil_append] at this
      simp [findQuoteScalar_cons, this]
    · have := findQuoteScalar_prefix true [b, c] t (hall _ (by simp [hb, hc']))
      simp only [List.cons_append, List.nil_append] at this
      simp [findQuoteScalar_cons, this]

/-- a spelled content never contains an unescaped quote: the scan runs through it -/
theorem findQuote_contentX (cfg : Cfg) (sp dn : Bytes) (h : StrContentX cfg sp dn) (bs : Bool) (rest : Bytes) :
    findQuoteScalar bs (sp ++ 0x22 :: rest) = some (0x22 :: rest, bs || sp.contains 0x5C) := by
  induction h generalizing bs with
  | nil => simp [findQuoteScalar_cons]
  | cons hu _ _ ih =>
    rw [List.append_assoc, findQuote_unitX cfg _ _ hu, ih, List.contains_append, Bool.or_assoc]

/-- … and without a closing quote the literal is unterminated -/
theorem findQuote_unterminatedX (cfg : Cfg) (sp dn : Bytes) (h : StrContentX cfg sp dn) (bs : Bool) :
    findQuoteScalar bs sp = none := by
  induction h generalizing bs with
  | nil => rfl
  | cons hu _ _ ih => rw [findQuote_unitX cfg _ _ hu, ih]

/-! ### completeness: the decoder runs through a spelled content -/

theorem decode_contentX_append (cfg : Cfg) (sp dn : Bytes) (h : StrContentX cfg sp dn) :
    ∃ k, k ≤ sp.length ∧ ∀ (f : Nat),
      decodeString cfg (f + k) sp = (decodeString cfg f []).map (dn ++ ·) := by
  induction h with
  | nil => exact ⟨0, Nat.le_refl _, fun f => by simp⟩
  | cons hu hm _ ih =>
    obtain ⟨k, hk, hdec⟩ := ih
    refine ⟨k + 1, ?_, ?_⟩
    · have := unitX_length_pos cfg _ _ hu
      simp only [List.length_append]; omega
    · intro f
      rw [← Nat.add_assoc, decode_unitX cfg _ _ hu _ _ hm, hdec, Option.map_map]
      congr 1
      funext x
      simp

/-- decoding a spelled content yields exactly the bytes it denotes -/
theorem decode_contentX (cfg : Cfg) (sp dn : Bytes) (h : StrContentX cfg sp dn) (f : Nat) (hf : sp.length < f) :
    decodeString cfg f sp = some dn := by
  obtain ⟨k, hk, hdec⟩ := decode_contentX_append cfg sp dn h
  obtain ⟨g, rfl⟩ : ∃ g, f = (g + 1) + k := ⟨f - k - 1, by omega⟩
  have := hdec (g + 1)
  simpa [decodeString] using this

theorem unitX_no_backslash (cfg : Cfg) (sp dn : Bytes) (h : StrUnitX cfg sp dn)
    (hb : sp.contains 0x5C = false) : dn = sp := by
  cases h with
  | base h => exact unit_no_backslash cfg sp dn h hb
  | octal _ ds _ => simp at hb

/-- a content without backslash denotes itself (zero-copy path) -/
theorem no_backslash_plainX (cfg : Cfg) (sp dn : Bytes) (h : StrContentX cfg sp dn) (hb : sp.contains 0x5C = false) :
    dn = sp := by
  induction h with
  | nil => rfl
  | cons hu _ _ ih =>
    rw [List.contains_append, Bool.or_eq_false_iff] at hb
    rw [unitX_no_backslash cfg _ _ hu hb.1, ih hb.2]

/-! ### soundness: what the decoder accepts is a spelled content -/

theorem decode_sound (cfg : Cfg) : ∀ (f : Nat) (sp dn : Bytes), decodeString cfg f sp = some dn →
    findQuoteScalar false sp = none → StrContentX cfg sp dn := by
  intro f
  induction f with
  | zero => intro sp dn h; simp [decodeString] at h
  | succ f ih =>
    intro sp dn h hq
    cases sp with
    | nil =>
      simp only [decodeString, Option.some.injEq] at h
      subst h; exact .nil
    | cons c r =>
      rw [decodeString] at h
      by_cases e1 : c = 0x5C
      · subst e1
        simp only [beq_self_eq_true, if_true] at h
        cases he : decodeEscape cfg r with
        | none => simp [he] at h
        | some x =>
          obtain ⟨out, r'⟩ := x
          simp only [he, Option.map_eq_some_iff] at h
          obtain ⟨dn', hd, rfl⟩ := h
          obtain ⟨u, rfl, hu, hm⟩ := decodeEscape_sound cfg r out r' he
          have hq' : findQuoteScalar false r' = none := by
            have := findQuote_unitX cfg _ _ hu false r'
            rw [List.cons_append] at this
            rw [this] at hq
            exact findQuoteScalar_none_bs _ _ _ _ (Nat.le_refl _) hq
          have := StrContentX.cons hu hm (ih r' dn' hd hq')
          simpa using this
      · have b1 : (c == 0x5C) = false := by simpa using e1
        simp only [b1, Bool.false_eq_true, if_false, Option.map_eq_some_iff] at h
        obtain ⟨dn', hd, rfl⟩ := h
        rw [findQuoteScalar_cons] at hq
        simp only [b1, Bool.false_eq_true, if_false] at hq
        by_cases e2 : c = 0x22
        · subst e2; simp at hq
        · have b2 : (c == 0x22) = false := by simpa using e2
          simp only [b2, Bool.false_eq_true, if_false] at hq
          exact StrContentX.cons (sp := [c]) (dn := [c]) (.base (.plain c e2 e1)) (maximal_plain c e1 r)
            (ih r dn' hd hq)

/-- without a backslash the decoder copies -/
theorem decode_no_backslash (cfg : Cfg) : ∀ (sp : Bytes) (f : Nat), sp.length < f → sp.contains 0x5C = false →
    decodeString cfg f sp = some sp := by
  intro sp
  induction sp with
  | nil => intro f hf _; obtain ⟨g, rfl⟩ : ∃ g, f = g + 1 := ⟨f - 1, by simp at hf; omega⟩; rfl
  | cons c r ih =>
    intro f hf hb
    obtain ⟨g, rfl⟩ : ∃ g, f = g + 1 := ⟨f - 1, by omega⟩
    rw [List.contains_cons, Bool.or_eq_false_iff] at hb
    have b1 : (c == 0x5C) = false := by
      have := hb.1
      cases hq : (c == 0x5C)
      · rfl
      · have : c = 0x5C := by simpa using hq
        subst this; simp at hb
    rw [decodeString]
    simp only [b1, Bool.false_eq_true, if_false, ih g (by simp at hf; omega) hb.2, Option.map_some]

/-! ### the theorems -/

/-- without the escape flag the bytes are returned as they are -/
theorem stringGet_raw (cfg : Cfg) (sp : Bytes) : stringGet cfg sp false = some sp := rfl

/-- every content of the basic relation is a content of the full one -/
theorem strContent_toX {cfg : Cfg} {sp dn : Bytes} (h : StrContent cfg sp dn) : StrContentX cfg sp dn := by
  induction h with
  | nil => exact .nil
  | cons hu _ ih => exact .cons (.base hu) (maximal_base cfg _ _ hu _) ih

/-- without the Clojure flag there are no octal escapes: the two relations coincide -/
theorem strContentX_noclj {cfg : Cfg} (hc : cfg.clj = false) {sp dn : Bytes} (h : StrContentX cfg sp dn) :
    StrContent cfg sp dn := by
  induction h with
  | nil => exact .nil
  | cons hu _ _ ih =>
    cases hu with
    | base hu => exact .cons hu ih
    | octal h ds ho => rw [hc] at h; cases h

/-- completeness, no hypothesis: a spelled content decodes to the bytes it denotes -/
theorem stringGet_complete (cfg : Cfg) (sp dn : Bytes) (h : StrContentX cfg sp dn) :
    stringGet cfg sp true = some dn := by
  unfold stringGet
  simpa using decode_contentX cfg sp dn h (sp.length + 1) (by omega)

/-- soundness: whatever the decoder returns for a content without unescaped quote is what
    the units of that content denote -/
theorem stringGet_sound (cfg : Cfg) (sp dn : Bytes) (hq : findQuote sp = none)
    (h : stringGet cfg sp true = some dn) : StrContentX cfg sp dn := by
  unfold stringGet at h
  rw [findQuote_eq] at hq
  exact decode_sound cfg _ sp dn (by simpa using h) hq

/-- **String decoding is exact.**  For the content `sp` of a literal (no unescaped quote
    inside — see `readString_content_noQuote`), `edn_string_get` returns `dn` iff `sp` is a
    sequence of maximal units denoting `dn`. -/
theorem stringGet_iff (cfg : Cfg) (sp dn : Bytes) (hq : findQuote sp = none) :
    stringGet cfg sp true = some dn ↔ StrContentX cfg sp dn :=
  ⟨stringGet_sound cfg sp dn hq, stringGet_complete cfg sp dn⟩

/-- the same without hypothesis: the relation describes exactly the data that decode and
    contain no unescaped quote -/
theorem strContentX_iff (cfg : Cfg) (sp dn : Bytes) :
    StrContentX cfg sp dn ↔ (stringGet cfg sp true = some dn ∧ findQuote sp = none) := by
  constructor
  · intro h
    exact ⟨stringGet_complete cfg sp dn h, by rw [findQuote_eq]; exact findQuote_unterminatedX cfg sp dn h false⟩
  · rintro ⟨h, hq⟩
    exact stringGet_sound cfg sp dn hq h

/-- the core configuration: the basic relation is already exact -/
theorem stringGet_iff_core (sp dn : Bytes) (hq : findQuote sp = none) :
    stringGet Cfg.core sp true = some dn ↔ StrContent Cfg.core sp dn :=
  ⟨fun h => strContentX_noclj rfl (stringGet_sound _ sp dn hq h), fun h => stringGet_complete _ sp dn (strContent_toX h)⟩

/-- … and so it is in every configuration without the Clojure flag -/
theorem stringGet_iff_noclj (cfg : Cfg) (hc : cfg.clj = false) (sp dn : Bytes) (hq : findQuote sp = none) :
    stringGet cfg sp true = some dn ↔ StrContent cfg sp dn :=
  ⟨fun h => strContentX_noclj hc (stringGet_sound _ sp dn hq h), fun h => stringGet_complete _ sp dn (strContent_toX h)⟩

/-- the hypothesis of `stringGet_iff` cannot be dropped: the decoder copies a bare quote,
    which no unit spells -/
theorem stringGet_bare_quote (cfg : Cfg) :
    stringGet cfg [0x61, 0x22, 0x62] true = some [0x61, 0x22, 0x62] ∧
      ¬ StrContentX cfg [0x61, 0x22, 0x62] [0x61, 0x22, 0x62] := by
  refine ⟨?_, fun h => ?_⟩
  · simp [stringGet, decodeString]
  · have := ((strContentX_iff cfg _ _).mp h).2
    rw [findQuote_eq] at this
    simp [findQuoteScalar_cons] at this

/-! ### the token -/

/-- the content the reader stores for an ordinary literal never contains an unescaped quote,
    and the escape flag it stores is "a backslash occurs in the content" -/
theorem readString_content_noQuote (ctx : Ctx) (st st' : St) (h : Hdr) (data : Bytes) (esc : Bool)
    (hnb : (ctx.cfg.exp && startsWith st.rest [0x22, 0x22, 0x22, 0x0A]) = false)
    (hr : readString ctx st = .ok (.str h data esc) st') :
    findQuote data = none ∧ esc = data.contains 0x5C ∧ st.rest.tail = data ++ 0x22 :: st'.rest := by
  unfold readString at hr
  simp only [hnb, Bool.false_eq_true, if_false] at hr
  cases hf : findQuote st.rest.tail with
  | none => simp [hf] at hr
  | some x =>
    obtain ⟨q, e⟩ := x
    simp only [hf, Res.ok.injEq, Val.str.injEq] at hr
    obtain ⟨⟨_, hd, he⟩, hst⟩ := hr
    rw [findQuote_eq] at hf
    obtain ⟨pre, r, hs, rfl, hn, he'⟩ := findQuoteScalar_some_split _ _ _ _ _ (Nat.le_refl _) hf
    rw [hs, slice_append_left] at hd
    subst hd
    subst hst
    refine ⟨by rw [findQuote_eq]; exact hn, ?_, hs⟩
    rw [← he, he']; simp

/-- **String literals, token level.**  On `"` `sp` `"` `rest` (not the opener of a text
    block) the reader returns a string value with data `sp`, stopping right after the second
    quote, and `edn_string_get` on that value yields `dn` — iff `sp` is a sequence of
    maximal units denoting `dn`. -/
theorem readString_iff (ctx : Ctx) (sp dn rest : Bytes) (cl : List Call)
    (hnb : ¬ (ctx.cfg.exp = true ∧ ∃ t, (0x22 :: (sp ++ 0x22 :: rest)) = 0x22 :: 0x22 :: 0x22 :: 0x0A :: t)) :
    (∃ h esc, readString ctx { rest := 0x22 :: (sp ++ 0x22 :: rest), calls := cl } =
        .ok (.str h sp esc) { rest := rest, calls := cl } ∧ stringGet ctx.cfg sp esc = some dn)
      ↔ StrContentX ctx.cfg sp dn := by
  have hcond : (ctx.cfg.exp && startsWith (0x22 :: (sp ++ 0x22 :: rest)) [0x22, 0x22, 0x22, 0x0A]) = false := by
    cases hc : (ctx.cfg.exp && startsWith (0x22 :: (sp ++ 0x22 :: rest)) [0x22, 0x22, 0x22, 0x0A])
    · rfl
    · exfalso
      rw [Bool.and_eq_true] at hc
      refine hnb ⟨hc.1, ?_⟩
      have hp := List.isPrefixOf_iff_prefix.mp hc.2
      obtain ⟨t, ht⟩ := hp
      exact ⟨t, ht.symm⟩
  constructor
  · rintro ⟨h, esc, hr, hg⟩
    obtain ⟨hq, he, _⟩ := readString_content_noQuote ctx _ _ h sp esc hcond hr
    cases hb : sp.contains 0x5C with
    | true =>
      rw [he, hb] at hg
      exact stringGet_sound ctx.cfg sp dn hq hg
    | false =>
      rw [he, hb, stringGet_raw] at hg
      cases hg
      refine stringGet_sound ctx.cfg sp sp hq ?_
      unfold stringGet
      simpa using decode_no_backslash ctx.cfg sp (sp.length + 1) (by omega) hb
  · intro h
    refine ⟨mkHdr (sp.length + 2 + rest.length) rest.length, sp.contains 0x5C, ?_, ?_⟩
    · unfold readString
      simp only [hcond, List.tail_cons, findQuote_eq, findQuote_contentX ctx.cfg sp dn h false rest,
        Bool.false_or, slice_append_left]
      simp only [Bool.false_eq_true, if_false, Ctx.pos, List.length_cons, List.length_append]
      have : sp.length + (rest.length + 1) + 1 = sp.length + 2 + rest.length := by omega
      rw [this]
    · cases hb : sp.contains 0x5C
      · rw [stringGet_raw, no_backslash_plainX ctx.cfg sp dn h hb]
      · exact stringGet_complete ctx.cfg sp dn h

/-! ### examples (the greedy octal escape) -/

/-- `\400` is `\40` followed by `0`: the bytes 0x20 0x30 -/
example : StrContentX ⟨true, false⟩ [0x5C, 0x34, 0x30, 0x30] [0x20, 0x30] :=
  .cons (sp := [0x5C, 0x34, 0x30]) (dn := [0x20])
    (.octal rfl [0x34, 0x30] ⟨by decide, by decide, by decide, by decide⟩)
    (by
      rintro d t ht ⟨ds, hds, ho⟩
      simp only [List.cons.injEq] at ht
      obtain ⟨rfl, rfl⟩ := ht
      simp only [List.cons_append, List.nil_append, List.cons.injEq, true_and] at hds
      subst hds
      exact absurd ho.byte (by decide))
    (.cons (sp := [0x30]) (dn := [0x30]) (.base (.plain 0x30 (by decide) (by decide)))
      (maximal_plain _ (by decide) _) .nil)

/-- `\200` denotes the single byte 0x80 (not the UTF-8 encoding C2 80 of U+0080) -/
example : stringGet ⟨true, false⟩ [0x5C, 0x32, 0x30, 0x30] true = some [0x80] := by decide +kernel

/-- … whereas `\u0080` denotes C2 80 -/
example : stringGet ⟨true, false⟩ [0x5C, 0x75, 0x30, 0x30, 0x38, 0x30] true = some [0xC2, 0x80] := by
  decide +kernel

end Edn.Proofs
