/-
  Edn.Proofs.TextBlockSoundAux1 — converse direction of C20, preparations:
  the exact well-formedness of the closing delimiter (`Closer.WFx`), `TbBody` is closed under
  prefixes, and the content scanner `tbContent` runs through a body whatever follows it, as
  long as what follows does not start with a quote.
-/
import Edn.Proofs.TextBlock

namespace Edn.Spec
open Edn.Model

/-- how the body of the last line may end when the closing `"""` follows it directly: not in a
    backslash (it would escape the delimiter), and in a quote only when that quote is the end
    of an escaped triple quote `\"""` (any other trailing quote would be taken for the first
    byte of the delimiter) -/
def EndOK (b : Bytes) : Prop :=
  b.getLast? ≠ some 0x5C ∧ (b.getLast? = some 0x22 → [0x5C, 0x22, 0x22, 0x22] <:+ b)

instance (b : Bytes) : Decidable (EndOK b) := by unfold EndOK; infer_instance

/-- exact well-formedness of the closing delimiter: `Closer.WF` with the condition on the end of
    the last body relaxed to `EndOK` (`Closer.WF` forbids every trailing quote, also the one of
    `\"""`, which the reader accepts) -/
def Closer.WFx (lines : List SrcLine) : Closer → Prop
  | .inline => ∃ l, lines.getLast? = some l ∧ l.body ≠ [] ∧ EndOK l.body
  | .ownLine ind => ∀ c ∈ ind, isBlank c = true

theorem Closer.WF.toWFx {lines : List SrcLine} {c : Closer} (h : c.WF lines) : c.WFx lines := by
  cases c with
  | ownLine ind => exact h
  | inline =>
    obtain ⟨l, hl, hne, h1, h2⟩ := h
    exact ⟨l, hl, hne, h1, fun h => absurd h h2⟩

/-- the gap between the two: exactly the blocks whose last body ends in an escaped triple quote
    directly followed by the closing delimiter -/
theorem Closer.WFx_iff (lines : List SrcLine) (c : Closer) :
    c.WFx lines ↔ c.WF lines ∨
      (c = .inline ∧ ∃ l, lines.getLast? = some l ∧ [0x5C, 0x22, 0x22, 0x22] <:+ l.body) := by
  cases c with
  | ownLine ind =>
    constructor
    · exact fun h => .inl h
    · rintro (h | ⟨h, -⟩)
      · exact h
      · cases h
  | inline =>
    constructor
    · rintro ⟨l, hl, hne, h1, h2⟩
      by_cases hq : l.body.getLast? = some 0x22
      · exact .inr ⟨rfl, l, hl, h2 hq⟩
      · exact .inl ⟨l, hl, hne, h1, hq⟩
    · rintro (h | ⟨-, l, hl, ⟨p, hp⟩⟩)
      · exact h.toWFx
      · refine ⟨l, hl, ?_, ?_, fun _ => ⟨p, hp⟩⟩
        · rw [← hp]; simp
        · rw [← hp]; simp

/-- the source lines that end in a line feed -/
def encodeLines (lines : List SrcLine) : Bytes :=
  (lines.map fun l => l.indent ++ l.body ++ [0x0A]).flatten

theorem encodeLines_eq (lines : List SrcLine) :
    encodeLines lines = (lines.map fun l => l.indent ++ l.body ++ [0x0A]).flatten := rfl

theorem encodeLines_nil : encodeLines [] = [] := rfl

theorem encodeLines_cons (l : SrcLine) (ls : List SrcLine) :
    encodeLines (l :: ls) = l.indent ++ l.body ++ [0x0A] ++ encodeLines ls := by
  simp [encodeLines]

theorem encodeLines_append (a b : List SrcLine) :
    encodeLines (a ++ b) = encodeLines a ++ encodeLines b := by
  simp [encodeLines]

theorem encodeBlock_own (lines : List SrcLine) (ind : Bytes) :
    encodeBlock lines (.ownLine ind) = encodeLines lines ++ ind ++ [0x22, 0x22, 0x22] := rfl

theorem encodeBlock_inline (init : List SrcLine) (l : SrcLine) :
    encodeBlock (init ++ [l]) .inline = encodeLines init ++ l.indent ++ l.body ++ [0x22, 0x22, 0x22] := by
  simp [encodeBlock, encodeLines]

end Edn.Spec

namespace Edn.Proofs
open Edn.Model Edn.Spec

/-! ### `TbBody` is closed under prefixes -/

theorem not_prefix_of_prefix {p a b : Bytes} (h : ¬ p <+: b) (hab : a <+: b) : ¬ p <+: a :=
  fun hp => h (hp.trans hab)

theorem tbBody_prefix {x : Bytes} (hx : TbBody x) : ∀ p, p <+: x → TbBody p := by
  induction hx with
  | nil =>
    intro p hp
    rw [List.prefix_nil] at hp
    subst hp; exact .nil
  | esc r _ ih =>
    intro p hp
    rcases p with _ | ⟨a, _ | ⟨b, _ | ⟨c, _ | ⟨d, p'⟩⟩⟩⟩
    · exact .nil
    · simp only [List.cons_prefix_cons] at hp
      obtain ⟨rfl, -⟩ := hp
      exact .plain _ _ (by decide) (by decide) (by decide) .nil
    · simp only [List.cons_prefix_cons] at hp
      obtain ⟨rfl, rfl, -⟩ := hp
      exact .plain _ _ (by decide) (by decide) (by decide) (.plain _ _ (by decide) (by decide) (by decide) .nil)
    · simp only [List.cons_prefix_cons] at hp
      obtain ⟨rfl, rfl, rfl, -⟩ := hp
      exact .plain _ _ (by decide) (by decide) (by decide) (.plain _ _ (by decide) (by decide) (by decide)
        (.plain _ _ (by decide) (by decide) (by decide) .nil))
    · simp only [List.cons_prefix_cons] at hp
      obtain ⟨rfl, rfl, rfl, rfl, hp⟩ := hp
      exact .esc p' (ih p' hp)
  | plain c r hlf hq he _ ih =>
    intro p hp
    rcases p with _ | ⟨a, p'⟩
    · exact .nil
    · have hp' := hp
      simp only [List.cons_prefix_cons] at hp'
      obtain ⟨rfl, hp'⟩ := hp'
      exact .plain a p' hlf (not_prefix_of_prefix hq hp) (not_prefix_of_prefix he hp) (ih p' hp')

/-! ### the scanner runs through a body -/

theorem through_q3 (c : UInt8) (r t : Bytes) (ht : t.head? ≠ some 0x22)
    (hq : ¬ [0x22, 0x22, 0x22] <+: c :: r) : ¬ [0x22, 0x22, 0x22] <+: c :: (r ++ t) := by
  rcases r with _ | ⟨r0, _ | ⟨r1, r'⟩⟩ <;> rcases t with _ | ⟨t0, t⟩ <;> simp_all <;> grind

theorem through_q4 (c : UInt8) (r t : Bytes) (ht : t.head? ≠ some 0x22)
    (hq : ¬ [0x5C, 0x22, 0x22, 0x22] <+: c :: r) : ¬ [0x5C, 0x22, 0x22, 0x22] <+: c :: (r ++ t) := by
  rcases r with _ | ⟨r0, _ | ⟨r1, _ | ⟨r2, r'⟩⟩⟩ <;> rcases t with _ | ⟨t0, t⟩ <;> simp_all <;> grind

/-- whatever follows a body, provided it does not start with a quote: the scanner collects the
    body and continues on what follows, with fuel to spare -/
theorem tbContent_through {p : Bytes} (hp : TbBody p) :
    ∀ (f n : Nat) (acc : Bytes) (esc : Bool) (t : Bytes), t.head? ≠ some 0x22 → p.length + n ≤ f →
      ∃ f', n ≤ f' ∧ tbContent f acc esc (p ++ t) = tbContent f' (p.reverse ++ acc) (esc || hasEsc p) t := by
  induction hp with
  | nil =>
    intro f n acc esc t _ hf
    exact ⟨f, by simpa using hf, by simp [hasEsc]⟩
  | esc r _ ih =>
    intro f n acc esc t ht hf
    obtain ⟨k, rfl⟩ : ∃ k, f = k + 1 := ⟨f - 1, by simp at hf; omega⟩
    obtain ⟨f', hn, h⟩ := ih k n (0x22 :: 0x22 :: 0x22 :: 0x5C :: acc) true t ht (by simp at hf; omega)
    refine ⟨f', hn, ?_⟩
    simp only [List.cons_append]
    rw [tbContent_esc, h]
    simp [hasEsc]
  | plain c r hlf hq he _ ih =>
    intro f n acc esc t ht hf
    obtain ⟨k, rfl⟩ : ∃ k, f = k + 1 := ⟨f - 1, by simp at hf; omega⟩
    obtain ⟨f', hn, h⟩ := ih k n (c :: acc) esc t ht (by simp at hf; omega)
    refine ⟨f', hn, ?_⟩
    simp only [List.cons_append]
    rw [tbContent_other _ _ _ _ _ hlf (through_q3 c r t ht hq) (through_q4 c r t ht he), h]
    have : ([0x5C, 0x22, 0x22, 0x22] : Bytes).isPrefixOf (c :: r) = false := by
      rw [Bool.eq_false_iff]; intro h; exact he (List.isPrefixOf_iff_prefix.mp h)
    simp [hasEsc, this]

theorem tbContent_nil (f : Nat) (acc : Bytes) (esc : Bool) : tbContent f acc esc [] = none := by
  cases f <;> rfl

/-- a body followed by the end of the input: the scanner fails -/
theorem tbContent_eof {p : Bytes} (hp : TbBody p) (f : Nat) (acc : Bytes) (esc : Bool) (hf : p.length ≤ f) :
    tbContent f acc esc p = none := by
  obtain ⟨f', -, h⟩ := tbContent_through hp f 0 acc esc [] (by simp) (by simpa using hf)
  rw [List.append_nil] at h
  rw [h, tbContent_nil]

end Edn.Proofs
