/-
  Edn.Proofs.ReReadAux0 — shared vocabulary of the continuation-independence ("cut") proofs:
  list facts about a common trailing part `r`, and the shape of a cut statement for the
  outcomes of the number reader.
-/
import Edn.Spec.ReRead
import Edn.Proofs.Fuel

namespace Edn.Proofs
open Edn.Model Edn.Spec

/-- `big` is the outcome on an input that is followed by `r`, `small` the outcome on the
    input alone: whenever `big` succeeds without touching `r`, `small` succeeds with the same
    payload and the corresponding rest -/
def NumCut (r : Bytes) (big small : NumOut) : Prop :=
  ∀ v rest, big = .ok v rest → r.length ≤ rest.length → ∃ u', rest = u' ++ r ∧ small = .ok v u'

/-- the same for the `Except Bytes Bytes` cursor results (`ratioDenominator`, digit loops) -/
def ExCut (r : Bytes) (big small : Except Bytes Bytes) : Prop :=
  ∀ rest, big = .ok rest → r.length ≤ rest.length → ∃ u', rest = u' ++ r ∧ small = .ok u'

theorem slice_append_right (a b r : Bytes) : slice (a ++ r) (b ++ r) = slice a b := by
  unfold slice
  simp only [List.length_append]
  rw [show a.length + r.length - (b.length + r.length) = a.length - b.length by omega]
  rw [List.take_append_of_le_length (by omega)]

theorem peek_append_cons (a : UInt8) (u r : Bytes) : peek (a :: u ++ r) = a := rfl
theorem adv_append_cons (a : UInt8) (u r : Bytes) : adv (a :: u ++ r) = u ++ r := rfl

/-- two lists with the same trailing part and the same length of the front part -/
theorem append_right_cancel_len {a b r : Bytes} (h : a ++ r = b ++ r) : a = b :=
  List.append_cancel_right h

/-- a suffix of `t ++ r` that is at least as long as `r` has the form `t' ++ r` -/
theorem suffix_split {s t r : Bytes} (hs : s <:+ t ++ r) (hl : r.length ≤ s.length) :
    ∃ t', s = t' ++ r ∧ t' <:+ t := by
  obtain ⟨p, hp⟩ := hs
  have hlen : (p ++ s).length = (t ++ r).length := by rw [hp]
  simp only [List.length_append] at hlen
  have h1 : p = t.take p.length := by
    have := congrArg (List.take p.length) hp
    rw [List.take_left' rfl, List.take_append_of_le_length (by omega)] at this
    exact this
  have h2 : s = t.drop p.length ++ r := by
    have := congrArg (List.drop p.length) hp
    rw [List.drop_left' rfl, List.drop_append_of_le_length (by omega)] at this
    exact this
  exact ⟨t.drop p.length, h2, List.drop_suffix _ _⟩

end Edn.Proofs
