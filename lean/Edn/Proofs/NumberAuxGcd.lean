/-
  Edn.Proofs.NumberAuxGcd — `ratio_gcd` (Stein's binary gcd with fuel) computes `Nat.gcd`
  on int64 magnitudes.
-/
import Edn.Model.Number

namespace Edn.Proofs.NumGcd
open Edn.Model

/-! ### arithmetic helpers -/

theorem coprime_two_of_odd {c : Nat} (hc : c % 2 = 1) : Nat.Coprime 2 c := by
  unfold Nat.Coprime
  rw [Nat.gcd_rec, hc]
  exact Nat.gcd_one_left 2

theorem coprime_two_pow_of_odd {c : Nat} (hc : c % 2 = 1) (k : Nat) : Nat.Coprime (2 ^ k) c :=
  Nat.Coprime.pow_left k (coprime_two_of_odd hc)

theorem gcd_odd_mul_two_pow {c : Nat} (hc : c % 2 = 1) (x k : Nat) :
    Nat.gcd c (x * 2 ^ k) = Nat.gcd c x :=
  Nat.Coprime.gcd_mul_right_cancel_right x (coprime_two_pow_of_odd hc k)

theorem gcd_mul_two_pow_odd {c : Nat} (hc : c % 2 = 1) (x k : Nat) :
    Nat.gcd (x * 2 ^ k) c = Nat.gcd x c := by
  rw [Nat.gcd_comm, gcd_odd_mul_two_pow hc, Nat.gcd_comm]

theorem or_mod_two_eq_zero (a b : Nat) : (a ||| b) % 2 = 0 ↔ a % 2 = 0 ∧ b % 2 = 0 := by
  have h := @Nat.or_mod_two_pow a b 1
  rw [Nat.pow_one] at h
  rw [h]
  rcases Nat.mod_two_eq_zero_or_one a with ha | ha <;>
    rcases Nat.mod_two_eq_zero_or_one b with hb | hb <;> simp [ha, hb]

theorem two_pow_pos (k : Nat) : 0 < 2 ^ k := Nat.two_pow_pos k

theorem le_mul_two_pow (r k : Nat) : r ≤ r * 2 ^ k :=
  Nat.le_mul_of_pos_right r (two_pow_pos k)

/-! ### gcdStrip2 -/

theorem gcdStrip2_zero (a : Nat) : gcdStrip2 0 a = a := rfl

theorem gcdStrip2_succ (f a : Nat) :
    gcdStrip2 (f + 1) a = if a % 2 == 0 && a != 0 then gcdStrip2 f (a / 2) else a := rfl

theorem gcdStrip2_odd {a : Nat} (ha : a % 2 = 1) (f : Nat) : gcdStrip2 f a = a := by
  cases f with
  | zero => rfl
  | succ f => rw [gcdStrip2_succ]; simp [ha]

theorem gcdStrip2_spec : ∀ (f a : Nat), 0 < a → a < 2 ^ f →
    ∃ k, a = gcdStrip2 f a * 2 ^ k ∧ gcdStrip2 f a % 2 = 1 := by
  intro f
  induction f with
  | zero => intro a h0 h1; simp at h1; omega
  | succ f ih =>
    intro a h0 h1
    rw [gcdStrip2_succ]
    by_cases he : a % 2 = 0
    · have hne : a ≠ 0 := by omega
      have hc : (a % 2 == 0 && a != 0) = true := by simp [he, hne]
      rw [if_pos hc]
      have hp : 2 ^ (f + 1) = 2 ^ f * 2 := by rw [Nat.pow_succ]
      obtain ⟨k, hk, hodd⟩ := ih (a / 2) (by omega) (by omega)
      refine ⟨k + 1, ?_, hodd⟩
      have : a = a / 2 * 2 := by omega
      rw [Nat.pow_succ, ← Nat.mul_assoc, ← hk]
      exact this
    · have hc : ¬ ((a % 2 == 0 && a != 0) = true) := by simp [he]
      rw [if_neg hc]
      exact ⟨0, by simp, by omega⟩

/-- packaged facts about stripping -/
theorem gcdStrip2_facts {a : Nat} (h0 : 0 < a) (h1 : a < 2 ^ 64) :
    gcdStrip2 64 a % 2 = 1 ∧ gcdStrip2 64 a ≤ a ∧ (a % 2 = 0 → 2 * gcdStrip2 64 a ≤ a) ∧
    (∀ c, c % 2 = 1 → Nat.gcd c (gcdStrip2 64 a) = Nat.gcd c a) := by
  obtain ⟨k, hk, hodd⟩ := gcdStrip2_spec 64 a h0 h1
  refine ⟨hodd, ?_, ?_, ?_⟩
  · have := le_mul_two_pow (gcdStrip2 64 a) k
    omega
  · intro he
    cases k with
    | zero => simp at hk; omega
    | succ k =>
      rw [Nat.pow_succ, ← Nat.mul_assoc] at hk
      have := le_mul_two_pow (gcdStrip2 64 a) k
      omega
  · intro c hc
    have := gcd_odd_mul_two_pow hc (gcdStrip2 64 a) k
    rw [← hk] at this
    exact this.symm

/-! ### gcdCommon2 -/

theorem gcdCommon2_succ (f a b sh : Nat) :
    gcdCommon2 (f + 1) a b sh =
      if (a ||| b) % 2 == 0 then gcdCommon2 f (a / 2) (b / 2) (sh + 1) else (a, b, sh) := rfl

theorem gcdCommon2_spec : ∀ (f a b sh : Nat), 0 < a → a < 2 ^ f →
    ∃ k, a = (gcdCommon2 f a b sh).1 * 2 ^ k ∧ b = (gcdCommon2 f a b sh).2.1 * 2 ^ k ∧
      (gcdCommon2 f a b sh).2.2 = sh + k ∧
      ((gcdCommon2 f a b sh).1 % 2 = 1 ∨ (gcdCommon2 f a b sh).2.1 % 2 = 1) := by
  intro f
  induction f with
  | zero => intro a b sh h0 h1; simp at h1; omega
  | succ f ih =>
    intro a b sh h0 h1
    rw [gcdCommon2_succ]
    by_cases he : (a ||| b) % 2 = 0
    · have hc : ((a ||| b) % 2 == 0) = true := by simp [he]
      rw [if_pos hc]
      obtain ⟨ha, hb⟩ := (or_mod_two_eq_zero a b).1 he
      have hp : 2 ^ (f + 1) = 2 ^ f * 2 := by rw [Nat.pow_succ]
      obtain ⟨k, hka, hkb, hsh, hodd⟩ := ih (a / 2) (b / 2) (sh + 1) (by omega) (by omega)
      refine ⟨k + 1, ?_, ?_, by omega, hodd⟩
      · have : a = a / 2 * 2 := by omega
        rw [Nat.pow_succ, ← Nat.mul_assoc, ← hka]
        exact this
      · have : b = b / 2 * 2 := by omega
        rw [Nat.pow_succ, ← Nat.mul_assoc, ← hkb]
        exact this
    · have hc : ¬ (((a ||| b) % 2 == 0) = true) := by simp [he]
      rw [if_neg hc]
      refine ⟨0, by simp, by simp, by simp, ?_⟩
      have := or_mod_two_eq_zero a b
      show a % 2 = 1 ∨ b % 2 = 1
      omega

/-! ### gcdMain -/

theorem gcdMain_succ (f a b : Nat) :
    gcdMain (f + 1) a b =
      if ((if a > gcdStrip2 64 b then (gcdStrip2 64 b, a) else (a, gcdStrip2 64 b)).2 -
          (if a > gcdStrip2 64 b then (gcdStrip2 64 b, a) else (a, gcdStrip2 64 b)).1 == 0) = true
      then (if a > gcdStrip2 64 b then (gcdStrip2 64 b, a) else (a, gcdStrip2 64 b)).1
      else gcdMain f (if a > gcdStrip2 64 b then (gcdStrip2 64 b, a) else (a, gcdStrip2 64 b)).1
        ((if a > gcdStrip2 64 b then (gcdStrip2 64 b, a) else (a, gcdStrip2 64 b)).2 -
          (if a > gcdStrip2 64 b then (gcdStrip2 64 b, a) else (a, gcdStrip2 64 b)).1) := by
  rw [gcdMain]

/-- one iteration, given sorted odd `mn ≤ mx` -/
theorem gcdMain_succ_of_gt {f a b : Nat} (h : a > gcdStrip2 64 b) :
    gcdMain (f + 1) a b = gcdMain f (gcdStrip2 64 b) (a - gcdStrip2 64 b) := by
  rw [gcdMain_succ, if_pos h]
  have : ¬ ((a - gcdStrip2 64 b == 0) = true) := by simp; omega
  rw [if_neg this]

theorem gcdMain_succ_of_lt {f a b : Nat} (h : a < gcdStrip2 64 b) :
    gcdMain (f + 1) a b = gcdMain f a (gcdStrip2 64 b - a) := by
  have h' : ¬ a > gcdStrip2 64 b := by omega
  rw [gcdMain_succ, if_neg h']
  have : ¬ ((gcdStrip2 64 b - a == 0) = true) := by simp; omega
  rw [if_neg this]

theorem gcdMain_succ_of_eq {f a b : Nat} (h : a = gcdStrip2 64 b) :
    gcdMain (f + 1) a b = a := by
  have h' : ¬ a > gcdStrip2 64 b := by omega
  rw [gcdMain_succ, if_neg h']
  have : ((gcdStrip2 64 b - a == 0) = true) := by simp; omega
  rw [if_pos this]

/-- product bound for the recursive call: `mn * strip (mx - mn) < 2^f` -/
theorem gcdMain_measure {f mn mx : Nat} (hmn : mn % 2 = 1) (hmx : mx % 2 = 1) (hlt : mn < mx)
    (hmx64 : mx < 2 ^ 64) (hprod : mn * mx < 2 ^ (f + 1)) :
    mn * gcdStrip2 64 (mx - mn) < 2 ^ f := by
  have hfacts := gcdStrip2_facts (a := mx - mn) (by omega) (by omega)
  have h2 : 2 * gcdStrip2 64 (mx - mn) ≤ mx - mn := hfacts.2.2.1 (by omega)
  have h3 : mn * (2 * gcdStrip2 64 (mx - mn)) ≤ mn * mx :=
    Nat.mul_le_mul_left mn (by omega)
  have h4 : mn * (2 * gcdStrip2 64 (mx - mn)) = 2 * (mn * gcdStrip2 64 (mx - mn)) := by
    rw [Nat.mul_left_comm]
  have hp : 2 ^ (f + 1) = 2 ^ f * 2 := by rw [Nat.pow_succ]
  omega

theorem gcdMain_spec : ∀ (f a b : Nat), a % 2 = 1 → a < 2 ^ 64 → 0 < b → b < 2 ^ 64 →
    a * gcdStrip2 64 b < 2 ^ f → gcdMain (f + 1) a b = Nat.gcd a b := by
  intro f
  induction f with
  | zero =>
    intro a b ha ha64 hb hb64 hprod
    have hfacts := gcdStrip2_facts hb hb64
    have : 0 < a * gcdStrip2 64 b := Nat.mul_pos (by omega) (by omega)
    simp at hprod
    omega
  | succ f ih =>
    intro a b ha ha64 hb hb64 hprod
    obtain ⟨hsodd, hsle, _, hsgcd⟩ := gcdStrip2_facts hb hb64
    have hg : Nat.gcd a (gcdStrip2 64 b) = Nat.gcd a b := hsgcd a ha
    rcases Nat.lt_trichotomy a (gcdStrip2 64 b) with hlt | heq | hgt
    · rw [gcdMain_succ_of_lt hlt]
      rw [ih a (gcdStrip2 64 b - a) ha ha64 (by omega) (by omega)
        (gcdMain_measure ha hsodd hlt (by omega) hprod)]
      rw [Nat.gcd_sub_self_right (Nat.le_of_lt hlt), hg]
    · rw [gcdMain_succ_of_eq heq, ← hg, ← heq, Nat.gcd_self]
    · rw [gcdMain_succ_of_gt hgt]
      have hprod' : gcdStrip2 64 b * a < 2 ^ (f + 1) := by rw [Nat.mul_comm]; exact hprod
      rw [ih (gcdStrip2 64 b) (a - gcdStrip2 64 b) hsodd (by omega) (by omega) (by omega)
        (gcdMain_measure hsodd ha hgt ha64 hprod')]
      rw [Nat.gcd_sub_self_right (Nat.le_of_lt hgt), Nat.gcd_comm, hg]

/-! ### ratioGcd -/

theorem ratioGcd_nat {a b : Nat} (ha0 : 0 < a) (hb0 : 0 < b)
    (ha : a ≤ 9223372036854775808) (hb : b ≤ 9223372036854775808) :
    w64 (gcdMain 200 (gcdStrip2 64 (gcdCommon2 64 a b 0).1) (gcdCommon2 64 a b 0).2.1
      * 2 ^ (gcdCommon2 64 a b 0).2.2) = Nat.gcd a b := by
  obtain ⟨k, hka, hkb, hsh, hodd⟩ := gcdCommon2_spec 64 a b 0 ha0 (by omega)
  generalize (gcdCommon2 64 a b 0).1 = a' at *
  generalize (gcdCommon2 64 a b 0).2.1 = b' at *
  generalize (gcdCommon2 64 a b 0).2.2 = sh at *
  have hsh' : sh = k := by omega
  subst hsh'
  have ha'le : a' ≤ a := by rw [hka]; exact le_mul_two_pow a' sh
  have hb'le : b' ≤ b := by rw [hkb]; exact le_mul_two_pow b' sh
  have ha'0 : 0 < a' := by
    rcases Nat.eq_zero_or_pos a' with h | h
    · rw [h] at hka; simp at hka; omega
    · exact h
  have hb'0 : 0 < b' := by
    rcases Nat.eq_zero_or_pos b' with h | h
    · rw [h] at hkb; simp at hkb; omega
    · exact h
  obtain ⟨hsodd, hsle, _, _⟩ := gcdStrip2_facts (a := a') ha'0 (by omega)
  obtain ⟨k2, hk2, _⟩ := gcdStrip2_spec 64 a' ha'0 (by omega)
  obtain ⟨_, hsble, _, _⟩ := gcdStrip2_facts (a := b') hb'0 (by omega)
  -- gcd (strip a') b' = gcd a' b'
  have hg1 : Nat.gcd (gcdStrip2 64 a') b' = Nat.gcd a' b' := by
    rcases hodd with h | h
    · rw [gcdStrip2_odd h]
    · have := gcd_mul_two_pow_odd h (gcdStrip2 64 a') k2
      rw [← hk2] at this
      exact this.symm
  have hprod : gcdStrip2 64 a' * gcdStrip2 64 b' < 2 ^ 199 := by
    have h1 : gcdStrip2 64 a' * gcdStrip2 64 b' ≤ 9223372036854775808 * 9223372036854775808 :=
      Nat.mul_le_mul (by omega) (by omega)
    have h2 : 9223372036854775808 * 9223372036854775808 < 2 ^ 199 := by decide
    omega
  have hmain := gcdMain_spec 199 (gcdStrip2 64 a') b' hsodd (by omega) hb'0 (by omega) hprod
  rw [hmain, hg1, ← Nat.gcd_mul_right, ← hka, ← hkb]
  have hle : Nat.gcd a b ≤ a := Nat.gcd_le_left b ha0
  unfold w64 two64
  exact Nat.mod_eq_of_lt (by omega)

theorem ratioGcd_eq' (a b : Int) (ha : a.natAbs ≤ 9223372036854775808)
    (hb : b.natAbs ≤ 9223372036854775808) :
    ratioGcd a b = Nat.gcd a.natAbs b.natAbs := by
  unfold ratioGcd
  by_cases h1 : a.natAbs = 0
  · have hc1 : (a.natAbs == 0) = true := by simp [h1]
    rw [if_pos hc1, h1, Nat.gcd_zero_left]
  · have hc1 : ¬ ((a.natAbs == 0) = true) := by simp [h1]
    rw [if_neg hc1]
    by_cases h2 : b.natAbs = 0
    · have hc2 : (b.natAbs == 0) = true := by simp [h2]
      rw [if_pos hc2, h2, Nat.gcd_zero_right]
    · have hc2 : ¬ ((b.natAbs == 0) = true) := by simp [h2]
      rw [if_neg hc2]
      exact ratioGcd_nat (by omega) (by omega) ha hb

end Edn.Proofs.NumGcd
