/-
  Edn.Proofs.DoubleSpec — C05 (completion): the mantissa/exponent pair accumulated by
  `parse_double_from_buffer` denotes the literal's exact decimal value whenever the fast path
  is taken, hence `parse_double_from_buffer` returns the correctly rounded double of the
  literal's decimal value for every literal (given the `strtod` assumption for the slow path).
-/
import Edn.Proofs.Float
import Edn.Proofs.DoubleSpecAux3

namespace Edn.Proofs
open Edn.Model Edn.Spec

/-- a float literal as the scanner of `edn_read_number` delimits it: optional sign, digits,
    optional fraction, optional exponent (digits may contain underscores only with the
    experimental flag) -/
def FloatText (cfg : Cfg) (text : Bytes) : Prop :=
  (cfg.exp = false → 0x5F ∉ text) ∧
  ∃ (sign ip fr ex : Bytes),
    text = sign ++ ip ++ fr ++ ex ∧
    (sign = [] ∨ sign = [0x2D] ∨ sign = [0x2B]) ∧
    (∀ c ∈ ip, is09 c = true ∨ c = 0x5F) ∧ (∃ c ∈ ip, is09 c = true) ∧ (ip.head? ≠ some 0x5F) ∧
    (fr = [] ∨ ∃ fd, fr = 0x2E :: fd ∧ ∀ c ∈ fd, is09 c = true ∨ c = 0x5F) ∧
    (ex = [] ∨ ∃ e es ed, ex = e :: (es ++ ed) ∧ (e = 0x65 ∨ e = 0x45) ∧ (es = [] ∨ es = [0x2D] ∨ es = [0x2B]) ∧
        (∀ c ∈ ed, is09 c = true ∨ c = 0x5F) ∧ (∃ c ∈ ed, is09 c = true) ∧ (ed.head? ≠ some 0x5F))

/-- for every float literal: the double returned is the one nearest to the literal's exact
    decimal value (ties to even), whichever path is taken -/
theorem parseDouble_correctly_rounded (cfg : Cfg) (text : Bytes) (h : FloatText cfg text) :
    parseDouble cfg text = (let p := decimalParts text; withSign p.1 (ofDec p.2.1 p.2.2)) :=
  -- only the first component of `FloatText` (no underscore without the experimental flag) is
  -- needed: the two scanners stop at the same bytes whatever the shape of the text
  DoubleSpecAux.parseDouble_of_noUnderscore cfg text h.1

/-- two literals denoting the same real number read as the same double -/
theorem same_value_same_double (cfg : Cfg) (t1 t2 : Bytes) (h1 : FloatText cfg t1) (h2 : FloatText cfg t2)
    (hs : (decimalParts t1).1 = (decimalParts t2).1)
    (hv : ∃ k : Nat, ((decimalParts t1).2.1 = (decimalParts t2).2.1 * 10 ^ k ∧ (decimalParts t1).2.2 + k = (decimalParts t2).2.2) ∨
                     ((decimalParts t2).2.1 = (decimalParts t1).2.1 * 10 ^ k ∧ (decimalParts t2).2.2 + k = (decimalParts t1).2.2)) :
    parseDouble cfg t1 = parseDouble cfg t2 := by
  rw [parseDouble_correctly_rounded cfg t1 h1, parseDouble_correctly_rounded cfg t2 h2]
  simp only []
  rw [hs]
  obtain ⟨k, ⟨hm, he⟩ | ⟨hm, he⟩⟩ := hv
  · rw [hm, ← he, DoubleSpecAux.ofDec_shift]
  · rw [hm, ← he, DoubleSpecAux.ofDec_shift]

end Edn.Proofs
