/-
  Edn.Proofs.DispatchAux3 — registry dispatch (C14): the hypotheses on handlers, and the
  simulation between the run without a registry and the run with one, by induction on the
  fuel over `readValue` / `readSeq` / `readMap` / `readTagged` (configurations without the
  Clojure flag: `readNsMap` and `readMeta` are not reachable).  The registry-free run returns
  the tree `v0`; the registry run is shown to return what `dispatchV` computes from
  `eraseCache v0`, and every value it produces satisfies the reader invariant `VOK`.
-/
import Edn.Proofs.DispatchAux2
namespace Edn.Proofs
open Edn.Model Edn.Spec Edn.Generated

/-- what is assumed of a handler function: it does not look at hash-cache cells (they record
    only whether somebody asked for a hash before), and it returns well-formed values with
    valid caches of bounded depth when given such values.  (The C handlers build their results
    through the public constructors, which start with an empty cache.)  The depth bound "at
    most one level more than the operand" is what keeps the reader's depth invariant: the
    result replaces the tagged element, which is one level deeper than its operand. -/
structure NiceHandler (cfg : Cfg) (hd : Handler) : Prop where
  cacheBlind : ∀ v w, eraseCache v = eraseCache w →
    (hd.run v).map eraseCache = (hd.run w).map eraseCache
  wellFormed : ∀ v r, WF cfg v → cacheOK cfg v = true → hd.run v = some r →
    WF cfg r ∧ cacheOK cfg r = true ∧ depth r ≤ depth v + 1

def NiceRegistry (cfg : Cfg) (reg : Bytes → Option Handler) : Prop :=
  ∀ tag hd, reg tag = some hd → NiceHandler cfg hd

/-- values equal up to cache cells -/
def SameUpToCache (a b : Val) : Prop := eraseCache a = eraseCache b

mutual
theorem eraseCache_idem : ∀ v : Val, eraseCache (eraseCache v) = eraseCache v
  | .list h m xs => by
    show Val.list _ (eraseCacheO (eraseCacheO m)) (eraseCacheL (eraseCacheL xs)) = Val.list _ (eraseCacheO m) (eraseCacheL xs)
    rw [eraseCacheO_idem m, eraseCacheL_idem xs]
  | .vec h m xs => by
    show Val.vec _ (eraseCacheO (eraseCacheO m)) (eraseCacheL (eraseCacheL xs)) = Val.vec _ (eraseCacheO m) (eraseCacheL xs)
    rw [eraseCacheO_idem m, eraseCacheL_idem xs]
  | .set h m xs => by
    show Val.set _ (eraseCacheO (eraseCacheO m)) (eraseCacheL (eraseCacheL xs)) = Val.set _ (eraseCacheO m) (eraseCacheL xs)
    rw [eraseCacheO_idem m, eraseCacheL_idem xs]
  | .map h m ks vs => by
    show Val.map _ (eraseCacheO (eraseCacheO m)) (eraseCacheL (eraseCacheL ks)) (eraseCacheL (eraseCacheL vs))
      = Val.map _ (eraseCacheO m) (eraseCacheL ks) (eraseCacheL vs)
    rw [eraseCacheO_idem m, eraseCacheL_idem ks, eraseCacheL_idem vs]
  | .tagged h m t v => by
    show Val.tagged _ (eraseCacheO (eraseCacheO m)) t (eraseCache (eraseCache v)) = Val.tagged _ (eraseCacheO m) t (eraseCache v)
    rw [eraseCacheO_idem m, eraseCache_idem v]
  | .sym h m ns nm => by
    show Val.sym _ (eraseCacheO (eraseCacheO m)) ns nm = Val.sym _ (eraseCacheO m) ns nm
    rw [eraseCacheO_idem m]
  | .nil .. | .bool .. | .int .. | .bigint .. | .float .. | .bigdec .. | .ratio .. | .bigratio ..
  | .char .. | .str .. | .kw .. | .ext .. => rfl
theorem eraseCacheL_idem : ∀ l : List Val, eraseCacheL (eraseCacheL l) = eraseCacheL l
  | [] => rfl
  | x :: xs => by
    show eraseCache (eraseCache x) :: eraseCacheL (eraseCacheL xs) = eraseCache x :: eraseCacheL xs
    rw [eraseCache_idem x, eraseCacheL_idem xs]
theorem eraseCacheO_idem : ∀ o : Option Val, eraseCacheO (eraseCacheO o) = eraseCacheO o
  | none => rfl
  | some m => by
    show some (eraseCache (eraseCache m)) = some (eraseCache m)
    rw [eraseCache_idem m]
end

section
variable (cfg : Cfg) (opts : Opts) (reg : Bytes → Option Handler)

abbrev R0 : Ctx := { cfg := cfg, opts := { opts with registry := none } }
abbrev R1 : Ctx := { cfg := cfg, opts := { opts with registry := some reg } }

/-- what the registry run `r1` must be, given the outcome of the declarative dispatch on the
    registry-free value; `cl` = calls made before, `rest'` = rest after the registry-free run -/
def PostR (d : Nat) (cl : List Call) (rest' : Bytes) (r1 : Res) : DOne → Prop
  | (calls, .ok v) => VOK cfg d v ∧ ∃ v', r1 = .ok v' { rest := rest', calls := cl ++ calls } ∧
      eraseCache v' = eraseCache v ∧ VOK cfg d v'
  | (calls, .error (code, s, e)) => code ≠ .unexpectedEof ∧
      ∃ st', r1 = .err (mkErr code (some s) (some e)) st' ∧ st'.calls = cl ++ calls

def Rel (d : Nat) (cl : List Call) (r0 r1 : Res) : Prop :=
  match r0 with
  | .ok v0 st0 => PostR cfg d cl st0.rest r1 (dispatchV cfg reg opts.mode (eraseCache v0))
  | .closer st0 => r1 = .closer { rest := st0.rest, calls := cl }
  | .err _ _ => True

def SimV (f : Nat) : Prop := ∀ d st cl, d ≤ Tables.maxNestingDepth →
  Rel cfg opts reg d cl (readValue (R0 cfg opts) f d false st)
    (readValue (R1 cfg opts reg) f d false { rest := st.rest, calls := cl })

def SimT (f : Nat) : Prop := ∀ d start st cl, (d < Tables.maxNestingDepth ∨ st.rest = []) →
  Rel cfg opts reg d cl (readTagged (R0 cfg opts) f d false start st)
    (readTagged (R1 cfg opts reg) f d false start { rest := st.rest, calls := cl })

theorem VOK_rerange {d : Nat} {xS r : Val} (start stop : Nat) (hx : VOK cfg (d + 1) xS)
    (hr : WF cfg r ∧ cacheOK cfg r = true ∧ depth r ≤ depth xS + 1) :
    VOK cfg d (r.setHdr { r.hdr with s := start, e := stop }) := by
  refine VOK_setHdr _ rfl ⟨?_, hr.1, hr.2.1⟩
  have := hx.1
  have := hr.2.2
  omega

theorem SimT_succ (hn : NiceRegistry cfg reg) (f : Nat) (hV : SimV cfg opts reg f) : SimT cfg opts reg (f + 1) := by
  intro d start st cl hd
  rw [readTagged_succ, readTagged_succ]
  unfold rtStep
  simp only []
  obtain ⟨rest, c0⟩ := st
  cases rest with
  | nil => trivial
  | cons c t =>
    have hlt : d < Tables.maxNestingDepth := by
      rcases hd with h | h
      · exact h
      · cases h
    simp only []
    split
    · trivial
    · have hid := readIdentifier_calls cfg { opts with registry := none } { opts with registry := some reg }
        { rest := c :: t, calls := c0 } cl
      simp only [] at hid
      rw [hid]
      cases hr : readIdentifier (R0 cfg opts) { rest := c :: t, calls := c0 } with
      | closer st1 => rfl
      | err e st1 => trivial
      | ok tagv st1 =>
        simp only [Res.setCalls]
        cases tagv with
        | sym hh md ns nm =>
          simp only []
          generalize slice (c :: t) st1.rest = tag
          have hrel := hV (d + 1) st1 cl (by omega)
          cases hr2 : readValue (R0 cfg opts) f (d + 1) false st1 with
          | closer st2 => trivial
          | err e st2 => trivial
          | ok x0 st2 =>
            rw [hr2] at hrel
            simp only []
            generalize readValue (R1 cfg opts reg) f (d + 1) false { rest := st1.rest, calls := cl } = r1 at hrel ⊢
            change PostR cfg (d + 1) cl st2.rest r1 (dispatchV cfg reg opts.mode (eraseCache x0)) at hrel
            change PostR cfg d cl st2.rest _
              (dispatchV cfg reg opts.mode (.tagged (mkHdr start st2.rest.length) none tag (eraseCache x0)))
            rcases hdv : dispatchV cfg reg opts.mode (eraseCache x0) with ⟨c1, ⟨code, s, e⟩ | xS⟩
            · rw [hdv] at hrel
              obtain ⟨hne, st', hr1, hcalls⟩ := hrel
              rw [dispatchV_tagged_err cfg reg opts.mode hdv, hr1]
              exact ⟨hne, st', rfl, hcalls⟩
            · rw [hdv] at hrel
              obtain ⟨hvS, x', hr1, hex, hv'⟩ := hrel
              rw [dispatchV_tagged_ok cfg reg opts.mode hdv, hr1]
              simp only []
              rw [if_neg Bool.false_ne_true]
              cases hreg : reg tag with
              | some hd =>
                simp only []
                have hnice := hn tag hd hreg
                have hcb := hnice.cacheBlind x' xS hex
                obtain ⟨hs, he⟩ := hdr_se_of_erase hex
                rw [hs, he]
                cases hrS : hd.run xS with
                | none =>
                  cases hr' : hd.run x' with
                  | some r' => rw [hrS, hr'] at hcb; cases hcb
                  | none =>
                    exact ⟨by decide, _, rfl, by simp only [List.append_assoc]⟩
                | some r =>
                  cases hr' : hd.run x' with
                  | none => rw [hrS, hr'] at hcb; cases hcb
                  | some r' =>
                    rw [hrS, hr'] at hcb
                    have hcb' : eraseCache r' = eraseCache r := Option.some.inj hcb
                    refine ⟨VOK_rerange cfg _ _ hvS (hnice.wellFormed xS r hvS.2.1 hvS.2.2 hrS), _, ?_,
                      eraseCache_rerange hcb' _ _, VOK_rerange cfg _ _ hv' (hnice.wellFormed x' r' hv'.2.1 hv'.2.2 hr')⟩
                    simp only [List.append_assoc]
                    rfl
              | none =>
                simp only []
                by_cases hm1 : (opts.mode == 1) = true
                · rw [if_pos hm1, if_pos hm1]
                  exact ⟨hvS.weaken, x', rfl, hex, hv'.weaken⟩
                rw [if_neg hm1, if_neg hm1]
                by_cases hm2 : (opts.mode == 2) = true
                · rw [if_pos hm2, if_pos hm2]
                  exact ⟨by decide, _, rfl, rfl⟩
                rw [if_neg hm2, if_neg hm2]
                refine ⟨VOK_tagged _ _ _ hvS, _, rfl, ?_, VOK_tagged _ _ _ hv'⟩
                show Val.tagged (mkHdr start st2.rest.length) none tag (eraseCache x') = Val.tagged (mkHdr start st2.rest.length) none tag (eraseCache xS)
                rw [hex]
        | _ => trivial


def SimS (f : Nat) : Prop := ∀ d kind start st clB cA acc0 accS acc, d < Tables.maxNestingDepth →
  seqR (dispatchEach cfg reg opts.mode (eraseCacheL acc0.reverse)) = (cA, .ok accS.reverse) →
  eraseCacheL acc = eraseCacheL accS → (∀ x ∈ accS, VOK cfg (d + 1) x) → (∀ x ∈ acc, VOK cfg (d + 1) x) →
  Rel cfg opts reg d clB (readSeq (R0 cfg opts) f d false kind start st acc0)
    (readSeq (R1 cfg opts reg) f d false kind start { rest := st.rest, calls := clB ++ cA } acc)

theorem code_ne_eof {code : Err} (h : code ≠ .unexpectedEof) (s e : Option Nat) :
    ((mkErr code s e).code == Err.unexpectedEof && !(mkErr code s e).fuelOut) = false := by
  have : (code == Err.unexpectedEof) = false := by
    cases code <;> first | rfl | exact absurd rfl h
  show (code == Err.unexpectedEof && !false) = false
  rw [this]; rfl

theorem SimS_succ (f : Nat) (hV : SimV cfg opts reg f) (hS : SimS cfg opts reg f) : SimS cfg opts reg (f + 1) := by
  intro d kind start st clB cA acc0 accS acc hd hacc he hvS hv
  rw [readSeq_succ, readSeq_succ]
  unfold rsStep
  have hrel := hV (d + 1) st (clB ++ cA) (by omega)
  cases hr : readValue (R0 cfg opts) f (d + 1) false st with
  | ok x0 st1 =>
    rw [hr] at hrel
    simp only []
    generalize readValue (R1 cfg opts reg) f (d + 1) false { rest := st.rest, calls := clB ++ cA } = r1 at hrel ⊢
    change PostR cfg (d + 1) (clB ++ cA) st1.rest r1 (dispatchV cfg reg opts.mode (eraseCache x0)) at hrel
    rcases hdv : dispatchV cfg reg opts.mode (eraseCache x0) with ⟨c1, ⟨code, s, e⟩ | xS⟩
    · rw [hdv] at hrel
      obtain ⟨hne, st', hr1, hcalls⟩ := hrel
      rw [hr1]
      simp only []
      rw [code_ne_eof hne]
      cases hr0 : readSeq (R0 cfg opts) f d false kind start st1 (x0 :: acc0) with
      | err e0 st0 => trivial
      | closer st0 => exact absurd hr0 (readSeq_notCloser _ _ _ _ _ _ _ _ _)
      | ok v0 st0 =>
        obtain ⟨s', e', more, hshape⟩ := readSeq_ok_shape _ _ _ _ _ _ _ _ _ _ hr0
        change PostR cfg d clB st0.rest _ (dispatchV cfg reg opts.mode (eraseCache v0))
        rw [hshape, dispatchV_mkSeq_err cfg reg opts.mode kind s' e' _ (cA ++ c1) (code, s, e)]
        · exact ⟨hne, st', rfl, by rw [hcalls, List.append_assoc]⟩
        · rw [List.reverse_cons, List.append_assoc, eraseCacheL_append]
          exact dispL_snoc_err cfg reg opts.mode _ hacc hdv
    · rw [hdv] at hrel
      obtain ⟨hxS, x', hr1, hex, hx'⟩ := hrel
      rw [hr1]
      simp only []
      have := hS d kind start st1 clB (cA ++ c1) (x0 :: acc0) (xS :: accS) (x' :: acc) hd
        (by rw [List.reverse_cons, List.reverse_cons, eraseCacheL_append]
            exact dispL_snoc_ok cfg reg opts.mode hacc hdv)
        (eraseCacheL_cons_congr hex he) (mem_cons_VOK hxS hvS) (mem_cons_VOK hx' hv)
      rw [← List.append_assoc] at this
      exact this
  | err e st1 =>
    simp only []
    split <;> trivial
  | closer st1 =>
    rw [hr] at hrel
    change _ = _ at hrel
    rw [hrel]
    obtain ⟨r', c'⟩ := st1
    simp only []
    cases r' with
    | nil => trivial
    | cons c r =>
      simp only []
      by_cases hcl : (c != closerByte kind) = true
      · rw [if_pos hcl]; trivial
      rw [if_neg hcl, if_neg hcl]
      by_cases hk0 : (kind == 0) = true
      · rw [if_pos hk0, if_pos hk0]
        change PostR cfg d clB r _ (dispatchV cfg reg opts.mode (eraseCache (.list (mkHdr start r.length) none acc0.reverse)))
        rw [eraseCache_list_fresh, dispatchV_list_ok cfg reg opts.mode hacc]
        refine ⟨VOK_list _ _ hd (VOK_reverse hvS), _, rfl, ?_, VOK_list _ _ hd (VOK_reverse hv)⟩
        show Val.list _ none (eraseCacheL acc.reverse) = Val.list _ none (eraseCacheL accS.reverse)
        rw [eraseCacheL_reverse_congr he]
        rfl
      rw [if_neg hk0, if_neg hk0]
      by_cases hk1 : (kind == 1) = true
      · rw [if_pos hk1, if_pos hk1]
        change PostR cfg d clB r _ (dispatchV cfg reg opts.mode (eraseCache (.vec (mkHdr start r.length) none acc0.reverse)))
        rw [eraseCache_vec_fresh, dispatchV_vec_ok cfg reg opts.mode hacc]
        refine ⟨VOK_vec _ _ hd (VOK_reverse hvS), _, rfl, ?_, VOK_vec _ _ hd (VOK_reverse hv)⟩
        show Val.vec _ none (eraseCacheL acc.reverse) = Val.vec _ none (eraseCacheL accS.reverse)
        rw [eraseCacheL_reverse_congr he]
        rfl
      rw [if_neg hk1, if_neg hk1]
      show Rel cfg opts reg d clB
        (if (hasDuplicates cfg acc0.reverse).1 = true then _ else _)
        (if (hasDuplicates cfg acc.reverse).1 = true then _ else _)
      by_cases hdup0 : (hasDuplicates cfg acc0.reverse).1 = true
      · rw [if_pos hdup0]; trivial
      rw [if_neg hdup0]
      change PostR cfg d clB r _ (dispatchV cfg reg opts.mode
        (eraseCache (.set (mkHdr start r.length) none (hasDuplicates cfg acc0.reverse).2)))
      rw [eraseCache_set_fresh, eraseCacheL_hasDuplicates, dispatchV_set_ok cfg reg opts.mode hacc]
      obtain ⟨hd1, hd2⟩ := hasDuplicates_erase cfg accS.reverse acc.reverse (eraseCacheL_reverse_congr he)
        (Elems_of_VOK (VOK_reverse hvS)) (Elems_of_VOK (VOK_reverse hv))
      rw [hd1]
      by_cases hdup : (hasDuplicates cfg accS.reverse).1 = true
      · rw [if_pos hdup, if_pos hdup]
        exact ⟨by decide, _, rfl, rfl⟩
      rw [if_neg hdup, if_neg hdup]
      have hdupS : (hasDuplicates cfg accS.reverse).1 = false := by simpa using hdup
      refine ⟨VOK_set_close _ _ hd (VOK_reverse hvS) hdupS, _, rfl, ?_,
        VOK_set_close _ _ hd (VOK_reverse hv) (by rw [hd1]; exact hdupS)⟩
      show Val.set _ none (eraseCacheL _) = Val.set _ none (eraseCacheL _)
      rw [hd2]
      rfl


def SimM (f : Nat) : Prop := ∀ d start st clB cA ks0 vs0 ksS vsS ks vs, d < Tables.maxNestingDepth →
  ks0.length = vs0.length → ksS.length = vsS.length →
  seqR (interleave2 (dispatchEach cfg reg opts.mode (eraseCacheL ks0.reverse))
    (dispatchEach cfg reg opts.mode (eraseCacheL vs0.reverse))) = (cA, .ok (interleave2 ksS.reverse vsS.reverse)) →
  eraseCacheL ks = eraseCacheL ksS → eraseCacheL vs = eraseCacheL vsS →
  (∀ x ∈ ksS, VOK cfg (d + 1) x) → (∀ x ∈ vsS, VOK cfg (d + 1) x) →
  (∀ x ∈ ks, VOK cfg (d + 1) x) → (∀ x ∈ vs, VOK cfg (d + 1) x) →
  Rel cfg opts reg d clB (readMap (R0 cfg opts) f d false start none st ks0 vs0)
    (readMap (R1 cfg opts reg) f d false start none { rest := st.rest, calls := clB ++ cA } ks vs)

theorem eraseCacheL_rev_cons_append (x : Val) (acc more : List Val) :
    eraseCacheL ((x :: acc).reverse ++ more) = eraseCacheL acc.reverse ++ eraseCache x :: eraseCacheL more := by
  rw [List.reverse_cons, List.append_assoc, eraseCacheL_append]
  rfl

theorem eraseCacheL_length' (l : List Val) : (eraseCacheL l).length = l.length := eraseCacheL_length l

theorem SimM_succ (f : Nat) (hV : SimV cfg opts reg f) (hM : SimM cfg opts reg f) : SimM cfg opts reg (f + 1) := by
  intro d start st clB cA ks0 vs0 ksS vsS ks vs hd hl0 hlS hacc hek hev hkS hvS hk hv
  have hlen0 : (eraseCacheL ks0.reverse).length = (eraseCacheL vs0.reverse).length := by
    rw [eraseCacheL_length, eraseCacheL_length, List.length_reverse, List.length_reverse, hl0]
  rw [readMap_succ, readMap_succ]
  unfold rmStep
  simp only []
  have hrel := hV (d + 1) st (clB ++ cA) (by omega)
  cases hr : readValue (R0 cfg opts) f (d + 1) false st with
  | ok k0 st1 =>
    rw [hr] at hrel
    simp only []
    cases hr2 : readValue (R0 cfg opts) f (d + 1) false st1 with
    | err e st2 =>
      simp only []
      split <;> trivial
    | closer st2 => trivial
    | ok x0 st2 =>
      simp only []
      generalize readValue (R1 cfg opts reg) f (d + 1) false { rest := st.rest, calls := clB ++ cA } = r1 at hrel ⊢
      change PostR cfg (d + 1) (clB ++ cA) st1.rest r1 (dispatchV cfg reg opts.mode (eraseCache k0)) at hrel
      rcases hdk : dispatchV cfg reg opts.mode (eraseCache k0) with ⟨c1, ⟨code, s, e⟩ | kS⟩
      · rw [hdk] at hrel
        obtain ⟨hne, st', hr1, hcalls⟩ := hrel
        rw [hr1]
        simp only []
        rw [code_ne_eof hne]
        cases hr0 : readMap (R0 cfg opts) f d false start none st2 (k0 :: ks0) (x0 :: vs0) with
        | err e0 st0 => trivial
        | closer st0 => exact absurd hr0 (readMap_notCloser _ _ _ _ _ _ _ _ _ _)
        | ok v0 st0 =>
          obtain ⟨s', e', mk, mv, hlm, hshape⟩ := readMap_ok_shape _ _ _ _ _ _ _ _ _ _ hr0
          change PostR cfg d clB st0.rest _ (dispatchV cfg reg opts.mode (eraseCache v0))
          rw [hshape, dispatchV_map_shape_err cfg reg opts.mode s' e' _ _ (cA ++ c1) (code, s, e)]
          · exact ⟨hne, st', rfl, by rw [hcalls, List.append_assoc]⟩
          · rw [eraseCacheL_rev_cons_append, eraseCacheL_rev_cons_append]
            exact dispKV_errK cfg reg opts.mode _ _ hlen0 hacc hdk
      · rw [hdk] at hrel
        obtain ⟨hkS1, k', hr1, hekk, hk'⟩ := hrel
        rw [hr1]
        simp only []
        have hrel2 := hV (d + 1) st1 ((clB ++ cA) ++ c1) (by omega)
        rw [hr2] at hrel2
        generalize readValue (R1 cfg opts reg) f (d + 1) false { rest := st1.rest, calls := (clB ++ cA) ++ c1 } = r2
          at hrel2 ⊢
        change PostR cfg (d + 1) ((clB ++ cA) ++ c1) st2.rest r2 (dispatchV cfg reg opts.mode (eraseCache x0)) at hrel2
        rcases hdx : dispatchV cfg reg opts.mode (eraseCache x0) with ⟨c2, ⟨code, s, e⟩ | xS⟩
        · rw [hdx] at hrel2
          obtain ⟨hne, st', hr2', hcalls⟩ := hrel2
          rw [hr2']
          simp only []
          rw [code_ne_eof hne]
          cases hr0 : readMap (R0 cfg opts) f d false start none st2 (k0 :: ks0) (x0 :: vs0) with
          | err e0 st0 => trivial
          | closer st0 => exact absurd hr0 (readMap_notCloser _ _ _ _ _ _ _ _ _ _)
          | ok v0 st0 =>
            obtain ⟨s', e', mk, mv, hlm, hshape⟩ := readMap_ok_shape _ _ _ _ _ _ _ _ _ _ hr0
            change PostR cfg d clB st0.rest _ (dispatchV cfg reg opts.mode (eraseCache v0))
            rw [hshape, dispatchV_map_shape_err cfg reg opts.mode s' e' _ _ (cA ++ (c1 ++ c2)) (code, s, e)]
            · exact ⟨hne, st', rfl, by rw [hcalls]; simp only [List.append_assoc]⟩
            · rw [eraseCacheL_rev_cons_append, eraseCacheL_rev_cons_append]
              exact dispKV_errV cfg reg opts.mode _ _ hlen0 hacc hdk hdx
        · rw [hdx] at hrel2
          obtain ⟨hxS, x', hr2', hex, hx'⟩ := hrel2
          rw [hr2']
          simp only []
          have := hM d start st2 clB (cA ++ (c1 ++ c2)) (k0 :: ks0) (x0 :: vs0) (kS :: ksS) (xS :: vsS)
            (k' :: ks) (x' :: vs) hd (by simp [hl0]) (by simp [hlS])
            (by rw [List.reverse_cons, List.reverse_cons, List.reverse_cons, List.reverse_cons,
                  eraseCacheL_append, eraseCacheL_append]
                exact dispKV_snoc_ok cfg reg opts.mode hlen0
                  (by rw [List.length_reverse, List.length_reverse, hlS]) hacc hdk hdx)
            (eraseCacheL_cons_congr hekk hek) (eraseCacheL_cons_congr hex hev)
            (mem_cons_VOK hkS1 hkS) (mem_cons_VOK hxS hvS) (mem_cons_VOK hk' hk) (mem_cons_VOK hx' hv)
          simp only [List.append_assoc] at this ⊢
          exact this
  | err e st1 =>
    simp only []
    split <;> trivial
  | closer st1 =>
    rw [hr] at hrel
    change _ = _ at hrel
    rw [hrel]
    obtain ⟨r', c'⟩ := st1
    simp only []
    cases r' with
    | nil => trivial
    | cons c r =>
      simp only []
      by_cases hcl : (c != 0x7D) = true
      · rw [if_pos hcl]; trivial
      rw [if_neg hcl, if_neg hcl]
      show Rel cfg opts reg d clB
        (if (hasDuplicates cfg ks0.reverse).1 = true then _ else _)
        (if (hasDuplicates cfg ks.reverse).1 = true then _ else _)
      by_cases hdup0 : (hasDuplicates cfg ks0.reverse).1 = true
      · rw [if_pos hdup0]; trivial
      rw [if_neg hdup0]
      change PostR cfg d clB r _ (dispatchV cfg reg opts.mode
        (eraseCache (.map (mkHdr start r.length) none (hasDuplicates cfg ks0.reverse).2 vs0.reverse)))
      have hlSr : ksS.reverse.length = vsS.reverse.length := by
        rw [List.length_reverse, List.length_reverse, hlS]
      have hlr : ks.reverse.length = vs.reverse.length := by
        rw [List.length_reverse, List.length_reverse, length_eq_of_eraseCacheL hek,
          length_eq_of_eraseCacheL hev, hlS]
      rw [eraseCache_map_fresh, eraseCacheL_hasDuplicates, dispatchV_map_ok cfg reg opts.mode hacc,
        uninterleave_interleave2 _ _ hlSr]
      simp only []
      obtain ⟨hd1, hd2⟩ := hasDuplicates_erase cfg ksS.reverse ks.reverse (eraseCacheL_reverse_congr hek)
        (Elems_of_VOK (VOK_reverse hkS)) (Elems_of_VOK (VOK_reverse hk))
      rw [hd1]
      by_cases hdup : (hasDuplicates cfg ksS.reverse).1 = true
      · rw [if_pos hdup, if_pos hdup]
        exact ⟨by decide, _, rfl, rfl⟩
      rw [if_neg hdup, if_neg hdup]
      have hdupS : (hasDuplicates cfg ksS.reverse).1 = false := by simpa using hdup
      refine ⟨VOK_map_close _ _ hd (VOK_reverse hkS) (VOK_reverse hvS) hlSr hdupS, _, rfl, ?_,
        VOK_map_close _ _ hd (VOK_reverse hk) (VOK_reverse hv) hlr (by rw [hd1]; exact hdupS)⟩
      show Val.map _ none (eraseCacheL _) (eraseCacheL _) = Val.map _ none (eraseCacheL _) (eraseCacheL _)
      rw [hd2, eraseCacheL_reverse_congr hev]
      rfl


theorem freshLeaf_erase {v : Val} (h : freshLeaf v = true) :
    leaf (eraseCache v) = true ∧ freshLeaf (eraseCache v) = true := by
  cases v <;> first
    | exact absurd h Bool.false_ne_true
    | exact ⟨rfl, rfl⟩

/-- a leaf reader on both sides -/
theorem Rel_leaf {d : Nat} {cl : List Call} {r0 : Res} (hd : d ≤ Tables.maxNestingDepth)
    (hl : r0.okP FL) (hc : r0.isCloser = false) : Rel cfg opts reg d cl r0 (r0.setCalls cl) := by
  cases r0 with
  | closer st0 => cases hc
  | err e st0 => trivial
  | ok v0 st0 =>
    have hf : freshLeaf v0 = true := hl
    obtain ⟨h1, h2⟩ := freshLeaf_erase hf
    change PostR cfg d cl st0.rest _ (dispatchV cfg reg opts.mode (eraseCache v0))
    rw [dispatchV_leaf cfg reg opts.mode _ h1]
    exact ⟨VOK_of_freshLeaf h2 hd, v0, by rw [List.append_nil]; rfl, (eraseCache_idem v0).symm,
      VOK_of_freshLeaf hf hd⟩


theorem seqR_nil_start :
    seqR (dispatchEach cfg reg opts.mode (eraseCacheL ([] : List Val).reverse)) = ([], .ok ([] : List Val).reverse) := by
  show seqR (dispatchEach cfg reg opts.mode []) = ([], .ok [])
  rw [dispatchEach_nil, seqR]

theorem kv_nil_start :
    seqR (interleave2 (dispatchEach cfg reg opts.mode (eraseCacheL ([] : List Val).reverse))
      (dispatchEach cfg reg opts.mode (eraseCacheL ([] : List Val).reverse)))
      = ([], .ok (interleave2 ([] : List Val).reverse ([] : List Val).reverse)) := by
  show seqR (interleave2 (dispatchEach cfg reg opts.mode []) (dispatchEach cfg reg opts.mode [])) = ([], .ok (interleave2 [] []))
  rw [dispatchEach_nil]
  have h1 : interleave2 ([] : List DOne) [] = [] := by simp [interleave2]
  have h2 : interleave2 ([] : List Val) [] = [] := by simp [interleave2]
  rw [h1, h2, seqR]

theorem rvStep_sim (hc : cfg.clj = false) (f : Nat) (hV : SimV cfg opts reg f) (hS : SimS cfg opts reg f)
    (hM : SimM cfg opts reg f) (hT : SimT cfg opts reg f) (d : Nat) (c0 cl : List Call) (c : UInt8) (cs : Bytes)
    (hd : d ≤ Tables.maxNestingDepth) :
    Rel cfg opts reg d cl
      (rvStep (R0 cfg opts) (readValue (R0 cfg opts) f) (readSeq (R0 cfg opts) f) (readMap (R0 cfg opts) f)
        (readNsMap (R0 cfg opts) f) (readTagged (R0 cfg opts) f) (readMeta (R0 cfg opts) f) d false c0 c cs)
      (rvStep (R1 cfg opts reg) (readValue (R1 cfg opts reg) f) (readSeq (R1 cfg opts reg) f)
        (readMap (R1 cfg opts reg) f) (readNsMap (R1 cfg opts reg) f) (readTagged (R1 cfg opts reg) f)
        (readMeta (R1 cfg opts reg) f) d false cl c cs) := by
  unfold rvStep
  simp only []
  have hstr := readString_calls cfg { opts with registry := none } { opts with registry := some reg }
    { rest := c :: cs, calls := c0 } cl
  have hchr := readCharacter_calls cfg { opts with registry := none } { opts with registry := some reg }
    { rest := c :: cs, calls := c0 } cl
  have hid := readIdentifier_calls cfg { opts with registry := none } { opts with registry := some reg }
    { rest := c :: cs, calls := c0 } cl
  have hsy := readSymbolic_calls cfg { opts with registry := none } { opts with registry := some reg }
    { rest := c :: cs, calls := c0 } cl
  have hnum := readNumberRes_calls cfg { opts with registry := none } { opts with registry := some reg }
    { rest := c :: cs, calls := c0 } cl
  simp only [] at hstr hchr hid hsy hnum
  obtain ⟨l1, l2, l3, l4, l5⟩ := leaf_not_closer (R0 cfg opts) { rest := c :: cs, calls := c0 }
  have rstr : Rel cfg opts reg d cl (readString (R0 cfg opts) { rest := c :: cs, calls := c0 })
      (readString (R1 cfg opts reg) { rest := c :: cs, calls := cl }) := by
    rw [hstr]; exact Rel_leaf cfg opts reg hd (readString_leaf ..) l1
  have rchr : Rel cfg opts reg d cl (readCharacter (R0 cfg opts) { rest := c :: cs, calls := c0 })
      (readCharacter (R1 cfg opts reg) { rest := c :: cs, calls := cl }) := by
    rw [hchr]; exact Rel_leaf cfg opts reg hd (readCharacter_leaf ..) l2
  have rid : Rel cfg opts reg d cl (readIdentifier (R0 cfg opts) { rest := c :: cs, calls := c0 })
      (readIdentifier (R1 cfg opts reg) { rest := c :: cs, calls := cl }) := by
    rw [hid]; exact Rel_leaf cfg opts reg hd (readIdentifier_leaf ..) l3
  have rsy : Rel cfg opts reg d cl (readSymbolic (R0 cfg opts) { rest := c :: cs, calls := c0 })
      (readSymbolic (R1 cfg opts reg) { rest := c :: cs, calls := cl }) := by
    rw [hsy]; exact Rel_leaf cfg opts reg hd (readSymbolic_leaf ..) l4
  have rnum : Rel cfg opts reg d cl (readNumberRes (R0 cfg opts) { rest := c :: cs, calls := c0 })
      (readNumberRes (R1 cfg opts reg) { rest := c :: cs, calls := cl }) := by
    rw [hnum]; exact Rel_leaf cfg opts reg hd (readNumberRes_leaf ..) l5
  have seqStart : ∀ (kind start : Nat) (rest : Bytes), d < Tables.maxNestingDepth →
      Rel cfg opts reg d cl (readSeq (R0 cfg opts) f d false kind start { rest := rest, calls := c0 } [])
        (readSeq (R1 cfg opts reg) f d false kind start { rest := rest, calls := cl } []) := by
    intro kind start rest hlt
    have := hS d kind start { rest := rest, calls := c0 } cl [] [] [] [] hlt (seqR_nil_start cfg opts reg) rfl
      no_mem_nil no_mem_nil
    rw [List.append_nil] at this
    exact this
  cases hdisp : dispatch cfg c with
  | string => exact rstr
  | character => exact rchr
  | listOpen =>
    simp only []
    split
    · trivial
    · rename_i h; exact seqStart 0 _ cs (lt_of_not_deep h)
  | vectorOpen =>
    simp only []
    split
    · trivial
    · rename_i h; exact seqStart 1 _ cs (lt_of_not_deep h)
  | mapOpen =>
    simp only []
    split
    · trivial
    · rename_i h
      have := hM d (List.length (c :: cs)) { rest := cs, calls := c0 } cl [] [] [] [] [] [] [] (lt_of_not_deep h) rfl rfl
        (kv_nil_start cfg opts reg) rfl rfl no_mem_nil no_mem_nil no_mem_nil no_mem_nil
      rw [List.append_nil] at this
      exact this
  | hash =>
    simp only []
    cases cs with
    | nil => exact hT d _ { rest := [], calls := c0 } cl (Or.inr rfl)
    | cons nx cs' =>
      simp only []
      by_cases h1 : (nx == 0x23) = true
      · rw [if_pos h1, if_pos h1]; exact rsy
      rw [if_neg h1, if_neg h1]
      split
      · trivial
      rename_i h
      have hlt := lt_of_not_deep h
      by_cases h2 : (nx == 0x7B) = true
      · rw [if_pos h2, if_pos h2]; exact seqStart 2 _ cs' hlt
      rw [if_neg h2, if_neg h2]
      by_cases h3 : (nx == 0x5F) = true
      · rw [if_pos h3, if_pos h3]
        have hdisc := (reader_discard cfg { opts with registry := none } { opts with registry := some reg } f).1
          (d + 1) { rest := cs', calls := c0 } cl
        simp only [] at hdisc
        rw [hdisc]
        cases hr : readValue (R0 cfg opts) f (d + 1) true { rest := cs', calls := c0 } with
        | err e st1 => trivial
        | closer st1 => trivial
        | ok x st1 => exact hV d st1 cl hd
      rw [if_neg h3, if_neg h3]
      have hnc : ¬ ((cfg.clj && nx == 0x3A) = true) := by rw [hc]; simp
      rw [if_neg hnc, if_neg hnc]
      exact hT d _ { rest := nx :: cs', calls := c0 } cl (Or.inl hlt)
  | sign =>
    simp only []
    cases cs with
    | nil => exact rid
    | cons nx t =>
      simp only []
      split
      · exact rnum
      · exact rid
  | digit => exact rnum
  | delimiter =>
    simp only []
    split
    · trivial
    · rfl
  | metadata => exact absurd hdisp (dispatch_not_meta cfg hc c)
  | identifier => exact rid

theorem SimV_succ (hc : cfg.clj = false) (f : Nat) (hV : SimV cfg opts reg f) (hS : SimS cfg opts reg f)
    (hM : SimM cfg opts reg f) (hT : SimT cfg opts reg f) : SimV cfg opts reg (f + 1) := by
  intro d st cl hd
  rw [readValue_succ, readValue_succ]
  unfold rvOuter
  obtain ⟨rest, c0⟩ := st
  cases rest with
  | nil => trivial
  | cons b t =>
    simp only []
    cases hw : (if isPreWs b = true then skipWs (b :: t) else b :: t) with
    | nil => trivial
    | cons c cs =>
      simp only []
      exact rvStep_sim cfg opts reg hc f hV hS hM hT d c0 cl c cs hd

/-- the simulation between the run without a registry and the run with one -/
theorem reader_dispatch (hc : cfg.clj = false) (hn : NiceRegistry cfg reg) : ∀ (f : Nat),
    SimV cfg opts reg f ∧ SimS cfg opts reg f ∧ SimM cfg opts reg f ∧ SimT cfg opts reg f := by
  intro f
  induction f with
  | zero =>
    refine ⟨?_, ?_, ?_, ?_⟩
    · intro d st cl _; rw [readValue_zero]; trivial
    · intro d kind start st clB cA acc0 accS acc _ _ _ _ _; rw [readSeq_zero]; trivial
    · intro d start st clB cA ks0 vs0 ksS vsS ks vs _ _ _ _ _ _ _ _ _ _; rw [readMap_zero]; trivial
    · intro d start st cl _; rw [readTagged_zero]; trivial
  | succ f ih =>
    obtain ⟨hV, hS, hM, hT⟩ := ih
    exact ⟨SimV_succ cfg opts reg hc f hV hS hM hT, SimS_succ cfg opts reg f hV hS,
      SimM_succ cfg opts reg f hV hM, SimT_succ cfg opts reg hn f hV⟩

end
end Edn.Proofs
