/-
  Edn.Proofs.ExpNumberSoundAux1 — the number reader with the experimental flag only
  (`expCfg = ⟨false, true⟩`): the stages of `edn_read_number` without the Clojure flag, and
  soundness of its body (after the sign): an `.ok` answer forces an `ExpNum` token.

  Everything about digit runs, fraction, exponent comes from the `CljN` lemmas, which are stated
  for any configuration; only the places where `cfg.clj` is tested are redone here.
-/
import Edn.Spec.ExpNumLit
import Edn.Proofs.NumberReader
import Edn.Proofs.CljNumberSoundAux4
import Edn.Proofs.CljNumberSoundAux5

namespace Edn.Proofs.ExpN
open Edn.Model Edn.Spec Edn.Proofs Edn.Proofs.CNum Edn.Proofs.CljN

/-! ## the grammar's parts -/

theorem expInt_cljInt {ip : Bytes} (h : ExpInt ip) : CljInt true ip := by
  rcases h with rfl | h
  · exact Or.inl ⟨by simp, by simp⟩
  · exact Or.inr h

theorem expMantissa_clj {ip fr ex : Bytes} (h : ExpMantissa ip fr ex) : CljMantissa true ip fr ex :=
  ⟨expInt_cljInt h.hip, h.hfr, h.hex, h.hsep⟩

theorem expInt_digRun {ip : Bytes} (h : ExpInt ip) : DigRun true (isRadixDigit 10) ip := by
  rcases h with rfl | h
  · exact ⟨0x30, [], rfl, by decide, uRun_nil _ _⟩
  · exact nzRun_digRun h

theorem expInt_peek {ip : Bytes} (h : ExpInt ip) (X : Bytes) : is09 (peek (ip ++ X)) = true :=
  cljInt_peek (expInt_cljInt h) X

theorem expInt_noTrail {ip : Bytes} (h : ExpInt ip) : NoTrailU ip := cljInt_noTrail (expInt_cljInt h)

/-! ## the stages without the Clojure flag -/

theorem radixPart_noclj (cfg : Cfg) (hc : cfg.clj = false) (neg : Bool) (s : Bytes) :
    radixPart cfg neg s = none := by
  unfold radixPart
  simp only [hc, Bool.false_and, Bool.false_eq_true, ↓reduceIte]

theorem zeroPart_noclj (cfg : Cfg) (hc : cfg.clj = false) (s0 : Bytes) (neg : Bool) (X : Bytes) :
    zeroPart cfg s0 neg (0x30 :: X) =
      if is09 (peek X) then .err X else zeroRest cfg s0 neg (0x30 :: X) X := by
  unfold zeroPart
  simp only [hc, Bool.false_eq_true, ↓reduceIte, adv_cons]
  by_cases h : is09 (peek X) = true
  · simp only [h, ↓reduceIte]
  · simp only [h, Bool.false_eq_true, ↓reduceIte]

theorem intOrBig_zero (cfg : Cfg) (neg : Bool) : intOrBig cfg [0x30] 10 neg = .int 0 := by
  obtain ⟨clj, exp⟩ := cfg
  cases clj <;> cases exp <;> cases neg <;> rfl

/-- without the Clojure flag the tail of the zero path is the tail of the non-zero path -/
theorem zeroRest_noclj (cfg : Cfg) (hc : cfg.clj = false) (s0 : Bytes) (neg : Bool) (X : Bytes) :
    zeroRest cfg s0 neg (0x30 :: X) X = afterIp cfg s0 neg (0x30 :: X) X := by
  have hl : lastIsUnderscore (0x30 :: X) X = false :=
    (lastIsUnderscore_iff [0x30] X).mpr (by simp [NoTrailU])
  have hsl : slice (0x30 :: X) X = [0x30] := slice_append [0x30] X
  unfold zeroRest afterIp
  by_cases h1 : (peek X == 0x2E) = true
  · simp only [h1, ↓reduceIte]
  · simp only [h1, Bool.false_eq_true, ↓reduceIte]
    unfold afterMantissa
    by_cases h2 : (peek X == 0x65 || peek X == 0x45) = true
    · have h3 : (peek X == 0x4E) = false ∧ (peek X == 0x4D) = false := by
        simp only [Bool.or_eq_true, beq_iff_eq] at h2
        rcases h2 with h2 | h2 <;> rw [h2] <;> decide
      simp only [h2, h3.1, h3.2, hl, Bool.and_false, Bool.false_eq_true, ↓reduceIte]
    · simp only [h2, Bool.false_eq_true, ↓reduceIte]
      unfold decimalTail
      simp only [hc, hl, hsl, Bool.and_false, Bool.false_and, Bool.false_eq_true, ↓reduceIte,
        Bool.not_false, Bool.and_true, Bool.or_self, intOrBig_zero]

/-- the suffix, without the Clojure flag: no ratio branch (a `/` is never a terminator) -/
theorem decimalTail_inv (cfg : Cfg) (hc : cfg.clj = false) (start : Bytes) (neg hd he : Bool) (body T : Bytes)
    (v : NumVal) (rest : Bytes) (h : decimalTail cfg start neg hd he (body ++ T) T = .ok v rest) :
    (hd = false ∧ he = false ∧ T = 0x4E :: rest ∧ v = .bigint neg 10 body ∧ TermStart rest ∧
        (cfg.exp = true → NoTrailU body)) ∨
    (T = 0x4D :: rest ∧ v = .bigdec neg body ∧ TermStart rest ∧ (cfg.exp = true → NoTrailU body)) ∨
    ((hd || he) = true ∧ rest = T ∧ v = .float (parseDouble cfg (slice start T)) ∧ TermStart rest) ∨
    (hd = false ∧ he = false ∧ rest = T ∧ v = intOrBig cfg body 10 neg ∧ TermStart rest) := by
  unfold decimalTail at h
  rw [slice_append] at h
  simp only [hc, Bool.false_and] at h
  by_cases h0 : (cfg.exp && (peek T == 0x4E || peek T == 0x4D || peek T == 0x2F) &&
      lastIsUnderscore (body ++ T) T) = true
  · rw [if_pos h0] at h
    exact NumOut.noConfusion h
  · rw [if_neg h0] at h
    have hsep : (peek T == 0x4E || peek T == 0x4D || peek T == 0x2F) = true → cfg.exp = true → NoTrailU body := by
      intro h1 h2
      rw [h1, h2] at h0
      exact (lastIsUnderscore_iff body T).mp (by simpa using h0)
    by_cases hN : (peek T == 0x4E && !hd && !he) = true
    · rw [if_pos hN] at h
      simp only [Bool.and_eq_true, beq_iff_eq, Bool.not_eq_true'] at hN
      have hs := hsep (by simp [hN.1.1])
      obtain ⟨t, rfl⟩ := NSnd.of_peek hN.1.1 (by decide)
      obtain ⟨rfl, rfl, ht⟩ := NSnd.finishNum_ok h
      exact Or.inl ⟨hN.1.2, hN.2, rfl, rfl, ht, hs⟩
    · rw [if_neg hN] at h
      by_cases hM : (peek T == 0x4D) = true
      · rw [if_pos hM] at h
        have hs := hsep (by simp [hM])
        simp only [beq_iff_eq] at hM
        obtain ⟨t, rfl⟩ := NSnd.of_peek hM (by decide)
        obtain ⟨rfl, rfl, ht⟩ := NSnd.finishNum_ok h
        exact Or.inr (Or.inl ⟨rfl, rfl, ht, hs⟩)
      · rw [if_neg hM] at h
        simp only [Bool.false_eq_true, ↓reduceIte] at h
        by_cases hf : (hd || he) = true
        · rw [if_pos hf] at h
          obtain ⟨rfl, rfl, ht⟩ := NSnd.finishNum_ok h
          exact Or.inr (Or.inr (Or.inl ⟨hf, rfl, rfl, ht⟩))
        · rw [if_neg hf] at h
          obtain ⟨rfl, rfl, ht⟩ := NSnd.finishNum_ok h
          simp only [Bool.or_eq_true, not_or, Bool.not_eq_true] at hf
          exact Or.inr (Or.inr (Or.inr ⟨hf.1, hf.2, rfl, rfl, ht⟩))

/-! ## soundness of the body -/

/-- after an integer part of the grammar: whatever is accepted is a token -/
theorem decimal_sound (sg : Bytes) (neg : Bool) (ip X : Bytes) (v : NumVal) (rest : Bytes)
    (hs : SignTok sg neg) (hip : ExpInt ip)
    (h : afterIp expCfg (sg ++ (ip ++ X)) neg (ip ++ X) X = .ok v rest) :
    ∃ tok, sg ++ (ip ++ X) = tok ++ rest ∧ ExpNum tok v ∧ TermStart rest := by
  obtain ⟨fr, ex, T, rfl, hfr, hex, hsep, -, -, h2⟩ := afterIp_inv expCfg _ neg ip X v rest h
  have hbody : ip ++ (fr ++ (ex ++ T)) = (ip ++ fr ++ ex) ++ T := by simp
  rw [hbody] at h2
  have hsepM : ex ≠ [] → NoTrailU fr := fun hne => noTrailU_of_append (hsep hne rfl)
  have hm : ExpMantissa ip fr ex := ⟨hip, hfr, hex, hsepM⟩
  rcases decimalTail_inv expCfg rfl _ neg _ _ (ip ++ fr ++ ex) T v rest h2 with
    ⟨h3, h4, hT, hv, ht, hu⟩ | ⟨hT, hv, ht, hu⟩ | ⟨hf, hT, hv, ht⟩ | ⟨h3, h4, hT, hv, ht⟩
  · -- `N`
    have hfr1 := isEmpty_not_false h3
    have hex1 := isEmpty_not_false h4
    subst hfr1 hex1 hT hv
    refine ⟨sg ++ ip ++ [0x4E], by simp, ?_, ht⟩
    have := ExpNum.decN sg ip neg hs hip
    simpa using this
  · -- `M`
    subst hT hv
    exact ⟨sg ++ ip ++ fr ++ ex ++ [0x4D], by simp, ExpNum.decM sg ip fr ex neg hs hm (hu rfl), ht⟩
  · -- float
    subst hT
    have hsl : slice (sg ++ (ip ++ fr ++ ex ++ rest)) rest = sg ++ ip ++ fr ++ ex := by
      have := slice_append (sg ++ ip ++ fr ++ ex) rest
      simpa only [List.append_assoc] using this
    rw [hsl] at hv
    subst hv
    refine ⟨sg ++ ip ++ fr ++ ex, by simp, ExpNum.float sg ip fr ex neg hs hm ?_, ht⟩
    cases fr with
    | nil =>
      cases ex with
      | nil => exact Bool.noConfusion hf
      | cons _ _ => exact Or.inr (by simp)
    | cons _ _ => exact Or.inl (by simp)
  · -- integer
    have hfr1 := isEmpty_not_false h3
    have hex1 := isEmpty_not_false h4
    subst hfr1 hex1 hT
    simp only [List.append_nil] at hv
    rw [intOrBig_run expCfg 10 (by omega) ip neg (expInt_digRun hip)] at hv
    subst hv
    exact ⟨sg ++ ip, by simp, ExpNum.dec sg ip neg hs hip, ht⟩

theorem numBody_sound (sg : Bytes) (neg : Bool) (body : Bytes) (v : NumVal) (rest : Bytes)
    (hs : SignTok sg neg) (hb : is09 (peek body) = true)
    (h : numBody expCfg (sg ++ body) neg body = .ok v rest) :
    ∃ tok, sg ++ body = tok ++ rest ∧ ExpNum tok v ∧ TermStart rest := by
  rw [numBody_stages, radixPart_noclj expCfg rfl] at h
  simp only [] at h
  by_cases h0 : (peek body == 0x30) = true
  · -- zero path
    rw [if_pos h0] at h
    simp only [beq_iff_eq] at h0
    obtain ⟨X, rfl⟩ := NSnd.of_peek h0 (by decide)
    rw [zeroPart_noclj expCfg rfl] at h
    by_cases hd : is09 (peek X) = true
    · rw [if_pos hd] at h
      exact NumOut.noConfusion h
    · rw [if_neg hd, zeroRest_noclj expCfg rfl] at h
      exact decimal_sound sg neg [0x30] X v rest hs (Or.inl rfl) h
  · -- non-zero path
    rw [if_neg h0] at h
    rcases decLoop_split expCfg.exp body (body.length + 1) (Nat.le_refl _) with
      ⟨cur, he⟩ | ⟨run, X', hb', hrun, hnt, hT, hT2, hl⟩
    · unfold nonzeroPart at h
      rw [he] at h
      exact NumOut.noConfusion h
    · rw [nonzeroPart_eq expCfg _ neg body X' hl] at h
      subst hb'
      have hdr : DigRun true is09 run := run_head hrun hT hb
      have hn : NzRun true run := by
        refine ⟨hdr, ?_, hnt⟩
        obtain ⟨d, t, rfl, -, -⟩ := hdr
        intro hd
        simp only [List.head?_cons, Option.some.injEq] at hd
        subst hd
        exact h0 rfl
      exact decimal_sound sg neg run X' v rest hs (Or.inr hn) h

end Edn.Proofs.ExpN
