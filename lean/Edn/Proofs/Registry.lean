/-
  Edn.Proofs.Registry — C14 (registry half): after any sequence of register, re-register
  and unregister calls the reader registry (16 chained buckets) and the external-type
  table (one chain) map each name to the most recently registered entry or to none,
  i.e. they refine the obvious abstract map.
-/
import Edn.Model.Registry

namespace Edn.Proofs
open Edn.Model Edn.Generated

variable {κ : Type} [BEq κ] [LawfulBEq κ]

def ChainOK (c : Chain κ) : Prop := (c.map Prod.fst).Nodup

theorem upd_lookup (k : κ) (h : Nat) : ∀ (c : Chain κ) (q : κ), c.any (fun e => e.1 == k) = true →
    Chain.lookup (Chain.register.upd k h c) q = if q == k then some h else Chain.lookup c q := by
  intro c
  induction c with
  | nil => intro q hany; simp at hany
  | cons e es ih =>
    intro q hany
    unfold Chain.register.upd
    by_cases hek : (e.1 == k) = true
    · simp only [hek, ↓reduceIte]
      have hek' : e.1 = k := by simpa using hek
      by_cases hq : (q == k) = true
      · have : q = k := by simpa using hq
        subst this
        simp [Chain.lookup, List.find?]
      · simp only [hq, Bool.false_eq_true, ↓reduceIte]
        have hkq : (k == q) = false := by
          cases hc : (k == q) with
          | false => rfl
          | true => exact absurd (by simpa using (eq_of_beq hc).symm) (by simpa using hq)
        simp [Chain.lookup, List.find?, hkq, hek']
    · simp only [hek, Bool.false_eq_true, ↓reduceIte]
      have hany' : es.any (fun e => e.1 == k) = true := by
        simpa [List.any_cons, hek] using hany
      have := ih q hany'
      by_cases hq : (q == k) = true
      · have hqk : q = k := by simpa using hq
        subst hqk
        have heq : (e.1 == q) = false := by simpa using hek
        simp only [Chain.lookup, List.find?, heq] at this ⊢
        simpa using this
      · simp only [hq, Bool.false_eq_true, ↓reduceIte] at this ⊢
        simp only [Chain.lookup, List.find?] at this ⊢
        cases heq : (e.1 == q) <;> simp [heq, this]

theorem upd_keys (k : κ) (h : Nat) : ∀ (c : Chain κ),
    (Chain.register.upd k h c).map Prod.fst = c.map Prod.fst := by
  intro c
  induction c with
  | nil => simp [Chain.register.upd]
  | cons e es ih =>
    unfold Chain.register.upd
    by_cases hek : (e.1 == k) = true
    · have : e.1 = k := by simpa using hek
      simp [hek, this]
    · simp [hek, ih]

theorem register_lookup (c : Chain κ) (k : κ) (h : Nat) (q : κ) :
    (c.register k h).lookup q = if q == k then some h else c.lookup q := by
  unfold Chain.register
  by_cases hany : c.any (fun e => e.1 == k) = true
  · simp only [hany, ↓reduceIte]
    exact upd_lookup k h c q hany
  · simp only [hany, Bool.false_eq_true, ↓reduceIte]
    by_cases hq : (q == k) = true
    · have : q = k := by simpa using hq
      subst this
      simp [Chain.lookup, List.find?]
    · have hkq : (k == q) = false := by
        cases hc : (k == q) with
        | false => rfl
        | true => exact absurd (by simpa using (eq_of_beq hc).symm) (by simpa using hq)
      simp [Chain.lookup, List.find?, hkq, hq]

theorem register_ok (c : Chain κ) (k : κ) (h : Nat) (hc : ChainOK c) : ChainOK (c.register k h) := by
  unfold Chain.register ChainOK at *
  by_cases hany : c.any (fun e => e.1 == k) = true
  · simp only [hany, ↓reduceIte]
    rw [upd_keys]; exact hc
  · simp only [hany, Bool.false_eq_true, ↓reduceIte, List.map_cons, List.nodup_cons]
    refine ⟨?_, hc⟩
    intro hmem
    apply hany
    rw [List.any_eq_true]
    obtain ⟨e, he, hek⟩ := List.mem_map.mp hmem
    exact ⟨e, he, by simp [hek]⟩

theorem unregister_keys_sub : ∀ (c : Chain κ) (k : κ) (x : κ),
    x ∈ (c.unregister k).map Prod.fst → x ∈ c.map Prod.fst := by
  intro c
  induction c with
  | nil => intro k x h; simp [Chain.unregister] at h
  | cons e es ih =>
    intro k x h
    unfold Chain.unregister at h
    by_cases hek : (e.1 == k) = true
    · simp only [hek, ↓reduceIte] at h
      simp [h]
    · simp only [hek, Bool.false_eq_true, ↓reduceIte, List.map_cons, List.mem_cons] at h ⊢
      rcases h with h | h
      · left; exact h
      · right; exact ih k x h

theorem unregister_ok : ∀ (c : Chain κ) (k : κ), ChainOK c → ChainOK (c.unregister k) := by
  intro c
  induction c with
  | nil => intro k h; simpa [Chain.unregister] using h
  | cons e es ih =>
    intro k h
    unfold ChainOK at h ⊢
    simp only [List.map_cons, List.nodup_cons] at h
    unfold Chain.unregister
    by_cases hek : (e.1 == k) = true
    · simp only [hek, ↓reduceIte]; exact h.2
    · simp only [hek, Bool.false_eq_true, ↓reduceIte, List.map_cons, List.nodup_cons]
      exact ⟨fun hm => h.1 (unregister_keys_sub es k _ hm), ih k h.2⟩

theorem unregister_lookup : ∀ (c : Chain κ) (k q : κ), ChainOK c →
    (c.unregister k).lookup q = if q == k then none else c.lookup q := by
  intro c
  induction c with
  | nil => intro k q _; simp [Chain.unregister, Chain.lookup]
  | cons e es ih =>
    intro k q h
    unfold ChainOK at h
    simp only [List.map_cons, List.nodup_cons] at h
    unfold Chain.unregister
    by_cases hek : (e.1 == k) = true
    · simp only [hek, ↓reduceIte]
      have hek' : e.1 = k := by simpa using hek
      by_cases hq : (q == k) = true
      · have hqk : q = k := by simpa using hq
        subst hqk
        simp only [beq_self_eq_true, ↓reduceIte]
        -- k occurs nowhere in es
        unfold Chain.lookup
        rw [Option.map_eq_none_iff, List.find?_eq_none]
        intro x hx hxe
        have : x.1 = q := by simpa using hxe
        exact h.1 (by rw [hek']; exact List.mem_map.mpr ⟨x, hx, this⟩)
      · simp only [hq, Bool.false_eq_true, ↓reduceIte]
        have : (e.1 == q) = false := by
          rw [hek']
          cases hc : (k == q) with
          | false => rfl
          | true => exact absurd (by simpa using (eq_of_beq hc).symm) (by simpa using hq)
        simp [Chain.lookup, List.find?, this]
    · simp only [hek, Bool.false_eq_true, ↓reduceIte]
      have := ih k q h.2
      by_cases hq : (q == k) = true
      · have hqk : q = k := by simpa using hq
        subst hqk
        simp only [beq_self_eq_true, ↓reduceIte] at this ⊢
        have heq : (e.1 == q) = false := by simpa using hek
        simp only [Chain.lookup, List.find?, heq] at this ⊢
        exact this
      · simp only [hq, Bool.false_eq_true, ↓reduceIte] at this ⊢
        simp only [Chain.lookup, List.find?] at this ⊢
        cases heq : (e.1 == q) <;> simp [heq, this]

/-! ### the external-type table -/

/-- every state reachable from the empty table behaves like the abstract map -/
theorem ext_refines (ops : List (RegOp Nat)) :
    ChainOK (ops.foldl extStep []) ∧
    ∀ q, (ops.foldl extStep []).lookup q = (ops.foldl specStep (fun _ => none)) q := by
  suffices h : ∀ (c : Chain Nat) (m : Nat → Option Nat), ChainOK c → (∀ q, c.lookup q = m q) →
      ChainOK (ops.foldl extStep c) ∧ ∀ q, (ops.foldl extStep c).lookup q = (ops.foldl specStep m) q from
    h [] _ (by simp [ChainOK]) (by simp [Chain.lookup])
  induction ops with
  | nil => intro c m hc hm; exact ⟨hc, hm⟩
  | cons op ops ih =>
    intro c m hc hm
    simp only [List.foldl_cons]
    cases op with
    | reg k h =>
      apply ih
      · exact register_ok c k h hc
      · intro q; simp only [extStep, specStep]; rw [register_lookup, hm]
    | unreg k =>
      apply ih
      · exact unregister_ok c k hc
      · intro q; simp only [extStep, specStep]; rw [unregister_lookup c k q hc, hm]

/-! ### the bucketed reader registry -/

def RegOK (r : Registry) : Prop := 0 < r.buckets.length ∧ ∀ c ∈ r.buckets, ChainOK c

theorem create_ok : RegOK Registry.create := by
  refine ⟨by simp [Registry.create]; decide, ?_⟩
  intro c hc
  simp [Registry.create] at hc
  rw [hc.2]; simp [ChainOK]

theorem bucket_lt (r : Registry) (h : RegOK r) (t : Bytes) : r.bucketOf t < r.buckets.length :=
  Nat.mod_lt _ h.1

theorem getD_mem_ok (r : Registry) (h : RegOK r) (i : Nat) : ChainOK (r.buckets.getD i []) := by
  by_cases hi : i < r.buckets.length
  · have : r.buckets.getD i [] = r.buckets[i] := by simp [List.getD, hi]
    rw [this]; exact h.2 _ (List.getElem_mem hi)
  · have : r.buckets.getD i [] = [] := by simp [List.getD, List.getElem?_eq_none (by omega : r.buckets.length ≤ i)]
    rw [this]; simp [ChainOK]

theorem set_ok (r : Registry) (h : RegOK r) (i : Nat) (c : Chain Bytes) (hc : ChainOK c) :
    RegOK { buckets := r.buckets.set i c } := by
  refine ⟨by simpa using h.1, ?_⟩
  intro x hx
  rcases List.mem_or_eq_of_mem_set hx with hx | hx
  · exact h.2 x hx
  · rw [hx]; exact hc

theorem lookup_set (r : Registry) (h : RegOK r) (t q : Bytes) (c : Chain Bytes) :
    Registry.lookup { buckets := r.buckets.set (r.bucketOf t) c } q =
      if r.bucketOf q = r.bucketOf t then c.lookup q else r.lookup q := by
  unfold Registry.lookup Registry.bucketOf
  simp only [List.length_set]
  have hlt := bucket_lt r h t
  unfold Registry.bucketOf at hlt
  by_cases hb : (hashTag q).toNat % r.buckets.length = (hashTag t).toNat % r.buckets.length
  · simp only [hb, ↓reduceIte]
    simp [List.getD, List.getElem?_set, hlt]
  · simp only [hb, ↓reduceIte]
    simp [List.getD, List.getElem?_set, Ne.symm hb]

theorem step_spec (r : Registry) (h : RegOK r) (op : RegOp Bytes) :
    RegOK (r.step op) ∧ ∀ q, (r.step op).lookup q = specStep r.lookup op q := by
  cases op with
  | reg k hd =>
    refine ⟨set_ok r h _ _ (register_ok _ k hd (getD_mem_ok r h _)), ?_⟩
    intro q
    simp only [Registry.step, Registry.register, specStep]
    rw [lookup_set r h]
    by_cases hb : r.bucketOf q = r.bucketOf k
    · simp only [hb, ↓reduceIte]
      rw [register_lookup]
      simp [Registry.lookup, hb]
    · simp only [hb, ↓reduceIte]
      have : (q == k) = false := by
        cases hc : (q == k) with
        | false => rfl
        | true => exact absurd (by rw [eq_of_beq hc]) hb
      simp [this]
  | unreg k =>
    refine ⟨set_ok r h _ _ (unregister_ok _ k (getD_mem_ok r h _)), ?_⟩
    intro q
    simp only [Registry.step, Registry.unregister, specStep]
    rw [lookup_set r h]
    by_cases hb : r.bucketOf q = r.bucketOf k
    · simp only [hb, ↓reduceIte]
      rw [unregister_lookup _ k q (getD_mem_ok r h _)]
      simp [Registry.lookup, hb]
    · simp only [hb, ↓reduceIte]
      have : (q == k) = false := by
        cases hc : (q == k) with
        | false => rfl
        | true => exact absurd (by rw [eq_of_beq hc]) hb
      simp [this]

theorem create_lookup (q : Bytes) : Registry.create.lookup q = none := by
  unfold Registry.lookup Registry.create
  simp only [List.getD, List.getElem?_replicate]
  split <;> simp [Chain.lookup]

/-- every state reachable from `edn_reader_registry_create` behaves like the abstract map -/
theorem registry_refines (ops : List (RegOp Bytes)) :
    ∀ q, (ops.foldl Registry.step Registry.create).lookup q = (ops.foldl specStep (fun _ => none)) q := by
  suffices h : ∀ (r : Registry) (m : Bytes → Option Nat), RegOK r → (∀ q, r.lookup q = m q) →
      ∀ q, (ops.foldl Registry.step r).lookup q = (ops.foldl specStep m) q from
    h _ _ create_ok create_lookup
  induction ops with
  | nil => intro r m _ hm; exact hm
  | cons op ops ih =>
    intro r m hr hm
    simp only [List.foldl_cons]
    obtain ⟨hok, hl⟩ := step_spec r hr op
    apply ih _ _ hok
    intro q
    rw [hl]
    cases op <;> simp [specStep, hm]

end Edn.Proofs
