/-
  Edn.Proofs.NumberAuxSwar — lane-wise reasoning for the SWAR block converter
  (`is_made_of_eight_digits_fast`, `parse_eight_digits_unrolled`): the 64-bit word is
  written as `Σ bᵢ·256ⁱ` over `Nat`, masks act byte by byte (`and8`), and each
  multiply-shift stage is a linear identity with no carries between lanes.
-/
import Edn.Model.Number
import Edn.Proofs.Bytes
namespace Edn.Proofs.NumSwar
open Edn.Model

theorem and_lane (a b x y : Nat) (ha : a < 256) (hb : b < 256) :
    (a + 256 * x) &&& (b + 256 * y) = (a &&& b) + 256 * (x &&& y) := by
  have h1 : ((a + 256 * x) &&& (b + 256 * y)) % 2 ^ 8 = a &&& b := by
    rw [Nat.and_mod_two_pow]
    congr 1 <;> omega
  have h2 : ((a + 256 * x) &&& (b + 256 * y)) / 2 ^ 8 = x &&& y := by
    rw [Nat.and_div_two_pow]
    congr 1 <;> omega
  have := Nat.div_add_mod ((a + 256 * x) &&& (b + 256 * y)) (2 ^ 8)
  rw [h1, h2] at this
  omega

/-- bitwise AND of two 8-byte numbers, byte by byte -/
theorem and8 (a0 a1 a2 a3 a4 a5 a6 a7 m0 m1 m2 m3 m4 m5 m6 m7 : Nat)
    (h0 : a0 < 256) (h1 : a1 < 256) (h2 : a2 < 256) (h3 : a3 < 256)
    (h4 : a4 < 256) (h5 : a5 < 256) (h6 : a6 < 256) (h7 : a7 < 256)
    (k0 : m0 < 256) (k1 : m1 < 256) (k2 : m2 < 256) (k3 : m3 < 256)
    (k4 : m4 < 256) (k5 : m5 < 256) (k6 : m6 < 256) (k7 : m7 < 256) :
    (a0 + 256 * (a1 + 256 * (a2 + 256 * (a3 + 256 * (a4 + 256 * (a5 + 256 * (a6 + 256 * (a7 + 256 * 0))))))))
      &&& (m0 + 256 * (m1 + 256 * (m2 + 256 * (m3 + 256 * (m4 + 256 * (m5 + 256 * (m6 + 256 * (m7 + 256 * 0))))))))
    = (a0 &&& m0) + 256 * ((a1 &&& m1) + 256 * ((a2 &&& m2) + 256 * ((a3 &&& m3) + 256 * ((a4 &&& m4)
        + 256 * ((a5 &&& m5) + 256 * ((a6 &&& m6) + 256 * ((a7 &&& m7) + 256 * 0))))))) := by
  rw [and_lane _ _ _ _ h0 k0, and_lane _ _ _ _ h1 k1, and_lane _ _ _ _ h2 k2, and_lane _ _ _ _ h3 k3,
    and_lane _ _ _ _ h4 k4, and_lane _ _ _ _ h5 k5, and_lane _ _ _ _ h6 k6, and_lane _ _ _ _ h7 k7,
    Nat.and_self]

theorem byteHi : ∀ n : Fin 256, (n.val &&& 240 = 48) ↔ (48 ≤ n.val ∧ n.val ≤ 63) := by decide +kernel
theorem byteHi6 : ∀ n : Fin 256, ((n.val + 6) &&& 240 = 48) ↔ (42 ≤ n.val ∧ n.val ≤ 57) := by decide +kernel
theorem byteLo : ∀ n : Fin 256, 48 ≤ n.val → n.val ≤ 63 → n.val &&& 15 = n.val - 48 := by decide +kernel

theorem byteHi' (n : Nat) (h : n < 256) : (n &&& 240 = 48) ↔ (48 ≤ n ∧ n ≤ 63) := byteHi ⟨n, h⟩
theorem byteHi6' (n : Nat) (h : n < 256) : ((n + 6) &&& 240 = 48) ↔ (42 ≤ n ∧ n ≤ 57) := byteHi6 ⟨n, h⟩
theorem byteLo' (n : Nat) (h1 : 48 ≤ n) (h2 : n ≤ 63) : n &&& 15 = n - 48 := byteLo ⟨n, by omega⟩ h1 h2

theorem is09_iff (c : UInt8) : is09 c = true ↔ (48 ≤ c.toNat ∧ c.toNat ≤ 57) := by
  simp [is09, UInt8.le_iff_toNat_le]

theorem lane_eq (a x y : Nat) (ha : a < 256) : a + 256 * x = 48 + 256 * y ↔ (a = 48 ∧ x = y) := by omega

theorem horner_eq30 (x0 x1 x2 x3 x4 x5 x6 x7 : Nat)
    (h0 : x0 < 256) (h1 : x1 < 256) (h2 : x2 < 256) (h3 : x3 < 256)
    (h4 : x4 < 256) (h5 : x5 < 256) (h6 : x6 < 256) (h7 : x7 < 256) :
    (x0 + 256 * (x1 + 256 * (x2 + 256 * (x3 + 256 * (x4 + 256 * (x5 + 256 * (x6 + 256 * (x7 + 256 * 0))))))))
      = 0x3030303030303030 ↔
    (x0 = 48 ∧ x1 = 48 ∧ x2 = 48 ∧ x3 = 48 ∧ x4 = 48 ∧ x5 = 48 ∧ x6 = 48 ∧ x7 = 48) := by
  have hC : (0x3030303030303030 : Nat) =
      48 + 256 * (48 + 256 * (48 + 256 * (48 + 256 * (48 + 256 * (48 + 256 * (48 + 256 * (48 + 256 * 0))))))) := by
    decide
  rw [hC, lane_eq _ _ _ h0, lane_eq _ _ _ h1, lane_eq _ _ _ h2, lane_eq _ _ _ h3, lane_eq _ _ _ h4,
    lane_eq _ _ _ h5, lane_eq _ _ _ h6, lane_eq _ _ _ h7]
  simp only [and_true]

theorem hiMask_iff (n0 n1 n2 n3 n4 n5 n6 n7 : Nat)
    (h0 : n0 < 256) (h1 : n1 < 256) (h2 : n2 < 256) (h3 : n3 < 256)
    (h4 : n4 < 256) (h5 : n5 < 256) (h6 : n6 < 256) (h7 : n7 < 256) :
    (n0 + 256 * (n1 + 256 * (n2 + 256 * (n3 + 256 * (n4 + 256 * (n5 + 256 * (n6 + 256 * (n7 + 256 * 0))))))))
      &&& 0xF0F0F0F0F0F0F0F0 = 0x3030303030303030 ↔
    ((n0 &&& 240) = 48 ∧ (n1 &&& 240) = 48 ∧ (n2 &&& 240) = 48 ∧ (n3 &&& 240) = 48 ∧
     (n4 &&& 240) = 48 ∧ (n5 &&& 240) = 48 ∧ (n6 &&& 240) = 48 ∧ (n7 &&& 240) = 48) := by
  have hM : (0xF0F0F0F0F0F0F0F0 : Nat) =
      240 + 256 * (240 + 256 * (240 + 256 * (240 + 256 * (240 + 256 * (240 + 256 * (240 + 256 * (240 + 256 * 0))))))) := by
    decide
  rw [hM, and8 _ _ _ _ _ _ _ _ _ _ _ _ _ _ _ _ h0 h1 h2 h3 h4 h5 h6 h7
    (by omega) (by omega) (by omega) (by omega) (by omega) (by omega) (by omega) (by omega)]
  have b0 : n0 &&& 240 ≤ 240 := Nat.and_le_right
  have b1 : n1 &&& 240 ≤ 240 := Nat.and_le_right
  have b2 : n2 &&& 240 ≤ 240 := Nat.and_le_right
  have b3 : n3 &&& 240 ≤ 240 := Nat.and_le_right
  have b4 : n4 &&& 240 ≤ 240 := Nat.and_le_right
  have b5 : n5 &&& 240 ≤ 240 := Nat.and_le_right
  have b6 : n6 &&& 240 ≤ 240 := Nat.and_le_right
  have b7 : n7 &&& 240 ≤ 240 := Nat.and_le_right
  exact horner_eq30 _ _ _ _ _ _ _ _ (by omega) (by omega) (by omega) (by omega) (by omega) (by omega) (by omega) (by omega)

def leVal : Bytes → Nat
  | [] => 0
  | c :: cs => c.toNat + 256 * leVal cs

theorem leVal_lt : ∀ (l : Bytes), leVal l < 256 ^ l.length
  | [] => by simp [leVal]
  | c :: cs => by
    have := leVal_lt cs
    have hc := c.toNat_lt
    simp only [leVal, List.length_cons, Nat.pow_succ]
    omega

theorem or_byte (x c : Nat) (hc : c < 256) : x * 256 ||| c = c + 256 * x := by
  have := Nat.two_pow_add_eq_or_of_lt (i := 8) (b := c) (by omega) x
  rw [show x * 256 = 2 ^ 8 * x by omega, ← this]; omega

theorem foldr_load : ∀ (l : Bytes), l.length ≤ 8 →
    (l.foldr (fun (c : UInt8) (acc : UInt64) => acc <<< 8 ||| c.toUInt64) 0).toNat = leVal l
  | [], _ => by simp [leVal]
  | c :: cs, h => by
    have ih := foldr_load cs (by simp at h; omega)
    have hlt := leVal_lt cs
    have hpow : 256 ^ cs.length ≤ 256 ^ 7 := Nat.pow_le_pow_right (by omega) (by simp at h; omega)
    have hc := c.toNat_lt
    simp only [List.foldr_cons, UInt64.toNat_or, UInt64.toNat_shiftLeft, UInt8.toNat_toUInt64, ih, leVal]
    rw [show (8 : UInt64).toNat % 64 = 8 by rfl, Nat.shiftLeft_eq]
    rw [Nat.mod_eq_of_lt (by omega)]
    exact or_byte _ _ hc

theorem load64le_toNat (b : Bytes) (h : b.length = 8) : (load64le b).toNat = leVal b := by
  unfold load64le
  rw [List.take_of_length_le (by omega)]
  exact foldr_load b (by omega)

theorem length8 (b : Bytes) (h : b.length = 8) :
    ∃ b0 b1 b2 b3 b4 b5 b6 b7, b = [b0, b1, b2, b3, b4, b5, b6, b7] := by
  match b, h with
  | [b0, b1, b2, b3, b4, b5, b6, b7], _ => exact ⟨b0, b1, b2, b3, b4, b5, b6, b7, rfl⟩

theorem eightDigitsFast_nat (v : UInt64) :
    eightDigitsFast v = true ↔
      (v.toNat &&& 0xF0F0F0F0F0F0F0F0 = 0x3030303030303030 ∧
       (v.toNat + 0x0606060606060606) % 2 ^ 64 &&& 0xF0F0F0F0F0F0F0F0 = 0x3030303030303030) := by
  unfold eightDigitsFast
  rw [Bool.and_eq_true, beq_iff_eq, beq_iff_eq, ← UInt64.toNat_inj, ← UInt64.toNat_inj (a := _ &&& _),
    UInt64.toNat_and, UInt64.toNat_and, UInt64.toNat_add]
  exact Iff.rfl

theorem all8_is09 (b0 b1 b2 b3 b4 b5 b6 b7 : UInt8) :
    [b0, b1, b2, b3, b4, b5, b6, b7].all is09 = true ↔
    (48 ≤ b0.toNat ∧ b0.toNat ≤ 57) ∧ (48 ≤ b1.toNat ∧ b1.toNat ≤ 57) ∧ (48 ≤ b2.toNat ∧ b2.toNat ≤ 57) ∧
    (48 ≤ b3.toNat ∧ b3.toNat ≤ 57) ∧ (48 ≤ b4.toNat ∧ b4.toNat ≤ 57) ∧ (48 ≤ b5.toNat ∧ b5.toNat ≤ 57) ∧
    (48 ≤ b6.toNat ∧ b6.toNat ≤ 57) ∧ (48 ≤ b7.toNat ∧ b7.toNat ≤ 57) := by
  simp only [List.all_cons, List.all_nil, Bool.and_true, Bool.and_eq_true, is09_iff]

theorem eightDigitsFast_iff' (b : Bytes) (h : b.length = 8) :
    eightDigitsFast (load64le b) = b.all is09 := by
  obtain ⟨b0, b1, b2, b3, b4, b5, b6, b7, rfl⟩ := length8 b h
  rw [Bool.eq_iff_iff, eightDigitsFast_nat, load64le_toNat _ h, all8_is09]
  simp only [leVal]
  have h0 := b0.toNat_lt; have h1 := b1.toNat_lt; have h2 := b2.toNat_lt; have h3 := b3.toNat_lt
  have h4 := b4.toNat_lt; have h5 := b5.toNat_lt; have h6 := b6.toNat_lt; have h7 := b7.toNat_lt
  generalize b0.toNat = n0 at *; generalize b1.toNat = n1 at *
  generalize b2.toNat = n2 at *; generalize b3.toNat = n3 at *
  generalize b4.toNat = n4 at *; generalize b5.toNat = n5 at *
  generalize b6.toNat = n6 at *; generalize b7.toNat = n7 at *
  rw [hiMask_iff _ _ _ _ _ _ _ _ (by omega) (by omega) (by omega) (by omega) (by omega) (by omega) (by omega) (by omega)]
  rw [byteHi' n0 (by omega), byteHi' n1 (by omega), byteHi' n2 (by omega), byteHi' n3 (by omega),
    byteHi' n4 (by omega), byteHi' n5 (by omega), byteHi' n6 (by omega), byteHi' n7 (by omega)]
  constructor
  · rintro ⟨hA, hB⟩
    have hsum : (n0 + 256 * (n1 + 256 * (n2 + 256 * (n3 + 256 * (n4 + 256 * (n5 + 256 * (n6 + 256 * (n7 + 256 * 0))))))) + 0x0606060606060606) % 2 ^ 64
        = (n0 + 6) + 256 * ((n1 + 6) + 256 * ((n2 + 6) + 256 * ((n3 + 6) + 256 * ((n4 + 6) + 256 * ((n5 + 6) + 256 * ((n6 + 6) + 256 * ((n7 + 6) + 256 * 0))))))) := by
      omega
    rw [hsum, hiMask_iff _ _ _ _ _ _ _ _ (by omega) (by omega) (by omega) (by omega) (by omega) (by omega) (by omega) (by omega)] at hB
    rw [byteHi6' n0 (by omega), byteHi6' n1 (by omega), byteHi6' n2 (by omega), byteHi6' n3 (by omega),
      byteHi6' n4 (by omega), byteHi6' n5 (by omega), byteHi6' n6 (by omega), byteHi6' n7 (by omega)] at hB
    omega
  · intro hA
    refine ⟨by omega, ?_⟩
    have hsum : (n0 + 256 * (n1 + 256 * (n2 + 256 * (n3 + 256 * (n4 + 256 * (n5 + 256 * (n6 + 256 * (n7 + 256 * 0))))))) + 0x0606060606060606) % 2 ^ 64
        = (n0 + 6) + 256 * ((n1 + 6) + 256 * ((n2 + 6) + 256 * ((n3 + 6) + 256 * ((n4 + 6) + 256 * ((n5 + 6) + 256 * ((n6 + 6) + 256 * ((n7 + 6) + 256 * 0))))))) := by
      omega
    rw [hsum, hiMask_iff _ _ _ _ _ _ _ _ (by omega) (by omega) (by omega) (by omega) (by omega) (by omega) (by omega) (by omega)]
    rw [byteHi6' n0 (by omega), byteHi6' n1 (by omega), byteHi6' n2 (by omega), byteHi6' n3 (by omega),
      byteHi6' n4 (by omega), byteHi6' n5 (by omega), byteHi6' n6 (by omega), byteHi6' n7 (by omega)]
    omega

theorem parseEightDigits_nat (v : UInt64) : (parseEightDigits v).toNat =
    ((((((v.toNat &&& 0x0F0F0F0F0F0F0F0F) * 2561 % 2 ^ 64) / 2 ^ 8 &&& 0x00FF00FF00FF00FF) * 6553601 % 2 ^ 64) / 2 ^ 16
        &&& 0x0000FFFF0000FFFF) * 42949672960001 % 2 ^ 64) / 2 ^ 32 &&& 0xFFFFFFFF := by
  unfold parseEightDigits
  simp only [UInt64.toNat_and, UInt64.toNat_mul, UInt64.toNat_shiftRight, Nat.shiftRight_eq_div_pow]
  rfl

theorem and255 (n : Nat) (h : n < 256) : n &&& 255 = n := by
  have := Nat.and_two_pow_sub_one_eq_mod n 8
  rw [show 2 ^ 8 - 1 = 255 by rfl] at this
  rw [this]; exact Nat.mod_eq_of_lt h

/-- stage 0: the low nibbles of eight ASCII digits -/
theorem swar_stage0 (n0 n1 n2 n3 n4 n5 n6 n7 : Nat)
    (h0 : 48 ≤ n0 ∧ n0 ≤ 57) (h1 : 48 ≤ n1 ∧ n1 ≤ 57) (h2 : 48 ≤ n2 ∧ n2 ≤ 57) (h3 : 48 ≤ n3 ∧ n3 ≤ 57)
    (h4 : 48 ≤ n4 ∧ n4 ≤ 57) (h5 : 48 ≤ n5 ∧ n5 ≤ 57) (h6 : 48 ≤ n6 ∧ n6 ≤ 57) (h7 : 48 ≤ n7 ∧ n7 ≤ 57) :
    (n0 + 256 * (n1 + 256 * (n2 + 256 * (n3 + 256 * (n4 + 256 * (n5 + 256 * (n6 + 256 * (n7 + 256 * 0))))))))
      &&& 0x0F0F0F0F0F0F0F0F =
    (n0 - 48) + 256 * ((n1 - 48) + 256 * ((n2 - 48) + 256 * ((n3 - 48) + 256 * ((n4 - 48) + 256 * ((n5 - 48)
      + 256 * ((n6 - 48) + 256 * ((n7 - 48) + 256 * 0))))))) := by
  have hM : (0x0F0F0F0F0F0F0F0F : Nat) =
      15 + 256 * (15 + 256 * (15 + 256 * (15 + 256 * (15 + 256 * (15 + 256 * (15 + 256 * (15 + 256 * 0))))))) := by
    decide
  rw [hM, and8 _ _ _ _ _ _ _ _ _ _ _ _ _ _ _ _ (by omega) (by omega) (by omega) (by omega) (by omega) (by omega)
    (by omega) (by omega) (by omega) (by omega) (by omega) (by omega) (by omega) (by omega) (by omega) (by omega)]
  rw [byteLo' n0 h0.1 (by omega), byteLo' n1 h1.1 (by omega), byteLo' n2 h2.1 (by omega), byteLo' n3 h3.1 (by omega),
    byteLo' n4 h4.1 (by omega), byteLo' n5 h5.1 (by omega), byteLo' n6 h6.1 (by omega), byteLo' n7 h7.1 (by omega)]

theorem shift8 (x W k : Nat) (hx : x < 256) (hW : W < 2 ^ 56) :
    (x + 256 * W + 2 ^ 64 * k) % 2 ^ 64 / 2 ^ 8 = W := by omega

theorem lane_lt (a x B : Nat) (ha : a < 256) (hx : x < B) : a + 256 * x < 256 * B := by omega

theorem horner7_lt (c0 c1 c2 c3 c4 c5 c6 : Nat) (h0 : c0 < 256) (h1 : c1 < 256) (h2 : c2 < 256)
    (h3 : c3 < 256) (h4 : c4 < 256) (h5 : c5 < 256) (h6 : c6 < 256) :
    c0 + 256 * (c1 + 256 * (c2 + 256 * (c3 + 256 * (c4 + 256 * (c5 + 256 * (c6 + 256 * (0 + 256 * 0))))))) < 2 ^ 56 :=
  lane_lt _ _ (2 ^ 48) h0 (lane_lt _ _ (2 ^ 40) h1 (lane_lt _ _ (2 ^ 32) h2 (lane_lt _ _ (2 ^ 24) h3
    (lane_lt _ _ (2 ^ 16) h4 (lane_lt _ _ (2 ^ 8) h5 (lane_lt _ _ 1 h6 (by omega)))))))

/-- stage 1: pairs of digits -/
theorem swar_stage1 (d0 d1 d2 d3 d4 d5 d6 d7 : Nat)
    (h0 : d0 < 10) (h1 : d1 < 10) (h2 : d2 < 10) (h3 : d3 < 10)
    (h4 : d4 < 10) (h5 : d5 < 10) (h6 : d6 < 10) (h7 : d7 < 10) :
    ((d0 + 256 * (d1 + 256 * (d2 + 256 * (d3 + 256 * (d4 + 256 * (d5 + 256 * (d6 + 256 * (d7 + 256 * 0))))))))
      * 2561 % 2 ^ 64) / 2 ^ 8 &&& 0x00FF00FF00FF00FF =
    (10 * d0 + d1) + 65536 * ((10 * d2 + d3) + 65536 * ((10 * d4 + d5) + 65536 * (10 * d6 + d7))) := by
  have hV : ((d0 + 256 * (d1 + 256 * (d2 + 256 * (d3 + 256 * (d4 + 256 * (d5 + 256 * (d6 + 256 * (d7 + 256 * 0))))))))
      * 2561 % 2 ^ 64) / 2 ^ 8 =
      (10 * d0 + d1) + 256 * ((10 * d1 + d2) + 256 * ((10 * d2 + d3) + 256 * ((10 * d3 + d4) + 256 * ((10 * d4 + d5)
        + 256 * ((10 * d5 + d6) + 256 * ((10 * d6 + d7) + 256 * (0 + 256 * 0))))))) := by
    have hlt : (10 * d0 + d1) + 256 * ((10 * d1 + d2) + 256 * ((10 * d2 + d3) + 256 * ((10 * d3 + d4)
          + 256 * ((10 * d4 + d5) + 256 * ((10 * d5 + d6) + 256 * ((10 * d6 + d7) + 256 * (0 + 256 * 0))))))) < 2 ^ 56 :=
      horner7_lt _ _ _ _ _ _ _ (by omega) (by omega) (by omega) (by omega) (by omega) (by omega) (by omega)
    have hprod : (d0 + 256 * (d1 + 256 * (d2 + 256 * (d3 + 256 * (d4 + 256 * (d5 + 256 * (d6 + 256 * (d7 + 256 * 0))))))))
        * 2561 = d0 + 256 * ((10 * d0 + d1) + 256 * ((10 * d1 + d2) + 256 * ((10 * d2 + d3) + 256 * ((10 * d3 + d4)
          + 256 * ((10 * d4 + d5) + 256 * ((10 * d5 + d6) + 256 * ((10 * d6 + d7) + 256 * (0 + 256 * 0))))))))
          + 2 ^ 64 * (10 * d7) := by omega
    rw [hprod, shift8 _ _ _ (Nat.lt_trans h0 (by decide)) hlt]
  have hM : (0x00FF00FF00FF00FF : Nat) =
      255 + 256 * (0 + 256 * (255 + 256 * (0 + 256 * (255 + 256 * (0 + 256 * (255 + 256 * (0 + 256 * 0))))))) := by
    decide
  rw [hV, hM, and8 _ _ _ _ _ _ _ _ _ _ _ _ _ _ _ _ (by omega) (by omega) (by omega) (by omega) (by omega) (by omega)
    (by omega) (by omega) (by omega) (by omega) (by omega) (by omega) (by omega) (by omega) (by omega) (by omega)]
  rw [and255 _ (by omega : 10 * d0 + d1 < 256), and255 _ (by omega : 10 * d2 + d3 < 256),
    and255 _ (by omega : 10 * d4 + d5 < 256), and255 _ (by omega : 10 * d6 + d7 < 256)]
  simp only [Nat.and_zero]
  clear hV hM
  omega

theorem and_lane_pow (n a b x y : Nat) (ha : a < 2 ^ n) (hb : b < 2 ^ n) :
    (a + 2 ^ n * x) &&& (b + 2 ^ n * y) = (a &&& b) + 2 ^ n * (x &&& y) := by
  have hp : 0 < 2 ^ n := Nat.two_pow_pos n
  have h1 : ((a + 2 ^ n * x) &&& (b + 2 ^ n * y)) % 2 ^ n = a &&& b := by
    rw [Nat.and_mod_two_pow, Nat.add_mul_mod_self_left, Nat.add_mul_mod_self_left,
      Nat.mod_eq_of_lt ha, Nat.mod_eq_of_lt hb]
  have h2 : ((a + 2 ^ n * x) &&& (b + 2 ^ n * y)) / 2 ^ n = x &&& y := by
    rw [Nat.and_div_two_pow, Nat.add_mul_div_left _ _ hp, Nat.add_mul_div_left _ _ hp,
      Nat.div_eq_of_lt ha, Nat.div_eq_of_lt hb, Nat.zero_add, Nat.zero_add]
  have := Nat.div_add_mod ((a + 2 ^ n * x) &&& (b + 2 ^ n * y)) (2 ^ n)
  rw [h1, h2] at this
  omega

theorem and_lane16 (a b x y : Nat) (ha : a < 65536) (hb : b < 65536) :
    (a + 65536 * x) &&& (b + 65536 * y) = (a &&& b) + 65536 * (x &&& y) :=
  and_lane_pow 16 a b x y ha hb

theorem and65535 (n : Nat) (h : n < 65536) : n &&& 65535 = n := by
  have := Nat.and_two_pow_sub_one_eq_mod n 16
  rw [show 2 ^ 16 - 1 = 65535 by rfl] at this
  rw [this]; exact Nat.mod_eq_of_lt h

theorem shift16 (x W k : Nat) (hx : x < 65536) (hW : W < 2 ^ 48) :
    (x + 65536 * W + 2 ^ 64 * k) % 2 ^ 64 / 2 ^ 16 = W := by omega

theorem shift32 (x W k : Nat) (hx : x < 2 ^ 32) (hW : W < 2 ^ 32) :
    (x + 2 ^ 32 * W + 2 ^ 64 * k) % 2 ^ 64 / 2 ^ 32 = W := by omega

/-- stage 2: groups of four digits -/
theorem swar_stage2 (e0 e1 e2 e3 : Nat) (h0 : e0 < 100) (h1 : e1 < 100) (h2 : e2 < 100) (h3 : e3 < 100) :
    ((e0 + 65536 * (e1 + 65536 * (e2 + 65536 * e3))) * 6553601 % 2 ^ 64) / 2 ^ 16 &&& 0x0000FFFF0000FFFF =
    (100 * e0 + e1) + 2 ^ 32 * (100 * e2 + e3) := by
  have hprod : (e0 + 65536 * (e1 + 65536 * (e2 + 65536 * e3))) * 6553601 =
      e0 + 65536 * ((100 * e0 + e1) + 65536 * ((100 * e1 + e2) + 65536 * ((100 * e2 + e3) + 65536 * 0)))
        + 2 ^ 64 * (100 * e3) := by omega
  have hM : (0x0000FFFF0000FFFF : Nat) = 65535 + 65536 * (0 + 65536 * (65535 + 65536 * 0)) := by decide
  rw [hprod, shift16 _ _ _ (by omega) (by omega), hM,
    and_lane16 _ _ _ _ (by omega) (by omega), and_lane16 _ _ _ _ (by omega) (by omega),
    and_lane16 _ _ _ _ (by omega) (by omega),
    and65535 _ (by omega : 100 * e0 + e1 < 65536), and65535 _ (by omega : 100 * e2 + e3 < 65536)]
  simp only [Nat.and_zero, Nat.and_self]
  omega

/-- stage 3: all eight digits -/
theorem swar_stage3 (f0 f1 : Nat) (h0 : f0 < 10000) (h1 : f1 < 10000) :
    ((f0 + 2 ^ 32 * f1) * 42949672960001 % 2 ^ 64) / 2 ^ 32 &&& 0xFFFFFFFF = 10000 * f0 + f1 := by
  have hprod : (f0 + 2 ^ 32 * f1) * 42949672960001 =
      f0 + 2 ^ 32 * (10000 * f0 + f1) + 2 ^ 64 * (10000 * f1) := by omega
  rw [hprod, shift32 _ _ _ (by omega) (by omega)]
  have := Nat.and_two_pow_sub_one_eq_mod (10000 * f0 + f1) 32
  rw [show 2 ^ 32 - 1 = 0xFFFFFFFF by rfl] at this
  rw [this]; exact Nat.mod_eq_of_lt (by omega)

theorem parseEightDigits_eq' (b : Bytes) (h : b.length = 8) (hd : b.all is09 = true) :
    (parseEightDigits (load64le b)).toNat = b.foldl (fun a c => a * 10 + dval c) 0 := by
  obtain ⟨b0, b1, b2, b3, b4, b5, b6, b7, rfl⟩ := length8 b h
  rw [all8_is09] at hd
  obtain ⟨h0, h1, h2, h3, h4, h5, h6, h7⟩ := hd
  rw [parseEightDigits_nat, load64le_toNat _ h]
  simp only [leVal, List.foldl_cons, List.foldl_nil, dval]
  rw [swar_stage0 _ _ _ _ _ _ _ _ h0 h1 h2 h3 h4 h5 h6 h7,
    swar_stage1 _ _ _ _ _ _ _ _ (by omega) (by omega) (by omega) (by omega) (by omega) (by omega) (by omega) (by omega),
    swar_stage2 _ _ _ _ (by omega) (by omega) (by omega) (by omega),
    swar_stage3 _ _ (by omega) (by omega)]
  omega

end Edn.Proofs.NumSwar
