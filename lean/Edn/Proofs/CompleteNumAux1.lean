/-
  Edn.Proofs.CompleteNumAux1 — walking `readNumber` through a decimal integer token.
-/
import Edn.Spec.Renders
import Edn.Proofs.Fuel
import Edn.Proofs.Number
import Edn.Proofs.Scan

namespace Edn.Proofs.CNum
open Edn.Model Edn.Spec Edn.Proofs

/-! ## byte facts -/

/-- what the walk needs to know about the byte after the digits -/
def stopProps (c : UInt8) : Bool :=
  !is09 c && c != 0x5F && c != 0x72 && c != 0x52 && c != 0x2E && c != 0x65 && c != 0x45 &&
  c != 0x78 && c != 0x58 && c != 0x30 && !(0x31 ≤ c && c ≤ 0x37) && c != 0x38 && c != 0x39

def stopProps2 (c : UInt8) : Bool :=
  stopProps c && c != 0x4E && c != 0x4D && c != 0x2F

def termStop (c : UInt8) : Bool := !(c == 0 || isNumTerm c) || stopProps2 c
theorem termStop_all : ∀ c, termStop c = true := forall_u8_bool _ (by decide +kernel)

def digitFacts (c : UInt8) : Bool :=
  !is09 c || (c != 0 && !isDelim c && c != 0x2D && c != 0x2B && c != 0x5F && !isPreWs c &&
    (digitValue c 10).isSome)
theorem digitFacts_all : ∀ c, digitFacts c = true := forall_u8_bool _ (by decide +kernel)


theorem is09_props {c : UInt8} (h : is09 c = true) :
    c ≠ 0 ∧ isDelim c = false ∧ c ≠ 0x2D ∧ c ≠ 0x2B ∧ c ≠ 0x5F ∧ isPreWs c = false ∧
      (digitValue c 10).isSome = true := by
  have := digitFacts_all c
  simpa [digitFacts, h, and_assoc] using this

theorem term_props {c : UInt8} (h : c = 0 ∨ isNumTerm c = true) : stopProps2 c = true := by
  have := termStop_all c
  rcases h with h | h <;> simpa [termStop, h] using this

/-! ## list facts -/

theorem slice_append (ds rest : Bytes) : slice (ds ++ rest) rest = ds := by
  unfold slice
  simp

theorem lastIsUnderscore_digits (ds rest : Bytes) (hd : ∀ c ∈ ds, is09 c = true) :
    lastIsUnderscore (ds ++ rest) rest = false := by
  unfold lastIsUnderscore
  rw [slice_append]
  cases h : ds.getLast? with
  | none => rfl
  | some x =>
    have hx : x ∈ ds := List.mem_of_getLast? h
    have := (is09_props (hd x hx)).2.2.2.2.1
    simp [this]

theorem dropWhile_digits (rest : Bytes) (h : is09 (peek rest) = false) :
    ∀ ds : Bytes, (∀ c ∈ ds, is09 c = true) → (ds ++ rest).dropWhile is09 = rest := by
  intro ds
  induction ds with
  | nil =>
    intro _
    cases rest with
    | nil => rfl
    | cons c t =>
      have : is09 c = false := h
      simp [this]
  | cons d ds ih =>
    intro hd
    have h1 : is09 d = true := hd d (by simp)
    simp only [List.cons_append, List.dropWhile_cons, h1, ↓reduceIte]
    exact ih (fun c hc => hd c (by simp [hc]))

theorem decDigitsLoop_digits (exp : Bool) (rest : Bytes) (h1 : is09 (peek rest) = false)
    (h2 : (peek rest == 0x5F) = false) :
    ∀ (ds : Bytes) (f : Nat), (∀ c ∈ ds, is09 c = true) → ds.length + 1 ≤ f →
      decDigitsLoop exp f (ds ++ rest) = .ok rest := by
  intro ds
  induction ds with
  | nil =>
    intro f _ hf
    obtain ⟨f, rfl⟩ : ∃ f', f = f' + 1 := ⟨f - 1, by simp at hf; omega⟩
    simp only [List.nil_append]
    unfold decDigitsLoop
    simp only [h1, h2, Bool.false_eq_true, ↓reduceIte, Bool.and_false]
    split <;> rfl
  | cons d ds ih =>
    intro f hd hf
    obtain ⟨f, rfl⟩ : ∃ f', f = f' + 1 := ⟨f - 1, by simp at hf; omega⟩
    have hd1 : is09 d = true := hd d (by simp)
    have hp := is09_props hd1
    unfold decDigitsLoop
    have hpk : peek (d :: ds ++ rest) = d := rfl
    have hadv : adv (d :: ds ++ rest) = ds ++ rest := rfl
    simp only [hpk, hadv, hd1, hp.2.1, ↓reduceIte]
    have : (d != 0) = true := by simpa using hp.1
    simp only [this, Bool.not_false, Bool.and_self, ↓reduceIte]
    exact ih f (fun c hc => hd c (by simp [hc])) (by simp at hf ⊢; omega)

/-! ## values -/

theorem digitsValR_ten (ds : Bytes) (hd : ∀ c ∈ ds, is09 c = true) :
    digitsValR 10 ds = natOfDigits ds := by
  unfold digitsValR natOfDigits
  suffices h : ∀ a, List.foldl (fun a c => a * 10 + (digitValue c 10).getD 0) a ds =
      List.foldl (fun a c => a * 10 + (c.toNat - 48)) a ds from h 0
  intro a
  induction ds generalizing a with
  | nil => rfl
  | cons d ds ih =>
    have h1 : is09 d = true := hd d (by simp)
    simp only [List.foldl_cons]
    rw [digitValue_ten, if_pos h1]
    exact ih (fun c hc => hd c (by simp [hc])) _

theorem filter_digits (ds : Bytes) (hd : ∀ c ∈ ds, is09 c = true) :
    ds.filter (· != 0x5F) = ds := by
  rw [List.filter_eq_self]
  intro c hc
  have := (is09_props (hd c hc)).2.2.2.2.1
  simpa using this

theorem intOrBig_decimal (cfg : Cfg) (ds : Bytes) (neg : Bool) (hne : ds ≠ [])
    (hd : ∀ c ∈ ds, is09 c = true) :
    intOrBig cfg ds 10 neg =
      (if (if neg then natOfDigits ds ≤ 9223372036854775808 else natOfDigits ds ≤ 9223372036854775807)
       then .int (if neg then -(natOfDigits ds : Int) else (natOfDigits ds : Int))
       else .bigint neg 10 ds) := by
  unfold intOrBig
  rw [parseInt64_spec cfg 10 (by omega) ds neg
    (fun c hc => Or.inl (is09_props (hd c hc)).2.2.2.2.2.2)
    (by
      cases ds with
      | nil => exact absurd rfl hne
      | cons d t => exact ⟨d, by simp, (is09_props (hd d (by simp))).2.2.2.2.2.2⟩)]
  rw [filter_digits ds hd, digitsValR_ten ds hd]
  unfold inRange
  cases neg <;> simp only [Bool.false_eq_true, ↓reduceIte]
  · by_cases h : natOfDigits ds ≤ 9223372036854775807 <;> simp only [h, ↓reduceIte]
  · by_cases h : natOfDigits ds ≤ 9223372036854775808 <;> simp only [h, ↓reduceIte]

/-! ## the body of `readNumber` after the sign -/

/-- `readNumber` after the sign has been taken (verbatim copy of the rest of its body) -/
def numBody (cfg : Cfg) (s0 : Bytes) (neg : Bool) (s : Bytes) : NumOut :=
  let digitsStart := s
  let c := peek s
  -- radix notation (Clojure extension)
  let radixForm : Option NumOut :=
    if cfg.clj && is09 c then
      let rpos := s.dropWhile is09
      match rpos with
      | r :: rrest =>
        if r == 0x72 || r == 0x52 then
          let rv := radixPrefixValue 0 (slice s rpos)
          if 2 ≤ rv && rv ≤ 36 then
            let ds := rrest
            if !(digitValue (peek ds) rv).isSome then some (.err ds)
            else match radixDigitsLoop cfg.exp rv true (ds.length + 1) ds with
              | .error cur => some (.err cur)
              | .ok s' => some (radixTail cfg neg rv false ds s')
          else some (.err s)
        else none
      | [] => none
    else none
  match radixForm with
  | some r => r
  | none =>
  if c == 0x30 then
    let s1 := adv s
    let c1 := peek s1
    -- Clojure extension: skip further zeros, hex, octal
    let cljBranch : Option NumOut × Bytes :=
      if cfg.clj then
        let s2 := s1.dropWhile (· == 0x30)
        let c2 := peek s2
        if c2 == 0x78 || c2 == 0x58 then
          let ds := adv s2
          if !(digitValue (peek ds) 16).isSome then (some (.err ds), s2)
          else match radixDigitsLoop cfg.exp 16 false (ds.length + 1) ds with
            | .error cur => (some (.err cur), s2)
            | .ok s' => (some (radixTail cfg neg 16 true ds s'), s2)
        else if 0x31 ≤ c2 && c2 ≤ 0x37 then
          match radixDigitsLoop cfg.exp 8 false (s2.length + 1) s2 with
          | .error cur => (some (.err cur), s2)
          | .ok s' => (some (radixTail cfg neg 8 true digitsStart s'), s2)
        else if c2 == 0x38 || c2 == 0x39 then (some (.err s2), s2)
        else (none, s2)
      else
        if is09 c1 then (some (.err s1), s1) else (none, s1)
    match cljBranch with
    | (some r, _) => r
    | (none, s2) =>
      let c2 := peek s2
      if c2 == 0x2E then decimalPart cfg s0 neg digitsStart s2
      else if c2 == 0x4E then finishNum (.bigint neg 10 [0x30]) (adv s2)
      else if c2 == 0x4D then finishNum (.bigdec neg [0x30]) (adv s2)
      else if c2 == 0x65 || c2 == 0x45 then exponentPart cfg s0 neg false digitsStart s2
      else if cfg.clj && c2 == 0x2F then
        match ratioDenominator (adv s2) with
        | .error cur => .err cur
        | .ok s' => .ok (.int 0) s'
      else finishNum (.int 0) s2
  else
    match decDigitsLoop cfg.exp (s.length + 1) s with
    | .error cur => .err cur
    | .ok s1 =>
      if peek s1 == 0x2E then decimalPart cfg s0 neg digitsStart s1
      else afterMantissa cfg s0 neg false digitsStart s1

theorem readNumber_sign (cfg : Cfg) (sg s : Bytes) (neg : Bool) (hs : SignTok sg neg)
    (hd : is09 (peek s) = true) :
    readNumber cfg (sg ++ s) = numBody cfg (sg ++ s) neg s := by
  have hp := is09_props hd
  rcases hs with ⟨rfl, rfl⟩ | ⟨rfl, rfl⟩ | ⟨rfl, rfl⟩
  · have h1 : (peek s == 0x2D) = false := by simpa using hp.2.2.1
    have h2 : (peek s == 0x2B) = false := by simpa using hp.2.2.2.1
    unfold readNumber
    simp only [List.nil_append, h1, h2, Bool.or_self, Bool.false_eq_true, ↓reduceIte]
    rfl
  · unfold readNumber numBody
    rfl
  · unfold readNumber numBody
    rfl

theorem stopProps_unpack {c : UInt8} (h : stopProps c = true) :
    is09 c = false ∧ (c == 0x5F) = false ∧ (c == 0x72) = false ∧ (c == 0x52) = false ∧
    (c == 0x2E) = false ∧ (c == 0x65) = false ∧ (c == 0x45) = false ∧ (c == 0x78) = false ∧
    (c == 0x58) = false ∧ (c == 0x30) = false ∧ (decide (0x31 ≤ c) && decide (c ≤ 0x37)) = false ∧
    (c == 0x38) = false ∧ (c == 0x39) = false := by
  simp only [stopProps, bne, Bool.and_eq_true, Bool.not_eq_true', and_assoc] at h
  exact h

theorem numBody_nonzero (cfg : Cfg) (s0 : Bytes) (neg : Bool) (d : UInt8) (ds rest : Bytes)
    (hd : ∀ c ∈ d :: ds, is09 c = true) (hnz : d ≠ 0x30) (hstop : stopProps (peek rest) = true) :
    numBody cfg s0 neg (d :: ds ++ rest) = afterMantissa cfg s0 neg false (d :: ds ++ rest) rest := by
  have hsp := stopProps_unpack hstop
  have hdw : (d :: ds ++ rest).dropWhile is09 = rest := dropWhile_digits rest hsp.1 (d :: ds) hd
  have hloop := decDigitsLoop_digits cfg.exp rest hsp.1 hsp.2.1 (d :: ds) ((d :: ds ++ rest).length + 1) hd
    (by simp)
  have hpk : peek (d :: ds ++ rest) = d := rfl
  have hd0 : (d == 0x30) = false := by simpa using hnz
  unfold numBody
  simp only [hdw, hpk, hd0, hloop, hsp.2.2.2.2.1, Bool.false_eq_true, ↓reduceIte]
  cases rest with
  | nil => simp
  | cons r t =>
    have h1 : (r == 0x72) = false := hsp.2.2.1
    have h2 : (r == 0x52) = false := hsp.2.2.2.1
    simp [h1, h2]

theorem dropWhile_peek_false (p : UInt8 → Bool) (rest : Bytes) (h : p (peek rest) = false) :
    rest.dropWhile p = rest := by
  cases rest with
  | nil => rfl
  | cons c t =>
    have : p c = false := h
    simp [this]

theorem numBody_zero_aux (cfg : Cfg) (s0 : Bytes) (neg : Bool) (rest : Bytes)
    (hstop : stopProps (peek rest) = true) :
    numBody cfg s0 neg (0x30 :: rest) =
      (if peek rest == 0x4E then finishNum (.bigint neg 10 [0x30]) (adv rest)
       else if peek rest == 0x4D then finishNum (.bigdec neg [0x30]) (adv rest)
       else if cfg.clj && peek rest == 0x2F then
        match ratioDenominator (adv rest) with
        | .error cur => .err cur
        | .ok s' => .ok (.int 0) s'
       else finishNum (.int 0) rest) := by
  have hsp := stopProps_unpack hstop
  have hdw : (0x30 :: rest).dropWhile is09 = rest :=
    dropWhile_digits rest hsp.1 [0x30] (by intro c hc; simp at hc; subst hc; decide)
  have hdz : rest.dropWhile (· == 0x30) = rest :=
    dropWhile_peek_false _ rest hsp.2.2.2.2.2.2.2.2.2.1
  have hpk : peek (0x30 :: rest) = 0x30 := rfl
  have hadv : adv (0x30 :: rest) = rest := rfl
  have h00 : ((0x30 : UInt8) == 0x30) = true := rfl
  unfold numBody
  simp only [hdw, hpk, hadv, h00, ↓reduceIte]
  cases hclj : cfg.clj
  · simp only [Bool.false_and, Bool.false_eq_true, ↓reduceIte, hsp.1, hsp.2.2.2.2.1,
      hsp.2.2.2.2.2.1, hsp.2.2.2.2.2.2.1, Bool.or_self]
  · simp only [Bool.true_and, hdz, hsp.2.2.2.2.1, hsp.2.2.2.2.2.1, hsp.2.2.2.2.2.2.1,
      hsp.2.2.2.2.2.2.2.1, hsp.2.2.2.2.2.2.2.2.1, hsp.2.2.2.2.2.2.2.2.2.2.1,
      hsp.2.2.2.2.2.2.2.2.2.2.2.1, hsp.2.2.2.2.2.2.2.2.2.2.2.2,
      Bool.or_self, Bool.false_eq_true, ↓reduceIte]
    cases rest with
    | nil => rfl
    | cons r t =>
      have h1 : (r == 0x72) = false := hsp.2.2.1
      have h2 : (r == 0x52) = false := hsp.2.2.2.1
      simp only [h1, h2, Bool.or_self, Bool.false_eq_true, ↓reduceIte]
      rfl

/-! ## after the digits -/

theorem stopProps2_unpack {c : UInt8} (h : stopProps2 c = true) :
    stopProps c = true ∧ (c == 0x4E) = false ∧ (c == 0x4D) = false ∧ (c == 0x2F) = false := by
  simp only [stopProps2, bne, Bool.and_eq_true, Bool.not_eq_true', and_assoc] at h
  exact h

theorem afterMantissa_plain (cfg : Cfg) (start : Bytes) (neg : Bool) (ds rest : Bytes)
    (hstop : stopProps2 (peek rest) = true) :
    afterMantissa cfg start neg false (ds ++ rest) rest = finishNum (intOrBig cfg ds 10 neg) rest := by
  have h2 := stopProps2_unpack hstop
  have hsp := stopProps_unpack h2.1
  unfold afterMantissa
  simp only [hsp.2.2.2.2.2.1, hsp.2.2.2.2.2.2.1, Bool.or_self, Bool.false_eq_true, ↓reduceIte]
  unfold decimalTail
  simp only [h2.2.1, h2.2.2.1, h2.2.2.2, Bool.or_self, Bool.false_and, Bool.and_false,
    Bool.false_eq_true, ↓reduceIte, slice_append]

theorem afterMantissa_N (cfg : Cfg) (start : Bytes) (neg : Bool) (ds rest : Bytes)
    (hd : ∀ c ∈ ds, is09 c = true) :
    afterMantissa cfg start neg false (ds ++ 0x4E :: rest) (0x4E :: rest) =
      finishNum (.bigint neg 10 ds) rest := by
  have hpk : peek (0x4E :: rest) = 0x4E := rfl
  have hadv : adv (0x4E :: rest) = rest := rfl
  unfold afterMantissa
  simp only [hpk]
  have e1 : ((0x4E : UInt8) == 0x65) = false := by decide
  have e2 : ((0x4E : UInt8) == 0x45) = false := by decide
  have e3 : ((0x4E : UInt8) == 0x4E) = true := by decide
  simp only [e1, e2, Bool.or_self, Bool.false_eq_true, ↓reduceIte]
  unfold decimalTail
  simp only [hpk, hadv, e3, lastIsUnderscore_digits ds _ hd, Bool.and_false, Bool.false_eq_true,
    ↓reduceIte, Bool.not_false, Bool.and_self, slice_append]

theorem peek_term {rest : Bytes} (ht : TermStart rest) : peek rest = 0 ∨ isNumTerm (peek rest) = true := by
  rcases ht with rfl | ⟨c, t, rfl, h⟩
  · exact Or.inl rfl
  · exact Or.inr h

theorem finishNum_term (v : NumVal) {rest : Bytes} (ht : TermStart rest) : finishNum v rest = .ok v rest := by
  have : numDelimOk rest = true := by
    rcases ht with rfl | ⟨c, t, rfl, h⟩
    · rfl
    · exact h
  unfold finishNum
  simp only [this, ↓reduceIte]

theorem decDigits_cases {ds : Bytes} (hd : DecDigits ds) :
    (∀ c ∈ ds, is09 c = true) ∧ (ds = [0x30] ∨ ∃ d t, ds = d :: t ∧ d ≠ 0x30) := by
  obtain ⟨hne, hall, hz⟩ := hd
  refine ⟨fun c hc => by simp [is09, hall c hc], ?_⟩
  cases ds with
  | nil => exact absurd rfl hne
  | cons d t =>
    by_cases h0 : d = 0x30
    · left
      cases t with
      | nil => rw [h0]
      | cons e t' =>
        exfalso
        apply hz (by simp)
        simp [h0]
    · exact Or.inr ⟨d, t, rfl, h0⟩

/-! ## through the dispatcher -/

def dispNum (cfg : Cfg) (c : UInt8) : Bool :=
  (!is09 c || decide (dispatch cfg c = .digit)) &&
  (!(c == 0x2B || c == 0x2D) || (decide (dispatch cfg c = .sign) && !isPreWs c))

theorem dispNum_all (cfg : Cfg) : ∀ c, dispNum cfg c = true := by
  obtain ⟨clj, exp⟩ := cfg
  cases clj <;> cases exp <;> exact forall_u8_bool _ (by decide +kernel)

theorem dispatch_of_digit (cfg : Cfg) {c : UInt8} (h : is09 c = true) : dispatch cfg c = .digit := by
  have := dispNum_all cfg c
  simp only [dispNum, h, Bool.not_true, Bool.false_or, Bool.and_eq_true, decide_eq_true_eq] at this
  exact this.1

theorem dispatch_of_sign (cfg : Cfg) {c : UInt8} (h : c = 0x2B ∨ c = 0x2D) :
    dispatch cfg c = .sign ∧ isPreWs c = false := by
  have := dispNum_all cfg c
  have hc : (c == 0x2B || c == 0x2D) = true := by
    rcases h with rfl | rfl <;> decide
  simp only [dispNum, hc, Bool.not_true, Bool.false_or, Bool.and_eq_true, decide_eq_true_eq,
    Bool.not_eq_true'] at this
  exact this.2

/-- a number token in front of a terminator is read through `readNumber` -/
theorem reads_number (cfg : Cfg) (opts : Opts) (d : Nat) (tok : Bytes) (nv : NumVal) (a : Val)
    (hfirst : ∃ c t, tok = c :: t ∧ (is09 c = true ∨
      ((c = 0x2B ∨ c = 0x2D) ∧ ∃ nx t', t = nx :: t' ∧ is09 nx = true)))
    (hread : ∀ rest, TermStart rest → readNumber cfg (tok ++ rest) = .ok nv rest)
    (hstrip : ∀ h, strip (numToVal h nv) = a) :
    Reads cfg opts d a tok := by
  intro dm rest cl f ht hf
  obtain ⟨f, rfl⟩ : ∃ f', f = f' + 1 := ⟨f - 1, by omega⟩
  obtain ⟨c, t, rfl, hc⟩ := hfirst
  have hws : isPreWs c = false := by
    rcases hc with hc | ⟨hc, _⟩
    · exact (is09_props hc).2.2.2.2.2.1
    · exact (dispatch_of_sign cfg hc).2
  have hnum : readNumberRes { cfg := cfg, opts := opts } { rest := c :: t ++ rest, calls := cl } =
      .ok (numToVal (mkHdr (Ctx.pos { cfg := cfg, opts := opts } (c :: t ++ rest))
        (Ctx.pos { cfg := cfg, opts := opts } rest)) nv) { rest := rest, calls := cl } := by
    unfold readNumberRes
    simp only [hread rest ht]
  refine ⟨numToVal (mkHdr (Ctx.pos { cfg := cfg, opts := opts } (c :: t ++ rest))
        (Ctx.pos { cfg := cfg, opts := opts } rest)) nv, ?_, hstrip _⟩
  rw [readValue_succ]
  unfold rvOuter
  simp only [List.cons_append, hws, Bool.false_eq_true, ↓reduceIte]
  unfold rvStep
  rcases hc with hc | ⟨hc, nx, t', rfl, hnx⟩
  · simp only [dispatch_of_digit cfg hc]
    exact hnum
  · simp only [(dispatch_of_sign cfg hc).1, List.cons_append, hnx, ↓reduceIte]
    exact hnum

theorem tok_first {sg ds : Bytes} {neg : Bool} (hs : SignTok sg neg) (hd : DecDigits ds) (tail : Bytes) :
    ∃ c t, sg ++ ds ++ tail = c :: t ∧ (is09 c = true ∨
      ((c = 0x2B ∨ c = 0x2D) ∧ ∃ nx t', t = nx :: t' ∧ is09 nx = true)) := by
  obtain ⟨hall, _⟩ := decDigits_cases hd
  obtain ⟨hne, _, _⟩ := hd
  cases ds with
  | nil => exact absurd rfl hne
  | cons x ds' =>
    have hx : is09 x = true := hall x (by simp)
    rcases hs with ⟨rfl, _⟩ | ⟨rfl, _⟩ | ⟨rfl, _⟩
    · exact ⟨x, ds' ++ tail, rfl, Or.inl hx⟩
    · exact ⟨0x2B, x :: ds' ++ tail, rfl, Or.inr ⟨Or.inl rfl, x, ds' ++ tail, rfl, hx⟩⟩
    · exact ⟨0x2D, x :: ds' ++ tail, rfl, Or.inr ⟨Or.inr rfl, x, ds' ++ tail, rfl, hx⟩⟩

end Edn.Proofs.CNum
