/-
  Edn.Proofs.FlagIndepAux0 — definitions shared by the flag-independence proofs (C18).
-/
import Edn.Spec.Eqv
import Edn.Model.Reader

namespace Edn.Proofs
open Edn.Model Edn.Spec

/-- a number payload whose digit text (big integers, big decimals) has no underscore -/
def numNoUS : NumVal → Prop
  | .bigint _ _ d => 0x5F ∉ d
  | .bigdec _ t => 0x5F ∉ t
  | _ => True

mutual
/-- payloads that every configuration interprets as the core configuration does: each string
    has the same content under `cfg` as under core, and the digit texts of big integers and
    big decimals contain no underscore (hereditarily; metadata is not visited, as in
    equality and hashing) -/
def flagOK (cfg : Cfg) : Val → Prop
  | .str _ d e => stringContent cfg d e = stringContent Cfg.core d e
  | .bigint _ _ _ d => 0x5F ∉ d
  | .bigdec _ _ t => 0x5F ∉ t
  | .list _ _ xs | .vec _ _ xs | .set _ _ xs => flagOKL cfg xs
  | .map _ _ ks vs => flagOKL cfg ks ∧ flagOKL cfg vs
  | .tagged _ _ _ v => flagOK cfg v
  | _ => True
def flagOKL (cfg : Cfg) : List Val → Prop
  | [] => True
  | x :: xs => flagOK cfg x ∧ flagOKL cfg xs
end

end Edn.Proofs
