/-
  Edn.Proofs.RejectDocTrivX — "end of input at top level iff only trivia", in EVERY configuration
  (C13 / C10; the core-configuration version is `Edn.Proofs.RejectDoc.eofTop_iff` /
  `eof_iff_trivia_only`).

    `TopTriviaX cfg input`     (`RejectDocTrivXAux1`) blanks, comments - the last one possibly
                               unclosed - and complete discarded forms `#_ form`, `form` a form of
                               the configuration's grammar `FormX cfg (numJOf cfg) (strJOf cfg)`
    `eofTopX_iff`              the top-level `readValue` flags "end of input between forms"
                               (`eofTop`) exactly on the `TopTriviaX` inputs
    `eofValueX_inv`            `edn_read` answers with the caller's end-of-input value only if one
                               was supplied and the input is `TopTriviaX`
    `eofX_iff_trivia_only`     with an end-of-input value supplied: it is returned iff `TopTriviaX`
    `triviaX_only_eof_error`   without one: UNEXPECTED_EOF at the end of the input
    `triviaX_only_outcome`     both cases in one equation

  The backward half is a fuel induction over all six reader functions (`reader_topX`): an error
  flagged `eofTop` comes from `readValue` at depth 0 on a `TopTriviaX` input and from nowhere else -
  in particular not from the prefix keyword of `#:ns{…}`, which `readNsMap` reads at its own depth.
-/
import Edn.Proofs.RejectDocTrivXAux1

namespace Edn.Proofs.RejectDocTrivX
open Edn.Model Edn.Spec Edn.Generated Edn.Proofs Edn.Proofs.RejectDoc Edn.Proofs.RejectDocX

theorem rvStep_topX (ctx : Ctx) {RV : RVT} {RS : RST} {RM : RMT} {RN RT RMe : R4T}
    (hV : TVX ctx.cfg RV) (hSd : SoundVX ctx.cfg RV) (hS : NS RS) (hM : NM RM) (hN : NN RN) (hT : N4 RT) (hMe : N4 RMe)
    (d : Nat) (dm : Bool) (cl : List Call) (c : UInt8) (cs : Bytes) (e : ErrInfo) (st' : St)
    (h : rvStep ctx RV RS RM RN RT RMe d dm cl c cs = .err e st') (ht : e.eofTop = true) :
    d = 0 ∧ TopTriviaX ctx.cfg (c :: cs) := by
  obtain ⟨l1, l2, l3, l4, l5⟩ := leaf_noTop ctx { rest := c :: cs, calls := cl }
  -- every branch but the discard is not flagged
  have key : ∀ {r : Res}, noTop r = true → r = .err e st' → d = 0 ∧ TopTriviaX ctx.cfg (c :: cs) := by
    intro r h1 h2
    rw [noTop_err h1 h2] at ht
    cases ht
  unfold rvStep at h
  cases hd : dispatch ctx.cfg c with
  | string => rw [hd] at h; exact key l1 h
  | character => rw [hd] at h; exact key l2 h
  | listOpen =>
    rw [hd] at h
    simp only [] at h
    split at h
    · exact key (r := .err _ _) rfl h
    · exact key (hS _ _ _ _ _ _) h
  | vectorOpen =>
    rw [hd] at h
    simp only [] at h
    split at h
    · exact key (r := .err _ _) rfl h
    · exact key (hS _ _ _ _ _ _) h
  | mapOpen =>
    rw [hd] at h
    simp only [] at h
    split at h
    · exact key (r := .err _ _) rfl h
    · exact key (hM _ _ _ _ _ _ _) h
  | hash =>
    rw [hd] at h
    have hcc : c = 0x23 := Edn.Proofs.dispatch_hash hd
    subst hcc
    cases cs with
    | nil =>
      simp only [] at h
      exact key (hT _ _ _ _) h
    | cons nx cs' =>
      simp only [] at h
      split at h
      · exact key l4 h
      split at h
      · exact key (r := .err _ _) rfl h
      rename_i hnx1 hdeep
      have hdd : d < Tables.maxNestingDepth := by simpa using hdeep
      split at h
      · exact key (hS _ _ _ _ _ _) h
      split at h
      · rename_i hnx2 hnx
        have : nx = 0x5F := by simpa using hnx
        subst this
        cases h1 : RV (d + 1) true { rest := cs', calls := cl } with
        | err e1 st1 =>
          rw [h1] at h
          exact key (hV.deep d true _) (h1.trans h)
        | closer st1 =>
          rw [h1] at h
          exact key (r := .err _ _) rfl h
        | ok b st1 =>
          rw [h1] at h
          simp only [] at h
          obtain ⟨hd0, htt⟩ := hV d dm st1 e st' h ht
          obtain ⟨k, tok, hk, e1, f1⟩ := hSd (d + 1) true _ b st1 (by omega) h1
          simp only [] at e1
          refine ⟨hd0, ?_⟩
          have := TopTriviaX.discard [] tok st1.rest k (stripM b) .nil (by omega) f1 htt
          rw [e1]
          simpa using this
      · split at h
        · rename_i hq
          have hnx : nx = 0x3A := by
            simp only [Bool.and_eq_true, beq_iff_eq] at hq
            exact hq.2
          subst hnx
          exact key (hN _ _ _ _ _) h
        · exact key (hT _ _ _ _) h
  | sign =>
    rw [hd] at h
    simp only [] at h
    cases cs with
    | nil => exact key l3 h
    | cons nx t =>
      simp only [] at h
      split at h
      · exact key l5 h
      · exact key l3 h
  | digit => rw [hd] at h; exact key l5 h
  | delimiter =>
    rw [hd] at h
    simp only [] at h
    split at h
    · exact key (r := .err _ _) rfl h
    · cases h
  | metadata =>
    rw [hd] at h
    simp only [] at h
    split at h
    · exact key (r := .err _ _) rfl h
    · exact key (hMe _ _ _ _) h
  | identifier => rw [hd] at h; exact key l3 h

theorem rvOuter_topX (ctx : Ctx) {RV : RVT} {RS : RST} {RM : RMT} {RN RT RMe : R4T}
    (hV : TVX ctx.cfg RV) (hSd : SoundVX ctx.cfg RV) (hS : NS RS) (hM : NM RM) (hN : NN RN) (hT : N4 RT) (hMe : N4 RMe) :
    TVX ctx.cfg (rvOuter ctx RV RS RM RN RT RMe) := by
  intro d dm st e st' h ht
  unfold rvOuter at h
  cases hs : st.rest with
  | nil =>
    rw [hs] at h
    simp only [eofErrOf, Res.err.injEq] at h
    rw [← h.1] at ht
    simp only [beq_iff_eq] at ht
    exact ⟨ht, .eof [] .nil⟩
  | cons c0 t =>
    rw [hs] at h
    simp only [] at h
    cases hw : (if isPreWs c0 = true then skipWs (c0 :: t) else c0 :: t) with
    | nil =>
      rw [hw] at h
      simp only [eofErrOf, Res.err.injEq] at h
      rw [← h.1] at ht
      simp only [beq_iff_eq] at ht
      refine ⟨ht, .eof _ ?_⟩
      by_cases hp : isPreWs c0 = true
      · rw [if_pos hp, skipWs_eq] at hw
        exact (skipWsScalar_nil_iff _).1 hw
      · rw [if_neg hp] at hw
        cases hw
    | cons c cs =>
      rw [hw] at h
      simp only [] at h
      obtain ⟨tr, hb, htr⟩ := Snd.preSkip_inv hw
      obtain ⟨h0, h1⟩ := rvStep_topX ctx hV hSd hS hM hN hT hMe d dm st.calls c cs e st' h ht
      rw [htr]
      exact ⟨h0, h1.blank hb⟩

/-- the fuel induction, all six reader functions at once -/
theorem reader_topX (cfg : Cfg) (opts : Opts) (hreg : opts.registry = none) : ∀ (f : Nat),
    TVX cfg (readValue { cfg := cfg, opts := opts } f) ∧ NS (readSeq { cfg := cfg, opts := opts } f) ∧
    NM (readMap { cfg := cfg, opts := opts } f) ∧ NN (readNsMap { cfg := cfg, opts := opts } f) ∧
    N4 (readTagged { cfg := cfg, opts := opts } f) ∧ N4 (readMeta { cfg := cfg, opts := opts } f) ∧
    KT (readValue { cfg := cfg, opts := opts } f) := by
  intro f
  induction f with
  | zero =>
    refine ⟨?_, ?_, ?_, ?_, ?_, ?_, ?_⟩
    · intro d dm st e st' h ht
      rw [readValue_zero] at h
      simp only [fuelOut, Res.err.injEq] at h
      rw [← h.1] at ht
      cases ht
    · intro d dm kind start st acc; rw [readSeq_zero]; rfl
    · intro d dm start ns st ks vs; rw [readMap_zero]; rfl
    · intro d dm start cs cl; rw [readNsMap_zero]; rfl
    · intro d dm start st; rw [readTagged_zero]; rfl
    · intro d dm start st; rw [readMeta_zero]; rfl
    · intro d dm cs cl; rw [readValue_zero]; rfl
  | succ f ih =>
    obtain ⟨hV, hS, hM, hN, hT, hMe, hK⟩ := ih
    have hSd : SoundVX cfg (readValue { cfg := cfg, opts := opts } f) := by
      intro d dm st v st' hd h
      obtain ⟨k, tok, h1, h2, -, h3⟩ :=
        readValue_sound_X cfg opts hreg _ _ (numExact_of cfg) (strExact_of cfg) f d dm st st' v h hd
      exact ⟨k, tok, h1, h2, h3⟩
    refine ⟨?_, ?_, ?_, ?_, ?_, ?_, ?_⟩
    · rw [show readValue { cfg := cfg, opts := opts } (f + 1) =
          rvOuter { cfg := cfg, opts := opts } (readValue { cfg := cfg, opts := opts } f) (readSeq { cfg := cfg, opts := opts } f)
            (readMap { cfg := cfg, opts := opts } f) (readNsMap { cfg := cfg, opts := opts } f)
            (readTagged { cfg := cfg, opts := opts } f) (readMeta { cfg := cfg, opts := opts } f) from by
        funext d dm st; exact readValue_succ _ f d dm st]
      exact rvOuter_topX { cfg := cfg, opts := opts } hV hSd hS hM hN hT hMe
    · intro d dm kind start st acc; rw [readSeq_succ]; exact rsStep_topX _ hV.deep hS d dm kind start st acc
    · intro d dm start ns st ks vs; rw [readMap_succ]; exact rmStep_topX _ hV.deep hM d dm start ns st ks vs
    · intro d dm start cs cl; rw [readNsMap_succ]; exact rnStep_topX _ hK hM d dm start cs cl
    · intro d dm start st; rw [readTagged_succ]; exact rtStep_topX _ hV.deep d dm start st
    · intro d dm start st; rw [readMeta_succ]; exact rmeStep_topX _ hV.deep d dm start st
    · intro d dm cs cl
      rw [readValue_succ, SndX.rvOuter_colon]
      exact (leaf_noTop _ _).2.2.1

/-- backward half: an `eofTop` error means a `TopTriviaX` input read at depth 0 -/
theorem eofTopX_inv (cfg : Cfg) (opts : Opts) (hreg : opts.registry = none) (f d : Nat) (dm : Bool) (st st' : St) (e : ErrInfo)
    (h : readValue { cfg := cfg, opts := opts } f d dm st = .err e st') (ht : e.eofTop = true) :
    d = 0 ∧ TopTriviaX cfg st.rest :=
  (reader_topX cfg opts hreg f).1 d dm st e st' h ht

/-! ## the theorem -/

/-- model level, every configuration: the top-level `readValue` flags "end of input between
    forms" exactly on the inputs that hold no form at all -/
theorem eofTopX_iff (cfg : Cfg) (opts : Opts) (hreg : opts.registry = none) (input : Bytes) :
    (∃ e st, readValue { cfg := cfg, opts := opts } (readFuel input) 0 false { rest := input } = .err e st ∧
      e.eofTop = true) ↔ TopTriviaX cfg input := by
  constructor
  · rintro ⟨e, st, h, ht⟩
    exact (eofTopX_inv cfg opts hreg _ 0 false _ st e h ht).2
  · intro h
    exact ⟨eofE 0, _, topTriviaX_reads cfg opts hreg h false [] (readFuel input) (by simp only [readFuel]; omega), rfl⟩

/-- whenever `edn_read` answers with the caller's end-of-input value, the caller supplied one and
    the input holds no form -/
theorem eofValueX_inv (cfg : Cfg) (opts : Opts) (hreg : opts.registry = none) (input : Bytes)
    (h : (read cfg opts input).out = .eofValue) : opts.eofValue = true ∧ TopTriviaX cfg input := by
  unfold Edn.Model.read at h
  simp only [] at h
  cases hr : readValue { cfg := cfg, opts := opts } (readFuel input) 0 false { rest := input } with
  | ok v st => rw [hr] at h; cases h
  | closer st => rw [hr] at h; cases h
  | err e st =>
    rw [hr] at h
    simp only [] at h
    split at h
    · cases h
    · split at h
      · rename_i hq
        simp only [Bool.and_eq_true] at hq
        exact ⟨hq.2, (eofTopX_inv cfg opts hreg _ 0 false _ st e hr hq.1.2).2⟩
      · cases h

/-- **with an end-of-input value supplied**, in every configuration: `edn_read` returns it **iff**
    the input consists of blanks, comments (the last one possibly unclosed) and complete discarded
    forms of the configuration's grammar only -/
theorem eofX_iff_trivia_only (cfg : Cfg) (opts : Opts) (hreg : opts.registry = none) (hev : opts.eofValue = true)
    (input : Bytes) : (read cfg opts input).out = .eofValue ↔ TopTriviaX cfg input := by
  constructor
  · intro h; exact (eofValueX_inv cfg opts hreg input h).2
  · intro h
    unfold Edn.Model.read
    simp only []
    rw [topTriviaX_reads cfg opts hreg h false [] (readFuel input) (by simp only [readFuel]; omega)]
    simp only [eofE, hev]
    rfl

/-- … and **without one**: UNEXPECTED_EOF at the end of the input (nothing is accepted), no
    handler call -/
theorem triviaX_only_eof_error (cfg : Cfg) (opts : Opts) (hreg : opts.registry = none) (hev : opts.eofValue = false)
    (input : Bytes) (h : TopTriviaX cfg input) :
    (read cfg opts input).out = .error .unexpectedEof (posOf input input.length) (posOf input input.length) ∧
    (read cfg opts input).calls = [] := by
  unfold Edn.Model.read
  simp only []
  rw [topTriviaX_reads cfg opts hreg h false [] (readFuel input) (by simp only [readFuel]; omega)]
  simp only [eofE, hev]
  exact ⟨rfl, rfl⟩

/-- every outcome of `edn_read` on a `TopTriviaX` input, whatever the options (no registry): the
    end-of-input value, or the end-of-input error at the end of the input -/
theorem triviaX_only_outcome (cfg : Cfg) (opts : Opts) (hreg : opts.registry = none) (input : Bytes)
    (h : TopTriviaX cfg input) :
    (read cfg opts input).out =
      if opts.eofValue then .eofValue
      else .error .unexpectedEof (posOf input input.length) (posOf input input.length) := by
  cases hev : opts.eofValue with
  | true => exact (eofX_iff_trivia_only cfg opts hreg hev input).2 h
  | false => exact (triviaX_only_eof_error cfg opts hreg hev input h).1

/-- in the core configuration `TopTriviaX` is the `TopTrivia` of `Edn.Proofs.RejectDoc` (stated over
    `Edn.Spec.Form`): both characterise the inputs on which `edn_read` returns the end-of-input value -/
theorem topTriviaX_core_iff (input : Bytes) : TopTriviaX Cfg.core input ↔ TopTrivia input :=
  (eofX_iff_trivia_only Cfg.core { eofValue := true } rfl rfl input).symm.trans
    (eof_iff_trivia_only { eofValue := true } rfl rfl input)

/-! ## non-vacuity (the reader decides `TopTriviaX` on concrete inputs) -/

/-- the reader's verdict, with an end-of-input value supplied, decides `TopTriviaX` -/
theorem topTriviaX_of_read (cfg : Cfg) (input : Bytes)
    (hb : (match (read cfg { eofValue := true } input).out with | .eofValue => true | _ => false) = true) :
    TopTriviaX cfg input := by
  apply (eofX_iff_trivia_only cfg { eofValue := true } rfl rfl input).1
  cases ho : (read cfg { eofValue := true } input).out with
  | eofValue => rfl
  | value v => rw [ho] at hb; cases hb
  | error c s e => rw [ho] at hb; cases hb
  | fuelOut => rw [ho] at hb; cases hb

theorem not_topTriviaX_of_read (cfg : Cfg) (input : Bytes)
    (hb : (match (read cfg { eofValue := true } input).out with | .eofValue => false | _ => true) = true) :
    ¬ TopTriviaX cfg input := by
  intro h
  rw [(eofX_iff_trivia_only cfg { eofValue := true } rfl rfl input).2 h] at hb
  cases hb

/-- `#_ ^:a [1] ; c` — a discarded metadata form, then an unclosed comment — holds no form with the
    Clojure flag … -/
example : TopTriviaX ⟨true, false⟩ "#_ ^:a [1] ; c".toUTF8.toList := topTriviaX_of_read _ _ (by decide +kernel)

/-- … but does without it (`^:a` is a symbol there: `#_` discards it and `[1]` is the value) -/
example : ¬ TopTriviaX Cfg.core "#_ ^:a [1] ; c".toUTF8.toList := not_topTriviaX_of_read _ _ (by decide +kernel)

/-- a discarded namespaced map -/
example : TopTriviaX ⟨true, true⟩ "#_ #:a{:x 1}".toUTF8.toList := topTriviaX_of_read _ _ (by decide +kernel)

/-- a discard marker with nothing to discard is not trivia, in any configuration -/
example : ∀ cfg ∈ [Cfg.core, ⟨true, false⟩, ⟨false, true⟩, ⟨true, true⟩], ¬ TopTriviaX cfg "#_".toUTF8.toList := by
  intro cfg hc
  apply not_topTriviaX_of_read
  revert cfg
  decide +kernel

end Edn.Proofs.RejectDocTrivX
