/-
  Edn.Proofs.StrSoundAux1 — helper lemmas for Edn.Proofs.StrSound: octal digits, one
  escape under the decoder (both directions), the quote scanner on one unit.
-/
import Edn.Spec.StringFull
import Edn.Proofs.Str

namespace Edn.Proofs
open Edn.Model Edn.Spec

/-! ### octal digits -/

def octFacts (c : UInt8) : Bool :=
  !isOct c || (c != 0x22 && c != 0x5C && c != 0x6E && c != 0x74 && c != 0x72 && c != 0x66 &&
    c != 0x62 && c != 0x75 && decide (c.toNat - 0x30 ≤ 7))

theorem octFacts_all : ∀ c, octFacts c = true := forall_u8_bool _ (by decide +kernel)

structure OctByte (c : UInt8) : Prop where
  q : (c == 0x22) = false
  bsl : (c == 0x5C) = false
  n : (c == 0x6E) = false
  t : (c == 0x74) = false
  r : (c == 0x72) = false
  f : (c == 0x66) = false
  b : (c == 0x62) = false
  u : (c == 0x75) = false
  le : c.toNat - 0x30 ≤ 7

theorem octByte {c : UInt8} (h : isOct c = true) : OctByte c := by
  have := octFacts_all c
  simp only [octFacts, h, Bool.not_true, Bool.false_or, Bool.and_eq_true, bne_iff_ne, ne_eq,
    decide_eq_true_eq] at this
  obtain ⟨⟨⟨⟨⟨⟨⟨⟨h1, h2⟩, h3⟩, h4⟩, h5⟩, h6⟩, h7⟩, h8⟩, h9⟩ := this
  exact ⟨by simpa using h1, by simpa using h2, by simpa using h3, by simpa using h4, by simpa using h5,
    by simpa using h6, by simpa using h7, by simpa using h8, h9⟩

theorem octValue_one (a : UInt8) : octValue [a] = a.toNat - 0x30 := by
  simp [octValue]

theorem octValue_two (a b : UInt8) : octValue [a, b] = (a.toNat - 0x30) * 8 + (b.toNat - 0x30) := by
  simp [octValue]

theorem octValue_three (a b c : UInt8) :
    octValue [a, b, c] = ((a.toNat - 0x30) * 8 + (b.toNat - 0x30)) * 8 + (c.toNat - 0x30) := by
  simp [octValue]

/-- the decoder on an octal head -/
theorem decodeEscape_oct (cfg : Cfg) (hc : cfg.clj = true) (c : UInt8) (r : Bytes) (ho : isOct c = true) :
    decodeEscape cfg (c :: r) =
      match r with
      | d1 :: r1 =>
        if isOct d1 && (c.toNat - 0x30) * 8 + (d1.toNat - 0x30) ≤ 255 then
          match r1 with
          | d2 :: r2 =>
            if isOct d2 && ((c.toNat - 0x30) * 8 + (d1.toNat - 0x30)) * 8 + (d2.toNat - 0x30) ≤ 255 then
              some ([UInt8.ofNat (((c.toNat - 0x30) * 8 + (d1.toNat - 0x30)) * 8 + (d2.toNat - 0x30))], r2)
            else some ([UInt8.ofNat ((c.toNat - 0x30) * 8 + (d1.toNat - 0x30))], r1)
          | [] => some ([UInt8.ofNat ((c.toNat - 0x30) * 8 + (d1.toNat - 0x30))], r1)
        else some ([UInt8.ofNat (c.toNat - 0x30)], r)
      | [] => some ([UInt8.ofNat (c.toNat - 0x30)], r) := by
  have hb := octByte ho
  unfold decodeEscape
  simp only [hb.q, hb.bsl, hb.n, hb.t, hb.r, hb.f, hb.b, hb.u, hc, ho, Bool.false_eq_true, if_false, if_true]
  rfl

/-! ### shapes of a digit run -/

theorem octDigits_cases {ds : Bytes} (ho : OctDigits ds) :
    (∃ a, ds = [a] ∧ isOct a = true) ∨
    (∃ a b, ds = [a, b] ∧ isOct a = true ∧ isOct b = true ∧
      (a.toNat - 0x30) * 8 + (b.toNat - 0x30) ≤ 255) ∨
    (∃ a b c, ds = [a, b, c] ∧ isOct a = true ∧ isOct b = true ∧ isOct c = true ∧
      ((a.toNat - 0x30) * 8 + (b.toNat - 0x30)) * 8 + (c.toNat - 0x30) ≤ 255) := by
  obtain ⟨h1, h3, hoct, hb⟩ := ho
  match ds, h1, h3, hoct, hb with
  | [a], _, _, hoct, _ => exact .inl ⟨a, rfl, hoct a (by simp)⟩
  | [a, b], _, _, hoct, hb =>
    rw [octValue_two] at hb
    exact .inr (.inl ⟨a, b, rfl, hoct a (by simp), hoct b (by simp), hb⟩)
  | [a, b, c], _, _, hoct, hb =>
    rw [octValue_three] at hb
    exact .inr (.inr ⟨a, b, c, rfl, hoct a (by simp), hoct b (by simp), hoct c (by simp), hb⟩)
  | [], h1, _, _, _ => simp at h1
  | _ :: _ :: _ :: _ :: _, _, h3, _, _ => simp at h3

theorem octDigits_one {a : UInt8} (ha : isOct a = true) : OctDigits [a] :=
  ⟨by simp, by simp, by simpa using ha, by rw [octValue_one]; have := (octByte ha).le; omega⟩

theorem octDigits_two {a b : UInt8} (ha : isOct a = true) (hb : isOct b = true)
    (hv : (a.toNat - 0x30) * 8 + (b.toNat - 0x30) ≤ 255) : OctDigits [a, b] :=
  ⟨by simp, by simp, by simp [ha, hb], by rw [octValue_two]; exact hv⟩

theorem octDigits_three {a b c : UInt8} (ha : isOct a = true) (hb : isOct b = true) (hc : isOct c = true)
    (hv : ((a.toNat - 0x30) * 8 + (b.toNat - 0x30)) * 8 + (c.toNat - 0x30) ≤ 255) : OctDigits [a, b, c] :=
  ⟨by simp, by simp, by simp [ha, hb, hc], by rw [octValue_three]; exact hv⟩

/-! ### maximal munch -/

theorem maximal_nil (sp : Bytes) : Maximal sp [] := by
  intro d t h; cases h

/-- a backslash followed by a byte that is no octal digit is never extended -/
theorem maximal_of_not_oct (c : UInt8) (u t : Bytes) (h : isOct c = false) : Maximal (0x5C :: c :: u) t := by
  rintro d t' _ ⟨ds, hds, ho⟩
  simp only [List.cons_append, List.cons.injEq, true_and] at hds
  have := ho.octal c (by rw [← hds]; simp)
  rw [h] at this; cases this

/-- a plain byte is never extended -/
theorem maximal_plain (b : UInt8) (h : b ≠ 0x5C) (t : Bytes) : Maximal [b] t := by
  rintro d t' _ ⟨ds, hds, _⟩
  simp only [List.cons_append, List.nil_append, List.cons.injEq] at hds
  exact h hds.1

/-- the units of the basic relation are never extended -/
theorem maximal_base (cfg : Cfg) (sp dn : Bytes) (h : StrUnit cfg sp dn) (t : Bytes) : Maximal sp t := by
  cases h with
  | plain b h1 h2 => exact maximal_plain b h2 t
  | _ => exact maximal_of_not_oct _ _ t (by decide)

/-- three digits are never extended -/
theorem maximal_three (a b c : UInt8) (t : Bytes) : Maximal [0x5C, a, b, c] t := by
  rintro d t' _ ⟨ds, hds, ho⟩
  simp only [List.cons_append, List.nil_append, List.cons.injEq, true_and] at hds
  have := ho.atMost3
  rw [← hds] at this
  simp at this

/-! ### one octal unit under the decoder -/

theorem decode_octal (cfg : Cfg) (hc : cfg.clj = true) (ds : Bytes) (ho : OctDigits ds) (t : Bytes)
    (hm : Maximal (0x5C :: ds) t) :
    decodeEscape cfg (ds ++ t) = some ([UInt8.ofNat (octValue ds)], t) := by
  rcases octDigits_cases ho with ⟨a, rfl, ha⟩ | ⟨a, b, rfl, ha, hb, hv⟩ | ⟨a, b, c, rfl, ha, hb, hc', hv⟩
  · rw [List.singleton_append, decodeEscape_oct cfg hc a t ha, octValue_one]
    cases t with
    | nil => rfl
    | cons d t' =>
      have hcond : (isOct d && decide ((a.toNat - 0x30) * 8 + (d.toNat - 0x30) ≤ 255)) = false := by
        cases hq : (isOct d && decide ((a.toNat - 0x30) * 8 + (d.toNat - 0x30) ≤ 255))
        · rfl
        · exfalso
          rw [Bool.and_eq_true, decide_eq_true_eq] at hq
          exact hm d t' rfl ⟨[a, d], rfl, octDigits_two ha hq.1 hq.2⟩
      simp only [hcond, Bool.false_eq_true, if_false]
  · have hcond : (isOct b && decide ((a.toNat - 0x30) * 8 + (b.toNat - 0x30) ≤ 255)) = true := by
      simp [hb, hv]
    show decodeEscape cfg (a :: b :: t) = _
    rw [decodeEscape_oct cfg hc a (b :: t) ha, octValue_two]
    simp only [hcond, if_true]
    cases t with
    | nil => rfl
    | cons d t' =>
      have hcond2 : (isOct d &&
          decide (((a.toNat - 0x30) * 8 + (b.toNat - 0x30)) * 8 + (d.toNat - 0x30) ≤ 255)) = false := by
        cases hq : (isOct d &&
          decide (((a.toNat - 0x30) * 8 + (b.toNat - 0x30)) * 8 + (d.toNat - 0x30) ≤ 255))
        · rfl
        · exfalso
          rw [Bool.and_eq_true, decide_eq_true_eq] at hq
          exact hm d t' rfl ⟨[a, b, d], rfl, octDigits_three ha hb hq.1 hq.2⟩
      simp only [hcond2, Bool.false_eq_true, if_false]
  · have hcond : (isOct b && decide ((a.toNat - 0x30) * 8 + (b.toNat - 0x30) ≤ 255)) = true := by
      have : (a.toNat - 0x30) * 8 + (b.toNat - 0x30) ≤ 255 := by omega
      simp [hb, this]
    have hcond2 : (isOct c &&
        decide (((a.toNat - 0x30) * 8 + (b.toNat - 0x30)) * 8 + (c.toNat - 0x30) ≤ 255)) = true := by
      simp [hc', hv]
    show decodeEscape cfg (a :: b :: c :: t) = _
    rw [decodeEscape_oct cfg hc a (b :: c :: t) ha, octValue_three]
    simp only [hcond, hcond2, if_true]

/-- one extended unit under the decoder -/
theorem decode_unitX (cfg : Cfg) (sp dn : Bytes) (h : StrUnitX cfg sp dn) (f : Nat) (t : Bytes)
    (hm : Maximal sp t) :
    decodeString cfg (f + 1) (sp ++ t) = (decodeString cfg f t).map (dn ++ ·) := by
  cases h with
  | base h => exact decode_unit cfg sp dn h f t
  | octal hc ds ho =>
    rw [List.cons_append, decodeString]
    simp only [beq_self_eq_true, if_true, decode_octal cfg hc ds ho t hm]

theorem unitX_length_pos (cfg : Cfg) (sp dn : Bytes) (h : StrUnitX cfg sp dn) : 1 ≤ sp.length := by
  cases h with
  | base h => exact unit_length_pos cfg sp dn h
  | octal _ ds _ => simp

/-! ### one escape, read back from the decoder -/

theorem decodeEscape_sound (cfg : Cfg) (r out r' : Bytes) (h : decodeEscape cfg r = some (out, r')) :
    ∃ u, r = u ++ r' ∧ StrUnitX cfg (0x5C :: u) out ∧ Maximal (0x5C :: u) r' := by
  cases r with
  | nil => simp [decodeEscape] at h
  | cons c r =>
    by_cases ho : isOct c = true
    · -- octal (or nothing, without the flag)
      have hb := octByte ho
      cases hc : cfg.clj with
      | false =>
        unfold decodeEscape at h
        simp [hb.q, hb.bsl, hb.n, hb.t, hb.r, hc] at h
      | true =>
        rw [decodeEscape_oct cfg hc c r ho] at h
        cases r with
        | nil =>
          simp only [Option.some.injEq, Prod.mk.injEq] at h
          obtain ⟨rfl, rfl⟩ := h
          refine ⟨[c], rfl, ?_, maximal_nil _⟩
          have := StrUnitX.octal (cfg := cfg) hc [c] (octDigits_one ho)
          rwa [octValue_one] at this
        | cons d1 r1 =>
          simp only [] at h
          cases hq : (isOct d1 && decide ((c.toNat - 0x30) * 8 + (d1.toNat - 0x30) ≤ 255)) with
          | false =>
            simp only [hq, Bool.false_eq_true, if_false, Option.some.injEq, Prod.mk.injEq] at h
            obtain ⟨rfl, rfl⟩ := h
            refine ⟨[c], rfl, ?_, ?_⟩
            · have := StrUnitX.octal (cfg := cfg) hc [c] (octDigits_one ho)
              rwa [octValue_one] at this
            · rintro d t ht ⟨ds, hds, hod⟩
              simp only [List.cons.injEq] at ht
              obtain ⟨rfl, rfl⟩ := ht
              simp only [List.cons_append, List.nil_append, List.cons.injEq, true_and] at hds
              subst hds
              have h1 := hod.octal d1 (by simp)
              have h2 := hod.byte
              rw [octValue_two] at h2
              simp [h1, h2] at hq
          | true =>
            have hq' := hq
            rw [Bool.and_eq_true, decide_eq_true_eq] at hq'
            simp only [hq, if_true] at h
            cases r1 with
            | nil =>
              simp only [Option.some.injEq, Prod.mk.injEq] at h
              obtain ⟨rfl, rfl⟩ := h
              refine ⟨[c, d1], rfl, ?_, maximal_nil _⟩
              have := StrUnitX.octal (cfg := cfg) hc [c, d1] (octDigits_two ho hq'.1 hq'.2)
              rwa [octValue_two] at this
            | cons d2 r2 =>
              simp only [] at h
              cases hq2 : (isOct d2 &&
                  decide (((c.toNat - 0x30) * 8 + (d1.toNat - 0x30)) * 8 + (d2.toNat - 0x30) ≤ 255)) with
              | false =>
                simp only [hq2, Bool.false_eq_true, if_false, Option.some.injEq, Prod.mk.injEq] at h
                obtain ⟨rfl, rfl⟩ := h
                refine ⟨[c, d1], rfl, ?_, ?_⟩
                · have := StrUnitX.octal (cfg := cfg) hc [c, d1] (octDigits_two ho hq'.1 hq'.2)
                  rwa [octValue_two] at this
                · rintro d t ht ⟨ds, hds, hod⟩
                  simp only [List.cons.injEq] at ht
                  obtain ⟨rfl, rfl⟩ := ht
                  simp only [List.cons_append, List.nil_append, List.cons.injEq, true_and] at hds
                  subst hds
                  have h1 := hod.octal d2 (by simp)
                  have h2 := hod.byte
                  rw [octValue_three] at h2
                  simp [h1, h2] at hq2
              | true =>
                have hq2' := hq2
                rw [Bool.and_eq_true, decide_eq_true_eq] at hq2'
                simp only [hq2, if_true, Option.some.injEq, Prod.mk.injEq] at h
                obtain ⟨rfl, rfl⟩ := h
                refine ⟨[c, d1, d2], rfl, ?_, maximal_three _ _ _ _⟩
                have := StrUnitX.octal (cfg := cfg) hc [c, d1, d2] (octDigits_three ho hq'.1 hq2'.1 hq2'.2)
                rwa [octValue_three] at this
    · -- not an octal digit: the escapes of the basic relation
      have ho' : isOct c = false := by simpa using ho
      have hmax : ∀ u t, Maximal (0x5C :: c :: u) t := fun u t => maximal_of_not_oct c u t ho'
      unfold decodeEscape at h
      simp only [ho', Bool.false_eq_true, if_false] at h
      by_cases e1 : c = 0x22
      · subst e1; simp at h; obtain ⟨rfl, rfl⟩ := h
        exact ⟨[0x22], rfl, .base .quote, hmax _ _⟩
      by_cases e2 : c = 0x5C
      · subst e2; simp at h; obtain ⟨rfl, rfl⟩ := h
        exact ⟨[0x5C], rfl, .base .backslash, hmax _ _⟩
      by_cases e3 : c = 0x6E
      · subst e3; simp at h; obtain ⟨rfl, rfl⟩ := h
        exact ⟨[0x6E], rfl, .base .newline, hmax _ _⟩
      by_cases e4 : c = 0x74
      · subst e4; simp at h; obtain ⟨rfl, rfl⟩ := h
        exact ⟨[0x74], rfl, .base .tab, hmax _ _⟩
      by_cases e5 : c = 0x72
      · subst e5; simp at h; obtain ⟨rfl, rfl⟩ := h
        exact ⟨[0x72], rfl, .base .ret, hmax _ _⟩
      have b1 : (c == 0x22) = false := by simpa using e1
      have b2 : (c == 0x5C) = false := by simpa using e2
      have b3 : (c == 0x6E) = false := by simpa using e3
      have b4 : (c == 0x74) = false := by simpa using e4
      have b5 : (c == 0x72) = false := by simpa using e5
      simp only [b1, b2, b3, b4, b5, Bool.false_eq_true, if_false] at h
      cases hc : cfg.clj with
      | false => simp [hc] at h
      | true =>
        simp only [hc, if_true] at h
        by_cases e6 : c = 0x66
        · subst e6; simp at h; obtain ⟨rfl, rfl⟩ := h
          exact ⟨[0x66], rfl, .base (.formfeed hc), hmax _ _⟩
        by_cases e7 : c = 0x62
        · subst e7; simp at h; obtain ⟨rfl, rfl⟩ := h
          exact ⟨[0x62], rfl, .base (.backspace hc), hmax _ _⟩
        have b6 : (c == 0x66) = false := by simpa using e6
        have b7 : (c == 0x62) = false := by simpa using e7
        simp only [b6, b7, Bool.false_eq_true, if_false] at h
        by_cases e8 : c = 0x75
        · subst e8
          simp only [beq_self_eq_true, if_true] at h
          cases hx : hex4? r with
          | none => simp [hx] at h
          | some x =>
            obtain ⟨cp, r''⟩ := x
            simp only [hx, Option.map_eq_some_iff, Prod.mk.injEq] at h
            obtain ⟨o, hu, rfl, rfl⟩ := h
            match r, hx with
            | a :: b :: c :: d :: r, hx =>
              obtain ⟨w, x, y, z, hw, hx', hy, hz, hcp, rfl⟩ := hex4?_cons_some hx
              refine ⟨[0x75, a, b, c, d], rfl, .base (.unicode hc a b c d cp o ?_ hu), hmax _ _⟩
              unfold hex4?
              simp only [hw, hx', hy, hz, hcp]
            | [], hx => simp [hex4?] at hx
            | [_], hx => simp [hex4?] at hx
            | [_, _], hx => simp [hex4?] at hx
            | [_, _, _], hx => simp [hex4?] at hx
        · have b8 : (c == 0x75) = false := by simpa using e8
          simp [b8] at h

end Edn.Proofs
