/-
  Edn.Proofs.NumberSound — the converse of the number-token theorems for the core configuration:
  whatever `edn_read_number` accepts is a number token of core EDN (`Edn.Spec.CoreNum`) followed by
  the end of the input or a terminator, and the payload is the one the token denotes.  Together
  with `readNumber_decimal*`, `readNumber_float`, `readNumber_bigdec` (completeness) this says that
  the number reader of the core configuration accepts exactly the core number grammar.
-/
import Edn.Spec.NumberLit
import Edn.Proofs.NumberReader
import Edn.Proofs.NumberSoundAux1

namespace Edn.Proofs
open Edn.Model Edn.Spec

/-- soundness: core configuration; `s` starts where the dispatcher sends a number (a digit, or a
    sign followed by a digit) -/
theorem readNumber_core_sound (s rest : Bytes) (v : NumVal)
    (hstart : ∃ c t, s = c :: t ∧ (is09 c = true ∨ ((c = 0x2B ∨ c = 0x2D) ∧ ∃ nx t', t = nx :: t' ∧ is09 nx = true)))
    (h : readNumber Cfg.core s = .ok v rest) :
    ∃ tok, s = tok ++ rest ∧ CoreNum Cfg.core tok v ∧ TermStart rest := by
  obtain ⟨c, t, rfl, hc⟩ := hstart
  -- the sign
  have hsg : ∃ sg body neg, c :: t = sg ++ body ∧ SignTok sg neg ∧ is09 (peek body) = true := by
    rcases hc with hc | ⟨hc | hc, nx, t', rfl, hnx⟩
    · exact ⟨[], c :: t, false, rfl, Or.inl ⟨rfl, rfl⟩, hc⟩
    · subst hc
      exact ⟨[0x2B], nx :: t', false, rfl, Or.inr (Or.inl ⟨rfl, rfl⟩), hnx⟩
    · subst hc
      exact ⟨[0x2D], nx :: t', true, rfl, Or.inr (Or.inr ⟨rfl, rfl⟩), hnx⟩
  obtain ⟨sg, body, neg, hs0, hs, hb⟩ := hsg
  rw [hs0] at h ⊢
  rw [CNum.readNumber_sign Cfg.core sg body neg hs hb] at h
  -- integer part, fraction, exponent
  obtain ⟨ip, fr, ex, T, rfl, hip, hfr, hex, h2⟩ := NSnd.numBody_core_inv _ neg body v rest hb h
  have hall := (CNum.decDigits_cases hip).1
  have hslB : slice (ip ++ (fr ++ (ex ++ T))) T = ip ++ fr ++ ex := by
    have := CNum.slice_append (ip ++ fr ++ ex) T
    simpa only [List.append_assoc] using this
  have hslS : slice (sg ++ (ip ++ (fr ++ (ex ++ T)))) T = sg ++ ip ++ fr ++ ex := by
    have := CNum.slice_append (sg ++ ip ++ fr ++ ex) T
    simpa only [List.append_assoc] using this
  have hnil : ∀ {l : Bytes}, (!l.isEmpty) = false → l = [] := by
    intro l hl
    cases l with
    | nil => rfl
    | cons _ _ => exact Bool.noConfusion hl
  -- the suffix
  rcases NSnd.decimalTail_inv _ neg _ _ _ T v rest h2 with
    ⟨h3, h4, hT, hv, ht⟩ | ⟨hT, hv, ht⟩ | ⟨hf, hT, hv, ht⟩ | ⟨h3, h4, hT, hv, ht⟩
  · -- `N`
    have hfr0 := hnil h3
    have hex0 := hnil h4
    subst hfr0 hex0
    rw [hslB] at hv
    simp only [List.append_nil] at hv
    subst hv hT
    refine ⟨sg ++ ip ++ [0x4E], by simp, CoreNum.bigN sg ip neg hs hip, ht⟩
  · -- `M`
    rw [hslB] at hv
    subst hv hT
    refine ⟨sg ++ (ip ++ fr ++ ex) ++ [0x4D], by simp, CoreNum.bigdec sg _ neg hs ?_ ?_, ht⟩
    · by_cases hz : fr = [] ∧ ex = []
      · obtain ⟨rfl, rfl⟩ := hz
        left
        simpa using hip
      · right
        refine ⟨[], ip, fr, ex, false, by simp, Or.inl ⟨rfl, rfl⟩, hip, hfr, hex, ?_⟩
        by_cases h1 : fr = []
        · exact Or.inr (fun h2 => hz ⟨h1, h2⟩)
        · exact Or.inl h1
    · intro c hc
      obtain ⟨hne, -, -⟩ := hip
      cases ip with
      | nil => exact absurd rfl hne
      | cons d t' =>
        simp only [List.cons_append, List.head?_cons, Option.some.injEq] at hc
        subst hc
        have hp := CNum.is09_props (hall d (by simp))
        exact ⟨hp.2.2.2.1, hp.2.2.1⟩
  · -- float
    rw [hslS] at hv
    subst hv hT
    refine ⟨sg ++ ip ++ fr ++ ex, by simp, CoreNum.float _ ⟨sg, ip, fr, ex, neg, rfl, hs, hip, hfr, hex, ?_⟩, ht⟩
    cases fr with
    | nil =>
      cases ex with
      | nil => exact Bool.noConfusion hf
      | cons _ _ => exact Or.inr (by simp)
    | cons _ _ => exact Or.inl (by simp)
  · -- integer
    have hfr0 := hnil h3
    have hex0 := hnil h4
    subst hfr0 hex0
    rw [hslB] at hv
    simp only [List.append_nil] at hv
    rw [CNum.intOrBig_decimal Cfg.core ip neg hip.1 hall] at hv
    subst hT
    refine ⟨sg ++ ip, by simp, ?_, ht⟩
    by_cases hr : (if neg then natOfDigits ip ≤ 9223372036854775808 else natOfDigits ip ≤ 9223372036854775807)
    · rw [if_pos hr] at hv
      subst hv
      exact CoreNum.int sg ip neg hs hip hr
    · rw [if_neg hr] at hv
      subst hv
      exact CoreNum.big sg ip neg hs hip hr

/-- completeness, collected: every core number token followed by a terminator is read as what it denotes -/
theorem readNumber_core_complete (tok rest : Bytes) (v : NumVal) (h : CoreNum Cfg.core tok v) (ht : TermStart rest) :
    readNumber Cfg.core (tok ++ rest) = .ok v rest := by
  cases h with
  | int sg ds neg hs hd hr =>
    rw [readNumber_decimal Cfg.core sg ds neg rest hs hd ht, if_pos hr]
  | big sg ds neg hs hd hr =>
    rw [readNumber_decimal Cfg.core sg ds neg rest hs hd ht, if_neg hr]
  | bigN sg ds neg hs hd =>
    rw [List.append_assoc, List.singleton_append]
    exact readNumber_decimalN Cfg.core sg ds neg rest hs hd ht
  | float tok h => exact readNumber_float Cfg.core tok rest h ht
  | bigdec sg body neg hs hb hnosign => exact readNumber_bigdec Cfg.core sg body rest neg hs hb hnosign ht

/-- the core number reader accepts exactly the core number grammar -/
theorem readNumber_core_iff (s rest : Bytes) (v : NumVal)
    (hstart : ∃ c t, s = c :: t ∧ (is09 c = true ∨ ((c = 0x2B ∨ c = 0x2D) ∧ ∃ nx t', t = nx :: t' ∧ is09 nx = true))) :
    readNumber Cfg.core s = .ok v rest ↔ ∃ tok, s = tok ++ rest ∧ CoreNum Cfg.core tok v ∧ TermStart rest := by
  constructor
  · exact readNumber_core_sound s rest v hstart
  · rintro ⟨tok, rfl, hn, ht⟩
    exact readNumber_core_complete tok rest v hn ht

end Edn.Proofs
