/-
  Edn.Proofs.NsMap — C19, namespaced-map half: `#:p{ body }` is read exactly like `{ body }`
  except that every key is passed through `qualifyKey p` before the duplicate check; and the
  metadata target gate.
-/
import Edn.Proofs.Fuel
import Edn.Proofs.MetaMerge

namespace Edn.Proofs
open Edn.Model

/-- what the entry loop of `edn_read_map_internal` does with the text, independently of any
    namespace prefix: either it ends in an error (`.error`), or it reads entries up to the
    closing brace and yields the keys and values read, *in reading order*, and the state
    after the brace -/
def mapLoop (ctx : Ctx) : Nat → Nat → Bool → Nat → St → Except Res (List Val × List Val × St)
  | 0, _, _, _, st => .error (fuelOut st)
  | f + 1, d, dm, start, st =>
    let unterminated (st' : St) : Res :=
      .err (mkErr .unterminatedCollection (some start) (some (ctx.pos st'.rest))) st'
    match readValue ctx f (d + 1) dm st with
    | .err e st' => .error (if e.code == .unexpectedEof && !e.fuelOut then unterminated st' else .err e st')
    | .closer st' =>
      match st'.rest with
      | [] => .error (.err (mkErr .unexpectedEof (some start) (some (ctx.pos st'.rest))) st')
      | c :: r =>
        if c != 0x7D then .error (.err (mkErr .unmatchedDelimiter (some start) (some (st'.rest.length - 1))) st')
        else .ok ([], [], { st' with rest := r })
    | .ok k st' =>
      match readValue ctx f (d + 1) dm st' with
      | .closer st'' => .error (.err (mkErr .invalidSyntax (some start) (some (ctx.pos st''.rest))) st'')
      | .err e st'' => .error (if e.code == .unexpectedEof && !e.fuelOut then unterminated st'' else .err e st'')
      | .ok v st'' =>
        match mapLoop ctx f d dm start st'' with
        | .error r => .error r
        | .ok (ks, vs, stf) => .ok (k :: ks, v :: vs, stf)

/-- the closing step: duplicate check over the (possibly rewritten) keys, then the map value -/
def closeMap (ctx : Ctx) (start : Nat) (keys vals : List Val) (st : St) : Res :=
  let stop := st.rest.length
  let (dup, keys') := hasDuplicates ctx.cfg keys
  if dup then .err (mkErr .duplicateKey (some start) (some stop)) st
  else .ok (.map (mkHdr start stop) none keys' vals) st

def qualifyWith (ns : Option Bytes) (k : Val) : Val :=
  match ns with
  | some n => qualifyKey n k
  | none => k

/-- `readMap` = run the prefix-independent loop, rewrite the keys read, close.
    (`ks`, `vs` are the reversed accumulators of entries read before.) -/
theorem readMap_eq_loop (ctx : Ctx) (f d : Nat) (dm : Bool) (start : Nat) (ns : Option Bytes) (st : St) (ks vs : List Val) :
    readMap ctx f d dm start ns st ks vs =
      match mapLoop ctx f d dm start st with
      | .error r => r
      | .ok (nk, nv, stf) => closeMap ctx start (ks.reverse ++ nk.map (qualifyWith ns)) (vs.reverse ++ nv) stf := by
  induction f generalizing st ks vs with
  | zero => rw [readMap, mapLoop]
  | succ f ih =>
    rw [readMap, mapLoop]
    cases h1 : readValue ctx f (d + 1) dm st with
    | err e st' => simp only []
    | closer st' =>
      simp only []
      cases hr : st'.rest with
      | nil => simp only []
      | cons c r =>
        simp only []
        by_cases hc : (c != 0x7D) = true
        · simp only [hc, if_true]
        · rw [Bool.not_eq_true] at hc
          simp only [hc, Bool.false_eq_true, if_false, closeMap, Ctx.pos, List.map_nil, List.append_nil]
    | ok k st' =>
      simp only []
      cases h2 : readValue ctx f (d + 1) dm st' with
      | closer st'' => simp only []
      | err e st'' => simp only []
      | ok v st'' =>
        simp only []
        rw [ih]
        cases hl : mapLoop ctx f d dm start st'' with
        | error r => simp only []
        | ok t =>
          obtain ⟨nk, nv, stf⟩ := t
          simp only [List.reverse_cons, List.append_assoc, List.map_cons,
            List.cons_append, List.nil_append]
          rfl

/-- the desugaring statement: a namespaced map and the plain map over the same body fail with
    the same error before the closing brace, and otherwise hold the same values and the plain
    map's keys passed through `qualifyKey`, the duplicate verdict being taken after
    qualification -/
theorem nsmap_desugars (ctx : Ctx) (f d : Nat) (dm : Bool) (start : Nat) (p : Bytes) (st : St) :
    (∀ r, mapLoop ctx f d dm start st = .error r →
        readMap ctx f d dm start (some p) st [] [] = r ∧ readMap ctx f d dm start none st [] [] = r) ∧
    (∀ nk nv stf, mapLoop ctx f d dm start st = .ok (nk, nv, stf) →
        readMap ctx f d dm start (some p) st [] [] = closeMap ctx start (nk.map (qualifyKey p)) nv stf ∧
        readMap ctx f d dm start none st [] [] = closeMap ctx start nk nv stf) := by
  have hid : ∀ l : List Val, l.map (qualifyWith none) = l := by
    intro l; induction l with
    | nil => rfl
    | cons a l ih => simp only [List.map_cons, ih, qualifyWith]
  have hq : ∀ l : List Val, l.map (qualifyWith (some p)) = l.map (qualifyKey p) := by
    intro l; induction l with
    | nil => rfl
    | cons a l ih => simp only [List.map_cons, ih, qualifyWith]
  refine ⟨?_, ?_⟩
  · intro r h
    rw [readMap_eq_loop, readMap_eq_loop, h]
    exact ⟨rfl, rfl⟩
  · intro nk nv stf h
    rw [readMap_eq_loop, readMap_eq_loop, h]
    simp only [List.reverse_nil, List.nil_append, hid, hq]
    exact ⟨trivial, trivial⟩

/-- `#:p{` … : after the prefix keyword and optional blanks the namespaced reader is the map
    reader with the prefix (`st.rest` starts at the `:`) -/
theorem readNsMap_is_readMap (ctx : Ctx) (f d : Nat) (dm : Bool) (start : Nat) (st st' : St) (h : Hdr) (name r : Bytes)
    (hk : readValue ctx f d dm st = .ok (.kw h none name) st') (hb : skipWs st'.rest = 0x7B :: r) :
    readNsMap ctx (f + 1) d dm start st = readMap ctx f d dm start (some name) { st' with rest := r } [] [] := by
  rw [readNsMap]; simp only [hk, hb]
  rfl

/-- anything else after `#:` is a syntax error: a prefix that is not an unqualified keyword,
    or no opening brace -/
theorem readNsMap_bad_prefix (ctx : Ctx) (f d : Nat) (dm : Bool) (start : Nat) (st st' : St) (v : Val)
    (hk : readValue ctx f d dm st = .ok v st') (hv : ∀ h name, v ≠ .kw h none name) :
    readNsMap ctx (f + 1) d dm start st = .err (mkErr .invalidSyntax (some start) (some st'.rest.length)) st' := by
  rw [readNsMap]; simp only [hk, Ctx.pos]

/-- metadata is accepted only on collections, symbols and tagged values -/
theorem meta_target_gate (ctx : Ctx) (f d : Nat) (dm : Bool) (start : Nat) (st st' st'' : St) (m form : Val) (nks nvs : List Val)
    (h : readValue ctx f (d + 1) dm st = .ok m st') (hm : metaEntries m = some (nks, nvs))
    (h2 : readValue ctx f (d + 1) dm st' = .ok form st'') :
    readMeta ctx (f + 1) d dm start st =
      if form.metaTarget then
        .ok ((attachMeta ctx.cfg m form nks nvs).setHdr { (attachMeta ctx.cfg m form nks nvs).hdr with s := start }) st''
      else .err (mkErr .invalidSyntax (some start) (some st''.rest.length)) st'' := by
  rw [readMeta]; simp only [h, hm, h2, Ctx.pos]
  cases form.metaTarget <;> simp

/-- an annotation that is not a map, keyword, string, symbol or vector is an error -/
theorem meta_annotation_gate (ctx : Ctx) (f d : Nat) (dm : Bool) (start : Nat) (st st' : St) (m : Val)
    (h : readValue ctx f (d + 1) dm st = .ok m st') (hm : metaEntries m = none) :
    readMeta ctx (f + 1) d dm start st = .err (mkErr .invalidSyntax (some start) (some st'.rest.length)) st' := by
  rw [readMeta]; simp only [h, hm, Ctx.pos]

end Edn.Proofs
