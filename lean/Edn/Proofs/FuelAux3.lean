/-
  Edn.Proofs.FuelAux3 — the six mutually recursive reader functions written as
  non-recursive *step* functions over the functions with one unit of fuel less
  (passed as parameters), together with the unfolding equations.
-/
import Edn.Proofs.FuelAux2

namespace Edn.Proofs
open Edn.Model
open Edn.Generated

/-! ## byte facts about the dispatch table -/

def dispOk (cfg : Cfg) (c : UInt8) : Bool :=
  (!(dispatch cfg c == .sign) || (c == 0x2B || c == 0x2D)) && (!(dispatch cfg c == .digit) || is09 c)

theorem dispOk_all (cfg : Cfg) : ∀ c, dispOk cfg c = true := by
  obtain ⟨clj, exp⟩ := cfg
  cases clj <;> cases exp <;> exact forall_u8_bool _ (by decide +kernel)

theorem dispatch_sign {cfg : Cfg} {c : UInt8} (h : dispatch cfg c = .sign) : (c == 0x2B || c == 0x2D) = true := by
  have := dispOk_all cfg c
  simp only [dispOk, h, Bool.and_eq_true] at this
  exact this.1

theorem dispatch_digit {cfg : Cfg} {c : UInt8} (h : dispatch cfg c = .digit) : is09 c = true := by
  have := dispOk_all cfg c
  simp only [dispOk, h, Bool.and_eq_true] at this
  exact this.2

/-! ## step functions -/

abbrev RVT := Nat → Bool → St → Res
abbrev RST := Nat → Bool → Nat → Nat → St → List Val → Res
abbrev RMT := Nat → Bool → Nat → Option Bytes → St → List Val → List Val → Res
abbrev R4T := Nat → Bool → Nat → St → Res

/-- the dispatch of `readValue` once the first byte `c` of the form has been found -/
def rvStep (ctx : Ctx) (RV : RVT) (RS : RST) (RM : RMT) (RN RT RMe : R4T)
    (d : Nat) (dm : Bool) (calls : List Call) (c : UInt8) (cs : Bytes) : Res :=
  let s := c :: cs
  let st : St := { rest := s, calls := calls }
  let here := ctx.pos s
  let tooDeep : Bool := d ≥ Tables.maxNestingDepth
  let deepErr : Res := .err (mkErr .invalidSyntax (some here) (some (here - 1))) st
  match dispatch ctx.cfg c with
  | .string => readString ctx st
  | .character => readCharacter ctx st
  | .listOpen => if tooDeep then deepErr else RS d dm 0 here { st with rest := cs } []
  | .vectorOpen => if tooDeep then deepErr else RS d dm 1 here { st with rest := cs } []
  | .mapOpen => if tooDeep then deepErr else RM d dm here none { st with rest := cs } [] []
  | .hash =>
    match cs with
    | nx :: cs' =>
      if nx == 0x23 then readSymbolic ctx st
      else if tooDeep then deepErr
      else if nx == 0x7B then RS d dm 2 here { st with rest := cs' } []
      else if nx == 0x5F then
        match RV (d + 1) true { st with rest := cs' } with
        | .ok _ st' => RV d dm st'
        | .closer st' => .err (mkErr .invalidDiscard (some here) (some (here - 2))) st'
        | .err e st' => .err e st'
      else if ctx.cfg.clj && nx == 0x3A then RN d dm here { st with rest := cs }
      else RT d dm here { st with rest := cs }
    | [] => RT d dm here { st with rest := cs }
  | .sign =>
    match cs with
    | nx :: _ => if is09 nx then readNumberRes ctx st else readIdentifier ctx st
    | [] => readIdentifier ctx st
  | .digit => readNumberRes ctx st
  | .delimiter =>
    if d == 0 then .err (mkErr .unmatchedDelimiter) st else .closer st
  | .metadata => if tooDeep then deepErr else RMe d dm here { st with rest := cs }
  | .identifier => readIdentifier ctx st

def eofErrOf (d : Nat) (st : St) : Res :=
  .err { code := .unexpectedEof, es := none, ee := none, eofTop := d == 0 } st

/-- `readValue` with positive fuel: whitespace, then the dispatch -/
def rvOuter (ctx : Ctx) (RV : RVT) (RS : RST) (RM : RMT) (RN RT RMe : R4T)
    (d : Nat) (dm : Bool) (st : St) : Res :=
  match st.rest with
  | [] => eofErrOf d st
  | c0 :: _ =>
    match (if isPreWs c0 then skipWs st.rest else st.rest) with
    | [] => eofErrOf d { st with rest := [] }
    | c :: cs => rvStep ctx RV RS RM RN RT RMe d dm st.calls c cs

def rsStep (ctx : Ctx) (RV : RVT) (RS : RST)
    (d : Nat) (dm : Bool) (kind start : Nat) (st : St) (acc : List Val) : Res :=
    match RV (d + 1) dm st with
    | .ok v st' => RS d dm kind start st' (v :: acc)
    | .err e st' =>
      if e.code == .unexpectedEof && !e.fuelOut then
        .err (mkErr .unterminatedCollection (some start) (some (ctx.pos st'.rest))) st'
      else .err e st'
    | .closer st' =>
      match st'.rest with
      | [] => .err (mkErr .unmatchedDelimiter (some start) (some (st'.rest.length - 1))) st'
      | c :: r =>
        if c != closerByte kind then
          .err (mkErr .unmatchedDelimiter (some start) (some (st'.rest.length - 1))) st'
        else
          let st'' := { st' with rest := r }
          let stop := ctx.pos r
          let xs := acc.reverse
          let h : Hdr := (mkHdr (start) (stop))
          if kind == 0 then .ok (.list h none xs) st''
          else if kind == 1 then .ok (.vec h none xs) st''
          else
            let (dup, ys) := hasDuplicates ctx.cfg xs
            if dup then .err (mkErr .duplicateElement (some start) (some stop)) st''
            else .ok (.set h none ys) st''

def rmStep (ctx : Ctx) (RV : RVT) (RM : RMT)
    (d : Nat) (dm : Bool) (start : Nat) (ns : Option Bytes) (st : St) (ks vs : List Val) : Res :=
    let unterminated (st' : St) : Res :=
      .err (mkErr .unterminatedCollection (some start) (some (ctx.pos st'.rest))) st'
    match RV (d + 1) dm st with
    | .err e st' => if e.code == .unexpectedEof && !e.fuelOut then unterminated st' else .err e st'
    | .closer st' =>
      match st'.rest with
      | [] => .err (mkErr .unexpectedEof (some start) (some (ctx.pos st'.rest))) st'
      | c :: r =>
        if c != 0x7D then .err (mkErr .unmatchedDelimiter (some start) (some (st'.rest.length - 1))) st'
        else
          let st'' := { st' with rest := r }
          let stop := ctx.pos r
          let keys := ks.reverse
          let vals := vs.reverse
          let (dup, keys') := hasDuplicates ctx.cfg keys
          if dup then .err (mkErr .duplicateKey (some start) (some stop)) st''
          else .ok (.map (mkHdr (start) (stop)) none keys' vals) st''
    | .ok k st' =>
      match RV (d + 1) dm st' with
      | .closer st'' => .err (mkErr .invalidSyntax (some start) (some (ctx.pos st''.rest))) st''
      | .err e st'' => if e.code == .unexpectedEof && !e.fuelOut then unterminated st'' else .err e st''
      | .ok v st'' =>
        let k' := match ns with
          | some n => qualifyKey n k
          | none => k
        RM d dm start ns st'' (k' :: ks) (v :: vs)

def rnStep (ctx : Ctx) (RV : RVT) (RM : RMT)
    (d : Nat) (dm : Bool) (start : Nat) (st : St) : Res :=
    match RV d dm st with
    | .closer st' => .closer st'
    | .err e st' => .err e st'
    | .ok kwv st' =>
      let serr (st' : St) : Res := .err (mkErr .invalidSyntax (some start) (some (ctx.pos st'.rest))) st'
      match kwv with
      | .kw _ none name =>
        let s := skipWs st'.rest
        let st2 := { st' with rest := s }
        match s with
        | c :: r => if c == 0x7B then RM d dm start (some name) { st2 with rest := r } [] [] else serr st2
        | [] => serr st2
      | _ => serr st'

def rtStep (ctx : Ctx) (RV : RVT)
    (d : Nat) (dm : Bool) (start : Nat) (st : St) : Res :=
    let s := st.rest
    let cur (st : St) := some (ctx.pos st.rest)
    match s with
    | [] => .err (mkErr .unexpectedEof (some start) (cur st)) st
    | c :: _ =>
      if c == 0x20 || c == 0x09 || c == 0x0A || c == 0x0D || c == 0x2C then
        .err (mkErr .invalidSyntax (some start) (cur st)) st
      else
        match readIdentifier ctx st with
        | .closer st' => .closer st'
        | .err e st' => .err e st'
        | .ok tagv st' =>
          match tagv with
          | .sym .. =>
            let tag := slice s st'.rest
            match RV (d + 1) dm st' with
            | .closer st'' => .err (mkErr .invalidSyntax (some start) (cur st'')) st''
            | .err e st'' => .err e st''
            | .ok v st'' =>
              let stop := ctx.pos st''.rest
              let passthrough : Res := .ok (.tagged (mkHdr (start) (stop)) none tag v) st''
              match ctx.opts.registry with
              | none => passthrough
              | some reg =>
                if dm then passthrough
                else match reg tag with
                  | some h =>
                    let st3 := { st'' with calls := st''.calls ++ [⟨h.name, v.hdr.s, v.hdr.e⟩] }
                    match h.run v with
                    | none => .err (mkErr .invalidSyntax (some start) (some stop)) st3
                    | some r => .ok (r.setHdr { r.hdr with s := start, e := stop }) st3
                  | none =>
                    if ctx.opts.mode == 1 then .ok v st''
                    else if ctx.opts.mode == 2 then .err (mkErr .unknownTag (some start) (some stop)) st''
                    else passthrough
          | _ => .err (mkErr .invalidSyntax (some start) (cur st')) st'

def rmeStep (ctx : Ctx) (RV : RVT)
    (d : Nat) (dm : Bool) (start : Nat) (st : St) : Res :=
    let serr (st' : St) : Res := .err (mkErr .invalidSyntax (some start) (some (ctx.pos st'.rest))) st'
    match RV (d + 1) dm st with
    | .closer st' => serr st'
    | .err e st' => .err e st'
    | .ok m st' =>
      match metaEntries m with
      | none => serr st'
      | some (nks, nvs) =>
        match RV (d + 1) dm st' with
        | .closer st'' => serr st''
        | .err e st'' => .err e st''
        | .ok form st'' =>
          if !form.metaTarget then serr st''
          else
            let form' := attachMeta ctx.cfg m form nks nvs
            .ok (form'.setHdr { form'.hdr with s := start }) st''

/-! ## unfolding equations -/

theorem readValue_zero (ctx : Ctx) (d : Nat) (dm : Bool) (st : St) : readValue ctx 0 d dm st = fuelOut st := by
  rw [readValue]
theorem readSeq_zero (ctx : Ctx) (d : Nat) (dm : Bool) (kind start : Nat) (st : St) (acc : List Val) :
    readSeq ctx 0 d dm kind start st acc = fuelOut st := by
  rw [readSeq]
theorem readMap_zero (ctx : Ctx) (d : Nat) (dm : Bool) (start : Nat) (ns : Option Bytes) (st : St)
    (ks vs : List Val) : readMap ctx 0 d dm start ns st ks vs = fuelOut st := by
  rw [readMap]
theorem readNsMap_zero (ctx : Ctx) (d : Nat) (dm : Bool) (start : Nat) (st : St) :
    readNsMap ctx 0 d dm start st = fuelOut st := by
  rw [readNsMap]
theorem readTagged_zero (ctx : Ctx) (d : Nat) (dm : Bool) (start : Nat) (st : St) :
    readTagged ctx 0 d dm start st = fuelOut st := by
  rw [readTagged]
theorem readMeta_zero (ctx : Ctx) (d : Nat) (dm : Bool) (start : Nat) (st : St) :
    readMeta ctx 0 d dm start st = fuelOut st := by
  rw [readMeta]

theorem readSeq_succ (ctx : Ctx) (f d : Nat) (dm : Bool) (kind start : Nat) (st : St) (acc : List Val) :
    readSeq ctx (f + 1) d dm kind start st acc =
      rsStep ctx (readValue ctx f) (readSeq ctx f) d dm kind start st acc := by
  rw [readSeq]; rfl

theorem readMap_succ (ctx : Ctx) (f d : Nat) (dm : Bool) (start : Nat) (ns : Option Bytes) (st : St)
    (ks vs : List Val) :
    readMap ctx (f + 1) d dm start ns st ks vs =
      rmStep ctx (readValue ctx f) (readMap ctx f) d dm start ns st ks vs := by
  rw [readMap]; rfl

theorem readNsMap_succ (ctx : Ctx) (f d : Nat) (dm : Bool) (start : Nat) (st : St) :
    readNsMap ctx (f + 1) d dm start st = rnStep ctx (readValue ctx f) (readMap ctx f) d dm start st := by
  rw [readNsMap]; rfl

theorem readTagged_succ (ctx : Ctx) (f d : Nat) (dm : Bool) (start : Nat) (st : St) :
    readTagged ctx (f + 1) d dm start st = rtStep ctx (readValue ctx f) d dm start st := by
  rw [readTagged]; rfl

theorem readMeta_succ (ctx : Ctx) (f d : Nat) (dm : Bool) (start : Nat) (st : St) :
    readMeta ctx (f + 1) d dm start st = rmeStep ctx (readValue ctx f) d dm start st := by
  rw [readMeta]; rfl

theorem readValue_succ (ctx : Ctx) (f d : Nat) (dm : Bool) (st : St) :
    readValue ctx (f + 1) d dm st =
      rvOuter ctx (readValue ctx f) (readSeq ctx f) (readMap ctx f) (readNsMap ctx f) (readTagged ctx f)
        (readMeta ctx f) d dm st := by
  rw [readValue]
  unfold rvOuter
  simp only []
  cases hs : st.rest with
  | nil => rfl
  | cons c0 t =>
    simp only []
    cases hw : (if isPreWs c0 = true then skipWs (c0 :: t) else c0 :: t) with
    | nil => rfl
    | cons c cs => rfl

end Edn.Proofs
