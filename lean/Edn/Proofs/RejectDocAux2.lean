/-
  Edn.Proofs.RejectDocAux2 — C10, whole documents: errors of the element loops (`readSeq`,
  `readMap`) after a run of complete forms, and what the loops make of an element's error,
  of the end of the input and of a closing delimiter.
-/
import Edn.Proofs.RejectDocAux1

namespace Edn.Proofs.RejectDoc
open Edn.Model Edn.Spec Edn.Generated Edn.Proofs Edn.Proofs.Cmpl

/-- "`readValue` at depth `d` in front of `s` fails with `e`, leaving `r`" - for every call log
    and every sufficient fuel -/
def SiteErr (opts : Opts) (d : Nat) (dm : Bool) (s : Bytes) (e : ErrInfo) (r : Bytes) : Prop :=
  ∀ (cl : List Call) (f : Nat), 2 * s.length + 2 ≤ f →
    readValue (cctx opts) f d dm { rest := s, calls := cl } = .err e { rest := r, calls := cl }

/-- the same for the element loop of a list / vector / set opened at `start` -/
def LoopErrS (opts : Opts) (d : Nat) (dm : Bool) (kind start : Nat) (s : Bytes) (e : ErrInfo) (r : Bytes) : Prop :=
  ∀ (cl : List Call) (f : Nat) (acc : List Val), 2 * s.length + 3 ≤ f →
    readSeq (cctx opts) f d dm kind start { rest := s, calls := cl } acc = .err e { rest := r, calls := cl }

/-- … and of a map -/
def LoopErrM (opts : Opts) (d : Nat) (dm : Bool) (start : Nat) (s : Bytes) (e : ErrInfo) (r : Bytes) : Prop :=
  ∀ (cl : List Call) (f : Nat) (ks vs : List Val), 2 * s.length + 3 ≤ f →
    readMap (cctx opts) f d dm start none { rest := s, calls := cl } ks vs = .err e { rest := r, calls := cl }

/-- the error an element loop reports when its element fails with `e`: the end of the input
    becomes UNTERMINATED_COLLECTION from the opening delimiter, everything else is passed on -/
def loopErr (start : Nat) (e : ErrInfo) (r : Bytes) : ErrInfo :=
  if e.code == .unexpectedEof && !e.fuelOut then mkErr .unterminatedCollection (some start) (some r.length) else e

theorem beq_eof_false {c : Err} (h : c ≠ .unexpectedEof) : (c == Err.unexpectedEof) = false := by
  cases c <;> first | rfl | exact absurd rfl h

theorem loopErr_hard {start : Nat} {e : ErrInfo} {r : Bytes} (h : e.code ≠ .unexpectedEof) : loopErr start e r = e := by
  unfold loopErr
  simp only [beq_eof_false h, Bool.false_and, Bool.false_eq_true, ↓reduceIte]

theorem loopErr_eof {start : Nat} {e : ErrInfo} {r : Bytes} (h : e.code = .unexpectedEof) (hf : e.fuelOut = false) :
    loopErr start e r = mkErr .unterminatedCollection (some start) (some r.length) := by
  unfold loopErr
  have hb : (e.code == Err.unexpectedEof && !e.fuelOut) = true := by rw [h, hf]; rfl
  simp only [hb, ↓reduceIte]

/-! ## one step of the loops -/

theorem rs_err_eq (ctx : Ctx) (f d : Nat) (dm : Bool) (kind start : Nat) (st st' : St) (acc : List Val) (e : ErrInfo)
    (h : readValue ctx f (d + 1) dm st = .err e st') :
    readSeq ctx (f + 1) d dm kind start st acc = .err (loopErr start e st'.rest) st' := by
  rw [readSeq_succ]
  unfold rsStep
  simp only [h, Ctx.pos, loopErr]
  split <;> rfl

theorem rs_ok_eq (ctx : Ctx) (f d : Nat) (dm : Bool) (kind start : Nat) (st st' : St) (acc : List Val) (v : Val)
    (h : readValue ctx f (d + 1) dm st = .ok v st') :
    readSeq ctx (f + 1) d dm kind start st acc = readSeq ctx f d dm kind start st' (v :: acc) := by
  rw [readSeq_succ]
  unfold rsStep
  simp only [h]

theorem rs_closer_eq (ctx : Ctx) (f d : Nat) (dm : Bool) (kind start : Nat) (st : St) (acc : List Val)
    (c : UInt8) (rest : Bytes) (cl : List Call)
    (h : readValue ctx f (d + 1) dm st = .closer { rest := c :: rest, calls := cl }) (hc : c ≠ closerByte kind) :
    readSeq ctx (f + 1) d dm kind start st acc =
      .err (mkErr .unmatchedDelimiter (some start) (some rest.length)) { rest := c :: rest, calls := cl } := by
  rw [readSeq_succ]
  unfold rsStep
  have hb : (c != closerByte kind) = true := by simpa using hc
  simp only [h, hb, ↓reduceIte, List.length_cons, Nat.add_sub_cancel]

theorem rm_err_eq (ctx : Ctx) (f d : Nat) (dm : Bool) (start : Nat) (ns : Option Bytes) (st st' : St) (ks vs : List Val) (e : ErrInfo)
    (h : readValue ctx f (d + 1) dm st = .err e st') :
    readMap ctx (f + 1) d dm start ns st ks vs = .err (loopErr start e st'.rest) st' := by
  rw [readMap_succ]
  unfold rmStep
  simp only [h, Ctx.pos, loopErr]
  split <;> rfl

theorem rm_err2_eq (ctx : Ctx) (f d : Nat) (dm : Bool) (start : Nat) (ns : Option Bytes) (st st1 st' : St) (ks vs : List Val)
    (k : Val) (e : ErrInfo)
    (h1 : readValue ctx f (d + 1) dm st = .ok k st1)
    (h : readValue ctx f (d + 1) dm st1 = .err e st') :
    readMap ctx (f + 1) d dm start ns st ks vs = .err (loopErr start e st'.rest) st' := by
  rw [readMap_succ]
  unfold rmStep
  simp only [h1, h, Ctx.pos, loopErr]
  split <;> rfl

theorem rm_ok_eq (ctx : Ctx) (f d : Nat) (dm : Bool) (start : Nat) (st st1 st2 : St) (ks vs : List Val) (k v : Val)
    (h1 : readValue ctx f (d + 1) dm st = .ok k st1)
    (h2 : readValue ctx f (d + 1) dm st1 = .ok v st2) :
    readMap ctx (f + 1) d dm start none st ks vs = readMap ctx f d dm start none st2 (k :: ks) (v :: vs) := by
  rw [readMap_succ]
  unfold rmStep
  simp only [h1, h2]

/-- a closing delimiter other than `}` where a key is expected -/
theorem rm_closer_eq (ctx : Ctx) (f d : Nat) (dm : Bool) (start : Nat) (ns : Option Bytes) (st : St) (ks vs : List Val)
    (c : UInt8) (rest : Bytes) (cl : List Call)
    (h : readValue ctx f (d + 1) dm st = .closer { rest := c :: rest, calls := cl }) (hc : c ≠ 0x7D) :
    readMap ctx (f + 1) d dm start ns st ks vs =
      .err (mkErr .unmatchedDelimiter (some start) (some rest.length)) { rest := c :: rest, calls := cl } := by
  rw [readMap_succ]
  unfold rmStep
  have hb : (c != 0x7D) = true := by simpa using hc
  simp only [h, hb, ↓reduceIte, List.length_cons, Nat.add_sub_cancel]

/-- any closing delimiter where a value is expected -/
theorem rm_closer2_eq (ctx : Ctx) (f d : Nat) (dm : Bool) (start : Nat) (ns : Option Bytes) (st st1 st2 : St) (ks vs : List Val)
    (k : Val)
    (h1 : readValue ctx f (d + 1) dm st = .ok k st1)
    (h : readValue ctx f (d + 1) dm st1 = .closer st2) :
    readMap ctx (f + 1) d dm start ns st ks vs =
      .err (mkErr .invalidSyntax (some start) (some st2.rest.length)) st2 := by
  rw [readMap_succ]
  unfold rmStep
  simp only [h1, h, Ctx.pos]

/-! ## through a run of complete forms -/

theorem form_read_at (opts : Opts) (hreg : opts.registry = none) {k : Nat} {a : Val} {tok rest : Bytes}
    (h : Form k a tok rest) (d : Nat) (hd : d + k ≤ Tables.maxNestingDepth) (dm : Bool) (cl : List Call) (f : Nat)
    (hf : 2 * (tok ++ rest).length + 2 ≤ f) :
    ∃ v, readValue (cctx opts) f d dm { rest := tok ++ rest, calls := cl } = .ok v { rest := rest, calls := cl } := by
  obtain ⟨v, hv, -⟩ := form_is_read opts hreg k a tok rest h d hd dm cl f (by rw [List.length_append] at hf; exact hf)
  exact ⟨v, hv⟩

theorem form_len_pos {k : Nat} {a : Val} {tok rest : Bytes} (h : Form k a tok rest) : 0 < tok.length :=
  List.length_pos_iff.mpr (Snd.form_ne_nil h)

theorem rs_forms (opts : Opts) (hreg : opts.registry = none) {k n : Nat} {body after : Bytes} (h : Forms k n body after)
    (d : Nat) (dm : Bool) (kind start : Nat) (hd : d + 1 + k ≤ Tables.maxNestingDepth) (e : ErrInfo) (r : Bytes)
    (hs : LoopErrS opts d dm kind start after e r) : LoopErrS opts d dm kind start (body ++ after) e r := by
  induction h with
  | nil after => simpa using hs
  | cons n a tok body after hf _ ih =>
    intro cl f acc hfu
    have hpos := form_len_pos hf
    simp only [List.append_assoc, List.length_append] at hfu ⊢
    match f, hfu with
    | f + 1, hfu =>
      obtain ⟨v, hv⟩ := form_read_at opts hreg hf (d + 1) (by omega) dm cl f
        (by simp only [List.length_append]; omega)
      rw [rs_ok_eq _ f d dm kind start _ _ acc v hv]
      exact ih hs cl f (v :: acc) (by simp only [List.length_append]; omega)

theorem rm_forms (opts : Opts) (hreg : opts.registry = none) (k : Nat) (after : Bytes)
    (d : Nat) (dm : Bool) (start : Nat) (hd : d + 1 + k ≤ Tables.maxNestingDepth) (e : ErrInfo) (r : Bytes)
    (hs : LoopErrM opts d dm start after e r) :
    ∀ (m : Nat) (body : Bytes), Forms k (2 * m) body after → LoopErrM opts d dm start (body ++ after) e r := by
  intro m
  induction m with
  | zero =>
    intro body h
    cases h with
    | nil => simpa using hs
  | succ m ih =>
    intro body h
    have e2 : 2 * (m + 1) = (2 * m + 1) + 1 := by omega
    rw [e2] at h
    cases h with
    | cons _ a1 tok1 body1 _ hf1 hr1 =>
      cases hr1 with
      | cons _ a2 tok2 body2 _ hf2 hr2 =>
        intro cl f ks vs hfu
        have hp1 := form_len_pos hf1
        have hp2 := form_len_pos hf2
        simp only [List.append_assoc, List.length_append] at hfu hf1 ⊢
        match f, hfu with
        | f + 1, hfu =>
          obtain ⟨v1, hv1⟩ := form_read_at opts hreg hf1 (d + 1) (by omega) dm cl f
            (by simp only [List.length_append]; omega)
          obtain ⟨v2, hv2⟩ := form_read_at opts hreg hf2 (d + 1) (by omega) dm cl f
            (by simp only [List.length_append]; omega)
          rw [rm_ok_eq _ f d dm start _ _ _ ks vs v1 v2 hv1 hv2]
          exact ih body2 hr2 cl f (v1 :: ks) (v2 :: vs) (by simp only [List.length_append]; omega)

/-! ## what the loops make of their element's outcome -/

theorem loopS_of_site (opts : Opts) (d : Nat) (dm : Bool) (kind start : Nat) (s : Bytes) (e : ErrInfo) (r : Bytes)
    (h : SiteErr opts (d + 1) dm s e r) : LoopErrS opts d dm kind start s (loopErr start e r) r := by
  intro cl f acc hf
  match f, hf with
  | f + 1, hf => rw [rs_err_eq _ f d dm kind start _ _ acc e (h cl f (by omega))]

theorem loopM_of_site (opts : Opts) (d : Nat) (dm : Bool) (start : Nat) (s : Bytes) (e : ErrInfo) (r : Bytes)
    (h : SiteErr opts (d + 1) dm s e r) : LoopErrM opts d dm start s (loopErr start e r) r := by
  intro cl f ks vs hf
  match f, hf with
  | f + 1, hf => rw [rm_err_eq _ f d dm start none _ _ ks vs e (h cl f (by omega))]

/-- the element after a key fails -/
theorem loopM_of_site2 (opts : Opts) (hreg : opts.registry = none) (d : Nat) (dm : Bool) (start : Nat)
    {k : Nat} {a : Val} {tok s : Bytes} (hf : Form k a tok s) (hd : d + 1 + k ≤ Tables.maxNestingDepth)
    (e : ErrInfo) (r : Bytes)
    (h : SiteErr opts (d + 1) dm s e r) : LoopErrM opts d dm start (tok ++ s) (loopErr start e r) r := by
  intro cl f ks vs hfu
  have hp := form_len_pos hf
  simp only [List.length_append] at hfu
  match f, hfu with
  | f + 1, hfu =>
    obtain ⟨v, hv⟩ := form_read_at opts hreg hf (d + 1) (by omega) dm cl f (by simp only [List.length_append]; omega)
    rw [rm_err2_eq _ f d dm start none _ _ _ ks vs v e hv (h cl f (by omega))]

/-- a closing delimiter of the wrong kind ends a list / vector / set -/
theorem loopS_of_closer (opts : Opts) (d : Nat) (dm : Bool) (kind start : Nat) (tr : Bytes) (c : UInt8) (rest : Bytes)
    (h : Snd.TrailL opts d tr (c :: rest)) (hc : c ≠ closerByte kind) :
    LoopErrS opts d dm kind start (tr ++ c :: rest) (mkErr .unmatchedDelimiter (some start) (some rest.length)) (c :: rest) := by
  intro cl f acc hf
  match f, hf with
  | f + 1, hf => rw [rs_closer_eq _ f d dm kind start _ acc c rest cl (h dm cl f (by omega)) hc]

theorem loopM_of_closer (opts : Opts) (d : Nat) (dm : Bool) (start : Nat) (tr : Bytes) (c : UInt8) (rest : Bytes)
    (h : Snd.TrailL opts d tr (c :: rest)) (hc : c ≠ 0x7D) :
    LoopErrM opts d dm start (tr ++ c :: rest) (mkErr .unmatchedDelimiter (some start) (some rest.length)) (c :: rest) := by
  intro cl f ks vs hf
  match f, hf with
  | f + 1, hf => rw [rm_closer_eq _ f d dm start none _ ks vs c rest cl (h dm cl f (by omega)) hc]

/-- any closing delimiter after a key -/
theorem loopM_of_closer2 (opts : Opts) (hreg : opts.registry = none) (d : Nat) (dm : Bool) (start : Nat)
    {k : Nat} {a : Val} {tok : Bytes} (tr : Bytes) (c : UInt8) (rest : Bytes)
    (hf : Form k a tok (tr ++ c :: rest)) (hd : d + 1 + k ≤ Tables.maxNestingDepth)
    (h : Snd.TrailL opts d tr (c :: rest)) :
    LoopErrM opts d dm start (tok ++ (tr ++ c :: rest))
      (mkErr .invalidSyntax (some start) (some (rest.length + 1))) (c :: rest) := by
  intro cl f ks vs hfu
  have hp := form_len_pos hf
  simp only [List.length_append] at hfu
  match f, hfu with
  | f + 1, hfu =>
    obtain ⟨v, hv⟩ := form_read_at opts hreg hf (d + 1) (by omega) dm cl f (by simp only [List.length_append]; omega)
    rw [rm_closer2_eq _ f d dm start none _ _ _ ks vs v hv (h dm cl f (by simp only [List.length_append]; omega))]
    rfl

/-! ## the opening delimiter -/

theorem opener_length_pos (kind : Nat) : 0 < (opener kind).length := by
  unfold opener
  split <;> simp

theorem site_of_loopS (opts : Opts) (d : Nat) (dm : Bool) (kind : Nat) (hk : kind < 3) (x : Bytes) (e : ErrInfo) (r : Bytes)
    (hd : d < Tables.maxNestingDepth)
    (h : LoopErrS opts d dm kind (opener kind ++ x).length x e r) : SiteErr opts d dm (opener kind ++ x) e r := by
  intro cl f hf
  have hp := opener_length_pos kind
  simp only [List.length_append] at hf
  match f, hf with
  | f + 1, hf =>
    have key := h cl f [] (by omega)
    match kind, hk with
    | 0, _ =>
      have := readValue_listOpen (cctx opts) f d dm x cl hd
      simp only [opener, List.cons_append, List.nil_append, List.length_cons] at key ⊢
      rw [this, key]
    | 1, _ =>
      have := readValue_vecOpen (cctx opts) f d dm x cl hd
      simp only [opener, List.cons_append, List.nil_append, List.length_cons] at key ⊢
      rw [this, key]
    | 2, _ =>
      have := readValue_setOpen (cctx opts) f d dm x cl hd
      simp only [opener, List.cons_append, List.nil_append, List.length_cons] at key ⊢
      rw [this, key]

theorem site_of_loopM (opts : Opts) (d : Nat) (dm : Bool) (kind : Nat) (hk : 3 ≤ kind) (x : Bytes) (e : ErrInfo) (r : Bytes)
    (hd : d < Tables.maxNestingDepth)
    (h : LoopErrM opts d dm (opener kind ++ x).length x e r) : SiteErr opts d dm (opener kind ++ x) e r := by
  intro cl f hf
  have ho : opener kind = [0x7B] := by
    unfold opener
    split
    · omega
    · omega
    · omega
    · rfl
  rw [ho] at h hf ⊢
  simp only [List.length_append, List.length_cons, List.length_nil] at hf
  match f, hf with
  | f + 1, hf =>
    have key := h cl f [] [] (by omega)
    have := readValue_mapOpen (cctx opts) f d dm x cl hd
    simp only [List.cons_append, List.nil_append, List.length_cons] at key ⊢
    rw [this, key]

end Edn.Proofs.RejectDoc
