/-
  Edn.Proofs.RejectDocAux1 — C10, whole documents: the declarative *open context* of a defect
  (`Forms`, `Desc`) and the one-step equations of the reader that the transport theorem of
  `RejectDocAux2` is assembled from (discard marker, tag, element loops).

  Core configuration, no reader registry.  Everything is stated for "any sufficient fuel".
-/
import Edn.Proofs.Sound
import Edn.Proofs.Reject

namespace Edn.Proofs.RejectDoc
open Edn.Model Edn.Spec Edn.Generated Edn.Proofs Edn.Proofs.Cmpl

/-- the reader context of the core configuration -/
abbrev cctx (opts : Opts) : Ctx := { cfg := Cfg.core, opts := opts }

/-! ## declarative side -/

/-- `Forms k n body after`: `body` is `n` complete forms of `Edn.Spec.Form` one after the other
    (each with the blanks, comments and discarded forms in front of it), nesting at most `k`,
    followed by `after` -/
inductive Forms : Nat → Nat → Bytes → Bytes → Prop
  | nil (k : Nat) (after : Bytes) : Forms k 0 [] after
  | cons (k n : Nat) (a : Val) (tok body after : Bytes) (h : Form k a tok (body ++ after))
      (hr : Forms k n body after) : Forms k (n + 1) (tok ++ body) after

/-- opening delimiter of a collection: kind 0 list, 1 vector, 2 set, anything else map -/
def opener : Nat → Bytes
  | 0 => [0x28]
  | 1 => [0x5B]
  | 2 => [0x23, 0x7B]
  | _ => [0x7B]

/-- `Desc s c d dm pre d' dm'`: the *open context* of a defect.  A reader that expects a form at
    nesting depth `d` (discard mode `dm`) and is given `pre ++ s` works through `pre` - blanks,
    comments, complete discarded forms, a discard marker or a tag whose operand is still to
    come, and (when `c = true`) opening delimiters of collections with complete forms after
    them - and arrives in front of `s` expecting a form at depth `d'` (mode `dm'`).
    `c = false`: no collection is opened on the way (a *flat* context). -/
inductive Desc (s : Bytes) : Bool → Nat → Bool → Bytes → Nat → Bool → Prop
  | here (c : Bool) (d : Nat) (dm : Bool) : Desc s c d dm [] d dm
  /-- blanks, commas, closed comments -/
  | blank (c : Bool) (d : Nat) (dm : Bool) (tr pre : Bytes) (d' : Nat) (dm' : Bool) (ht : Blank tr)
      (h : Desc s c d dm pre d' dm') : Desc s c d dm (tr ++ pre) d' dm'
  /-- a complete discarded form `#_ form` -/
  | skip (c : Bool) (d : Nat) (dm : Bool) (k : Nat) (b : Val) (tok pre : Bytes) (d' : Nat) (dm' : Bool)
      (hd : d + 1 + k ≤ Tables.maxNestingDepth) (hf : Form k b tok (pre ++ s))
      (h : Desc s c d dm pre d' dm') : Desc s c d dm (0x23 :: 0x5F :: (tok ++ pre)) d' dm'
  /-- a discard marker whose form is still open -/
  | discard (c : Bool) (d : Nat) (dm : Bool) (pre : Bytes) (d' : Nat) (dm' : Bool)
      (hd : d < Tables.maxNestingDepth) (h : Desc s c (d + 1) true pre d' dm') :
      Desc s c d dm (0x23 :: 0x5F :: pre) d' dm'
  /-- a tag whose form is still open -/
  | tag (c : Bool) (d : Nat) (dm : Bool) (tg : Bytes) (ns : Option Bytes) (nm : Bytes) (pre : Bytes) (d' : Nat) (dm' : Bool)
      (hd : d < Tables.maxNestingDepth) (hl : IdentLex tg) (hden : IdentDenotes tg (.sym hdr0 none ns nm))
      (hu : tg.head? ≠ some 0x5F) (hsep : DelimStart (pre ++ s))
      (h : Desc s c (d + 1) dm pre d' dm') : Desc s c d dm (0x23 :: (tg ++ pre)) d' dm'
  /-- an opening delimiter, `n` complete forms, and the open element -/
  | coll (d : Nat) (dm : Bool) (kind k n : Nat) (body pre : Bytes) (d' : Nat) (dm' : Bool)
      (hd : d + 1 + k ≤ Tables.maxNestingDepth) (hb : Forms k n body (pre ++ s))
      (h : Desc s true (d + 1) dm pre d' dm') : Desc s true d dm (opener kind ++ (body ++ pre)) d' dm'

theorem Desc.mono {s : Bytes} {c : Bool} {d : Nat} {dm : Bool} {pre : Bytes} {d' : Nat} {dm' : Bool}
    (h : Desc s c d dm pre d' dm') : Desc s true d dm pre d' dm' := by
  induction h with
  | here c d dm => exact .here true d dm
  | blank c d dm tr pre d' dm' ht _ ih => exact .blank true d dm tr pre d' dm' ht ih
  | skip c d dm k b tok pre d' dm' hd hf _ ih => exact .skip true d dm k b tok pre d' dm' hd hf ih
  | discard c d dm pre d' dm' hd _ ih => exact .discard true d dm pre d' dm' hd ih
  | tag c d dm tg ns nm pre d' dm' hd hl hden hu hsep _ ih => exact .tag true d dm tg ns nm pre d' dm' hd hl hden hu hsep ih
  | coll d dm kind k n body pre d' dm' hd hb _ ih => exact .coll d dm kind k n body pre d' dm' hd hb ih

/-- the depth never decreases along a context -/
theorem Desc.depth_le {s : Bytes} {c : Bool} {d : Nat} {dm : Bool} {pre : Bytes} {d' : Nat} {dm' : Bool}
    (h : Desc s c d dm pre d' dm') : d ≤ d' := by
  induction h with
  | here => exact Nat.le_refl _
  | blank _ _ _ _ _ _ _ _ _ ih => exact ih
  | skip _ _ _ _ _ _ _ _ _ _ _ _ ih => exact ih
  | discard _ _ _ _ _ _ _ _ ih => omega
  | tag _ _ _ _ _ _ _ _ _ _ _ _ _ _ _ ih => omega
  | coll _ _ _ _ _ _ _ _ _ _ _ _ ih => omega

/-- composition of contexts -/
theorem Desc.trans {s : Bytes} {c : Bool} {d : Nat} {dm : Bool} {pre : Bytes} {d1 : Nat} {dm1 : Bool}
    (h : Desc (pre2 ++ s) c d dm pre d1 dm1) {d2 : Nat} {dm2 : Bool} (h2 : Desc s c d1 dm1 pre2 d2 dm2) :
    Desc s c d dm (pre ++ pre2) d2 dm2 := by
  induction h with
  | here c d dm => simpa using h2
  | blank c d dm tr pre d' dm' ht _ ih =>
    rw [List.append_assoc]
    exact .blank c d dm tr _ d2 dm2 ht (ih h2)
  | skip c d dm k b tok pre d' dm' hd hf _ ih =>
    have e : (0x23 :: 0x5F :: (tok ++ pre)) ++ pre2 = 0x23 :: 0x5F :: (tok ++ (pre ++ pre2)) := by simp
    rw [e]
    exact .skip c d dm k b tok _ d2 dm2 hd (by rw [List.append_assoc]; exact hf) (ih h2)
  | discard c d dm pre d' dm' hd _ ih =>
    exact .discard c d dm _ d2 dm2 hd (ih h2)
  | tag c d dm tg ns nm pre d' dm' hd hl hden hu hsep _ ih =>
    have e : (0x23 :: (tg ++ pre)) ++ pre2 = 0x23 :: (tg ++ (pre ++ pre2)) := by simp
    rw [e]
    exact .tag c d dm tg ns nm _ d2 dm2 hd hl hden hu (by rw [List.append_assoc]; exact hsep) (ih h2)
  | coll d dm kind k n body pre d' dm' hd hb _ ih =>
    have e : (opener kind ++ (body ++ pre)) ++ pre2 = opener kind ++ (body ++ (pre ++ pre2)) := by simp
    rw [e]
    exact .coll d dm kind k n body _ d2 dm2 hd (by rw [List.append_assoc]; exact hb) (ih h2)

/-- the last of `n + 1` forms, split off -/
theorem Forms.snoc {k n : Nat} {body after : Bytes} (h : Forms k (n + 1) body after) :
    ∃ body1 tok a, body = body1 ++ tok ∧ Forms k n body1 (tok ++ after) ∧ Form k a tok after := by
  generalize hm : n + 1 = m at h
  induction h generalizing n with
  | nil => omega
  | cons n' a tok body after hf hr ih =>
    have hn : n = n' := by omega
    subst hn
    cases n with
    | zero =>
      cases hr with
      | nil => exact ⟨[], tok, a, by simp, .nil _ _, by simpa using hf⟩
    | succ n0 =>
      obtain ⟨body1, tok1, a1, rfl, h1, h2⟩ := ih rfl
      refine ⟨tok ++ body1, tok1, a1, by simp, ?_, h2⟩
      exact .cons _ n0 a tok body1 _ (by simpa using hf) h1

/-! ## one-step equations of the reader -/

/-- `#_` in front of `x`: the discarded form is read one level deeper in discard mode -/
theorem rv_discard_eq (ctx : Ctx) (f d : Nat) (dm : Bool) (x : Bytes) (cl : List Call)
    (hd : d < Tables.maxNestingDepth) :
    readValue ctx (f + 1) d dm { rest := 0x23 :: 0x5F :: x, calls := cl } =
      match readValue ctx f (d + 1) true { rest := x, calls := cl } with
      | .ok _ st' => readValue ctx f d dm st'
      | .closer st' => .err (mkErr .invalidDiscard (some (x.length + 2)) (some x.length)) st'
      | .err e st' => .err e st' := by
  have hp : isPreWs 0x23 = false := by decide +kernel
  have hnd : ¬ (d ≥ Tables.maxNestingDepth) := by omega
  rw [readValue_succ]
  unfold rvOuter
  simp only [hp, Bool.false_eq_true, ↓reduceIte]
  unfold rvStep
  simp only [Cmpl.dispatch_hash]
  simp only [hnd, decide_false, Bool.false_eq_true, ↓reduceIte]
  have e1 : ((0x5F : UInt8) == 0x23) = false := by decide
  have e2 : ((0x5F : UInt8) == 0x7B) = false := by decide
  simp only [e1, e2, Bool.false_eq_true, ↓reduceIte, beq_self_eq_true, Ctx.pos, List.length_cons]
  rfl

/-- what the declarative tag conditions give the reader -/
theorem tag_facts (ctx : Ctx) (tg : Bytes) (ns : Option Bytes) (nm : Bytes) (r : Bytes) (cl : List Call)
    (hl : IdentLex tg) (hden : IdentDenotes tg (.sym hdr0 none ns nm)) (hu : tg.head? ≠ some 0x5F) (hsep : DelimStart r) :
    ∃ c0 tg', tg = c0 :: tg' ∧ c0 ≠ 0x23 ∧ c0 ≠ 0x7B ∧ c0 ≠ 0x5F ∧ c0 ≠ 0x3A ∧
      (c0 == 0x20 || c0 == 0x09 || c0 == 0x0A || c0 == 0x0D || c0 == 0x2C) = false ∧
      ∃ h ns' nm', readIdentifier ctx { rest := tg ++ r, calls := cl } = .ok (.sym h none ns' nm') { rest := r, calls := cl } := by
  cases tg with
  | nil => exact absurd rfl hl.1
  | cons c0 tg' =>
    have hc0 : isDelim c0 = false := hl.2.1 c0 (by simp)
    have h1 : c0 ≠ 0x23 := fun he => by rw [he] at hc0; revert hc0; decide +kernel
    have h2 : c0 ≠ 0x7B := fun he => by rw [he] at hc0; revert hc0; decide +kernel
    have h3 : c0 ≠ 0x5F := fun he => hu (by rw [he]; rfl)
    have h4 : c0 ≠ 0x3A := by
      intro he
      subst he
      rcases hden with ⟨e, -⟩ | ⟨e, -⟩ | ⟨e, -⟩ | ⟨body, ns', nm', -, -, -, -, -, e⟩ | ⟨e, -⟩
      · rw [nil_bytes] at e; cases e
      · rw [true_bytes] at e; cases e
      · rw [false_bytes] at e; cases e
      · cases e
      · exact e rfl
    have hfive := fiveWs_delim
    simp only [fiveWsDelim, Bool.and_eq_true] at hfive
    have e1 : (c0 == 0x20) = false := by
      apply Bool.eq_false_iff.mpr; intro he; rw [beq_iff_eq] at he; subst he; rw [hfive.1.1.1.1.1.1] at hc0; cases hc0
    have e2 : (c0 == 0x09) = false := by
      apply Bool.eq_false_iff.mpr; intro he; rw [beq_iff_eq] at he; subst he; rw [hfive.1.1.1.1.1.2] at hc0; cases hc0
    have e3 : (c0 == 0x0A) = false := by
      apply Bool.eq_false_iff.mpr; intro he; rw [beq_iff_eq] at he; subst he; rw [hfive.1.1.1.1.2] at hc0; cases hc0
    have e4 : (c0 == 0x0D) = false := by
      apply Bool.eq_false_iff.mpr; intro he; rw [beq_iff_eq] at he; subst he; rw [hfive.1.1.1.2] at hc0; cases hc0
    have e5 : (c0 == 0x2C) = false := by
      apply Bool.eq_false_iff.mpr; intro he; rw [beq_iff_eq] at he; subst he; rw [hfive.1.1.2] at hc0; cases hc0
    refine ⟨c0, tg', rfl, h1, h2, h3, h4, by simp only [e1, e2, e3, e4, e5, Bool.or_self], ?_⟩
    obtain ⟨tv, htv, hstv⟩ := readIdentifier_complete ctx (c0 :: tg') r cl _ hl hsep hden
    cases tv with
    | sym h md ns' nm' =>
      have := Snd.readIdentifier_md _ _ _ h md ns' nm' htv
      subst this
      exact ⟨h, ns', nm', htv⟩
    | _ => simp [strip] at hstv

/-- `#tag` in front of `r` (no registry): the operand is read one level deeper -/
theorem rv_tag_eq (ctx : Ctx) (hreg : ctx.opts.registry = none) (f d : Nat) (dm : Bool) (tg : Bytes) (ns : Option Bytes) (nm : Bytes)
    (r : Bytes) (cl : List Call) (hd : d < Tables.maxNestingDepth)
    (hl : IdentLex tg) (hden : IdentDenotes tg (.sym hdr0 none ns nm)) (hu : tg.head? ≠ some 0x5F) (hsep : DelimStart r) :
    readValue ctx (f + 2) d dm { rest := 0x23 :: (tg ++ r), calls := cl } =
      match readValue ctx f (d + 1) dm { rest := r, calls := cl } with
      | .closer st'' => .err (mkErr .invalidSyntax (some ((tg ++ r).length + 1)) (some st''.rest.length)) st''
      | .err e st'' => .err e st''
      | .ok v st'' => .ok (.tagged (mkHdr ((tg ++ r).length + 1) st''.rest.length) none tg v) st'' := by
  obtain ⟨c0, tg', rfl, h1, h2, h3, h4, h5, h, ns', nm', hsym⟩ := tag_facts ctx tg ns nm r cl hl hden hu hsep
  rw [List.cons_append, readValue_tagOpen ctx (f + 1) d dm c0 _ cl hd h1 h2 h3 h4, readTagged_succ]
  unfold rtStep
  simp only [h5, Bool.false_eq_true, ↓reduceIte]
  rw [List.cons_append] at hsym
  rw [hsym]
  simp only []
  have hsl := cslice_append (c0 :: tg') r
  rw [List.cons_append] at hsl
  cases hv : readValue ctx f (d + 1) dm { rest := r, calls := cl } with
  | closer st'' => simp only [Ctx.pos, List.length_cons]
  | err e st'' => rfl
  | ok v st'' =>
    simp only [hreg, hsl, Ctx.pos, List.length_cons]

end Edn.Proofs.RejectDoc
