/-
  Edn.Proofs.AllocBound — C02: a fault-free read makes linearly many allocation requests.

  `readA_reqs_linear`: for every configuration, option set without registry, growth rule of the
  builders and `qsort` contact order, under an oracle that fails no request,

      (readA cfg opts orc input …).ast.reqs ≤ 5 * input.length + input.length / 64 + 9

  provided every string literal of the input has escapes that decode (`stringsDecode`, a decidable
  test on the bytes).  Where the constants come from (AllocBoundAux1 … Aux7):

  * `edn_arena_create`: 2.
  * every byte consumed pays for 4 requests: a leaf value makes at most 2 (the value; the heap copy
    of a long float literal) and a text block at most 2 per line plus 3; an element of a sequence
    one more (growth of the builder), a map entry three more (rewritten key, two arrays of the map
    builder), `^` five more (metadata map, its entry of three, or entry and two merged arrays), `#tag`
    one more; the closing delimiter of a collection four (final array(s), scratch array of the
    duplicate check, the collection value).
  * lazily materialised payloads (decoded text of a string literal with escapes, digits of a big
    number without underscores) are requested by the duplicate check / metadata merge at most once
    per value thanks to `ASt.bufs`: `input.length + 1` names at most.
  * error path: temporary arena 2, line index 2, one doubling of the offsets array per 64 · 2^k line
    feeds: at most `input.length / 64` (in fact logarithmically many).

  The hypothesis on the string literals is necessary: the decoded text of a literal whose escapes
  do NOT decode is never cached, it is requested again at every look of `edn_value_equal` /
  `edn_value_hash`, and nested small sets of such literals make super-linearly many requests
  (`superDoc` below: 269 bytes make 1537 requests, 435 bytes 3991, 1331 bytes 36789).
-/
import Edn.Proofs.AllocBoundAux7
import Edn.Proofs.Scan

namespace Edn.Proofs.AllocBound
open Edn.Model Edn.Proofs Edn.Proofs.AllocBasic

/-! ## The hypothesis on string literals, as a test on the bytes -/

/-- at every `"` of the input: if the string scanner finds the closing quote and reports escapes,
    they decode -/
def stringsDecode (cfg : Cfg) : Bytes → Bool
  | [] => true
  | c :: r =>
    (if c == 0x22 then
      match findQuote r with
      | some (q, true) => (decodeString cfg ((slice r q).length + 1) (slice r q)).isSome
      | _ => true
    else true) && stringsDecode cfg r

theorem stringsDecode_ok (cfg : Cfg) (input : Bytes) (h : stringsDecode cfg input = true) : StrOK cfg input := by
  induction input with
  | nil =>
    intro r q hs _
    have := hs.length_le
    simp at this
  | cons c t ih =>
    unfold stringsDecode at h
    simp only [Bool.and_eq_true] at h
    intro r q hs hq
    rcases List.suffix_cons_iff.mp hs with heq | hs'
    · cases heq
      have h1 := h.1
      simp only [beq_self_eq_true, ↓reduceIte, hq] at h1
      exact h1
    · exact ih h.2 r q hs' hq

/-- without a backslash the string scanner never reports escapes -/
theorem findQuoteScalarAux_noEsc : ∀ (s q : Bytes) (e : Bool), (∀ c ∈ s, c ≠ 0x5C) →
    findQuoteScalarAux false false s = some (q, e) → e = false := by
  intro s
  induction s with
  | nil => intro q e _ h; simp [findQuoteScalarAux] at h
  | cons c cs ih =>
    intro q e hs h
    rw [findQuoteScalarAux] at h
    have hc : (c == 0x5C) = false := by
      have := hs c (List.mem_cons_self ..)
      simpa using this
    simp only [hc, Bool.false_eq_true, ↓reduceIte] at h
    split at h
    · simp only [Option.some.injEq, Prod.mk.injEq] at h
      exact h.2.symm
    · exact ih q e (fun c' hc' => hs c' (List.mem_cons_of_mem _ hc')) h

/-- a document without any backslash satisfies the hypothesis -/
theorem stringsDecode_of_noBackslash (cfg : Cfg) (input : Bytes) (h : ∀ c ∈ input, c ≠ 0x5C) :
    stringsDecode cfg input = true := by
  induction input with
  | nil => rfl
  | cons c r ih =>
    have hr : ∀ c' ∈ r, c' ≠ 0x5C := fun c' hc' => h c' (List.mem_cons_of_mem _ hc')
    unfold stringsDecode
    rw [ih hr, Bool.and_true]
    split
    · split
      · next q hq =>
        rw [findQuote_eq] at hq
        exact absurd (findQuoteScalarAux_noEsc r q true hr hq) (by decide)
      · rfl
    · rfl

/-! ## `edn_arena_create`, the line index -/

theorem rawAlloc_bufs (orc : Nat → Bool) (k : ReqKind) (a : ASt) : (a.rawAlloc orc k).2.bufs = a.bufs := by
  unfold ASt.rawAlloc
  cases hq : (a.request orc k).1 <;> simp [hq, request_bufs]

theorem arenaCreate_bufs (orc : Nat → Bool) (tmp : Bool) (a : ASt) : (a.arenaCreate orc tmp).2.bufs = a.bufs := by
  unfold ASt.arenaCreate
  have h1 := rawAlloc_bufs orc .arenaNew a
  split
  · next a1 e1 => rw [e1] at h1; exact h1
  · next i a1 e1 =>
    rw [e1] at h1
    have h2 := rawAlloc_bufs orc .arenaNew a1
    split
    · next a2 e2 => rw [e2] at h2; exact h2.trans h1
    · next j a2 e2 =>
      rw [e2] at h2
      cases tmp <;> exact h2.trans h1

/-- the offsets array doubles: `R` requests need `R * cap` line feeds -/
theorem lineGrowA_reqs (orc : Nat → Bool) : ∀ (n count cap : Nat) (a : ASt), 0 < cap →
    ∃ R, (lineGrowA orc n count cap a).2.reqs = a.reqs + R ∧ R * cap ≤ n + count := by
  intro n
  induction n with
  | zero => intro count cap a _; exact ⟨0, rfl, by omega⟩
  | succ n ih =>
    intro count cap a hcap
    unfold lineGrowA
    split
    · next hge =>
      have hr := request_reqs orc .arenaTmp a 0
      rcases hq : a.request orc .arenaTmp with ⟨ok, a1⟩
      rw [hq] at hr
      dsimp only at hr ⊢
      cases ok
      · exact ⟨1, by simp only [Bool.not_false, ↓reduceIte]; exact hr, by omega⟩
      · simp only [Bool.not_true, Bool.false_eq_true, ↓reduceIte]
        obtain ⟨R', hR, hle⟩ := ih (count + 1) (cap * 2) a1 (by omega)
        refine ⟨1 + R', by rw [hR, hr]; omega, ?_⟩
        rw [Nat.add_mul, Nat.one_mul]
        rw [← Nat.mul_assoc] at hle
        rcases Nat.eq_zero_or_pos R' with h0 | hpos
        · subst h0; omega
        · have : cap ≤ R' * cap := Nat.le_mul_of_pos_left cap hpos
          omega
    · obtain ⟨R, hR, hle⟩ := ih (count + 1) cap a hcap
      exact ⟨R, hR, by omega⟩

theorem lfPositionsScalar_length (i : Nat) (s : Bytes) : (lfPositionsScalar i s).length ≤ s.length := by
  induction s generalizing i with
  | nil => simp [lfPositionsScalar]
  | cons c cs ih =>
    rw [lfPositionsScalar]
    split
    · have := ih (i + 1); simp only [List.length_cons]; omega
    · have := ih (i + 1); simp only [List.length_cons]; omega

/-- the error-position code: at most `4 + length / 64` requests, whatever the oracle -/
theorem lineIndexA_reqs (orc : Nat → Bool) (input : Bytes) (a : ASt) :
    (lineIndexA orc input a).2.reqs ≤ a.reqs + 4 + input.length / 64 := by
  unfold lineIndexA
  have h0 := (arenaCreate_reqs orc true a).2
  rcases hq0 : a.arenaCreate orc true with ⟨okA, a1⟩
  rw [hq0] at h0
  dsimp only at h0 ⊢
  cases okA
  · simp only [Bool.not_false, ↓reduceIte]; omega
  · simp only [Bool.not_true, Bool.false_eq_true, ↓reduceIte]
    have h1 := request_reqs orc .arenaTmp a1 0
    rcases hq1 : a1.request orc .arenaTmp with ⟨okP, a2⟩
    rw [hq1] at h1
    dsimp only at h1 ⊢
    cases okP
    · simp only [Bool.not_false, ↓reduceIte, arenaDestroy_reqs]; omega
    · simp only [Bool.not_true, Bool.false_eq_true, ↓reduceIte]
      have h2 := request_reqs orc .arenaTmp a2 0
      rcases hq2 : a2.request orc .arenaTmp with ⟨okO, a3⟩
      rw [hq2] at h2
      dsimp only at h2 ⊢
      cases okO
      · simp only [Bool.not_false, ↓reduceIte, arenaDestroy_reqs]; omega
      · simp only [Bool.not_true, Bool.false_eq_true, ↓reduceIte, arenaDestroy_reqs]
        obtain ⟨R, hR, hle⟩ := lineGrowA_reqs orc (lfPositions input).length 0
          Edn.Generated.Tables.newlineInitialCapacity a3 (by decide)
        have hlf : (lfPositions input).length ≤ input.length := by
          rw [lfPositions_eq]; exact lfPositionsScalar_length 0 input
        -- only `64 ≤ capacity` is used: a larger initial capacity (a tuning constant) keeps the bound
        have hcap : 64 ≤ Edn.Generated.Tables.newlineInitialCapacity := by decide
        have hle64 : R * 64 ≤ (lfPositions input).length + 0 :=
          Nat.le_trans (Nat.mul_le_mul_left R hcap) hle
        rw [hR]
        omega

/-! ## The bound -/

/-- **C02, allocation requests.**  A read under an oracle that fails no request, without a tag
    registry, of an input whose string literals all have decodable escapes makes at most
    `5 * length + length / 64 + 9` logical allocation requests — in every configuration, for every
    growth rule of the builders and every `qsort` contact order. -/
theorem readA_reqs_linear (cfg : Cfg) (opts : Opts) (orc : Nat → Bool) (input : Bytes)
    (grow : Nat → Nat) (handlerReq : String → Bool) (sortTouch : Nat → List Nat)
    (horc : ∀ n, orc n = false) (hreg : opts.registry = none) (hstr : stringsDecode cfg input = true) :
    (readA cfg opts orc input grow handlerReq sortTouch).ast.reqs ≤ 5 * input.length + input.length / 64 + 9 := by
  unfold readA
  dsimp only
  have hc0 := (arenaCreate_reqs orc false ({} : ASt)).2
  have hb0 := arenaCreate_bufs orc false ({} : ASt)
  have ha0 := (Edn.Proofs.AllocSim.arenaCreate_nofault orc horc false ({} : ASt)).2 rfl
  rcases hq0 : ({} : ASt).arenaCreate orc false with ⟨okA, a0⟩
  rw [hq0] at hc0 hb0 ha0
  dsimp only at hc0 hb0 ha0 ⊢
  let x : ACtx := { ctx := { cfg := cfg, opts := opts }, orc := orc, grow := grow, handlerReq := handlerReq,
                    sortTouch := sortTouch }
  have H : Hyp x input := ⟨horc, hreg, stringsDecode_ok cfg input hstr⟩
  have hv := (readers_bound H (readFuel input)).1 0 false { rest := input } a0 ha0 (List.suffix_refl _)
  have hpsi0 : Psi (input.length + 1) a0.bufs ≤ input.length + 1 := Psi_le _ _
  have hreq0 : a0.reqs ≤ 2 := hc0
  rcases hq : readValueA x (readFuel input) 0 false { rest := input } a0 with ⟨r, a⟩
  rw [hq] at hv
  obtain ⟨_, hvc⟩ := hv
  cases r with
  | ok v st => dsimp only at hvc ⊢; have := hvc.2; omega
  | closer st => dsimp only at hvc ⊢; omega
  | err e st =>
    dsimp only at hvc ⊢
    split
    · dsimp only; omega
    · have h2 := lineIndexA_reqs orc input a
      rcases hq2 : lineIndexA orc input a with ⟨haveIdx, a1⟩
      rw [hq2] at h2
      dsimp only at h2 ⊢
      have h4 : (a1.arenaDestroy false).reqs = a1.reqs := arenaDestroy_reqs false a1
      repeat' split
      all_goals (try dsimp only)
      all_goals (try rw [h4])
      all_goals omega

/-- the instance the correspondence stream `H` exercises: the oracle that never fails -/
theorem readA_reqs_linear' (cfg : Cfg) (opts : Opts) (input : Bytes)
    (hreg : opts.registry = none) (hstr : stringsDecode cfg input = true) :
    (readA cfg opts (fun _ => false) input).ast.reqs ≤ 5 * input.length + input.length / 64 + 9 :=
  readA_reqs_linear cfg opts (fun _ => false) input _ _ _ (fun _ => rfl) hreg hstr

/-- no backslash in the document (no escape, no character literal): the bound holds outright -/
theorem readA_reqs_linear_noBackslash (cfg : Cfg) (opts : Opts) (input : Bytes)
    (hreg : opts.registry = none) (hbs : ∀ c ∈ input, c ≠ 0x5C) :
    (readA cfg opts (fun _ => false) input).ast.reqs ≤ 5 * input.length + input.length / 64 + 9 :=
  readA_reqs_linear' cfg opts input hreg (stringsDecode_of_noBackslash cfg input hbs)

/-! ## Examples -/

/-- `#{"a\n" "b\t" #{1 2}} ^:k [1_0N {:a "A"}]` is not needed: one form is read; a set of strings
    with escapes, a nested set, a big number: 27 bytes, hypotheses hold, 13 requests -/
def exampleDoc : Bytes := "#{\"a\\n\" \"b\\t\" #{1 2} 30N}".toUTF8.toList

example : stringsDecode ⟨false, false⟩ exampleDoc = true := by decide +kernel
example : ((readA ⟨false, false⟩ {} (fun _ => false) exampleDoc).ast.reqs == 13) = true := by decide +kernel
example : (readA ⟨false, false⟩ {} (fun _ => false) exampleDoc).ast.reqs
    ≤ 5 * exampleDoc.length + exampleDoc.length / 64 + 9 :=
  readA_reqs_linear' _ _ _ rfl (by decide +kernel)

/-! ## Why the hypothesis: undecodable escapes are asked for again and again

`superDoc k` is a set of `k` sets, each made of the same `k - 1` string literals `"\qa" "\qb" …`
and one literal of its own `"\Qa" …`.  `\q` is no escape of the language, but `edn_read_string`
does not look at escapes (decoding is lazy), so the document is read — to a value.  Small sets are
checked for duplicates pairwise; comparing two of the inner sets compares their strings pairwise,
and each look at a string whose escapes do not decode requests a fresh buffer for the decoded text
(`strContentA`: the buffer is cached only when decoding succeeds).  Number of requests measured
with the model (`#eval`, fault-free oracle, every configuration):

    k                     3    4    5    6     7     8     9     16
    bytes                57   95  143  201   269   347   435   1331
    requests             73  196  439  862  1537  2548  3991  36789
    5·bytes + bytes/64+9 294  485  726 1017  1358  1749  2190   6684

so no bound `c₁ * length + c₀` with small constants holds without a hypothesis on the literals. -/

def badStr (tag : UInt8) (i : Nat) : Bytes := [0x22, 0x5C, tag, UInt8.ofNat (0x61 + i), 0x22]
def innerSet (k i : Nat) : Bytes :=
  [0x23, 0x7B] ++ ((List.range (k - 1)).map (badStr 0x71)).flatten ++ badStr 0x51 i ++ [0x7D]
/-- `#{#{"\qa""\qb"…"\Qa"}#{"\qa""\qb"…"\Qb"}…}` -/
def superDoc (k : Nat) : Bytes := [0x23, 0x7B] ++ ((List.range k).map (innerSet k)).flatten ++ [0x7D]

example : ((superDoc 7).length == 269) = true := by decide +kernel
example : ((readA ⟨false, false⟩ {} (fun _ => false) (superDoc 7)).ast.reqs == 1537) = true := by decide +kernel
example : 5 * 269 + 269 / 64 + 9 < 1537 := by decide
/-- … and the hypothesis of `readA_reqs_linear` indeed fails on it -/
example : stringsDecode ⟨false, false⟩ (superDoc 7) = false := by decide +kernel

end Edn.Proofs.AllocBound
