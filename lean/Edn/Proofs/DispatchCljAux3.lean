/-
  Edn.Proofs.DispatchCljAux3 — registry dispatch on syntax trees (C14, every configuration):
  the simulation steps for maps (plain and namespaced) and for the namespaced-map prefix.
-/
import Edn.Proofs.DispatchCljAux2
namespace Edn.Proofs
open Edn.Model Edn.Spec Edn.Generated
namespace DClj

section
variable (cfg : Cfg) (o0 : Opts)

/-- the close of a map, on the side of an arbitrary run -/
theorem map_close_run (o1 : Opts) (f d start : Nat) (ns : Option Bytes) (rest : Bytes) (c : UInt8) (r : Bytes)
    (clB cA : List Call) (ksT vsT : List Syn) (ks vs : List Val)
    (hcl : ¬ (c != 0x7D) = true)
    (hR1 : readValue (KC cfg o1) f (d + 1) false { rest := rest, calls := clB ++ cA }
      = .closer { rest := c :: r, calls := clB ++ cA })
    (hl : ks.length = vs.length)
    (hacc : seqR (entriesS cfg o1.registry o1.mode ns ksT.reverse vsT.reverse)
      = (cA, .ok (interleave2 ks.reverse vs.reverse))) :
    PostS clB r (readMap (KC cfg o1) (f + 1) d false start ns { rest := rest, calls := clB ++ cA } ks vs)
      (dispatchS cfg o1.registry o1.mode (.map start r.length ns (ksT.reverse ++ []) (vsT.reverse ++ []))) := by
  rw [readMap_succ]
  unfold rmStep
  simp only []
  rw [hR1]
  simp only []
  rw [if_neg hcl, List.append_nil, List.append_nil, dispatchS_map_entries, hacc,
    closeMap_ok _ _ _ _ _ _ (by rw [List.length_reverse, List.length_reverse, hl])]
  show PostS clB r (if (hasDuplicates cfg ks.reverse).1 = true then _ else _) _
  by_cases hdup : (hasDuplicates cfg ks.reverse).1 = true
  · rw [if_pos hdup, if_pos hdup]; exact ⟨by decide, _, rfl, rfl⟩
  · rw [if_neg hdup, if_neg hdup]; rfl

theorem SimM_succ (f : Nat) (hV : SimV cfg o0 f) (hM : SimM cfg o0 f) : SimM cfg o0 (f + 1) := by
  intro d start ns st ks0 vs0
  rw [readMap_succ]
  unfold rmStep
  simp only []
  have hrel := hV (d + 1) st
  cases hr : readValue (KC cfg o0) f (d + 1) false st with
  | ok k0 st1 =>
    rw [hr] at hrel
    simp only []
    obtain ⟨tk, htk⟩ := hrel
    have hrel2 := hV (d + 1) st1
    cases hr2 : readValue (KC cfg o0) f (d + 1) false st1 with
    | err e st2 =>
      simp only []
      by_cases hb : (e.code == Err.unexpectedEof && !e.fuelOut) = true
      · rw [if_pos hb]; trivial
      · rw [if_neg hb]; trivial
    | closer st2 => trivial
    | ok x0 st2 =>
      rw [hr2] at hrel2
      simp only []
      obtain ⟨tv, htv⟩ := hrel2
      have hrec := hM d start ns st2 (qualifyNs ns k0 :: ks0) (x0 :: vs0)
      change OnOk (readMap (KC cfg o0) f d false start ns st2 (qualifyNs ns k0 :: ks0) (x0 :: vs0)) _
      cases hr0 : readMap (KC cfg o0) f d false start ns st2 (qualifyNs ns k0 :: ks0) (x0 :: vs0) with
      | err e0 st0 => trivial
      | closer st0 => trivial
      | ok v0 st0 =>
        rw [hr0] at hrec
        obtain ⟨mk, mv, e, hlm, hmore⟩ := hrec
        refine ⟨tk :: mk, tv :: mv, e, by simp [hlm], fun o1 clB cA ksT vsT ks vs hlT hl hacc => ?_⟩
        rw [readMap_succ]
        unfold rmStep
        simp only []
        have hlTr : ksT.reverse.length = vsT.reverse.length := by
          rw [List.length_reverse, List.length_reverse, hlT]
        have h1 := htk o1 (clB ++ cA)
        simp only [] at h1
        generalize readValue (KC cfg o1) f (d + 1) false { rest := st.rest, calls := clB ++ cA } = r1 at h1 ⊢
        rcases hdk : dispatchS cfg o1.registry o1.mode tk with ⟨c1, ⟨code, s, e'⟩ | k⟩
        · rw [hdk] at h1
          obtain ⟨hne, st', hr1, hcalls⟩ := h1
          rw [hr1]
          simp only []
          rw [code_ne_eof' hne, dispatchS_map_entries, dispKVS_errK cfg _ _ mk mv hlTr hacc hdk, closeMap_err]
          exact ⟨hne, st', rfl, by rw [hcalls, List.append_assoc]⟩
        · rw [hdk] at h1
          change r1 = _ at h1
          rw [h1]
          simp only []
          have h2 := htv o1 ((clB ++ cA) ++ c1)
          simp only [] at h2
          generalize readValue (KC cfg o1) f (d + 1) false { rest := st1.rest, calls := (clB ++ cA) ++ c1 } = r2
            at h2 ⊢
          rcases hdx : dispatchS cfg o1.registry o1.mode tv with ⟨c2, ⟨code, s, e'⟩ | x⟩
          · rw [hdx] at h2
            obtain ⟨hne, st', hr2', hcalls⟩ := h2
            rw [hr2']
            simp only []
            rw [code_ne_eof' hne, dispatchS_map_entries, dispKVS_errV cfg _ _ mk mv hlTr hacc hdk hdx,
              closeMap_err]
            exact ⟨hne, st', rfl, by rw [hcalls]; simp only [List.append_assoc]⟩
          · rw [hdx] at h2
            change r2 = _ at h2
            rw [h2]
            simp only []
            have := hmore o1 clB (cA ++ (c1 ++ c2)) (tk :: ksT) (tv :: vsT) (qualifyNs ns k :: ks) (x :: vs)
              (by simp [hlT]) (by simp [hl])
              (by rw [List.reverse_cons, List.reverse_cons, List.reverse_cons, List.reverse_cons]
                  exact dispKVS_snoc_ok cfg _ _ hlTr
                    (by rw [List.length_reverse, List.length_reverse, hl]) hacc hdk hdx)
            rw [List.reverse_cons, List.reverse_cons, List.append_assoc, List.append_assoc] at this
            simp only [List.append_assoc] at this ⊢
            exact this
  | err e st1 =>
    simp only []
    by_cases hb : (e.code == Err.unexpectedEof && !e.fuelOut) = true
    · rw [if_pos hb]; trivial
    · rw [if_neg hb]; trivial
  | closer st1 =>
    rw [hr] at hrel
    obtain ⟨r', c'⟩ := st1
    simp only []
    cases r' with
    | nil => trivial
    | cons c r =>
      simp only []
      by_cases hcl : (c != 0x7D) = true
      · rw [if_pos hcl]; trivial
      rw [if_neg hcl]
      show OnOk (if (hasDuplicates cfg ks0.reverse).1 = true then _ else _) _
      by_cases hdup : (hasDuplicates cfg ks0.reverse).1 = true
      · rw [if_pos hdup]; trivial
      · rw [if_neg hdup]
        exact ⟨[], [], r.length, rfl, fun o1 clB cA ksT vsT ks vs _ hl hacc =>
          map_close_run cfg o1 f d start ns st.rest c r clB cA ksT vsT ks vs hcl (hrel o1 (clB ++ cA)) hl hacc⟩

theorem kvS_nil_start (reg : Option (Bytes → Option Handler)) (mode : Nat) (ns : Option Bytes) :
    seqR (entriesS cfg reg mode ns ([] : List Syn).reverse ([] : List Syn).reverse)
      = ([], .ok (interleave2 ([] : List Val).reverse ([] : List Val).reverse)) := by
  show seqR (entriesS cfg reg mode ns [] []) = ([], .ok (interleave2 [] []))
  have h2 : interleave2 ([] : List Val) [] = [] := by simp [interleave2]
  rw [entriesS_nil, h2, seqR]

theorem SimN_succ (f : Nat) (hM : SimM cfg o0 f) : SimN cfg o0 (f + 1) := by
  intro d start cs c0
  rw [readNsMap_succ]
  unfold rnStep
  cases f with
  | zero => rw [readValue_zero]; trivial
  | succ f' =>
    rw [readValue_colon]
    cases hid : readIdentifier (KC cfg o0) { rest := 0x3A :: cs, calls := c0 } with
    | closer st1 =>
      exfalso
      have := (leaf_not_closer (KC cfg o0) { rest := 0x3A :: cs, calls := c0 }).2.2.1
      rw [hid] at this; cases this
    | err e st1 => trivial
    | ok kwv st1 =>
      simp only []
      cases kwv with
      | kw hh ns name =>
        cases ns with
        | some n => trivial
        | none =>
          simp only []
          cases hs : skipWs st1.rest with
          | nil => trivial
          | cons c r =>
            simp only []
            by_cases hc : (c == 0x7B) = true
            · rw [if_pos hc]
              have hrec := hM d start (some name) { rest := r, calls := st1.calls } [] []
              cases hr0 : readMap (KC cfg o0) (f' + 1) d false start (some name) { rest := r, calls := st1.calls } [] [] with
              | err e0 st0 => trivial
              | closer st0 => exact absurd hr0 (readMap_notCloser _ _ _ _ _ _ _ _ _ _)
              | ok v0 st0 =>
                rw [hr0] at hrec
                obtain ⟨mk, mv, e, hlm, hmore⟩ := hrec
                refine ⟨.map start e (some name) mk mv, fun o1 cl => ?_⟩
                show PostS cl st0.rest
                  (readNsMap (KC cfg o1) (f' + 1 + 1) d false start { rest := 0x3A :: cs, calls := cl }) _
                rw [readNsMap_succ]
                unfold rnStep
                rw [readValue_colon]
                have hidc := readIdentifier_calls cfg o0 o1 { rest := 0x3A :: cs, calls := c0 } cl
                simp only [] at hidc
                rw [hidc, hid]
                simp only [Res.setCalls]
                rw [hs]
                simp only []
                rw [if_pos hc]
                have := hmore o1 cl [] [] [] [] [] rfl rfl (kvS_nil_start cfg _ _ _)
                rw [List.append_nil] at this
                exact this
            · rw [if_neg hc]; trivial
      | _ => trivial

/-! ## metadata -/

theorem SimMe_succ (f : Nat) (hV : SimV cfg o0 f) : SimMe cfg o0 (f + 1) := by
  intro d start st
  rw [readMeta_succ]
  unfold rmeStep
  simp only []
  have hrel := hV (d + 1) st
  cases hr : readValue (KC cfg o0) f (d + 1) false st with
  | closer st1 => trivial
  | err e st1 => trivial
  | ok m0 st1 =>
    rw [hr] at hrel
    simp only []
    obtain ⟨tm, htm⟩ := hrel
    cases hme : metaEntries m0 with
    | none => trivial
    | some p =>
      obtain ⟨nks0, nvs0⟩ := p
      simp only []
      have hrel2 := hV (d + 1) st1
      cases hr2 : readValue (KC cfg o0) f (d + 1) false st1 with
      | closer st2 => trivial
      | err e st2 => trivial
      | ok form0 st2 =>
        rw [hr2] at hrel2
        simp only []
        obtain ⟨tf, htf⟩ := hrel2
        by_cases hmt : (!form0.metaTarget) = true
        · rw [if_pos hmt]; trivial
        rw [if_neg hmt]
        refine ⟨.ann start st1.rest.length st2.rest.length tm tf, fun o1 cl => ?_⟩
        show PostS cl st2.rest (readMeta (KC cfg o1) (f + 1) d false start { rest := st.rest, calls := cl }) _
        rw [readMeta_succ]
        unfold rmeStep
        simp only []
        rw [dispatchS_ann]
        have h1 := htm o1 cl
        simp only [] at h1
        generalize readValue (KC cfg o1) f (d + 1) false { rest := st.rest, calls := cl } = r1 at h1 ⊢
        rcases hdm : dispatchS cfg o1.registry o1.mode tm with ⟨c1, ⟨code, s, e⟩ | m⟩
        · rw [hdm] at h1
          obtain ⟨hne, st', hr1, hcalls⟩ := h1
          rw [hr1, metaResult_errM]
          exact ⟨hne, st', rfl, hcalls⟩
        · rw [hdm] at h1
          change r1 = _ at h1
          rw [h1]
          simp only []
          unfold metaResult
          simp only []
          cases hme' : metaEntries m with
          | none => exact ⟨by decide, _, rfl, rfl⟩
          | some p' =>
            obtain ⟨nks, nvs⟩ := p'
            simp only []
            have h2 := htf o1 (cl ++ c1)
            simp only [] at h2
            generalize readValue (KC cfg o1) f (d + 1) false { rest := st1.rest, calls := cl ++ c1 } = r2 at h2 ⊢
            rcases hdf : dispatchS cfg o1.registry o1.mode tf with ⟨c2, ⟨code, s, e⟩ | form⟩
            · rw [hdf] at h2
              obtain ⟨hne, st', hr2', hcalls⟩ := h2
              rw [hr2']
              exact ⟨hne, st', rfl, by rw [hcalls, List.append_assoc]⟩
            · rw [hdf] at h2
              change r2 = _ at h2
              rw [h2]
              simp only []
              by_cases hmt' : (!form.metaTarget) = true
              · rw [if_pos hmt', if_pos hmt']
                exact ⟨by decide, _, rfl, by simp only [List.append_assoc]⟩
              · rw [if_neg hmt', if_neg hmt']
                show _ = _
                simp only [List.append_assoc]

end
end DClj
end Edn.Proofs
