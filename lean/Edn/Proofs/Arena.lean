/-
  Edn.Proofs.Arena — C15 (allocator half): every region `edn_arena_alloc` hands out is
  8-aligned, at least as large as requested, inside its block, disjoint from every other
  region, and is never moved or shrunk by later requests; requests that cannot be met
  (including sizes whose rounding would wrap around) return NULL and change nothing.
-/
import Edn.Model.Arena

namespace Edn.Proofs
open Edn.Model Edn.Generated

theorem roundUp8_ge (n : Nat) : n ≤ roundUp8 n := by unfold roundUp8; omega
theorem roundUp8_mod (n : Nat) : roundUp8 n % 8 = 0 := by unfold roundUp8; omega
theorem roundUp8_lt (n : Nat) : roundUp8 n < n + 8 := by unfold roundUp8; omega

/-- the size test of `edn_arena_alloc` excludes every request whose rounded size plus the
    block header would not fit in a `size_t` -/
theorem no_wrap (n : Nat) (h : ¬ n > sizeMax - 7 - Tables.sizeofArenaBlock) :
    roundUp8 n + Tables.sizeofArenaBlock ≤ sizeMax := by
  have := roundUp8_lt n
  have hs : Tables.sizeofArenaBlock ≤ 4096 := by decide
  unfold sizeMax at h ⊢
  omega

/-- bookkeeping invariant: the bump pointer of every block is within the block and
    8-aligned -/
def Inv (a : Arena) : Prop := ∀ b ∈ a.blocks, b.used ≤ b.cap ∧ b.used % 8 = 0

theorem create_inv : Inv Arena.create := by
  intro b hb
  simp [Arena.blocks, Arena.create] at hb
  subst hb
  exact ⟨by simp, by simp⟩

/-- a region lies in the used part of its block -/
def RegionIn (a : Arena) (r : Region) : Prop :=
  ∃ b, a.blocks[r.blk]? = some b ∧ r.off + r.len ≤ b.used

def Disjoint (r s : Region) : Prop := r.blk ≠ s.blk ∨ r.off + r.len ≤ s.off ∨ s.off + s.len ≤ r.off

/-- later states only append blocks and advance bump pointers -/
def Extends (a a' : Arena) : Prop :=
  a.blocks.length ≤ a'.blocks.length ∧
  ∀ (i : Nat) (b : Block), a.blocks[i]? = some b → ∃ b' : Block, a'.blocks[i]? = some b' ∧ b'.cap = b.cap ∧ b.used ≤ b'.used

theorem Extends.refl (a : Arena) : Extends a a := ⟨Nat.le_refl _, fun i b h => ⟨b, h, rfl, Nat.le_refl _⟩⟩

theorem Extends.trans {a b c : Arena} (h1 : Extends a b) (h2 : Extends b c) : Extends a c := by
  refine ⟨Nat.le_trans h1.1 h2.1, ?_⟩
  intro i x hx
  obtain ⟨y, hy, hcy, huy⟩ := h1.2 i x hx
  obtain ⟨z, hz, hcz, huz⟩ := h2.2 i y hy
  exact ⟨z, hz, by rw [hcz, hcy], Nat.le_trans huy huz⟩

theorem RegionIn.mono {a a' : Arena} {r : Region} (h : RegionIn a r) (he : Extends a a') : RegionIn a' r := by
  obtain ⟨b, hb, hr⟩ := h
  obtain ⟨b', hb', _, hu⟩ := he.2 _ _ hb
  exact ⟨b', hb', Nat.le_trans hr hu⟩

theorem blocks_cur (a : Arena) : a.blocks[a.prev.length]? = some a.cur := by
  simp [Arena.blocks]

theorem blocks_prev (a : Arena) {i : Nat} (hi : i < a.prev.length) : a.blocks[i]? = a.prev[i]? := by
  simp [Arena.blocks, List.getElem?_append_left hi]

theorem blocks_some_le (a : Arena) {i : Nat} {b : Block} (h : a.blocks[i]? = some b) : i ≤ a.prev.length := by
  have := (List.getElem?_eq_some_iff.mp h).1
  simp [Arena.blocks] at this
  omega

theorem blocks_cases (a : Arena) {i : Nat} {b : Block} (h : a.blocks[i]? = some b) :
    (i < a.prev.length ∧ a.prev[i]? = some b) ∨ (i = a.prev.length ∧ b = a.cur) := by
  have hle := blocks_some_le a h
  by_cases hi : i < a.prev.length
  · left; exact ⟨hi, by rw [← blocks_prev a hi]; exact h⟩
  · right
    have : i = a.prev.length := by omega
    subst this
    rw [blocks_cur] at h
    exact ⟨rfl, by simpa using h.symm⟩

/-- fast path: the current block has room -/
theorem alloc_fast (m : Nat → Bool) (a : Arena) (n : Nat)
    (hbig : ¬ n > sizeMax - 7 - Tables.sizeofArenaBlock) (hfit : roundUp8 n ≤ a.cur.cap - a.cur.used) :
    a.alloc m n = (some ⟨a.prev.length, a.cur.used, roundUp8 n⟩,
      { a with cur := { a.cur with used := a.cur.used + roundUp8 n } }) := by
  unfold Arena.alloc; simp only [hbig, ↓reduceIte, hfit]

def slowBlockSize (a : Arena) (n : Nat) : Nat :=
  if roundUp8 n > a.nextBlockSize then roundUp8 n else a.nextBlockSize

def slowNext (a : Arena) : Nat :=
  if a.nextBlockSize < Tables.arenaLargeSize then
    (if a.nextBlockSize * 2 > Tables.arenaLargeSize then Tables.arenaLargeSize else a.nextBlockSize * 2)
  else a.nextBlockSize

/-- slow path with a successful `malloc`: a fresh block -/
theorem alloc_slow_ok (m : Nat → Bool) (a : Arena) (n : Nat)
    (hbig : ¬ n > sizeMax - 7 - Tables.sizeofArenaBlock) (hfit : ¬ roundUp8 n ≤ a.cur.cap - a.cur.used)
    (hm : m (Tables.sizeofArenaBlock + slowBlockSize a n) = true) :
    a.alloc m n = (some ⟨a.prev.length + 1, 0, roundUp8 n⟩,
      { prev := a.prev ++ [a.cur], cur := ⟨slowBlockSize a n, roundUp8 n⟩, nextBlockSize := slowNext a }) := by
  unfold Arena.alloc slowBlockSize slowNext at *
  simp only [hbig, ↓reduceIte, hfit, hm, Bool.not_true, Bool.false_eq_true]

/-- every failing case returns NULL and leaves the arena unchanged -/
theorem alloc_fail (m : Nat → Bool) (a : Arena) (n : Nat)
    (h : n > sizeMax - 7 - Tables.sizeofArenaBlock ∨
         (¬ roundUp8 n ≤ a.cur.cap - a.cur.used ∧ m (Tables.sizeofArenaBlock + slowBlockSize a n) = false)) :
    a.alloc m n = (none, a) := by
  unfold Arena.alloc slowBlockSize at *
  rcases h with h | ⟨h1, h2⟩
  · simp only [h, ↓reduceIte]
  · by_cases hbig : n > sizeMax - 7 - Tables.sizeofArenaBlock
    · simp only [hbig, ↓reduceIte]
    · simp only [hbig, ↓reduceIte, h1, h2, Bool.not_false]

/-- one request: the full contract of `edn_arena_alloc` -/
theorem alloc_spec (m : Nat → Bool) (a : Arena) (n : Nat) (hinv : Inv a) :
    Inv (a.alloc m n).2 ∧ Extends a (a.alloc m n).2 ∧
    ((a.alloc m n).1 = none → (a.alloc m n).2 = a) ∧
    (∀ g, (a.alloc m n).1 = some g →
        g.off % 8 = 0 ∧ n ≤ g.len ∧ RegionIn (a.alloc m n).2 g ∧
        (∃ b, (a.alloc m n).2.blocks[g.blk]? = some b ∧ g.off + g.len ≤ b.cap) ∧
        ∀ s, RegionIn a s → Disjoint s g) := by
  have hcur : a.cur ∈ a.blocks := by simp [Arena.blocks]
  obtain ⟨hcu, hcm⟩ := hinv a.cur hcur
  have hr8 := roundUp8_mod n
  by_cases hbig : n > sizeMax - 7 - Tables.sizeofArenaBlock
  · rw [alloc_fail m a n (Or.inl hbig)]
    exact ⟨hinv, Extends.refl a, fun _ => rfl, fun g hg => by simp at hg⟩
  · by_cases hfit : roundUp8 n ≤ a.cur.cap - a.cur.used
    · rw [alloc_fast m a n hbig hfit]
      refine ⟨?_, ?_, fun h => by simp at h, ?_⟩
      · intro b hb
        simp only [Arena.blocks, List.mem_append, List.mem_singleton] at hb
        rcases hb with hb | hb
        · exact hinv b (by simp [Arena.blocks, hb])
        · subst hb
          exact ⟨by simp only; omega, by simp only; omega⟩
      · refine ⟨by simp [Arena.blocks], ?_⟩
        intro i b hb
        rcases blocks_cases a hb with ⟨hi, hp⟩ | ⟨hi, hbc⟩
        · exact ⟨b, by rw [blocks_prev _ (by simpa using hi)]; exact hp, rfl, Nat.le_refl _⟩
        · subst hi; subst hbc
          exact ⟨_, blocks_cur _, rfl, by simp⟩
      · intro g hg
        simp only [Option.some.injEq] at hg
        subst hg
        refine ⟨hcm, roundUp8_ge n, ⟨_, blocks_cur _, by simp⟩, ⟨_, blocks_cur _, by simp only; omega⟩, ?_⟩
        intro s ⟨b, hb, hs⟩
        rcases blocks_cases a hb with ⟨hi, _⟩ | ⟨hi, hbc⟩
        · left; simp only; omega
        · right; left; subst hbc; exact hs
    · by_cases hm : m (Tables.sizeofArenaBlock + slowBlockSize a n) = true
      · rw [alloc_slow_ok m a n hbig hfit hm]
        refine ⟨?_, ?_, fun h => by simp at h, ?_⟩
        · intro b hb
          simp only [Arena.blocks, List.mem_append, List.mem_singleton] at hb
          rcases hb with (hb | hb) | hb
          · exact hinv b (by simp [Arena.blocks, hb])
          · subst hb; exact ⟨hcu, hcm⟩
          · subst hb
            refine ⟨?_, hr8⟩
            simp only [slowBlockSize]
            split <;> omega
        · refine ⟨by simp [Arena.blocks], ?_⟩
          intro i b hb
          refine ⟨b, ?_, rfl, Nat.le_refl _⟩
          have hlt : i < (a.prev ++ [a.cur]).length := (List.getElem?_eq_some_iff.mp hb).1
          simp only [Arena.blocks] at hb ⊢
          rw [List.getElem?_append_left hlt]
          exact hb
        · intro g hg
          simp only [Option.some.injEq] at hg
          subst hg
          refine ⟨by simp, roundUp8_ge n, ⟨_, by simpa using blocks_cur ⟨a.prev ++ [a.cur], _, _⟩, by simp⟩,
            ⟨_, by simpa using blocks_cur ⟨a.prev ++ [a.cur], _, _⟩, ?_⟩, ?_⟩
          · simp only [slowBlockSize]
            split <;> omega
          · intro s ⟨b, hb, _⟩
            left
            have := blocks_some_le a hb
            simp only; omega
      · rw [alloc_fail m a n (Or.inr ⟨hfit, by simpa using hm⟩)]
        exact ⟨hinv, Extends.refl a, fun _ => rfl, fun g hg => by simp at hg⟩

/-- the ghost history of a run: regions handed out so far -/
def regionsOf (rs : List (Option Region)) : List Region := rs.filterMap id

/-- every reachable state, for every request sequence and every behaviour of `malloc`:
    all regions handed out are aligned, large enough, inside their blocks and pairwise
    disjoint, and earlier regions stay where they are -/
theorem run_spec (m : Nat → Bool) : ∀ (ns : List Nat) (a : Arena) (old : List Region), Inv a →
    (∀ r ∈ old, RegionIn a r) → old.Pairwise Disjoint →
    let (rs, a') := Arena.run m a ns
    Inv a' ∧ Extends a a' ∧
    (∀ r ∈ old ++ regionsOf rs, RegionIn a' r) ∧
    (old ++ regionsOf rs).Pairwise Disjoint ∧
    (∀ r ∈ regionsOf rs, r.off % 8 = 0) ∧
    (rs.length = ns.length) ∧
    (∀ i (hi : i < ns.length) g, rs[i]? = some (some g) → ns[i] ≤ g.len) := by
  intro ns
  induction ns with
  | nil =>
    intro a old hinv hin hd
    simp only [Arena.run, regionsOf, List.filterMap_nil, List.append_nil]
    exact ⟨hinv, Extends.refl a, hin, hd, by simp, rfl, by simp⟩
  | cons n ns ih =>
    intro a old hinv hin hd
    simp only [Arena.run]
    have hs := alloc_spec m a n hinv
    generalize hr : a.alloc m n = res at hs
    obtain ⟨r, a1⟩ := res
    simp only at hs
    obtain ⟨hinv1, hext1, hnone, hsome⟩ := hs
    cases r with
    | none =>
      have := ih a1 old hinv1 (fun r hr => (hin r hr).mono hext1) hd
      generalize hrun : Arena.run m a1 ns = res2 at this
      obtain ⟨rs, a2⟩ := res2
      simp only at this ⊢
      obtain ⟨i1, i2, i3, i4, i5, i6, i7⟩ := this
      refine ⟨i1, hext1.trans i2, ?_, ?_, ?_, by simp [i6], ?_⟩
      · simpa [regionsOf] using i3
      · simpa [regionsOf] using i4
      · simpa [regionsOf] using i5
      · intro i hi g hg
        cases i with
        | zero => simp at hg
        | succ k =>
          simp only [List.getElem?_cons_succ] at hg
          simpa using i7 k (by simpa using hi) g hg
    | some g =>
      obtain ⟨hal, hlen, hing, _, hdis⟩ := hsome g rfl
      have hold1 : ∀ r ∈ old ++ [g], RegionIn a1 r := by
        intro r hr
        simp only [List.mem_append, List.mem_singleton] at hr
        rcases hr with hr | hr
        · exact (hin r hr).mono hext1
        · subst hr; exact hing
      have hd1 : (old ++ [g]).Pairwise Disjoint := by
        rw [List.pairwise_append]
        refine ⟨hd, by simp, ?_⟩
        intro x hx y hy
        simp only [List.mem_singleton] at hy
        subst hy
        exact hdis x (hin x hx)
      have := ih a1 (old ++ [g]) hinv1 hold1 hd1
      generalize hrun : Arena.run m a1 ns = res2 at this
      obtain ⟨rs, a2⟩ := res2
      simp only at this ⊢
      obtain ⟨i1, i2, i3, i4, i5, i6, i7⟩ := this
      refine ⟨i1, hext1.trans i2, ?_, ?_, ?_, by simp [i6], ?_⟩
      · simpa [regionsOf, List.append_assoc] using i3
      · simpa [regionsOf, List.append_assoc] using i4
      · intro r hr
        simp only [regionsOf, List.filterMap_cons, id] at hr
        simp only [List.mem_cons] at hr
        rcases hr with hr | hr
        · subst hr; exact hal
        · exact i5 r hr
      · intro i hi g' hg'
        cases i with
        | zero =>
          simp at hg'
          subst hg'
          simpa using hlen
        | succ k =>
          simp only [List.getElem?_cons_succ] at hg'
          simpa using i7 k (by simpa using hi) g' hg'

end Edn.Proofs
